(* Proofs about model/Handshake.v (property C17). *)
From Saito Require Import Base Handshake.

Local Open Scope N_scope.

(* ------------------------------------------------------------------ *)
(* association lists                                                    *)
(* ------------------------------------------------------------------ *)
Section AL.
  Context {V : Type}.
  Implicit Types m : list (N * V).

  Lemma aget_aset_eq k (v : V) m : aget k (aset k v m) = Some v.
  Proof.
    induction m as [|[k' v'] t IH]; cbn [aset aget].
    - now rewrite N.eqb_refl.
    - destruct (N.eqb_spec k k') as [E|E]; cbn [aget].
      + now rewrite N.eqb_refl.
      + destruct (k <? k'); cbn [aget].
        * now rewrite N.eqb_refl.
        * destruct (N.eqb_spec k k'); [contradiction|exact IH].
  Qed.

  Lemma aget_aset_neq k k' (v : V) m : k' <> k -> aget k' (aset k v m) = aget k' m.
  Proof.
    intros Hne. induction m as [|[k0 v0] t IH]; cbn [aset aget].
    - destruct (N.eqb_spec k' k); [contradiction|reflexivity].
    - destruct (N.eqb_spec k k0) as [E|E]; cbn [aget].
      + subst k0. destruct (N.eqb_spec k' k); [contradiction|reflexivity].
      + destruct (k <? k0); cbn [aget].
        * destruct (N.eqb_spec k' k); [contradiction|reflexivity].
        * destruct (k' =? k0); [reflexivity|exact IH].
  Qed.

  Lemma in_aset k (v : V) m kv : In kv (aset k v m) -> kv = (k, v) \/ In kv m.
  Proof.
    induction m as [|[k' v'] t IH]; cbn [aset]; intros H.
    - destruct H as [H|[]]; auto.
    - destruct (k =? k'); [destruct H; [auto|right; right; auto]|].
      destruct (k <? k'); [destruct H; auto|].
      destruct H as [H|H]; [right; left; auto|].
      destruct (IH H); auto. right; right; auto.
  Qed.

  Lemma aget_in k (v : V) m : aget k m = Some v -> In (k, v) m.
  Proof.
    induction m as [|[k' v'] t IH]; cbn [aget]; [discriminate|].
    destruct (N.eqb_spec k k'); intros H; [inversion H; subst; left; auto|right; auto].
  Qed.

  Lemma aget_notin k m : (forall kv, In kv m -> fst kv <> k) -> aget k m = None.
  Proof.
    induction m as [|[k' v'] t IH]; cbn [aget]; intros H; [reflexivity|].
    destruct (N.eqb_spec k k') as [E|E].
    - exfalso. apply (H (k', v')); [left; reflexivity|cbn; congruence].
    - apply IH. intros kv Hin. apply H. right; exact Hin.
  Qed.

  Lemma aget_del_eq k m : aget k (del k m) = None.
  Proof.
    apply aget_notin. intros kv Hin. unfold del in Hin. apply filter_In in Hin as [_ Hf].
    destruct (N.eqb_spec (fst kv) k); [discriminate|assumption].
  Qed.

  Lemma aget_del_neq k k' m : k' <> k -> aget k' (del k m) = aget k' m.
  Proof.
    intros Hne. induction m as [|[k0 v0] t IH]; cbn [del filter aget fst]; [reflexivity|].
    fold (del k t).
    destruct (N.eqb_spec k0 k) as [E|E]; cbn [negb aget].
    - subst k0. destruct (N.eqb_spec k' k); [contradiction|exact IH].
    - destruct (k' =? k0); [reflexivity|exact IH].
  Qed.

  (* keys strictly increasing *)
  Fixpoint ksorted m : Prop :=
    match m with
    | [] => True
    | kv :: t => (forall kv', In kv' t -> fst kv < fst kv') /\ ksorted t
    end.

  Lemma ksorted_aset k (v : V) m : ksorted m -> ksorted (aset k v m).
  Proof.
    induction m as [|[k' v'] t IH]; cbn [aset ksorted]; intros Hs.
    - split; [intros ? []|exact I].
    - destruct Hs as [Hlt Hs].
      destruct (N.eqb_spec k k') as [E|E]; cbn [ksorted].
      + subst k'. split; assumption.
      + destruct (N.ltb_spec k k') as [L|L]; cbn [ksorted fst].
        * split; [|split; assumption].
          intros kv' [<-|Hin]; cbn [fst]; [exact L|]. specialize (Hlt _ Hin). cbn [fst] in Hlt. lia.
        * split; [|apply IH; exact Hs].
          intros kv' Hin. apply in_aset in Hin as [->|Hin]; cbn [fst]; [lia|].
          specialize (Hlt _ Hin). exact Hlt.
  Qed.

  Lemma ksorted_filter (f : N * V -> bool) m : ksorted m -> ksorted (filter f m).
  Proof.
    induction m as [|kv t IH]; cbn [filter ksorted]; intros Hs; [exact I|].
    destruct Hs as [Hlt Hs]. destruct (f kv); cbn [ksorted]; [|apply IH; exact Hs].
    split; [|apply IH; exact Hs].
    intros kv' Hin. apply filter_In in Hin as [Hin _]. apply Hlt; exact Hin.
  Qed.

  Lemma in_aget k (v : V) m : ksorted m -> In (k, v) m -> aget k m = Some v.
  Proof.
    induction m as [|[k' v'] t IH]; cbn [ksorted aget]; intros Hs Hin; [destruct Hin|].
    destruct Hs as [Hlt Hs]. destruct Hin as [E|Hin].
    - inversion E; subst. now rewrite N.eqb_refl.
    - specialize (Hlt _ Hin). cbn [fst] in Hlt.
      destruct (N.eqb_spec k k'); [lia|]. apply IH; assumption.
  Qed.

  Lemma aget_filter (f : N * V -> bool) k m :
    ksorted m ->
    aget k (filter f m) =
    match aget k m with Some v => if f (k, v) then Some v else None | None => None end.
  Proof.
    induction m as [|[k' v'] t IH]; cbn [ksorted filter aget]; intros Hs; [reflexivity|].
    destruct Hs as [Hlt Hs].
    destruct (N.eqb_spec k k') as [E|E].
    - subst k'. destruct (f (k, v')) eqn:Hf; cbn [aget].
      + now rewrite N.eqb_refl.
      + apply aget_notin. intros kv Hin. apply filter_In in Hin as [Hin _].
        specialize (Hlt _ Hin). cbn [fst] in Hlt. lia.
    - destruct (f (k', v')); cbn [aget].
      + destruct (N.eqb_spec k k'); [contradiction|]. apply IH; exact Hs.
      + apply IH; exact Hs.
  Qed.

  Lemma ksorted_app_one m k (v : V) :
    ksorted m -> (forall kv, In kv m -> fst kv < k) -> ksorted (m ++ [(k, v)]).
  Proof.
    induction m as [|kv t IH]; cbn [app ksorted]; intros Hs Hlt.
    - split; [intros ? []|exact I].
    - destruct Hs as [H1 H2]. split.
      + intros kv' Hin. apply in_app_or in Hin as [Hin|[<-|[]]]; [apply H1; exact Hin|].
        cbn [fst]. apply Hlt. left; reflexivity.
      + apply IH; [exact H2|]. intros kv' Hin. apply Hlt. right; exact Hin.
  Qed.
End AL.

Lemma del_ksorted {V} k (m : list (N * V)) : ksorted m -> ksorted (del k m).
Proof. apply ksorted_filter. Qed.

(* ------------------------------------------------------------------ *)
(* small facts                                                          *)
(* ------------------------------------------------------------------ *)
Lemma verify_true ch sg k : verify ch sg k = true -> sg = Sig k ch.
Proof.
  destruct sg as [k' m'|]; cbn [verify]; [|discriminate].
  intros H. apply andb_true_iff in H as [H1 H2].
  apply N.eqb_eq in H1, H2. now subst.
Qed.

Lemma in_signed_In k m l : in_signed k m l = true -> In (k, m) l.
Proof.
  unfold in_signed. intros H. apply existsb_exists in H as [[k' m'] [Hin H]].
  cbn [fst snd] in H. apply andb_true_iff in H as [H1 H2].
  apply N.eqb_eq in H1, H2. now subst.
Qed.

Lemma status_eqb_eq a b : status_eqb a b = true <-> a = b.
Proof. destruct a, b; cbn; split; intros; congruence. Qed.

Lemma bump_ge s v : next s <= bump s v.
Proof. unfold bump. lia. Qed.
Lemma bump_gt s v : v < bump s v.
Proof. unfold bump. lia. Qed.

Lemma find_cand_some K ps c p :
  find (cand K) ps = Some (c, p) -> In (c, p) ps /\ cand K (c, p) = true.
Proof. apply find_some. Qed.

(* ------------------------------------------------------------------ *)
(* relational form of [step]                                           *)
(* ------------------------------------------------------------------ *)
Definition accept_events (g : cfg) (p : peer) (r : response) (c ch : N) : list event :=
  (if p_static p then [] else [ESigned (me g) (r_chal r)]) ++ [EAccepted c (r_pk r) ch].
Definition accept_signed (g : cfg) (p : peer) (r : response) (sg : list (N * N)) : list (N * N) :=
  if p_static p then sg else (me g, r_chal r) :: sg.
Definition accepted_peer (p : peer) (l : limiter) (r : response) : peer :=
  mkP Connected (p_static p) None (Some (r_pk r)) (r_cver r) (r_wver r) l (p_disc p).

Inductive Step (g : cfg) (s : state) : action -> state -> list event -> Prop :=
| S_new_static c p0 :
    p0 = match aget c (peers s) with Some p => p | None => new_peer end ->
    p_static p0 = true ->
    Step g s (ANewPeer c)
         (upd_peers s (aset c (set_chal (set_status p0 Connecting) None) (peers s))) [EReset c]
| S_new_dyn c p0 :
    p0 = match aget c (peers s) with Some p => p | None => new_peer end ->
    p_static p0 = false ->
    Step g s (ANewPeer c)
         (mkS (aset c (set_chal (set_status p0 Connecting) (Some (next s))) (peers s))
              (addr s) (next s + 1) (now s) (signed s))
         [EIssued c (next s); EReset c]
| S_idle a nx nw :
    next s <= nx ->
    Step g s a (mkS (peers s) (addr s) nx nw (signed s)) []
| S_limited a c p l nx :
    aget c (peers s) = Some p -> next s <= nx ->
    Step g s a (mkS (aset c (set_lim p l) (peers s)) (addr s) nx (now s) (signed s)) []
| S_chal c x p l :
    aget c (peers s) = Some p ->
    Step g s (ADeliverChal c x)
         (mkS (aset c (set_chal (set_lim p l) (Some (bump s x))) (peers s)) (addr s)
              (bump s x + 1) (now s) ((me g, x) :: signed s))
         [EIssued c (bump s x); ESigned (me g) x]
| S_rejected c r pref p l :
    aget c (peers s) = Some p ->
    Step g s (ADeliverResp c r pref)
         (mkS (aset c (mark_disc (now s) (set_lim p l)) (peers s)) (addr s)
              (bump s (r_chal r)) (now s) (signed s))
         [EReset c]
| S_disc c ext p :
    aget c (peers s) = Some p ->
    Step g s (ADisconnect c ext) (upd_peers s (aset c (mark_disc (now s) p) (peers s))) [EReset c]
| S_accept c r pref p l ch :
    aget c (peers s) = Some p -> p_chal p = Some ch ->
    verify ch (r_sig r) (r_pk r) = true ->
    key_differs p (r_pk r) = false ->
    Step g s (ADeliverResp c r pref)
         (mkS (aset c (accepted_peer p l r) (peers s)) (aset (r_pk r) c (addr s))
              (bump s (r_chal r)) (now s) (accept_signed g p r (signed s)))
         (accept_events g p r c ch)
| S_rejoin c r pref p l ch idx old :
    aget c (peers s) = Some p -> p_chal p = Some ch ->
    verify ch (r_sig r) (r_pk r) = true ->
    key_differs p (r_pk r) = false ->
    idx <> c -> aget idx (peers s) = Some old ->
    p_pk old = Some (r_pk r) -> p_status old <> Connected ->
    Step g s (ADeliverResp c r pref)
         (mkS (aset c (mkP Connected (p_static old) None (Some (r_pk r)) (r_cver r) (r_wver r)
                           (p_lim old) None)
                    (del idx (aset c (accepted_peer p l r) (peers s))))
              (aset (r_pk r) c (del (r_pk r) (addr s)))
              (bump s (r_chal r)) (now s) (accept_signed g p r (signed s)))
         (ERemoved idx :: accept_events g p r c ch)
| S_purge :
    Step g s APurge
         (mkS (filter (fun cp => negb (purgeable (now s) cp)) (peers s))
              (fold_left (repoint (filter (fun cp => negb (purgeable (now s) cp)) (peers s)))
                         (filter (purgeable (now s)) (peers s)) (addr s))
              (next s) (now s) (signed s))
         (map (fun cp => EPurged (fst cp)) (filter (purgeable (now s)) (peers s)))
| S_sign k m :
    Step g s (ARemoteSign k m)
         (mkS (peers s) (addr s) (bump s m) (now s) ((k, m) :: signed s)) [ESigned k m].

Lemma cand_spec K c p :
  cand K (c, p) = true <-> p_pk p = Some K /\ p_status p <> Connected.
Proof.
  unfold cand; cbn [snd]. destruct (p_pk p) as [k|]; [|split; [discriminate|intros [? _]; discriminate]].
  rewrite andb_true_iff, N.eqb_eq, negb_true_iff. split.
  - intros [-> H]. split; [reflexivity|]. intros E. rewrite E in H. discriminate.
  - intros [E H]. inversion E; subst. split; [reflexivity|].
    destruct (p_status p); cbn; try reflexivity. contradiction.
Qed.

Lemma find_reconnected_some K pref ps idx :
  ksorted ps -> find_reconnected K pref ps = Some idx ->
  exists old, aget idx ps = Some old /\ cand K (idx, old) = true.
Proof.
  intros Hs. unfold find_reconnected.
  assert (Hfirst : option_map fst (find (cand K) ps) = Some idx ->
                   exists old, aget idx ps = Some old /\ cand K (idx, old) = true).
  { destruct (find (cand K) ps) as [[c p]|] eqn:Hf; cbn [option_map fst]; [|discriminate].
    intros E; inversion E; subst. apply find_cand_some in Hf as [Hin Hc].
    exists p. split; [apply in_aget; assumption|exact Hc]. }
  destruct (aget pref ps) as [p|] eqn:Hp; [|exact Hfirst].
  destruct (cand K (pref, p)) eqn:Hc; [|exact Hfirst].
  intros E; inversion E; subst. eauto.
Qed.

Ltac inv H := inversion H; subst; clear H.

Lemma peer_response_cases g nw c p r :
  (exists outs, peer_response g nw c p r = PRejected (mark_disc nw p) outs)
  \/ (exists ch outs, p_chal p = Some ch /\ verify ch (r_sig r) (r_pk r) = true
        /\ key_differs p (r_pk r) = false
        /\ v_is_set (r_cver r) = true /\ v_same_minor (my_cver g) (r_cver r) = true
        /\ peer_response g nw c p r =
           PAccepted (accepted_peer p (p_lim p) r) outs ch
                     (if p_static p then None else Some (r_chal r))).
Proof.
  unfold peer_response.
  destruct (v_is_set (r_cver r)) eqn:E1; cbn [negb]; [|left; eauto].
  destruct (p_chal p) as [ch|] eqn:E2; [|left; eauto].
  destruct (verify ch (r_sig r) (r_pk r)) eqn:E3; cbn [negb]; [|left; eauto].
  destruct (v_same_minor (my_cver g) (r_cver r)) eqn:E4; cbn [negb]; [|left; eauto].
  destruct (key_differs p (r_pk r)) eqn:E5; [left; eauto|].
  right. exists ch. eexists. repeat split; try reflexivity; assumption.
Qed.

Lemma step_Step g s a s' outs ev :
  ksorted (peers s) -> step g s a = Ok (s', outs, ev) -> Step g s a s' ev.
Proof.
  intros Hs H. destruct a as [c|c x|c r pref|c ext| |dt|k m]; cbn [step] in H.
  - (* new peer *)
    remember (match aget c (peers s) with Some p => p | None => new_peer end) as p0 eqn:Hp0.
    destruct (p_static (set_status p0 Connecting)) eqn:Hst; injection H as <- <- <-.
    + eapply S_new_static; eauto.
    + eapply S_new_dyn; eauto.
  - (* challenge *)
    destruct (aget c (peers s)) as [p|] eqn:Hp.
    + destruct (lim_check (now s) (lim_increase (p_lim p))) as [ex l].
      destruct ex; inv H.
      * eapply S_limited; eauto using bump_ge.
      * eapply S_chal; eauto.
    + inv H. apply S_idle. apply bump_ge.
  - (* response *)
    destruct (aget c (peers s)) as [p|] eqn:Hp; [|inv H; apply S_idle; apply bump_ge].
    destruct (lim_check (now s) (lim_increase (p_lim p))) as [ex l].
    destruct ex; [inv H; eapply S_limited; eauto using bump_ge|].
    destruct (peer_response_cases g (now s) c (set_lim p l) r)
      as [[o Hr]|[ch [o [Hch [Hv [Hk [_ [_ Hr]]]]]]]]; rewrite Hr in H.
    + inv H. eapply S_rejected; eauto.
    + cbn [set_lim p_chal p_static p_lim] in *.
      change (key_differs (set_lim p l) (r_pk r)) with (key_differs p (r_pk r)) in Hk.
      change (accepted_peer (set_lim p l) l r) with (accepted_peer p l r) in H.
      set (ps1 := aset c (accepted_peer p l r) (peers s)) in *.
      assert (Hs1 : ksorted ps1) by (apply ksorted_aset; exact Hs).
      assert (Hc1 : aget c ps1 = Some (accepted_peer p l r)) by apply aget_aset_eq.
      assert (Esg : match (if p_static p then None else Some (r_chal r)) with
                    | Some m => (me g, m) :: signed s | None => signed s end
                    = accept_signed g p r (signed s))
        by (unfold accept_signed; destruct (p_static p); reflexivity).
      assert (Eev : match (if p_static p then None else Some (r_chal r)) with
                    | Some m => [ESigned (me g) m] | None => [] end ++ [EAccepted c (r_pk r) ch]
                    = accept_events g p r c ch)
        by (unfold accept_events; destruct (p_static p); reflexivity).
      rewrite Esg, Eev in H. clear Esg Eev.
      destruct (find_reconnected (r_pk r) pref ps1) as [idx|] eqn:Hf.
      * destruct (find_reconnected_some _ _ _ _ Hs1 Hf) as [old [Hold Hcand]].
        rewrite Hold in H. apply cand_spec in Hcand as [Hpk Hnc].
        assert (Hne : idx <> c).
        { intros ->. rewrite Hc1 in Hold. inv Hold. apply Hnc. reflexivity. }
        rewrite aget_del_neq in H by congruence. rewrite Hc1 in H.
        destruct (status_eqb (p_status old) Connected) eqn:Hst.
        { apply status_eqb_eq in Hst. contradiction. }
        unfold ps1 in Hold. rewrite aget_aset_neq in Hold by exact Hne.
        inv H. eapply S_rejoin; eauto.
      * inv H. eapply S_accept; eauto.
  - (* disconnect *)
    destruct (aget c (peers s)) as [p|] eqn:Hp; inv H.
    + eapply S_disc; eauto.
    + match goal with |- Step _ ?x _ _ _ => destruct x as [ps ad nx nw sg] end.
      apply (S_idle g (mkS ps ad nx nw sg) (ADisconnect c ext) nx nw). cbn. lia.
  - inv H. apply S_purge.
  - inv H. apply S_idle. lia.
  - inv H. apply S_sign.
Qed.

(* ------------------------------------------------------------------ *)
(* traces                                                               *)
(* ------------------------------------------------------------------ *)
(* traces are newest-first *)
Definition ev_lt (b : N) (e : event) : Prop :=
  match e with
  | EIssued _ ch => ch < b
  | ESigned _ m => m < b
  | EAccepted _ _ ch => ch < b
  | _ => True
  end.

(* events that end the current connection of entry c (it is re-opened, closed, or the entry goes away) *)
Definition closes (c : N) (e : event) : bool :=
  match e with EReset c' | ERemoved c' | EPurged c' => c' =? c | _ => false end.
(* ch was issued on c and the connection of c was not re-opened / closed since *)
Fixpoint since_issue (c ch : N) (tr : list event) : Prop :=
  match tr with
  | [] => False
  | e :: l => e = EIssued c ch \/ (closes c e = false /\ since_issue c ch l)
  end.

(* what must hold of the events that happened before [e] *)
Definition ev_ok (e : event) (l : list event) : Prop :=
  match e with
  | EIssued c ch => Forall (ev_lt ch) l
  | EAccepted c K ch =>
      In (ESigned K ch) l /\ In (EIssued c ch) l /\ (forall c' k', ~ In (EAccepted c' k' ch) l)
      /\ since_issue c ch l
  | _ => True
  end.
Fixpoint trace_ok (tr : list event) : Prop :=
  match tr with [] => True | e :: l => ev_ok e l /\ trace_ok l end.

(* the acceptance that established the current session of connection c:
   the most recent event about c, if it is an acceptance *)
Fixpoint session (c : N) (tr : list event) : option (N * N) :=
  match tr with
  | [] => None
  | EAccepted c' k ch :: l => if c' =? c then Some (k, ch) else session c l
  | EReset c' :: l => if c' =? c then None else session c l
  | ERemoved c' :: l => if c' =? c then None else session c l
  | EPurged c' :: l => if c' =? c then None else session c l
  | _ :: l => session c l
  end.

Definition touches (c : N) (e : event) : bool :=
  match e with
  | EAccepted c' _ _ | EReset c' | ERemoved c' | EPurged c' => c' =? c
  | _ => false
  end.

Definition is_accept_of (ch : N) (e : event) : bool :=
  match e with EAccepted _ _ ch' => ch' =? ch | _ => false end.
Definition accepted_count (ch : N) (tr : list event) : nat := length (filter (is_accept_of ch) tr).

(* e1 happened before e2 *)
Definition before (e1 e2 : event) (tr : list event) : Prop :=
  exists l1 l2 l3, tr = l3 ++ e2 :: l2 ++ e1 :: l1.

Lemma ev_lt_mono b b' e : b <= b' -> ev_lt b e -> ev_lt b' e.
Proof. destruct e; cbn [ev_lt]; intros; try exact I; lia. Qed.

Lemma Forall_ev_lt_mono b b' l : b <= b' -> Forall (ev_lt b) l -> Forall (ev_lt b') l.
Proof. intros Hle H. eapply Forall_impl; [|exact H]. intros e. apply ev_lt_mono; exact Hle. Qed.

Lemma session_skip c e l : touches c e = false -> session c (e :: l) = session c l.
Proof. destruct e; cbn [touches session]; intros H; try reflexivity; now rewrite H. Qed.

Lemma session_app_skip c ev l :
  (forall e, In e ev -> touches c e = false) -> session c (ev ++ l) = session c l.
Proof.
  induction ev as [|e t IH]; intros H; [reflexivity|].
  cbn [app]. rewrite session_skip by (apply H; left; reflexivity).
  apply IH. intros e' Hin. apply H. right; exact Hin.
Qed.

Lemma session_in c tr K ch : session c tr = Some (K, ch) -> In (EAccepted c K ch) tr.
Proof.
  induction tr as [|e l IH]; cbn [session]; [discriminate|].
  destruct e as [c' ch'|k m|c' k ch'|c'|c'|c']; try (intros H; right; apply IH; exact H).
  - destruct (N.eqb_spec c' c); intros H; [inv H; left; reflexivity|right; apply IH; exact H].
  - destruct (c' =? c); intros H; [discriminate|right; apply IH; exact H].
  - destruct (c' =? c); intros H; [discriminate|right; apply IH; exact H].
  - destruct (c' =? c); intros H; [discriminate|right; apply IH; exact H].
Qed.

Lemma trace_ok_app l1 l2 : trace_ok (l1 ++ l2) -> trace_ok l2.
Proof. induction l1 as [|e t IH]; cbn [app trace_ok]; [auto|]. intros [_ H]; auto. Qed.

Lemma trace_ok_split l1 e l2 : trace_ok (l1 ++ e :: l2) -> ev_ok e l2 /\ trace_ok l2.
Proof. intros H. apply trace_ok_app in H. exact H. Qed.

Lemma issued_unique tr c c' ch :
  trace_ok tr -> In (EIssued c ch) tr -> In (EIssued c' ch) tr -> c = c'.
Proof.
  induction tr as [|e l IH]; [intros _ []|]. cbn [trace_ok]; intros [Hok Hl] H1 H2.
  assert (Hfresh : forall c0 c1, e = EIssued c0 ch -> In (EIssued c1 ch) l -> False).
  { intros c0 c1 -> Hin. cbn [ev_ok] in Hok. rewrite Forall_forall in Hok.
    specialize (Hok _ Hin). cbn [ev_lt] in Hok. lia. }
  destruct H1 as [H1|H1], H2 as [H2|H2].
  - congruence.
  - exfalso. eapply Hfresh; eauto.
  - exfalso. eapply Hfresh; eauto.
  - apply IH; assumption.
Qed.

(* a prefix of neutral events (no issue, no acceptance) keeps a trace well-formed *)
Definition neutral (e : event) : Prop :=
  match e with EIssued _ _ | EAccepted _ _ _ => False | _ => True end.
Lemma trace_ok_neutral ev tr : (forall e, In e ev -> neutral e) -> trace_ok tr -> trace_ok (ev ++ tr).
Proof.
  induction ev as [|e t IH]; intros Hn Ht; [exact Ht|]. cbn [app trace_ok]. split.
  - specialize (Hn e (or_introl eq_refl)). destruct e; cbn in Hn |- *; try exact I; contradiction.
  - apply IH; [|exact Ht]. intros e' Hin. apply Hn. right; exact Hin.
Qed.

(* ------------------------------------------------------------------ *)
(* the invariant                                                        *)
(* ------------------------------------------------------------------ *)
Record Inv (tr : list event) (s : state) : Prop := mkInv {
  i_sorted : ksorted (peers s);
  i_vals   : Forall (ev_lt (next s)) tr;
  i_signed : forall k m, In (k, m) (signed s) -> In (ESigned k m) tr;
  i_chal   : forall c p ch, aget c (peers s) = Some p -> p_chal p = Some ch ->
               In (EIssued c ch) tr /\ forall c' k', ~ In (EAccepted c' k' ch) tr;
  i_conn   : forall c p, aget c (peers s) = Some p -> p_status p = Connected ->
               exists K ch, p_pk p = Some K /\ session c tr = Some (K, ch);
  i_trace  : trace_ok tr;
  i_fresh  : forall c p ch, aget c (peers s) = Some p -> p_chal p = Some ch ->
               since_issue c ch tr;
}.

Lemma static_peers_in n kv : In kv (static_peers n) -> 1 <= fst kv <= N.of_nat n /\ snd kv = static_peer.
Proof.
  induction n as [|n IH]; cbn [static_peers]; [intros []|].
  intros H. apply in_app_or in H as [H|[<-|[]]].
  - destruct (IH H) as [IH1 IH2]. split; [lia|exact IH2].
  - cbn [fst snd]. split; [lia|reflexivity].
Qed.

Lemma static_peers_sorted n : ksorted (static_peers n).
Proof.
  induction n as [|n IH]; cbn [static_peers]; [exact I|].
  apply ksorted_app_one; [exact IH|]. intros kv Hin. apply static_peers_in in Hin. lia.
Qed.

Lemma Inv_init n f0 : Inv [] (init n f0).
Proof.
  constructor; cbn [init peers next signed].
  - apply static_peers_sorted.
  - constructor.
  - intros k m [].
  - intros c p ch Hp Hc. apply aget_in in Hp. apply static_peers_in in Hp as [_ Hp].
    cbn [snd] in Hp. subst p. discriminate.
  - intros c p Hp Hc. apply aget_in in Hp. apply static_peers_in in Hp as [_ Hp].
    cbn [snd] in Hp. subst p. discriminate.
  - exact I.
  - intros c p ch Hp Hc. apply aget_in in Hp. apply static_peers_in in Hp as [_ Hp].
    cbn [snd] in Hp. subst p. discriminate.
Qed.

(* lookups after an update of one entry *)
Lemma aget_aset_cases {V} c c0 (v : V) m x :
  aget c0 (aset c v m) = Some x -> (c0 = c /\ x = v) \/ (c0 <> c /\ aget c0 m = Some x).
Proof.
  destruct (N.eq_dec c0 c) as [->|Hne].
  - rewrite aget_aset_eq. intros E; inv E. left; auto.
  - rewrite aget_aset_neq by exact Hne. right; auto.
Qed.

Lemma not_in_app_accept c' k' ch ev tr :
  (forall e, In e ev -> is_accept_of ch e = false) ->
  ~ In (EAccepted c' k' ch) tr -> ~ In (EAccepted c' k' ch) (ev ++ tr).
Proof.
  intros Hev Htr Hin. apply in_app_or in Hin as [Hin|Hin]; [|contradiction].
  specialize (Hev _ Hin). cbn [is_accept_of] in Hev. rewrite N.eqb_refl in Hev. discriminate.
Qed.

Ltac solve_in := repeat (first [left; reflexivity | right]); assumption.

Lemma since_issue_app_skip c ch ev l :
  (forall e, In e ev -> closes c e = false) -> since_issue c ch l -> since_issue c ch (ev ++ l).
Proof.
  induction ev as [|e t IH]; intros H Hl; [exact Hl|]. cbn [app since_issue]. right. split.
  - apply H. left; reflexivity.
  - apply IH; [|exact Hl]. intros e' Hin. apply H. right; exact Hin.
Qed.

Lemma since_issue_split c ch l :
  since_issue c ch l ->
  exists l2 l1, l = l2 ++ EIssued c ch :: l1 /\ forall e, In e l2 -> closes c e = false.
Proof.
  induction l as [|e t IH]; cbn [since_issue]; [intros []|].
  intros [->|[Hc H]].
  - exists [], t. split; [reflexivity|intros e []].
  - destruct (IH H) as [l2 [l1 [-> Hl2]]]. exists (e :: l2), l1. split; [reflexivity|].
    intros e' [<-|Hin]; [exact Hc|apply Hl2; exact Hin].
Qed.

(* generic preservation for steps that neither issue nor accept and leave every
   entry's (challenge, status, key) alone or reset it *)
Definition weaker (c : N) (p p' : peer) : Prop :=
  (p_chal p' = p_chal p \/ p_chal p' = None) /\
  (p_status p' = Connected -> p_status p = Connected) /\ p_pk p' = p_pk p.

Lemma Inv_frame tr s ps' ad' nx' nw' ev :
  Inv tr s ->
  ksorted ps' -> next s <= nx' ->
  (forall e, In e ev -> neutral e /\ ev_lt nx' e) ->
  (forall c p', aget c ps' = Some p' ->
     (exists p, aget c (peers s) = Some p /\ weaker c p p' /\
                (p_status p' = Connected -> forall e, In e ev -> touches c e = false) /\
                (p_chal p' <> None -> forall e, In e ev -> closes c e = false))
     \/ (p_chal p' = None /\ p_status p' <> Connected)) ->
  Inv (ev ++ tr) (mkS ps' ad' nx' nw' (signed s)).
Proof.
  intros [Hs Hv Hsg Hch Hcn Htr Hfr] Hs' Hnx Hev Hp.
  assert (Hnoacc : forall ch e, In e ev -> is_accept_of ch e = false).
  { intros ch e Hin. destruct (Hev _ Hin) as [Hn _]. destruct e; cbn in Hn |- *; try reflexivity; contradiction. }
  constructor; cbn [peers next signed].
  - exact Hs'.
  - apply Forall_app. split.
    + apply Forall_forall. intros e Hin. apply Hev; exact Hin.
    + eapply Forall_ev_lt_mono; eauto.
  - intros k m Hin. apply in_or_app. right. apply Hsg; exact Hin.
  - intros c p' ch Hget Hc. destruct (Hp _ _ Hget) as [[p [Hg [[Hw _] _]]]|[Hnone _]]; [|congruence].
    destruct Hw as [Hw|Hw]; [|congruence].
    rewrite Hw in Hc. destruct (Hch _ _ _ Hg Hc) as [Hi Hna]. split.
    + apply in_or_app; right; exact Hi.
    + intros c' k'. apply not_in_app_accept; [intros e; apply Hnoacc|apply Hna].
  - intros c p' Hget Hc. destruct (Hp _ _ Hget) as [[p [Hg [[_ [Hst Hpk]] [Hto _]]]]|[_ Hn]]; [|contradiction].
    destruct (Hcn _ _ Hg (Hst Hc)) as [K [ch [HK Hses]]]. exists K, ch. split; [congruence|].
    rewrite session_app_skip; [exact Hses|]. apply Hto; exact Hc.
  - apply trace_ok_neutral; [|exact Htr]. intros e Hin. apply Hev; exact Hin.
  - intros c p' ch Hget Hc.
    destruct (Hp _ _ Hget) as [[p [Hg [[Hw _] [_ Hcl]]]]|[Hnone _]]; [|congruence].
    destruct Hw as [Hw|Hw]; [|congruence].
    apply since_issue_app_skip; [apply Hcl; congruence|]. rewrite Hw in Hc. eapply Hfr; eauto.
Qed.

Lemma neutral_reset c nx e : In e [EReset c] -> neutral e /\ ev_lt nx e.
Proof. intros [<-|[]]. split; exact I. Qed.

Lemma weaker_refl c p : weaker c p p.
Proof. repeat split; auto. Qed.

Lemma closes_other c c0 e : In e [EReset c] -> c0 <> c -> closes c0 e = false.
Proof. intros [<-|[]] Hn. cbn. apply N.eqb_neq. congruence. Qed.

Lemma Inv_step g tr s a s' ev :
  Inv tr s -> act_ok g s a = true -> Step g s a s' ev -> Inv (ev ++ tr) s'.
Proof.
  intros HI Hok HS. pose proof HI as [Hs Hv Hsg Hch Hcn Htr Hfr].
  destruct HS as
    [c p0 Hp0 Hst | c p0 Hp0 Hst | a nx nw Hnx | a c p l nx Hp Hnx | c x p l Hp
    | c r pref p l Hp | c ext p Hp
    | c r pref p l ch Hp Hpc Hver Hkd
    | c r pref p l ch idx old Hp Hpc Hver Hkd Hne Hold Hopk Host | | k m].
  - (* new peer, static: a stored challenge is discarded *)
    unfold upd_peers. apply Inv_frame;
      [exact HI|apply ksorted_aset; exact Hs|lia|intros e; apply neutral_reset|].
    intros c0 p' Hget. apply aget_aset_cases in Hget as [[-> ->]|[Hn Hget]].
    + right. cbn. split; [reflexivity|discriminate].
    + left. exists p'. split; [exact Hget|]. split; [apply weaker_refl|]. split.
      * intros _ e [<-|[]]. cbn. apply N.eqb_neq; congruence.
      * intros _ e Hin. eapply closes_other; eauto.
  - (* new peer, handshake initiated *)
    assert (Hnoacc : forall c' k', ~ In (EAccepted c' k' (next s)) tr).
    { intros c' k' Hin. rewrite Forall_forall in Hv. specialize (Hv _ Hin). cbn in Hv. lia. }
    constructor; cbn [peers next signed app].
    + apply ksorted_aset; exact Hs.
    + constructor; [cbn; lia|]. constructor; [exact I|].
      eapply Forall_ev_lt_mono; [|exact Hv]. lia.
    + intros k m Hin. right; right. apply Hsg; exact Hin.
    + intros c0 p' ch Hget Hc. apply aget_aset_cases in Hget as [[-> ->]|[Hn Hget]].
      * cbn in Hc. inv Hc. split; [left; reflexivity|].
        intros c' k' [E|[E|Hin]]; try discriminate. eapply Hnoacc; eauto.
      * destruct (Hch _ _ _ Hget Hc) as [Hi Hna]. split; [right; right; exact Hi|].
        intros c' k' [E|[E|Hin]]; try discriminate. eapply Hna; eauto.
    + intros c0 p' Hget Hc. apply aget_aset_cases in Hget as [[-> ->]|[Hn Hget]].
      * cbn in Hc. discriminate.
      * destruct (Hcn _ _ Hget Hc) as [K [ch [HK Hses]]]. exists K, ch. split; [exact HK|].
        cbn [session]. destruct (N.eqb_spec c c0); [congruence|exact Hses].
    + cbn [trace_ok ev_ok]. split; [|split; [exact I|exact Htr]].
      constructor; [exact I|exact Hv].
    + intros c0 p' ch Hget Hc. apply aget_aset_cases in Hget as [[-> ->]|[Hn Hget]].
      * cbn in Hc. inv Hc. left. reflexivity.
      * cbn [since_issue]. right. split; [reflexivity|]. right. split.
        { cbn. apply N.eqb_neq; congruence. }
        eapply Hfr; eauto.
  - (* nothing happens *)
    apply (Inv_frame tr s (peers s) (addr s) nx nw []); auto; [intros e []|].
    intros c p' Hget. left. exists p'. split; [exact Hget|]. split; [apply weaker_refl|].
    split; [intros _ e []|]. intros _ e [].
  - (* rate limited *)
    apply (Inv_frame tr s _ (addr s) nx (now s) []); auto using ksorted_aset; [intros e []|].
    intros c0 p' Hget. apply aget_aset_cases in Hget as [[-> ->]|[Hn Hget]]; left.
    + exists p. split; [exact Hp|]. split; [repeat split; cbn; auto|].
      split; [intros _ e []|]. intros _ e [].
    + exists p'. split; [exact Hget|]. split; [apply weaker_refl|].
      split; [intros _ e []|]. intros _ e [].
  - (* challenge answered: signs x, issues a fresh challenge *)
    pose proof (bump_ge s x) as Hge. pose proof (bump_gt s x) as Hgt.
    assert (Hnoacc : forall c' k', ~ In (EAccepted c' k' (bump s x)) tr).
    { intros c' k' Hin. rewrite Forall_forall in Hv. specialize (Hv _ Hin). cbn in Hv. lia. }
    constructor; cbn [peers next signed app].
    + apply ksorted_aset; exact Hs.
    + constructor; [cbn; lia|]. constructor; [cbn; lia|].
      eapply Forall_ev_lt_mono; [|exact Hv]. lia.
    + intros k m [E|Hin]; [inv E; right; left; reflexivity|right; right; apply Hsg; exact Hin].
    + intros c0 p' ch Hget Hc. apply aget_aset_cases in Hget as [[-> ->]|[Hn Hget]].
      * cbn in Hc. inv Hc. split; [left; reflexivity|].
        intros c' k' [E|[E|Hin]]; try discriminate. eapply Hnoacc; eauto.
      * destruct (Hch _ _ _ Hget Hc) as [Hi Hna]. split; [right; right; exact Hi|].
        intros c' k' [E|[E|Hin]]; try discriminate. eapply Hna; eauto.
    + intros c0 p' Hget Hc. apply aget_aset_cases in Hget as [[-> ->]|[Hn Hget]].
      * cbn in Hc. destruct (Hcn _ _ Hp Hc) as [K [ch [HK Hses]]]. exists K, ch. split; [exact HK|].
        exact Hses.
      * destruct (Hcn _ _ Hget Hc) as [K [ch [HK Hses]]]. exists K, ch. split; [exact HK|]. exact Hses.
    + cbn [trace_ok ev_ok]. split; [|split; [exact I|exact Htr]].
      constructor; [cbn; lia|]. eapply Forall_ev_lt_mono; [|exact Hv]. exact Hge.
    + intros c0 p' ch Hget Hc. apply aget_aset_cases in Hget as [[-> ->]|[Hn Hget]].
      * cbn in Hc. inv Hc. left. reflexivity.
      * cbn [since_issue]. right. split; [reflexivity|]. right. split; [reflexivity|].
        eapply Hfr; eauto.
  - (* rejected response *)
    apply Inv_frame;
      [exact HI|apply ksorted_aset; exact Hs|apply bump_ge|intros e; apply neutral_reset|].
    intros c0 p' Hget. apply aget_aset_cases in Hget as [[-> ->]|[Hn Hget]].
    + right. cbn. split; [reflexivity|discriminate].
    + left. exists p'. split; [exact Hget|]. split; [apply weaker_refl|]. split.
      * intros _ e [<-|[]]. cbn. apply N.eqb_neq; congruence.
      * intros _ e Hin. eapply closes_other; eauto.
  - (* disconnect *)
    unfold upd_peers. apply Inv_frame;
      [exact HI|apply ksorted_aset; exact Hs|lia|intros e; apply neutral_reset|].
    intros c0 p' Hget. apply aget_aset_cases in Hget as [[-> ->]|[Hn Hget]].
    + right. cbn. split; [reflexivity|discriminate].
    + left. exists p'. split; [exact Hget|]. split; [apply weaker_refl|]. split.
      * intros _ e [<-|[]]. cbn. apply N.eqb_neq; congruence.
      * intros _ e Hin. eapply closes_other; eauto.
  - (* accepted *)
    pose proof (verify_true _ _ _ Hver) as Hsig.
    cbn [act_ok] in Hok. rewrite Hsig in Hok. apply in_signed_In in Hok. apply Hsg in Hok.
    destruct (Hch _ _ _ Hp Hpc) as [Hiss Hnoacc].
    assert (Hlt : ch < next s).
    { rewrite Forall_forall in Hv. specialize (Hv _ Hiss). exact Hv. }
    pose proof (bump_ge s (r_chal r)) as Hge. pose proof (bump_gt s (r_chal r)) as Hgt.
    set (K := r_pk r) in *.
    assert (Hevs : forall e, In e (accept_events g p r c ch) ->
                             e = ESigned (me g) (r_chal r) \/ e = EAccepted c K ch).
    { unfold accept_events. intros e Hin. apply in_app_or in Hin as [Hin|[<-|[]]]; [|right; reflexivity].
      destruct (p_static p); [destruct Hin|]. destruct Hin as [<-|[]]. left; reflexivity. }
    assert (Htr' : trace_ok (accept_events g p r c ch ++ tr)).
    { unfold accept_events. destruct (p_static p); cbn [app trace_ok ev_ok]; repeat split; auto;
        eapply Hfr; eauto. }
    assert (Hses : forall c0, session c0 (accept_events g p r c ch ++ tr) =
                              if c =? c0 then Some (K, ch) else session c0 tr).
    { intros c0. unfold accept_events. destruct (p_static p); cbn [app session]; reflexivity. }
    assert (Hncl : forall c0 e, In e (accept_events g p r c ch) -> closes c0 e = false).
    { intros c0 e Hin. destruct (Hevs _ Hin) as [->| ->]; reflexivity. }
    constructor; cbn [peers next signed].
    + apply ksorted_aset; exact Hs.
    + apply Forall_app. split.
      * apply Forall_forall. intros e Hin. destruct (Hevs _ Hin) as [->| ->]; cbn; lia.
      * eapply Forall_ev_lt_mono; [|exact Hv]. exact Hge.
    + intros k m Hin. apply in_or_app. unfold accept_signed, accept_events in *.
      destruct (p_static p); cbn [app].
      * right. apply Hsg; exact Hin.
      * destruct Hin as [E|Hin]; [inv E; left; left; reflexivity|right; apply Hsg; exact Hin].
    + intros c0 p' ch0 Hget Hc. apply aget_aset_cases in Hget as [[-> ->]|[Hn Hget]].
      * cbn in Hc. discriminate.
      * destruct (Hch _ _ _ Hget Hc) as [Hi Hna]. split; [apply in_or_app; right; exact Hi|].
        intros c' k' Hin. apply in_app_or in Hin as [Hin|Hin]; [|eapply Hna; eauto].
        destruct (Hevs _ Hin) as [E|E]; [discriminate|]. inv E.
        apply Hn. exact (issued_unique tr c0 c ch Htr Hi Hiss).
    + intros c0 p' Hget Hc. apply aget_aset_cases in Hget as [[-> ->]|[Hn Hget]].
      * exists K, ch. split; [reflexivity|]. rewrite Hses, N.eqb_refl. reflexivity.
      * destruct (Hcn _ _ Hget Hc) as [K0 [ch0 [HK Hs0]]]. exists K0, ch0. split; [exact HK|].
        rewrite Hses. destruct (N.eqb_spec c c0); [congruence|exact Hs0].
    + exact Htr'.
    + intros c0 p' ch0 Hget Hc.
      apply aget_aset_cases in Hget as [[-> ->]|[Hn Hget]]; [cbn in Hc; discriminate|].
      apply since_issue_app_skip; [apply Hncl|]. eapply Hfr; eauto.
  - (* accepted as a reconnection *)
    pose proof (verify_true _ _ _ Hver) as Hsig.
    cbn [act_ok] in Hok. rewrite Hsig in Hok. apply in_signed_In in Hok. apply Hsg in Hok.
    destruct (Hch _ _ _ Hp Hpc) as [Hiss Hnoacc].
    assert (Hlt : ch < next s).
    { rewrite Forall_forall in Hv. specialize (Hv _ Hiss). exact Hv. }
    pose proof (bump_ge s (r_chal r)) as Hge. pose proof (bump_gt s (r_chal r)) as Hgt.
    set (K := r_pk r) in *.
    assert (Hevs : forall e, In e (accept_events g p r c ch) ->
                             e = ESigned (me g) (r_chal r) \/ e = EAccepted c K ch).
    { unfold accept_events. intros e Hin. apply in_app_or in Hin as [Hin|[<-|[]]]; [|right; reflexivity].
      destruct (p_static p); [destruct Hin|]. destruct Hin as [<-|[]]. left; reflexivity. }
    assert (Htr' : trace_ok (accept_events g p r c ch ++ tr)).
    { unfold accept_events. destruct (p_static p); cbn [app trace_ok ev_ok]; repeat split; auto;
        eapply Hfr; eauto. }
    assert (Hses : forall c0, session c0 (accept_events g p r c ch ++ tr) =
                              if c =? c0 then Some (K, ch) else session c0 tr).
    { intros c0. unfold accept_events. destruct (p_static p); cbn [app session]; reflexivity. }
    assert (Hncl : forall c0 e, In e (accept_events g p r c ch) -> closes c0 e = false).
    { intros c0 e Hin. destruct (Hevs _ Hin) as [->| ->]; reflexivity. }
    assert (Hget' : forall c0 p', aget c0 (aset c (mkP Connected (p_static old) None (Some K) (r_cver r)
                         (r_wver r) (p_lim old) None) (del idx (aset c (accepted_peer p l r) (peers s)))) = Some p' ->
                    (c0 = c /\ p_chal p' = None /\ p_pk p' = Some K)
                    \/ (c0 <> c /\ c0 <> idx /\ aget c0 (peers s) = Some p')).
    { intros c0 p' Hget. apply aget_aset_cases in Hget as [[-> ->]|[Hn Hget]]; [left; cbn; auto|].
      right. split; [exact Hn|]. destruct (N.eq_dec c0 idx) as [->|Hni].
      - rewrite aget_del_eq in Hget. discriminate.
      - rewrite aget_del_neq in Hget by exact Hni. rewrite aget_aset_neq in Hget by exact Hn. auto. }
    constructor; cbn [peers next signed].
    + apply ksorted_aset. apply del_ksorted. apply ksorted_aset. exact Hs.
    + cbn [app]. constructor; [exact I|]. apply Forall_app. split.
      * apply Forall_forall. intros e Hin. destruct (Hevs _ Hin) as [->| ->]; cbn; lia.
      * eapply Forall_ev_lt_mono; [|exact Hv]. exact Hge.
    + intros k m Hin. cbn [app]. right. apply in_or_app. unfold accept_signed, accept_events in *.
      destruct (p_static p); cbn [app].
      * right. apply Hsg; exact Hin.
      * destruct Hin as [E|Hin]; [inv E; left; left; reflexivity|right; apply Hsg; exact Hin].
    + intros c0 p' ch0 Hget Hc. apply Hget' in Hget as [[-> [Hcn0 _]]|[Hn [Hni Hget]]]; [congruence|].
      destruct (Hch _ _ _ Hget Hc) as [Hi Hna]. cbn [app]. split; [right; apply in_or_app; right; exact Hi|].
      intros c' k' [E|Hin]; [discriminate|]. apply in_app_or in Hin as [Hin|Hin]; [|eapply Hna; eauto].
      destruct (Hevs _ Hin) as [E|E]; [discriminate|]. inv E.
      apply Hn. exact (issued_unique tr c0 c ch Htr Hi Hiss).
    + intros c0 p' Hget Hc. cbn [app session]. apply Hget' in Hget as [[-> [_ Hpk]]|[Hn [Hni Hget]]].
      * exists K, ch. split; [exact Hpk|]. destruct (N.eqb_spec idx c); [contradiction|].
        rewrite Hses, N.eqb_refl. reflexivity.
      * destruct (Hcn _ _ Hget Hc) as [K0 [ch0 [HK Hs0]]]. exists K0, ch0. split; [exact HK|].
        destruct (N.eqb_spec idx c0); [congruence|].
        rewrite Hses. destruct (N.eqb_spec c c0); [congruence|exact Hs0].
    + cbn [app trace_ok ev_ok]. split; [exact I|exact Htr'].
    + intros c0 p' ch0 Hget Hc. cbn [app].
      apply Hget' in Hget as [[-> [Hcn0 _]]|[Hn [Hni Hget]]]; [congruence|].
      cbn [since_issue]. right. split; [cbn; apply N.eqb_neq; congruence|].
      apply since_issue_app_skip; [apply Hncl|]. eapply Hfr; eauto.
  - (* purge *)
    assert (Hgone : forall c p' e, aget c (peers s) = Some p' -> purgeable (now s) (c, p') = false ->
              In e (map (fun cp => EPurged (fst cp)) (filter (purgeable (now s)) (peers s))) ->
              touches c e = false /\ closes c e = false).
    { intros c p' e Hp Hpg Hin. apply in_map_iff in Hin as [[c1 p1] [<- Hin]]. cbn [fst touches closes].
      assert (c1 <> c).
      { intros ->. apply filter_In in Hin as [Hin Hpg1].
        apply (in_aget _ _ _ Hs) in Hin. rewrite Hp in Hin. inv Hin. congruence. }
      split; apply N.eqb_neq; assumption. }
    apply Inv_frame; auto using ksorted_filter; [lia| |].
    + intros e Hin. apply in_map_iff in Hin as [cp [<- _]]. split; exact I.
    + intros c p' Hget. rewrite aget_filter in Hget by exact Hs.
      destruct (aget c (peers s)) as [p|] eqn:Hp; [|discriminate].
      destruct (purgeable (now s) (c, p)) eqn:Hpg; cbn [negb] in Hget; [discriminate|]. inv Hget.
      left. exists p'. split; [reflexivity|]. split; [apply weaker_refl|]. split.
      * intros _ e Hin. eapply Hgone; eauto.
      * intros _ e Hin. eapply Hgone; eauto.
  - (* a remote key holder signs *)
    pose proof (bump_ge s m) as Hge. pose proof (bump_gt s m) as Hgt.
    constructor; cbn [peers next signed app].
    + exact Hs.
    + constructor; [cbn; lia|]. eapply Forall_ev_lt_mono; [|exact Hv]. exact Hge.
    + intros k0 m0 [E|Hin]; [inv E; left; reflexivity|right; apply Hsg; exact Hin].
    + intros c p ch Hget Hc. destruct (Hch _ _ _ Hget Hc) as [Hi Hna]. split; [right; exact Hi|].
      intros c' k' [E|Hin]; [discriminate|]. eapply Hna; eauto.
    + intros c p Hget Hc. destruct (Hcn _ _ Hget Hc) as [K [ch [HK Hses]]]. exists K, ch.
      split; [exact HK|exact Hses].
    + cbn [trace_ok ev_ok]. split; [exact I|exact Htr].
    + intros c p ch Hget Hc. cbn [since_issue]. right. split; [reflexivity|]. eapply Hfr; eauto.
Qed.

(* ------------------------------------------------------------------ *)
(* reachability                                                         *)
(* ------------------------------------------------------------------ *)
(* Every run of the node from its initial state (n configured static peers)
   against an environment that delivers any messages in any order on any
   connection, opens and closes connections, lets time pass, and makes
   signatures with any key but the node's own.  The only restriction is
   [act_ok]: a delivered signature is one that exists (symbolic unforgeability). *)
Inductive Reach (g : cfg) (n : nat) (f0 : N) : list event -> state -> Prop :=
| R_init : Reach g n f0 [] (init n f0)
| R_step tr s a s' outs ev :
    Reach g n f0 tr s -> act_ok g s a = true -> step g s a = Ok (s', outs, ev) ->
    Reach g n f0 (ev ++ tr) s'.

Lemma Reach_Inv g n f0 tr s : Reach g n f0 tr s -> Inv tr s.
Proof.
  induction 1 as [|tr s a s' outs ev HR IH Hok Hst]; [apply Inv_init|].
  eapply Inv_step; eauto. eapply step_Step; eauto. apply IH.
Qed.

(* ------------------------------------------------------------------ *)
(* authentication                                                       *)
(* ------------------------------------------------------------------ *)
Lemma accepted_count_zero ch l :
  (forall c k, ~ In (EAccepted c k ch) l) -> accepted_count ch l = 0%nat.
Proof.
  unfold accepted_count. induction l as [|e t IH]; intros H; [reflexivity|].
  cbn [filter]. destruct (is_accept_of ch e) eqn:He.
  - exfalso. destruct e; cbn in He; try discriminate. apply N.eqb_eq in He. subst.
    eapply H. left. reflexivity.
  - apply IH. intros c k Hin. eapply H. right. exact Hin.
Qed.

Lemma accepted_count_app ch l1 l2 :
  accepted_count ch (l1 ++ l2) = (accepted_count ch l1 + accepted_count ch l2)%nat.
Proof. unfold accepted_count. now rewrite filter_app, app_length. Qed.

Lemma accepted_facts tr c K ch :
  trace_ok tr -> In (EAccepted c K ch) tr ->
  before (EIssued c ch) (ESigned K ch) tr
  /\ before (ESigned K ch) (EAccepted c K ch) tr
  /\ accepted_count ch tr = 1%nat.
Proof.
  intros Htr Hin. apply in_split in Hin as [l3 [l Htr_eq]]. subst tr.
  destruct (trace_ok_split _ _ _ Htr) as [[Hsig [Hiss [Hno _]]] Hl].
  (* the challenge was issued before it was signed *)
  apply in_split in Hiss as [a [b Hl_eq]].
  assert (Hb : Forall (ev_lt ch) b).
  { rewrite Hl_eq in Hl. apply trace_ok_split in Hl as [Hb _]. exact Hb. }
  assert (Hsig_a : In (ESigned K ch) a).
  { rewrite Hl_eq in Hsig. apply in_app_or in Hsig as [H|[H|H]]; [exact H|discriminate|].
    rewrite Forall_forall in Hb. specialize (Hb _ H). cbn in Hb. lia. }
  apply in_split in Hsig_a as [a2 [a1 Ha]].
  split; [|split].
  - exists b, a1, (l3 ++ EAccepted c K ch :: a2). subst l a.
    repeat (cbn [app]; rewrite <- app_assoc). cbn [app]. reflexivity.
  - exists (a1 ++ EIssued c ch :: b), a2, l3. subst l a.
    repeat (cbn [app]; rewrite <- app_assoc). cbn [app]. reflexivity.
  - rewrite accepted_count_app.
    assert (H3 : accepted_count ch l3 = 0%nat).
    { apply accepted_count_zero. intros c' k' Hin. apply in_split in Hin as [x [y Hx]]. subst l3.
      rewrite <- app_assoc in Htr. cbn [app] in Htr.
      apply trace_ok_split in Htr as [[_ [_ [Hno' _]]] _].
      apply (Hno' c K). apply in_or_app. right. left. reflexivity. }
    rewrite H3. unfold accepted_count. cbn [filter is_accept_of]. rewrite N.eqb_refl. cbn [length].
    fold (accepted_count ch l). rewrite accepted_count_zero by exact Hno. reflexivity.
Qed.

Lemma accepted_at_most_once tr ch : trace_ok tr -> (accepted_count ch tr <= 1)%nat.
Proof.
  intros Htr. destruct (accepted_count ch tr) as [|n] eqn:E; [lia|].
  assert (Hex : exists c k, In (EAccepted c k ch) tr).
  { unfold accepted_count in E. destruct (filter (is_accept_of ch) tr) as [|e t] eqn:Hf; [discriminate|].
    assert (Hin : In e (filter (is_accept_of ch) tr)) by (rewrite Hf; left; reflexivity).
    apply filter_In in Hin as [Hin He]. destruct e; cbn in He; try discriminate.
    apply N.eqb_eq in He. subst. eauto. }
  destruct Hex as [c [k Hin]]. destruct (accepted_facts _ _ _ _ Htr Hin) as [_ [_ H1]]. lia.
Qed.

Theorem connected_authentic g n f0 tr s c p K :
  Reach g n f0 tr s ->
  aget c (peers s) = Some p -> p_status p = Connected -> p_pk p = Some K ->
  exists ch,
    session c tr = Some (K, ch)
    /\ before (EIssued c ch) (ESigned K ch) tr
    /\ before (ESigned K ch) (EAccepted c K ch) tr
    /\ accepted_count ch tr = 1%nat.
Proof.
  intros HR Hp Hst Hpk. apply Reach_Inv in HR. destruct HR as [_ _ _ _ Hcn Htr _].
  destruct (Hcn _ _ Hp Hst) as [K0 [ch [HK Hses]]]. rewrite Hpk in HK. inv HK.
  exists ch. split; [exact Hses|]. apply accepted_facts; [exact Htr|].
  apply session_in. exact Hses.
Qed.

Theorem challenge_accepted_once g n f0 tr s ch :
  Reach g n f0 tr s -> (accepted_count ch tr <= 1)%nat.
Proof. intros HR. apply accepted_at_most_once. apply (Reach_Inv _ _ _ _ _ HR). Qed.

(* after an acceptance on c nothing is outstanding on c: the same response
   delivered again finds no stored challenge *)
Lemma accept_events_in g p r c ch c' K ch' :
  In (EAccepted c' K ch') (accept_events g p r c ch) -> c' = c /\ K = r_pk r /\ ch' = ch.
Proof.
  unfold accept_events. intros Hin. apply in_app_or in Hin as [Hin|[E|[]]]; [|inv E; auto].
  destruct (p_static p); [destruct Hin|destruct Hin as [E|[]]; discriminate].
Qed.

Theorem accept_clears_challenge g s c r pref s' outs ev K ch :
  ksorted (peers s) ->
  step g s (ADeliverResp c r pref) = Ok (s', outs, ev) -> In (EAccepted c K ch) ev ->
  exists p', aget c (peers s') = Some p' /\ p_chal p' = None /\ p_status p' = Connected
             /\ p_pk p' = Some K.
Proof.
  intros Hs Hst Hin. apply step_Step in Hst; [|exact Hs].
  inversion Hst; subst.
  - destruct Hin.
  - destruct Hin.
  - destruct Hin as [E|[]]; discriminate.
  - apply accept_events_in in Hin as [_ [-> _]].
    cbn [peers]. rewrite aget_aset_eq. eexists. split; [reflexivity|]. cbn. auto.
  - destruct Hin as [E|Hin]; [discriminate|]. apply accept_events_in in Hin as [_ [-> _]].
    cbn [peers]. rewrite aget_aset_eq. eexists. split; [reflexivity|]. cbn. auto.
Qed.

(* ------------------------------------------------------------------ *)
(* rejected responses are inert                                         *)
(* ------------------------------------------------------------------ *)
(* the five ways in which a response is not an acceptable answer to the
   challenge outstanding on connection entry p *)
Definition rejects (g : cfg) (p : peer) (r : response) : Prop :=
  v_is_set (r_cver r) = false                                  (* no version *)
  \/ p_chal p = None                                           (* unsolicited *)
  \/ (exists ch, p_chal p = Some ch /\ verify ch (r_sig r) (r_pk r) = false)
                                                               (* other challenge / bad signature / other key *)
  \/ v_same_minor (my_cver g) (r_cver r) = false               (* incompatible version *)
  \/ key_differs p (r_pk r) = true.                            (* the entry already records another key *)

Lemma rejects_peer_response g nw c p r :
  rejects g p r -> exists outs, peer_response g nw c p r = PRejected (mark_disc nw p) outs.
Proof.
  intros H. destruct (peer_response_cases g nw c p r)
    as [Hr|[ch [o [Hch [Hv [Hk [Hset [Hmin _]]]]]]]]; [exact Hr|].
  exfalso. destruct H as [H|[H|[[ch' [H1 H2]]|[H|H]]]]; congruence.
Qed.

Theorem bad_response_inert g s c r pref :
  (forall p, aget c (peers s) = Some p -> rejects g p r) ->
  exists s' outs ev,
    step g s (ADeliverResp c r pref) = Ok (s', outs, ev)
    /\ (forall c', c' <> c -> aget c' (peers s') = aget c' (peers s))
    /\ addr s' = addr s
    /\ signed s' = signed s
    /\ (forall e, In e ev -> e = EReset c)
    /\ (forall p', aget c (peers s') = Some p' ->
          exists p, aget c (peers s) = Some p /\ p_pk p' = p_pk p
                    /\ (p_status p' = Connected -> p_status p = Connected)).
Proof.
  intros Hrej. cbn [step].
  destruct (aget c (peers s)) as [p|] eqn:Hp.
  - destruct (lim_check (now s) (lim_increase (p_lim p))) as [ex l]. destruct ex.
    + do 3 eexists. split; [reflexivity|]. cbn [peers addr signed].
      repeat split; try reflexivity.
      * intros c' Hne. apply aget_aset_neq; exact Hne.
      * intros e [].
      * intros p'. rewrite aget_aset_eq. intros E; inv E. exists p. cbn. auto.
    + assert (Hr : rejects g (set_lim p l) r) by (apply (Hrej p eq_refl)).
      destruct (rejects_peer_response g (now s) c _ r Hr) as [o Ho]. rewrite Ho.
      do 3 eexists. split; [reflexivity|]. cbn [peers addr signed].
      repeat split; try reflexivity.
      * intros c' Hne. apply aget_aset_neq; exact Hne.
      * intros e [<-|[]]. reflexivity.
      * intros p'. rewrite aget_aset_eq. intros E; inv E. exists p. cbn.
        split; [reflexivity|]. split; [reflexivity|discriminate].
  - do 3 eexists. split; [reflexivity|]. cbn [peers addr signed].
    repeat split; try reflexivity.
    + intros e [].
    + intros p' E. rewrite Hp in E. discriminate.
Qed.

(* ------------------------------------------------------------------ *)
(* panics                                                               *)
(* ------------------------------------------------------------------ *)
(* no handler panics: the join_as_reconnection assert and the expect() in
   Network::handle_handshake_response are unreachable (the key-change assert_eq!
   was turned into a rejection by fix ae2aeaa) *)
Lemma step_no_panic g s a site : ksorted (peers s) -> step g s a <> Panic site.
Proof.
  intros Hs H. destruct a as [c|c x|c r pref|c ext| |dt|k m]; cbn [step] in H.
  - destruct (p_static _); discriminate.
  - destruct (aget c (peers s)); [|discriminate].
    destruct (lim_check _ _) as [ex l]. destruct ex; discriminate.
  - destruct (aget c (peers s)) as [p|] eqn:Hp; [|discriminate].
    destruct (lim_check (now s) (lim_increase (p_lim p))) as [ex l].
    destruct ex; [discriminate|].
    destruct (peer_response_cases g (now s) c (set_lim p l) r)
      as [[o Hr]|[ch [o [Hch [Hv [Hk [_ [_ Hr]]]]]]]]; rewrite Hr in H; [discriminate|].
    cbn [set_lim p_chal p_static p_lim] in *.
    change (accepted_peer (set_lim p l) l r) with (accepted_peer p l r) in H.
    set (ps1 := aset c (accepted_peer p l r) (peers s)) in *.
    assert (Hs1 : ksorted ps1) by (apply ksorted_aset; exact Hs).
    assert (Hc1 : aget c ps1 = Some (accepted_peer p l r)) by apply aget_aset_eq.
    destruct (find_reconnected (r_pk r) pref ps1) as [idx|] eqn:Hf; [|discriminate].
    destruct (find_reconnected_some _ _ _ _ Hs1 Hf) as [old [Hold Hcand]].
    rewrite Hold in H. apply cand_spec in Hcand as [Hpk Hnc].
    assert (Hne : idx <> c).
    { intros ->. rewrite Hc1 in Hold. inv Hold. apply Hnc. reflexivity. }
    rewrite aget_del_neq in H by congruence. rewrite Hc1 in H.
    destruct (status_eqb (p_status old) Connected) eqn:Hst; [|discriminate].
    apply status_eqb_eq in Hst. contradiction.
  - destruct (aget c (peers s)); discriminate.
  - discriminate.
  - discriminate.
  - discriminate.
Qed.

Theorem no_panic g n f0 tr s a site : Reach g n f0 tr s -> step g s a <> Panic site.
Proof. intros HR. apply step_no_panic. apply (Reach_Inv _ _ _ _ _ HR). Qed.

(* ------------------------------------------------------------------ *)
(* the accepted challenge belongs to the current connection             *)
(* ------------------------------------------------------------------ *)
Theorem accepted_on_this_connection g n f0 tr s c K ch :
  Reach g n f0 tr s -> In (EAccepted c K ch) tr ->
  exists l1 l2 l3, tr = l3 ++ EAccepted c K ch :: l2 ++ EIssued c ch :: l1
                   /\ forall e, In e l2 -> closes c e = false.
Proof.
  intros HR Hin. apply Reach_Inv in HR. destruct HR as [_ _ _ _ _ Htr _].
  apply in_split in Hin as [l3 [l ->]].
  destruct (trace_ok_split _ _ _ Htr) as [[_ [_ [_ Hfresh]]] _].
  destruct (since_issue_split _ _ _ Hfresh) as [l2 [l1 [-> Hl2]]].
  exists l1, l2, l3. split; [reflexivity|exact Hl2].
Qed.

(* ------------------------------------------------------------------ *)
(* address_to_peers                                                     *)
(* ------------------------------------------------------------------ *)
Definition addr_sound (s : state) : Prop :=
  forall K c, aget K (addr s) = Some c ->
  exists p, aget c (peers s) = Some p /\ p_pk p = Some K.

Definition addr_complete (s : state) : Prop :=
  forall c p K, aget c (peers s) = Some p -> p_pk p = Some K ->
  exists c', aget K (addr s) = Some c'.

Lemma best_some K ps b :
  best K ps = Some b -> exists p, In (fst b, p) ps /\ p_pk p = Some K.
Proof.
  induction ps as [|[c p] t IH]; cbn [best]; [discriminate|].
  destruct (p_pk p) as [k|] eqn:Hk.
  - destruct (N.eqb_spec k K) as [->|Hne].
    + destruct (best K t) as [b0|] eqn:Hb.
      * destruct (better (c, is_conn p) b0); intros E; inv E.
        -- exists p. split; [left; reflexivity|exact Hk].
        -- destruct (IH eq_refl) as [q [Hin Hq]]. exists q. split; [right; exact Hin|exact Hq].
      * intros E; inv E. exists p. split; [left; reflexivity|exact Hk].
    + intros E. destruct (IH E) as [q [Hin Hq]]. exists q. split; [right; exact Hin|exact Hq].
  - intros E. destruct (IH E) as [q [Hin Hq]]. exists q. split; [right; exact Hin|exact Hq].
Qed.

Lemma best_none K ps : best K ps = None -> forall c p, In (c, p) ps -> p_pk p <> Some K.
Proof.
  induction ps as [|[c0 p0] t IH]; cbn [best]; intros H c p Hin; [destruct Hin|].
  destruct (p_pk p0) as [k|] eqn:Hk.
  - destruct (N.eqb_spec k K) as [->|Hne].
    + destruct (best K t) as [b0|]; [destruct (better (c0, is_conn p0) b0)|]; discriminate.
    + destruct Hin as [E|Hin]; [inv E; congruence|eapply IH; eauto].
  - destruct Hin as [E|Hin]; [inv E; congruence|eapply IH; eauto].
Qed.

Definition inkeep (keep : list (N * peer)) (K c : N) : Prop :=
  exists q, aget c keep = Some q /\ p_pk q = Some K.

Lemma repoint_fold_sound keep : ksorted keep -> forall gone a,
  (forall K c, aget K a = Some c ->
     inkeep keep K c \/ exists p, In (c, p) gone /\ p_pk p = Some K) ->
  forall K c, aget K (fold_left (repoint keep) gone a) = Some c -> inkeep keep K c.
Proof.
  intros Hk. induction gone as [|[i p] t IH]; intros a H K c Hget; cbn [fold_left] in Hget.
  - destruct (H _ _ Hget) as [Hl|[q [[] _]]]. exact Hl.
  - eapply IH; [|exact Hget]. clear Hget K c. intros K c Hget.
    assert (Hrest : aget K a = Some c -> (p_pk p = Some K -> c <> i) ->
                    inkeep keep K c \/ exists q, In (c, q) t /\ p_pk q = Some K).
    { intros Ha Hni. destruct (H _ _ Ha) as [Hl|[q [[E|Hin] Hq]]]; [left; exact Hl| |right; eauto].
      inv E. exfalso. apply (Hni Hq). reflexivity. }
    unfold repoint in Hget. cbn [fst snd] in Hget.
    destruct (p_pk p) as [K0|] eqn:Hpk; [|apply Hrest; [exact Hget|discriminate]].
    destruct (aget K0 a) as [c1|] eqn:Hc1.
    + destruct (N.eqb_spec c1 i) as [->|Hne].
      * destruct (best K0 keep) as [b|] eqn:Hb.
        -- destruct (N.eq_dec K K0) as [->|HnK].
           ++ rewrite aget_aset_eq in Hget. inv Hget. left.
              destruct (best_some _ _ _ Hb) as [q [Hin Hq]]. exists q. split; [|exact Hq].
              apply in_aget; assumption.
           ++ rewrite aget_aset_neq in Hget by exact HnK. apply Hrest; [exact Hget|].
              intros E. congruence.
        -- destruct (N.eq_dec K K0) as [->|HnK]; [rewrite aget_del_eq in Hget; discriminate|].
           rewrite aget_del_neq in Hget by exact HnK. apply Hrest; [exact Hget|].
           intros E. congruence.
      * apply Hrest; [exact Hget|]. intros E. inv E. rewrite Hc1 in Hget. inv Hget. exact Hne.
    + apply Hrest; [exact Hget|]. intros E. inv E. congruence.
Qed.

Lemma repoint_fold_complete keep : forall gone a,
  (forall K, (exists c q, In (c, q) keep /\ p_pk q = Some K) -> exists c', aget K a = Some c') ->
  forall K, (exists c q, In (c, q) keep /\ p_pk q = Some K) ->
  exists c', aget K (fold_left (repoint keep) gone a) = Some c'.
Proof.
  induction gone as [|[i p] t IH]; intros a H K HK; cbn [fold_left]; [apply H; exact HK|].
  apply IH; [|exact HK]. clear K HK. intros K HK.
  unfold repoint. cbn [fst snd].
  destruct (p_pk p) as [K0|]; [|apply H; exact HK].
  destruct (aget K0 a) as [c1|] eqn:Hc1; [|apply H; exact HK].
  destruct (c1 =? i); [|apply H; exact HK].
  destruct (best K0 keep) as [b|] eqn:Hb.
  - destruct (N.eq_dec K K0) as [->|HnK]; [rewrite aget_aset_eq; eauto|].
    rewrite aget_aset_neq by exact HnK. apply H; exact HK.
  - destruct (N.eq_dec K K0) as [->|HnK].
    + exfalso. destruct HK as [c [q [Hin Hq]]]. eapply best_none; eauto.
    + rewrite aget_del_neq by exact HnK. apply H; exact HK.
Qed.

Lemma key_differs_false p K K' : key_differs p K = false -> p_pk p = Some K' -> K' = K.
Proof.
  unfold key_differs. intros H E. rewrite E in H. apply negb_false_iff in H.
  now apply N.eqb_eq in H.
Qed.

Lemma addr_sound_step g s a s' ev :
  ksorted (peers s) -> addr_sound s -> Step g s a s' ev -> addr_sound s'.
Proof.
  intros Hs HA HS.
  destruct HS as
    [c p0 Hp0 Hst | c p0 Hp0 Hst | a nx nw Hnx | a c p l nx Hp Hnx | c x p l Hp
    | c r pref p l Hp | c ext p Hp
    | c r pref p l ch Hp Hpc Hver Hkd
    | c r pref p l ch idx old Hp Hpc Hver Hkd Hne Hold Hopk Host | | k m];
    intros K c0 Hget; cbn [addr peers upd_peers] in *.
  - destruct (HA _ _ Hget) as [q [Hq Hk]]. destruct (N.eq_dec c0 c) as [->|Hn].
    + rewrite aget_aset_eq. eexists. split; [reflexivity|]. rewrite Hq in Hp0. subst p0. exact Hk.
    + rewrite aget_aset_neq by exact Hn. eauto.
  - destruct (HA _ _ Hget) as [q [Hq Hk]]. destruct (N.eq_dec c0 c) as [->|Hn].
    + rewrite aget_aset_eq. eexists. split; [reflexivity|]. rewrite Hq in Hp0. subst p0. exact Hk.
    + rewrite aget_aset_neq by exact Hn. eauto.
  - apply HA; exact Hget.
  - destruct (HA _ _ Hget) as [q [Hq Hk]]. destruct (N.eq_dec c0 c) as [->|Hn].
    + rewrite aget_aset_eq. eexists. split; [reflexivity|]. rewrite Hp in Hq. inv Hq. exact Hk.
    + rewrite aget_aset_neq by exact Hn. eauto.
  - destruct (HA _ _ Hget) as [q [Hq Hk]]. destruct (N.eq_dec c0 c) as [->|Hn].
    + rewrite aget_aset_eq. eexists. split; [reflexivity|]. rewrite Hp in Hq. inv Hq. exact Hk.
    + rewrite aget_aset_neq by exact Hn. eauto.
  - destruct (HA _ _ Hget) as [q [Hq Hk]]. destruct (N.eq_dec c0 c) as [->|Hn].
    + rewrite aget_aset_eq. eexists. split; [reflexivity|]. rewrite Hp in Hq. inv Hq. exact Hk.
    + rewrite aget_aset_neq by exact Hn. eauto.
  - destruct (HA _ _ Hget) as [q [Hq Hk]]. destruct (N.eq_dec c0 c) as [->|Hn].
    + rewrite aget_aset_eq. eexists. split; [reflexivity|]. rewrite Hp in Hq. inv Hq. exact Hk.
    + rewrite aget_aset_neq by exact Hn. eauto.
  - (* accepted *)
    destruct (N.eq_dec K (r_pk r)) as [->|HnK].
    + rewrite aget_aset_eq in Hget. inv Hget. rewrite aget_aset_eq. eexists. split; reflexivity.
    + rewrite aget_aset_neq in Hget by exact HnK. destruct (HA _ _ Hget) as [q [Hq Hk]].
      assert (Hn : c0 <> c).
      { intros ->. rewrite Hp in Hq. inv Hq. apply HnK. eapply key_differs_false; eauto. }
      rewrite aget_aset_neq by exact Hn. eauto.
  - (* reconnection *)
    destruct (N.eq_dec K (r_pk r)) as [->|HnK].
    { rewrite aget_aset_eq in Hget. inv Hget. rewrite aget_aset_eq. eexists. split; reflexivity. }
    rewrite aget_aset_neq in Hget by exact HnK.
    rewrite aget_del_neq in Hget by exact HnK. destruct (HA _ _ Hget) as [q [Hq Hk]].
    assert (Hn : c0 <> c).
    { intros ->. rewrite Hp in Hq. inv Hq. apply HnK. eapply key_differs_false; eauto. }
    assert (Hni : c0 <> idx).
    { intros ->. rewrite Hold in Hq. inv Hq. congruence. }
    rewrite aget_aset_neq by exact Hn. rewrite aget_del_neq by exact Hni.
    rewrite aget_aset_neq by exact Hn. eauto.
  - (* purge *)
    eapply repoint_fold_sound; [apply ksorted_filter; exact Hs| |exact Hget].
    intros K1 c1 Ha. destruct (HA _ _ Ha) as [q [Hq Hk]].
    destruct (purgeable (now s) (c1, q)) eqn:Hpg.
    + right. exists q. split; [|exact Hk]. apply filter_In. split; [apply aget_in; exact Hq|exact Hpg].
    + left. exists q. split; [|exact Hk]. rewrite aget_filter by exact Hs. rewrite Hq, Hpg. reflexivity.
  - apply HA; exact Hget.
Qed.

Theorem address_sound g n f0 tr s : Reach g n f0 tr s -> addr_sound s.
Proof.
  induction 1 as [|tr s a s' outs ev HR IH Hok Hst].
  - intros K c H. discriminate.
  - eapply addr_sound_step; [|exact IH|].
    + apply (Reach_Inv _ _ _ _ _ HR).
    + eapply step_Step; [|exact Hst]. apply (Reach_Inv _ _ _ _ _ HR).
Qed.

Lemma addr_complete_step g s a s' ev :
  ksorted (peers s) -> addr_complete s -> Step g s a s' ev -> addr_complete s'.
Proof.
  intros Hs HA HS.
  destruct HS as
    [c p0 Hp0 Hst | c p0 Hp0 Hst | a nx nw Hnx | a c p l nx Hp Hnx | c x p l Hp
    | c r pref p l Hp | c ext p Hp
    | c r pref p l ch Hp Hpc Hver Hkd
    | c r pref p l ch idx old Hp Hpc Hver Hkd Hne Hold Hopk Host | | k m];
    try (intros c0 q K Hget Hk; cbn [addr peers upd_peers] in *;
         apply aget_aset_cases in Hget as [[-> ->]|[Hn Hget]]; [|eapply HA; eauto]).
  - cbn in Hk. destruct (aget c (peers s)) as [p|] eqn:Hp; subst p0; [eapply HA; eauto|discriminate].
  - cbn in Hk. destruct (aget c (peers s)) as [p|] eqn:Hp; subst p0; [eapply HA; eauto|discriminate].
  - intros c0 q K Hget Hk. eapply HA; eauto.
  - cbn in Hk. eapply HA; eauto.
  - cbn in Hk. eapply HA; eauto.
  - cbn in Hk. eapply HA; eauto.
  - cbn in Hk. eapply HA; eauto.
  - (* accepted: the key is inserted *)
    intros c0 q K Hget Hk. cbn [addr peers] in *.
    destruct (N.eq_dec K (r_pk r)) as [->|HnK]; [rewrite aget_aset_eq; eauto|].
    rewrite aget_aset_neq by exact HnK.
    apply aget_aset_cases in Hget as [[-> ->]|[Hn Hget]]; [cbn in Hk; congruence|eapply HA; eauto].
  - (* reconnection: removed and inserted again *)
    intros c0 q K Hget Hk. cbn [addr peers] in *.
    destruct (N.eq_dec K (r_pk r)) as [->|HnK]; [rewrite aget_aset_eq; eauto|].
    rewrite aget_aset_neq by exact HnK. rewrite aget_del_neq by exact HnK.
    apply aget_aset_cases in Hget as [[-> ->]|[Hn Hget]]; [cbn in Hk; congruence|].
    destruct (N.eq_dec c0 idx) as [->|Hni]; [rewrite aget_del_eq in Hget; discriminate|].
    rewrite aget_del_neq in Hget by exact Hni. rewrite aget_aset_neq in Hget by exact Hn.
    eapply HA; eauto.
  - (* purge: a key whose map entry pointed at a purged entry is re-pointed *)
    intros c0 q K Hget Hk. cbn [addr peers] in *.
    apply repoint_fold_complete.
    + intros K1 [c1 [q1 [Hin Hq1]]]. apply filter_In in Hin as [Hin _].
      eapply HA; [apply in_aget; eauto|exact Hq1].
    + exists c0, q. split; [apply aget_in; exact Hget|exact Hk].
  - intros c0 q K Hget Hk. eapply HA; eauto.
Qed.

Theorem address_complete g n f0 tr s : Reach g n f0 tr s -> addr_complete s.
Proof.
  induction 1 as [|tr s a s' outs ev HR IH Hok Hst].
  - intros c p K Hget Hk. apply aget_in in Hget. apply static_peers_in in Hget as [_ E].
    cbn [snd] in E. subst p. discriminate.
  - eapply addr_complete_step; [|exact IH|].
    + apply (Reach_Inv _ _ _ _ _ HR).
    + eapply step_Step; [|exact Hst]. apply (Reach_Inv _ _ _ _ _ HR).
Qed.

Theorem address_complete' g n f0 tr s c p K :
  Reach g n f0 tr s -> aget c (peers s) = Some p -> p_pk p = Some K ->
  exists c' p', aget K (addr s) = Some c' /\ aget c' (peers s) = Some p' /\ p_pk p' = Some K.
Proof.
  intros HR Hp HK. destruct (address_complete _ _ _ _ _ HR _ _ _ Hp HK) as [c' Hc'].
  destruct (address_sound _ _ _ _ _ HR _ _ Hc') as [p' [Hp' HK']]. eauto.
Qed.

(* ------------------------------------------------------------------ *)
(* runs are reachable; concrete witnesses                               *)
(* ------------------------------------------------------------------ *)
Lemma run_Reach g n f0 acts : forall tr s s' ev,
  Reach g n f0 tr s -> run_ok g s acts = true -> run g s acts = Ok (s', ev) ->
  Reach g n f0 (ev ++ tr) s'.
Proof.
  induction acts as [|a t IH]; intros tr s s' ev HR Hok Hrun; cbn [run run_ok] in *.
  - inv Hrun. exact HR.
  - apply andb_true_iff in Hok as [Ha Hok].
    destruct (step g s a) as [[[s1 o1] ev1]| |] eqn:Hst; try discriminate.
    destruct (run g s1 t) as [[s2 ev2]| |] eqn:Hr; try discriminate. inv Hrun.
    rewrite <- app_assoc. eapply IH; [|exact Hok|exact Hr].
    eapply R_step; eauto.
Qed.

Definition g1 : cfg := mkC 1 (mkV 1 2 3) (mkV 1 2 5).
Definition g2 : cfg := mkC 2 (mkV 1 2 3) (mkV 1 2 5).
Definition vA : version := mkV 1 2 3.
Definition vW : version := mkV 1 2 5.

(* an honest run in both roles: incoming connection 2 authenticates key 2,
   the static (outgoing) connection 1 authenticates key 4 *)
Definition honest_acts : list action :=
  [ANewPeer 2; ARemoteSign 2 1; ADeliverResp 2 (mkR 2 (Sig 2 1) 2 vA vW) 0;
   ANewPeer 1; ADeliverChal 1 3; ARemoteSign 4 4; ADeliverResp 1 (mkR 4 (Sig 4 4) 0 vA vW) 0].

Lemma honest_run :
  exists tr s p2 p1, Reach g1 1 1 tr s
    /\ aget 2 (peers s) = Some p2 /\ p_status p2 = Connected /\ p_pk p2 = Some 2
    /\ aget 1 (peers s) = Some p1 /\ p_status p1 = Connected /\ p_pk p1 = Some 4
    /\ aget 2 (addr s) = Some 2 /\ aget 4 (addr s) = Some 1.
Proof.
  destruct (run g1 (init 1 1) honest_acts) as [[s ev]| |] eqn:Hr; try (vm_compute in Hr; discriminate).
  pose proof (run_Reach g1 1 1 honest_acts [] (init 1 1) s ev (R_init _ _ _) eq_refl Hr) as HR.
  rewrite app_nil_r in HR. vm_compute in Hr. inv Hr.
  do 4 eexists. split; [exact HR|]. vm_compute. repeat split; reflexivity.
Qed.

(* reconnection: key 2 authenticates on 2, the connection drops, key 2
   authenticates again on 3: the old entry is merged (removed) and the key is
   mapped to the new connection (before fix f517868 the key was lost here) *)
Definition reconnect_acts : list action :=
  [ANewPeer 2; ARemoteSign 2 1; ADeliverResp 2 (mkR 2 (Sig 2 1) 2 vA vW) 0;
   ADisconnect 2 true;
   ANewPeer 3; ARemoteSign 2 3; ADeliverResp 3 (mkR 2 (Sig 2 3) 4 vA vW) 0].

Lemma reconnection_keeps_key :
  exists tr s p, Reach g1 1 1 tr s
    /\ In (ERemoved 2) tr /\ aget 2 (peers s) = None
    /\ aget 3 (peers s) = Some p /\ p_status p = Connected /\ p_pk p = Some 2
    /\ aget 2 (addr s) = Some 3.
Proof.
  destruct (run g1 (init 1 1) reconnect_acts) as [[s ev]| |] eqn:Hr; try (vm_compute in Hr; discriminate).
  pose proof (run_Reach g1 1 1 reconnect_acts [] (init 1 1) s ev (R_init _ _ _) eq_refl Hr) as HR.
  rewrite app_nil_r in HR. vm_compute in Hr. inv Hr.
  do 3 eexists. split; [exact HR|]. split; [left; reflexivity|]. vm_compute. repeat split; reflexivity.
Qed.

(* regression (fix 88efef8): key 2 is authenticated on 2 and on 3, 3 goes away
   and is purged after ten minutes; the key stays mapped, to the live connection 2 *)
Definition purge_acts : list action :=
  [ANewPeer 2; ARemoteSign 2 1; ADeliverResp 2 (mkR 2 (Sig 2 1) 2 vA vW) 0;
   ANewPeer 3; ARemoteSign 2 3; ADeliverResp 3 (mkR 2 (Sig 2 3) 4 vA vW) 0;
   ADisconnect 3 false; ATick 600000; APurge].

Lemma purge_keeps_key :
  exists tr s p, Reach g1 1 1 tr s
    /\ In (EPurged 3) tr /\ aget 3 (peers s) = None
    /\ aget 2 (peers s) = Some p /\ p_status p = Connected /\ p_pk p = Some 2
    /\ aget 2 (addr s) = Some 2.
Proof.
  destruct (run g1 (init 1 1) purge_acts) as [[s ev]| |] eqn:Hr; try (vm_compute in Hr; discriminate).
  pose proof (run_Reach g1 1 1 purge_acts [] (init 1 1) s ev (R_init _ _ _) eq_refl Hr) as HR.
  rewrite app_nil_r in HR. vm_compute in Hr. inv Hr.
  do 3 eexists. split; [exact HR|]. split; [left; reflexivity|]. vm_compute. repeat split; reflexivity.
Qed.

(* regression (fix ae2aeaa): key 3 authenticates on 2, asks for a new handshake and
   answers it with key 4: rejected, the entry keeps key 3 and is disconnected *)
Definition keychange_acts : list action :=
  [ANewPeer 2; ARemoteSign 3 1; ADeliverResp 2 (mkR 3 (Sig 3 1) 2 vA vW) 0;
   ADeliverChal 2 5; ARemoteSign 4 6; ADeliverResp 2 (mkR 4 (Sig 4 6) 7 vA vW) 0].

Lemma keychange_rejected :
  exists tr s p, Reach g1 1 1 tr s
    /\ aget 2 (peers s) = Some p /\ p_status p = Disconnected /\ p_pk p = Some 3
    /\ p_chal p = None /\ aget 3 (addr s) = Some 2 /\ aget 4 (addr s) = None
    /\ accepted_count 6 tr = 0%nat.
Proof.
  destruct (run g1 (init 1 1) keychange_acts) as [[s ev]| |] eqn:Hr; try (vm_compute in Hr; discriminate).
  pose proof (run_Reach g1 1 1 keychange_acts [] (init 1 1) s ev (R_init _ _ _) eq_refl Hr) as HR.
  rewrite app_nil_r in HR. vm_compute in Hr. inv Hr.
  do 3 eexists. split; [exact HR|]. vm_compute. repeat split; reflexivity.
Qed.

(* regression (fix 8a16f73): a challenge arrives on the static entry 1 while it is
   not connected, the node answers and stores challenge 6; the entry is re-dialled,
   which discards 6; a response over 6 on the new connection is unsolicited *)
Definition stale_acts : list action :=
  [ADeliverChal 1 5; ANewPeer 1; ARemoteSign 2 6; ADeliverResp 1 (mkR 2 (Sig 2 6) 0 vA vW) 0].

Lemma stale_challenge_rejected :
  exists tr s p, Reach g1 1 1 tr s
    /\ In (EIssued 1 6) tr /\ In (ESigned 2 6) tr
    /\ aget 1 (peers s) = Some p /\ p_status p = Disconnected /\ p_pk p = None
    /\ addr s = [] /\ accepted_count 6 tr = 0%nat.
Proof.
  destruct (run g1 (init 1 1) stale_acts) as [[s ev]| |] eqn:Hr; try (vm_compute in Hr; discriminate).
  pose proof (run_Reach g1 1 1 stale_acts [] (init 1 1) s ev (R_init _ _ _) eq_refl Hr) as HR.
  rewrite app_nil_r in HR. vm_compute in Hr. inv Hr.
  do 3 eexists. split; [exact HR|]. vm_compute. repeat split; try reflexivity; auto 10.
Qed.

(* reflection: the attacker opens 2 and 3, shows the challenge of 2 to the node
   on 3, and returns the node's own signature on 2.  No key but the node's own
   ever signs anything. *)
Definition reflection_acts : list action :=
  [ANewPeer 2; ANewPeer 3; ADeliverChal 3 1; ADeliverResp 2 (mkR 1 (Sig 1 1) 4 vA vW) 0].

Definition signed_only_by (k : N) (tr : list event) : Prop :=
  forall k' m, In (ESigned k' m) tr -> k' = k.

Lemma reflection_connected :
  exists tr s p, Reach g1 1 1 tr s
    /\ aget 2 (peers s) = Some p /\ p_status p = Connected /\ p_pk p = Some (me g1)
    /\ signed_only_by (me g1) tr.
Proof.
  destruct (run g1 (init 1 1) reflection_acts) as [[s ev]| |] eqn:Hr; try (vm_compute in Hr; discriminate).
  pose proof (run_Reach g1 1 1 reflection_acts [] (init 1 1) s ev (R_init _ _ _) eq_refl Hr) as HR.
  rewrite app_nil_r in HR. vm_compute in Hr. inv Hr.
  do 3 eexists. split; [exact HR|]. split; [vm_compute; reflexivity|].
  split; [reflexivity|]. split; [reflexivity|].
  intros k' m Hin. cbn in Hin.
  repeat (destruct Hin as [E|Hin]; [try discriminate; inv E; reflexivity|]). destruct Hin.
Qed.

(* relay: two honest nodes A (key 1) and B (key 2).  The attacker opens
   connection 2 to A and connection 7 to B, shows A's challenge to B, and
   forwards B's answer to A.  The attacker signs nothing.  A marks the
   attacker's connection Connected under B's key; B has authenticated nobody. *)
Definition relay_acts : list waction :=
  [WA (ANewPeer 2); WB (ANewPeer 7); WB (ADeliverChal 7 1);
   WA (ADeliverResp 2 (mkR 2 (Sig 2 1) 1001 vA vW) 0)].

Lemma relay_connected :
  exists w pa pb,
    wrun g1 g2 (mkW (init 1 1) (init 0 1000)) relay_acts = Ok (w, true)
    /\ aget 2 (peers (w_a w)) = Some pa /\ p_status pa = Connected /\ p_pk pa = Some (me g2)
    /\ aget 2 (addr (w_a w)) = Some 2
    /\ peers (w_b w) = [(7, pb)] /\ p_status pb = Connecting /\ p_pk pb = None
    /\ addr (w_b w) = [].
Proof.
  do 3 eexists. vm_compute. repeat split; reflexivity.
Qed.

