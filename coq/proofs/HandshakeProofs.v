(* Proofs about model/Handshake.v (property C17). *)
From Saito Require Import Base Handshake.

Local Open Scope N_scope.

(* ------------------------------------------------------------------ *)
(* association lists                                                    *)
(* ------------------------------------------------------------------ *)
Section AL.
  Context {V : Type}.
  Implicit Types m : list (N * V).

  Lemma aget_aset_eq k (v : V) m : aget k (aset k v m) = Some v.
  Proof.
    induction m as [|[k' v'] t IH]; cbn [aset aget].
    - now rewrite N.eqb_refl.
    - destruct (N.eqb_spec k k') as [E|E]; cbn [aget].
      + now rewrite N.eqb_refl.
      + destruct (k <? k'); cbn [aget].
        * now rewrite N.eqb_refl.
        * destruct (N.eqb_spec k k'); [contradiction|exact IH].
  Qed.

  Lemma aget_aset_neq k k' (v : V) m : k' <> k -> aget k' (aset k v m) = aget k' m.
  Proof.
    intros Hne. induction m as [|[k0 v0] t IH]; cbn [aset aget].
    - destruct (N.eqb_spec k' k); [contradiction|reflexivity].
    - destruct (N.eqb_spec k k0) as [E|E]; cbn [aget].
      + subst k0. destruct (N.eqb_spec k' k); [contradiction|reflexivity].
      + destruct (k <? k0); cbn [aget].
        * destruct (N.eqb_spec k' k); [contradiction|reflexivity].
        * destruct (k' =? k0); [reflexivity|exact IH].
  Qed.

  Lemma in_aset k (v : V) m kv : In kv (aset k v m) -> kv = (k, v) \/ In kv m.
  Proof.
    induction m as [|[k' v'] t IH]; cbn [aset]; intros H.
    - destruct H as [H|[]]; auto.
    - destruct (k =? k'); [destruct H; [auto|right; right; auto]|].
      destruct (k <? k'); [destruct H; auto|].
      destruct H as [H|H]; [right; left; auto|].
      destruct (IH H); auto. right; right; auto.
  Qed.

  Lemma aget_in k (v : V) m : aget k m = Some v -> In (k, v) m.
  Proof.
    induction m as [|[k' v'] t IH]; cbn [aget]; [discriminate|].
    destruct (N.eqb_spec k k'); intros H; [inversion H; subst; left; auto|right; auto].
  Qed.

  Lemma aget_notin k m : (forall kv, In kv m -> fst kv <> k) -> aget k m = None.
  Proof.
    induction m as [|[k' v'] t IH]; cbn [aget]; intros H; [reflexivity|].
    destruct (N.eqb_spec k k') as [E|E].
    - exfalso. apply (H (k', v')); [left; reflexivity|cbn; congruence].
    - apply IH. intros kv Hin. apply H. right; exact Hin.
  Qed.

  Lemma aget_del_eq k m : aget k (del k m) = None.
  Proof.
    apply aget_notin. intros kv Hin. unfold del in Hin. apply filter_In in Hin as [_ Hf].
    destruct (N.eqb_spec (fst kv) k); [discriminate|assumption].
  Qed.

  Lemma aget_del_neq k k' m : k' <> k -> aget k' (del k m) = aget k' m.
  Proof.
    intros Hne. induction m as [|[k0 v0] t IH]; cbn [del filter aget fst]; [reflexivity|].
    fold (del k t).
    destruct (N.eqb_spec k0 k) as [E|E]; cbn [negb aget].
    - subst k0. destruct (N.eqb_spec k' k); [contradiction|exact IH].
    - destruct (k' =? k0); [reflexivity|exact IH].
  Qed.

  (* keys strictly increasing *)
  Fixpoint ksorted m : Prop :=
    match m with
    | [] => True
    | kv :: t => (forall kv', In kv' t -> fst kv < fst kv') /\ ksorted t
    end.

  Lemma ksorted_aset k (v : V) m : ksorted m -> ksorted (aset k v m).
  Proof.
    induction m as [|[k' v'] t IH]; cbn [aset ksorted]; intros Hs.
    - split; [intros ? []|exact I].
    - destruct Hs as [Hlt Hs].
      destruct (N.eqb_spec k k') as [E|E]; cbn [ksorted].
      + subst k'. split; assumption.
      + destruct (N.ltb_spec k k') as [L|L]; cbn [ksorted fst].
        * split; [|split; assumption].
          intros kv' [<-|Hin]; cbn [fst]; [exact L|]. specialize (Hlt _ Hin). cbn [fst] in Hlt. lia.
        * split; [|apply IH; exact Hs].
          intros kv' Hin. apply in_aset in Hin as [->|Hin]; cbn [fst]; [lia|].
          specialize (Hlt _ Hin). exact Hlt.
  Qed.

  Lemma ksorted_filter (f : N * V -> bool) m : ksorted m -> ksorted (filter f m).
  Proof.
    induction m as [|kv t IH]; cbn [filter ksorted]; intros Hs; [exact I|].
    destruct Hs as [Hlt Hs]. destruct (f kv); cbn [ksorted]; [|apply IH; exact Hs].
    split; [|apply IH; exact Hs].
    intros kv' Hin. apply filter_In in Hin as [Hin _]. apply Hlt; exact Hin.
  Qed.

  Lemma in_aget k (v : V) m : ksorted m -> In (k, v) m -> aget k m = Some v.
  Proof.
    induction m as [|[k' v'] t IH]; cbn [ksorted aget]; intros Hs Hin; [destruct Hin|].
    destruct Hs as [Hlt Hs]. destruct Hin as [E|Hin].
    - inversion E; subst. now rewrite N.eqb_refl.
    - specialize (Hlt _ Hin). cbn [fst] in Hlt.
      destruct (N.eqb_spec k k'); [lia|]. apply IH; assumption.
  Qed.

  Lemma aget_filter (f : N * V -> bool) k m :
    ksorted m ->
    aget k (filter f m) =
    match aget k m with Some v => if f (k, v) then Some v else None | None => None end.
  Proof.
    induction m as [|[k' v'] t IH]; cbn [ksorted filter aget]; intros Hs; [reflexivity|].
    destruct Hs as [Hlt Hs].
    destruct (N.eqb_spec k k') as [E|E].
    - subst k'. destruct (f (k, v')) eqn:Hf; cbn [aget].
      + now rewrite N.eqb_refl.
      + apply aget_notin. intros kv Hin. apply filter_In in Hin as [Hin _].
        specialize (Hlt _ Hin). cbn [fst] in Hlt. lia.
    - destruct (f (k', v')); cbn [aget].
      + destruct (N.eqb_spec k k'); [contradiction|]. apply IH; exact Hs.
      + apply IH; exact Hs.
  Qed.

  Lemma ksorted_app_one m k (v : V) :
    ksorted m -> (forall kv, In kv m -> fst kv < k) -> ksorted (m ++ [(k, v)]).
  Proof.
    induction m as [|kv t IH]; cbn [app ksorted]; intros Hs Hlt.
    - split; [intros ? []|exact I].
    - destruct Hs as [H1 H2]. split.
      + intros kv' Hin. apply in_app_or in Hin as [Hin|[<-|[]]]; [apply H1; exact Hin|].
        cbn [fst]. apply Hlt. left; reflexivity.
      + apply IH; [exact H2|]. intros kv' Hin. apply Hlt. right; exact Hin.
  Qed.
End AL.

Lemma del_ksorted {V} k (m : list (N * V)) : ksorted m -> ksorted (del k m).
Proof. apply ksorted_filter. Qed.

(* ------------------------------------------------------------------ *)
(* small facts                                                          *)
(* ------------------------------------------------------------------ *)
Lemma verify_true ch sg k : verify ch sg k = true -> sg = Sig k ch.
Proof.
  destruct sg as [k' m'|]; cbn [verify]; [|discriminate].
  intros H. apply andb_true_iff in H as [H1 H2].
  apply N.eqb_eq in H1, H2. now subst.
Qed.

Lemma in_signed_In k m l : in_signed k m l = true -> In (k, m) l.
Proof.
  unfold in_signed. intros H. apply existsb_exists in H as [[k' m'] [Hin H]].
  cbn [fst snd] in H. apply andb_true_iff in H as [H1 H2].
  apply N.eqb_eq in H1, H2. now subst.
Qed.

Lemma status_eqb_eq a b : status_eqb a b = true <-> a = b.
Proof. destruct a, b; cbn; split; intros; congruence. Qed.

Lemma bump_ge s v : next s <= bump s v.
Proof. unfold bump. lia. Qed.
Lemma bump_gt s v : v < bump s v.
Proof. unfold bump. lia. Qed.

Lemma find_cand_some K ps c p :
  find (cand K) ps = Some (c, p) -> In (c, p) ps /\ cand K (c, p) = true.
Proof. apply find_some. Qed.

(* ------------------------------------------------------------------ *)
(* relational form of [step]                                           *)
(* ------------------------------------------------------------------ *)
Definition accept_events (g : cfg) (p : peer) (r : response) (c ch : N) : list event :=
  (if p_static p then [] else [ESigned (me g) (r_chal r)]) ++ [EAccepted c (r_pk r) ch].
Definition accept_signed (g : cfg) (p : peer) (r : response) (sg : list (N * N)) : list (N * N) :=
  if p_static p then sg else (me g, r_chal r) :: sg.
Definition accepted_peer (p : peer) (l : limiter) (r : response) : peer :=
  mkP Connected (p_static p) None (Some (r_pk r)) (r_cver r) (r_wver r) l (p_disc p).

Inductive Step (g : cfg) (s : state) : action -> state -> list event -> Prop :=
| S_new_static c p0 :
    p0 = match aget c (peers s) with Some p => p | None => new_peer end ->
    p_static p0 = true ->
    Step g s (ANewPeer c) (upd_peers s (aset c (set_status p0 Connecting) (peers s))) [EReset c]
| S_new_dyn c p0 :
    p0 = match aget c (peers s) with Some p => p | None => new_peer end ->
    p_static p0 = false ->
    Step g s (ANewPeer c)
         (mkS (aset c (set_chal (set_status p0 Connecting) (Some (next s))) (peers s))
              (addr s) (next s + 1) (now s) (signed s))
         [EIssued c (next s); EReset c]
| S_idle a nx nw :
    next s <= nx ->
    Step g s a (mkS (peers s) (addr s) nx nw (signed s)) []
| S_limited a c p l nx :
    aget c (peers s) = Some p -> next s <= nx ->
    Step g s a (mkS (aset c (set_lim p l) (peers s)) (addr s) nx (now s) (signed s)) []
| S_chal c x p l :
    aget c (peers s) = Some p ->
    Step g s (ADeliverChal c x)
         (mkS (aset c (set_chal (set_lim p l) (Some (bump s x))) (peers s)) (addr s)
              (bump s x + 1) (now s) ((me g, x) :: signed s))
         [EIssued c (bump s x); ESigned (me g) x]
| S_rejected c r pref p l :
    aget c (peers s) = Some p ->
    Step g s (ADeliverResp c r pref)
         (mkS (aset c (mark_disc (now s) (set_lim p l)) (peers s)) (addr s)
              (bump s (r_chal r)) (now s) (signed s))
         [EReset c]
| S_disc c ext p :
    aget c (peers s) = Some p ->
    Step g s (ADisconnect c ext) (upd_peers s (aset c (mark_disc (now s) p) (peers s))) [EReset c]
| S_accept c r pref p l ch :
    aget c (peers s) = Some p -> p_chal p = Some ch ->
    verify ch (r_sig r) (r_pk r) = true ->
    key_differs p (r_pk r) = false ->
    Step g s (ADeliverResp c r pref)
         (mkS (aset c (accepted_peer p l r) (peers s)) (aset (r_pk r) c (addr s))
              (bump s (r_chal r)) (now s) (accept_signed g p r (signed s)))
         (accept_events g p r c ch)
| S_rejoin c r pref p l ch idx old :
    aget c (peers s) = Some p -> p_chal p = Some ch ->
    verify ch (r_sig r) (r_pk r) = true ->
    key_differs p (r_pk r) = false ->
    idx <> c -> aget idx (peers s) = Some old ->
    p_pk old = Some (r_pk r) -> p_status old <> Connected ->
    Step g s (ADeliverResp c r pref)
         (mkS (aset c (mkP Connected (p_static old) None (Some (r_pk r)) (r_cver r) (r_wver r)
                           (p_lim old) None)
                    (del idx (aset c (accepted_peer p l r) (peers s))))
              (del (r_pk r) (addr s))
              (bump s (r_chal r)) (now s) (accept_signed g p r (signed s)))
         (ERemoved idx :: accept_events g p r c ch)
| S_purge :
    Step g s APurge
         (mkS (filter (fun cp => negb (purgeable (now s) cp)) (peers s))
              (fold_left del_key_of (filter (purgeable (now s)) (peers s)) (addr s))
              (next s) (now s) (signed s))
         (map (fun cp => ERemoved (fst cp)) (filter (purgeable (now s)) (peers s)))
| S_sign k m :
    Step g s (ARemoteSign k m)
         (mkS (peers s) (addr s) (bump s m) (now s) ((k, m) :: signed s)) [ESigned k m].

Lemma cand_spec K c p :
  cand K (c, p) = true <-> p_pk p = Some K /\ p_status p <> Connected.
Proof.
  unfold cand; cbn [snd]. destruct (p_pk p) as [k|]; [|split; [discriminate|intros [? _]; discriminate]].
  rewrite andb_true_iff, N.eqb_eq, negb_true_iff. split.
  - intros [-> H]. split; [reflexivity|]. intros E. rewrite E in H. discriminate.
  - intros [E H]. inversion E; subst. split; [reflexivity|].
    destruct (p_status p); cbn; try reflexivity. contradiction.
Qed.

Lemma find_reconnected_some K pref ps idx :
  ksorted ps -> find_reconnected K pref ps = Some idx ->
  exists old, aget idx ps = Some old /\ cand K (idx, old) = true.
Proof.
  intros Hs. unfold find_reconnected.
  assert (Hfirst : option_map fst (find (cand K) ps) = Some idx ->
                   exists old, aget idx ps = Some old /\ cand K (idx, old) = true).
  { destruct (find (cand K) ps) as [[c p]|] eqn:Hf; cbn [option_map fst]; [|discriminate].
    intros E; inversion E; subst. apply find_cand_some in Hf as [Hin Hc].
    exists p. split; [apply in_aget; assumption|exact Hc]. }
  destruct (aget pref ps) as [p|] eqn:Hp; [|exact Hfirst].
  destruct (cand K (pref, p)) eqn:Hc; [|exact Hfirst].
  intros E; inversion E; subst. eauto.
Qed.

Ltac inv H := inversion H; subst; clear H.

Lemma peer_response_cases g nw c p r :
  (exists outs, peer_response g nw c p r = PRejected (mark_disc nw p) outs)
  \/ (peer_response g nw c p r = PPanic /\ key_differs p (r_pk r) = true)
  \/ (exists ch outs, p_chal p = Some ch /\ verify ch (r_sig r) (r_pk r) = true
        /\ key_differs p (r_pk r) = false
        /\ v_is_set (r_cver r) = true /\ v_same_minor (my_cver g) (r_cver r) = true
        /\ peer_response g nw c p r =
           PAccepted (accepted_peer p (p_lim p) r) outs ch
                     (if p_static p then None else Some (r_chal r))).
Proof.
  unfold peer_response.
  destruct (v_is_set (r_cver r)) eqn:E1; cbn [negb]; [|left; eauto].
  destruct (p_chal p) as [ch|] eqn:E2; [|left; eauto].
  destruct (verify ch (r_sig r) (r_pk r)) eqn:E3; cbn [negb]; [|left; eauto].
  destruct (v_same_minor (my_cver g) (r_cver r)) eqn:E4; cbn [negb]; [|left; eauto].
  destruct (key_differs p (r_pk r)) eqn:E5; [right; left; auto|].
  right; right. exists ch. eexists. repeat split; try reflexivity; assumption.
Qed.

Lemma step_Step g s a s' outs ev :
  ksorted (peers s) -> step g s a = Ok (s', outs, ev) -> Step g s a s' ev.
Proof.
  intros Hs H. destruct a as [c|c x|c r pref|c ext| |dt|k m]; cbn [step] in H.
  - (* new peer *)
    remember (match aget c (peers s) with Some p => p | None => new_peer end) as p0 eqn:Hp0.
    destruct (p_static (set_status p0 Connecting)) eqn:Hst; inv H.
    + eapply S_new_static; eauto.
    + eapply S_new_dyn; eauto.
  - (* challenge *)
    destruct (aget c (peers s)) as [p|] eqn:Hp.
    + destruct (lim_check (now s) (lim_increase (p_lim p))) as [ex l].
      destruct ex; inv H.
      * eapply S_limited; eauto using bump_ge.
      * eapply S_chal; eauto.
    + inv H. apply S_idle. apply bump_ge.
  - (* response *)
    destruct (aget c (peers s)) as [p|] eqn:Hp; [|inv H; apply S_idle; apply bump_ge].
    destruct (lim_check (now s) (lim_increase (p_lim p))) as [ex l].
    destruct ex; [inv H; eapply S_limited; eauto using bump_ge|].
    destruct (peer_response_cases g (now s) c (set_lim p l) r)
      as [[o Hr]|[[Hr _]|[ch [o [Hch [Hv [Hk [_ [_ Hr]]]]]]]]]; rewrite Hr in H.
    + inv H. eapply S_rejected; eauto.
    + discriminate.
    + cbn [set_lim p_chal p_static p_lim] in *.
      change (key_differs (set_lim p l) (r_pk r)) with (key_differs p (r_pk r)) in Hk.
      change (accepted_peer (set_lim p l) l r) with (accepted_peer p l r) in H.
      set (ps1 := aset c (accepted_peer p l r) (peers s)) in *.
      assert (Hs1 : ksorted ps1) by (apply ksorted_aset; exact Hs).
      assert (Hc1 : aget c ps1 = Some (accepted_peer p l r)) by apply aget_aset_eq.
      assert (Esg : match (if p_static p then None else Some (r_chal r)) with
                    | Some m => (me g, m) :: signed s | None => signed s end
                    = accept_signed g p r (signed s))
        by (unfold accept_signed; destruct (p_static p); reflexivity).
      assert (Eev : match (if p_static p then None else Some (r_chal r)) with
                    | Some m => [ESigned (me g) m] | None => [] end ++ [EAccepted c (r_pk r) ch]
                    = accept_events g p r c ch)
        by (unfold accept_events; destruct (p_static p); reflexivity).
      rewrite Esg, Eev in H. clear Esg Eev.
      destruct (find_reconnected (r_pk r) pref ps1) as [idx|] eqn:Hf.
      * destruct (find_reconnected_some _ _ _ _ Hs1 Hf) as [old [Hold Hcand]].
        rewrite Hold in H. apply cand_spec in Hcand as [Hpk Hnc].
        assert (Hne : idx <> c).
        { intros ->. rewrite Hc1 in Hold. inv Hold. apply Hnc. reflexivity. }
        rewrite aget_del_neq in H by congruence. rewrite Hc1 in H.
        destruct (status_eqb (p_status old) Connected) eqn:Hst.
        { apply status_eqb_eq in Hst. contradiction. }
        unfold ps1 in Hold. rewrite aget_aset_neq in Hold by exact Hne.
        inv H. eapply S_rejoin; eauto.
      * inv H. eapply S_accept; eauto.
  - (* disconnect *)
    destruct (aget c (peers s)) as [p|] eqn:Hp; inv H.
    + eapply S_disc; eauto.
    + match goal with |- Step _ ?x _ _ _ => destruct x as [ps ad nx nw sg] end.
      apply (S_idle g (mkS ps ad nx nw sg) (ADisconnect c ext) nx nw). cbn. lia.
  - inv H. apply S_purge.
  - inv H. apply S_idle. lia.
  - inv H. apply S_sign.
Qed.

(* ------------------------------------------------------------------ *)
(* traces                                                               *)
(* ------------------------------------------------------------------ *)
(* traces are newest-first *)
Definition ev_lt (b : N) (e : event) : Prop :=
  match e with
  | EIssued _ ch => ch < b
  | ESigned _ m => m < b
  | EAccepted _ _ ch => ch < b
  | _ => True
  end.

(* what must hold of the events that happened before [e] *)
Definition ev_ok (e : event) (l : list event) : Prop :=
  match e with
  | EIssued c ch => Forall (ev_lt ch) l
  | EAccepted c K ch =>
      In (ESigned K ch) l /\ In (EIssued c ch) l /\ forall c' k', ~ In (EAccepted c' k' ch) l
  | _ => True
  end.
Fixpoint trace_ok (tr : list event) : Prop :=
  match tr with [] => True | e :: l => ev_ok e l /\ trace_ok l end.

(* the acceptance that established the current session of connection c:
   the most recent event about c, if it is an acceptance *)
Fixpoint session (c : N) (tr : list event) : option (N * N) :=
  match tr with
  | [] => None
  | EAccepted c' k ch :: l => if c' =? c then Some (k, ch) else session c l
  | EReset c' :: l => if c' =? c then None else session c l
  | ERemoved c' :: l => if c' =? c then None else session c l
  | _ :: l => session c l
  end.

Definition touches (c : N) (e : event) : bool :=
  match e with
  | EAccepted c' _ _ | EReset c' | ERemoved c' => c' =? c
  | _ => false
  end.

Definition is_accept_of (ch : N) (e : event) : bool :=
  match e with EAccepted _ _ ch' => ch' =? ch | _ => false end.
Definition accepted_count (ch : N) (tr : list event) : nat := length (filter (is_accept_of ch) tr).

(* e1 happened before e2 *)
Definition before (e1 e2 : event) (tr : list event) : Prop :=
  exists l1 l2 l3, tr = l3 ++ e2 :: l2 ++ e1 :: l1.

Lemma ev_lt_mono b b' e : b <= b' -> ev_lt b e -> ev_lt b' e.
Proof. destruct e; cbn [ev_lt]; intros; try exact I; lia. Qed.

Lemma Forall_ev_lt_mono b b' l : b <= b' -> Forall (ev_lt b) l -> Forall (ev_lt b') l.
Proof. intros Hle H. eapply Forall_impl; [|exact H]. intros e. apply ev_lt_mono; exact Hle. Qed.

Lemma session_skip c e l : touches c e = false -> session c (e :: l) = session c l.
Proof. destruct e; cbn [touches session]; intros H; try reflexivity; now rewrite H. Qed.

Lemma session_app_skip c ev l :
  (forall e, In e ev -> touches c e = false) -> session c (ev ++ l) = session c l.
Proof.
  induction ev as [|e t IH]; intros H; [reflexivity|].
  cbn [app]. rewrite session_skip by (apply H; left; reflexivity).
  apply IH. intros e' Hin. apply H. right; exact Hin.
Qed.

Lemma session_in c tr K ch : session c tr = Some (K, ch) -> In (EAccepted c K ch) tr.
Proof.
  induction tr as [|e l IH]; cbn [session]; [discriminate|].
  destruct e as [c' ch'|k m|c' k ch'|c'|c']; try (intros H; right; apply IH; exact H).
  - destruct (N.eqb_spec c' c); intros H; [inv H; left; reflexivity|right; apply IH; exact H].
  - destruct (c' =? c); intros H; [discriminate|right; apply IH; exact H].
  - destruct (c' =? c); intros H; [discriminate|right; apply IH; exact H].
Qed.

Lemma trace_ok_app l1 l2 : trace_ok (l1 ++ l2) -> trace_ok l2.
Proof. induction l1 as [|e t IH]; cbn [app trace_ok]; [auto|]. intros [_ H]; auto. Qed.

Lemma trace_ok_split l1 e l2 : trace_ok (l1 ++ e :: l2) -> ev_ok e l2 /\ trace_ok l2.
Proof. intros H. apply trace_ok_app in H. exact H. Qed.

Lemma issued_unique tr c c' ch :
  trace_ok tr -> In (EIssued c ch) tr -> In (EIssued c' ch) tr -> c = c'.
Proof.
  induction tr as [|e l IH]; [intros _ []|]. cbn [trace_ok]; intros [Hok Hl] H1 H2.
  assert (Hfresh : forall c0 c1, e = EIssued c0 ch -> In (EIssued c1 ch) l -> False).
  { intros c0 c1 -> Hin. cbn [ev_ok] in Hok. rewrite Forall_forall in Hok.
    specialize (Hok _ Hin). cbn [ev_lt] in Hok. lia. }
  destruct H1 as [H1|H1], H2 as [H2|H2].
  - congruence.
  - exfalso. eapply Hfresh; eauto.
  - exfalso. eapply Hfresh; eauto.
  - apply IH; assumption.
Qed.

(* a prefix of neutral events (no issue, no acceptance) keeps a trace well-formed *)
Definition neutral (e : event) : Prop :=
  match e with EIssued _ _ | EAccepted _ _ _ => False | _ => True end.
Lemma trace_ok_neutral ev tr : (forall e, In e ev -> neutral e) -> trace_ok tr -> trace_ok (ev ++ tr).
Proof.
  induction ev as [|e t IH]; intros Hn Ht; [exact Ht|]. cbn [app trace_ok]. split.
  - specialize (Hn e (or_introl eq_refl)). destruct e; cbn in Hn |- *; try exact I; contradiction.
  - apply IH; [|exact Ht]. intros e' Hin. apply Hn. right; exact Hin.
Qed.

(* ------------------------------------------------------------------ *)
(* the invariant                                                        *)
(* ------------------------------------------------------------------ *)
Record Inv (tr : list event) (s : state) : Prop := mkInv {
  i_sorted : ksorted (peers s);
  i_vals   : Forall (ev_lt (next s)) tr;
  i_signed : forall k m, In (k, m) (signed s) -> In (ESigned k m) tr;
  i_chal   : forall c p ch, aget c (peers s) = Some p -> p_chal p = Some ch ->
               In (EIssued c ch) tr /\ forall c' k', ~ In (EAccepted c' k' ch) tr;
  i_conn   : forall c p, aget c (peers s) = Some p -> p_status p = Connected ->
               exists K ch, p_pk p = Some K /\ session c tr = Some (K, ch);
  i_trace  : trace_ok tr;
}.

Lemma static_peers_in n kv : In kv (static_peers n) -> 1 <= fst kv <= N.of_nat n /\ snd kv = static_peer.
Proof.
  induction n as [|n IH]; cbn [static_peers]; [intros []|].
  intros H. apply in_app_or in H as [H|[<-|[]]].
  - destruct (IH H) as [IH1 IH2]. split; [lia|exact IH2].
  - cbn [fst snd]. split; [lia|reflexivity].
Qed.

Lemma static_peers_sorted n : ksorted (static_peers n).
Proof.
  induction n as [|n IH]; cbn [static_peers]; [exact I|].
  apply ksorted_app_one; [exact IH|]. intros kv Hin. apply static_peers_in in Hin. lia.
Qed.

Lemma Inv_init n f0 : Inv [] (init n f0).
Proof.
  constructor; cbn [init peers next signed].
  - apply static_peers_sorted.
  - constructor.
  - intros k m [].
  - intros c p ch Hp Hc. apply aget_in in Hp. apply static_peers_in in Hp as [_ Hp].
    cbn [snd] in Hp. subst p. discriminate.
  - intros c p Hp Hc. apply aget_in in Hp. apply static_peers_in in Hp as [_ Hp].
    cbn [snd] in Hp. subst p. discriminate.
  - exact I.
Qed.

(* lookups after an update of one entry *)
Lemma aget_aset_cases {V} c c0 (v : V) m x :
  aget c0 (aset c v m) = Some x -> (c0 = c /\ x = v) \/ (c0 <> c /\ aget c0 m = Some x).
Proof.
  destruct (N.eq_dec c0 c) as [->|Hne].
  - rewrite aget_aset_eq. intros E; inv E. left; auto.
  - rewrite aget_aset_neq by exact Hne. right; auto.
Qed.

Lemma not_in_app_accept c' k' ch ev tr :
  (forall e, In e ev -> is_accept_of ch e = false) ->
  ~ In (EAccepted c' k' ch) tr -> ~ In (EAccepted c' k' ch) (ev ++ tr).
Proof.
  intros Hev Htr Hin. apply in_app_or in Hin as [Hin|Hin]; [|contradiction].
  specialize (Hev _ Hin). cbn [is_accept_of] in Hev. rewrite N.eqb_refl in Hev. discriminate.
Qed.

Ltac solve_in := repeat (first [left; reflexivity | right]); assumption.

(* generic preservation for steps that neither issue nor accept and leave every
   entry's (challenge, status, key) alone or reset it *)
Definition weaker (c : N) (p p' : peer) : Prop :=
  (p_chal p' = p_chal p \/ p_chal p' = None) /\
  (p_status p' = Connected -> p_status p = Connected) /\ p_pk p' = p_pk p.

Lemma Inv_frame tr s ps' ad' nx' nw' ev :
  Inv tr s ->
  ksorted ps' -> next s <= nx' ->
  (forall e, In e ev -> neutral e /\ ev_lt nx' e) ->
  (forall c p', aget c ps' = Some p' ->
     (exists p, aget c (peers s) = Some p /\ weaker c p p' /\
                (p_status p' = Connected -> forall e, In e ev -> touches c e = false))
     \/ (p_chal p' = None /\ p_status p' <> Connected)) ->
  Inv (ev ++ tr) (mkS ps' ad' nx' nw' (signed s)).
Proof.
  intros [Hs Hv Hsg Hch Hcn Htr] Hs' Hnx Hev Hp.
  assert (Hnoacc : forall ch e, In e ev -> is_accept_of ch e = false).
  { intros ch e Hin. destruct (Hev _ Hin) as [Hn _]. destruct e; cbn in Hn |- *; try reflexivity; contradiction. }
  constructor; cbn [peers next signed].
  - exact Hs'.
  - apply Forall_app. split.
    + apply Forall_forall. intros e Hin. apply Hev; exact Hin.
    + eapply Forall_ev_lt_mono; eauto.
  - intros k m Hin. apply in_or_app. right. apply Hsg; exact Hin.
  - intros c p' ch Hget Hc. destruct (Hp _ _ Hget) as [[p [Hg [[Hw _] _]]]|[Hnone _]]; [|congruence].
    destruct Hw as [Hw|Hw]; [|congruence].
    rewrite Hw in Hc. destruct (Hch _ _ _ Hg Hc) as [Hi Hna]. split.
    + apply in_or_app; right; exact Hi.
    + intros c' k'. apply not_in_app_accept; [intros e; apply Hnoacc|apply Hna].
  - intros c p' Hget Hc. destruct (Hp _ _ Hget) as [[p [Hg [[_ [Hst Hpk]] Hto]]]|[_ Hn]]; [|contradiction].
    destruct (Hcn _ _ Hg (Hst Hc)) as [K [ch [HK Hses]]]. exists K, ch. split; [congruence|].
    rewrite session_app_skip; [exact Hses|]. apply Hto; exact Hc.
  - apply trace_ok_neutral; [|exact Htr]. intros e Hin. apply Hev; exact Hin.
Qed.
