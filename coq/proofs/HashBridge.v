(* From the free-term hash of Merkle.v / BlockId.v to ANY concrete hash function.

   Merkle.v and BlockId.v model hashes as free terms ([Leaf id], [Node l r]; a block's
   identity is the data its hash is computed from).  This file removes that idealisation
   from the statements: for an arbitrary function [H] from byte strings to 32-byte strings
   it defines the concrete computations (merkle.rs over 32-byte values, Block::generate_hash
   = H (prev ++ H (signed bytes))), shows that they are the evaluation [ev] of the free
   terms, and that [ev] is injective unless two different byte strings with the same hash
   can be exhibited ([Collision], an explicit disjunct of every conclusion).

   merkle.rs has no domain separation between a leaf and an inner node.  What separates
   them here is the LENGTH of what is hashed: an inner node hashes exactly 64 bytes, a leaf
   is the hash of a transaction's signed bytes, which are never 64 bytes long
   (Transaction::serialize_for_signature is at least 8+4+... > 64 bytes; premise [leaf_ok]).

   [H] and the table [bytes_of] (interned leaf id -> the byte string whose hash the leaf is)
   are Section variables: the theorems hold for every choice, no axiom is declared. *)
From Saito Require Import Base Bytes BytesProofs Merkle BlockId BlockIdProofs.

Section Hash.
Variable H : list N -> list N.
(* interned leaf id -> the bytes that are hashed (serialize_for_signature of the transaction) *)
Variable bytes_of : N -> list N.
Hypothesis H_len : forall x, length (H x) = 32%nat.
Hypothesis bytes_of_inj : forall a b, bytes_of a = bytes_of b -> a = b.

Definition Collision : Prop := exists x y, x <> y /\ H x = H y.

(* the 32-byte value a term stands for *)
Fixpoint ev (t : hv) : list N :=
  match t with
  | Leaf id => H (bytes_of id)
  | Node a b => H (ev a ++ ev b)
  end.

(* every leaf of the term is the hash of a string that is not 64 bytes long *)
Fixpoint leaf_ok (t : hv) : Prop :=
  match t with
  | Leaf id => length (bytes_of id) <> 64%nat
  | Node a b => leaf_ok a /\ leaf_ok b
  end.

Lemma ev_len t : length (ev t) = 32%nat.
Proof. destruct t; cbn [ev]; apply H_len. Qed.

Lemma H_eq_or_collision x y : H x = H y -> x = y \/ Collision.
Proof.
  intros E. destruct (list_eq_dec N.eq_dec x y) as [e|n]; [now left|].
  right. exists x, y. split; assumption.
Qed.

(* evaluation is injective up to an exhibited collision *)
Theorem ev_inj t1 : forall t2, leaf_ok t1 -> leaf_ok t2 -> ev t1 = ev t2 -> t1 = t2 \/ Collision.
Proof.
  induction t1 as [i|a1 IHa b1 IHb]; intros [j|a2 b2] L1 L2 E; cbn [ev leaf_ok] in *.
  - destruct (H_eq_or_collision _ _ E) as [e|c]; [|now right].
    left. f_equal. now apply bytes_of_inj.
  - destruct (H_eq_or_collision _ _ E) as [e|c]; [|now right].
    exfalso. apply L1. rewrite e, app_length, !ev_len. reflexivity.
  - destruct (H_eq_or_collision _ _ E) as [e|c]; [|now right].
    exfalso. apply L2. rewrite <- e, app_length, !ev_len. reflexivity.
  - destruct L1 as [La1 Lb1], L2 as [La2 Lb2].
    destruct (H_eq_or_collision _ _ E) as [e|c]; [|now right].
    apply app_inv_len in e as [ea eb]; [|now rewrite !ev_len].
    destruct (IHa _ La1 La2 ea) as [->|c]; [|now right].
    destruct (IHb _ Lb1 Lb2 eb) as [->|c]; [|now right].
    now left.
Qed.

(* ---- merkle.rs over concrete 32-byte values (all leaves present) ---- *)
Fixpoint cpair_level (l : list (list N)) : list (list N) :=
  match l with
  | [] => []
  | [x] => [x]
  | x :: y :: t => H (x ++ y) :: cpair_level t
  end.

Fixpoint creduce (fuel : nat) (l : list (list N)) : option (list N) :=
  match l with
  | [] => None
  | [x] => Some x
  | _ => match fuel with
         | O => None
         | S f => creduce f (cpair_level l)
         end
  end.

Definition evo (o : option hv) : option (list N) :=
  match o with Some t => Some (ev t) | None => None end.

Fixpoint all_some (l : list (option hv)) : option (list hv) :=
  match l with
  | [] => Some []
  | Some t :: r => match all_some r with Some ts => Some (t :: ts) | None => None end
  | None :: _ => None
  end.

Lemma cpair_level_commutes_n n : forall l ts l', (length l <= n)%nat ->
  all_some l = Some ts -> pair_level l = Ok l' ->
  exists ts', all_some l' = Some ts' /\ cpair_level (map ev ts) = map ev ts'.
Proof.
  induction n as [|n IH]; intros l ts l' Hn A P.
  - destruct l; [|cbn in Hn; lia]. cbn in A, P. inversion A; inversion P; subst.
    exists []. split; reflexivity.
  - destruct l as [|x [|y t]].
    + cbn in A, P. inversion A; inversion P; subst. exists []. split; reflexivity.
    + cbn in A, P. destruct x as [a|]; [|discriminate]. inversion A; inversion P; subst.
      exists [a]. split; reflexivity.
    + cbn [pair_level all_some] in A, P.
      destruct x as [a|]; [|discriminate]. destruct y as [b|]; [|discriminate].
      destruct (all_some t) as [tt|] eqn:At; [|discriminate].
      destruct (pair_level t) as [r| |s] eqn:Pt; cbn [bind] in P; try discriminate.
      inversion A; inversion P; subst.
      destruct (IH t tt r ltac:(cbn in Hn; lia) At Pt) as (ts' & A' & C').
      exists (Node a b :: ts'). split.
      * cbn [all_some]. now rewrite A'.
      * cbn [map cpair_level ev]. now rewrite C'.
Qed.

Lemma cpair_level_commutes l ts l' :
  all_some l = Some ts -> pair_level l = Ok l' ->
  exists ts', all_some l' = Some ts' /\ cpair_level (map ev ts) = map ev ts'.
Proof. apply (cpair_level_commutes_n (length l)). lia. Qed.

Lemma all_some_length l ts : all_some l = Some ts -> length ts = length l.
Proof.
  revert ts. induction l as [|o l IH]; intros ts A; cbn [all_some] in A.
  - now inversion A.
  - destruct o; [|discriminate]. destruct (all_some l); [|discriminate].
    inversion A; subst. cbn. f_equal. now apply IH.
Qed.

Lemma creduce_commutes fuel : forall l ts o,
  all_some l = Some ts -> reduce fuel l = Ok o -> creduce fuel (map ev ts) = evo o.
Proof.
  induction fuel as [|f IH]; intros l ts o A R.
  - destruct l as [|x [|y t]]; cbn [reduce] in R; try discriminate.
    cbn in A. destruct x as [a|]; [|discriminate]. inversion A; inversion R; subst. reflexivity.
  - destruct l as [|x [|y t]]; cbn [reduce] in R; try discriminate.
    + cbn in A. destruct x as [a|]; [|discriminate]. inversion A; inversion R; subst. reflexivity.
    + destruct (pair_level (x :: y :: t)) as [l'| |s] eqn:P; cbn [bind] in R; try discriminate.
      destruct (cpair_level_commutes _ _ _ A P) as (ts' & A' & C').
      pose proof (IH _ _ _ A' R) as E.
      cbn [all_some] in A. destruct x as [a|]; [|discriminate]. destruct y as [b|]; [|discriminate].
      destruct (all_some t) as [tt|]; [|discriminate]. inversion A; subst.
      cbn [map creduce]. cbn [map] in C'. rewrite C'. exact E.
Qed.

(* the concrete merkle root of the transactions' 32-byte leaf values *)
Definition cmerkle_root (leafvals : list (list N)) : option (list N) :=
  creduce (length leafvals) leafvals.

(* the root computed by merkle.rs from the concrete leaf values is the value of the
   symbolic root of Merkle.v *)
Theorem cmerkle_root_is_ev txs ts r :
  txs <> [] -> all_some (leaves txs) = Some ts -> merkle_root_of txs = Ok r ->
  cmerkle_root (map ev ts) = Some (ev r).
Proof.
  intros Hn A M. unfold merkle_root_of in M. destruct txs as [|t0 tr]; [congruence|].
  destruct (reduce _ (leaves (t0 :: tr))) as [o| |s] eqn:R; cbn [bind] in M; try discriminate.
  destruct o as [h|]; [|discriminate]. inversion M; subst.
  unfold cmerkle_root. rewrite map_length, (all_some_length _ _ A).
  exact (creduce_commutes _ _ _ _ A R).
Qed.

(* leaf_ok is preserved by the tree construction *)
Lemma pair_level_leaf_ok_n n : forall l ts l' ts', (length l <= n)%nat ->
  all_some l = Some ts -> pair_level l = Ok l' -> all_some l' = Some ts' ->
  Forall leaf_ok ts -> Forall leaf_ok ts'.
Proof.
  induction n as [|n IH]; intros l ts l' ts' Hn A P A' F.
  - destruct l; [|cbn in Hn; lia]. cbn in P. inversion P; subst. cbn in A'. inversion A'. constructor.
  - destruct l as [|x [|y t]].
    + cbn in P. inversion P; subst. cbn in A'. inversion A'. constructor.
    + cbn in A, P. destruct x as [a|]; [|discriminate]. inversion A; inversion P; subst.
      cbn in A'. inversion A'; subst. exact F.
    + cbn [pair_level all_some] in A, P.
      destruct x as [a|]; [|discriminate]. destruct y as [b|]; [|discriminate].
      destruct (all_some t) as [tt|] eqn:At; [|discriminate].
      destruct (pair_level t) as [r| |s] eqn:Pt; cbn [bind] in P; try discriminate.
      inversion A; inversion P; subst.
      cbn [all_some] in A'. destruct (all_some r) as [rr|] eqn:Ar; [|discriminate]. inversion A'; subst.
      inversion F as [|? ? Fa F1]; subst. inversion F1 as [|? ? Fb F2]; subst.
      constructor; [cbn [leaf_ok]; auto|].
      exact (IH t tt r rr ltac:(cbn in Hn; lia) At Pt Ar F2).
Qed.

Lemma reduce_leaf_ok fuel : forall l ts h,
  all_some l = Some ts -> reduce fuel l = Ok (Some h) -> Forall leaf_ok ts -> leaf_ok h.
Proof.
  induction fuel as [|f IH]; intros l ts h A R F.
  - destruct l as [|x [|y t]]; cbn [reduce] in R; try discriminate.
    inversion R; subst. cbn in A. inversion A; subst. now inversion F.
  - destruct l as [|x [|y t]]; cbn [reduce] in R; try discriminate.
    + inversion R; subst. cbn in A. inversion A; subst. now inversion F.
    + destruct (pair_level (x :: y :: t)) as [l'| |s] eqn:P; cbn [bind] in R; try discriminate.
      destruct (cpair_level_commutes _ _ _ A P) as (ts' & A' & _).
      apply (IH _ _ _ A' R).
      exact (pair_level_leaf_ok_n _ _ _ _ _ (le_n _) A P A' F).
Qed.

Lemma merkle_root_leaf_ok txs ts r :
  txs <> [] -> all_some (leaves txs) = Some ts -> merkle_root_of txs = Ok r ->
  Forall leaf_ok ts -> leaf_ok r.
Proof.
  intros Hn A M F. unfold merkle_root_of in M. destruct txs as [|t0 tr]; [congruence|].
  destruct (reduce _ (leaves (t0 :: tr))) as [o| |s] eqn:R; cbn [bind] in M; try discriminate.
  destruct o as [h|]; [|discriminate]. inversion M; subst.
  exact (reduce_leaf_ok _ _ _ _ A R F).
Qed.

(* leaf lists of opaque transaction hashes *)
Lemma leaf_ids_all_some lv ids : leaf_ids lv = Some ids -> all_some lv = Some (map Leaf ids).
Proof.
  revert ids. induction lv as [|o t IH]; intros ids L; cbn [leaf_ids] in L.
  - inversion L. reflexivity.
  - destruct o as [[n|]|]; try discriminate. destruct (leaf_ids t) as [l|]; [|discriminate].
    inversion L; subst. cbn [all_some map]. now rewrite (IH l eq_refl).
Qed.

(* two transaction lists whose CONCRETE merkle roots agree carry the same ordered list of
   transaction hashes, or a collision of H is exhibited *)
Theorem concrete_root_determines_leaves txs1 txs2 r1 r2 ids1 ids2 :
  txs1 <> [] -> txs2 <> [] ->
  merkle_root_of txs1 = Ok r1 -> merkle_root_of txs2 = Ok r2 ->
  leaf_ids (leaves txs1) = Some ids1 -> leaf_ids (leaves txs2) = Some ids2 ->
  Forall (fun i => length (bytes_of i) <> 64%nat) ids1 ->
  Forall (fun i => length (bytes_of i) <> 64%nat) ids2 ->
  cmerkle_root (map (fun i => H (bytes_of i)) ids1) = cmerkle_root (map (fun i => H (bytes_of i)) ids2) ->
  ids1 = ids2 \/ Collision.
Proof.
  intros N1 N2 M1 M2 L1 L2 F1 F2 E.
  pose proof (leaf_ids_all_some _ _ L1) as A1. pose proof (leaf_ids_all_some _ _ L2) as A2.
  pose proof (cmerkle_root_is_ev _ _ _ N1 A1 M1) as C1.
  pose proof (cmerkle_root_is_ev _ _ _ N2 A2 M2) as C2.
  rewrite map_map in C1, C2. cbn [ev] in C1, C2. rewrite C1, C2 in E. inversion E as [E'].
  assert (K1 : Forall leaf_ok (map Leaf ids1)) by (apply Forall_map; exact F1).
  assert (K2 : Forall leaf_ok (map Leaf ids2)) by (apply Forall_map; exact F2).
  pose proof (merkle_root_leaf_ok _ _ _ N1 A1 M1 K1) as R1.
  pose proof (merkle_root_leaf_ok _ _ _ N2 A2 M2 K2) as R2.
  destruct (ev_inj _ _ R1 R2 E') as [e|c]; [|now right].
  left. subst r2. exact (merkle_root_determines_leaves _ _ _ _ _ N1 N2 M1 M2 L1 L2).
Qed.

(* ---- the block hash: Block::generate_pre_hash / generate_hash ---- *)
(* the bytes covered by the creator's signature, in the order of serialize_for_signature,
   with the 32 bytes of the merkle root in their place *)
Definition signed_bytes (h : sheader) : list N :=
  be_enc 8 (h_id h) ++ be_enc 8 (h_ts h) ++ h_prev h ++ h_creator h ++ ev (h_root h)
  ++ concat (map (be_enc 8) (h_nums h)).

Definition cblock_hash (h : sheader) : list N := H (h_prev h ++ H (signed_bytes h)).

Lemma signed_bytes_inj h1 h2 :
  wf_header h1 -> wf_header h2 -> signed_bytes h1 = signed_bytes h2 ->
  hdr_bytes h1 = hdr_bytes h2 /\ ev (h_root h1) = ev (h_root h2).
Proof.
  intros (Hi1 & Ht1 & Hp1 & Hc1 & Hn1 & Hf1) (Hi2 & Ht2 & Hp2 & Hc2 & Hn2 & Hf2) E.
  unfold signed_bytes in E. unfold hdr_bytes.
  apply app_inv_len in E as [Eid E]; [|now rewrite !be_enc_length].
  apply app_inv_len in E as [Ets E]; [|now rewrite !be_enc_length].
  apply app_inv_len in E as [Ep E]; [|congruence].
  apply app_inv_len in E as [Ec E]; [|congruence].
  apply app_inv_len in E as [Er En]; [|now rewrite !ev_len].
  rewrite Eid, Ets, Ep, Ec, En. split; [reflexivity|exact Er].
Qed.

(* equal concrete block hashes: equal identity in the sense of BlockId.v, or a collision *)
Theorem cblock_hash_binds h1 h2 :
  wf_header h1 -> wf_header h2 -> leaf_ok (h_root h1) -> leaf_ok (h_root h2) ->
  cblock_hash h1 = cblock_hash h2 ->
  block_identity h1 = block_identity h2 \/ Collision.
Proof.
  intros W1 W2 L1 L2 E. unfold cblock_hash in E.
  destruct (H_eq_or_collision _ _ E) as [e|c]; [|now right].
  assert (P1 : length (h_prev h1) = 32%nat) by (destruct W1 as (_ & _ & P & _); exact P).
  assert (P2 : length (h_prev h2) = 32%nat) by (destruct W2 as (_ & _ & P & _); exact P).
  apply app_inv_len in e as [ep eh]; [|congruence].
  destruct (H_eq_or_collision _ _ eh) as [es|c]; [|now right].
  destruct (signed_bytes_inj _ _ W1 W2 es) as [eb er].
  destruct (ev_inj _ _ L1 L2 er) as [et|c]; [|now right].
  left. unfold block_identity. now rewrite ep, eb, et.
Qed.

(* C06 end to end for an arbitrary hash function: two blocks that pass the identity checks
   and have the same CONCRETE hash carry the same ordered transaction hashes, creator and
   signed header fields -- or two different byte strings with the same hash are exhibited *)
Theorem same_concrete_hash_same_content b1 b2 ids1 ids2 :
  wf_header (ab_hdr b1) -> wf_header (ab_hdr b2) ->
  identity_checks b1 = true -> identity_checks b2 = true ->
  ab_txs b1 <> [] -> ab_txs b2 <> [] ->
  leaf_ids (leaves (ab_txs b1)) = Some ids1 -> leaf_ids (leaves (ab_txs b2)) = Some ids2 ->
  Forall (fun i => length (bytes_of i) <> 64%nat) ids1 ->
  Forall (fun i => length (bytes_of i) <> 64%nat) ids2 ->
  cblock_hash (ab_hdr b1) = cblock_hash (ab_hdr b2) ->
  (ids1 = ids2
   /\ h_creator (ab_hdr b1) = h_creator (ab_hdr b2)
   /\ h_id (ab_hdr b1) = h_id (ab_hdr b2) /\ h_ts (ab_hdr b1) = h_ts (ab_hdr b2)
   /\ h_nums (ab_hdr b1) = h_nums (ab_hdr b2))
  \/ Collision.
Proof.
  intros W1 W2 C1 C2 N1 N2 L1 L2 F1 F2 E.
  assert (R : forall b ids, identity_checks b = true -> ab_txs b <> [] ->
              leaf_ids (leaves (ab_txs b)) = Some ids ->
              Forall (fun i => length (bytes_of i) <> 64%nat) ids -> leaf_ok (h_root (ab_hdr b))).
  { intros b ids C Nn L F. unfold identity_checks in C. apply andb_true_iff in C as [_ C].
    destruct (merkle_root_of (ab_txs b)) as [r| |] eqn:M; try discriminate.
    apply hv_eqb_eq in C. subst.
    apply (merkle_root_leaf_ok _ _ _ Nn (leaf_ids_all_some _ _ L) M).
    apply Forall_map. exact F. }
  destruct (cblock_hash_binds _ _ W1 W2 (R _ _ C1 N1 L1 F1) (R _ _ C2 N2 L2 F2) E) as [e|c]; [|now right].
  left. exact (same_identity_same_content _ _ _ _ W1 W2 C1 C2 N1 N2 L1 L2 e).
Qed.

End Hash.
