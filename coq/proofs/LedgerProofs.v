(* Lemmas about the utxo set of model/Supply.v: membership after a block is wound,
   NoDup preservation, windowed value as a permutation-invariant sum. *)
From Saito Require Import Base CV Supply CVProofs.
From Coq Require Import Permutation.

Lemma in_utxo_In : forall u s, in_utxo u s = true <-> In s u.
Proof.
  intros u s. unfold in_utxo. rewrite existsb_exists. split.
  - intros [x [Hx He]]. apply slip_eqb_eq in He. subst. exact Hx.
  - intro H. exists s. split; [exact H | apply slip_eqb_refl].
Qed.

Lemma In_utxo_remove : forall u s x, In x (utxo_remove u s) <-> In x u /\ x <> s.
Proof.
  intros u s x. unfold utxo_remove. rewrite filter_In. split.
  - intros [H1 H2]. split; auto. apply negb_true_iff in H2. apply slip_eqb_neq in H2. congruence.
  - intros [H1 H2]. split; auto. apply negb_true_iff. apply slip_eqb_neq. congruence.
Qed.

Lemma In_utxo_insert : forall u s x, In x (utxo_insert u s) <-> In x u \/ x = s.
Proof.
  intros u s x. unfold utxo_insert. destruct (in_utxo u s) eqn:E.
  - apply in_utxo_In in E. split; [auto|]. intros [H|H]; subst; auto.
  - cbn [In]. split; intros [H|H]; auto.
Qed.

Lemma NoDup_utxo_remove : forall u s, NoDup u -> NoDup (utxo_remove u s).
Proof. intros. unfold utxo_remove. apply NoDup_filter. assumption. Qed.

Lemma NoDup_utxo_insert : forall u s, NoDup u -> NoDup (utxo_insert u s).
Proof.
  intros u s H. unfold utxo_insert. destruct (in_utxo u s) eqn:E; auto.
  constructor; auto. intro Hin. apply in_utxo_In in Hin. congruence.
Qed.

Definition pos (s : slip) : bool := 0 <? s_amt s.

Lemma In_spend_fold : forall l u x,
  In x (fold_left spend l u) <-> In x u /\ ~ (In x l /\ 0 < s_amt x).
Proof.
  induction l as [|s r IH]; intros u x; cbn [fold_left].
  - split; [intro H; split; auto; intros [[] _] | intros [H _]; exact H].
  - rewrite IH. unfold spend. destruct (0 <? s_amt s) eqn:E.
    + rewrite In_utxo_remove. apply N.ltb_lt in E. cbn [In]. split.
      * intros [[H1 H2] H3]. split; auto. intros [[H4|H4] H5]; [congruence|]. apply H3; auto.
      * intros [H1 H2]. split; [split; auto|].
        -- intro; subst. apply H2. split; auto.
        -- intros [H3 H4]. apply H2. split; auto.
    + apply N.ltb_ge in E. cbn [In]. split.
      * intros [H1 H2]. split; auto. intros [[H3|H3] H4]; [subst; lia|]. apply H2; auto.
      * intros [H1 H2]. split; auto. intros [H3 H4]. apply H2; auto.
Qed.

Lemma In_create_fold : forall l u x,
  In x (fold_left create l u) <-> In x u \/ (In x l /\ 0 < s_amt x).
Proof.
  induction l as [|s r IH]; intros u x; cbn [fold_left].
  - split; [auto | intros [H|[[] _]]; exact H].
  - rewrite IH. unfold create. destruct (0 <? s_amt s) eqn:E.
    + rewrite In_utxo_insert. apply N.ltb_lt in E. cbn [In]. split.
      * intros [[H|H]|[H1 H2]]; subst; auto.
      * intros [H|[[H1|H1] H2]]; subst; auto.
    + apply N.ltb_ge in E. cbn [In]. split.
      * intros [H|[H1 H2]]; auto.
      * intros [H|[[H1|H1] H2]]; subst; auto. lia.
Qed.

Lemma NoDup_spend_fold : forall l u, NoDup u -> NoDup (fold_left spend l u).
Proof.
  induction l as [|s r IH]; intros u H; cbn [fold_left]; auto.
  apply IH. unfold spend. destruct (0 <? s_amt s); auto. apply NoDup_utxo_remove; auto.
Qed.
Lemma NoDup_create_fold : forall l u, NoDup u -> NoDup (fold_left create l u).
Proof.
  induction l as [|s r IH]; intros u H; cbn [fold_left]; auto.
  apply IH. unfold create. destruct (0 <? s_amt s); auto. apply NoDup_utxo_insert; auto.
Qed.

Definition ins (l : list tx) : list slip := flat_map t_from l.
Definition outs (l : list tx) : list slip := flat_map t_to l.

Lemma In_apply_tx : forall u t x,
  In x (apply_tx u t) <->
  (In x u /\ ~ (In x (t_from t) /\ 0 < s_amt x)) \/ (In x (t_to t) /\ 0 < s_amt x).
Proof. intros. unfold apply_tx. rewrite In_create_fold, In_spend_fold. reflexivity. Qed.

Lemma NoDup_apply_txs : forall l u, NoDup u -> NoDup (apply_txs u l).
Proof.
  unfold apply_txs. induction l as [|t r IH]; intros u H; cbn [fold_left]; auto.
  apply IH. unfold apply_tx. apply NoDup_create_fold, NoDup_spend_fold. exact H.
Qed.

(* no input of the block is one of its outputs *)
Definition separated (l : list tx) : Prop :=
  forall x, In x (ins l) -> 0 < s_amt x -> ~ In x (outs l).

Lemma In_apply_txs : forall l u x, separated l ->
  (In x (apply_txs u l) <->
   (In x u /\ ~ (In x (ins l) /\ 0 < s_amt x)) \/ (In x (outs l) /\ 0 < s_amt x)).
Proof.
  unfold apply_txs. induction l as [|t r IH]; intros u x Hsep; cbn [fold_left ins outs flat_map].
  - split; [intro H; left; split; auto; intros [[] _] | intros [[H _]|[[] _]]; exact H].
  - assert (Hsep' : separated r).
    { intros y Hy Hp Ho. apply (Hsep y); unfold ins, outs; cbn [flat_map]; auto using in_or_app. }
    fold (ins r) (outs r). rewrite (IH _ x Hsep'). rewrite In_apply_tx. rewrite !in_app_iff.
    split.
    + intros [[[[H1 H2]|[H1 H2]] H3]|[H1 H2]].
      * left. split; auto. intros [[H4|H4] H5]; [apply H2; auto | apply H3; auto].
      * right. auto.
      * right. auto.
    + intros [[H1 H2]|[[H1|H1] H2]].
      * left. split; [left; split; auto|]; intros [H3 H4]; apply H2; auto.
      * left. split; [right; auto|]. intros [H3 H4].
        apply (Hsep x); unfold ins, outs; cbn [flat_map]; auto using in_or_app.
      * right. auto.
Qed.

(* ---------- windowed value ---------- *)
Definition counts_in (lo : N) (s : slip) : bool := negb (is_bound s) && (lo <=? s_bid s).
Definition wval (lo : N) (l : list slip) : N := sumN (map s_amt (filter (counts_in lo) l)).

Lemma wval_nil : forall lo, wval lo [] = 0.
Proof. reflexivity. Qed.
Lemma wval_cons : forall lo s l, wval lo (s :: l) = (if counts_in lo s then s_amt s else 0) + wval lo l.
Proof. intros. unfold wval. cbn [filter]. destruct (counts_in lo s); cbn [map]; rewrite ?sumN_cons; lia. Qed.
Lemma wval_app : forall lo a b, wval lo (a ++ b) = wval lo a + wval lo b.
Proof. intros. unfold wval. rewrite filter_app, map_app, sumN_app. reflexivity. Qed.
Lemma wval_perm : forall lo a b, Permutation a b -> wval lo a = wval lo b.
Proof.
  intros lo a b H. induction H.
  - reflexivity.
  - rewrite !wval_cons. lia.
  - rewrite !wval_cons. lia.
  - congruence.
Qed.
Lemma wval_filter_pos : forall lo l, wval lo (filter pos l) = wval lo l.
Proof.
  intros lo. induction l as [|s r IH]; [reflexivity|].
  cbn [filter]. unfold pos at 1. destruct (0 <? s_amt s) eqn:E.
  - rewrite !wval_cons, IH. reflexivity.
  - apply N.ltb_ge in E. rewrite wval_cons, IH. destruct (counts_in lo s); lia.
Qed.
Lemma wval_flat_map : forall (A : Type) lo (f : A -> list slip) l,
  wval lo (flat_map f l) = sumN (map (fun a => wval lo (f a)) l).
Proof.
  intros A lo f. induction l as [|a r IH]; [reflexivity|].
  cbn [flat_map map]. rewrite wval_app, sumN_cons, IH. reflexivity.
Qed.
Lemma wval_all_in : forall lo l, (forall s, In s l -> counts_in lo s = true) -> wval lo l = sumN (map s_amt l).
Proof.
  intros lo. induction l as [|s r IH]; intro H; [reflexivity|].
  rewrite wval_cons, H by (left; reflexivity). cbn [map]. rewrite sumN_cons, IH; auto.
  intros; apply H; right; assumption.
Qed.
Lemma wval_all_out : forall lo l, (forall s, In s l -> 0 < s_amt s -> counts_in lo s = false) -> wval lo l = 0.
Proof.
  intros lo. induction l as [|s r IH]; intro H; [reflexivity|].
  rewrite wval_cons, IH by (intros; apply H; auto; right; assumption).
  destruct (counts_in lo s) eqn:E; [|lia].
  destruct (N.eq_dec (s_amt s) 0) as [Hz|Hz]; [lia|].
  rewrite H in E; [discriminate | left; reflexivity | lia].
Qed.
(* removing something that does not count leaves the value unchanged *)
Lemma wval_remove_out : forall lo u s, counts_in lo s = false -> wval lo (utxo_remove u s) = wval lo u.
Proof.
  intros lo u s H. unfold utxo_remove. induction u as [|x r IH]; [reflexivity|].
  cbn [filter]. destruct (slip_eqb s x) eqn:E; cbn [negb].
  - apply slip_eqb_eq in E. subst x. rewrite wval_cons, H, IH. lia.
  - rewrite !wval_cons, IH. reflexivity.
Qed.

(* ---------- the block as a whole ---------- *)
Lemma NoDup_app_intro : forall (a b : list slip),
  NoDup a -> NoDup b -> (forall x, In x a -> ~ In x b) -> NoDup (a ++ b).
Proof.
  induction a as [|x r IH]; intros b Ha Hb Hd; cbn [app]; auto.
  inversion Ha; subst. constructor.
  - rewrite in_app_iff. intros [H|H]; [contradiction|]. apply (Hd x); [left; reflexivity | exact H].
  - apply IH; auto. intros y Hy. apply Hd. right. exact Hy.
Qed.

Lemma In_filter_pos : forall (L : list slip) x, In x (filter pos L) <-> In x L /\ 0 < s_amt x.
Proof. intros L x. rewrite filter_In. unfold pos. rewrite N.ltb_lt. reflexivity. Qed.

Lemma wind_permutation : forall l u,
  NoDup u -> separated l ->
  NoDup (filter pos (ins l)) -> NoDup (filter pos (outs l)) ->
  (forall x, In x (ins l) -> 0 < s_amt x -> In x u) ->
  (forall x, In x (outs l) -> 0 < s_amt x -> ~ In x u) ->
  Permutation (apply_txs u l ++ filter pos (ins l)) (u ++ filter pos (outs l)).
Proof.
  intros l u Hu Hsep Hni Hno Hin Hout.
  apply NoDup_Permutation.
  - apply NoDup_app_intro; auto using NoDup_apply_txs.
    intros x Hx Hx'. apply In_filter_pos in Hx'. destruct Hx' as [Hx1 Hx2].
    apply (In_apply_txs l u x Hsep) in Hx. destruct Hx as [[_ H]|[H _]].
    + apply H. auto.
    + apply (Hsep x); auto.
  - apply NoDup_app_intro; auto.
    intros x Hx Hx'. apply In_filter_pos in Hx'. destruct Hx' as [Hx1 Hx2]. apply (Hout x); auto.
  - intro x. rewrite !in_app_iff, !In_filter_pos, (In_apply_txs l u x Hsep). split.
    + intros [[[H1 H2]|[H1 H2]]|[H1 H2]]; auto.
    + intros [H|[H1 H2]]; auto.
      destruct (in_dec slip_eq_dec x (ins l)) as [Hi|Hi].
      * destruct (N.eq_dec (s_amt x) 0) as [Hz|Hz].
        -- left. left. split; auto. intros [_ Hp]. lia.
        -- right. split; auto. lia.
      * left. left. split; auto. intros [Hi' _]. contradiction.
Qed.

(* value bookkeeping of a wound block: what was there plus what is created equals what is left
   plus what was consumed (every window bound) *)
Lemma wind_value : forall lo l u,
  NoDup u -> separated l ->
  NoDup (filter pos (ins l)) -> NoDup (filter pos (outs l)) ->
  (forall x, In x (ins l) -> 0 < s_amt x -> In x u) ->
  (forall x, In x (outs l) -> 0 < s_amt x -> ~ In x u) ->
  wval lo (apply_txs u l) + wval lo (ins l) = wval lo u + wval lo (outs l).
Proof.
  intros lo l u Hu Hsep Hni Hno Hin Hout.
  pose proof (wval_perm lo _ _ (wind_permutation l u Hu Hsep Hni Hno Hin Hout)) as H.
  rewrite !wval_app, !wval_filter_pos in H. exact H.
Qed.
