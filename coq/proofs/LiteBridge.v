(* C18's in-memory commitment statements over an arbitrary concrete hash function, through
   HashBridge.v: the free terms of Merkle.v evaluate to 32-byte values (ev); equal terms give equal
   values; different terms give different values or an explicit collision of the hash.
   (Only the in-memory statements: a placeholder leaf after the wire trip is signature[0..32], raw
   bytes that are not the hash of anything, which `ev` does not describe.) *)
From Saito Require Import Base Merkle Lite LiteProofs HashBridge.

Section Concrete.
Variable H : list N -> list N.
Variable bytes_of : N -> list N.
Hypothesis H_len : forall x, length (H x) = 32%nat.
Hypothesis bytes_of_inj : forall a b, bytes_of a = bytes_of b -> a = b.

Let cev := ev H bytes_of.
Let cleaf_ok := leaf_ok bytes_of.

(* positive: outside the known class the two concrete roots are the same 32 bytes — no assumption
   on the hash at all *)
Lemma root_concrete : forall b ks l r1 r2, no_spv (b_txs b) -> ~ Known_C18_mem b ks ->
  lite b ks = Ok l ->
  generate_merkle_root l false false = Ok r1 -> generate_merkle_root b false false = Ok r2 ->
  cev r1 = cev r2.
Proof.
  intros b ks l r1 r2 Hs Hk Hl H1 H2.
  rewrite (root_mem_guarded b ks l Hs Hk Hl) in H1. rewrite H1 in H2. inversion H2. reflexivity.
Qed.

Lemma differ_or_collision : forall r1 r2, cleaf_ok r1 -> cleaf_ok r2 -> r1 <> r2 ->
  cev r1 <> cev r2 \/ Collision H.
Proof.
  intros r1 r2 L1 L2 Hne.
  destruct (list_eq_dec N.eq_dec (cev r1) (cev r2)) as [e|n]; [|left; exact n].
  destruct (ev_inj H bytes_of H_len bytes_of_inj r1 r2 L1 L2 e) as [E|C]; [contradiction|right; exact C].
Qed.

(* negative: on the merged-pair class the client's recomputed 32-byte root differs from the header's,
   or the two computations exhibit a collision of the hash *)
Lemma root_fails_on_merge_concrete : forall b ks l r1 r2,
  no_spv (b_txs b) -> all_hashed (b_txs b) ->
  aligned_omitted ks (b_txs b) = true -> omitted_multi ks (b_txs b) = false ->
  lite b ks = Ok l ->
  generate_merkle_root l false false = Ok r1 -> generate_merkle_root b false false = Ok r2 ->
  cleaf_ok r1 -> cleaf_ok r2 ->
  cev r1 <> cev r2 \/ Collision H.
Proof.
  intros b ks l r1 r2 Hs Hh Ha Hm Hl H1 H2 L1 L2. apply differ_or_collision; try assumption.
  intro E. subst r2. apply (root_fails_on_merge b ks l Hs Hh Ha Hm Hl). rewrite H1, H2. reflexivity.
Qed.

Lemma root_fails_on_replacements_concrete : forall b ks l r1 r2,
  no_spv (b_txs b) -> all_hashed (b_txs b) ->
  aligned_omitted ks (b_txs b) = false -> omitted_multi ks (b_txs b) = true ->
  lite b ks = Ok l ->
  generate_merkle_root l false false = Ok r1 -> generate_merkle_root b false false = Ok r2 ->
  cleaf_ok r1 -> cleaf_ok r2 ->
  cev r1 <> cev r2 \/ Collision H.
Proof.
  intros b ks l r1 r2 Hs Hh Ha Hm Hl H1 H2 L1 L2. apply differ_or_collision; try assumption.
  intro E. subst r2. apply (root_fails_on_replacements b ks l Hs Hh Ha Hm Hl). rewrite H1, H2. reflexivity.
Qed.

End Concrete.
