(* Lemmas for C18 (lite block is a faithful projection of its full block). *)
From Saito Require Import Base Merkle Lite.

Local Open Scope N_scope.

(* ------------------------------------------------------------------ generalities *)

Lemma list_ind2 {A} (P : list A -> Prop) :
  P [] -> (forall x, P [x]) -> (forall x y t, P t -> P (x :: y :: t)) -> forall l, P l.
Proof.
  intros H0 H1 H2.
  fix IH 1. intros [|x [|y t]]; [exact H0|apply H1|apply H2, IH].
Qed.

Lemma hv_eqb_refl : forall a, hv_eqb a a = true.
Proof. induction a; cbn [hv_eqb]; [apply N.eqb_refl|rewrite IHa1, IHa2; reflexivity]. Qed.

Lemma hv_eqb_eq : forall a b, hv_eqb a b = true <-> a = b.
Proof.
  induction a as [x|a1 IH1 a2 IH2]; destruct b as [y|b1 b2]; cbn [hv_eqb]; split; intro H;
    try discriminate.
  - apply N.eqb_eq in H. subst; reflexivity.
  - inversion H; apply N.eqb_refl.
  - apply andb_true_iff in H as [Ha Hb]. apply IH1 in Ha. apply IH2 in Hb. subst; reflexivity.
  - inversion H; subst. rewrite (proj2 (IH1 b1) eq_refl), (proj2 (IH2 b2) eq_refl). reflexivity.
Qed.

Definition nonspv (t : tx) : bool := negb (is_spv t).

(* a full block as Block::create produces it: no transaction of the placeholder type *)
Definition no_spv (l : list tx) : Prop := Forall (fun t => is_spv t = false) l.
(* every transaction carries a hash (Transaction::generate has run) *)
Definition all_hashed (l : list tx) : Prop := Forall (fun t => t_hfs t <> None) l.
(* Transaction::generate has run on exactly this content *)
Definition tx_generated (t : tx) : Prop := rehash t = t.
Definition generated (b : block) : Prop :=
  b_hash b = block_hash_of (b_hdr b) /\ Forall tx_generated (b_txs b).
(* the merkle_root field is the root of the transactions (what Block::validate should, but on the
   pinned tree does not, enforce for a non-zero field) *)
Definition root_consistent (b : block) : Prop :=
  generate_merkle_root b true true = Ok (h_merkle_root (b_hdr b)).

Lemma set_merkle_root_same : forall h, set_merkle_root h (h_merkle_root h) = h.
Proof. destruct h; reflexivity. Qed.

Lemma tx_generated_hashed : forall t, tx_generated t -> t_hfs t <> None.
Proof. intros t H. unfold tx_generated in H. rewrite <- H. discriminate. Qed.

Lemma generated_all_hashed : forall b, generated b -> all_hashed (b_txs b).
Proof.
  intros b [_ H]. unfold all_hashed. eapply Forall_impl; [|exact H].
  apply tx_generated_hashed.
Qed.

(* ------------------------------------------------------------------ the pair-merging loop *)

(* the loop only ever touches placeholder-typed entries *)
Lemma merged_is_spv : forall x r h, is_spv (merged x r h) = is_spv x.
Proof. reflexivity. Qed.

Lemma merge_loop_nonspv : forall fuel l l',
  merge_loop fuel l = Ok l' -> filter nonspv l' = filter nonspv l.
Proof.
  induction fuel as [|f IH]; intros l l' H; destruct l as [|x [|y t]]; cbn [merge_loop] in H;
    try (inversion H; reflexivity); try discriminate.
  destruct (mergeable x y) eqn:Hm.
  - destruct (2 ^ 32 <=? 2 * t_repl x); [discriminate|].
    destruct (t_hfs x) as [a|]; [|discriminate].
    destruct (t_hfs y) as [b|]; [|discriminate].
    apply IH in H. rewrite H.
    unfold mergeable in Hm. apply andb_true_iff in Hm as [Hm _]. apply andb_true_iff in Hm as [Hx Hy].
    assert (Nx : nonspv x = false) by (unfold nonspv; rewrite Hx; reflexivity).
    assert (Ny : nonspv y = false) by (unfold nonspv; rewrite Hy; reflexivity).
    assert (Nm : forall r h, nonspv (merged x r h) = false)
      by (intros; unfold nonspv; rewrite merged_is_spv, Hx; reflexivity).
    cbn [filter]. rewrite Nm, Nx, Ny. reflexivity.
  - destruct (merge_loop f t) as [r| |s] eqn:Hr; cbn [bind] in H; try discriminate.
    inversion H; subst. apply IH in Hr. cbn [filter]. rewrite Hr. reflexivity.
Qed.

(* no merge happens on this list: no pair met by the loop is mergeable *)
Fixpoint no_merge (l : list tx) : bool :=
  match l with
  | x :: y :: t => negb (mergeable x y) && no_merge t
  | _ => true
  end.

Lemma merge_loop_id : forall fuel l,
  (length l <= fuel)%nat -> no_merge l = true -> merge_loop fuel l = Ok l.
Proof.
  induction fuel as [|f IH]; intros l Hl Hn; destruct l as [|x [|y t]]; cbn [merge_loop]; try reflexivity.
  - cbn [length] in Hl. lia.
  - cbn [no_merge] in Hn. apply andb_true_iff in Hn as [Hm Hn]. apply negb_true_iff in Hm.
    rewrite Hm. rewrite IH; [reflexivity| cbn [length] in Hl; lia | exact Hn].
Qed.

(* on a full block, "no merge" is exactly "no sibling pair omitted as a whole" *)
Lemma prune1_kept : forall ks t, touches ks t = true -> prune1 ks t = t.
Proof. intros ks t H. unfold prune1. rewrite H. reflexivity. Qed.

Lemma prune1_omitted : forall ks t, touches ks t = false -> prune1 ks t = placeholder t.
Proof. intros ks t H. unfold prune1. rewrite H. reflexivity. Qed.

Lemma mergeable_pruned : forall ks x y,
  is_spv x = false -> is_spv y = false ->
  mergeable (prune1 ks x) (prune1 ks y) = negb (touches ks x) && negb (touches ks y).
Proof.
  intros ks x y Hx Hy. unfold prune1, mergeable.
  destruct (touches ks x), (touches ks y); cbn [negb andb]; rewrite ?Hx, ?Hy; cbn [andb];
    reflexivity.
Qed.

Lemma no_merge_pruned : forall ks l, no_spv l ->
  no_merge (map (prune1 ks) l) = negb (aligned_omitted ks l).
Proof.
  intros ks l. induction l as [| x | x y t IH] using list_ind2; intro H; try reflexivity.
  inversion H as [|? ? Hx H']; subst. inversion H' as [|? ? Hy H'']; subst.
  cbn [map no_merge aligned_omitted]. rewrite mergeable_pruned by assumption.
  rewrite IH by assumption. rewrite negb_orb. reflexivity.
Qed.

(* ------------------------------------------------------------------ leaves of a pruned list *)

Lemma leaves_of_placeholder : forall t, leaves_of (placeholder t) = [t_hfs t].
Proof. reflexivity. Qed.

Lemma leaves_pruned : forall ks l, omitted_multi ks l = false ->
  leaves (map (prune1 ks) l) = leaves l.
Proof.
  intros ks l. induction l as [|x t IH]; intro H; [reflexivity|].
  unfold omitted_multi in H. cbn [existsb] in H. apply orb_false_iff in H as [Hx Ht].
  unfold leaves in *. cbn [map flat_map]. rewrite (IH Ht). f_equal.
  unfold prune1. destruct (touches ks x); [reflexivity|].
  cbn [negb andb] in Hx. rewrite leaves_of_placeholder. unfold leaves_of. rewrite Hx. reflexivity.
Qed.

Lemma merkle_root_pruned : forall ks l, omitted_multi ks l = false ->
  merkle_root_of (map (prune1 ks) l) = merkle_root_of l.
Proof.
  intros ks l H. destruct l as [|x t]; [reflexivity|].
  unfold merkle_root_of. rewrite (leaves_pruned ks (x :: t) H). reflexivity.
Qed.

(* ------------------------------------------------------------------ lite: shape of the result *)

Lemma lite_inv : forall b ks l, lite b ks = Ok l ->
  exists txs mr,
    merge_loop (length (map (prune1 ks) (b_txs b))) (map (prune1 ks) (b_txs b)) = Ok txs /\
    generate_merkle_root b true true = Ok mr /\
    b_txs l = txs /\ b_hash l = b_hash b /\ b_hdr l = set_merkle_root (b_hdr b) mr.
Proof.
  intros b ks l H. unfold lite in H.
  destruct (merge_loop _ _) as [txs| |s]; cbn [bind] in H; try discriminate.
  destruct (generate_merkle_root b true true) as [mr| |s]; cbn [bind] in H; try discriminate.
  inversion H; subst. exists txs, mr. repeat split; reflexivity.
Qed.

(* header: every field but the merkle root is copied; the merkle root field is the root
   recomputed from the full block's transactions; the hash field is copied *)
Lemma header_same_but_root : forall b ks l, lite b ks = Ok l ->
  b_hash l = b_hash b
  /\ generate_merkle_root b true true = Ok (h_merkle_root (b_hdr l))
  /\ set_merkle_root (b_hdr l) (h_merkle_root (b_hdr b)) = b_hdr b.
Proof.
  intros b ks l H. destruct (lite_inv _ _ _ H) as (txs & mr & _ & Hmr & _ & Hh & Hd).
  rewrite Hd. split; [exact Hh|]. split.
  - rewrite Hmr. destruct (b_hdr b); reflexivity.
  - destruct (b_hdr b); reflexivity.
Qed.

Lemma header_same : forall b ks l, root_consistent b -> lite b ks = Ok l ->
  b_hdr l = b_hdr b /\ b_hash l = b_hash b.
Proof.
  intros b ks l Hc H. destruct (lite_inv _ _ _ H) as (txs & mr & _ & Hmr & _ & Hh & Hd).
  unfold root_consistent in Hc. rewrite Hc in Hmr. inversion Hmr; subst mr.
  rewrite Hd, set_merkle_root_same. split; [reflexivity|exact Hh].
Qed.

(* relevant transactions: present in full, in order, nothing else of non-placeholder type *)
Lemma filter_nonspv_pruned : forall ks l,
  filter nonspv (map (prune1 ks) l) = filter (fun t => nonspv t && touches ks t) l.
Proof.
  intros ks l. induction l as [|x t IH]; [reflexivity|].
  cbn [map filter]. rewrite IH. unfold prune1.
  destruct (touches ks x) eqn:Ht.
  - rewrite andb_true_r. reflexivity.
  - rewrite andb_false_r. reflexivity.
Qed.

Lemma keeps_relevant : forall b ks l, lite b ks = Ok l ->
  filter nonspv (b_txs l) = filter (fun t => nonspv t && touches ks t) (b_txs b).
Proof.
  intros b ks l H. destruct (lite_inv _ _ _ H) as (txs & mr & Hm & _ & Ht & _).
  rewrite Ht. apply merge_loop_nonspv in Hm. rewrite Hm. apply filter_nonspv_pruned.
Qed.

Lemma keeps_relevant_in : forall b ks l t, lite b ks = Ok l ->
  In t (b_txs b) -> is_spv t = false -> touches ks t = true -> In t (b_txs l).
Proof.
  intros b ks l t H Hin Hs Ht.
  assert (Hf : In t (filter nonspv (b_txs l))).
  { rewrite (keeps_relevant _ _ _ H). apply filter_In. split; [exact Hin|].
    unfold nonspv. rewrite Hs, Ht. reflexivity. }
  apply filter_In in Hf. tauto.
Qed.

(* ------------------------------------------------------------------ no panic, enough fuel *)

Definition is_some {A} (o : option A) : Prop := o <> None.

Fixpoint half (n : nat) : nat :=
  match n with
  | S (S k) => S (half k)
  | S O => 1
  | O => 0
  end.

Lemma half_lt : forall n, (2 <= n -> half n < n)%nat /\ (1 <= n -> 1 <= half n)%nat /\ (half n <= n)%nat.
Proof.
  fix IH 1. intros [|[|k]]; cbn [half]; [lia|lia|].
  destruct (IH k) as (A & B & C). lia.
Qed.

Lemma pair_level_some : forall l, Forall is_some l ->
  exists l', pair_level l = Ok l' /\ Forall is_some l' /\ length l' = half (length l).
Proof.
  induction l as [| x | x y t IH] using list_ind2; intro H.
  - exists []. repeat split; constructor.
  - inversion H as [|? ? Hx _]; subst. destruct x as [a|]; [|exfalso; apply Hx; reflexivity].
    exists [Some a]. repeat split. constructor; [discriminate|constructor].
  - inversion H as [|? ? Hx H']; subst. inversion H' as [|? ? Hy H'']; subst.
    destruct x as [a|]; [|exfalso; apply Hx; reflexivity].
    destruct y as [b|]; [|exfalso; apply Hy; reflexivity].
    destruct (IH H'') as (r & Hr & Hs & Hl).
    exists (Some (Node a b) :: r). cbn [pair_level]. rewrite Hr. cbn [bind].
    repeat split; [constructor; [discriminate|exact Hs] | cbn [length half]; rewrite Hl; reflexivity].
Qed.

Lemma reduce_some : forall fuel l, Forall is_some l -> l <> [] -> (length l <= fuel)%nat ->
  exists h, reduce fuel l = Ok (Some h).
Proof.
  induction fuel as [|f IH]; intros l Hs Hne Hl.
  - destruct l; [congruence|cbn [length] in Hl; lia].
  - destruct l as [|x [|y t]]; [congruence| |].
    + inversion Hs as [|? ? Hx _]; subst. destruct x as [a|]; [|exfalso; apply Hx; reflexivity].
      exists a. reflexivity.
    + destruct (pair_level_some _ Hs) as (l' & Hp & Hs' & Hlen).
      cbn [reduce]. rewrite Hp. cbn [bind].
      destruct (half_lt (length (x :: y :: t))) as (A & B & _).
      cbn [length] in *.
      apply IH; [exact Hs'| |lia].
      intro E. subst l'. cbn [length] in Hlen. lia.
Qed.

Lemma leaves_of_some : forall t, t_hfs t <> None -> Forall is_some (leaves_of t) /\ leaves_of t <> [].
Proof.
  intros t H. unfold leaves_of. destruct (1 <? t_repl t) eqn:Hr.
  - split.
    + apply Forall_forall. intros o Ho. apply repeat_spec in Ho. subst. discriminate.
    + destruct (N.to_nat (t_repl t)) eqn:E; [lia|]. discriminate.
  - split; [constructor; [exact H|constructor]|discriminate].
Qed.

Lemma leaves_some : forall l, all_hashed l -> Forall is_some (leaves l) /\ (l <> [] -> leaves l <> []).
Proof.
  induction l as [|x t IH]; intro H.
  - split; [constructor|congruence].
  - inversion H as [|? ? Hx Ht]; subst. destruct (IH Ht) as [A _].
    destruct (leaves_of_some x Hx) as [B C].
    unfold leaves in *. cbn [flat_map]. split.
    + apply Forall_app. split; assumption.
    + intros _ E. apply app_eq_nil in E. tauto.
Qed.

Lemma merkle_root_total : forall l, all_hashed l -> exists h, merkle_root_of l = Ok h.
Proof.
  intros l H. destruct l as [|x t]; [exists hzero; reflexivity|].
  destruct (leaves_some _ H) as [A B].
  destruct (reduce_some (length (leaves (x :: t))) (leaves (x :: t)) A) as (h & Hh);
    [apply B; discriminate|lia|].
  exists h. unfold merkle_root_of. rewrite Hh. reflexivity.
Qed.

Lemma generate_merkle_root_total : forall b f1 f2, all_hashed (b_txs b) ->
  exists h, generate_merkle_root b f1 f2 = Ok h.
Proof.
  intros b f1 f2 H. unfold generate_merkle_root. destruct (b_txs b) as [|x t] eqn:E.
  - destruct (f1 || f2); eexists; reflexivity.
  - rewrite <- E in *. apply merkle_root_total. exact H.
Qed.

(* loop invariant on a pruned full block: beyond the current head every placeholder still
   has replacement count 1; the head may already be a merged pair *)
Definition tail_ok (t : tx) : Prop := t_hfs t <> None /\ (is_spv t = false \/ t_repl t = 1).
Definition head_ok (t : tx) : Prop := t_hfs t <> None /\ (is_spv t = false \/ t_repl t = 1 \/ t_repl t = 2).

Lemma tail_head_ok : forall t, tail_ok t -> head_ok t.
Proof. intros t [A [B|B]]; split; auto. Qed.

Lemma merge_loop_total : forall fuel l, (length l <= fuel)%nat ->
  match l with [] => True | x :: t => head_ok x /\ Forall tail_ok t end ->
  exists l', merge_loop fuel l = Ok l'.
Proof.
  induction fuel as [|f IH]; intros l Hl Hinv; destruct l as [|x [|y t]]; cbn [merge_loop];
    try (eexists; reflexivity).
  - cbn [length] in Hl. lia.
  - destruct Hinv as [[Hxh Hx] Ht]. inversion Ht as [|? ? [Hyh Hy] Ht']; subst.
    destruct (mergeable x y) eqn:Hm.
    + unfold mergeable in Hm. apply andb_true_iff in Hm as [Hm Hr]. apply andb_true_iff in Hm as [Sx Sy].
      apply N.eqb_eq in Hr.
      assert (Ry : t_repl y = 1) by (destruct Hy as [Hy|Hy]; [congruence|exact Hy]).
      assert (Rx : t_repl x = 1) by congruence.
      rewrite Rx. change (2 ^ 32 <=? 2 * 1) with false. cbv iota.
      destruct (t_hfs x) as [a|]; [|congruence]. destruct (t_hfs y) as [b|]; [|congruence].
      apply IH; [cbn [length] in *; lia|].
      split; [|exact Ht']. split; [discriminate|]. right; right. reflexivity.
    + destruct (IH t) as (r & Hr); [cbn [length] in Hl; lia| |].
      * destruct t as [|z t']; [exact I|]. inversion Ht' as [|? ? Hz Ht'']; subst.
        split; [apply tail_head_ok; exact Hz|exact Ht''].
      * rewrite Hr. cbn [bind]. eexists; reflexivity.
Qed.

Lemma pruned_tail_ok : forall ks l, no_spv l -> all_hashed l -> Forall tail_ok (map (prune1 ks) l).
Proof.
  intros ks l Hs Hh. induction l as [|x t IH]; [constructor|].
  inversion Hs; inversion Hh; subst. cbn [map]. constructor; [|apply IH; assumption].
  unfold prune1. destruct (touches ks x).
  - split; [assumption|left; assumption].
  - split; [assumption|right; reflexivity].
Qed.

Lemma lite_total : forall b ks, no_spv (b_txs b) -> all_hashed (b_txs b) ->
  exists l, lite b ks = Ok l.
Proof.
  intros b ks Hs Hh. unfold lite.
  destruct (merge_loop_total (length (map (prune1 ks) (b_txs b))) (map (prune1 ks) (b_txs b))) as (txs & Ht);
    [lia| |].
  - pose proof (pruned_tail_ok ks _ Hs Hh) as P.
    destruct (map (prune1 ks) (b_txs b)) as [|x t]; [exact I|].
    inversion P; subst. split; [apply tail_head_ok; assumption|assumption].
  - rewrite Ht. cbn [bind].
    destruct (generate_merkle_root_total b true true Hh) as (mr & Hmr). rewrite Hmr. cbn [bind].
    eexists; reflexivity.
Qed.

(* ------------------------------------------------------------------ the transaction commitment, in memory *)

Lemma lite_txs_unmerged : forall b ks l, no_spv (b_txs b) ->
  aligned_omitted ks (b_txs b) = false -> lite b ks = Ok l ->
  b_txs l = map (prune1 ks) (b_txs b).
Proof.
  intros b ks l Hs Ha H. destruct (lite_inv _ _ _ H) as (txs & mr & Hm & _ & Ht & _).
  rewrite merge_loop_id in Hm; [inversion Hm; congruence|lia|].
  rewrite no_merge_pruned by assumption. rewrite Ha. reflexivity.
Qed.

Lemma gmr_eq_of_root : forall a b, (b_txs a = [] <-> b_txs b = []) ->
  merkle_root_of (b_txs a) = merkle_root_of (b_txs b) ->
  generate_merkle_root a false false = generate_merkle_root b false false.
Proof.
  intros a b He Hr. unfold generate_merkle_root.
  destruct (b_txs a) as [|x t] eqn:Ea; destruct (b_txs b) as [|y u] eqn:Eb; cbn [orb]; try reflexivity.
  - destruct He as [He _]. specialize (He eq_refl). discriminate.
  - destruct He as [_ He]. specialize (He eq_refl). discriminate.
  - exact Hr.
Qed.

Lemma root_preserved : forall b ks l, no_spv (b_txs b) ->
  aligned_omitted ks (b_txs b) = false -> omitted_multi ks (b_txs b) = false ->
  lite b ks = Ok l ->
  generate_merkle_root l false false = generate_merkle_root b false false.
Proof.
  intros b ks l Hs Ha Hm H.
  pose proof (lite_txs_unmerged _ _ _ Hs Ha H) as Ht.
  apply gmr_eq_of_root.
  - rewrite Ht. destruct (b_txs b); cbn [map]; split; intro; congruence.
  - rewrite Ht. apply merkle_root_pruned. exact Hm.
Qed.

(* ------------------------------------------------------------------ the wire trip *)

Lemma rehash_clear : forall t, rehash (clear_hfs t) = rehash t.
Proof. reflexivity. Qed.

Lemma map_rehash_clear_generated : forall l, Forall tx_generated l -> map rehash (map clear_hfs l) = l.
Proof.
  induction l as [|x t IH]; intro H; [reflexivity|]. inversion H; subst.
  cbn [map]. rewrite rehash_clear, IH by assumption. f_equal. assumption.
Qed.

(* decodability (the GoldenTicket payload rule of Transaction::deserialize_from_net) *)
Definition all_decodable (l : list tx) : Prop := forallb decodable l = true.

Lemma receive_inv : forall l c, receive l = Ok c -> generate (wire l) = Ok c.
Proof. intros l c H. unfold receive in H. destruct (forallb decodable (b_txs l)); [exact H|discriminate]. Qed.

Lemma receive_ok : forall l, all_decodable (b_txs l) -> receive l = generate (wire l).
Proof. intros l H. unfold receive. unfold all_decodable in H. rewrite H. reflexivity. Qed.

Lemma merge_loop_decodable : forall fuel l l', merge_loop fuel l = Ok l' ->
  forallb decodable l = true -> forallb decodable l' = true.
Proof.
  induction fuel as [|f IH]; intros l l' H Hd; destruct l as [|x [|y t]]; cbn [merge_loop] in H;
    try discriminate; try (inversion H; subst; exact Hd).
  cbn [forallb] in Hd. apply andb_true_iff in Hd as [Dx Hd]. apply andb_true_iff in Hd as [Dy Dt].
  destruct (mergeable x y) eqn:Hm.
  - destruct (2 ^ 32 <=? 2 * t_repl x); [discriminate|].
    destruct (t_hfs x) as [a|]; [|discriminate]. destruct (t_hfs y) as [b|]; [|discriminate].
    apply (IH _ _ H). cbn [forallb]. rewrite Dt.
    change (decodable (merged x (2 * t_repl x) (Node a b))) with (decodable x). rewrite Dx. reflexivity.
  - destruct (merge_loop f t) as [r| |s] eqn:Hr; cbn [bind] in H; try discriminate.
    inversion H; subst. cbn [forallb]. rewrite Dx, Dy, (IH _ _ Hr Dt). reflexivity.
Qed.

Lemma pruned_decodable : forall ks l, forallb decodable l = true -> forallb decodable (map (prune1 ks) l) = true.
Proof.
  intros ks l. induction l as [|x t IH]; intro H; [reflexivity|].
  cbn [forallb] in H. apply andb_true_iff in H as [Dx Dt].
  cbn [map forallb]. rewrite (IH Dt). unfold prune1. destruct (touches ks x); [rewrite Dx|]; reflexivity.
Qed.

Lemma lite_decodable : forall b ks l, all_decodable (b_txs b) -> lite b ks = Ok l -> all_decodable (b_txs l).
Proof.
  intros b ks l Hd H. destruct (lite_inv _ _ _ H) as (txs & mr & Hm & _ & Ht & _).
  unfold all_decodable. rewrite Ht. eapply merge_loop_decodable; [exact Hm|].
  apply pruned_decodable. exact Hd.
Qed.

(* the block hash (and the whole header) survives the wire trip *)
Lemma wire_hash : forall b ks l,
  generated b -> root_consistent b -> all_decodable (b_txs b) ->
  (h_merkle_root (b_hdr b) = hzero -> b_txs b = []) ->
  lite b ks = Ok l ->
  exists c, receive l = Ok c /\ b_hash c = b_hash b /\ b_hdr c = b_hdr b.
Proof.
  intros b ks l [Hh _] Hc Hdec Hz H.
  destruct (header_same _ _ _ Hc H) as [Hd Hhl].
  destruct (lite_inv _ _ _ H) as (txs & mr & Hm & _ & Ht & _).
  rewrite (receive_ok _ (lite_decodable _ _ _ Hdec H)).
  unfold generate, wire. cbn [b_hdr b_txs b_hash].
  destruct (hv_eqb (h_merkle_root (b_hdr l)) hzero) eqn:E.
  - apply hv_eqb_eq in E. rewrite Hd in E. specialize (Hz E).
    rewrite Hz in Hm. cbn [map length merge_loop] in Hm. inversion Hm as [Hm'].
    rewrite Ht, <- Hm'. cbn [map]. unfold generate_merkle_root. cbn [b_txs bind orb].
    eexists. split; [reflexivity|]. cbn [b_hash b_hdr].
    rewrite Hd. rewrite <- E at 1 2. rewrite set_merkle_root_same. split; [symmetry; exact Hh|reflexivity].
  - cbn [bind]. eexists. split; [reflexivity|]. cbn [b_hash b_hdr].
    rewrite set_merkle_root_same, Hd. split; [symmetry; exact Hh|reflexivity].
Qed.

Lemma all_touched_id : forall ks l, some_omitted ks l = false -> map (prune1 ks) l = l.
Proof.
  intros ks l. induction l as [|x t IH]; intro H; [reflexivity|].
  unfold some_omitted in H. cbn [existsb] in H. apply orb_false_iff in H as [Hx Ht].
  apply negb_false_iff in Hx. cbn [map]. rewrite prune1_kept by exact Hx. f_equal. apply IH. exact Ht.
Qed.

Lemma some_omitted_aligned : forall ks l, some_omitted ks l = false -> aligned_omitted ks l = false.
Proof.
  intros ks l. induction l as [| x | x y t IH] using list_ind2; intro H; try reflexivity.
  unfold some_omitted in *. cbn [existsb] in H.
  apply orb_false_iff in H as [Hx H]. apply orb_false_iff in H as [Hy H].
  cbn [aligned_omitted]. rewrite Hx, (IH H). reflexivity.
Qed.

(* nothing omitted: the client holds exactly the full block's transactions *)
Lemma nothing_omitted_roundtrip : forall b ks l,
  no_spv (b_txs b) -> generated b -> some_omitted ks (b_txs b) = false ->
  lite b ks = Ok l ->
  b_txs l = b_txs b /\ forall c, receive l = Ok c -> b_txs c = b_txs b.
Proof.
  intros b ks l Hs [_ Hg] Ho H.
  pose proof (lite_txs_unmerged _ _ _ Hs (some_omitted_aligned _ _ Ho) H) as Ht.
  rewrite all_touched_id in Ht by exact Ho. split; [exact Ht|].
  intros c Hc. apply receive_inv in Hc. unfold generate, wire in Hc. cbn [b_hdr b_txs b_hash] in Hc.
  rewrite Ht, map_rehash_clear_generated in Hc by exact Hg.
  destruct (if hv_eqb _ _ then _ else _) as [mr| |s]; cbn [bind] in Hc; try discriminate.
  inversion Hc; reflexivity.
Qed.

Lemma root_preserved_wire : forall b ks l c,
  no_spv (b_txs b) -> generated b -> some_omitted ks (b_txs b) = false ->
  lite b ks = Ok l -> receive l = Ok c ->
  generate_merkle_root c false false = generate_merkle_root b false false.
Proof.
  intros b ks l c Hs Hg Ho H Hc.
  destruct (nothing_omitted_roundtrip _ _ _ Hs Hg Ho H) as [_ Hr]. specialize (Hr c Hc).
  unfold generate_merkle_root. rewrite Hr. reflexivity.
Qed.

(* ------------------------------------------------------------------ the classes are exact: the commitment fails on them *)

Fixpoint fringe (h : hv) : list N :=
  match h with Leaf i => [i] | Node l r => fringe l ++ fringe r end.
Definition ofringe (o : option hv) : list N := match o with Some h => fringe h | None => [] end.
Definition lfringe (l : list (option hv)) : list N := flat_map ofringe l.
(* the sequence of opaque leaf values under the root recomputed from a transaction list *)
Definition txfringe (l : list tx) : list N := lfringe (leaves l).

Lemma fringe_pos : forall h, (1 <= length (fringe h))%nat.
Proof. induction h; cbn [fringe length]; [lia|rewrite app_length; lia]. Qed.

Lemma lfringe_app : forall a b, lfringe (a ++ b) = lfringe a ++ lfringe b.
Proof. intros. unfold lfringe. apply flat_map_app. Qed.

Lemma txfringe_cons : forall x t, txfringe (x :: t) = lfringe (leaves_of x) ++ txfringe t.
Proof. intros. unfold txfringe, leaves. cbn [flat_map]. apply lfringe_app. Qed.

Lemma pair_level_fringe : forall l l', pair_level l = Ok l' -> lfringe l' = lfringe l.
Proof.
  induction l as [| x | x y t IH] using list_ind2; intros l' H; cbn [pair_level] in H.
  - inversion H; reflexivity.
  - destruct x; inversion H; reflexivity.
  - destruct x as [a|]; [|discriminate]. destruct y as [b|]; [|discriminate].
    destruct (pair_level t) as [r| |s]; cbn [bind] in H; try discriminate.
    inversion H; subst. unfold lfringe in *. cbn [flat_map ofringe fringe].
    rewrite (IH r eq_refl). rewrite <- app_assoc. reflexivity.
Qed.

Lemma reduce_fringe : forall fuel l r, reduce fuel l = Ok r -> ofringe r = lfringe l.
Proof.
  induction fuel as [|f IH]; intros l r H; destruct l as [|x [|y t]]; cbn [reduce] in H; try discriminate.
  - inversion H; subst. unfold lfringe. cbn [flat_map]. rewrite app_nil_r. reflexivity.
  - inversion H; subst. unfold lfringe. cbn [flat_map]. rewrite app_nil_r. reflexivity.
  - destruct (pair_level (x :: y :: t)) as [l'| |s] eqn:Hp; cbn [bind] in H; try discriminate.
    apply IH in H. rewrite H. apply pair_level_fringe. exact Hp.
Qed.

Lemma gmr_fringe : forall b h, generate_merkle_root b false false = Ok h -> b_txs b <> [] ->
  fringe h = txfringe (b_txs b).
Proof.
  intros b h H Hne. unfold generate_merkle_root in H.
  destruct (b_txs b) as [|x t] eqn:E; [congruence|]. unfold merkle_root_of in H.
  destruct (reduce _ _) as [r| |s] eqn:Hr; cbn [bind] in H; try discriminate.
  destruct r as [h'|]; [|discriminate]. inversion H; subst.
  apply reduce_fringe in Hr. exact Hr.
Qed.

(* equal roots over two non-empty transaction lists have equal leaf-value sequences *)
Lemma equal_roots_equal_fringes : forall a b,
  generate_merkle_root a false false = generate_merkle_root b false false ->
  (exists h, generate_merkle_root b false false = Ok h) ->
  b_txs a <> [] -> b_txs b <> [] -> txfringe (b_txs a) = txfringe (b_txs b).
Proof.
  intros a b He [h Hb] Ha Hbn. rewrite Hb in He.
  rewrite <- (gmr_fringe _ _ He Ha), <- (gmr_fringe _ _ Hb Hbn). reflexivity.
Qed.

Lemma lfringe_repeat_len : forall h n,
  length (lfringe (repeat (Some h) n)) = (n * length (fringe h))%nat.
Proof.
  intros h n. induction n as [|n IH]; [reflexivity|].
  cbn [repeat]. unfold lfringe in *. cbn [flat_map ofringe]. rewrite app_length, IH. lia.
Qed.

(* leaves of a single-leaf entry *)
Lemma leaves_of_single : forall t h, t_hfs t = Some h -> (1 <? t_repl t) = false ->
  lfringe (leaves_of t) = fringe h.
Proof.
  intros t h Hh Hr. unfold leaves_of. rewrite Hr, Hh. unfold lfringe. cbn [flat_map ofringe].
  apply app_nil_r.
Qed.

Definition flen (l : list tx) : nat := length (txfringe l).

Lemma flen_cons : forall x t, flen (x :: t) = (length (lfringe (leaves_of x)) + flen t)%nat.
Proof. intros. unfold flen. rewrite txfringe_cons, app_length. reflexivity. Qed.

(* a merge strictly lengthens the leaf-value sequence: [h1; h2] becomes [h1 h2 h1 h2] *)
Lemma merge_loop_flen : forall fuel l l', merge_loop fuel l = Ok l' ->
  match l with [] => True | x :: t => head_ok x /\ Forall tail_ok t end ->
  (flen l <= flen l')%nat /\ (no_merge l = false -> (flen l < flen l')%nat).
Proof.
  induction fuel as [|f IH]; intros l l' H Hinv; destruct l as [|x [|y t]]; cbn [merge_loop] in H;
    try discriminate; try (inversion H; subst; split; [lia|cbn [no_merge]; discriminate]).
  destruct Hinv as [[Hxh Hx] Ht]. inversion Ht as [|? ? [Hyh Hy] Ht']; subst.
  destruct (mergeable x y) eqn:Hm.
  - unfold mergeable in Hm. apply andb_true_iff in Hm as [Hm Hr]. apply andb_true_iff in Hm as [Sx Sy].
    apply N.eqb_eq in Hr.
    assert (Ry : t_repl y = 1) by (destruct Hy as [Hy|Hy]; [congruence|exact Hy]).
    assert (Rx : t_repl x = 1) by congruence.
    rewrite Rx in H. change (2 ^ 32 <=? 2 * 1) with false in H. cbv iota in H.
    destruct (t_hfs x) as [a|] eqn:Ea; [|congruence]. destruct (t_hfs y) as [b|] eqn:Eb; [|congruence].
    apply IH in H.
    + destruct H as [Hle _].
      assert (Hnew : flen (merged x (2 * 1) (Node a b) :: t)
                     = (2 * (length (fringe a) + length (fringe b)) + flen t)%nat).
      { rewrite flen_cons. f_equal. unfold leaves_of. cbn [merged t_repl t_hfs].
        change (1 <? 2 * 1) with true. cbv iota. change (N.to_nat (2 * 1)) with 2%nat.
        rewrite lfringe_repeat_len. cbn [fringe]. rewrite app_length. lia. }
      assert (Hold : flen (x :: y :: t) = (length (fringe a) + length (fringe b) + flen t)%nat).
      { rewrite !flen_cons.
        rewrite (leaves_of_single x a Ea) by (rewrite Rx; reflexivity).
        rewrite (leaves_of_single y b Eb) by (rewrite Ry; reflexivity). lia. }
      pose proof (fringe_pos a). split; intros; lia.
    + split; [|exact Ht']. split; [discriminate|]. right; right. reflexivity.
  - destruct (merge_loop f t) as [r| |s] eqn:Hr; cbn [bind] in H; try discriminate.
    inversion H; subst. apply IH in Hr.
    + destruct Hr as [Hle Hlt]. rewrite !(flen_cons x), !(flen_cons y).
      split; [lia|]. cbn [no_merge]. rewrite Hm. cbn [negb andb]. intro Hn. specialize (Hlt Hn). lia.
    + destruct t as [|z t']; [exact I|]. inversion Ht' as [|? ? Hz Ht'']; subst.
      split; [apply tail_head_ok; exact Hz|exact Ht''].
Qed.

Lemma pruned_inv : forall ks l, no_spv l -> all_hashed l ->
  match map (prune1 ks) l with [] => True | x :: t => head_ok x /\ Forall tail_ok t end.
Proof.
  intros ks l Hs Hh. pose proof (pruned_tail_ok ks _ Hs Hh) as P.
  destruct (map (prune1 ks) l) as [|x t]; [exact I|].
  inversion P; subst. split; [apply tail_head_ok; assumption|assumption].
Qed.

Lemma aligned_nonempty : forall ks l, aligned_omitted ks l = true -> l <> [].
Proof. intros ks [|x t] H; [discriminate|discriminate]. Qed.

(* class 1 is exact: whenever a sibling pair is omitted as a whole (and no omitted transaction
   counts for several leaves), the root recomputed from the lite block differs *)
Lemma root_fails_on_merge : forall b ks l,
  no_spv (b_txs b) -> all_hashed (b_txs b) ->
  aligned_omitted ks (b_txs b) = true -> omitted_multi ks (b_txs b) = false ->
  lite b ks = Ok l ->
  generate_merkle_root l false false <> generate_merkle_root b false false.
Proof.
  intros b ks l Hs Hh Ha Hm H E.
  destruct (lite_inv _ _ _ H) as (txs & mr & Hml & _ & Ht & _).
  destruct (merge_loop_flen _ _ _ Hml (pruned_inv ks _ Hs Hh)) as [_ Hlt].
  rewrite no_merge_pruned, Ha in Hlt by exact Hs. specialize (Hlt eq_refl).
  assert (Hp : flen (map (prune1 ks) (b_txs b)) = flen (b_txs b))
    by (unfold flen, txfringe; rewrite (leaves_pruned ks _ Hm); reflexivity).
  rewrite Hp in Hlt.
  assert (Hbn : b_txs b <> []) by (eapply aligned_nonempty; exact Ha).
  assert (Hln : b_txs l <> []).
  { intro Z. rewrite <- Ht, Z in Hlt. change (flen []) with 0%nat in Hlt. lia. }
  pose proof (equal_roots_equal_fringes l b E (generate_merkle_root_total b false false Hh) Hln Hbn) as F.
  rewrite Ht in F. unfold flen in Hlt. rewrite F in Hlt. lia.
Qed.

Lemma flen_pruned_multi : forall ks l, all_hashed l ->
  (flen (map (prune1 ks) l) <= flen l)%nat /\
  (omitted_multi ks l = true -> (flen (map (prune1 ks) l) < flen l)%nat).
Proof.
  intros ks l. induction l as [|x t IH]; intro Hh.
  - cbn [map]. split; [lia|discriminate].
  - inversion Hh as [|? ? Hx Ht]; subst. destruct (IH Ht) as [Hle Hlt].
    cbn [map]. rewrite !flen_cons. unfold omitted_multi in *. cbn [existsb].
    destruct (touches ks x) eqn:Tx; cbn [negb andb orb];
      [rewrite (prune1_kept _ _ Tx)|rewrite (prune1_omitted _ _ Tx)].
    + split; [lia|]. intro Hm. specialize (Hlt Hm). lia.
    + destruct (t_hfs x) as [h|] eqn:Eh; [|congruence].
      rewrite leaves_of_placeholder, Eh. unfold lfringe at 1 3. cbn [flat_map ofringe]. rewrite app_nil_r.
      destruct (1 <? t_repl x) eqn:Er.
      * assert (L : (2 * length (fringe h) <= length (lfringe (leaves_of x)))%nat).
        { unfold leaves_of. rewrite Er, Eh. rewrite lfringe_repeat_len.
          assert (2 <= N.to_nat (t_repl x))%nat by lia. nia. }
        pose proof (fringe_pos h). split; intros; lia.
      * rewrite (leaves_of_single x h Eh Er). cbn [orb]. split; [lia|]. intro Hm. specialize (Hlt Hm). lia.
Qed.

Lemma omitted_multi_nonempty : forall ks l, omitted_multi ks l = true -> l <> [].
Proof. intros ks [|x t] H; [discriminate|discriminate]. Qed.

(* class 2 is exact (when nothing is merged) *)
Lemma root_fails_on_replacements : forall b ks l,
  no_spv (b_txs b) -> all_hashed (b_txs b) ->
  aligned_omitted ks (b_txs b) = false -> omitted_multi ks (b_txs b) = true ->
  lite b ks = Ok l ->
  generate_merkle_root l false false <> generate_merkle_root b false false.
Proof.
  intros b ks l Hs Hh Ha Hm H E.
  pose proof (lite_txs_unmerged _ _ _ Hs Ha H) as Ht.
  destruct (flen_pruned_multi ks _ Hh) as [_ Hlt]. specialize (Hlt Hm).
  assert (Hbn : b_txs b <> []) by (eapply omitted_multi_nonempty; exact Hm).
  assert (Hln : b_txs l <> []).
  { rewrite Ht. destruct (b_txs b); [congruence|discriminate]. }
  pose proof (equal_roots_equal_fringes l b E (generate_merkle_root_total b false false Hh) Hln Hbn) as F.
  unfold flen in Hlt. rewrite <- Ht, F in Hlt. lia.
Qed.

(* --- after the wire trip --- *)

Lemma receive_txs : forall l c, receive l = Ok c -> b_txs c = map rehash (map clear_hfs (b_txs l)).
Proof.
  intros l c H. apply receive_inv in H. unfold generate, wire in H. cbn [b_hdr b_txs b_hash] in H.
  destruct (if hv_eqb _ _ then _ else _) as [mr| |s]; cbn [bind] in H; try discriminate.
  inversion H; reflexivity.
Qed.

(* placeholders keep the signature prefix of a transaction of the pruned list, and do not disappear *)
Lemma merge_loop_spv_sig : forall fuel l l', merge_loop fuel l = Ok l' ->
  forall e, In e l' -> is_spv e = true ->
  exists x, In x l /\ is_spv x = true /\ t_sig32 e = t_sig32 x.
Proof.
  induction fuel as [|f IH]; intros l l' H e He Se; destruct l as [|x [|y t]]; cbn [merge_loop] in H;
    try discriminate; try solve [inversion H; subst; exists e; auto].
  destruct (mergeable x y) eqn:Hm.
  - destruct (2 ^ 32 <=? 2 * t_repl x); [discriminate|].
    destruct (t_hfs x) as [a|]; [|discriminate]. destruct (t_hfs y) as [b|]; [|discriminate].
    destruct (IH _ _ H e He Se) as (z & Hz & Sz & Ez).
    destruct Hz as [Hz|Hz].
    + subst z. exists x. split; [left; reflexivity|]. split; [exact Sz|exact Ez].
    + exists z. split; [right; right; exact Hz|]. split; assumption.
  - destruct (merge_loop f t) as [r| |s] eqn:Hr; cbn [bind] in H; try discriminate.
    inversion H; subst. destruct He as [He|[He|He]].
    + subst. exists e. split; [left; reflexivity|auto].
    + subst. exists e. split; [right; left; reflexivity|auto].
    + destruct (IH _ _ Hr e He Se) as (z & Hz & Sz & Ez). exists z. split; [right; right; exact Hz|auto].
Qed.

Lemma merge_loop_spv_stays : forall fuel l l', merge_loop fuel l = Ok l' ->
  (exists x, In x l /\ is_spv x = true) -> exists e, In e l' /\ is_spv e = true.
Proof.
  induction fuel as [|f IH]; intros l l' H Hex; destruct l as [|x [|y t]]; cbn [merge_loop] in H;
    try discriminate; try (inversion H; subst; exact Hex).
  destruct (mergeable x y) eqn:Hm.
  - destruct (2 ^ 32 <=? 2 * t_repl x); [discriminate|].
    destruct (t_hfs x) as [a|]; [|discriminate]. destruct (t_hfs y) as [b|]; [|discriminate].
    apply (IH _ _ H). unfold mergeable in Hm. apply andb_true_iff in Hm as [Hm _].
    apply andb_true_iff in Hm as [Sx _].
    exists (merged x (2 * t_repl x) (Node a b)). split; [left; reflexivity|exact Sx].
  - destruct (merge_loop f t) as [r| |s] eqn:Hr; cbn [bind] in H; try discriminate.
    inversion H; subst. destruct Hex as (z & [Hz|[Hz|Hz]] & Sz).
    + subst. exists z. split; [left; reflexivity|exact Sz].
    + subst. exists z. split; [right; left; reflexivity|exact Sz].
    + destruct (IH _ _ Hr) as (e & He & Se); [exists z; auto|].
      exists e. split; [right; right; exact He|exact Se].
Qed.

Lemma in_fringe_rehashed : forall e l, In e l ->
  In (if is_spv e then t_sig32 e else t_chash e) (txfringe (map rehash (map clear_hfs l))).
Proof.
  intros e l. induction l as [|x t IH]; intro H; [contradiction|].
  cbn [map]. rewrite txfringe_cons. apply in_or_app. destruct H as [H|H].
  - subst x. left. unfold leaves_of. cbn [rehash clear_hfs t_repl t_hfs t_ty is_spv].
    fold (is_spv e).
    destruct (1 <? t_repl e) eqn:Er.
    + destruct (N.to_nat (t_repl e)) as [|n] eqn:En; [lia|].
      cbn [repeat]. unfold lfringe. cbn [flat_map ofringe fringe]. left. reflexivity.
    + unfold lfringe. cbn [flat_map ofringe fringe]. left. reflexivity.
  - right. apply IH. exact H.
Qed.

Lemma fringe_full_chash : forall l, no_spv l -> Forall tx_generated l ->
  forall i, In i (txfringe l) -> exists u, In u l /\ i = t_chash u.
Proof.
  induction l as [|x t IH]; intros Hs Hg i Hi; [contradiction|].
  inversion Hs as [|? ? Sx St]; inversion Hg as [|? ? Gx Gt]; subst.
  rewrite txfringe_cons in Hi. apply in_app_or in Hi as [Hi|Hi].
  - exists x. split; [left; reflexivity|].
    unfold tx_generated, rehash in Gx. rewrite Sx in Gx.
    assert (Eh : t_hfs x = Some (Leaf (t_chash x))) by (rewrite <- Gx at 1; reflexivity).
    unfold leaves_of in Hi. rewrite Eh in Hi. destruct (1 <? t_repl x).
    + unfold lfringe in Hi. apply in_flat_map in Hi as (o & Ho & Hio).
      apply repeat_spec in Ho. subst o. cbn [ofringe fringe] in Hio. destruct Hio as [Hio|[]]. congruence.
    + unfold lfringe in Hi. cbn [flat_map ofringe fringe app] in Hi. destruct Hi as [Hi|[]]. congruence.
  - destruct (IH St Gt i Hi) as (u & Hu & Eu). exists u. split; [right; exact Hu|exact Eu].
Qed.

Lemma some_omitted_in : forall ks l, some_omitted ks l = true ->
  exists t, In t l /\ touches ks t = false.
Proof.
  intros ks l H. unfold some_omitted in H. apply existsb_exists in H as (t & Ht & Hn).
  exists t. split; [exact Ht|]. apply negb_true_iff in Hn. exact Hn.
Qed.

(* class 3 is exact: whenever anything is omitted, the root recomputed by the client differs —
   provided no signature prefix happens to equal a transaction hash of the block *)
Lemma root_fails_on_wire : forall b ks l c,
  no_spv (b_txs b) -> generated b ->
  (forall t u, In t (b_txs b) -> In u (b_txs b) -> t_sig32 t <> t_chash u) ->
  some_omitted ks (b_txs b) = true ->
  lite b ks = Ok l -> receive l = Ok c ->
  generate_merkle_root c false false <> generate_merkle_root b false false.
Proof.
  intros b ks l c Hs Hg Hfresh Ho H Hc E.
  pose proof (generated_all_hashed _ Hg) as Hh. destruct Hg as [_ Hg].
  destruct (lite_inv _ _ _ H) as (txs & mr & Hml & _ & Ht & _).
  destruct (some_omitted_in _ _ Ho) as (t0 & Ht0 & Tt0).
  (* a placeholder survives in the lite block, with the signature prefix of an omitted transaction *)
  destruct (merge_loop_spv_stays _ _ _ Hml) as (e & He & Se).
  { exists (placeholder t0). split; [|reflexivity].
    apply in_map_iff. exists t0. split; [apply prune1_omitted; exact Tt0|exact Ht0]. }
  destruct (merge_loop_spv_sig _ _ _ Hml e He Se) as (x & Hx & Sx & Ex).
  apply in_map_iff in Hx as (t1 & Et1 & Ht1).
  assert (Es : t_sig32 x = t_sig32 t1).
  { subst x. unfold prune1. destruct (touches ks t1); reflexivity. }
  (* its leaf value is under the client's root *)
  pose proof (receive_txs _ _ Hc) as Hct.
  assert (Hin : In (t_sig32 t1) (txfringe (b_txs c))).
  { rewrite Hct, Ht. pose proof (in_fringe_rehashed e txs He) as P. rewrite Se in P. congruence. }
  assert (Hbn : b_txs b <> []) by (destruct (b_txs b); [contradiction|discriminate]).
  assert (Hcn : b_txs c <> []).
  { intro Z. rewrite Z in Hin. contradiction. }
  rewrite (equal_roots_equal_fringes c b E (generate_merkle_root_total b false false Hh) Hcn Hbn) in Hin.
  destruct (fringe_full_chash _ Hs Hg _ Hin) as (u & Hu & Eu).
  exact (Hfresh t1 u Ht1 Hu Eu).
Qed.

(* ------------------------------------------------------------------ transaction ordinals survive *)

(* the non-placeholder transactions of a list, each with the tx_index Block::generate gives it *)
Fixpoint kept_idx (i : N) (l : list tx) : list (N * tx) :=
  match l with
  | [] => []
  | t :: r => (if is_spv t then [] else [(i, t)]) ++ kept_idx (i + weight t) r
  end.

(* merging placeholders adds their replacement counts: indices of everything else are unchanged *)
Lemma merge_loop_kept_idx : forall fuel l l', merge_loop fuel l = Ok l' ->
  forall i, kept_idx i l' = kept_idx i l.
Proof.
  induction fuel as [|f IH]; intros l l' H i; destruct l as [|x [|y t]]; cbn [merge_loop] in H;
    try discriminate; try (inversion H; reflexivity).
  destruct (mergeable x y) eqn:Hm.
  - destruct (2 ^ 32 <=? 2 * t_repl x); [discriminate|].
    destruct (t_hfs x) as [a|]; [|discriminate]. destruct (t_hfs y) as [b|]; [|discriminate].
    rewrite (IH _ _ H i).
    unfold mergeable in Hm. apply andb_true_iff in Hm as [Hm Hr]. apply andb_true_iff in Hm as [Sx Sy].
    apply N.eqb_eq in Hr.
    cbn [kept_idx]. rewrite merged_is_spv, Sx, Sy. cbn [app].
    unfold weight. rewrite merged_is_spv, Sx, Sy. cbn [merged t_repl].
    f_equal. lia.
  - destruct (merge_loop f t) as [r| |s] eqn:Hr; cbn [bind] in H; try discriminate.
    inversion H; subst. cbn [kept_idx]. rewrite (IH _ _ Hr). reflexivity.
Qed.

Lemma kept_idx_pruned : forall ks l i, no_spv l ->
  kept_idx i (map (prune1 ks) l) = filter (fun p => touches ks (snd p)) (kept_idx i l).
Proof.
  intros ks l. induction l as [|x t IH]; intros i Hs; [reflexivity|].
  inversion Hs as [|? ? Sx St]; subst. cbn [map kept_idx]. rewrite Sx.
  assert (W : weight x = 1) by (unfold weight; rewrite Sx; reflexivity).
  destruct (touches ks x) eqn:Tx.
  - rewrite (prune1_kept _ _ Tx). rewrite Sx, W. cbn [app filter snd]. rewrite Tx. f_equal. apply IH. exact St.
  - rewrite (prune1_omitted _ _ Tx).
    change (is_spv (placeholder x)) with true. change (weight (placeholder x)) with 1. cbv iota.
    cbn [app filter snd]. rewrite Tx. rewrite W. apply IH. exact St.
Qed.

(* in a full block every transaction sits at its position *)
Lemma kept_idx_full : forall l i, no_spv l -> map fst (kept_idx i l) = tx_indices i l /\ map snd (kept_idx i l) = l.
Proof.
  induction l as [|x t IH]; intros i Hs; [split; reflexivity|].
  inversion Hs as [|? ? Sx St]; subst. cbn [kept_idx tx_indices]. rewrite Sx. cbn [app map fst snd].
  destruct (IH (i + weight x) St) as [A B]. rewrite A, B. split; reflexivity.
Qed.

(* the wire trip and Block::generate do not change types and replacement counts *)
Lemma kept_idx_rehash_clear : forall l i,
  map fst (kept_idx i (map rehash (map clear_hfs l))) = map fst (kept_idx i l).
Proof.
  induction l as [|x t IH]; intro i; [reflexivity|].
  cbn [map kept_idx]. rewrite !map_app.
  change (is_spv (rehash (clear_hfs x))) with (is_spv x).
  change (weight (rehash (clear_hfs x))) with (weight x).
  rewrite IH. destruct (is_spv x); reflexivity.
Qed.

(* every kept transaction has, in the lite block and in the block the client generates, the
   tx_index it has in the full block (so Block::generate writes the same tx_ordinal into its output
   slips, and the light wallet derives the right UTXO keys) *)
Lemma ordinals_preserved : forall b ks l, no_spv (b_txs b) -> lite b ks = Ok l ->
  kept_idx 0 (b_txs l) = filter (fun p => touches ks (snd p)) (kept_idx 0 (b_txs b)).
Proof.
  intros b ks l Hs H. destruct (lite_inv _ _ _ H) as (txs & mr & Hm & _ & Ht & _).
  rewrite Ht, (merge_loop_kept_idx _ _ _ Hm). apply kept_idx_pruned. exact Hs.
Qed.

Lemma ordinals_preserved_wire : forall b ks l c, no_spv (b_txs b) -> lite b ks = Ok l -> receive l = Ok c ->
  map fst (kept_idx 0 (b_txs c)) = map fst (filter (fun p => touches ks (snd p)) (kept_idx 0 (b_txs b))).
Proof.
  intros b ks l c Hs H Hc. rewrite (receive_txs _ _ Hc), kept_idx_rehash_clear.
  rewrite (ordinals_preserved _ _ _ Hs H). reflexivity.
Qed.

(* ------------------------------------------------------------------ the lite-block route *)

Lemma route_keylist_has_key : forall peers key, In key (route_keylist peers key).
Proof.
  intros. unfold route_keylist. destruct (aget key peers); [apply in_or_app; right|]; left; reflexivity.
Qed.

(* whatever the route serves is the lite block of the stored block for a key list that contains
   the requester's key (and, for a connected peer, the keys it registered) *)
Lemma route_served : forall own k peers disk w,
  route own k peers (Some disk) = RServed (Ok w) ->
  exists key b l,
    route_key own k = Some key /\ receive disk = Ok b /\
    lite b (route_keylist peers key) = Ok l /\ w = wire l /\
    In key (route_keylist peers key) /\
    (forall kl, aget key peers = Some kl -> forall x, In x kl -> In x (route_keylist peers key)).
Proof.
  intros own k peers disk w H. unfold route in H.
  destruct (route_key own k) as [key|] eqn:Ek; [|discriminate].
  destruct (receive disk) as [b| |s] eqn:Er; try discriminate.
  destruct (lite b (route_keylist peers key)) as [l| |s] eqn:El; cbn [bind] in H; try discriminate.
  inversion H; subst. exists key, b, l.
  split; [reflexivity|]. split; [reflexivity|]. split; [exact El|]. split; [reflexivity|]. split.
  - apply route_keylist_has_key.
  - intros kl Hk x Hx. unfold route_keylist. rewrite Hk. apply in_or_app. left. exact Hx.
Qed.

(* ------------------------------------------------------------------ the known classes *)

(* the in-memory lite block: a sibling pair omitted as a whole (the loop merges it, and the merged
   placeholder is later expanded into two identical leaves), or an omitted transaction that itself
   counts for more than one leaf *)
Definition Known_C18_mem (b : block) (ks : list N) : Prop :=
  aligned_omitted ks (b_txs b) = true \/ omitted_multi ks (b_txs b) = true.
(* the lite block as received: anything omitted at all *)
Definition Known_C18_wire (b : block) (ks : list N) : Prop := some_omitted ks (b_txs b) = true.
(* the full block's own merkle_root field is stale (accepted by the pinned tree: DESIGN 9 row 5) *)
Definition Known_C18_stale (b : block) : Prop := stale_root b = true.

Lemma not_stale_consistent : forall b, ~ Known_C18_stale b -> root_consistent b.
Proof.
  intros b H. unfold Known_C18_stale, stale_root, root_consistent in *.
  destruct (generate_merkle_root b true true) as [h| |s]; cbn [res_eqb negb] in H.
  - destruct (hv_eqb h (h_merkle_root (b_hdr b))) eqn:E.
    + apply hv_eqb_eq in E. subst. reflexivity.
    + exfalso. apply H. reflexivity.
  - exfalso. apply H. reflexivity.
  - exfalso. apply H. reflexivity.
Qed.

Lemma Known_C18_mem_dec : forall b ks, {Known_C18_mem b ks} + {~ Known_C18_mem b ks}.
Proof.
  intros b ks. unfold Known_C18_mem.
  destruct (aligned_omitted ks (b_txs b)); [left; left; reflexivity|].
  destruct (omitted_multi ks (b_txs b)); [left; right; reflexivity|].
  right. intros [H|H]; discriminate.
Qed.

Lemma Known_C18_wire_dec : forall b ks, {Known_C18_wire b ks} + {~ Known_C18_wire b ks}.
Proof. intros b ks. unfold Known_C18_wire. destruct (some_omitted ks (b_txs b)); [left|right]; congruence. Qed.

Lemma Known_C18_stale_dec : forall b, {Known_C18_stale b} + {~ Known_C18_stale b}.
Proof. intros b. unfold Known_C18_stale. destruct (stale_root b); [left|right]; congruence. Qed.

Lemma root_mem_guarded : forall b ks l, no_spv (b_txs b) -> ~ Known_C18_mem b ks ->
  lite b ks = Ok l ->
  generate_merkle_root l false false = generate_merkle_root b false false.
Proof.
  intros b ks l Hs Hk H. apply (root_preserved b ks l Hs); [| |exact H].
  - destruct (aligned_omitted ks (b_txs b)) eqn:E; [|reflexivity]. exfalso. apply Hk. left. exact E.
  - destruct (omitted_multi ks (b_txs b)) eqn:E; [|reflexivity]. exfalso. apply Hk. right. exact E.
Qed.

Lemma root_wire_guarded : forall b ks l c, no_spv (b_txs b) -> generated b -> ~ Known_C18_wire b ks ->
  lite b ks = Ok l -> receive l = Ok c ->
  generate_merkle_root c false false = generate_merkle_root b false false.
Proof.
  intros b ks l c Hs Hg Hk H Hc. apply (root_preserved_wire b ks l c Hs Hg); [|exact H|exact Hc].
  destruct (some_omitted ks (b_txs b)) eqn:E; [|reflexivity]. exfalso. apply Hk. exact E.
Qed.

Lemma header_guarded : forall b ks l, ~ Known_C18_stale b -> lite b ks = Ok l ->
  b_hdr l = b_hdr b /\ b_hash l = b_hash b.
Proof. intros b ks l Hk. apply header_same. apply not_stale_consistent. exact Hk. Qed.

Lemma wire_hash_guarded : forall b ks l,
  generated b -> ~ Known_C18_stale b -> all_decodable (b_txs b) ->
  (h_merkle_root (b_hdr b) = hzero -> b_txs b = []) ->
  lite b ks = Ok l ->
  exists c, receive l = Ok c /\ b_hash c = b_hash b /\ b_hdr c = b_hdr b.
Proof. intros b ks l Hg Hk. apply wire_hash; [exact Hg|apply not_stale_consistent; exact Hk]. Qed.

(* ------------------------------------------------------------------ witnesses *)

Definition hdr0 (mr : hv) : header :=
  mkHeader 2 1000 1 2 mr 3 0 0 0 0 0 0 0 0 0 0 0 0 0 0 0 0 0 0 0 0 0 0 0 0 0.
(* a transfer from key [f] to key [t] with content hash [c] and signature prefix [s] *)
Definition wtx (c s f t r : N) : tx := mkTx TY_NORMAL r (100 + s) s 1000 [f] [t] (200 + c) 4 c (Some (Leaf c)).
Definition wblock (mr : hv) (txs : list tx) : block :=
  mkBlock (hdr0 mr) (block_hash_of (hdr0 mr)) txs.

(* two transfers, the key list touches neither: the pair is merged *)
Definition w_merge : block := wblock (Node (Leaf 11) (Leaf 12)) [wtx 11 21 31 41 1; wtx 12 22 32 42 1].
(* one transfer, omitted *)
Definition w_one : block := wblock (Leaf 11) [wtx 11 21 31 41 1].
(* two transfers, the second has txs_replacements = 2 and is omitted, the first is kept *)
Definition w_repl : block :=
  wblock (Node (Node (Leaf 11) (Leaf 12)) (Leaf 12)) [wtx 11 21 31 41 1; wtx 12 22 32 42 2].
(* the merkle_root field is the root of the transactions in the other order *)
Definition w_stale : block := wblock (Node (Leaf 12) (Leaf 11)) [wtx 11 21 31 41 1; wtx 12 22 32 42 1].

Lemma wblock_generated : forall mr txs, Forall tx_generated txs -> generated (wblock mr txs).
Proof. intros. split; [reflexivity|assumption]. Qed.

Ltac wit_gen := apply wblock_generated; repeat (constructor; try reflexivity).
Ltac wit_nospv := repeat (constructor; try reflexivity).

Lemma root_mem_refuted_merge :
  exists b ks l, no_spv (b_txs b) /\ generated b /\ root_consistent b /\ lite b ks = Ok l /\
    aligned_omitted ks (b_txs b) = true /\
    generate_merkle_root l false false <> generate_merkle_root b false false.
Proof.
  exists w_merge, []. eexists.
  split; [wit_nospv|]. split; [wit_gen|].
  split; [vm_compute; reflexivity|]. split; [vm_compute; reflexivity|].
  split; [vm_compute; reflexivity|]. vm_compute; discriminate.
Qed.

Lemma root_mem_refuted_repl :
  exists b ks l, no_spv (b_txs b) /\ generated b /\ root_consistent b /\ lite b ks = Ok l /\
    aligned_omitted ks (b_txs b) = false /\ omitted_multi ks (b_txs b) = true /\
    generate_merkle_root l false false <> generate_merkle_root b false false.
Proof.
  exists w_repl, [41]. eexists.
  split; [wit_nospv|]. split; [wit_gen|].
  split; [vm_compute; reflexivity|]. split; [vm_compute; reflexivity|].
  split; [vm_compute; reflexivity|]. split; [vm_compute; reflexivity|]. vm_compute; discriminate.
Qed.

Lemma root_wire_refuted :
  exists b ks l c, no_spv (b_txs b) /\ generated b /\ root_consistent b /\ lite b ks = Ok l /\
    receive l = Ok c /\ ~ Known_C18_mem b ks /\
    generate_merkle_root l false false = generate_merkle_root b false false /\
    generate_merkle_root c false false <> generate_merkle_root b false false.
Proof.
  exists w_one, []. do 2 eexists.
  split; [wit_nospv|]. split; [wit_gen|].
  split; [vm_compute; reflexivity|]. split; [vm_compute; reflexivity|].
  split; [vm_compute; reflexivity|].
  split; [intros [H|H]; vm_compute in H; discriminate|].
  split; [vm_compute; reflexivity|]. vm_compute; discriminate.
Qed.

Lemma header_refuted :
  exists b ks l c, no_spv (b_txs b) /\ generated b /\ lite b ks = Ok l /\ receive l = Ok c /\
    b_hdr l <> b_hdr b /\ b_hash l = b_hash b /\ b_hash c <> b_hash b.
Proof.
  exists w_stale, [41; 42]. do 2 eexists.
  split; [wit_nospv|]. split; [wit_gen|].
  split; [vm_compute; reflexivity|]. split; [vm_compute; reflexivity|].
  split; [vm_compute; discriminate|]. split; [vm_compute; reflexivity|]. vm_compute; discriminate.
Qed.
