(* C20 — proofs about the lock-order checker of model/LockOrder.v.

   1. [check_sound_known]: if [check g nl known = true] then every path of the abstract path semantics
      [reach known g] acquires locks in strictly increasing rank order (or sits inside the universal
      wasm gate).  Induction over the derivation of [reach], i.e. over call depth; the callee summaries
      are used only through the *checked* fact that they are a post-fixpoint ([summaries_closed]), so
      nothing has to be proved about the fuelled fixpoint computation.
   2. [ordered_no_deadlock]: in the abstract lock semantics (fair FIFO queues), if every task only waits
      for a lock of rank strictly above everything it holds, [blocked_by] has no cycle.
   3. [no_deadlock_from_check]: 1 + 2 for snapshots built from reachable acquisition points. *)
From Saito Require Import Base LockOrder.
From Coq Require Import String FMapPositive Relation_Operators.

(* ---------- small facts about locks and lock sets ---------- *)
Lemma lock_eqb_eq : forall a b, lock_eqb a b = true -> a = b.
Proof.
  intros a b Hab; destruct a, b; simpl in Hab; try discriminate; try reflexivity.
  apply String.eqb_eq in Hab; now subst.
Qed.

Lemma lock_eqb_refl : forall a, lock_eqb a a = true.
Proof. intros a; destruct a; simpl; try reflexivity. apply String.eqb_refl. Qed.

Lemma mem_In : forall l s, mem l s = true -> In l s.
Proof.
  intros l s Hm; unfold mem in Hm; apply existsb_exists in Hm.
  destruct Hm as [y [Hy Heq]]; apply lock_eqb_eq in Heq; now subst.
Qed.

Lemma In_mem : forall l s, In l s -> mem l s = true.
Proof.
  intros l s Hin; unfold mem; apply existsb_exists; exists l; split; [assumption | apply lock_eqb_refl].
Qed.

Lemma subset_In : forall a b l, subset a b = true -> In l a -> In l b.
Proof.
  intros a b l Hs Hin; unfold subset in Hs; rewrite forallb_forall in Hs.
  apply mem_In; now apply Hs.
Qed.

Lemma in_known_nil : forall site, in_known [] site = false.
Proof. reflexivity. Qed.

(* ---------- the checker scans a body the way the semantics runs it ---------- *)
Definition run_held (h : list lock) (es : list event) : list lock := fold_left upd es h.

Lemma scan_app : forall s n pre h es,
  scan s n h (pre ++ es) = scan s n h pre ++ scan s n (run_held h pre) es.
Proof.
  intros s n pre; induction pre as [| e pre IH]; intros h es; simpl.
  - reflexivity.
  - rewrite IH, app_assoc; reflexivity.
Qed.

Lemma clash_In : forall n site held l x,
  In x held -> bad x l = true -> In (mkV n x site l (mem LSaito held)) (clash n site held l).
Proof.
  intros n site held l x Hin Hbad; unfold clash.
  apply in_map_iff; exists x; split; [reflexivity |].
  apply filter_In; split; assumption.
Qed.

Section Sound.
  Variables (g : graph) (nl : list positive) (known : list string).
  Hypothesis Hcheck : check g nl known = true.

  Let s := summaries g.
  Let ag := all_gated_with s g.

  Lemma chk_closed : summaries_closed g s = true.
  Proof.
    unfold check in Hcheck; fold s in Hcheck.
    apply andb_prop in Hcheck; destruct Hcheck as [H1 _].
    apply andb_prop in H1; destruct H1 as [H1 _]; exact H1.
  Qed.

  Lemma chk_accepted : forall v, In v (violations_with s g) -> accepted known ag v = true.
  Proof.
    unfold check in Hcheck; fold s in Hcheck.
    apply andb_prop in Hcheck; destruct Hcheck as [_ H2].
    rewrite forallb_forall in H2; exact H2.
  Qed.

  (* every violation the checker computes at an event of a function of g is accepted *)
  Lemma event_accepted : forall f pre e es v,
    In f g -> f_body f = pre ++ e :: es ->
    In v (viol_ev s (f_name f) (run_held [] pre) e) -> accepted known ag v = true.
  Proof.
    intros f pre e es v Hf Hbody Hv; apply chk_accepted.
    unfold violations_with; apply in_flat_map; exists f; split; [assumption |].
    rewrite Hbody, scan_app; apply in_or_app; right; simpl.
    apply in_or_app; left; exact Hv.
  Qed.

  Lemma event_closed : forall f pre e es,
    In f g -> f_body f = pre ++ e :: es -> ev_closed s (f_id f) e = true.
  Proof.
    intros f pre e es Hf Hbody.
    pose proof chk_closed as Hc; unfold summaries_closed in Hc.
    rewrite forallb_forall in Hc; specialize (Hc f Hf).
    rewrite forallb_forall in Hc; apply Hc.
    rewrite Hbody; apply in_or_app; right; left; reflexivity.
  Qed.

  (* at an unlisted site, outside the gate, no held lock clashes with the acquired lock *)
  Lemma unlisted_ungated_no_clash : forall n site held l x,
    (forall v, In v (clash n site held l) -> accepted known ag v = true) ->
    in_known known site = false -> mem LSaito held = false ->
    In x held -> bad x l = false.
  Proof.
    intros n site held l x Hacc Hsite Hgate Hin.
    destruct (bad x l) eqn:Hbad; [| reflexivity].
    specialize (Hacc _ (clash_In n site held l x Hin Hbad)).
    unfold accepted in Hacc; simpl in Hacc; rewrite Hsite, Hgate in Hacc; discriminate.
  Qed.

  (* invariant of the path semantics *)
  Definition Inv (o h : list lock) (es : list event) : Prop :=
    exists f pre, In f g /\ f_body f = pre ++ es /\ h = run_held [] pre /\
      (In LSaito o \/ forall x, In x o -> forall l, In l (sget s (f_id f)) -> bad x l = false).

  Lemma find_fn_some : forall c f, find_fn g c = Some f -> In f g /\ f_id f = c.
  Proof.
    intros c f Hf; unfold find_fn in Hf; apply find_some in Hf.
    destruct Hf as [Hin Heq]; apply Pos.eqb_eq in Heq; now split.
  Qed.

  Lemma reach_inv : forall o h es, reach known g o h es -> Inv o h es.
  Proof.
    intros o h es Hr; induction Hr as [f Hf | o h e es Hr IH | o h site cs es c f Hr IH Hsite Hc Hfind].
    - exists f, []; repeat split; try assumption; try reflexivity.
      right; intros x [].
    - destruct IH as [f [pre [Hf [Hbody [Hh Hout]]]]].
      exists f, (pre ++ [e]); repeat split; try assumption.
      + rewrite <- app_assoc; exact Hbody.
      + unfold run_held; rewrite fold_left_app; simpl; unfold run_held in Hh; now rewrite <- Hh.
    - destruct IH as [f0 [pre [Hf0 [Hbody [Hh Hout]]]]].
      destruct (find_fn_some _ _ Hfind) as [Hf Hid].
      exists f, []; repeat split; try assumption; try reflexivity.
      destruct (mem LSaito h) eqn:Hgate.
      { left; apply in_or_app; left; now apply mem_In. }
      destruct Hout as [Hout | Hout].
      { left; apply in_or_app; now right. }
      right; intros x Hx l Hl; rewrite Hid in Hl.
      apply in_app_or in Hx; destruct Hx as [Hx | Hx].
      + (* x is held by the calling frame: the checker looked at this very call *)
        subst h.
        apply (unlisted_ungated_no_clash (f_name f0) site (run_held [] pre) l x); try assumption.
        intros v Hv; apply (event_accepted f0 pre (Call site cs) es v Hf0 Hbody).
        simpl; apply in_flat_map; exists c; split; [assumption |].
        apply in_flat_map; exists l; split; assumption.
      + (* x is held further out: callee summary is contained in the caller's *)
        pose proof (event_closed f0 pre (Call site cs) es Hf0 Hbody) as Hcl; simpl in Hcl.
        rewrite forallb_forall in Hcl; specialize (Hcl c Hc).
        apply (Hout x Hx l); eapply subset_In; eassumption.
  Qed.

  Theorem check_sound_known_ : ordered_paths known g.
  Proof.
    intros o h l m site es Hr Hsite x Hx.
    destruct (reach_inv _ _ _ Hr) as [f [pre [Hf [Hbody [Hh Hout]]]]].
    destruct (mem LSaito h) eqn:Hgate.
    { right; apply in_or_app; left; now apply mem_In. }
    destruct Hout as [Hout | Hout].
    { right; apply in_or_app; now right. }
    left; unfold lock_lt.
    apply in_app_or in Hx; destruct Hx as [Hx | Hx].
    - subst h.
      apply (unlisted_ungated_no_clash (f_name f) site (run_held [] pre) l x); try assumption.
      intros v Hv; apply (event_accepted f pre (Acq l m site) es v Hf Hbody); exact Hv.
    - pose proof (event_closed f pre (Acq l m site) es Hf Hbody) as Hcl; simpl in Hcl.
      apply (Hout x Hx l); now apply mem_In.
  Qed.
End Sound.

Theorem check_sound_known : forall g nl known, check g nl known = true -> ordered_paths known g.
Proof. intros g nl known H; exact (check_sound_known_ g nl known H). Qed.

(* the case without listed sites: every acquisition on every path is ordered *)
Theorem check_sound : forall g nl, check g nl [] = true ->
  forall o h l m site es, reach [] g o h (Acq l m site :: es) ->
  forall x, In x (h ++ o) -> lock_lt x l \/ In LSaito (h ++ o).
Proof.
  intros g nl H o h l m site es Hr x Hx.
  exact (check_sound_known g nl [] H o h l m site es Hr (in_known_nil site) x Hx).
Qed.

(* ---------- ordered tasks cannot deadlock ---------- *)
Section NoDeadlock.
  Context {L : Type} (rk : L -> nat).

  Definition deadlocked (ts : list (@task L)) : Prop :=
    exists t, clos_trans _ (blocked_by rk ts) t t.

  (* (rank of the awaited lock, ticket): grows along [blocked_by] *)
  Definition klt (a b : nat * nat) : Prop :=
    (fst a < fst b)%nat \/ (fst a = fst b /\ (snd b < snd a)%nat).

  Lemma klt_trans : forall a b c, klt a b -> klt b c -> klt a c.
  Proof. unfold klt; intros a b c Hab Hbc; lia. Qed.

  Lemma klt_irrefl : forall a, ~ klt a a.
  Proof. unfold klt; intros a Ha; lia. Qed.

  Lemma blocked_step : forall ts t1 t2, Forall (ordered_task rk) ts -> blocked_by rk ts t1 t2 ->
    forall l2 k2, waits t2 = Some (l2, k2) ->
    exists l1 k1, waits t1 = Some (l1, k1) /\ klt (rk l1, k1) (rk l2, k2).
  Proof.
    intros ts t1 t2 Hord [_ [Hin2 [l [k1 [Hw1 Hwhy]]]]] l2 k2 Hw2.
    exists l, k1; split; [assumption |].
    destruct Hwhy as [Hholds | [l2' [k2' [Hw2' [Hrk Hk]]]]].
    - rewrite Forall_forall in Hord; specialize (Hord t2 Hin2 l2 k2 Hw2 l Hholds).
      left; simpl; exact Hord.
    - rewrite Hw2 in Hw2'; injection Hw2' as <- <-.
      right; simpl; split; [now symmetry | assumption].
  Qed.

  Lemma blocked_waits : forall ts t1 t2, clos_trans _ (blocked_by rk ts) t1 t2 -> exists l k, waits t1 = Some (l, k).
  Proof.
    intros ts t1 t2 H; induction H as [a b [_ [_ [l [k [Hw _]]]]] | a b c _ IH1 _ _].
    - now exists l, k.
    - exact IH1.
  Qed.

  Lemma blocked_chain : forall ts t1 t2, Forall (ordered_task rk) ts -> clos_trans _ (blocked_by rk ts) t1 t2 ->
    forall l2 k2, waits t2 = Some (l2, k2) ->
    exists l1 k1, waits t1 = Some (l1, k1) /\ klt (rk l1, k1) (rk l2, k2).
  Proof.
    intros ts t1 t2 Hord H; induction H as [a b Hab | a b c _ IH1 _ IH2]; intros l2 k2 Hw.
    - eapply blocked_step; eassumption.
    - destruct (IH2 l2 k2 Hw) as [lb [kb [Hwb Hlt2]]].
      destruct (IH1 lb kb Hwb) as [la [ka [Hwa Hlt1]]].
      exists la, ka; split; [assumption | eapply klt_trans; eassumption].
  Qed.

  Theorem ordered_no_deadlock : forall ts, Forall (ordered_task rk) ts -> ~ deadlocked ts.
  Proof.
    intros ts Hord [t Hcyc].
    destruct (blocked_waits _ _ _ Hcyc) as [l [k Hw]].
    destruct (blocked_chain _ _ _ Hord Hcyc l k Hw) as [l1 [k1 [Hw1 Hlt]]].
    rewrite Hw in Hw1; injection Hw1 as <- <-.
    exact (klt_irrefl _ Hlt).
  Qed.
End NoDeadlock.

(* ---------- from the checker to deadlock freedom ----------
   A snapshot task is *taken from the graph* when it waits (if at all) at an acquisition point that is
   reachable without going through a listed site, holds only shared (ranked) locks that the path holds
   there, and is not inside the wasm gate. *)
Definition from_graph (known : list string) (g : graph) (t : @task lock) : Prop :=
  forall w k, waits t = Some (w, k) ->
    ranked w /\
    exists o h m site es,
      reach known g o h (Acq w m site :: es) /\ in_known known site = false /\
      ~ In LSaito (h ++ o) /\
      forall x, In x (holds t) -> ranked x /\ In x (h ++ o).

Lemma lock_lt_rk5 : forall x l, ranked x -> ranked l -> lock_lt x l -> (rk5 x < rk5 l)%nat.
Proof.
  intros x l Hx Hl Hlt; unfold lock_lt, bad, rk5, ranked in *.
  destruct (rank x) as [a |]; [| congruence].
  destruct (rank l) as [b |]; [| congruence].
  apply N.leb_gt in Hlt; lia.
Qed.

Theorem no_deadlock_from_check : forall g nl known, check g nl known = true ->
  forall ts, Forall (from_graph known g) ts -> ~ deadlocked rk5 ts.
Proof.
  intros g nl known Hchk ts Hts; apply ordered_no_deadlock.
  rewrite Forall_forall in *; intros t Ht w k Hw x Hx.
  destruct (Hts t Ht w k Hw) as [Hrw [o [h [m [site [es [Hreach [Hsite [Hgate Hheld]]]]]]]]].
  destruct (Hheld x Hx) as [Hrx Hin].
  destruct (check_sound_known g nl known Hchk o h w m site es Hreach Hsite x Hin) as [Hlt | Hg].
  - now apply lock_lt_rk5.
  - contradiction.
Qed.
