(* C20 — soundness of the schedule validator of model/LockSched.v:
   a schedule accepted by [valid_sched] consists of tasks that the path semantics [reach [] g] really brings
   in front of the acquisition they wait for, holding (at least) the locks the snapshot says they hold, and
   the snapshot is deadlocked in the sense of the deadlock theorem ([deadlocked rk5]). *)
From Saito Require Import Base LockOrder LockOrderProofs LockSched.
From Coq Require Import String FMapPositive Relation_Operators.

Definition reach_st (g : graph) (st : pst) : Prop := reach [] g (p_o st) (p_h st) (p_es st).

Lemma existsb_pos_In : forall c cs, existsb (Pos.eqb c) cs = true -> In c cs.
Proof.
  intros c cs H; apply existsb_exists in H; destruct H as [x [Hx He]].
  apply Pos.eqb_eq in He; subst; exact Hx.
Qed.

Lemma step1_reach : forall g st c st', reach_st g st -> step1 g st c = Some st' -> reach_st g st'.
Proof.
  intros g st c st' Hr Hs; unfold reach_st, step1 in *.
  destruct c as [| c].
  - destruct (p_es st) as [| e t] eqn:He; [discriminate |].
    injection Hs as <-; cbn [p_o p_h p_es].
    apply reach_next; exact Hr.
  - destruct (p_es st) as [| e t] eqn:He; [discriminate |].
    destruct e as [l m site | l | l | site cs]; try discriminate.
    destruct (existsb (Pos.eqb c) cs) eqn:Hex; [| discriminate].
    destruct (find_fn g c) as [f |] eqn:Hf; [| discriminate].
    injection Hs as <-; cbn [p_o p_h p_es].
    apply (reach_call [] g (p_o st) (p_h st) site cs t c f);
      [exact Hr | apply in_known_nil | apply existsb_pos_In; exact Hex | exact Hf].
Qed.

Lemma run_from_reach : forall g cs st st', reach_st g st -> run_from g st cs = Some st' -> reach_st g st'.
Proof.
  intros g cs; induction cs as [| c t IH]; intros st st' Hr Hrun; cbn [run_from] in Hrun.
  - injection Hrun as <-; exact Hr.
  - destruct (step1 g st c) as [st1 |] eqn:Hs; [| discriminate].
    apply (IH st1 st'); [apply (step1_reach g st c st1 Hr Hs) | exact Hrun].
Qed.

Lemma run_path_reach : forall g r cs st, run_path g r cs = Some st -> reach_st g st.
Proof.
  intros g r cs st H; unfold run_path in H.
  destruct (find_fn g r) as [f |] eqn:Hf; [| discriminate].
  apply (run_from_reach g cs (mkP [] [] (f_body f) [] []) st); [| exact H].
  unfold reach_st; cbn [p_o p_h p_es]. apply reach_root.
  unfold find_fn in Hf; apply find_some in Hf; tauto.
Qed.

(* a task stopped in front of an acquisition that the path semantics reaches, holding only locks the
   path holds (in some frame) *)
Definition at_acquisition (g : graph) (t : @task lock) : Prop :=
  exists w k o h m site es,
    waits t = Some (w, k) /\ ranked w /\
    reach [] g o h (Acq w m site :: es) /\
    forall x, In x (holds t) -> ranked x /\ In x (h ++ o).

Lemma is_ranked_ranked : forall l, is_ranked l = true -> ranked l.
Proof. intros l H; unfold is_ranked, ranked in *; destruct (rank l); congruence. Qed.

Lemma task_at_sound : forall g s t, task_at g s = Some t -> at_acquisition g (rt_task t).
Proof.
  intros g s t H; unfold task_at in H.
  destruct (run_path g (st_root s) (st_path s)) as [st |] eqn:Hrun; [| discriminate].
  apply run_path_reach in Hrun; unfold reach_st in Hrun.
  destruct (p_es st) as [| e es] eqn:He; [discriminate |].
  destruct e as [w m site | l | l | site cs]; try discriminate.
  destruct (is_ranked w) eqn:Hrk; [| discriminate].
  injection H as <-; cbn [rt_task].
  exists w, (st_ticket s), (p_o st), (p_h st), m, site, es.
  cbn [waits holds]; repeat split; auto.
  - apply is_ranked_ranked; exact Hrk.
  - apply filter_In in H; apply is_ranked_ranked; tauto.
  - apply filter_In in H; tauto.
Qed.

Lemma all_tasks_sound : forall g sc rts, all_tasks g sc = Some rts -> Forall (at_acquisition g) (map rt_task rts).
Proof.
  intros g sc; induction sc as [| s r IH]; intros rts H; cbn [all_tasks] in H.
  - injection H as <-; constructor.
  - destruct (task_at g s) as [t |] eqn:Ht; [| discriminate].
    destruct (all_tasks g r) as [ts |] eqn:Hr; [| discriminate].
    injection H as <-; cbn [map]; constructor; [apply (task_at_sound g s t Ht) | apply IH; reflexivity].
Qed.

(* ---------- the boolean cycle is a cycle of [blocked_by] ---------- *)
Lemma blocks_b_blocked : forall ts t1 t2, In t1 ts -> In t2 ts -> blocks_b t1 t2 = true -> blocked_by rk5 ts t1 t2.
Proof.
  intros ts t1 t2 H1 H2 Hb; unfold blocks_b in Hb; unfold blocked_by.
  split; [exact H1 |]; split; [exact H2 |].
  destruct (waits t1) as [[l k1] |] eqn:Hw1; [| discriminate].
  exists l, k1; split; [reflexivity |].
  apply orb_true_iff in Hb; destruct Hb as [Hm | Hq].
  - left; apply mem_In; exact Hm.
  - right. destruct (waits t2) as [[l2 k2] |] eqn:Hw2; [| discriminate].
    apply andb_true_iff in Hq; destruct Hq as [Hr Hk].
    exists l2, k2; split; [reflexivity |]; split.
    + apply Nat.eqb_eq; exact Hr.
    + apply Nat.ltb_lt; exact Hk.
Qed.

Lemma chain_b_trans : forall all first, In first all ->
  forall ts hd tl, ts = hd :: tl -> (forall x, In x ts -> In x all) -> chain_b ts first = true ->
  clos_trans _ (blocked_by rk5 all) hd first.
Proof.
  intros all first Hf ts; induction ts as [| t r IH]; intros hd tl Heq Hin Hc; [discriminate |].
  injection Heq as <- <-.
  cbn [chain_b] in Hc. destruct r as [| t' r'].
  - apply t_step; apply blocks_b_blocked; auto. apply Hin; left; reflexivity.
  - apply andb_true_iff in Hc; destruct Hc as [Hb Hc].
    apply t_trans with t'.
    + apply t_step; apply blocks_b_blocked; auto; apply Hin; [left | right; left]; reflexivity.
    + apply (IH t' r' eq_refl); [| exact Hc]. intros x Hx; apply Hin; right; exact Hx.
Qed.

Lemma cycle_b_deadlocked : forall ts, cycle_b ts = true -> deadlocked rk5 ts.
Proof.
  intros ts H; unfold cycle_b in H. destruct ts as [| t r]; [discriminate |].
  exists t. apply (chain_b_trans (t :: r) t (or_introl eq_refl) (t :: r) t r eq_refl); auto.
Qed.

Theorem valid_sched_sound : forall g sc ts, valid_sched g sc = Some ts ->
  Forall (at_acquisition g) ts /\ deadlocked rk5 ts.
Proof.
  intros g sc ts H; unfold valid_sched in H.
  destruct (all_tasks g sc) as [rts |] eqn:Hall; [| discriminate].
  destruct (cycle_b (map rt_task rts) && match rts with [] => false | t :: _ => chain_m rts t end && compatible rts) eqn:Hc;
    [| discriminate].
  injection H as <-.
  apply andb_true_iff in Hc; destruct Hc as [Hc _]. apply andb_true_iff in Hc; destruct Hc as [Hc _].
  split; [apply (all_tasks_sound g sc rts Hall) | apply cycle_b_deadlocked; exact Hc].
Qed.

(* a deadlocked snapshot of reachable acquisition points refutes the order: some task of it waits for a lock
   that is not ranked above everything it holds (contrapositive of [ordered_no_deadlock]) *)
Theorem valid_sched_unordered : forall g sc ts, valid_sched g sc = Some ts ->
  ~ Forall (ordered_task rk5) ts.
Proof.
  intros g sc ts H Hord. destruct (valid_sched_sound g sc ts H) as [_ Hd].
  exact (ordered_no_deadlock rk5 ts Hord Hd).
Qed.

(* ---------- coherence with the static checker ----------
   A graph that has a validated schedule outside the wasm gate is rejected by the checker when no site is
   listed: the search can never "find" a deadlock in a graph that [check g nl []] accepts. *)
Lemma task_at_from_graph : forall g s t, task_at g s = Some t -> gate_free1 g s = true ->
  from_graph [] g (rt_task t).
Proof.
  intros g s t H Hg; unfold task_at in H; unfold gate_free1 in Hg.
  destruct (run_path g (st_root s) (st_path s)) as [st |] eqn:Hrun; [| discriminate].
  apply run_path_reach in Hrun; unfold reach_st in Hrun.
  destruct (p_es st) as [| e es] eqn:He; [discriminate |].
  destruct e as [w m site | l | l | site cs]; try discriminate.
  destruct (is_ranked w) eqn:Hrk; [| discriminate].
  injection H as <-; cbn [rt_task].
  intros w' k' Hw; cbn [waits] in Hw; injection Hw as <- <-.
  split; [apply is_ranked_ranked; exact Hrk |].
  exists (p_o st), (p_h st), m, site, es.
  split; [exact Hrun |]. split; [apply in_known_nil |]. split.
  - intros Hin. apply In_mem in Hin. rewrite Hin in Hg. discriminate.
  - intros x Hx; cbn [holds] in Hx; apply filter_In in Hx; split; [apply is_ranked_ranked |]; tauto.
Qed.

Lemma all_tasks_from_graph : forall g sc rts, all_tasks g sc = Some rts -> gate_free g sc = true ->
  Forall (from_graph [] g) (map rt_task rts).
Proof.
  intros g sc; induction sc as [| s r IH]; intros rts H Hg; cbn [all_tasks] in H.
  - injection H as <-; constructor.
  - destruct (task_at g s) as [t |] eqn:Ht; [| discriminate].
    destruct (all_tasks g r) as [ts |] eqn:Hr; [| discriminate].
    injection H as <-. cbn [gate_free forallb] in Hg. apply andb_true_iff in Hg; destruct Hg as [Hg1 Hg2].
    cbn [map]; constructor; [apply (task_at_from_graph g s t Ht Hg1) | apply IH; [reflexivity | exact Hg2]].
Qed.

Theorem valid_sched_check_rejects : forall g sc ts, valid_sched g sc = Some ts -> gate_free g sc = true ->
  forall nl, check g nl [] = false.
Proof.
  intros g sc ts H Hg nl. destruct (check g nl []) eqn:Hchk; [| reflexivity]. exfalso.
  destruct (valid_sched_sound g sc ts H) as [_ Hd].
  unfold valid_sched in H.
  destruct (all_tasks g sc) as [rts |] eqn:Hall; [| discriminate].
  destruct (cycle_b (map rt_task rts) && match rts with [] => false | t :: _ => chain_m rts t end && compatible rts);
    [| discriminate].
  injection H as <-.
  exact (no_deadlock_from_check g nl [] Hchk _ (all_tasks_from_graph g sc rts Hall Hg) Hd).
Qed.
