(* Proofs about model/Mempool.v (property C14). *)
From Saito Require Import Base Mempool.
From Coq Require Import Sorting.Sorted.

Local Open Scope N_scope.

(* ------------------------------------------------------------------ *)
(* small list facts                                                    *)

Lemma mem_In k l : mem k l = true <-> In k l.
Proof.
  unfold mem. rewrite existsb_exists. split.
  - intros [x [Hx He]]. apply N.eqb_eq in He. subst. exact Hx.
  - intros H. exists k. split; [exact H | apply N.eqb_refl].
Qed.

Lemma mem_false k l : mem k l = false <-> ~ In k l.
Proof.
  rewrite <- mem_In. destruct (mem k l); split; intros; try congruence; try tauto.
  exfalso. apply H. reflexivity.
Qed.

Lemma sadd_In x k l : In x (sadd k l) <-> x = k \/ In x l.
Proof.
  unfold sadd. destruct (mem k l) eqn:E.
  - apply mem_In in E. split; [tauto | intros [->|]; assumption].
  - simpl. split; intros [H|H]; auto.
Qed.

Lemma fold_sadd_In x ks m : In x (fold_right sadd m ks) <-> In x ks \/ In x m.
Proof.
  induction ks as [|k ks IH]; simpl.
  - tauto.
  - rewrite sadd_In, IH. split; intros H; repeat destruct H as [H|H]; auto.
Qed.

Lemma srem_In x k l : In x (srem k l) <-> In x l /\ x <> k.
Proof.
  unfold srem. rewrite filter_In. rewrite negb_true_iff, N.eqb_neq. tauto.
Qed.

Lemma fold_srem_In x ks : forall m,
  In x (fold_left (fun m k => srem k m) ks m) <-> In x m /\ ~ In x ks.
Proof.
  induction ks as [|k ks IH]; intros m; simpl.
  - tauto.
  - rewrite IH, srem_In. split.
    + intros [[H1 H2] H3]. split; [exact H1|]. intros [E|E]; [congruence | tauto].
    + intros [H1 H2]. repeat split; auto. intros E. apply H2. left. congruence.
Qed.

Lemma has_dup_NoDup l : has_dup l = false <-> NoDup l.
Proof.
  induction l as [|x r IH]; simpl.
  - split; [constructor | reflexivity].
  - rewrite orb_false_iff, mem_false, IH. split.
    + intros [H1 H2]. constructor; assumption.
    + intros H. inversion H; subst. tauto.
Qed.

Lemma has_tx_In id l : has_tx id l = true <-> exists t, In t l /\ t_id t = id.
Proof.
  unfold has_tx. rewrite existsb_exists. split; intros [t [H1 H2]]; exists t; split; auto.
  - apply N.eqb_eq. exact H2.
  - apply N.eqb_eq. exact H2.
Qed.

Lemma has_tx_false id l : has_tx id l = false -> ~ In id (map t_id l).
Proof.
  intros H Hin. apply in_map_iff in Hin. destruct Hin as [t [E Hin]].
  assert (has_tx id l = true) by (apply has_tx_In; eauto). congruence.
Qed.

Lemma del_tx_In t id l : In t (del_tx id l) <-> In t l /\ t_id t <> id.
Proof.
  unfold del_tx. rewrite filter_In, negb_true_iff, N.eqb_neq. tauto.
Qed.

Lemma vkeys_in_keys t k : In k (vkeys t) -> In k (in_keys t).
Proof.
  unfold vkeys, in_keys. intros H. apply in_map_iff in H. destruct H as [i [E H]].
  apply filter_In in H. apply in_map_iff. exists i. tauto.
Qed.

Lemma filter_all {A} (f : A -> bool) l : (forall x, In x l -> f x = true) -> filter f l = l.
Proof.
  induction l as [|a l IH]; simpl; intros H; [reflexivity|].
  rewrite (H a) by auto. f_equal. apply IH. intros; apply H; auto.
Qed.

Lemma existsb_false {A} (f : A -> bool) l :
  existsb f l = false <-> forall x, In x l -> f x = false.
Proof.
  split.
  - intros H x Hx. destruct (f x) eqn:E; [|reflexivity].
    assert (existsb f l = true) by (apply existsb_exists; eauto). congruence.
  - intros H. destruct (existsb f l) eqn:E; [|reflexivity].
    apply existsb_exists in E. destruct E as [x [Hx Hf]]. rewrite H in Hf by assumption. discriminate.
Qed.

Lemma NoDup_map_filter {A B} (f : A -> B) (g : A -> bool) l :
  NoDup (map f l) -> NoDup (map f (filter g l)).
Proof.
  induction l as [|a l IH]; simpl; intros H; [constructor|].
  inversion H; subst. destruct (g a); simpl; [|auto].
  constructor; [|auto]. intros Hin. apply H2.
  apply in_map_iff in Hin. destruct Hin as [x [E Hx]]. apply filter_In in Hx.
  apply in_map_iff. exists x. tauto.
Qed.

Lemma FOP_filter {A} (R : A -> A -> Prop) (g : A -> bool) l :
  ForallOrdPairs R l -> ForallOrdPairs R (filter g l).
Proof.
  induction 1 as [|a l Ha Hl IH]; simpl; [constructor|].
  destruct (g a); [|exact IH]. constructor; [|exact IH].
  rewrite Forall_forall in *. intros x Hx. apply filter_In in Hx. apply Ha. tauto.
Qed.

(* ------------------------------------------------------------------ *)
(* u64 sums                                                            *)

Definition M64 : N := 2 ^ 64.

Definition total_work (l : list tx) : N := fold_right (fun t a => t_work t + a) 0 l.

Lemma M64_pos : M64 <> 0. Proof. unfold M64. apply N.pow_nonzero. discriminate. Qed.

Lemma fold_wadd l : forall a, a < M64 ->
  fold_left (fun w t => wadd w (t_work t)) l a = (a + total_work l) mod M64.
Proof.
  induction l as [|t l IH]; intros a Ha; simpl.
  - rewrite N.add_0_r. symmetry. apply N.mod_small. exact Ha.
  - rewrite IH.
    + unfold wadd. fold M64. rewrite N.add_mod_idemp_l by apply M64_pos.
      f_equal. lia.
    + unfold wadd. fold M64. apply N.mod_lt. apply M64_pos.
Qed.

Lemma sum_work_spec l : sum_work l = total_work l mod M64.
Proof.
  unfold sum_work. rewrite fold_wadd.
  - reflexivity.
  - unfold M64. apply N.pow_pos_nonneg; lia.
Qed.

Lemma sum_work_cons t l : sum_work (t :: l) = wadd (sum_work l) (t_work t).
Proof.
  rewrite !sum_work_spec. unfold wadd. fold M64. simpl.
  rewrite N.add_mod_idemp_l by apply M64_pos. f_equal. lia.
Qed.

(* ------------------------------------------------------------------ *)
(* the invariants of the property                                      *)

Definition Disjoint (a b : list N) : Prop := forall k, In k a -> In k b -> False.

(* I1: no two pooled transactions spend the same value-carrying input *)
Definition I1 (p : pool) : Prop :=
  ForallOrdPairs (fun a b => Disjoint (vkeys a) (vkeys b)) (txs p).
(* the map invariant of Mempool.transactions *)
Definition UniqueIds (p : pool) : Prop := NoDup (map t_id (txs p)).
(* every input of a pooled transaction is reserved *)
Definition Reserved (p : pool) : Prop :=
  forall t k, In t (txs p) -> In k (in_keys t) -> In k (umap p).
(* I2: every pooled transaction validates against the ledger *)
Definition I2 (l : list N) (p : pool) : Prop :=
  forall t, In t (txs p) -> valid_against l t = true.
(* I3: every reservation belongs to a pooled transaction *)
Definition I3 (p : pool) : Prop :=
  forall k, In k (umap p) -> exists t, In t (txs p) /\ In k (in_keys t).
(* I5: the cached routing work is the (u64) sum over the pooled transactions *)
Definition I5 (p : pool) : Prop := work p = total_work (txs p) mod M64.

(* boolean counterparts used by the refutations *)
Lemma disjointb_spec a b : Disjoint a b -> disjointb a b = true.
Proof.
  induction a as [|x r IH]; simpl; intros H; [reflexivity|].
  apply andb_true_iff. split.
  - apply negb_true_iff. apply mem_false. intros Hin. apply (H x); simpl; auto.
  - apply IH. intros k Hk Hb. apply (H k); simpl; auto.
Qed.

Lemma I1_I1b p : I1 p -> I1b p = true.
Proof.
  unfold I1, I1b. induction 1 as [|a l Ha Hl IH]; simpl; [reflexivity|].
  apply andb_true_iff. split; [|exact IH].
  apply forallb_forall. intros u Hu. apply disjointb_spec.
  rewrite Forall_forall in Ha. apply Ha. exact Hu.
Qed.

Lemma I3_I3b p : I3 p -> I3b p = true.
Proof.
  unfold I3, I3b. intros H. apply forallb_forall. intros k Hk.
  destruct (H k Hk) as [t [Ht Hkt]]. apply mem_In. unfold block_keys.
  apply in_flat_map. exists t. tauto.
Qed.

Lemma I5_I5b p : I5 p -> I5b p = true.
Proof. unfold I5, I5b. intros H. rewrite sum_work_spec, H. apply N.eqb_refl. Qed.

(* ------------------------------------------------------------------ *)
(* add_transaction                                                     *)

Definition added (p : pool) (t : tx) : pool :=
  mkP (t :: txs p) (fold_right sadd (umap p) (in_keys t)) (wadd (work p) (t_work t)) true (gts p).

Lemma add_transaction_cases p t p' :
  add_transaction p t = Ok p' ->
  p' = p \/ (conflicts p t = false /\ has_tx (t_id t) (txs p) = false /\ p' = added p t).
Proof.
  unfold add_transaction. destruct (conflicts p t) eqn:C; [intros H; inversion H; auto|].
  destruct (has_tx (t_id t) (txs p)) eqn:H; [intros E; inversion E; auto|].
  destruct (t_type t); intros E; inversion E; right; auto.
Qed.

Lemma add_if_valid_cases l p t p' :
  add_transaction_if_validates l p t = Ok p' ->
  p' = p \/ (tx_validate l t = true /\ conflicts p t = false /\
             has_tx (t_id t) (txs p) = false /\ p' = added p t).
Proof.
  unfold add_transaction_if_validates. destruct (tx_validate l t) eqn:V.
  - intros H. apply add_transaction_cases in H. tauto.
  - intros H. inversion H. auto.
Qed.

Lemma conflicts_false p t :
  conflicts p t = false -> forall k, In k (vkeys t) -> ~ In k (umap p).
Proof.
  unfold conflicts. intros H k Hk. rewrite existsb_false in H.
  apply mem_false. apply H. exact Hk.
Qed.

Lemma added_UniqueIds p t :
  has_tx (t_id t) (txs p) = false -> UniqueIds p -> UniqueIds (added p t).
Proof.
  unfold UniqueIds. simpl. intros H U. constructor; [apply has_tx_false; exact H | exact U].
Qed.

Lemma added_Reserved p t : Reserved p -> Reserved (added p t).
Proof.
  unfold Reserved. simpl. intros R u k [E|Hu] Hk; apply fold_sadd_In.
  - subst. auto.
  - right. eapply R; eauto.
Qed.

Lemma added_I1 p t : conflicts p t = false -> Reserved p -> I1 p -> I1 (added p t).
Proof.
  unfold I1. simpl. intros C R H. constructor; [|exact H].
  apply Forall_forall. intros u Hu k Hk Hku.
  apply (conflicts_false _ _ C k Hk). eapply R; eauto. apply vkeys_in_keys. exact Hku.
Qed.

Lemma added_I3 p t : I3 p -> I3 (added p t).
Proof.
  unfold I3. simpl. intros H k Hk. apply fold_sadd_In in Hk. destruct Hk as [Hk|Hk].
  - exists t. auto.
  - destruct (H k Hk) as [u [Hu Hku]]. exists u. auto.
Qed.

Lemma added_I5 p t : I5 p -> I5 (added p t).
Proof.
  unfold I5. simpl. intros H. rewrite H. unfold wadd. fold M64.
  rewrite N.add_mod_idemp_l by apply M64_pos. f_equal. lia.
Qed.

(* ------------------------------------------------------------------ *)
(* golden tickets, deletions                                           *)

Lemma add_gt_fields p a b :
  txs (add_golden_ticket p a b) = txs p /\ umap (add_golden_ticket p a b) = umap p /\
  work (add_golden_ticket p a b) = work p.
Proof. unfold add_golden_ticket. destruct (existsb _ _); simpl; auto. Qed.

Lemma in_block_cons t a b :
  in_block t (a :: b) =
  (match t_type a with TGoldenTicket => false | _ => t_id a =? t_id t end) || in_block t b.
Proof. reflexivity. Qed.

Lemma delete_fold_fields b : forall p,
  txs (fold_left delete_one b p) = filter (fun t => negb (in_block t b)) (txs p) /\
  umap (fold_left delete_one b p) = umap p /\
  work (fold_left delete_one b p) = work p /\
  fresh (fold_left delete_one b p) = fresh p.
Proof.
  induction b as [|a b IH]; intros p; simpl fold_left.
  - repeat split. symmetry. apply filter_all. reflexivity.
  - destruct (IH (delete_one p a)) as [H1 [H2 [H3 H4]]]. rewrite H1, H2, H3, H4.
    unfold delete_one. destruct (t_type a) eqn:T; simpl; repeat split;
      try (apply filter_ext; intros t; rewrite in_block_cons, T; reflexivity);
      unfold del_tx;
      (induction (txs p) as [|x r IHr]; simpl; [reflexivity|];
       rewrite in_block_cons, T; rewrite (N.eqb_sym (t_id a) (t_id x));
       destruct (t_id x =? t_id a); simpl; [exact IHr|];
       destruct (in_block x b); simpl; [exact IHr | f_equal; exact IHr]).
Qed.

Lemma remove_block_fields l p b :
  txs (remove_block_transactions l p b)
    = filter (fun t => negb (in_block t b)) (filter (valid_against l) (txs p)) /\
  umap (remove_block_transactions l p b) = umap p /\
  work (remove_block_transactions l p b) = sum_work (txs (remove_block_transactions l p b)).
Proof.
  unfold remove_block_transactions, delete_transactions.
  destruct (delete_fold_fields b (set_txs p (filter (valid_against l) (txs p)))) as [H1 [H2 _]].
  simpl. rewrite H1, H2. simpl. auto.
Qed.

Lemma delete_block_fields p h :
  txs (delete_block p h) = txs p /\ umap (delete_block p h) = umap p /\
  work (delete_block p h) = work p.
Proof. unfold delete_block. simpl. auto. Qed.
