(* Proofs about model/Mempool.v (property C14). *)
From Saito Require Import Base Mempool.
From Coq Require Import Sorting.Sorted.

Local Open Scope N_scope.

(* ------------------------------------------------------------------ *)
(* small list facts                                                    *)

Lemma mem_In k l : mem k l = true <-> In k l.
Proof.
  unfold mem. rewrite existsb_exists. split.
  - intros [x [Hx He]]. apply N.eqb_eq in He. subst. exact Hx.
  - intros H. exists k. split; [exact H | apply N.eqb_refl].
Qed.

Lemma mem_false k l : mem k l = false <-> ~ In k l.
Proof.
  rewrite <- mem_In. destruct (mem k l).
  - split; [discriminate | intros H; exfalso; apply H; reflexivity].
  - split; [intros _ H; discriminate | reflexivity].
Qed.

Lemma sadd_In x k l : In x (sadd k l) <-> x = k \/ In x l.
Proof.
  unfold sadd. destruct (mem k l) eqn:E.
  - apply mem_In in E. split; [tauto | intros [->|]; assumption].
  - simpl. split; intros [H|H]; auto.
Qed.

Lemma fold_sadd_In x ks m : In x (fold_right sadd m ks) <-> In x ks \/ In x m.
Proof.
  induction ks as [|k ks IH]; simpl.
  - tauto.
  - rewrite sadd_In, IH. split; intros H; repeat destruct H as [H|H]; auto.
Qed.

Lemma srem_In x k l : In x (srem k l) <-> In x l /\ x <> k.
Proof.
  unfold srem. rewrite filter_In. rewrite negb_true_iff, N.eqb_neq. tauto.
Qed.

Lemma fold_srem_In x ks : forall m,
  In x (fold_left (fun m k => srem k m) ks m) <-> In x m /\ ~ In x ks.
Proof.
  induction ks as [|k ks IH]; intros m; simpl.
  - tauto.
  - rewrite IH, srem_In. intuition congruence.
Qed.

Lemma has_dup_NoDup l : has_dup l = false <-> NoDup l.
Proof.
  induction l as [|x r IH]; simpl.
  - split; [constructor | reflexivity].
  - rewrite orb_false_iff, mem_false, IH. split.
    + intros [H1 H2]. constructor; assumption.
    + intros H. inversion H; subst. tauto.
Qed.

Lemma has_tx_In id l : has_tx id l = true <-> exists t, In t l /\ t_id t = id.
Proof.
  unfold has_tx. rewrite existsb_exists. split; intros [t [H1 H2]]; exists t; split; auto.
  - apply N.eqb_eq. exact H2.
  - apply N.eqb_eq. exact H2.
Qed.

Lemma has_tx_false id l : has_tx id l = false -> ~ In id (map t_id l).
Proof.
  intros H Hin. apply in_map_iff in Hin. destruct Hin as [t [E Hin]].
  assert (has_tx id l = true) by (apply has_tx_In; eauto). congruence.
Qed.

Lemma del_tx_In t id l : In t (del_tx id l) <-> In t l /\ t_id t <> id.
Proof.
  unfold del_tx. rewrite filter_In, negb_true_iff, N.eqb_neq. tauto.
Qed.

Lemma vkeys_in_keys t k : In k (vkeys t) -> In k (in_keys t).
Proof.
  unfold vkeys, in_keys. intros H. apply in_map_iff in H. destruct H as [i [E H]].
  apply filter_In in H. apply in_map_iff. exists i. tauto.
Qed.

Lemma filter_all {A} (f : A -> bool) l : (forall x, In x l -> f x = true) -> filter f l = l.
Proof.
  induction l as [|a l IH]; simpl; intros H; [reflexivity|].
  rewrite (H a) by auto. f_equal. apply IH. intros; apply H; auto.
Qed.

Lemma existsb_false {A} (f : A -> bool) l :
  existsb f l = false <-> forall x, In x l -> f x = false.
Proof.
  split.
  - intros H x Hx. destruct (f x) eqn:E; [|reflexivity].
    assert (existsb f l = true) by (apply existsb_exists; eauto). congruence.
  - intros H. destruct (existsb f l) eqn:E; [|reflexivity].
    apply existsb_exists in E. destruct E as [x [Hx Hf]]. rewrite H in Hf by assumption. discriminate.
Qed.

Lemma NoDup_map_filter {A B} (f : A -> B) (g : A -> bool) l :
  NoDup (map f l) -> NoDup (map f (filter g l)).
Proof.
  induction l as [|a l IH]; simpl; intros H; [constructor|].
  inversion H; subst. destruct (g a); simpl; [|auto].
  constructor; [|auto]. intros Hin. apply H2.
  apply in_map_iff in Hin. destruct Hin as [x [E Hx]]. apply filter_In in Hx.
  apply in_map_iff. exists x. tauto.
Qed.

Lemma FOP_filter {A} (R : A -> A -> Prop) (g : A -> bool) l :
  ForallOrdPairs R l -> ForallOrdPairs R (filter g l).
Proof.
  induction 1 as [|a l Ha Hl IH]; simpl; [constructor|].
  destruct (g a); [|exact IH]. constructor; [|exact IH].
  rewrite Forall_forall in *. intros x Hx. apply filter_In in Hx. apply Ha. tauto.
Qed.

(* ------------------------------------------------------------------ *)
(* u64 sums                                                            *)

Definition M64 : N := 2 ^ 64.

Definition total_work (l : list tx) : N := fold_right (fun t a => t_work t + a) 0 l.

Lemma M64_pos : M64 <> 0. Proof. unfold M64. apply N.pow_nonzero. discriminate. Qed.

Lemma fold_wadd l : forall a, a < M64 ->
  fold_left (fun w t => wadd w (t_work t)) l a = (a + total_work l) mod M64.
Proof.
  induction l as [|t l IH]; intros a Ha; simpl.
  - rewrite N.add_0_r. symmetry. apply N.mod_small. exact Ha.
  - rewrite IH.
    + unfold wadd. fold M64. rewrite N.add_mod_idemp_l by apply M64_pos.
      f_equal. lia.
    + unfold wadd. fold M64. apply N.mod_lt. apply M64_pos.
Qed.

Lemma sum_work_spec l : sum_work l = total_work l mod M64.
Proof.
  unfold sum_work. rewrite fold_wadd.
  - reflexivity.
  - pose proof M64_pos. lia.
Qed.

Lemma sum_work_cons t l : sum_work (t :: l) = wadd (sum_work l) (t_work t).
Proof.
  rewrite !sum_work_spec. unfold wadd. fold M64. simpl.
  rewrite N.add_mod_idemp_l by apply M64_pos. f_equal. lia.
Qed.

(* ------------------------------------------------------------------ *)
(* the invariants of the property                                      *)

Definition Disjoint (a b : list N) : Prop := forall k, In k a -> In k b -> False.

(* I1: no two pooled transactions spend the same value-carrying input *)
Definition I1 (p : pool) : Prop :=
  ForallOrdPairs (fun a b => Disjoint (vkeys a) (vkeys b)) (txs p).
(* the map invariant of Mempool.transactions *)
Definition UniqueIds (p : pool) : Prop := NoDup (map t_id (txs p)).
(* every input of a pooled transaction is reserved *)
Definition Reserved (p : pool) : Prop :=
  forall t k, In t (txs p) -> In k (in_keys t) -> In k (umap p).
(* I2: every pooled transaction validates against the ledger *)
Definition I2 (l : chain) (p : pool) : Prop :=
  forall t, In t (txs p) -> valid_against l t = true.
(* I3: every reservation belongs to a pooled transaction *)
Definition I3 (p : pool) : Prop :=
  forall k, In k (umap p) -> exists t, In t (txs p) /\ In k (in_keys t).
(* I5: the cached routing work is the (u64) sum over the pooled transactions *)
Definition I5 (p : pool) : Prop := work p = total_work (txs p) mod M64.

(* boolean counterparts used by the refutations *)
Lemma disjointb_spec a b : Disjoint a b -> disjointb a b = true.
Proof.
  induction a as [|x r IH]; simpl; intros H; [reflexivity|].
  apply andb_true_iff. split.
  - apply negb_true_iff. apply mem_false. intros Hin. apply (H x); simpl; auto.
  - apply IH. intros k Hk Hb. apply (H k); simpl; auto.
Qed.

Lemma I1_I1b p : I1 p -> I1b p = true.
Proof.
  unfold I1, I1b. induction 1 as [|a l Ha Hl IH]; simpl; [reflexivity|].
  apply andb_true_iff. split; [|exact IH].
  apply forallb_forall. intros u Hu. apply disjointb_spec.
  rewrite Forall_forall in Ha. apply Ha. exact Hu.
Qed.

Lemma I3_I3b p : I3 p -> I3b p = true.
Proof.
  unfold I3, I3b. intros H. apply forallb_forall. intros k Hk.
  destruct (H k Hk) as [t [Ht Hkt]]. apply mem_In. unfold block_keys.
  apply in_flat_map. exists t. tauto.
Qed.

Lemma I5_I5b p : I5 p -> I5b p = true.
Proof. unfold I5, I5b. intros H. rewrite sum_work_spec, H. apply N.eqb_refl. Qed.

(* ------------------------------------------------------------------ *)
(* add_transaction                                                     *)

Definition added (p : pool) (t : tx) : pool :=
  mkP (t :: txs p) (fold_right sadd (umap p) (in_keys t)) (wadd (work p) (t_work t)) true (gts p).

Lemma add_transaction_cases p t p' :
  add_transaction p t = Ok p' ->
  p' = p \/ (conflicts p t = false /\ has_tx (t_id t) (txs p) = false /\ p' = added p t).
Proof.
  unfold add_transaction. destruct (conflicts p t) eqn:C; [intros H; inversion H; auto|].
  destruct (has_tx (t_id t) (txs p)) eqn:H; [intros E; inversion E; auto|].
  destruct (t_type t); intros E; inversion E; right; auto.
Qed.

Lemma add_if_valid_cases l p t p' :
  add_transaction_if_validates l p t = Ok p' ->
  p' = p \/ (tx_validate l t = true /\ conflicts p t = false /\
             has_tx (t_id t) (txs p) = false /\ p' = added p t).
Proof.
  unfold add_transaction_if_validates.
  destruct (producer_only t); [intros H; inversion H; auto|].
  destruct (late_issuance l t); [intros H; inversion H; auto|].
  destruct (foreign_stake t); [intros H; inversion H; auto|].
  destruct (tx_validate l t) eqn:V.
  - intros H. apply add_transaction_cases in H. tauto.
  - intros H. inversion H. auto.
Qed.

Lemma conflicts_false p t :
  conflicts p t = false -> forall k, In k (vkeys t) -> ~ In k (umap p).
Proof.
  unfold conflicts. intros H k Hk. rewrite existsb_false in H.
  apply mem_false. apply H. exact Hk.
Qed.

Lemma added_UniqueIds p t :
  has_tx (t_id t) (txs p) = false -> UniqueIds p -> UniqueIds (added p t).
Proof.
  unfold UniqueIds. simpl. intros H U. constructor; [apply has_tx_false; exact H | exact U].
Qed.

Lemma added_Reserved p t : Reserved p -> Reserved (added p t).
Proof.
  unfold Reserved. simpl. intros R u k [E|Hu] Hk; apply fold_sadd_In.
  - subst. auto.
  - right. eapply R; eauto.
Qed.

Lemma added_I1 p t : conflicts p t = false -> Reserved p -> I1 p -> I1 (added p t).
Proof.
  unfold I1. simpl. intros C R H. constructor; [|exact H].
  apply Forall_forall. intros u Hu k Hk Hku.
  apply (conflicts_false _ _ C k Hk). eapply R; eauto. apply vkeys_in_keys. exact Hku.
Qed.

Lemma added_I3 p t : I3 p -> I3 (added p t).
Proof.
  unfold I3. simpl. intros H k Hk. apply fold_sadd_In in Hk. destruct Hk as [Hk|Hk].
  - exists t. auto.
  - destruct (H k Hk) as [u [Hu Hku]]. exists u. auto.
Qed.

Lemma added_I5 p t : I5 p -> I5 (added p t).
Proof.
  unfold I5. simpl. intros H. rewrite H. unfold wadd. fold M64.
  rewrite N.add_mod_idemp_l by apply M64_pos. f_equal. lia.
Qed.

(* ------------------------------------------------------------------ *)
(* golden tickets, deletions                                           *)

Lemma add_gt_fields p a b :
  txs (add_golden_ticket p a b) = txs p /\ umap (add_golden_ticket p a b) = umap p /\
  work (add_golden_ticket p a b) = work p.
Proof. unfold add_golden_ticket. destruct (existsb _ _); simpl; auto. Qed.

(* the transactions of a block that delete_transactions looks up in Mempool.transactions *)
Definition in_block (t : tx) (btxs : list tx) : bool :=
  existsb (fun u => match t_type u with TGoldenTicket => false | _ => t_id u =? t_id t end) btxs.

Lemma in_block_cons t a b :
  in_block t (a :: b) =
  (match t_type a with TGoldenTicket => false | _ => t_id a =? t_id t end) || in_block t b.
Proof. reflexivity. Qed.

Lemma filter_filter {A} (f g : A -> bool) l :
  filter g (filter f l) = filter (fun x => f x && g x) l.
Proof.
  induction l as [|a l IH]; simpl; [reflexivity|].
  destruct (f a); simpl; [destruct (g a); simpl; congruence | exact IH].
Qed.

Definition hits (a t : tx) : bool :=
  match t_type a with TGoldenTicket => false | _ => t_id a =? t_id t end.

Lemma delete_one_fields p a :
  txs (delete_one p a) = filter (fun t => negb (hits a t)) (txs p) /\
  umap (delete_one p a) = umap p /\ work (delete_one p a) = work p /\
  Mempool.fresh (delete_one p a) = Mempool.fresh p.
Proof.
  unfold delete_one, hits.
  destruct (t_type a); simpl; repeat split;
    try (symmetry; apply filter_all; reflexivity);
    unfold del_tx; apply filter_ext; intros t; rewrite (N.eqb_sym (t_id a)); reflexivity.
Qed.

Lemma delete_fold_fields b : forall p,
  txs (fold_left delete_one b p) = filter (fun t => negb (in_block t b)) (txs p) /\
  umap (fold_left delete_one b p) = umap p /\
  work (fold_left delete_one b p) = work p /\
  Mempool.fresh (fold_left delete_one b p) = Mempool.fresh p.
Proof.
  induction b as [|a b IH]; intros p; simpl fold_left.
  - repeat split. symmetry. apply filter_all. reflexivity.
  - destruct (IH (delete_one p a)) as [H1 [H2 [H3 H4]]].
    destruct (delete_one_fields p a) as [G1 [G2 [G3 G4]]].
    rewrite H1, H2, H3, H4, G1, G2, G3, G4. repeat split.
    rewrite filter_filter. apply filter_ext. intros t.
    rewrite in_block_cons. fold (hits a t). rewrite negb_orb. reflexivity.
Qed.

Lemma remove_block_fields l p b :
  txs (remove_block_transactions l p b)
    = filter (fun t => still_valid l t && negb (in_block t b)) (txs p) /\
  umap (remove_block_transactions l p b)
    = fold_right sadd [] (block_keys (txs (remove_block_transactions l p b))) /\
  work (remove_block_transactions l p b) = sum_work (txs (remove_block_transactions l p b)).
Proof.
  unfold remove_block_transactions, delete_transactions, rebuild_utxo_map.
  destruct (delete_fold_fields b (set_txs p (filter (still_valid l) (txs p)))) as [H1 _].
  cbn [txs umap work set_work]. rewrite H1. cbn [txs set_txs]. rewrite filter_filter. auto.
Qed.

(* ------------------------------------------------------------------ *)
(* bundle_block                                                        *)

Definition bundled_pool (p1 : pool) (block : list tx) : pool :=
  mkP [] [] 0 false (gts p1).


Definition restored_pool (p1 : pool) (k : list tx) : pool :=
  rebuild_utxo_map (mkP k (umap p1) (sum_work k) (Mempool.fresh p1) (gts p1)).

Lemma core_cases l p env wn st ex p' r :
  bundle_core l p env wn st ex = Ok (p', r) ->
  (p' = p /\ r = None /\ create_fails l p env wn st ex = false) \/
  exists s p1, st = Some s /\ can_bundle_block p env wn = true /\
    add_transaction_if_validates l p s = Ok p1 /\
    ((dup_spend (kept ex (txs p1) ++ ex) = true /\ create_fails l p env wn st ex = true /\
      p' = restored_pool p1 (kept ex (txs p1)) /\ r = None) \/
     (dup_spend (kept ex (txs p1) ++ ex) = false /\ create_fails l p env wn st ex = false /\
      p' = bundled_pool p1 (kept ex (txs p1) ++ ex) /\ r = Some (kept ex (txs p1) ++ ex))).
Proof.
  unfold bundle_core, create_fails.
  destruct (can_bundle_block p env wn) eqn:C; simpl.
  2:{ intros H. inversion H. left. auto. }
  destruct st as [s|].
  2:{ intros H. inversion H. left. auto. }
  destruct (add_transaction_if_validates l p s) as [p1| |site] eqn:A; simpl; try discriminate.
  destruct (dup_spend (kept ex (txs p1) ++ ex)) eqn:D; intros H; inversion H; subst;
    right; exists s, p1; repeat split; auto.
Qed.

Lemma drop_bad_gt_fields p bg :
  txs (drop_bad_gt p bg) = txs p /\ umap (drop_bad_gt p bg) = umap p /\
  work (drop_bad_gt p bg) = work p /\ Mempool.fresh (drop_bad_gt p bg) = Mempool.fresh p.
Proof. destruct bg; simpl; auto. Qed.

Lemma kept_In ex l t : In t (kept ex l) -> In t l.
Proof. unfold kept. intros H. apply filter_In in H. tauto. Qed.

(* ------------------------------------------------------------------ *)
(* runs                                                                *)

Lemma run_cons s o r s' :
  run s (o :: r) = Ok s' -> exists x, step s o = Ok x /\ run (fst x) r = Ok s'.
Proof.
  simpl. destruct (step s o) as [x| |site]; simpl; try discriminate. eauto.
Qed.

Lemma run_invariant (Inv : state -> Prop) :
  (forall s o x, Inv s -> step s o = Ok x -> Inv (fst x)) ->
  forall ops s s', Inv s -> run s ops = Ok s' -> Inv s'.
Proof.
  intros Hstep. induction ops as [|o r IH]; intros s s' HI HR.
  - simpl in HR. inversion HR. subst. exact HI.
  - apply run_cons in HR. destruct HR as [x [Hs Hr]].
    eapply IH; [eapply Hstep; eauto | exact Hr].
Qed.

(* ------------------------------------------------------------------ *)
(* I1, I3, I5 and the auxiliary invariants hold after every operation  *)

(* UniqueIds, Reserved, I1, I5: unconditional *)
Definition InvB (p : pool) : Prop := UniqueIds p /\ Reserved p /\ I1 p /\ I5 p.

Lemma InvB_empty um g u : InvB (mkP [] um 0 u g).
Proof.
  unfold InvB, UniqueIds, Reserved, I1, I5. simpl. repeat split; try constructor.
  intros t k [].
Qed.

Lemma InvB_added p t :
  conflicts p t = false -> has_tx (t_id t) (txs p) = false -> InvB p -> InvB (added p t).
Proof.
  intros C H [U [R [A D]]]. repeat split.
  - apply added_UniqueIds; assumption.
  - apply added_Reserved; assumption.
  - apply added_I1; assumption.
  - apply added_I5; assumption.
Qed.

Lemma InvB_add_transaction p t p' : add_transaction p t = Ok p' -> InvB p -> InvB p'.
Proof.
  intros H I. apply add_transaction_cases in H. destruct H as [->|[C [Hn ->]]]; [exact I|].
  apply InvB_added; assumption.
Qed.

Lemma InvB_add_if_valid l p t p' :
  add_transaction_if_validates l p t = Ok p' -> InvB p -> InvB p'.
Proof.
  intros H I. apply add_if_valid_cases in H. destruct H as [->|[_ [C [Hn ->]]]]; [exact I|].
  apply InvB_added; assumption.
Qed.

Lemma InvB_add_all l : forall p p', add_all p l = Ok p' -> InvB p -> InvB p'.
Proof.
  induction l as [|t l IH]; intros p p' H I; simpl in H.
  - inversion H. subst. exact I.
  - destruct (add_transaction p t) as [p1| |] eqn:A; simpl in H; try discriminate.
    eapply IH; [exact H|]. eapply InvB_add_transaction; eauto.
Qed.

Lemma InvB_gts_fresh p g u : InvB p -> InvB (mkP (txs p) (umap p) (work p) u g).
Proof. unfold InvB, UniqueIds, Reserved, I1, I5. simpl. tauto. Qed.

(* a pool whose transactions are a filtered part of a good pool's, with the index rebuilt
   and the cache recomputed *)
Lemma InvB_rebuilt p (f : tx -> bool) u g um :
  InvB p ->
  InvB (rebuild_utxo_map (mkP (filter f (txs p)) um (sum_work (filter f (txs p))) u g)).
Proof.
  intros [U [_ [A _]]]. unfold InvB, UniqueIds, Reserved, I1, I5, rebuild_utxo_map. simpl.
  repeat split.
  - apply NoDup_map_filter. exact U.
  - intros t k Ht Hk. apply fold_sadd_In. left. unfold block_keys. apply in_flat_map. eauto.
  - apply FOP_filter. exact A.
  - apply sum_work_spec.
Qed.

Lemma I3_rebuilt l um w u g : I3 (rebuild_utxo_map (mkP l um w u g)).
Proof.
  unfold I3, rebuild_utxo_map. simpl. intros k Hk. apply fold_sadd_In in Hk.
  destruct Hk as [Hk|[]]. unfold block_keys in Hk. apply in_flat_map in Hk. exact Hk.
Qed.

Lemma remove_block_shape l p b :
  remove_block_transactions l p b =
  rebuild_utxo_map (mkP (filter (fun t => still_valid l t && negb (in_block t b)) (txs p))
                        (umap p)
                        (sum_work (filter (fun t => still_valid l t && negb (in_block t b)) (txs p)))
                        (Mempool.fresh p)
                        (gts (fold_left delete_one b (set_txs p (filter (still_valid l) (txs p)))))).
Proof.
  unfold remove_block_transactions, delete_transactions.
  destruct (delete_fold_fields b (set_txs p (filter (still_valid l) (txs p)))) as [H1 [H2 [_ H4]]].
  unfold rebuild_utxo_map, set_work. cbn [txs umap work Mempool.fresh gts].
  rewrite H1, H4. cbn [txs set_txs Mempool.fresh]. rewrite filter_filter. reflexivity.
Qed.

Lemma InvB_remove l p b : InvB p -> InvB (remove_block_transactions l p b).
Proof. intros H. rewrite remove_block_shape. apply InvB_rebuilt. exact H. Qed.

Lemma I3_remove l p b : I3 (remove_block_transactions l p b).
Proof. rewrite remove_block_shape. apply I3_rebuilt. Qed.

Lemma InvB_failure l p h mine b p' :
  add_block_failure l p h mine b = Ok p' -> InvB p -> InvB p'.
Proof.
  unfold add_block_failure, add_block_transactions_back. intros H I.
  assert (InvB (delete_block p h)) as HD by (apply (InvB_gts_fresh p); exact I).
  destruct mine; [|inversion H; subst; exact HD].
  destruct (add_all (delete_block p h) (back_txs l b)) as [p1| |] eqn:A; simpl in H; try discriminate.
  inversion H. subst. apply (InvB_gts_fresh p1). eapply InvB_add_all; eauto.
Qed.

Lemma InvB_core l p env wn st ex p' r :
  bundle_core l p env wn st ex = Ok (p', r) -> InvB p -> InvB p'.
Proof.
  intros B HI. apply core_cases in B.
  destruct B as [[-> _]|[s0 [p1 [_ [_ [A [[_ [_ [-> _]]]|[_ [_ [-> _]]]]]]]]]]; auto.
  - unfold restored_pool, kept. apply InvB_rebuilt. eapply InvB_add_if_valid; eauto.
  - apply InvB_empty.
Qed.

Lemma InvB_step s o x : InvB (pl s) -> step s o = Ok x -> InvB (pl (fst x)).
Proof.
  intros HI HS. destruct o as [t|a b|ts bg env wn st ex|l n b|h mine b]; simpl in HS.
  - destruct (add_transaction_if_validates (ledger s) (pl s) t) eqn:A; simpl in HS; try discriminate.
    inversion HS. subst. simpl. eapply InvB_add_if_valid; eauto.
  - inversion HS. subst. simpl. unfold add_golden_ticket.
    destruct (existsb _ _); [exact HI|]. apply (InvB_gts_fresh (pl s)). exact HI.
  - destruct (bundle_block (ledger s) (pl s) ts bg env wn st ex) as [[p' r]| |] eqn:B; simpl in HS; try discriminate.
    inversion HS. subst. simpl. unfold bundle_block in B.
    destruct ts; simpl in B; [|inversion B; subst; exact HI].
    eapply InvB_core; [exact B|]. destruct bg; simpl; [apply (InvB_gts_fresh (pl s))|]; exact HI.
  - inversion HS. subst. simpl. apply InvB_remove. exact HI.
  - destruct (add_block_failure (ledger s) (pl s) h mine b) as [p'| |] eqn:F; simpl in HS; try discriminate.
    inversion HS. subst. simpl. eapply InvB_failure; eauto.
Qed.

Theorem base_invariants : forall g ops s,
  run (init g) ops = Ok s ->
  UniqueIds (pl s) /\ Reserved (pl s) /\ I1 (pl s) /\ I5 (pl s).
Proof.
  intros g ops s HR.
  apply (run_invariant (fun s => InvB (pl s))) with (ops := ops) (s := init g); auto.
  - intros. eapply InvB_step; eauto.
  - apply InvB_empty.
Qed.

(* I3: every step keeps it; every block addition establishes it from scratch *)
Lemma I3_gts_fresh p g u : I3 p -> I3 (mkP (txs p) (umap p) (work p) u g).
Proof. unfold I3. simpl. tauto. Qed.

Lemma I3_add_transaction p t p' : add_transaction p t = Ok p' -> I3 p -> I3 p'.
Proof.
  intros H I. apply add_transaction_cases in H. destruct H as [->|[_ [_ ->]]]; [exact I|].
  apply added_I3. exact I.
Qed.

Lemma I3_add_if_valid l p t p' : add_transaction_if_validates l p t = Ok p' -> I3 p -> I3 p'.
Proof.
  intros H I. apply add_if_valid_cases in H. destruct H as [->|[_ [_ [_ ->]]]]; [exact I|].
  apply added_I3. exact I.
Qed.

Lemma I3_add_all l : forall p p', add_all p l = Ok p' -> I3 p -> I3 p'.
Proof.
  induction l as [|t l IH]; intros p p' H I; simpl in H.
  - inversion H. subst. exact I.
  - destruct (add_transaction p t) as [p1| |] eqn:A; simpl in H; try discriminate.
    eapply IH; [exact H|]. eapply I3_add_transaction; eauto.
Qed.

Lemma I3_core l p env wn st ex p' r :
  bundle_core l p env wn st ex = Ok (p', r) -> I3 p -> I3 p'.
Proof.
  intros B HI. apply core_cases in B.
  destruct B as [[-> _]|[s0 [p1 [_ [_ [_ [[_ [_ [-> _]]]|[_ [_ [-> _]]]]]]]]]]; auto.
  - unfold restored_pool. apply I3_rebuilt.
  - intros k [].
Qed.

Lemma I3_step s o x : I3 (pl s) -> step s o = Ok x -> I3 (pl (fst x)).
Proof.
  intros HI HS. destruct o as [t|a b|ts bg env wn st ex|l n b|h mine b]; simpl in HS.
  - destruct (add_transaction_if_validates (ledger s) (pl s) t) eqn:A; simpl in HS; try discriminate.
    inversion HS. subst. simpl. eapply I3_add_if_valid; eauto.
  - inversion HS. subst. simpl. unfold add_golden_ticket.
    destruct (existsb _ _); [exact HI|]. apply (I3_gts_fresh (pl s)). exact HI.
  - destruct (bundle_block (ledger s) (pl s) ts bg env wn st ex) as [[p' r]| |] eqn:B; simpl in HS; try discriminate.
    inversion HS. subst. simpl. unfold bundle_block in B.
    destruct ts; simpl in B; [|inversion B; subst; exact HI].
    eapply I3_core; [exact B|].
    destruct bg; simpl; [apply (I3_gts_fresh (pl s))|]; exact HI.
  - inversion HS. subst. simpl. apply I3_remove.
  - destruct (add_block_failure (ledger s) (pl s) h mine b) as [p'| |] eqn:F; simpl in HS; try discriminate.
    inversion HS. subst. simpl. unfold add_block_failure, add_block_transactions_back in F.
    assert (I3 (delete_block (pl s) h)) as HD by (apply (I3_gts_fresh (pl s)); exact HI).
    destruct mine; [|inversion F; subst; exact HD].
    destruct (add_all (delete_block (pl s) h) (back_txs (ledger s) b)) as [p1| |] eqn:A; simpl in F; try discriminate.
    inversion F. subst. apply (I3_gts_fresh p1). eapply I3_add_all; eauto.
Qed.

Theorem no_stale_reservation : forall g ops s, run (init g) ops = Ok s -> I3 (pl s).
Proof.
  intros g ops s HR.
  apply (run_invariant (fun s => I3 (pl s))) with (ops := ops) (s := init g); auto.
  - intros. eapply I3_step; eauto.
  - intros k [].
Qed.

(* whatever happened before, a block addition re-establishes I3 (rebuild_utxo_map) *)
Theorem no_stale_reservation_after_block : forall s l n b x,
  step s (OBlockAdded l n b) = Ok x -> I3 (pl (fst x)).
Proof. intros s l n b x H. simpl in H. inversion H. subst. simpl. apply I3_remove. Qed.

(* ------------------------------------------------------------------ *)
(* I2: after remove_block_transactions every pooled transaction validates *)

Theorem pooled_valid_after_block : forall s l n b x,
  step s (OBlockAdded l n b) = Ok x ->
  ledger (fst x) = mkC l n (c_gp (ledger s)) /\ I2 (ledger (fst x)) (pl (fst x)).
Proof.
  intros s l n b x H. simpl in H. inversion H. subst. simpl. split; [reflexivity|].
  intros t Ht. destruct (remove_block_fields (mkC l n (c_gp (ledger s))) (pl s) b) as [E _].
  rewrite E in Ht.
  apply filter_In in Ht. destruct Ht as [_ Ht]. apply andb_true_iff in Ht. destruct Ht as [Ht _].
  unfold still_valid in Ht. apply andb_true_iff in Ht. tauto.
Qed.

(* ... and satisfies the age rule (rebroadcast and issuance transactions are exempt, as in
   validate()) *)
Theorem pooled_young_after_block : forall s l n b x,
  step s (OBlockAdded l n b) = Ok x ->
  forall t, In t (txs (pl (fst x))) -> t_type t <> TATR -> t_type t <> TIssuance ->
  age_ok (ledger (fst x)) t = true.
Proof.
  intros s l n b x H t Ht T1 T2. simpl in H. inversion H. subst. cbn [fst pl ledger] in *.
  destruct (remove_block_fields (mkC l n (c_gp (ledger s))) (pl s) b) as [E _].
  rewrite E in Ht.
  apply filter_In in Ht. destruct Ht as [_ Ht]. apply andb_true_iff in Ht. destruct Ht as [Ht _].
  unfold still_valid in Ht. apply andb_true_iff in Ht. destruct Ht as [_ Ht].
  destruct (t_type t); try congruence; exact Ht.
Qed.

(* ... and stays valid until the ledger changes again, as long as what arrives is of a
   type whose validate() consults the utxoset (Fee / SPV transactions are refused at intake
   anyway) *)
Definition consults_ledger (t : tx) : Prop :=
  match t_type t with
  | TFee | TSPV => vkeys t = []
  | _ => True
  end.

Lemma valid_no_vkeys l t : vkeys t = [] -> valid_against l t = true.
Proof.
  unfold valid_against, vkeys. intros H. destruct (t_type t); try reflexivity;
    apply forallb_forall; intros i Hi; unfold slip_valid;
    destruct (0 <? snd i) eqn:E; try reflexivity;
    (assert (In (fst i) (map fst (filter (fun i => 0 <? snd i) (t_inputs t))))
      by (apply in_map; apply filter_In; auto)); rewrite H in *; contradiction.
Qed.

Lemma tx_validate_valid l t :
  consults_ledger t -> tx_validate l t = true -> valid_against l t = true.
Proof.
  unfold consults_ledger, tx_validate. intros C H. apply andb_true_iff in H. destruct H as [_ H].
  destruct (t_type t) eqn:T; auto;
    try (apply andb_true_iff in H; tauto); apply valid_no_vkeys; exact C.
Qed.

Definition op_consults (o : op) : Prop :=
  match o with
  | OAddTx t => consults_ledger t
  | OBundle _ _ _ _ (Some st) _ => consults_ledger st
  | _ => True
  end.


Lemma add_all_In l : forall p p' t,
  add_all p l = Ok p' -> In t (txs p') -> In t (txs p) \/ In t l.
Proof.
  induction l as [|u l IH]; intros p p' t H Ht; simpl in H.
  - inversion H. subst. auto.
  - destruct (add_transaction p u) as [p1| |] eqn:A; simpl in H; try discriminate.
    destruct (IH p1 p' t H Ht) as [H1|H1]; [|right; right; exact H1].
    apply add_transaction_cases in A. destruct A as [->|[_ [_ ->]]]; [auto|].
    simpl in H1. destruct H1 as [<-|H1]; [right; left; reflexivity | auto].
Qed.

Lemma I2_core l p env wn st ex p' r :
  (forall s0, st = Some s0 -> consults_ledger s0) ->
  bundle_core l p env wn st ex = Ok (p', r) -> I2 l p -> I2 l p'.
Proof.
  intros HC B HI. apply core_cases in B.
  destruct B as [[-> _]|[s0 [p1 [E [_ [A [[_ [_ [-> _]]]|[_ [_ [-> _]]]]]]]]]]; auto.
  - assert (H1 : I2 l p1).
    { apply add_if_valid_cases in A. destruct A as [->|[V [_ [_ ->]]]]; [exact HI|].
      intros u [<-|Hu]; [apply tx_validate_valid; auto | apply HI; exact Hu]. }
    intros u Hu. unfold restored_pool, rebuild_utxo_map in Hu. simpl in Hu.
    apply H1. eapply kept_In; eauto.
  - intros u [].
Qed.

Lemma I2_step s o x :
  op_consults o -> I2 (ledger s) (pl s) -> step s o = Ok x -> I2 (ledger (fst x)) (pl (fst x)).
Proof.
  intros HC HI HS. destruct o as [t|a b|ts bg env wn st ex|l n b|h mine b].
  - simpl in HS.
    destruct (add_transaction_if_validates (ledger s) (pl s) t) eqn:A; simpl in HS; try discriminate.
    inversion HS. subst. simpl. apply add_if_valid_cases in A.
    destruct A as [->|[V [_ [_ ->]]]]; [exact HI|].
    intros u [<-|Hu]; [apply tx_validate_valid; assumption | apply HI; exact Hu].
  - simpl in HS. inversion HS. subst. simpl. unfold I2.
    destruct (add_gt_fields (pl s) a b) as [E _]. rewrite E. exact HI.
  - simpl in HS.
    destruct (bundle_block (ledger s) (pl s) ts bg env wn st ex) as [[p' r]| |] eqn:B; simpl in HS; try discriminate.
    inversion HS. subst. simpl. unfold bundle_block in B.
    destruct ts; simpl in B; [|inversion B; subst; exact HI].
    eapply I2_core; [|exact B|].
    + intros s0 E. subst. exact HC.
    + unfold I2. destruct (drop_bad_gt_fields (pl s) bg) as [E _]. rewrite E. exact HI.
  - apply pooled_valid_after_block in HS. tauto.
  - simpl in HS.
    destruct (add_block_failure (ledger s) (pl s) h mine b) as [p'| |] eqn:F; simpl in HS; try discriminate.
    inversion HS. subst. simpl. intros t Ht.
    unfold add_block_failure, add_block_transactions_back in F. destruct mine.
    + destruct (add_all (delete_block (pl s) h) (back_txs (ledger s) b)) as [p1| |] eqn:A; simpl in F; try discriminate.
      inversion F. subst. simpl in Ht.
      destruct (add_all_In _ _ _ t A Ht) as [H1|H1]; [apply HI; exact H1|].
      unfold back_txs in H1. apply filter_In in H1. destruct H1 as [_ H1].
      apply andb_true_iff in H1. destruct H1 as [Hn Hv].
      apply tx_validate_valid; [|exact Hv].
      unfold consults_ledger. unfold is_normal in Hn. destruct (t_type t); try discriminate. exact I.
    + inversion F. subst. apply HI. exact Ht.
Qed.

Theorem pooled_valid_always : forall g ops s,
  Forall op_consults ops -> run (init g) ops = Ok s -> I2 (ledger s) (pl s).
Proof.
  intros g ops. generalize (init g) (fun t (H : In t (txs (pl (init g)))) => match H with end : valid_against (ledger (init g)) t = true).
  induction ops as [|o r IH]; intros s0 H0 s HF HR.
  - simpl in HR. inversion HR. subst. exact H0.
  - inversion HF; subst. apply run_cons in HR. destruct HR as [x [Hs Hr]].
    eapply IH; [|eassumption|exact Hr]. eapply I2_step; eauto.
Qed.

(* ------------------------------------------------------------------ *)
(* I3, user-visible form                                               *)

(* user-visible form: an output that no pooled transaction names as an input can be
   spent by a fresh valid transaction *)
Theorem fresh_spend_pooled : forall l p t,
  I3 p ->
  tx_validate l t = true -> t_type t <> TGoldenTicket -> producer_only t = false ->
  late_issuance l t = false -> foreign_stake t = false ->
  has_tx (t_id t) (txs p) = false ->
  (forall k u, In k (vkeys t) -> In u (txs p) -> ~ In k (in_keys u)) ->
  exists p', add_transaction_if_validates l p t = Ok p' /\ In t (txs p').
Proof.
  intros l p t H3 V T PO LI FS Hn Hfree.
  unfold add_transaction_if_validates. rewrite PO, LI, FS, V. unfold add_transaction.
  assert (conflicts p t = false) as C.
  { unfold conflicts. apply existsb_false. intros k Hk. apply mem_false. intros Hin.
    destruct (H3 k Hin) as [u [Hu Hku]]. eapply Hfree; eauto. }
  rewrite C, Hn. exists (added p t).
  destruct (t_type t); try congruence; split; try reflexivity; simpl; auto.
Qed.


(* ... hence after every operation sequence *)
Theorem unspent_always_spendable : forall g ops s t,
  run (init g) ops = Ok s ->
  tx_validate (ledger s) t = true -> t_type t <> TGoldenTicket -> producer_only t = false ->
  late_issuance (ledger s) t = false -> foreign_stake t = false ->
  has_tx (t_id t) (txs (pl s)) = false ->
  (forall k u, In k (vkeys t) -> In u (txs (pl s)) -> ~ In k (in_keys u)) ->
  exists p', add_transaction_if_validates (ledger s) (pl s) t = Ok p' /\ In t (txs p').
Proof.
  intros g ops s t HR. apply fresh_spend_pooled. eapply no_stale_reservation; eauto.
Qed.

(* the recomputation in delete_transactions makes the cache exact, whatever it was *)
Theorem routing_work_exact_after_block : forall s l n b x,
  step s (OBlockAdded l n b) = Ok x -> I5 (pl (fst x)).
Proof.
  intros s l n b x H. simpl in H. inversion H. subst. simpl. unfold I5.
  destruct (remove_block_fields (mkC l n (c_gp (ledger s))) (pl s) b) as [_ [_ E3]]. rewrite E3. apply sum_work_spec.
Qed.

(* ------------------------------------------------------------------ *)
(* I4: bundling                                                        *)

(* Every bundle, in any pool state, outside the class of a failing Block::create.
   p0 = the pool without a golden ticket that does not solve the tip.
   None: nothing but that ticket changed.
   Some b: b has no double spend; the pool is emptied and the cache reset; every pooled
   transaction is in b, except those that spend an output which b itself rebroadcasts
   (Block::create leaves them out: they can never validate again once b is on the chain);
   no reservation is left. *)
Theorem bundle_atomic : forall l p ts bg env wn st ex p' r,
  bundle_block l p ts bg env wn st ex = Ok (p', r) ->
  create_fails l (drop_bad_gt p bg) env wn st ex = false ->
  match r with
  | None => p' = p \/ (ts = true /\ p' = drop_bad_gt p bg)
  | Some b => ts = true /\ txs p' = [] /\ work p' = 0 /\ dup_spend b = false /\
              (forall t, In t (txs p) ->
                 In t b \/ (exists k, In k (vkeys t) /\ In k (rebroadcast_keys ex))) /\
              umap p' = [] /\
              gts p' = gts (drop_bad_gt p bg)
  end.
Proof.
  intros l p ts bg env wn st ex p' r B F. unfold bundle_block in B.
  destruct ts; simpl in B; [|inversion B; subst; auto].
  apply core_cases in B.
  destruct B as [[-> [-> _]]|[s0 [p1 [_ [_ [A [[_ [F' _]]|[D [_ [-> ->]]]]]]]]]]; [auto|congruence|].
  apply add_if_valid_cases in A.
  destruct (drop_bad_gt_fields p bg) as [Et _].
  assert (Hsub : forall t, In t (txs p) -> In t (txs p1))
    by (rewrite <- Et; destruct A as [->|[_ [_ [_ ->]]]]; simpl; auto).
  assert (Hg : gts p1 = gts (drop_bad_gt p bg)) by (destruct A as [->|[_ [_ [_ ->]]]]; reflexivity).
  simpl. repeat split; auto.
  - intros t Ht. apply Hsub in Ht.
    destruct (left_out (rebroadcast_keys ex) t) eqn:L.
    + right. unfold left_out in L. destruct (t_type t); try discriminate;
        apply existsb_exists in L; destruct L as [k [Hk Hm]]; apply mem_In in Hm; eauto.
    + left. apply in_app_iff. left. unfold kept. apply filter_In. rewrite L. auto.
Qed.

(* a transaction that Block::create leaves out does not validate against any ledger from
   which the block's rebroadcast inputs are gone *)
Theorem left_out_is_doomed : forall rk t ledger',
  left_out rk t = true -> t_type t <> TFee ->
  (forall k, In k rk -> ~ In k (c_keys ledger')) -> valid_against ledger' t = false.
Proof.
  intros rk t l' L T Hgone. unfold left_out in L.
  assert (exists k, In k (vkeys t) /\ In k rk) as [k [Hk Hr]].
  { destruct (t_type t); try discriminate;
      apply existsb_exists in L; destruct L as [k [Hk Hm]]; apply mem_In in Hm; eauto. }
  unfold vkeys in Hk. apply in_map_iff in Hk. destruct Hk as [i [E Hi]]. apply filter_In in Hi.
  destruct Hi as [Hi Hpos].
  assert (forallb (slip_valid l') (t_inputs t) = false) as HF.
  { destruct (forallb (slip_valid l') (t_inputs t)) eqn:FB; [|reflexivity].
    rewrite forallb_forall in FB. specialize (FB i Hi). unfold slip_valid in FB.
    rewrite Hpos in FB. apply mem_In in FB. subst. exfalso. eapply Hgone; eauto. }
  unfold valid_against. destruct (t_type t); try exact HF. congruence.
Qed.

(* when Block::create does fail, the transactions it kept come back: the pool holds exactly
   those, with a rebuilt index and a recomputed cache; only the left-out ones are gone *)
Theorem failed_create_restores_pool : forall l p ts bg env wn st ex p' r,
  bundle_block l p ts bg env wn st ex = Ok (p', r) ->
  ts = true -> create_fails l (drop_bad_gt p bg) env wn st ex = true ->
  r = None /\ I3 p' /\ work p' = sum_work (txs p') /\
  (forall t, In t (txs p) -> In t (txs p') \/ left_out (rebroadcast_keys ex) t = true).
Proof.
  intros l p ts bg env wn st ex p' r B -> F. unfold bundle_block in B. simpl in B.
  apply core_cases in B.
  destruct B as [[_ [_ F']]|[s0 [p1 [_ [_ [A [[_ [_ [-> ->]]]|[_ [F' _]]]]]]]]]; try congruence.
  split; [reflexivity|]. split; [apply I3_rebuilt|]. split; [reflexivity|].
  intros t Ht. destruct (drop_bad_gt_fields p bg) as [Et _]. rewrite <- Et in Ht.
  assert (In t (txs p1)) as H1
    by (apply add_if_valid_cases in A; destruct A as [->|[_ [_ [_ ->]]]]; simpl; auto).
  destruct (left_out (rebroadcast_keys ex) t) eqn:L; [auto|]. left.
  unfold restored_pool, rebuild_utxo_map, kept. simpl. apply filter_In. rewrite L. auto.
Qed.

Lemma NoDup_app' (a b : list N) : NoDup a -> NoDup b -> Disjoint a b -> NoDup (a ++ b).
Proof.
  induction a as [|x a IH]; simpl; intros Ha Hb D; [exact Hb|].
  inversion Ha as [|x' a' Hx Ha']; subst. constructor.
  - intros Hin. apply in_app_iff in Hin. destruct Hin as [Hin|Hin]; [contradiction|].
    apply (D x); simpl; auto.
  - apply IH; auto. intros k G1 G2. apply (D k); simpl; auto.
Qed.

Definition spent_of (t : tx) : list N := match t_type t with TFee => [] | _ => vkeys t end.

Lemma spent_of_vkeys t k : In k (spent_of t) -> In k (vkeys t).
Proof. unfold spent_of. destruct (t_type t); auto; intros []. Qed.

Lemma spent_keys_In l k : In k (spent_keys l) -> exists t, In t l /\ In k (vkeys t).
Proof.
  unfold spent_keys. intros H. apply in_flat_map in H. destruct H as [t [Ht Hk]].
  exists t. split; [exact Ht|]. apply spent_of_vkeys. exact Hk.
Qed.

Lemma spent_NoDup l :
  ForallOrdPairs (fun a b => Disjoint (vkeys a) (vkeys b)) l ->
  (forall t, In t l -> NoDup (vkeys t)) -> NoDup (spent_keys l).
Proof.
  induction 1 as [|a l Ha Hl IH]; intros Hn; [constructor|].
  change (spent_keys (a :: l)) with (spent_of a ++ spent_keys l).
  apply NoDup_app'.
  - unfold spent_of. destruct (t_type a); try constructor; apply Hn; left; reflexivity.
  - apply IH. intros t Ht. apply Hn. right. exact Ht.
  - intros k G1 G2. apply spent_of_vkeys in G1. apply spent_keys_In in G2.
    destruct G2 as [u [Hu Hku]]. rewrite Forall_forall in Ha. apply (Ha u Hu k); assumption.
Qed.

(* Block::create cannot fail after the drain when the pool has no double spend (I1, which
   holds on every run without a re-insertion), no pooled transaction names an input twice,
   and what Block::create adds itself does not clash *)
(* Block::create cannot fail when no pooled transaction (nor the staking transaction) names
   an input twice -- Transaction::validate rejects those since 0fedb86 --, its rebroadcasts
   name each output once, and what else it adds (golden ticket: no value input; fee
   transaction: not counted) spends nothing that the pool spends.  A clash between a pooled
   transaction and a rebroadcast no longer matters: the transaction is left out.  Reserved and
   I1 hold on every reachable pool (base_invariants); a reachable pool holds no
   GoldenTicket-typed transaction (add_transaction panics on them). *)
Theorem create_succeeds : forall l p env wn st ex,
  Reserved p -> I1 p ->
  (forall t, In t (txs p) -> NoDup (vkeys t) /\ t_type t <> TGoldenTicket) ->
  (forall s, st = Some s -> NoDup (vkeys s) /\ t_type s <> TGoldenTicket) ->
  NoDup (spent_keys ex) ->
  (forall k, In k (spent_keys ex) -> ~ In k (rebroadcast_keys ex) ->
     (forall t, In t (txs p) -> ~ In k (vkeys t)) /\ (forall s, st = Some s -> ~ In k (vkeys s))) ->
  create_fails l p env wn st ex = false.
Proof.
  intros l p env wn st ex R H1 Hn Hs He Hd. unfold create_fails.
  destruct (can_bundle_block p env wn); [|reflexivity]. simpl.
  destruct st as [s|]; [|reflexivity].
  destruct (add_transaction_if_validates l p s) as [p1| |] eqn:A; try reflexivity.
  apply add_if_valid_cases in A. unfold dup_spend. apply has_dup_NoDup.
  assert (Hp1 : forall t, In t (txs p1) -> In t (txs p) \/ t = s)
    by (destruct A as [->|[_ [_ [_ ->]]]]; simpl; intros t Ht; [auto | destruct Ht; auto]).
  assert (I1p1 : I1 p1)
    by (destruct A as [->|[_ [C [_ ->]]]]; [exact H1 | apply added_I1; assumption]).
  assert (Hwf : forall t, In t (txs p1) -> NoDup (vkeys t) /\ t_type t <> TGoldenTicket).
  { intros t Ht. destruct (Hp1 t Ht) as [H|E]; [apply Hn; exact H | subst t; apply Hs; reflexivity]. }
  unfold spent_keys. rewrite flat_map_app. apply NoDup_app'.
  - apply spent_NoDup.
    + unfold kept. apply FOP_filter. exact I1p1.
    + intros t Ht. apply kept_In in Ht. apply Hwf. exact Ht.
  - exact He.
  - intros k Hk1 Hk2. apply spent_keys_In in Hk1. destruct Hk1 as [t [Ht Hkt]].
    unfold kept in Ht. apply filter_In in Ht. destruct Ht as [Ht HL]. apply negb_true_iff in HL.
    destruct (in_dec N.eq_dec k (rebroadcast_keys ex)) as [Hr|Hr].
    + assert (left_out (rebroadcast_keys ex) t = true); [|congruence].
      unfold left_out. destruct (Hwf t Ht) as [_ Hgt].
      assert (existsb (fun k0 => mem k0 (rebroadcast_keys ex)) (vkeys t) = true)
        by (apply existsb_exists; exists k; split; [exact Hkt | apply mem_In; exact Hr]).
      destruct (t_type t); congruence.
    + destruct (Hd k Hk2 Hr) as [Hd1 Hd2].
      destruct (Hp1 t Ht) as [H|E]; [eapply Hd1; eauto | subst t; eapply Hd2; eauto].
Qed.

(* ------------------------------------------------------------------ *)
(* no panic, no error                                                  *)

Definition op_no_gt (o : op) : Prop :=
  match o with
  | OAddTx t => t_type t <> TGoldenTicket
  | OBundle _ _ _ _ (Some st) _ => t_type st <> TGoldenTicket
  | _ => True
  end.

Lemma add_if_valid_total l p t :
  t_type t <> TGoldenTicket -> exists p', add_transaction_if_validates l p t = Ok p'.
Proof.
  intros T. unfold add_transaction_if_validates, add_transaction.
  destruct (producer_only t); [eauto|].
  destruct (late_issuance l t); [eauto|].
  destruct (foreign_stake t); [eauto|].
  destruct (tx_validate l t); [|eauto].
  destruct (conflicts p t); [eauto|]. destruct (has_tx (t_id t) (txs p)); [eauto|].
  destruct (t_type t); try congruence; eauto.
Qed.

Lemma add_all_total l : forall p,
  (forall t, In t l -> is_normal t = true) -> exists p', add_all p l = Ok p'.
Proof.
  induction l as [|t l IH]; intros p H; simpl; [eauto|].
  assert (exists p1, add_transaction p t = Ok p1) as [p1 ->].
  { unfold add_transaction. destruct (conflicts p t); [eauto|].
    destruct (has_tx (t_id t) (txs p)); [eauto|].
    assert (is_normal t = true) as Hn by (apply H; left; reflexivity).
    unfold is_normal in Hn. destruct (t_type t); try discriminate; eauto. }
  simpl. apply IH. intros u Hu. apply H. right. exact Hu.
Qed.

Lemma step_total s o : op_no_gt o -> exists x, step s o = Ok x.
Proof.
  intros H. destruct o as [t|a b|ts bg env wn st ex|l n b|h mine b]; simpl in *; eauto.
  - destruct (add_if_valid_total (ledger s) (pl s) t H) as [p' ->]. simpl. eauto.
  - unfold bundle_block, bundle_core. destruct ts; simpl; [|eauto].
    destruct (negb (can_bundle_block (drop_bad_gt (pl s) bg) env wn)); simpl; [eauto|].
    destruct st as [st|]; simpl; [|eauto].
    destruct (add_if_valid_total (ledger s) (drop_bad_gt (pl s) bg) st H) as [p' ->]. simpl.
    destruct (dup_spend (kept ex (txs p') ++ ex)); simpl; eauto.
  - unfold add_block_failure, add_block_transactions_back. destruct mine; simpl; [|eauto].
    destruct (add_all_total (back_txs (ledger s) b) (delete_block (pl s) h)) as [p' ->].
    + intros t Ht. unfold back_txs in Ht. apply filter_In in Ht. destruct Ht as [_ Ht].
      apply andb_true_iff in Ht. tauto.
    + simpl. eauto.
Qed.

Theorem no_panic : forall ops s, Forall op_no_gt ops -> exists s', run s ops = Ok s'.
Proof.
  induction ops as [|o r IH]; intros s HF; simpl; [eauto|].
  inversion HF as [|o' r' Ho Hr]; subst. destruct (step_total s o Ho) as [x ->]. simpl. apply IH. assumption.
Qed.

(* the only panic site of the pool is a GoldenTicket-typed transaction reaching add_transaction *)
Theorem panic_only_gt : forall l p t site,
  add_transaction_if_validates l p t = Panic site ->
  t_type t = TGoldenTicket /\ site = SITE_GT_IN_TXPOOL.
Proof.
  intros l p t site. unfold add_transaction_if_validates, add_transaction.
  destruct (producer_only t); [discriminate|].
  destruct (late_issuance l t); [discriminate|].
  destruct (foreign_stake t); [discriminate|].
  destruct (tx_validate l t); [|discriminate].
  destruct (conflicts p t); [discriminate|]. destruct (has_tx (t_id t) (txs p)); [discriminate|].
  destruct (t_type t); try discriminate. intros H. inversion H. auto.
Qed.


(* ------------------------------------------------------------------ *)
(* the age rule of bb88717                                             *)

(* the types whose validate() reaches the age rule *)
Definition age_ruled (t : tx) : bool :=
  match t_type t with TNormal | TGoldenTicket | TBlockStake | TOther => true | _ => false end.

Definition AgeInv (s : state) : Prop :=
  forall t, In t (txs (pl s)) -> age_ruled t = true -> age_ok (ledger s) t = true.

Lemma tx_validate_age c t : tx_validate c t = true -> age_ruled t = true -> age_ok c t = true.
Proof.
  unfold tx_validate, age_ruled. intros H R. apply andb_true_iff in H. destruct H as [_ H].
  destruct (t_type t); try discriminate; apply andb_true_iff in H; tauto.
Qed.

Lemma add_if_valid_In c p t p' u :
  add_transaction_if_validates c p t = Ok p' -> In u (txs p') ->
  In u (txs p) \/ (u = t /\ tx_validate c t = true).
Proof.
  intros H Hu. apply add_if_valid_cases in H. destruct H as [->|[V [_ [_ ->]]]]; [auto|].
  simpl in Hu. destruct Hu as [<-|Hu]; auto.
Qed.

Lemma AgeInv_core c p env wn st ex p' r :
  bundle_core c p env wn st ex = Ok (p', r) ->
  (forall t, In t (txs p) -> age_ruled t = true -> age_ok c t = true) ->
  (forall t, In t (txs p') -> age_ruled t = true -> age_ok c t = true).
Proof.
  intros B HI. apply core_cases in B.
  destruct B as [[-> _]|[s0 [p1 [_ [_ [A [[_ [_ [-> _]]]|[_ [_ [-> _]]]]]]]]]].
  - exact HI.
  - intros t Ht R. unfold restored_pool, rebuild_utxo_map in Ht. simpl in Ht. apply kept_In in Ht.
    destruct (add_if_valid_In _ _ _ _ _ A Ht) as [H|[-> V]]; [auto | apply tx_validate_age; auto].
  - intros t Ht. simpl in Ht. contradiction.
Qed.

Lemma AgeInv_step s o x : AgeInv s -> step s o = Ok x -> AgeInv (fst x).
Proof.
  unfold AgeInv. intros HI HS. destruct o as [t|a b|ts bg env wn st ex|l n b|h mine b]; simpl in HS.
  - destruct (add_transaction_if_validates (ledger s) (pl s) t) eqn:A; simpl in HS; try discriminate.
    inversion HS. subst. simpl. intros u Hu R.
    destruct (add_if_valid_In _ _ _ _ _ A Hu) as [H|[-> V]]; [auto | apply tx_validate_age; auto].
  - inversion HS. subst. simpl. destruct (add_gt_fields (pl s) a b) as [E _]. rewrite E. exact HI.
  - destruct (bundle_block (ledger s) (pl s) ts bg env wn st ex) as [[p' r]| |] eqn:B; simpl in HS; try discriminate.
    inversion HS. subst. simpl. unfold bundle_block in B.
    destruct ts; simpl in B; [|inversion B; subst; exact HI].
    eapply AgeInv_core; [exact B|]. destruct (drop_bad_gt_fields (pl s) bg) as [E _]. rewrite E. exact HI.
  - intros t Ht R. eapply pooled_young_after_block; eauto;
      unfold age_ruled in R; destruct (t_type t); discriminate.
  - destruct (add_block_failure (ledger s) (pl s) h mine b) as [p'| |] eqn:F; simpl in HS; try discriminate.
    inversion HS. subst. simpl. intros t Ht R.
    unfold add_block_failure, add_block_transactions_back in F. destruct mine.
    + destruct (add_all (delete_block (pl s) h) (back_txs (ledger s) b)) as [p1| |] eqn:A; simpl in F; try discriminate.
      inversion F. subst. simpl in Ht.
      destruct (add_all_In _ _ _ t A Ht) as [H1|H1]; [apply HI; assumption|].
      unfold back_txs in H1. apply filter_In in H1. destruct H1 as [_ H1].
      apply andb_true_iff in H1. destruct H1 as [_ Hv]. apply tx_validate_age; assumption.
    + inversion F. subst. apply HI; assumption.
Qed.

(* no pooled transaction (of a type that validate() subjects to the age rule) has an input
   older than latest + 1 - genesis_period, after every operation sequence *)
Theorem pool_age_invariant : forall g ops s, run (init g) ops = Ok s -> AgeInv s.
Proof.
  intros g ops s HR.
  apply (run_invariant AgeInv) with (ops := ops) (s := init g); auto.
  - intros. eapply AgeInv_step; eauto.
  - intros t [].
Qed.

(* at intake the rule is applied *)
Theorem age_checked_at_intake : forall c p t p',
  add_transaction_if_validates c p t = Ok p' -> In t (txs p') -> ~ In t (txs p) ->
  age_ruled t = true -> age_ok c t = true.
Proof.
  intros c p t p' A Ht Hn R. destruct (add_if_valid_In _ _ _ _ _ A Ht) as [H|[_ V]]; [contradiction|].
  apply tx_validate_age; assumption.
Qed.

(* Consequence for Block::create's leaving-out.  [born k] = id of the block that created
   output k.  The block after [latest] rebroadcasts outputs of block latest - gp only; a
   pooled transaction whose value inputs all satisfy the age rule spends none of them, so
   nothing is left out. *)
Theorem no_leave_out_when_young : forall (born : N -> N) c ex l,
  (forall k, In k (rebroadcast_keys ex) -> born k + c_gp c < c_latest c + 1) ->
  (forall t, In t l -> t_type t <> TGoldenTicket ->
     forall k, In k (vkeys t) -> exists e, t_oldest t = Some e /\ e <= born k) ->
  (forall t, In t l -> t_type t <> TGoldenTicket -> age_ok c t = true) ->
  kept ex l = l.
Proof.
  intros born c ex l Hrk Hold Hage. unfold kept. apply filter_all. intros t Ht.
  apply negb_true_iff. unfold left_out.
  destruct (t_type t) eqn:T; try reflexivity;
    (apply existsb_false; intros k Hk; apply mem_false; intros Hr;
     assert (Tn : t_type t <> TGoldenTicket) by (rewrite T; discriminate);
     destruct (Hold t Ht Tn k Hk) as [e [Eo Hle]];
     specialize (Hage t Ht Tn); unfold age_ok in Hage; rewrite Eo in Hage;
     specialize (Hrk k Hr); lia).
Qed.

(* ... hence from the mempool path the leaving-out set of Block::create is empty: on every
   reachable pool, for the block that follows the tip *)
Theorem no_leave_out_from_pool : forall (born : N -> N) g ops s ex,
  run (init g) ops = Ok s ->
  (forall k, In k (rebroadcast_keys ex) -> born k + c_gp (ledger s) < c_latest (ledger s) + 1) ->
  (forall t, In t (txs (pl s)) -> t_type t <> TGoldenTicket ->
     age_ruled t = true /\ forall k, In k (vkeys t) -> exists e, t_oldest t = Some e /\ e <= born k) ->
  kept ex (txs (pl s)) = txs (pl s).
Proof.
  intros born g ops s ex HR Hrk Hwf.
  apply (no_leave_out_when_young born (ledger s)); auto.
  - intros t Ht T. apply (Hwf t Ht T).
  - intros t Ht T. apply (pool_age_invariant g ops s HR t Ht). apply (Hwf t Ht T).
Qed.

(* ... and I4 without exception: a bundle on a reachable pool whose Block::create does not
   fail yields a block that contains every pooled transaction *)
Theorem bundle_atomic_reachable : forall (born : N -> N) g ops s ts bg env wn st ex p' b,
  run (init g) ops = Ok s ->
  bundle_block (ledger s) (pl s) ts bg env wn st ex = Ok (p', Some b) ->
  (forall k, In k (rebroadcast_keys ex) -> born k + c_gp (ledger s) < c_latest (ledger s) + 1) ->
  (forall t, In t (txs (pl s)) -> t_type t <> TGoldenTicket ->
     age_ruled t = true /\ forall k, In k (vkeys t) -> exists e, t_oldest t = Some e /\ e <= born k) ->
  txs p' = [] /\ umap p' = [] /\ work p' = 0 /\ dup_spend b = false /\
  forall t, In t (txs (pl s)) -> In t b.
Proof.
  intros born g ops s ts bg env wn st ex p' b HR B Hrk Hwf.
  pose proof (no_leave_out_from_pool born g ops s ex HR Hrk Hwf) as HK.
  unfold bundle_block in B. destruct ts; simpl in B; [|discriminate].
  apply core_cases in B.
  destruct B as [[_ [E _]]|[s0 [p1 [_ [_ [A [[_ [_ [_ E]]]|[D [_ [-> E]]]]]]]]]]; try discriminate.
  inversion E. subst b. simpl. repeat split; auto.
  intros t Ht. apply in_app_iff. left.
  assert (In t (kept ex (txs (pl s)))) as Hk by (rewrite HK; exact Ht).
  unfold kept in *. apply filter_In in Hk. apply filter_In. split; [|tauto].
  destruct (drop_bad_gt_fields (pl s) bg) as [Et _].
  apply add_if_valid_cases in A. destruct A as [->|[_ [_ [_ ->]]]]; simpl; rewrite Et; tauto.
Qed.

(* ------------------------------------------------------------------ *)
(* witnesses                                                           *)

Definition wA  : tx := mkTx 10 [(1, 100)] 50 TNormal true 0 (Some 1) true.
Definition wA2 : tx := mkTx 10 [(1, 100); (2, 100)] 50 TNormal true 0 (Some 1) true.
Definition wB  : tx := mkTx 11 [(1, 100)] 30 TNormal true 0 (Some 1) true.   (* spends what wA spends *)
Definition wC  : tx := mkTx 13 [(2, 100)] 20 TNormal true 0 (Some 1) true.
Definition wE  : tx := mkTx 15 [(3, 100)] 40 TNormal true 0 (Some 1) true.
Definition wS  : tx := mkTx 90 [] 0 TBlockStake true 0 None true.            (* staking transaction, stake 0 *)
Definition wR  : tx := mkTx 30 [(1, 100)] 0 TATR true 0 (Some 1) true.       (* rebroadcast of output 1 *)
Definition wT  : tx := mkTx 21 [(0, 0)] 0 TGoldenTicket true 7 None true.
(* genesis: outputs 1..3 of block 1, long window *)
Definition wG  : chain := mkC [1; 2; 3] 1 100.
(* window of 5 blocks, tip 5: outputs of block 1 can be spent in block 6, not later *)
Definition wG5 : chain := mkC [1; 2; 3] 5 5.

(* regression (aged-tx-stays-pooled): wA2 (inputs 1 and 2 of block 1) and wE are pooled at
   tip 5; a peer block makes the tip 6 without touching their inputs: before the age rule was
   applied to the revalidation both stayed pooled although validate() refused them; now the
   retain drops them, with their reservations and their routing work *)
Definition ops_aged : list op := [OAddTx wA2; OAddTx wE; OBlockAdded [1; 2; 3; 9] 6 []].

Lemma aged_regression_example :
  exists s, run (init wG5) ops_aged = Ok s /\
    txs (pl s) = [] /\ umap (pl s) = [] /\ work (pl s) = 0 /\
    tx_validate (ledger s) wE = false.
Proof. eexists. split; [vm_compute; reflexivity|]. repeat split; vm_compute; reflexivity. Qed.

(* window edge, both transactions pooled in time: wA2 spends output 1, which the block
   rebroadcasts, and output 2; wE is unrelated.  The block holds wE (and the additions), the
   pool is empty, wA2 is in neither, and (since ffb4da9) no reservation is left *)
Lemma left_out_example :
  exists s p' b, run (init wG) [OAddTx wA2; OAddTx wE] = Ok s /\
    bundle_block (ledger s) (pl s) true None true 0 (Some wS) [wR] = Ok (p', Some b) /\
    map t_id b = [90; 15; 30] /\ txs p' = [] /\ umap p' = [].
Proof. eexists. eexists. eexists. split; [vm_compute; reflexivity|]. repeat split; vm_compute; reflexivity. Qed.

(* a failing Block::create (model level: two rebroadcasts of the same output) hands the
   pool back; what changed is the staking transaction that bundle_block had added *)
Lemma failed_create_witness :
  exists g ops s ex p',
    run (init g) ops = Ok s /\
    bundle_block (ledger s) (pl s) true None true 0 (Some wS) ex = Ok (p', None) /\
    ev_failed_create s (OBundle true None true 0 (Some wS) ex) = true /\
    map t_id (txs p') = [90; 15; 10] /\ p' <> pl s.
Proof.
  exists wG, [OAddTx wA; OAddTx wE]. eexists.
  exists [mkTx 31 [(7, 5)] 0 TATR true 0 (Some 1) true; mkTx 32 [(7, 5)] 0 TATR true 0 (Some 1) true]. eexists.
  split; [vm_compute; reflexivity|]. repeat split; try (vm_compute; reflexivity).
  intros H. inversion H.
Qed.

(* a GoldenTicket-typed transaction handed to add_transaction_if_validates panics *)
Lemma panic_reachable :
  exists g t, step (init g) (OAddTx t) = Panic SITE_GT_IN_TXPOOL.
Proof. exists wG, (mkTx 20 [(0, 0)] 0 TGoldenTicket true 5 None true). reflexivity. Qed.

(* the histories that broke the pool before the fixes 2cf0b5a / cafb4ab / ff837ac / 1214e31:
   (a) own bundled block fails, its transaction comes back, a conflicting one arrives;
   (b) a peer block spends one of two inputs of a pooled transaction;
   (c) a block off the longest chain contains a pooled transaction;
   each followed by a fresh spend of the output that used to stay locked;
   (d) a pooled transaction spends an output that the bundled block rebroadcasts: the
       unrelated transaction is bundled instead of being lost with the whole pool *)
Definition ops_readd : list op :=
  [OAddTx wA; OBundle true None true 0 (Some wS) []; OBlockFailed 77 true [wA; wS]; OAddTx wB].
Definition ops_invalidated : list op :=
  [OAddTx wA2; OBlockAdded [2; 3; 4] 2 [mkTx 12 [(1, 100)] 0 TNormal true 0 (Some 1) true]; OAddTx wC].
Definition ops_confirmed_offchain : list op :=
  [OAddTx wA; OBlockAdded [1; 2; 3] 1 [wA]; OAddTx wB].

Lemma regression_examples :
  (exists s, run (init wG) ops_readd = Ok s /\
             map t_id (txs (pl s)) = [10] /\ umap (pl s) = [1] /\ work (pl s) = 50) /\
  (exists s, run (init wG) ops_invalidated = Ok s /\
             map t_id (txs (pl s)) = [13] /\ umap (pl s) = [2]) /\
  (exists s, run (init wG) ops_confirmed_offchain = Ok s /\
             map t_id (txs (pl s)) = [11] /\ umap (pl s) = [1]) /\
  (exists s p' b, run (init wG) [OAddTx wA; OAddTx wE] = Ok s /\
             bundle_block (ledger s) (pl s) true None true 0 (Some wS) [wR] = Ok (p', Some b) /\
             map t_id b = [90; 15; 30] /\ umap p' = []).
Proof.
  repeat split; repeat eexists; try (vm_compute; reflexivity).
Qed.

(* non-vacuity: arrivals of which one conflicts, a duplicate, a golden ticket that does not
   solve the tip (dropped by the bundle), a bundle declined for its timestamp, a successful
   bundle, the bundled block added, a new arrival, a peer block that invalidates nothing,
   a failed peer block, a failed own block that returns a transaction *)
Definition wF : tx := mkTx 18 [(4, 100)] 7 TNormal true 0 (Some 2) true.
Definition ops_life : list op :=
  [OAddTx wA2; OAddTx wB; OAddTx wA2; OAddGT 7 21;
   OBundle false None true 0 (Some wS) [];
   OBundle true (Some 7) true 0 (Some wS) [];
   OBlockAdded [3; 4; 5] 2 [wA2; wS];
   OAddTx wE;
   OBlockAdded [3; 4; 5; 6] 3 [mkTx 16 [(9, 5)] 0 TNormal true 0 (Some 1) true];
   OBlockFailed 78 false [wE];
   OBlockFailed 79 true [wF; wE]].

Lemma life_example :
  exists s, run (init wG) ops_life = Ok s /\
            known_in ev_failed_create (init wG) ops_life = false /\
            map t_id (txs (pl s)) = [18; 15] /\ umap (pl s) = [4; 3] /\ work (pl s) = 47 /\
            gts (pl s) = [].
Proof. eexists. split; [vm_compute; reflexivity|]. repeat split; vm_compute; reflexivity. Qed.

(* projections of base_invariants, stated separately in props/C14.v *)
Theorem no_double_spend_in_pool : forall g ops s, run (init g) ops = Ok s -> I1 (pl s).
Proof. intros g ops s H. apply (base_invariants g ops s H). Qed.
Theorem routing_work_cache : forall g ops s, run (init g) ops = Ok s -> I5 (pl s).
Proof. intros g ops s H. apply (base_invariants g ops s H). Qed.

(* 9879695: a staking transaction with an input of another key is never pooled *)
Theorem foreign_stake_refused : forall c p t,
  t_type t = TBlockStake -> t_own t = false -> add_transaction_if_validates c p t = Ok p.
Proof.
  intros c p t T O. unfold add_transaction_if_validates, producer_only, late_issuance, foreign_stake.
  rewrite T, O. reflexivity.
Qed.

(* 716c212: an issuance transaction is never pooled on a running chain *)
Theorem late_issuance_refused : forall c p t,
  t_type t = TIssuance -> c_latest c <> 0 -> add_transaction_if_validates c p t = Ok p.
Proof.
  intros c p t T L. unfold add_transaction_if_validates, producer_only, late_issuance.
  rewrite T. apply N.eqb_neq in L. rewrite L. reflexivity.
Qed.

Lemma own_stake_example :
  let own := mkTx 40 [(2, 100)] 0 TBlockStake true 0 (Some 1) true in
  let foreign := mkTx 41 [(3, 100)] 0 TBlockStake true 0 (Some 1) false in
  exists s, run (init wG) [OAddTx foreign; OAddTx own] = Ok s /\
            map t_id (txs (pl s)) = [40] /\ umap (pl s) = [2].
Proof. eexists. split; vm_compute; auto. Qed.
