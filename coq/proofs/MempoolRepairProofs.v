(* The repair candidate of model/MempoolRepair.v satisfies the invariants of C14 after
   every operation sequence. *)
From Saito Require Import Base Mempool MempoolProofs MempoolRepair.

Local Open Scope N_scope.

Definition InvR (p : pool) : Prop :=
  UniqueIds p /\ Reserved p /\ I1 p /\ I3 p /\ I5 p.

Lemma InvR_empty g u : InvR (mkP [] [] 0 u g).
Proof.
  unfold InvR, UniqueIds, Reserved, I1, I3, I5. simpl. repeat split; try constructor.
  - intros t k [].
  - intros k [].
Qed.

Lemma InvR_added p t :
  conflicts p t = false -> has_tx (t_id t) (txs p) = false -> InvR p -> InvR (added p t).
Proof.
  intros C H [U [R [A [B D]]]]. repeat split.
  - apply added_UniqueIds; assumption.
  - apply added_Reserved; assumption.
  - apply added_I1; assumption.
  - apply added_I3; assumption.
  - apply added_I5; assumption.
Qed.

Lemma InvR_add_transaction p t p' : add_transaction p t = Ok p' -> InvR p -> InvR p'.
Proof.
  intros H I. apply add_transaction_cases in H. destruct H as [->|[C [Hn ->]]]; [exact I|].
  apply InvR_added; assumption.
Qed.

Lemma InvR_add_if_valid l p t p' :
  add_transaction_if_validates l p t = Ok p' -> InvR p -> InvR p'.
Proof.
  intros H I. apply add_if_valid_cases in H. destruct H as [->|[_ [C [Hn ->]]]]; [exact I|].
  apply InvR_added; assumption.
Qed.

Lemma InvR_add_plain p t : InvR p -> InvR (add_plain p t).
Proof.
  unfold add_plain. intros I. destruct (add_transaction p t) eqn:A; auto.
  eapply InvR_add_transaction; eauto.
Qed.

Lemma InvR_fold_plain l : forall p, InvR p -> InvR (fold_left add_plain l p).
Proof. induction l as [|t l IH]; intros p I; simpl; auto using InvR_add_plain. Qed.

Lemma InvR_gts_fresh p g u : InvR p -> InvR (mkP (txs p) (umap p) (work p) u g).
Proof. unfold InvR, UniqueIds, Reserved, I1, I3, I5. simpl. tauto. Qed.

Lemma remove_r_fields l p b :
  txs (remove_block_transactions_r l p b)
    = filter (fun t => valid_against l t && negb (in_block t b)) (txs p) /\
  umap (remove_block_transactions_r l p b)
    = fold_right sadd [] (block_keys (txs (remove_block_transactions_r l p b))) /\
  work (remove_block_transactions_r l p b) = sum_work (txs (remove_block_transactions_r l p b)).
Proof.
  change (remove_block_transactions_r l p b) with (rebuild (remove_block_transactions l p b)).
  destruct (remove_block_fields l p b) as [E1 [_ E3]].
  unfold rebuild. cbn [txs umap work]. rewrite E1, filter_filter. repeat split.
  rewrite E3, E1, filter_filter. reflexivity.
Qed.

Lemma InvR_remove l p b : InvR p -> InvR (remove_block_transactions_r l p b).
Proof.
  intros [U [_ [A _]]]. destruct (remove_r_fields l p b) as [E1 [E2 E3]].
  unfold InvR, UniqueIds, Reserved, I1, I3, I5. rewrite E2, E3, E1. repeat split.
  - apply NoDup_map_filter. exact U.
  - intros t k Ht Hk. apply fold_sadd_In. left. unfold block_keys. apply in_flat_map. eauto.
  - apply FOP_filter. exact A.
  - intros k Hk. apply fold_sadd_In in Hk. destruct Hk as [Hk|[]].
    unfold block_keys in Hk. apply in_flat_map in Hk. exact Hk.
  - apply sum_work_spec.
Qed.

Lemma bundle_r_cases l p env wn st ex p' r :
  bundle_block_r l p env wn st ex = Ok (p', r) ->
  (p' = p /\ r = None) \/
  exists s p1, st = Some s /\ add_transaction_if_validates l p s = Ok p1 /\
    ((dup_spend (txs p1 ++ ex) = true /\ p' = mkP [] [] 0 (Mempool.fresh p1) (gts p1) /\ r = None) \/
     (dup_spend (txs p1 ++ ex) = false /\ p' = bundled_pool p1 (txs p1 ++ ex) /\ r = Some (txs p1 ++ ex))).
Proof.
  unfold bundle_block_r. destruct (can_bundle_block p env wn); simpl.
  2:{ intros H. inversion H. auto. }
  destruct st as [s|].
  2:{ intros H. inversion H. auto. }
  destruct (add_transaction_if_validates l p s) as [p1| |site] eqn:A; simpl; try discriminate.
  destruct (dup_spend (txs p1 ++ ex)) eqn:D; intros H; inversion H; subst;
    right; exists s, p1; repeat split; auto.
Qed.

Lemma InvR_bundled p1 b :
  I3 p1 -> (forall t, In t (txs p1) -> In t b) -> InvR (bundled_pool p1 b).
Proof.
  intros H3 Hsub. unfold InvR, UniqueIds, Reserved, I1, I3, I5, bundled_pool. simpl.
  repeat split; try constructor.
  - intros t k [].
  - intros k Hk. apply fold_srem_In in Hk. destruct Hk as [Hk Hn].
    destruct (H3 k Hk) as [t [Ht Hkt]]. exfalso. apply Hn. unfold block_keys.
    apply in_flat_map. exists t. auto.
Qed.

Lemma InvR_step s o x : InvR (pl s) -> step_r s o = Ok x -> InvR (pl (fst x)).
Proof.
  intros HI HS. destruct o as [t|a b|env wn st ex|l b|h mine b]; simpl in HS.
  - destruct (add_transaction_if_validates (ledger s) (pl s) t) eqn:A; simpl in HS; try discriminate.
    inversion HS. subst. simpl. eapply InvR_add_if_valid; eauto.
  - inversion HS. subst. simpl. unfold add_golden_ticket.
    destruct (existsb _ _); [exact HI|]. apply (InvR_gts_fresh (pl s)). exact HI.
  - destruct (bundle_block_r (ledger s) (pl s) env wn st ex) as [[p' r]| |] eqn:B; simpl in HS; try discriminate.
    inversion HS. subst. simpl. apply bundle_r_cases in B.
    destruct B as [[-> _]|[s0 [p1 [_ [A [[_ [-> _]]|[_ [-> _]]]]]]]]; auto.
    + apply InvR_empty.
    + apply InvR_bundled.
      * eapply InvR_add_if_valid in A; [|exact HI]. destruct A as [_ [_ [_ [H3 _]]]]. exact H3.
      * intros t Ht. apply in_app_iff. auto.
  - inversion HS. subst. simpl. apply InvR_remove. exact HI.
  - inversion HS. subst. simpl. unfold add_block_failure_r, add_block_transactions_back_r.
    assert (InvR (delete_block (pl s) h)) as HD by (apply (InvR_gts_fresh (pl s)); exact HI).
    destruct mine; [|exact HD].
    apply (InvR_gts_fresh (fold_left add_plain (back_txs (ledger s) b) (delete_block (pl s) h))).
    apply InvR_fold_plain. exact HD.
Qed.

Theorem repair_all_invariants : forall g ops s,
  run_r (init g) ops = Ok s ->
  UniqueIds (pl s) /\ Reserved (pl s) /\ I1 (pl s) /\ I3 (pl s) /\ I5 (pl s).
Proof.
  intros g ops. assert (InvR (pl (init g))) as H0 by apply InvR_empty.
  revert H0. generalize (init g). induction ops as [|o r IH]; intros s0 H0 s HR; simpl in HR.
  - inversion HR. subst. exact H0.
  - destruct (step_r s0 o) as [x| |] eqn:E; simpl in HR; try discriminate.
    eapply IH; [|exact HR]. eapply InvR_step; eauto.
Qed.

(* with I1 unconditional, Block::create can only fail on an ill-formed transaction or a
   clash with what it adds itself; and when it does fail the pool is left consistent *)
Theorem repair_bundle : forall g ops s env wn st ex p' r,
  run_r (init g) ops = Ok s ->
  bundle_block_r (ledger s) (pl s) env wn st ex = Ok (p', r) ->
  InvR p' /\
  match r with
  | Some b => txs p' = [] /\ dup_spend b = false /\ (forall t, In t (txs (pl s)) -> In t b)
  | None => p' = pl s \/ create_fails (ledger s) (pl s) env wn st ex = true
  end.
Proof.
  intros g ops s env wn st ex p' r HR HB.
  pose proof (repair_all_invariants g ops s HR) as HI. fold (InvR (pl s)) in HI.
  split.
  - assert (step_r s (OBundle env wn st ex) = Ok (mkS p' (ledger s), r)) as HS
      by (simpl; rewrite HB; reflexivity).
    apply (InvR_step s _ _ HI HS).
  - unfold bundle_block_r in HB. unfold create_fails.
    destruct (can_bundle_block (pl s) env wn); simpl in *.
    2:{ inversion HB. auto. }
    destruct st as [s0|].
    2:{ inversion HB. auto. }
    destruct (add_transaction_if_validates (ledger s) (pl s) s0) as [p1| |] eqn:A; simpl in HB; try discriminate.
    destruct (dup_spend (txs p1 ++ ex)) eqn:D; inversion HB; subst; auto.
    simpl. repeat split; auto. intros t Ht. apply in_app_iff. left.
    apply add_if_valid_cases in A. destruct A as [->|[_ [_ [_ ->]]]]; simpl; auto.
Qed.

(* the repaired pool on the histories that break the pinned one *)
Example repair_on_witnesses :
  (exists s, run_r (init wG) ops_readd = Ok s /\ I1b (pl s) && I3b (pl s) && I5b (pl s) = true) /\
  (exists s, run_r (init wG) ops_invalidated = Ok s /\ umap (pl s) = []) /\
  (exists s, run_r (init wG) ops_confirmed_offchain = Ok s /\ umap (pl s) = []) /\
  (exists s, run_r (init wG) ops_dup_input = Ok s /\ umap (pl s) = [] /\ work (pl s) = 0).
Proof.
  repeat split; eexists; (split; [vm_compute; reflexivity|]); vm_compute; auto.
Qed.
