(* C02 — the debug profile never returns a wrapped value: whenever a computation of the model
   succeeds with overflow checks on (M64 true), the same computation succeeds with the same
   result in unbounded arithmetic (MInf) and in wrapping arithmetic (M64 false).  Hence
   - a block accepted by the debug-profile validation is accepted by the unbounded validation
     the C02/C13 theorems speak about, and
   - a block accepted by the release-profile validation is either accepted by the unbounded
     validation too, or some u64 operation wrapped on the way (the debug profile panics on it). *)
From Saito Require Import Base CV Supply CVProofs.

Section Target.
  (* the target mode and the four facts about it that the transfer needs *)
  Variable m2 : amode.
  Hypothesis add_dbg_inf : forall s a b r, add (M64 true) s a b = Ok r -> add m2 s a b = Ok r.
  Hypothesis mul_dbg_inf : forall s a b r, mul (M64 true) s a b = Ok r -> mul m2 s a b = Ok r.
  Hypothesis sub_dbg_inf : forall s a b r, sub (M64 true) s a b = Ok r -> sub m2 s a b = Ok r.
  Hypothesis inc8_dbg_inf : forall a r, inc8 (M64 true) a = Ok r -> inc8 m2 a = Ok r.

(* one monadic step: destruct the debug-mode operation at the head of H, transfer it to the goal *)
Ltac dbg_op E :=
  first [ apply add_dbg_inf in E | apply mul_dbg_inf in E | apply sub_dbg_inf in E | apply inc8_dbg_inf in E ].
Ltac dbg_bind H :=
  cbv zeta in H; cbv zeta;
  match type of H with
  | bind (if ?c then _ else _) _ = Ok _ => destruct c
  | _ => idtac
  end;
  match type of H with
  | bind (Ok _) _ = Ok _ => cbn [bind] in H |- *
  | bind ?X _ = Ok _ =>
      let E := fresh "E" in
      destruct X eqn:E; cbn [bind] in H; [|discriminate|discriminate];
      dbg_op E; rewrite E; cbn [bind]
  end.

Lemma sweep_step_dbg : forall a it r, sweep_step (M64 true) a it = Ok r -> sweep_step m2 a it = Ok r.
Proof.
  intros a [index t] r H. unfold sweep_step in *.
  repeat dbg_bind H; exact H.
Qed.

Lemma sweep_dbg : forall l a i r, sweep (M64 true) a i l = Ok r -> sweep m2 a i l = Ok r.
Proof.
  induction l as [|t l IH]; intros a i r H; cbn [sweep] in *; [exact H|].
  destruct (sweep_step (M64 true) a (i, t)) eqn:E; cbn [bind] in H; try discriminate.
  apply sweep_step_dbg in E. rewrite E. cbn [bind]. apply IH. exact H.
Qed.

Lemma atr_group_dbg : forall orig mult fee a g r,
  atr_group (M64 true) orig mult fee a g = Ok r -> atr_group m2 orig mult fee a g = Ok r.
Proof.
  intros orig mult fee a g r H. unfold atr_group in *.
  repeat dbg_bind H;
  (match type of H with (if ?c then _ else _) = _ => destruct c end);
  repeat dbg_bind H; exact H.
Qed.

Lemma atr_groups_dbg : forall orig mult fee gs a r,
  atr_groups (M64 true) orig mult fee a gs = Ok r -> atr_groups m2 orig mult fee a gs = Ok r.
Proof.
  intros orig mult fee. induction gs as [|g gs IH]; intros a r H; cbn [atr_groups] in *; [exact H|].
  destruct (atr_group (M64 true) orig mult fee a g) eqn:E; cbn [bind] in H; try discriminate.
  apply atr_group_dbg in E. rewrite E. cbn [bind]. apply IH. exact H.
Qed.

Lemma eligible_sum_dbg : forall gs acc r, eligible_sum (M64 true) acc gs = Ok r -> eligible_sum m2 acc gs = Ok r.
Proof.
  induction gs as [|g gs IH]; intros acc r H; cbn [eligible_sum] in *; [exact H|].
  dbg_bind H. apply IH. exact H.
Qed.

Lemma atr_tx_dbg : forall v mult fpb a t r,
  atr_tx (M64 true) v mult fpb a t = Ok r -> atr_tx m2 v mult fpb a t = Ok r.
Proof.
  intros v mult fpb a t r H. unfold atr_tx in *.
  destruct (eligible_sum (M64 true) 0 (group_collect v (t_to t))) eqn:E; cbn [bind] in H; try discriminate.
  apply eligible_sum_dbg in E. rewrite E. cbn [bind].
  destruct (collect v (t_to t)); [exact H|].
  dbg_bind H. apply atr_groups_dbg. exact H.
Qed.

Lemma atr_txs_dbg : forall v mult fpb l a r,
  atr_txs (M64 true) v mult fpb a l = Ok r -> atr_txs m2 v mult fpb a l = Ok r.
Proof.
  intros v mult fpb. induction l as [|t l IH]; intros a r H; cbn [atr_txs] in *; [exact H|].
  destruct (atr_tx (M64 true) v mult fpb a t) eqn:E; cbn [bind] in H; try discriminate.
  apply atr_tx_dbg in E. rewrite E. cbn [bind]. apply IH. exact H.
Qed.

Lemma cap_loop_dbg : forall adj l pay r, cap_loop (M64 true) adj pay l = Ok r -> cap_loop m2 adj pay l = Ok r.
Proof.
  intros adj. induction l as [|t l IH]; intros pay r H; cbn [cap_loop] in *; [exact H|].
  repeat dbg_bind H;
  (match type of H with bind ?X _ = _ => destruct X eqn:Eloop end); cbn [bind] in H; try discriminate;
  apply IH in Eloop; rewrite Eloop; cbn [bind]; exact H.
Qed.

Lemma atr_section_dbg : forall cap05 gp v i fees r,
  atr_section cap05 (M64 true) gp v i fees = Ok r -> atr_section cap05 m2 gp v i fees = Ok r.
Proof.
  intros cap05 gp v i fees r H. unfold atr_section in *.
  dbg_bind H.
  match type of H with (if ?c then _ else _) = _ => destruct c end; [exact H|].
  destruct (i_expiring i); [|exact H].
  repeat dbg_bind H.
  match type of H with bind ?X _ = _ => destruct X eqn:Etxs end; cbn [bind] in H; try discriminate.
  apply atr_txs_dbg in Etxs. rewrite Etxs. cbn [bind].
  repeat dbg_bind H.
  match type of H with (if ?c then _ else _) = _ => destruct c end; [|exact H].
  match type of H with (if ?c then _ else _) = _ => destruct c end; [exact H|].
  dbg_bind H.
  match type of H with bind ?X _ = _ => destruct X eqn:Ecap end; cbn [bind] in H; try discriminate.
  apply cap_loop_dbg in Ecap. rewrite Ecap. cbn [bind]. exact H.
Qed.

Ltac dbg_inner H :=
  match type of H with
  | bind (bind ?X _) _ = Ok _ =>
      let E := fresh "Ein" in
      destruct X eqn:E; cbn [bind] in H; [|discriminate|discriminate];
      dbg_op E; rewrite E; cbn [bind]
  end.

Lemma payouts_dbg : forall cap15 i gti nonfee r,
  payouts cap15 (M64 true) i gti nonfee = Ok r -> payouts cap15 m2 i gti nonfee = Ok r.
Proof.
  intros cap15 i gti nonfee r H. unfold payouts in *.
  destruct gti; [|exact H].
  match type of H with (if ?c then _ else _) = _ => destruct c end; [exact H|].
  destruct (i_prev i) as [p|].
  - repeat match type of H with context [capped ?a ?b] => destruct (capped a b) end.
    dbg_inner H.
    destruct (h_has_gt p).
    + cbn [bind] in H |- *. repeat dbg_bind H; exact H.
    + destruct (i_prevprev i) as [pp|].
      * repeat match type of H with context [capped ?a ?b] => destruct (capped a b) end.
        dbg_inner H. dbg_inner H. cbn [bind] in H |- *. repeat dbg_bind H; exact H.
      * cbn [bind] in H |- *. repeat dbg_bind H; exact H.
  - cbn [bind] in H |- *. repeat dbg_bind H; exact H.
Qed.

Lemma gcv_dbg : forall cap15 cap05 gp v i c,
  gcv cap15 cap05 (M64 true) gp v i = Ok c -> gcv cap15 cap05 m2 gp v i = Ok c.
Proof.
  intros cap15 cap05 gp v i c H. unfold gcv in *.
  destruct (sweep (M64 true) sweep0 0 (i_txs i)) as [w| |] eqn:Ew; cbn [bind] in H; try discriminate.
  apply sweep_dbg in Ew. rewrite Ew. cbn [bind].
  assert (Htail : forall bf d,
    (do a <- atr_section cap05 (M64 true) gp v i (w_fees w);
     let fees_cum := match r_cum a with Some c0 => c0 | None => w_fees w end in
     do total_fees <- add (M64 true) P_TOTAL_FEES (w_fees w) (r_fees a);
     let fpb := if 0 <? w_bytes w then w_fees w / w_bytes w else 0 in
     if gp =? 0 then Panic P_SMOOTH_DIV0 else
     let pv (f : hdr -> N) := match i_prev i with Some p => f p | None => 0 end in
     do p <- payouts cap15 (M64 true) i (w_gti w) (w_nonfee w);
     Ok (mkCv (w_ft w) (w_fti w) (w_gt w) (w_gti w) (w_st w) (w_sti w) (w_it w) (w_iti w)
             total_fees (w_fees w) (r_fees a) fees_cum
             (smooth gp (pv h_avg_total_fees) total_fees) (smooth gp (pv h_avg_fees_new) (w_fees w))
             (smooth gp (pv h_avg_fees_atr) (r_fees a))
             (w_bytes w)
             (p_routing p) (p_mining p) (p_treasury p) (p_graveyard p) (r_payout a)
             (smooth gp (pv h_avg_pay_routing) (p_routing p)) (smooth gp (pv h_avg_pay_mining) (p_mining p))
             (smooth gp 0 (p_treasury p)) (smooth gp 0 (p_graveyard p)) (smooth gp 0 (r_payout a))
             (smooth gp (pv h_avg_fpb) fpb) fpb bf d
             (r_slips a) (r_nolan a) (r_rbs a) (r_hash a) (smooth gp (pv h_avg_nolan) (r_nolan a)) (r_dust a)
             (p_fee_tx p) (r_cap a))) = Ok c ->
    (do a <- atr_section cap05 m2 gp v i (w_fees w);
     let fees_cum := match r_cum a with Some c0 => c0 | None => w_fees w end in
     do total_fees <- add m2 P_TOTAL_FEES (w_fees w) (r_fees a);
     let fpb := if 0 <? w_bytes w then w_fees w / w_bytes w else 0 in
     if gp =? 0 then Panic P_SMOOTH_DIV0 else
     let pv (f : hdr -> N) := match i_prev i with Some p => f p | None => 0 end in
     do p <- payouts cap15 m2 i (w_gti w) (w_nonfee w);
     Ok (mkCv (w_ft w) (w_fti w) (w_gt w) (w_gti w) (w_st w) (w_sti w) (w_it w) (w_iti w)
             total_fees (w_fees w) (r_fees a) fees_cum
             (smooth gp (pv h_avg_total_fees) total_fees) (smooth gp (pv h_avg_fees_new) (w_fees w))
             (smooth gp (pv h_avg_fees_atr) (r_fees a))
             (w_bytes w)
             (p_routing p) (p_mining p) (p_treasury p) (p_graveyard p) (r_payout a)
             (smooth gp (pv h_avg_pay_routing) (p_routing p)) (smooth gp (pv h_avg_pay_mining) (p_mining p))
             (smooth gp 0 (p_treasury p)) (smooth gp 0 (p_graveyard p)) (smooth gp 0 (r_payout a))
             (smooth gp (pv h_avg_fpb) fpb) fpb bf d
             (r_slips a) (r_nolan a) (r_rbs a) (r_hash a) (smooth gp (pv h_avg_nolan) (r_nolan a)) (r_dust a)
             (p_fee_tx p) (r_cap a))) = Ok c).
  { intros bf d H0.
    destruct (atr_section cap05 (M64 true) gp v i (w_fees w)) as [a| |] eqn:Ea; cbn [bind] in H0; try discriminate.
    apply atr_section_dbg in Ea. rewrite Ea. cbn [bind].
    dbg_bind H0. destruct (gp =? 0); [exact H0|]. cbv zeta in H0. cbv zeta.
    destruct (payouts cap15 (M64 true) i (w_gti w) (w_nonfee w)) as [po| |] eqn:Epo; cbn [bind] in H0; try discriminate.
    apply payouts_dbg in Epo. rewrite Epo. cbn [bind]. exact H0. }
  destruct (i_prev i) as [p|] eqn:Ep.
  - cbv zeta in H. cbv zeta.
    destruct (h_has_gt p).
    + destruct (0 <? w_gt w).
      * dbg_inner H. cbn [bind] in H |- *. apply Htail. exact H.
      * cbn [bind] in H |- *. apply Htail. exact H.
    + destruct ((w_gt w =? 0) && (0 <? h_difficulty p)); cbn [bind] in H |- *; apply Htail; exact H.
  - cbn [bind] in H |- *. apply Htail. exact H.
Qed.

(* the part of Block::validate after the parent-dependent checks does not depend on the mode
   (the age test of Transaction::validate uses saturating_add since 8712765) *)
Ltac finish_rest H :=
  cbn [bind] in H |- *;
  repeat match type of H with (if ?c then Ok false else _) = _ => destruct c; [exact H|] end;
  cbv zeta in H; cbv zeta;
  repeat match type of H with (if ?c then Ok false else _) = _ => destruct c; [exact H|] end;
  exact H.

Lemma validate_dbg : forall cap15 cap05 cf st b v,
  validate_m cap15 cap05 cf (M64 true) st b = Ok v -> validate_m cap15 cap05 cf m2 st b = Ok v.
Proof.
  intros cap15 cap05 cf st b v H. unfold validate_m in *.
  destruct (no_tx_reject st b); [exact H|].
  unfold validate_body in *. cbv zeta in H. cbv zeta.
  destruct (negb (b_sig_ok b)); [exact H|].
  unfold run_cv in *.
  match type of H with bind ?X _ = _ => destruct X as [c| |] eqn:Ec end; cbn [bind] in H; try discriminate.
  apply gcv_dbg in Ec. rewrite Ec. cbn [bind].
  repeat match type of H with (if ?c then Ok false else _) = _ => destruct c; [exact H|] end.
  destruct (parent_of st) as [pb|]; [|finish_rest H].
  repeat first [ dbg_inner H
               | match type of H with bind (if ?c then _ else _) _ = _ => destruct c; [exact H|] end ].
  match type of H with bind ?X _ = _ => destruct X as [pok| |] end; [finish_rest H | exact H | exact H].
Qed.

End Target.

Lemma add_dbg_inf : forall s a b r, add (M64 true) s a b = Ok r -> add MInf s a b = Ok r.
Proof. intros s a b r H. cbn [add] in *. destruct (a + b <? two64); [exact H | discriminate]. Qed.
Lemma mul_dbg_inf : forall s a b r, mul (M64 true) s a b = Ok r -> mul MInf s a b = Ok r.
Proof. intros s a b r H. cbn [mul] in *. destruct (a * b <? two64); [exact H | discriminate]. Qed.
Lemma sub_dbg_inf : forall s a b r, sub (M64 true) s a b = Ok r -> sub MInf s a b = Ok r.
Proof. intros s a b r H. unfold sub in *. destruct (b <=? a); [exact H | discriminate]. Qed.
Lemma inc8_dbg_inf : forall a r, inc8 (M64 true) a = Ok r -> inc8 MInf a = Ok r.
Proof. intros a r H. cbn [inc8] in *. destruct (a + 1 <? 256); [exact H | discriminate]. Qed.

Lemma add_dbg_rel : forall s a b r, add (M64 true) s a b = Ok r -> add (M64 false) s a b = Ok r.
Proof. intros s a b r H. cbn [add] in *. destruct (a + b <? two64); [exact H | discriminate]. Qed.
Lemma mul_dbg_rel : forall s a b r, mul (M64 true) s a b = Ok r -> mul (M64 false) s a b = Ok r.
Proof. intros s a b r H. cbn [mul] in *. destruct (a * b <? two64); [exact H | discriminate]. Qed.
Lemma sub_dbg_rel : forall s a b r, sub (M64 true) s a b = Ok r -> sub (M64 false) s a b = Ok r.
Proof. intros s a b r H. unfold sub in *. destruct (b <=? a); [exact H | discriminate]. Qed.
Lemma inc8_dbg_rel : forall a r, inc8 (M64 true) a = Ok r -> inc8 (M64 false) a = Ok r.
Proof. intros a r H. cbn [inc8] in *. destruct (a + 1 <? 256); [exact H | discriminate]. Qed.

Definition validate_dbg_inf := validate_dbg MInf add_dbg_inf mul_dbg_inf sub_dbg_inf inc8_dbg_inf.
Definition validate_dbg_rel := validate_dbg (M64 false) add_dbg_rel mul_dbg_rel sub_dbg_rel inc8_dbg_rel.

(* the debug-profile node accepts only blocks that the unbounded validation accepts *)
Theorem debug_accept_is_unbounded_accept : forall cap15 cap05 dbgcf st b,
  cf_dbg dbgcf = true ->
  validate cap15 cap05 dbgcf st b = Ok true ->
  validate_m cap15 cap05 dbgcf MInf st b = Ok true.
Proof.
  intros cap15 cap05 cf st b Hd H. unfold validate, mode in H. rewrite Hd in H.
  apply validate_dbg_inf. exact H.
Qed.

(* the release-profile node: a block it accepts is accepted by the unbounded validation as well,
   unless a u64 operation wrapped — exactly the runs on which the debug profile does not answer *)
Theorem release_accept_dichotomy : forall cap15 cap05 cf st b,
  cf_dbg cf = false ->
  validate cap15 cap05 cf st b = Ok true ->
  validate_m cap15 cap05 cf MInf st b = Ok true \/
  (forall v, validate_m cap15 cap05 cf (M64 true) st b <> Ok v).
Proof.
  intros cap15 cap05 cf st b Hd H. unfold validate, mode in H. rewrite Hd in H.
  destruct (validate_m cap15 cap05 cf (M64 true) st b) as [v| |] eqn:E.
  - left. pose proof (validate_dbg_rel _ _ _ _ _ _ E) as Hr. rewrite H in Hr. inversion Hr; subst.
    apply validate_dbg_inf. exact E.
  - right. intros v Hv. discriminate.
  - right. intros v Hv. discriminate.
Qed.
