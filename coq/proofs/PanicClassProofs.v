(* C11 -- the classification table covers the regenerated panic-site inventory. *)
From Coq Require Import List String Bool Arith.
From Saito Require Import PanicClass PanicSites Handlers.
Import ListNotations.

(* printed into the build log BEFORE the obligation, so that a failing table names the sites to look at:
   sites without classification, exact entries whose site no longer exists, groups whose site count changed
   (prefix, pinned, found), problems reported by the scanner itself *)
Eval vm_compute in ("@@C11-TABLE unclassified:", unclassified PanicSites.sites,
                    "stale entries:", stale_entries PanicSites.sites,
                    "groups (prefix, pinned, found):", miscounted_groups PanicSites.sites,
                    "scanner problems:", PanicSites.problems).

Lemma table_ok_repo : table_ok PanicSites.sites PanicSites.crosscheck_ok = true.
Proof. vm_compute. reflexivity. Qed.

Lemma is_some_classified : forall s, is_some (classify s) = true -> classified s.
Proof. intros s H. unfold classified. destruct (classify s); [discriminate|discriminate]. Qed.

Lemma table_ok_forall : forall sites cross, table_ok sites cross = true ->
  forall s, In s sites -> is_some (classify s) = true.
Proof.
  intros sites cross H s Hin. unfold table_ok in H.
  apply andb_prop in H. destruct H as [H _]. apply andb_prop in H. destruct H as [H _].
  apply andb_prop in H. destruct H as [_ H]. rewrite forallb_forall in H. exact (H s Hin).
Qed.

Theorem classified_all : forall s, In s PanicSites.sites -> classified s.
Proof.
  intros s Hin. apply is_some_classified.
  exact (table_ok_forall _ _ table_ok_repo s Hin).
Qed.

(* every panic the handler model can raise is a site of the inventory, and is classified as a listed finding *)
Definition model_site_ok (s : string) : bool :=
  existsb (String.eqb s) PanicSites.sites && is_known (classify s).

Lemma model_sites_ok : forallb model_site_ok Handlers.model_sites = true.
Proof. vm_compute. reflexivity. Qed.

Theorem model_sites_listed : forall s, In s Handlers.model_sites ->
  In s PanicSites.sites /\ exists id, classify s = Some (Known id).
Proof.
  intros s Hin. pose proof model_sites_ok as H. rewrite forallb_forall in H. specialize (H s Hin).
  unfold model_site_ok in H. apply andb_prop in H. destruct H as [H1 H2]. split.
  - apply existsb_exists in H1. destruct H1 as [x [Hx Heq]]. apply String.eqb_eq in Heq. subst x. exact Hx.
  - unfold is_known in H2. destruct (classify s) as [[w|w|id]|]; try discriminate. exists id. reflexivity.
Qed.
