(* Proofs for C07 over model/Producer.v *)
From Saito Require Import Base Producer SortFacts.
From Coq Require Import Permutation.

(* ---------------------------------------------------------------- types *)
Lemma ttype_code_inj a b : ttype_code a = ttype_code b -> a = b.
Proof. destruct a, b; cbn; intros H; try reflexivity; discriminate H. Qed.

Lemma is_type_iff k t : is_type k t = true <-> t_type t = k.
Proof.
  unfold is_type, ttype_eqb. rewrite N.eqb_eq. split; [apply ttype_code_inj|intros ->; reflexivity].
Qed.

Lemma is_type_other k k' t : is_type k t = true -> k' <> k -> is_type k' t = false.
Proof.
  intros H Hne. apply is_type_iff in H. destruct (is_type k' t) eqn:E; [|reflexivity].
  apply is_type_iff in E. congruence.
Qed.

Definition none_of (k : ttype) (l : list tx) : Prop := forallb (fun t => negb (is_type k t)) l = true.

Lemma none_of_all_other k k' l : forallb (is_type k) l = true -> k' <> k -> none_of k' l.
Proof.
  intros H Hne. unfold none_of. rewrite forallb_forall in *. intros t Ht.
  rewrite (is_type_other k k' t (H t Ht) Hne). reflexivity.
Qed.

Lemma none_of_app k a b : none_of k (a ++ b) <-> none_of k a /\ none_of k b.
Proof. unfold none_of. rewrite forallb_app, andb_true_iff. reflexivity. Qed.

Lemma none_of_nil k : none_of k [].
Proof. reflexivity. Qed.

Lemma none_of_opt k (o : option tx) :
  (forall t, o = Some t -> is_type k t = false) -> none_of k (opt_list o).
Proof.
  destruct o as [t|]; cbn; intros H; [|reflexivity]. unfold none_of; cbn. now rewrite (H t eq_refl).
Qed.

Lemma filter_none k l : none_of k l -> filter (is_type k) l = [].
Proof.
  unfold none_of. induction l as [|t r IH]; cbn; [reflexivity|].
  rewrite andb_true_iff, negb_true_iff. intros [H1 H2]. rewrite H1. auto.
Qed.

Lemma filter_all k l : forallb (is_type k) l = true -> filter (is_type k) l = l.
Proof.
  induction l as [|t r IH]; cbn; [reflexivity|].
  rewrite andb_true_iff. intros [H1 H2]. rewrite H1. f_equal; auto.
Qed.

Lemma count_none k l : none_of k l -> count_type k l = 0.
Proof. intros H. unfold count_type, countb. now rewrite (filter_none k l H). Qed.

Lemma count_app k a b : count_type k (a ++ b) = count_type k a + count_type k b.
Proof. apply countb_app. Qed.

Lemma count_one k t : is_type k t = true -> count_type k [t] = 1.
Proof. intros H. unfold count_type, countb; cbn. now rewrite H. Qed.

(* ---------------------------------------------------------------- last_index *)
Lemma last_index_from_none k i l acc : none_of k l -> last_index_from k i l acc = acc.
Proof.
  unfold none_of. revert i acc. induction l as [|t r IH]; cbn; intros i acc; [reflexivity|].
  rewrite andb_true_iff, negb_true_iff. intros [H1 H2]. rewrite H1. auto.
Qed.

Lemma last_index_from_app k i a b acc :
  last_index_from k i (a ++ b) acc = last_index_from k (i + Nlen a) b (last_index_from k i a acc).
Proof.
  revert i acc. induction a as [|t r IH]; intros i acc.
  - cbn. unfold Nlen; cbn. f_equal. lia.
  - cbn [app last_index_from]. rewrite IH. f_equal. unfold Nlen; cbn [length]. lia.
Qed.

Lemma last_index_head k t r : is_type k t = true -> none_of k r -> last_index k (t :: r) = Some 0.
Proof.
  intros H Hr. unfold last_index; cbn. rewrite H. now apply last_index_from_none.
Qed.

Lemma last_index_none k l : none_of k l -> last_index k l = None.
Proof. intros H. unfold last_index. now apply last_index_from_none. Qed.

Lemma last_index_last k l t : is_type k t = true -> none_of k l -> last_index k (l ++ [t]) = Some (Nlen l).
Proof.
  intros H Hl. unfold last_index. rewrite last_index_from_app. cbn. rewrite H.
  rewrite N.add_0_l. reflexivity.
Qed.

Lemma tx_at_last l t : tx_at (l ++ [t]) (Nlen l) = Some t.
Proof.
  unfold tx_at, Nlen. rewrite Nat2N.id. rewrite nth_error_app2 by lia.
  now rewrite Nat.sub_diag.
Qed.

(* ---------------------------------------------------------------- sums *)
Lemma nsum_app a b : nsum (a ++ b) = nsum a + nsum b.
Proof. unfold nsum. induction a as [|x r IH]; cbn; [lia|]. rewrite IH. lia. Qed.

Lemma nsum_perm a b : Permutation a b -> nsum a = nsum b.
Proof. unfold nsum. induction 1; cbn; lia. Qed.

Lemma forallb_perm {A} (f : A -> bool) a b : Permutation a b -> forallb f a = forallb f b.
Proof.
  intros H. induction H as [|x l l' _ IH|x y l|l l' l'' _ IH1 _ IH2]; cbn.
  - reflexivity.
  - now rewrite IH.
  - destruct (f x), (f y); reflexivity.
  - congruence.
Qed.

(* ---------------------------------------------------------------- arithmetic *)
Lemma eqb_lN_refl l : eqb_lN l l = true.
Proof. unfold eqb_lN. induction l as [|x r IH]; cbn; [reflexivity|]. now rewrite N.eqb_refl. Qed.

Lemma eqb_lN_eq a b : eqb_lN a b = true -> a = b.
Proof.
  unfold eqb_lN. revert b. induction a as [|x r IH]; intros [|y s]; cbn; try discriminate; [reflexivity|].
  rewrite andb_true_iff, N.eqb_eq. intros [-> H]. f_equal. auto.
Qed.

Lemma guarded_set_total_fees e v :
  guarded_fields (set_total_fees e v) = v :: tl (guarded_fields e).
Proof. reflexivity. Qed.

(* ---------------------------------------------------------------- the produced block *)
Section Main.
  Variable chain : Type.
  Variable view : chain -> chainview.
  Variable cv : chain -> list N -> block -> cvrec.
  Variable tx_valid : chain -> list N -> tx -> bool.
  Variable gt_ok : chain -> tx -> bool.
  Variable work_needed : N -> N -> N -> N -> N.
  Variable hchain : list N -> N.
  Variable mroot : list N -> N.

  Notation createM := (create chain view cv hchain mroot).
  Notation validateM := (validate chain view cv tx_valid gt_ok work_needed mroot).
  Notation acceptsM := (node_accepts chain view cv tx_valid gt_ok work_needed mroot).
  Notation nodeM := (node chain).

  (* shape of the transaction list that create assembles *)
  Definition final_txs (gt : option tx) (drained atrs : list tx) (fee : option tx) : list tx :=
    (opt_list gt ++ drained) ++ atrs ++ opt_list fee.

  Section Shape.
    Variables (gt : option tx) (drained atrs : list tx) (fee : option tx).
    Hypothesis Hgt : forall g, gt = Some g -> is_type TGoldenTicket g = true.
    Hypothesis Hpool : pool_types_ok drained = true.
    Hypothesis Hatr : forallb (is_type TATR) atrs = true.
    Hypothesis Hfee : forall f, fee = Some f -> is_type TFee f = true.

    Lemma pool_none k : k = TGoldenTicket \/ k = TFee \/ k = TATR -> none_of k drained.
    Proof.
      intros Hk. unfold none_of. unfold pool_types_ok in Hpool. rewrite forallb_forall in *.
      intros t Ht. specialize (Hpool t Ht). unfold pool_tx_ok in Hpool.
      rewrite !andb_true_iff in Hpool. destruct Hpool as [[H1 H2] H3].
      destruct Hk as [->|[->| ->]]; assumption.
    Qed.

    Lemma gt_none k : k <> TGoldenTicket -> none_of k (opt_list gt).
    Proof.
      intros Hk. apply none_of_opt. intros g Hg. eapply is_type_other; [apply Hgt; exact Hg|exact Hk].
    Qed.
    Lemma fee_none k : k <> TFee -> none_of k (opt_list fee).
    Proof.
      intros Hk. apply none_of_opt. intros g Hg. eapply is_type_other; [apply Hfee; exact Hg|exact Hk].
    Qed.
    Lemma atr_none k : k <> TATR -> none_of k atrs.
    Proof. intros Hk. eapply none_of_all_other; eauto. Qed.

    Lemma final_atrs : filter (is_type TATR) (final_txs gt drained atrs fee) = atrs.
    Proof.
      unfold final_txs. rewrite !filter_app.
      rewrite (filter_none TATR (opt_list gt)) by (apply gt_none; discriminate).
      rewrite (filter_none TATR drained) by (apply pool_none; auto).
      rewrite (filter_all TATR atrs Hatr).
      rewrite (filter_none TATR (opt_list fee)) by (apply fee_none; discriminate).
      cbn. now rewrite app_nil_r.
    Qed.

    Lemma final_count k : k <> TGoldenTicket -> k <> TFee -> k <> TATR ->
      count_type k (final_txs gt drained atrs fee) = count_type k drained.
    Proof.
      intros H1 H2 H3. unfold final_txs. rewrite !count_app.
      rewrite (count_none k (opt_list gt)) by (now apply gt_none).
      rewrite (count_none k atrs) by (now apply atr_none).
      rewrite (count_none k (opt_list fee)) by (now apply fee_none). lia.
    Qed.

    Lemma final_count_gt :
      count_type TGoldenTicket (final_txs gt drained atrs fee) = if is_some gt then 1 else 0.
    Proof.
      unfold final_txs. rewrite !count_app.
      rewrite (count_none _ drained) by (apply pool_none; auto).
      rewrite (count_none _ atrs) by (apply atr_none; discriminate).
      rewrite (count_none _ (opt_list fee)) by (apply fee_none; discriminate).
      destruct gt as [g|]; cbn [opt_list is_some].
      - rewrite (count_one _ g) by (now apply Hgt). lia.
      - reflexivity.
    Qed.

    Lemma final_count_fee :
      count_type TFee (final_txs gt drained atrs fee) = if is_some fee then 1 else 0.
    Proof.
      unfold final_txs. rewrite !count_app.
      rewrite (count_none _ (opt_list gt)) by (apply gt_none; discriminate).
      rewrite (count_none _ drained) by (apply pool_none; auto).
      rewrite (count_none _ atrs) by (apply atr_none; discriminate).
      destruct fee as [f|]; cbn [opt_list is_some].
      - rewrite (count_one _ f) by (now apply Hfee). lia.
      - reflexivity.
    Qed.

    Lemma final_gt_index :
      last_index TGoldenTicket (final_txs gt drained atrs fee) = if is_some gt then Some 0 else None.
    Proof.
      assert (Hrest : none_of TGoldenTicket (drained ++ atrs ++ opt_list fee)).
      { rewrite !none_of_app. repeat split.
        - apply pool_none; auto.
        - apply atr_none; discriminate.
        - apply fee_none; discriminate. }
      unfold final_txs. destruct gt as [g|]; cbn [opt_list is_some app].
      - apply last_index_head; [now apply Hgt|exact Hrest].
      - apply last_index_none. exact Hrest.
    Qed.

    Lemma final_gt_at g : gt = Some g -> tx_at (final_txs gt drained atrs fee) 0 = Some g.
    Proof. intros ->. reflexivity. Qed.

    Lemma final_fee_index f : fee = Some f ->
      last_index TFee (final_txs gt drained atrs fee) = Some (Nlen ((opt_list gt ++ drained) ++ atrs))
      /\ tx_at (final_txs gt drained atrs fee) (Nlen ((opt_list gt ++ drained) ++ atrs)) = Some f.
    Proof.
      intros ->. unfold final_txs. cbn [opt_list]. rewrite app_assoc. split.
      - apply last_index_last; [now apply Hfee|].
        rewrite !none_of_app. repeat split.
        + apply gt_none; discriminate.
        + apply pool_none; auto.
        + apply atr_none; discriminate.
      - apply tx_at_last.
    Qed.
  End Shape.
End Main.
