(* Proofs for C07 over model/Producer.v *)
From Saito Require Import Base Producer SortFacts.
From Coq Require Import Permutation.

(* ---------------------------------------------------------------- types *)
Lemma ttype_code_inj a b : ttype_code a = ttype_code b -> a = b.
Proof. destruct a, b; cbn; intros H; try reflexivity; discriminate H. Qed.

Lemma is_type_iff k t : is_type k t = true <-> t_type t = k.
Proof.
  unfold is_type, ttype_eqb. rewrite N.eqb_eq. split; [apply ttype_code_inj|intros ->; reflexivity].
Qed.

Lemma is_type_other k k' t : is_type k t = true -> k' <> k -> is_type k' t = false.
Proof.
  intros H Hne. apply is_type_iff in H. destruct (is_type k' t) eqn:E; [|reflexivity].
  apply is_type_iff in E. congruence.
Qed.

Definition none_of (k : ttype) (l : list tx) : Prop := forallb (fun t => negb (is_type k t)) l = true.

Lemma none_of_all_other k k' l : forallb (is_type k) l = true -> k' <> k -> none_of k' l.
Proof.
  intros H Hne. unfold none_of. rewrite forallb_forall in *. intros t Ht.
  rewrite (is_type_other k k' t (H t Ht) Hne). reflexivity.
Qed.

Lemma none_of_app k a b : none_of k (a ++ b) <-> none_of k a /\ none_of k b.
Proof. unfold none_of. rewrite forallb_app, andb_true_iff. reflexivity. Qed.

Lemma none_of_nil k : none_of k [].
Proof. reflexivity. Qed.

Lemma none_of_opt k (o : option tx) :
  (forall t, o = Some t -> is_type k t = false) -> none_of k (opt_list o).
Proof.
  destruct o as [t|]; cbn; intros H; [|reflexivity]. unfold none_of; cbn. now rewrite (H t eq_refl).
Qed.

Lemma filter_none k l : none_of k l -> filter (is_type k) l = [].
Proof.
  unfold none_of. induction l as [|t r IH]; cbn; [reflexivity|].
  rewrite andb_true_iff, negb_true_iff. intros [H1 H2]. rewrite H1. auto.
Qed.

Lemma filter_all k l : forallb (is_type k) l = true -> filter (is_type k) l = l.
Proof.
  induction l as [|t r IH]; cbn; [reflexivity|].
  rewrite andb_true_iff. intros [H1 H2]. rewrite H1. f_equal; auto.
Qed.

Lemma count_none k l : none_of k l -> count_type k l = 0.
Proof. intros H. unfold count_type, countb. now rewrite (filter_none k l H). Qed.

Lemma count_app k a b : count_type k (a ++ b) = count_type k a + count_type k b.
Proof. apply countb_app. Qed.

Lemma count_one k t : is_type k t = true -> count_type k [t] = 1.
Proof. intros H. unfold count_type, countb; cbn. now rewrite H. Qed.

(* ---------------------------------------------------------------- last_index *)
Lemma last_index_from_none k i l acc : none_of k l -> last_index_from k i l acc = acc.
Proof.
  unfold none_of. revert i acc. induction l as [|t r IH]; cbn; intros i acc; [reflexivity|].
  rewrite andb_true_iff, negb_true_iff. intros [H1 H2]. rewrite H1. auto.
Qed.

Lemma last_index_from_app k i a b acc :
  last_index_from k i (a ++ b) acc = last_index_from k (i + Nlen a) b (last_index_from k i a acc).
Proof.
  revert i acc. induction a as [|t r IH]; intros i acc.
  - cbn. unfold Nlen; cbn. f_equal. lia.
  - cbn [app last_index_from]. rewrite IH. f_equal. unfold Nlen; cbn [length]. lia.
Qed.

Lemma last_index_head k t r : is_type k t = true -> none_of k r -> last_index k (t :: r) = Some 0.
Proof.
  intros H Hr. unfold last_index; cbn. rewrite H. now apply last_index_from_none.
Qed.

Lemma last_index_none k l : none_of k l -> last_index k l = None.
Proof. intros H. unfold last_index. now apply last_index_from_none. Qed.

Lemma last_index_last k l t : is_type k t = true -> none_of k l -> last_index k (l ++ [t]) = Some (Nlen l).
Proof.
  intros H Hl. unfold last_index. rewrite last_index_from_app. cbn. rewrite H.
  rewrite N.add_0_l. reflexivity.
Qed.

Lemma tx_at_last l t : tx_at (l ++ [t]) (Nlen l) = Some t.
Proof.
  unfold tx_at, Nlen. rewrite Nat2N.id. rewrite nth_error_app2 by lia.
  now rewrite Nat.sub_diag.
Qed.

(* ---------------------------------------------------------------- sums *)
Lemma nsum_app a b : nsum (a ++ b) = nsum a + nsum b.
Proof. unfold nsum. induction a as [|x r IH]; cbn; [lia|]. rewrite IH. lia. Qed.

Lemma nsum_perm a b : Permutation a b -> nsum a = nsum b.
Proof. unfold nsum. induction 1; cbn; lia. Qed.

Lemma forallb_perm {A} (f : A -> bool) a b : Permutation a b -> forallb f a = forallb f b.
Proof.
  intros H. induction H as [|x l l' _ IH|x y l|l l' l'' _ IH1 _ IH2]; cbn.
  - reflexivity.
  - now rewrite IH.
  - destruct (f x), (f y); reflexivity.
  - congruence.
Qed.

(* ---------------------------------------------------------------- arithmetic *)
Lemma eqb_lN_refl l : eqb_lN l l = true.
Proof. unfold eqb_lN. induction l as [|x r IH]; cbn; [reflexivity|]. now rewrite N.eqb_refl. Qed.

Lemma eqb_lN_eq a b : eqb_lN a b = true -> a = b.
Proof.
  unfold eqb_lN. revert b. induction a as [|x r IH]; intros [|y s]; cbn; try discriminate; [reflexivity|].
  rewrite andb_true_iff, N.eqb_eq. intros [-> H]. f_equal. auto.
Qed.

Lemma guarded_set_total_fees e v :
  guarded_fields (set_total_fees e v) = v :: tl (guarded_fields e).
Proof. reflexivity. Qed.

(* ---------------------------------------------------------------- the produced block *)
Section Main.
  Variable chain : Type.
  Variable view : chain -> chainview.
  Variable cv : chain -> list N -> block -> cvrec.
  Variable tx_valid : chain -> list N -> tx -> bool.
  Variable gt_ok : chain -> tx -> bool.
  Variable work_needed : N -> N -> N -> N -> N.
  Variable supply_ok : chain -> list N -> block -> bool.
  Variable hchain : list N -> N.
  Variable mroot : list N -> N.

  (* Block::create without the filter of fix 1214e31: the steps from the half-built block on *)
  Definition create_plain (dbg : bool) (n : node chain) (creator ts : N) (gt : option tx) (d : list tx)
    : res block :=
    let b0 := pre_block (v_tip (view (n_chain _ n))) (tip_hash_of chain view n) creator ts gt d in
    create_from chain view hchain mroot dbg n b0 (cv (n_chain _ n) (n_ledger _ n) b0).
  Notation createM := create_plain.
  Notation createF := (create chain view cv hchain mroot).

  Ltac open_create H p gt d :=
    unfold create_plain, create_from, tip_hash_of in H;
    match goal with Ht : v_tip _ = Some p |- _ => rewrite Ht in H end;
    cbv zeta in H;
    change (b_id (pre_block (Some p) (par_hash p) ?c ?t gt d)) with (par_id p + 1) in H;
    change (b_ts (pre_block (Some p) (par_hash p) ?c ?t gt d)) with t in H;
    change (b_prev (pre_block (Some p) (par_hash p) ?c ?t gt d)) with (par_hash p) in H;
    change (b_creator (pre_block (Some p) (par_hash p) ?c ?t gt d)) with c in H;
    change (b_unpaid (pre_block (Some p) (par_hash p) ?c ?t gt d))
      with (match gt with Some _ => 0 | None => par_total_fees p end) in H;
    change (b_txs (pre_block (Some p) (par_hash p) ?c ?t gt d)) with (opt_list gt ++ d) in H.
  Notation validateM := (validate chain view cv tx_valid gt_ok work_needed mroot).
  Notation acceptsM := (node_accepts chain view cv tx_valid gt_ok work_needed supply_ok mroot).
  Notation nodeM := (node chain).

  (* shape of the transaction list that create assembles *)
  Definition final_txs (gt : option tx) (drained atrs : list tx) (fee : option tx) : list tx :=
    (opt_list gt ++ drained) ++ atrs ++ opt_list fee.

  Section Shape.
    Variables (gt : option tx) (drained atrs : list tx) (fee : option tx).
    Hypothesis Hgt : forall g, gt = Some g -> is_type TGoldenTicket g = true.
    Hypothesis Hpool : pool_types_ok drained = true.
    Hypothesis Hatr : forallb (is_type TATR) atrs = true.
    Hypothesis Hfee : forall f, fee = Some f -> is_type TFee f = true.

    Lemma pool_none k : k = TGoldenTicket \/ k = TFee \/ k = TATR -> none_of k drained.
    Proof.
      intros Hk. unfold none_of. unfold pool_types_ok in Hpool. rewrite forallb_forall in *.
      intros t Ht. specialize (Hpool t Ht). unfold pool_tx_ok in Hpool.
      rewrite !andb_true_iff in Hpool. destruct Hpool as [[H1 H2] H3].
      destruct Hk as [->|[->| ->]]; assumption.
    Qed.

    Lemma gt_none k : k <> TGoldenTicket -> none_of k (opt_list gt).
    Proof.
      intros Hk. apply none_of_opt. intros g Hg. eapply is_type_other; [apply Hgt; exact Hg|exact Hk].
    Qed.
    Lemma fee_none k : k <> TFee -> none_of k (opt_list fee).
    Proof.
      intros Hk. apply none_of_opt. intros g Hg. eapply is_type_other; [apply Hfee; exact Hg|exact Hk].
    Qed.
    Lemma atr_none k : k <> TATR -> none_of k atrs.
    Proof. intros Hk. eapply none_of_all_other; eauto. Qed.

    Lemma final_atrs : filter (is_type TATR) (final_txs gt drained atrs fee) = atrs.
    Proof.
      unfold final_txs. rewrite !filter_app.
      rewrite (filter_none TATR (opt_list gt)) by (apply gt_none; discriminate).
      rewrite (filter_none TATR drained) by (apply pool_none; auto).
      rewrite (filter_all TATR atrs Hatr).
      rewrite (filter_none TATR (opt_list fee)) by (apply fee_none; discriminate).
      cbn. now rewrite app_nil_r.
    Qed.

    Lemma final_count k : k <> TGoldenTicket -> k <> TFee -> k <> TATR ->
      count_type k (final_txs gt drained atrs fee) = count_type k drained.
    Proof.
      intros H1 H2 H3. unfold final_txs. rewrite !count_app.
      rewrite (count_none k (opt_list gt)) by (now apply gt_none).
      rewrite (count_none k atrs) by (now apply atr_none).
      rewrite (count_none k (opt_list fee)) by (now apply fee_none). lia.
    Qed.

    Lemma final_count_gt :
      count_type TGoldenTicket (final_txs gt drained atrs fee) = if is_some gt then 1 else 0.
    Proof.
      unfold final_txs. rewrite !count_app.
      rewrite (count_none _ drained) by (apply pool_none; auto).
      rewrite (count_none _ atrs) by (apply atr_none; discriminate).
      rewrite (count_none _ (opt_list fee)) by (apply fee_none; discriminate).
      destruct gt as [g|]; cbn [opt_list is_some].
      - rewrite (count_one _ g) by (now apply Hgt). lia.
      - reflexivity.
    Qed.

    Lemma final_count_fee :
      count_type TFee (final_txs gt drained atrs fee) = if is_some fee then 1 else 0.
    Proof.
      unfold final_txs. rewrite !count_app.
      rewrite (count_none _ (opt_list gt)) by (apply gt_none; discriminate).
      rewrite (count_none _ drained) by (apply pool_none; auto).
      rewrite (count_none _ atrs) by (apply atr_none; discriminate).
      destruct fee as [f|]; cbn [opt_list is_some].
      - rewrite (count_one _ f) by (now apply Hfee). lia.
      - reflexivity.
    Qed.

    Lemma final_gt_index :
      last_index TGoldenTicket (final_txs gt drained atrs fee) = if is_some gt then Some 0 else None.
    Proof.
      assert (Hrest : none_of TGoldenTicket (drained ++ atrs ++ opt_list fee)).
      { rewrite !none_of_app. repeat split.
        - apply pool_none; auto.
        - apply atr_none; discriminate.
        - apply fee_none; discriminate. }
      unfold final_txs. destruct gt as [g|]; cbn [opt_list is_some app].
      - apply last_index_head; [now apply Hgt|exact Hrest].
      - apply last_index_none. exact Hrest.
    Qed.

    Lemma final_gt_at g : gt = Some g -> tx_at (final_txs gt drained atrs fee) 0 = Some g.
    Proof. intros ->. reflexivity. Qed.

    Lemma final_fee_index f : fee = Some f ->
      last_index TFee (final_txs gt drained atrs fee) = Some (Nlen ((opt_list gt ++ drained) ++ atrs))
      /\ tx_at (final_txs gt drained atrs fee) (Nlen ((opt_list gt ++ drained) ++ atrs)) = Some f.
    Proof.
      intros ->. unfold final_txs. cbn [opt_list]. rewrite app_assoc. split.
      - apply last_index_last; [now apply Hfee|].
        rewrite !none_of_app. repeat split.
        + apply gt_none; discriminate.
        + apply pool_none; auto.
        + apply atr_none; discriminate.
      - apply tx_at_last.
    Qed.
  End Shape.

  Lemma guarded_tpt e : nth 9 (guarded_fields e) 0 = e_total_payout_treasury e.
  Proof. reflexivity. Qed.
  Lemma guarded_tpg e : nth 10 (guarded_fields e) 0 = e_total_payout_graveyard e.
  Proof. reflexivity. Qed.
  Lemma guarded_tpa e : nth 11 (guarded_fields e) 0 = e_total_payout_atr e.
  Proof. reflexivity. Qed.

  Lemma nonempty_not_nil {A} (l : list A) : l <> [] -> is_nil l = false.
  Proof. destruct l; [congruence|reflexivity]. Qed.

  Theorem produced_validates : forall dbg (n : nodeM) creator ts gt drained b p,
    v_tip (view (n_chain _ n)) = Some p ->
    createM dbg n creator ts gt drained = Ok b ->
    let cC := cv (n_chain _ n) (n_ledger _ n) (pre_block (Some p) (par_hash p) creator ts gt drained) in
    let cV := cv (n_chain _ n) (n_ledger _ n) b in
    agreesb dbg hchain cC cV = true ->
    cv_types_ok cC = true ->
    (c_fee_tx cC <> None -> gt <> None) ->
    (forall g, gt = Some g -> is_type TGoldenTicket g = true /\ gt_ok (n_chain _ n) g = true) ->
    pool_types_ok drained = true ->
    drained <> [] ->
    count_type TIssuance drained = 0 ->
    (v_stake_req (view (n_chain _ n)) = 0 \/ count_type TBlockStake drained = 1) ->
    forallb (tx_valid (n_chain _ n) (n_ledger _ n)) (b_txs b) = true ->
    work_needed (par_burnfee p) ts (par_ts p) (v_heartbeat (view (n_chain _ n)))
      <= nsum (map t_work (opt_list gt ++ drained)) ->
    validateM dbg n true b = Ok true.
  Proof.
    intros dbg n creator ts gt drained b p Htip Hcreate cC cV Hag Hty Hfeegt Hgt Hpool Hne Hiss Hstake Hvalid Hwork.
    open_create Hcreate p gt drained.
    fold cC in Hcreate.
    set (C := c_econ cC) in *.
    destruct (uadd dbg (e_total_fees_new C) (e_total_fees_atr C)) as [tf| |s1] eqn:Etf; cbn [bind] in Hcreate; try discriminate.
    destruct (uadd dbg (par_treasury p) (e_total_payout_treasury C)) as [t1| |s2] eqn:Et1; cbn [bind] in Hcreate; try discriminate.
    destruct (usub dbg t1 (e_total_payout_atr C)) as [tr| |s3] eqn:Etr; cbn [bind] in Hcreate; try discriminate.
    destruct (uadd dbg (par_graveyard p) (e_total_payout_graveyard C)) as [gy| |s4] eqn:Egy; cbn [bind] in Hcreate; try discriminate.
    set (atrs := c_rebroadcasts cC) in *.
    set (fee := c_fee_tx cC) in *.
    fold (final_txs gt drained atrs fee) in Hcreate.
    set (txs1 := final_txs gt drained atrs fee) in *.
    destruct (dup_spend txs1) eqn:Edup; try discriminate.
    injection Hcreate as Hb.
    (* the hypotheses about cv, unpacked *)
    unfold cv_types_ok in Hty. fold atrs fee in Hty. rewrite andb_true_iff in Hty. destruct Hty as [Hatr Hfeety].
    assert (Hfee : forall f, fee = Some f -> is_type TFee f = true).
    { intros f Hf. rewrite Hf in Hfeety. exact Hfeety. }
    assert (Hgt1 : forall g, gt = Some g -> is_type TGoldenTicket g = true) by (intros g Hg; apply (Hgt g Hg)).
    unfold agreesb in Hag. fold C atrs fee in Hag. rewrite Etf in Hag.
    rewrite !andb_true_iff in Hag. destruct Hag as [[[[[[Hg Hbf] Hdf] Hsl] Hrh] Hsi] Hft].
    apply eqb_lN_eq in Hg. apply N.eqb_eq in Hbf, Hdf, Hsl, Hrh.
    set (V := c_econ cV) in *.
    assert (Htpt : e_total_payout_treasury V = e_total_payout_treasury C).
    { rewrite <- (guarded_tpt V), Hg. reflexivity. }
    assert (Htpg : e_total_payout_graveyard V = e_total_payout_graveyard C).
    { rewrite <- (guarded_tpg V), Hg. reflexivity. }
    assert (Htpa : e_total_payout_atr V = e_total_payout_atr C).
    { rewrite <- (guarded_tpa V), Hg. reflexivity. }
    (* projections of the produced block *)
    assert (Btxs : b_txs b = txs1) by (rewrite <- Hb; reflexivity).
    assert (Bid : b_id b = par_id p + 1) by (rewrite <- Hb; reflexivity).
    assert (Bts : b_ts b = ts) by (rewrite <- Hb; reflexivity).
    assert (Bprev : b_prev b = par_hash p) by (rewrite <- Hb; reflexivity).
    assert (Bsigned : b_signed b = true) by (rewrite <- Hb; reflexivity).
    assert (Becon : b_econ b = set_total_fees C tf) by (rewrite <- Hb; reflexivity).
    assert (Btr : b_treasury b = tr) by (rewrite <- Hb; reflexivity).
    assert (Bgy : b_graveyard b = gy) by (rewrite <- Hb; reflexivity).
    assert (Bunpaid : b_unpaid b = match gt with Some _ => 0 | None => par_total_fees p end) by (rewrite <- Hb; reflexivity).
    assert (Bmerkle : b_merkle b = mroot (map t_id txs1)) by (rewrite <- Hb; reflexivity).
    assert (Bwork : b_total_work b = nsum (map t_work txs1)) by (rewrite <- Hb; reflexivity).
    assert (Bslips : b_rb_slips b = nsum (map t_atr_slips (atr_txs txs1))) by (rewrite <- Hb; reflexivity).
    assert (Bhash : b_rb_hash b = hchain (map t_id (atr_txs txs1))) by (rewrite <- Hb; reflexivity).
    assert (Hatrs : atr_txs txs1 = atrs) by (apply final_atrs; assumption).
    clear Hb. subst txs1.
    unfold validate. cbv zeta. fold cV. fold V.
    rewrite Btxs, Bid, Bts, Bprev, Bsigned, Becon, Btr, Bgy, Bunpaid, Bmerkle, Bwork, Bslips, Bhash, Hatrs.
    (* 1: the block has transactions *)
    assert (Hnn : is_nil (final_txs gt drained atrs fee) = false).
    { apply nonempty_not_nil. unfold final_txs. destruct gt; cbn; [discriminate|].
      destruct drained; [congruence|discriminate]. }
    rewrite Hnn. cbn [andb negb].
    (* 2: comparisons *)
    unfold eq_all. rewrite Hg, eqb_lN_refl. cbn [andb negb].
    change (e_burnfee (set_total_fees C tf)) with (e_burnfee C).
    change (e_difficulty (set_total_fees C tf)) with (e_difficulty C).
    rewrite Hbf, Hdf, !N.eqb_refl. cbn [negb].
    (* 3: issuance / staking *)
    rewrite (final_count gt drained atrs fee) with (k := TIssuance) by (assumption || discriminate).
    rewrite Hiss. change (0 <? 0) with false. cbn [andb].
    rewrite (final_count gt drained atrs fee) with (k := TBlockStake) by (assumption || discriminate).
    assert (Hst : negb (v_stake_req (view (n_chain chain n)) =? 0) && negb (count_type TBlockStake drained =? 1) = false).
    { destruct Hstake as [-> | ->]; rewrite N.eqb_refl; cbn; [reflexivity|apply andb_false_r]. }
    rewrite Hst. cbn [andb].
    (* 4: the parent *)
    unfold parent_of. rewrite Htip, N.eqb_refl.
    destruct (par_ghost p); [reflexivity|].
    rewrite N.eqb_refl. cbn [negb].
    rewrite Htpt, Et1. cbn [bind]. rewrite Htpa, Etr. cbn [bind].
    rewrite N.eqb_refl. cbn [andb negb].
    rewrite Htpg, Egy. cbn [bind]. rewrite N.eqb_refl. cbn [andb negb].
    assert (Hw : (nsum (map t_work (final_txs gt drained atrs fee)) <? work_needed (par_burnfee p) ts (par_ts p) (v_heartbeat (view (n_chain chain n)))) = false).
    { apply N.ltb_ge. unfold final_txs. rewrite !map_app, !nsum_app. rewrite map_app, nsum_app in Hwork. lia. }
    rewrite Hw.
    rewrite (final_gt_index gt drained atrs fee) by assumption.
    assert (Hgtpart : (match (if is_some gt then Some 0 else None) with
                       | Some gi =>
                           if negb (match gt with Some _ => 0 | None => par_total_fees p end =? 0) then Ok (Some false)
                           else match tx_at (final_txs gt drained atrs fee) gi with
                                | Some g => if gt_ok (n_chain chain n) g then Ok None else Ok (Some false)
                                | None => Ok None
                                end
                       | None => if negb (match gt with Some _ => 0 | None => par_total_fees p end =? par_total_fees p)
                                 then Ok (Some false) else Ok None
                       end) = @Ok (option bool) None).
    { destruct gt as [g|] eqn:Eg; cbn [is_some].
      - rewrite N.eqb_refl. cbn [negb]. change (tx_at (final_txs (Some g) drained atrs fee) 0) with (Some g).
        destruct (Hgt g eq_refl) as [_ ->]. reflexivity.
      - rewrite N.eqb_refl. reflexivity. }
    rewrite Hgtpart. cbn [bind].
    (* 5: rebroadcasts, merkle root *)
    rewrite Hsl, Hrh, !N.eqb_refl. cbn [andb negb].
    rewrite Hsi. cbn [andb negb].
    (* 6: fee transaction *)
    assert (Hfc : fee_tx_check true cV (final_txs gt drained atrs fee) = true).
    { unfold fee_tx_check.
      rewrite (final_count_fee gt drained atrs fee) by assumption.
      rewrite (final_gt_index gt drained atrs fee) by assumption.
      destruct fee as [f|] eqn:Ef; cbn [is_some].
      - change (1 <? 1) with false. change (0 <? 1) with true. cbn [andb].
        destruct (c_fee_tx cV) as [f'|]; [|discriminate]. cbn [is_some negb].
        assert (Hfi := final_fee_index gt drained atrs (Some f)).
        destruct Hfi with (f := f) as [-> ->]; try assumption; try reflexivity.
        assert (Hgs : is_some gt = true).
        { destruct gt; [reflexivity|]. exfalso. apply Hfeegt; [discriminate|reflexivity]. }
        rewrite Hgs. cbn [is_some negb]. apply N.eqb_eq in Hft. rewrite Hft, N.eqb_refl. reflexivity.
      - change (1 <? 0) with false. change (0 <? 0) with false. change (0 =? 0) with true. cbn [andb].
        apply negb_true_iff in Hft. rewrite Hft. reflexivity. }
    rewrite Hfc. cbn [negb].
    (* 7: the sweep *)
    unfold txs_sweep. rewrite Btxs in Hvalid.
    rewrite Hvalid, Edup. reflexivity.
  Qed.

  Notation bundleM := (bundle chain view cv tx_valid gt_ok work_needed hchain mroot).
  Notation can_bundleM := (can_bundle chain view work_needed).
  Notation intakeM := (add_transaction_if_validates chain view tx_valid).

  (* ---------------------------------------------------------------- create: the list *)
  Lemma create_txs dbg (n : nodeM) creator ts gt drained b p :
    v_tip (view (n_chain _ n)) = Some p ->
    createM dbg n creator ts gt drained = Ok b ->
    let cC := cv (n_chain _ n) (n_ledger _ n) (pre_block (Some p) (par_hash p) creator ts gt drained) in
    b_txs b = final_txs gt drained (c_rebroadcasts cC) (c_fee_tx cC)
    /\ b_unpaid b = match gt with Some _ => 0 | None => par_total_fees p end
    /\ b_prev b = par_hash p.
  Proof.
    intros Htip Hcreate cC. open_create Hcreate p gt drained.
    fold cC in Hcreate.
    destruct (uadd dbg _ _) as [tf| |s1]; cbn [bind] in Hcreate; try discriminate.
    destruct (uadd dbg _ _) as [t1| |s2]; cbn [bind] in Hcreate; try discriminate.
    destruct (usub dbg _ _) as [tr| |s3]; cbn [bind] in Hcreate; try discriminate.
    destruct (uadd dbg _ _) as [gy| |s4]; cbn [bind] in Hcreate; try discriminate.
    destruct (dup_spend _); try discriminate.
    injection Hcreate as <-. repeat split; reflexivity.
  Qed.

  (* ---------------------------------------------------------------- the gate *)
  Lemma gate_inv (n : nodeM) m ts g w p :
    v_tip (view (n_chain _ n)) = Some p ->
    can_bundleM n m ts g = Some w ->
    is_nil (m_txs m) = false /\ m_fresh m = true /\ gt_count_ok (view (n_chain _ n)) g = true
    /\ work_needed (par_burnfee p) ts (par_ts p) (v_heartbeat (view (n_chain _ n))) <= m_work m
    /\ par_ts p + v_offset (view (n_chain _ n)) <= ts.
  Proof.
    intros Htip H. unfold can_bundle in H. rewrite Htip in H.
    destruct (v_blocks_empty _); [discriminate|].
    destruct (m_queue_empty m); cbn [negb] in H; [|discriminate].
    destruct (is_nil (m_txs m)); cbn [orb] in H; [discriminate|].
    destruct (m_fresh m); cbn [negb] in H; [|discriminate].
    destruct (gt_count_ok _ g); cbn [negb] in H; [|discriminate].
    destruct (ts <? par_ts p + v_offset _) eqn:E1; [discriminate|].
    destruct (work_needed _ _ _ _ <=? m_work m) eqn:E2; [|discriminate].
    apply N.ltb_ge in E1. apply N.leb_le in E2. auto.
  Qed.

  Lemma gate_started (n : nodeM) m ts g w :
    can_bundleM n m ts g = Some w -> v_blocks_empty (view (n_chain _ n)) = false.
  Proof.
    unfold can_bundle. destruct (v_blocks_empty _); [discriminate|reflexivity].
  Qed.

  (* bundle allowed => the block's total_work (recomputed by Block::generate over ALL its
     transactions) reaches the work Block::validate asks for -- provided the cached pool work
     does not over-report the pooled transactions *)
  Theorem gate_implies_work : forall dbg (n : nodeM) creator m ts gt w p drained b,
    v_tip (view (n_chain _ n)) = Some p ->
    can_bundleM n m ts (is_some gt) = Some w ->
    m_work m <= nsum (map t_work drained) ->
    createM dbg n creator ts gt drained = Ok b ->
    work_needed (par_burnfee p) (b_ts b) (par_ts p) (v_heartbeat (view (n_chain _ n))) <= b_total_work b.
  Proof.
    intros dbg n creator m ts gt w p drained b Htip Hgate Hcache Hcreate.
    destruct (gate_inv n m ts (is_some gt) w p Htip Hgate) as (_ & _ & _ & Hneed & _).
    open_create Hcreate p gt drained.
    destruct (uadd dbg _ _) as [tf| |s1]; cbn [bind] in Hcreate; try discriminate.
    destruct (uadd dbg _ _) as [t1| |s2]; cbn [bind] in Hcreate; try discriminate.
    destruct (usub dbg _ _) as [tr| |s3]; cbn [bind] in Hcreate; try discriminate.
    destruct (uadd dbg _ _) as [gy| |s4]; cbn [bind] in Hcreate; try discriminate.
    destruct (dup_spend _); try discriminate.
    injection Hcreate as <-. cbn [generate b_ts b_total_work b_txs].
    rewrite !map_app, !nsum_app. lia.
  Qed.

  (* ---------------------------------------------------------------- the pool's intake *)
  Lemma add_transaction_txs dbg m t m1 :
    add_transaction dbg m t = Ok m1 ->
    (m_txs m1 = m_txs m \/ (m_txs m1 = t :: m_txs m /\ is_type TGoldenTicket t = false))
    /\ m_gts m1 = m_gts m.
  Proof.
    unfold add_transaction. destruct (conflicts m t); [intros [= <-]; auto|].
    destruct (has_sig _ _); [intros [= <-]; auto|].
    destruct (uadd dbg _ _) as [w| |s]; cbn [bind]; try discriminate.
    destruct (is_type TGoldenTicket t) eqn:E; [discriminate|]. intros [= <-]. cbn. auto.
  Qed.

  Lemma intake_txs dbg (n : nodeM) m t m1 :
    intakeM dbg n m t = Ok m1 ->
    (m_txs m1 = m_txs m \/ (m_txs m1 = t :: m_txs m /\ pool_tx_ok t = true
                             /\ (v_blocks_empty (view (n_chain _ n)) = false -> is_type TIssuance t = false)))
    /\ m_gts m1 = m_gts m.
  Proof.
    unfold add_transaction_if_validates. destruct (producer_only t) eqn:Ep; [intros [= <-]; auto|].
    destruct (is_type TBlockStake t && negb (t_own t)); [intros [= <-]; auto|].
    destruct (is_type TIssuance t && negb (v_blocks_empty (view (n_chain _ n)))) eqn:Ei; [intros [= <-]; auto|].
    destruct (tx_valid _ _ t); [|intros [= <-]; auto].
    intros H. destruct (add_transaction_txs dbg m t m1 H) as [[H1|[H1 H2]] H3]; split; auto.
    right. split; [exact H1|]. split.
    - unfold pool_tx_ok. unfold producer_only in Ep.
      rewrite !orb_false_iff in Ep. destruct Ep as [[E1 E2] E3]. now rewrite H2, E1, E2.
    - intros Hs. rewrite Hs in Ei. cbn [negb] in Ei. now rewrite andb_true_r in Ei.
  Qed.

  Lemma issuance_refused dbg (n : nodeM) m t m1 :
    v_blocks_empty (view (n_chain _ n)) = false ->
    intakeM dbg n m t = Ok m1 ->
    (m_txs m1 = m_txs m \/ (m_txs m1 = t :: m_txs m /\ pool_tx_ok t = true /\ is_type TIssuance t = false))
    /\ m_gts m1 = m_gts m.
  Proof.
    intros Hs Hi. destruct (intake_txs dbg n m t m1 Hi) as [[E|(E & Hok & Hni)] Hg]; split; auto.
  Qed.

  Lemma drain_perm order l : Permutation (drain_in order l) l.
  Proof. apply sort_by_perm. Qed.

  Lemma nsum_work_cons (t : tx) l : nsum (map t_work l) <= nsum (map t_work (t :: l)).
  Proof. cbn. unfold nsum; cbn. fold (nsum (map t_work l)). lia. Qed.


  (* ---------------------------------------------------------------- the filter of fix 1214e31 *)
  (* the pooled transactions Block::create goes on with, given the consensus values [c0] of the
     unfiltered half-built block *)
  Definition kept_pool (c0 : cvrec) (d : list tx) : list tx :=
    if is_nil (c_rebroadcasts c0) then d else filter (keepf c0) d.

  Lemma filter_len_le {A} (f : A -> bool) l : (length (filter f l) <= length l)%nat.
  Proof. induction l as [|x r IH]; cbn; [lia|]. destruct (f x); cbn; lia. Qed.

  Lemma filter_length_eq {A} (f : A -> bool) l : length (filter f l) = length l -> filter f l = l.
  Proof.
    induction l as [|x r IH]; cbn; [reflexivity|]. destruct (f x); cbn; intros H.
    - f_equal. apply IH. lia.
    - exfalso. pose proof (filter_len_le f r). lia.
  Qed.

  Lemma kept_pool_length_eq c0 d : length (kept_pool c0 d) = length d -> kept_pool c0 d = d.
  Proof. unfold kept_pool. destruct (is_nil _); [reflexivity|apply filter_length_eq]. Qed.

  Lemma keep_txs_split c0 gt d :
    (forall g, gt = Some g -> is_type TGoldenTicket g = true) ->
    keep_txs c0 (opt_list gt ++ d) = opt_list gt ++ kept_pool c0 d.
  Proof.
    intros Hgt. unfold keep_txs, kept_pool. destruct (is_nil _); [reflexivity|].
    rewrite filter_app. f_equal. destruct gt as [g|]; cbn; [|reflexivity].
    unfold keepf. now rewrite (Hgt g eq_refl).
  Qed.

  Lemma kept_pool_incl c0 d t : In t (kept_pool c0 d) -> In t d.
  Proof. unfold kept_pool. destruct (is_nil _); [auto|]. intros H. apply filter_In in H. apply H. Qed.

  Lemma kept_pool_forallb f c0 d : forallb f d = true -> forallb f (kept_pool c0 d) = true.
  Proof.
    rewrite !forallb_forall. intros H t Ht. apply H. eapply kept_pool_incl; eauto.
  Qed.

  Lemma kept_pool_count k c0 d : count_type k (kept_pool c0 d) <= count_type k d.
  Proof. unfold kept_pool, count_type. destruct (is_nil _); [lia|apply countb_filter_le]. Qed.

  (* what is left collides with no rebroadcast of the block *)
  Lemma kept_pool_no_collision c0 d t :
    c_rebroadcasts c0 <> [] -> In t (kept_pool c0 d) ->
    is_type TGoldenTicket t = true \/ collides (rb_inputs c0) t = false.
  Proof.
    intros Hne H. unfold kept_pool in H. destruct (c_rebroadcasts c0) eqn:E; [congruence|].
    cbn [is_nil] in H. apply filter_In in H. destruct H as [_ H]. unfold keepf in H.
    apply orb_true_iff in H. destruct H as [H|H]; [left; exact H|right; now apply negb_true_iff].
  Qed.

  Lemma create_pre_eq (n : nodeM) creator ts gt d p :
    v_tip (view (n_chain _ n)) = Some p ->
    (forall g, gt = Some g -> is_type TGoldenTicket g = true) ->
    let c0 := cv (n_chain _ n) (n_ledger _ n) (pre_block (Some p) (par_hash p) creator ts gt d) in
    let b1 := pre_block (Some p) (par_hash p) creator ts gt (kept_pool c0 d) in
    create_pre chain view cv n creator ts gt d = (b1, cv (n_chain _ n) (n_ledger _ n) b1).
  Proof.
    intros Htip Hgt c0 b1. unfold create_pre, tip_hash_of. rewrite Htip. cbv zeta.
    change (b_txs (pre_block (Some p) (par_hash p) creator ts gt d)) with (opt_list gt ++ d).
    fold c0. rewrite (keep_txs_split c0 gt d Hgt).
    change (set_txs (pre_block (Some p) (par_hash p) creator ts gt d) (opt_list gt ++ kept_pool c0 d)) with b1.
    f_equal. destruct (Nat.eqb _ _) eqn:E; [|reflexivity].
    apply Nat.eqb_eq in E. rewrite !app_length in E.
    assert (Hk : kept_pool c0 d = d) by (apply kept_pool_length_eq; lia).
    unfold b1. rewrite Hk. reflexivity.
  Qed.

  (* Block::create = the plain steps on the pool that is left *)
  Lemma create_bridge dbg (n : nodeM) creator ts gt d p :
    v_tip (view (n_chain _ n)) = Some p ->
    (forall g, gt = Some g -> is_type TGoldenTicket g = true) ->
    createF dbg n creator ts gt d
    = createM dbg n creator ts gt
        (kept_pool (cv (n_chain _ n) (n_ledger _ n) (pre_block (Some p) (par_hash p) creator ts gt d)) d).
  Proof.
    intros Htip Hgt. unfold create. rewrite (create_pre_eq n creator ts gt d p Htip Hgt). cbn [fst snd].
    unfold create_plain, tip_hash_of. rewrite Htip. reflexivity.
  Qed.

  Theorem produced_validates_F : forall dbg (n : nodeM) creator ts gt drained b p,
    v_tip (view (n_chain _ n)) = Some p ->
    createF dbg n creator ts gt drained = Ok b ->
    let c0 := cv (n_chain _ n) (n_ledger _ n) (pre_block (Some p) (par_hash p) creator ts gt drained) in
    let kept := kept_pool c0 drained in
    let cC := cv (n_chain _ n) (n_ledger _ n) (pre_block (Some p) (par_hash p) creator ts gt kept) in
    let cV := cv (n_chain _ n) (n_ledger _ n) b in
    agreesb dbg hchain cC cV = true ->
    cv_types_ok cC = true ->
    (c_fee_tx cC <> None -> gt <> None) ->
    (forall g, gt = Some g -> is_type TGoldenTicket g = true /\ gt_ok (n_chain _ n) g = true) ->
    pool_types_ok drained = true ->
    kept <> [] ->
    count_type TIssuance drained = 0 ->
    (v_stake_req (view (n_chain _ n)) = 0 \/ count_type TBlockStake kept = 1) ->
    forallb (tx_valid (n_chain _ n) (n_ledger _ n)) (b_txs b) = true ->
    work_needed (par_burnfee p) ts (par_ts p) (v_heartbeat (view (n_chain _ n)))
      <= nsum (map t_work (opt_list gt ++ kept)) ->
    validateM dbg n true b = Ok true.
  Proof.
    intros dbg n creator ts gt drained b p Htip Hcreate c0 kept cC cV Hag Hty Hfeegt Hgt Hpool Hne Hiss Hstake Hvalid Hwork.
    assert (Hgt1 : forall g, gt = Some g -> is_type TGoldenTicket g = true) by (intros g Hg; apply (Hgt g Hg)).
    rewrite (create_bridge dbg n creator ts gt drained p Htip Hgt1) in Hcreate. fold c0 kept in Hcreate.
    eapply produced_validates; eauto.
    - apply kept_pool_forallb. exact Hpool.
    - pose proof (kept_pool_count TIssuance c0 drained). fold kept in H. lia.
  Qed.

  (* ---------------------------------------------------------------- bundle_block *)
  Lemma screen_inv (n : nodeM) m gt gt' m0 :
    screen_ticket chain view gt_ok n m gt = (gt', m0) ->
    m_txs m0 = m_txs m /\ m_work m0 = m_work m /\ m_umap m0 = m_umap m
    /\ (forall g, gt' = Some g -> gt = Some g /\ gt_ok (n_chain _ n) g = true /\ m0 = m)
    /\ (gt' = None -> gt = None /\ m0 = m \/ exists g, gt = Some g /\ gt_ok (n_chain _ n) g = false /\ m0 = drop_ticket chain view n m g).
  Proof.
    unfold screen_ticket. destruct gt as [g|].
    - destruct (gt_ok _ g) eqn:E; intros H; injection H as <- <-; cbn.
      + split; [reflexivity|]. split; [reflexivity|]. split; [reflexivity|]. split.
        * intros x Hx. injection Hx as <-. auto.
        * intros Hx. discriminate Hx.
      + split; [reflexivity|]. split; [reflexivity|]. split; [reflexivity|]. split.
        * intros x Hx. discriminate Hx.
        * intros _. right. exists g. auto.
    - intros H; injection H as <- <-.
      split; [reflexivity|]. split; [reflexivity|]. split; [reflexivity|]. split.
      + intros x Hx. discriminate Hx.
      + intros _. left. auto.
  Qed.

  Lemma bundle_inv dbg (n : nodeM) creator m ts gt stake order b m' p :
    v_tip (view (n_chain _ n)) = Some p ->
    bundleM dbg n creator m ts gt stake order = Ok (Bundled b, m') ->
    exists gt' m0 w s m1,
      screen_ticket chain view gt_ok n m gt = (gt', m0)
      /\ can_bundleM n m0 ts (is_some gt') = Some w /\ stake = Some s /\ intakeM dbg n m0 s = Ok m1
      /\ createF dbg n creator ts gt' (drain_in order (m_txs m1)) = Ok b
      /\ m_gts m' = m_gts m0 /\ m_txs m' = [].
  Proof.
    intros Htip H. unfold bundle in H. rewrite Htip in H.
    destruct (negb (par_ts p <? ts)); [discriminate|].
    destruct (screen_ticket _ _ _ n m gt) as [gt' m0] eqn:Es.
    destruct (can_bundle _ _ _ n m0 ts (is_some gt')) as [w|] eqn:Eg; [|discriminate].
    destruct stake as [s|]; [|discriminate].
    destruct (add_transaction_if_validates _ _ _ dbg n m0 s) as [m1| |s1] eqn:Ei; cbn [bind] in H; try discriminate.
    destruct (create _ _ _ _ _ dbg n creator ts gt' _) as [b0| |s2] eqn:Ec; try discriminate.
    injection H as <- <-. exists gt', m0, w, s, m1. cbn. repeat split; auto.
    destruct (intake_txs dbg n m0 s m1 Ei) as [_ ->]. reflexivity.
  Qed.

  Theorem bundle_produced_validates_gen : forall dbg (n : nodeM) creator m ts gt stake order b m' p,
    v_tip (view (n_chain _ n)) = Some p ->
    bundleM dbg n creator m ts gt stake order = Ok (Bundled b, m') ->
    forall gt' m0 s m1,
    screen_ticket chain view gt_ok n m gt = (gt', m0) ->
    stake = Some s -> intakeM dbg n m0 s = Ok m1 ->
    let drained := drain_in order (m_txs m1) in
    let c0 := cv (n_chain _ n) (n_ledger _ n) (pre_block (Some p) (par_hash p) creator ts gt' drained) in
    let kept := kept_pool c0 drained in
    let cC := cv (n_chain _ n) (n_ledger _ n) (pre_block (Some p) (par_hash p) creator ts gt' kept) in
    let cV := cv (n_chain _ n) (n_ledger _ n) b in
    agreesb dbg hchain cC cV = true ->
    cv_types_ok cC = true ->
    (c_fee_tx cC <> None -> gt' <> None) ->
    (forall g, gt = Some g -> is_type TGoldenTicket g = true) ->
    pool_types_ok (m_txs m1) = true ->
    count_type TIssuance (m_txs m1) = 0 ->
    (v_stake_req (view (n_chain _ n)) = 0 \/ count_type TBlockStake kept = 1) ->
    forallb (tx_valid (n_chain _ n) (n_ledger _ n)) (b_txs b) = true ->
    m_work m <= nsum (map t_work (m_txs m)) ->
    (* what create leaves out must not have been what carried the work, nor the whole pool *)
    kept <> [] ->
    nsum (map t_work (m_txs m1)) <= nsum (map t_work kept)
      \/ work_needed (par_burnfee p) ts (par_ts p) (v_heartbeat (view (n_chain _ n))) <= nsum (map t_work kept) ->
    supply_ok (n_chain _ n) (n_ledger _ n) b = true ->
    acceptsM dbg n b = Ok true.
  Proof.
    intros dbg n creator m ts gt stake order b m' p Htip Hb gt' m0 s m1 Hsc Hs Hi drained c0 kept cC cV
           Hag Hty Hfeegt Hgt Hpool Hiss Hstake Hvalid Hcache Hne Hkw Hsupply.
    destruct (bundle_inv dbg n creator m ts gt stake order b m' p Htip Hb)
      as (gt2 & m02 & w & s' & m1' & Hsc' & Hgate & Hs' & Hi' & Hcreate & _ & _).
    rewrite Hsc in Hsc'. injection Hsc' as <- <-.
    rewrite Hs in Hs'. injection Hs' as <-. rewrite Hi in Hi'. injection Hi' as <-.
    fold drained in Hcreate.
    destruct (screen_inv n m gt gt' m0 Hsc) as (Htx0 & Hw0 & _ & Hsome & _).
    destruct (gate_inv n m0 ts (is_some gt') w p Htip Hgate) as (Hnil & _ & Hgtc & Hneed & _).
    assert (Hperm : Permutation drained (m_txs m1)) by apply drain_perm.
    assert (Hsup : nsum (map t_work (m_txs m0)) <= nsum (map t_work (m_txs m1))).
    { destruct (intake_txs dbg n m0 s m1 Hi) as [[->|[-> _]] _]; [lia|apply nsum_work_cons]. }
    assert (Hgt' : forall g, gt' = Some g -> is_type TGoldenTicket g = true /\ gt_ok (n_chain _ n) g = true).
    { intros g Hg. destruct (Hsome g Hg) as (Hgg & Hok & _). split; [now apply Hgt|exact Hok]. }
    assert (Hgt1 : forall g, gt' = Some g -> is_type TGoldenTicket g = true) by (intros g Hg; apply (Hgt' g Hg)).
    assert (Hpool' : pool_types_ok drained = true).
    { unfold pool_types_ok in *. rewrite (forallb_perm _ _ _ Hperm). exact Hpool. }
    assert (Hcreate' := Hcreate).
    rewrite (create_bridge dbg n creator ts gt' drained p Htip Hgt1) in Hcreate'. fold c0 kept in Hcreate'.
    destruct (create_txs dbg n creator ts gt' kept b p Htip Hcreate') as (Htxs & _ & _). fold cC in Htxs.
    unfold cv_types_ok in Hty. rewrite andb_true_iff in Hty. destruct Hty as [Hatr Hfeety].
    assert (Hfee : forall f, c_fee_tx cC = Some f -> is_type TFee f = true).
    { intros f Hf. rewrite Hf in Hfeety. exact Hfeety. }
    assert (Hpoolk : pool_types_ok kept = true) by (apply kept_pool_forallb; exact Hpool').
    assert (Hhas : has_gt b = is_some gt').
    { unfold has_gt. rewrite Htxs. rewrite final_count_gt by assumption. destruct gt'; reflexivity. }
    unfold node_accepts. rewrite Hhas, Hgtc. cbn [negb].
    assert (Hv : validateM dbg n true b = Ok true); [|rewrite Hv; cbn [bind]; rewrite Hsupply; reflexivity].
    apply produced_validates_F with (creator := creator) (ts := ts) (gt := gt') (drained := drained) (p := p); auto.
    - unfold cv_types_ok. fold c0 kept cC. rewrite Hatr. cbn [andb]. exact Hfeety.
    - unfold count_type in *. rewrite (countb_perm _ _ _ Hperm). exact Hiss.
    - fold c0 kept. rewrite map_app, nsum_app. destruct Hkw as [Hkw|Hkw]; [|lia].
      rewrite Htx0, Hw0 in *. lia.
  Qed.

  (* the second node: Block::validate reads the chain (blocks, ring, block files) and the
     ledger; the ledger is a function of the chain on every node (C03) *)
  Theorem second_node_same : forall (replay : chain -> list N) dbg (n n2 : nodeM) b,
    n_chain _ n2 = n_chain _ n ->
    n_ledger _ n = replay (n_chain _ n) ->
    n_ledger _ n2 = replay (n_chain _ n2) ->
    acceptsM dbg n2 b = acceptsM dbg n b.
  Proof.
    intros replay dbg [c l] [c2 l2] b; cbn. intros -> -> ->. reflexivity.
  Qed.
  Ltac step_if :=
    match goal with
    | |- (if ?c then _ else _) <> _ => destruct c; [discriminate|]
    end.

  Theorem invalid_gt_rejected_plain : forall dbg (n : nodeM) creator ts g drained b p vu,
    v_tip (view (n_chain _ n)) = Some p ->
    par_ghost p = false ->
    createM dbg n creator ts (Some g) drained = Ok b ->
    is_type TGoldenTicket g = true ->
    gt_ok (n_chain _ n) g = false ->
    pool_types_ok drained = true ->
    cv_types_ok (cv (n_chain _ n) (n_ledger _ n) (pre_block (Some p) (par_hash p) creator ts (Some g) drained)) = true ->
    validateM dbg n vu b <> Ok true.
  Proof.
    intros dbg n creator ts g drained b p vu Htip Hghost Hcreate Hg Hbad Hpool Hty.
    destruct (create_txs dbg n creator ts (Some g) drained b p Htip Hcreate) as (Htxs & Hunpaid & Hprev).
    set (cC := cv (n_chain _ n) (n_ledger _ n) (pre_block (Some p) (par_hash p) creator ts (Some g) drained)) in *.
    unfold cv_types_ok in Hty. rewrite andb_true_iff in Hty. destruct Hty as [Hatr Hfeety].
    assert (Hfee : forall f, c_fee_tx cC = Some f -> is_type TFee f = true).
    { intros f Hf. rewrite Hf in Hfeety. exact Hfeety. }
    assert (Hgt1 : forall g0, Some g = Some g0 -> is_type TGoldenTicket g0 = true) by (intros g0 [= <-]; exact Hg).
    unfold validate. cbv zeta.
    repeat step_if.
    unfold parent_of. rewrite Htip, Hprev, N.eqb_refl, Hghost.
    destruct (negb (b_id b =? par_id p + 1)); cbn [bind]; [discriminate|].
    destruct (uadd dbg _ _) as [t1| |s2]; cbn [bind]; try discriminate.
    destruct (usub dbg _ _) as [tr| |s3]; cbn [bind]; try discriminate.
    destruct (vu && negb (b_treasury b =? tr)); cbn [bind]; [discriminate|].
    destruct (uadd dbg _ _) as [gy| |s4]; cbn [bind]; try discriminate.
    destruct (vu && negb (b_graveyard b =? gy)); cbn [bind]; [discriminate|].
    destruct (b_total_work b <? _); cbn [bind]; [discriminate|].
    rewrite Htxs. rewrite (final_gt_index (Some g) drained (c_rebroadcasts cC) (c_fee_tx cC)) by assumption.
    cbn [is_some]. rewrite Hunpaid, N.eqb_refl. cbn [negb].
    change (tx_at (final_txs (Some g) drained (c_rebroadcasts cC) (c_fee_tx cC)) 0) with (Some g).
    cbv iota beta. rewrite Hbad. cbn [bind]. discriminate.
  Qed.


  (* the same for Block::create as it is (with the filter) *)
  Theorem invalid_gt_rejected : forall dbg (n : nodeM) creator ts g drained b p vu,
    v_tip (view (n_chain _ n)) = Some p ->
    par_ghost p = false ->
    createF dbg n creator ts (Some g) drained = Ok b ->
    is_type TGoldenTicket g = true ->
    gt_ok (n_chain _ n) g = false ->
    pool_types_ok drained = true ->
    (forall b0, cv_types_ok (cv (n_chain _ n) (n_ledger _ n) b0) = true) ->
    validateM dbg n vu b <> Ok true.
  Proof.
    intros dbg n creator ts g drained b p vu Htip Hghost Hcreate Hg Hbad Hpool Hty.
    assert (Hgt1 : forall g0, Some g = Some g0 -> is_type TGoldenTicket g0 = true) by (intros g0 [= <-]; exact Hg).
    rewrite (create_bridge dbg n creator ts (Some g) drained p Htip Hgt1) in Hcreate.
    eapply invalid_gt_rejected_plain; eauto. apply kept_pool_forallb. exact Hpool.
  Qed.

  (* ---------------------------------------------------------------- fix e0300b2: the producer recovers *)
  Theorem bad_ticket_dropped : forall dbg (n : nodeM) creator m ts g stake order,
    (match v_tip (view (n_chain _ n)) with Some p => par_ts p | None => 0 end) < ts ->
    gt_ok (n_chain _ n) g = false ->
    bundleM dbg n creator m ts (Some g) stake order
    = bundleM dbg n creator (drop_ticket chain view n m g) ts None stake order.
  Proof.
    intros dbg n creator m ts g stake order Hts Hbad. unfold bundle.
    assert (E : negb ((match v_tip (view (n_chain _ n)) with Some p => par_ts p | None => 0 end) <? ts) = false).
    { apply negb_false_iff. now apply N.ltb_lt. }
    rewrite E. unfold screen_ticket. rewrite Hbad. reflexivity.
  Qed.

  Lemma find_del_gt_same h (l : list (N * tx)) : find (fun x : N * tx => fst x =? h) (del_gt h l) = None.
  Proof.
    unfold del_gt. induction l as [|[k t] r IH]; cbn; [reflexivity|].
    destruct (k =? h) eqn:E; cbn; [exact IH|]. now rewrite E.
  Qed.

  Lemma find_del_gt_other h h' (l : list (N * tx)) :
    find (fun x : N * tx => fst x =? h) l = None ->
    find (fun x : N * tx => fst x =? h) (del_gt h' l) = None.
  Proof.
    unfold del_gt. induction l as [|[k t] r IH]; cbn; [reflexivity|].
    destruct (k =? h) eqn:E; [discriminate|]. intros H. destruct (k =? h'); cbn; [auto|]. rewrite E. auto.
  Qed.

  Lemma drop_ticket_unpicks (n : nodeM) m g : pick_gt (drop_ticket chain view n m g) (tip_hash_of chain view n) = None.
  Proof.
    unfold pick_gt, drop_ticket. cbn [m_gts].
    rewrite find_del_gt_other; [reflexivity|apply find_del_gt_same].
  Qed.

  Lemma bundle_keeps dbg (n : nodeM) creator m ts gt stake order out m' gt' m0 :
    (match v_tip (view (n_chain _ n)) with Some p => par_ts p | None => 0 end) < ts ->
    screen_ticket chain view gt_ok n m gt = (gt', m0) ->
    bundleM dbg n creator m ts gt stake order = Ok (out, m') ->
    m_gts m' = m_gts m0.
  Proof.
    intros Hts Hsc H. unfold bundle in H.
    assert (E : negb ((match v_tip (view (n_chain _ n)) with Some p => par_ts p | None => 0 end) <? ts) = false).
    { apply negb_false_iff. now apply N.ltb_lt. }
    rewrite E, Hsc in H.
    destruct (can_bundle _ _ _ n m0 ts (is_some gt')); [|injection H as <- <-; auto].
    destruct stake as [s|]; [|injection H as <- <-; auto].
    destruct (add_transaction_if_validates _ _ _ dbg n m0 s) as [m1| |s1] eqn:Ei; cbn [bind] in H; try discriminate.
    destruct (intake_txs dbg n m0 s m1 Ei) as [_ Hg].
    destruct (create _ _ _ _ _ dbg n creator ts gt' _) as [b0| |s2]; try discriminate;
      injection H as <- <-; cbn [m_gts]; auto.
  Qed.

  (* a pooled ticket for the tip that does not solve it: ONE call of bundle_block (with the
     clock after the tip) removes it, whatever else the call does; a block that comes out is
     built without a ticket and is judged like any other block (bundle_produced_validates);
     the next tick finds no ticket for the tip *)
  Theorem producer_recovers : forall dbg (n : nodeM) creator m ts g stake order out m',
    (match v_tip (view (n_chain _ n)) with Some p => par_ts p | None => 0 end) < ts ->
    pick_gt m (tip_hash_of chain view n) = Some g ->
    gt_ok (n_chain _ n) g = false ->
    bundleM dbg n creator m ts (pick_gt m (tip_hash_of chain view n)) stake order = Ok (out, m') ->
    pick_gt m' (tip_hash_of chain view n) = None
    /\ bundleM dbg n creator (drop_ticket chain view n m g) ts None stake order = Ok (out, m').
  Proof.
    intros dbg n creator m ts g stake order out m' Hts Hpick Hbad H. rewrite Hpick in H.
    split.
    - assert (Hsc : screen_ticket chain view gt_ok n m (Some g) = (None, drop_ticket chain view n m g)).
      { unfold screen_ticket. now rewrite Hbad. }
      unfold pick_gt. rewrite (bundle_keeps dbg n creator m ts (Some g) stake order out m' None _ Hts Hsc H).
      apply drop_ticket_unpicks.
    - rewrite <- H. symmetry. now apply bad_ticket_dropped.
  Qed.

  (* a ticket that reaches Block::create through bundle_block solves the tip *)
  Theorem bundled_ticket_solves : forall dbg (n : nodeM) creator m ts gt stake order b m' p g,
    v_tip (view (n_chain _ n)) = Some p ->
    bundleM dbg n creator m ts gt stake order = Ok (Bundled b, m') ->
    fst (screen_ticket chain view gt_ok n m gt) = Some g ->
    gt = Some g /\ gt_ok (n_chain _ n) g = true.
  Proof.
    intros dbg n creator m ts gt stake order b m' p g Htip Hb Hs.
    destruct (screen_ticket chain view gt_ok n m gt) as [gt' m0] eqn:E. cbn in Hs. subst gt'.
    destruct (screen_inv n m gt (Some g) m0 E) as (_ & _ & _ & H & _).
    destruct (H g eq_refl) as (H1 & H2 & _). auto.
  Qed.

  (* ---------------------------------------------------------------- fix 9879695 *)
  Theorem foreign_stake_refused : forall dbg (n : nodeM) m t,
    is_type TBlockStake t = true -> t_own t = false -> intakeM dbg n m t = Ok m.
  Proof.
    intros dbg n m t Ht Ho. unfold add_transaction_if_validates.
    destruct (producer_only t); [reflexivity|]. now rewrite Ht, Ho.
  Qed.
  (* ---------------------------------------------------------------- agreesb, field by field *)
  Theorem agreesb_fields : forall dbg cC cV,
    agreesb dbg hchain cC cV = true <->
    let C := c_econ cC in let V := c_econ cV in
    uadd dbg (e_total_fees_new C) (e_total_fees_atr C) = Ok (e_total_fees V)
    /\ e_total_fees_new V = e_total_fees_new C
    /\ e_total_fees_atr V = e_total_fees_atr C
    /\ e_total_fees_cumulative V = e_total_fees_cumulative C
    /\ e_avg_total_fees V = e_avg_total_fees C
    /\ e_avg_total_fees_new V = e_avg_total_fees_new C
    /\ e_avg_total_fees_atr V = e_avg_total_fees_atr C
    /\ e_total_payout_routing V = e_total_payout_routing C
    /\ e_total_payout_mining V = e_total_payout_mining C
    /\ e_total_payout_treasury V = e_total_payout_treasury C
    /\ e_total_payout_graveyard V = e_total_payout_graveyard C
    /\ e_total_payout_atr V = e_total_payout_atr C
    /\ e_avg_payout_routing V = e_avg_payout_routing C
    /\ e_avg_payout_mining V = e_avg_payout_mining C
    /\ e_avg_payout_treasury V = e_avg_payout_treasury C
    /\ e_avg_payout_graveyard V = e_avg_payout_graveyard C
    /\ e_avg_payout_atr V = e_avg_payout_atr C
    /\ e_avg_fee_per_byte V = e_avg_fee_per_byte C
    /\ e_fee_per_byte V = e_fee_per_byte C
    /\ e_avg_nolan_rebroadcast_per_block V = e_avg_nolan_rebroadcast_per_block C
    /\ e_burnfee V = e_burnfee C
    /\ e_difficulty V = e_difficulty C
    /\ c_total_rebroadcast_slips cV = nsum (map t_atr_slips (c_rebroadcasts cC))
    /\ c_rebroadcast_hash cV = hchain (map t_id (c_rebroadcasts cC))
    /\ same_inputs (c_rebroadcasts cC) (c_rebroadcasts cV) = true
    /\ match c_fee_tx cC with
       | Some f => exists f', c_fee_tx cV = Some f' /\ t_id f' = t_id f
       | None => c_fee_tx cV = None
       end.
  Proof.
    intros dbg cC cV. cbv zeta. unfold agreesb.
    rewrite !andb_true_iff, !N.eqb_eq.
    split.
    - intros [[[[[[Hg Hbf] Hdf] Hsl] Hrh] Hsi] Hft].
      destruct (uadd dbg _ _) as [tf| |s] eqn:Etf; try discriminate.
      apply eqb_lN_eq in Hg. unfold guarded_fields, set_total_fees in Hg. cbn in Hg.
      injection Hg as H1 H2 H3 H4 H5 H6 H7 H8 H9 H10 H11 H12 H13 H14 H15 H16 H17 H18 H19 H20.
      rewrite H1. repeat (split; [first [reflexivity|assumption]|]).
      destruct (c_fee_tx cC) as [f|].
      + destruct (c_fee_tx cV) as [f'|]; [|discriminate]. exists f'. split; [reflexivity|now apply N.eqb_eq].
      + destruct (c_fee_tx cV); [discriminate|reflexivity].
    - intros (H1 & H2 & H3 & H4 & H5 & H6 & H7 & H8 & H9 & H10 & H11 & H12 & H13 & H14 & H15 & H16
              & H17 & H18 & H19 & H20 & Hbf & Hdf & Hsl & Hrh & Hsi & Hft).
      rewrite H1. repeat split; try assumption.
      + assert (E : guarded_fields (c_econ cV)
                    = guarded_fields (set_total_fees (c_econ cC) (e_total_fees (c_econ cV)))).
        { unfold guarded_fields, set_total_fees. cbn.
          rewrite H2, H3, H4, H5, H6, H7, H8, H9, H10, H11, H12, H13, H14, H15, H16, H17, H18, H19, H20.
          reflexivity. }
        rewrite E. apply eqb_lN_refl.
      + destruct (c_fee_tx cC) as [f|]; [|now rewrite Hft].
        destruct Hft as (f' & -> & E). now apply N.eqb_eq.
  Qed.

  (* ---------------------------------------------------------------- the window (fix bb88717) *)
  Section Window.
    Variable key_block : N -> N.
    Variables gp next : N.

    (* a pool whose inputs the next block may still spend collides with no rebroadcast of that
       block: Block::create leaves nothing out *)
    Theorem young_pool_kept : forall c0 d,
      rebroadcasts_due key_block gp next c0 = true ->
      young_pool key_block gp next d = true ->
      kept_pool c0 d = d.
    Proof.
      intros c0 d Hdue Hy. unfold kept_pool. destruct (is_nil _); [reflexivity|].
      unfold young_pool in Hy. unfold rebroadcasts_due in Hdue. rewrite forallb_forall in Hy, Hdue.
      induction d as [|t r IH]; cbn [filter]; [reflexivity|].
      assert (Hk : keepf c0 t = true).
      { unfold keepf. apply orb_true_iff. right. apply negb_true_iff.
        unfold collides. destruct (existsb _ (t_inputs t)) eqn:E; [|reflexivity]. exfalso.
        apply existsb_exists in E. destruct E as (k & Hk & Hm).
        unfold mem in Hm. apply existsb_exists in Hm. destruct Hm as (k' & Hk' & Ekk).
        apply N.eqb_eq in Ekk. subst k'.
        pose proof (Hdue k Hk') as H1. apply N.eqb_eq in H1.
        pose proof (Hy t (or_introl eq_refl)) as H2. unfold young_tx in H2. rewrite forallb_forall in H2.
        pose proof (H2 k Hk) as H3. apply N.leb_le in H3. lia. }
      rewrite Hk. f_equal. apply IH. intros x Hx. apply Hy. now right.
    Qed.

    (* the intake keeps the pool young as long as the tip does not move: Transaction::validate
       refuses older inputs (hypothesis on the abstract tx_valid) *)
    Theorem intake_keeps_young : forall dbg (n : nodeM) m t m1,
      (forall x, tx_valid (n_chain _ n) (n_ledger _ n) x = true -> young_tx key_block gp next x = true) ->
      young_pool key_block gp next (m_txs m) = true ->
      intakeM dbg n m t = Ok m1 ->
      young_pool key_block gp next (m_txs m1) = true.
    Proof.
      intros dbg n m t m1 Hv Hy H. unfold add_transaction_if_validates in H.
      destruct (producer_only t); [injection H as <-; exact Hy|].
      destruct (is_type TBlockStake t && negb (t_own t)); [injection H as <-; exact Hy|].
      destruct (is_type TIssuance t && negb (v_blocks_empty _)); [injection H as <-; exact Hy|].
      destruct (tx_valid _ _ t) eqn:Et; [|injection H as <-; exact Hy].
      destruct (add_transaction_txs dbg m t m1 H) as [[->|[-> _]] _]; [exact Hy|].
      unfold young_pool. cbn [forallb]. rewrite (Hv t Et). exact Hy.
    Qed.

    (* hence, from a young pool, bundle_block's block is built from the whole pool: the
       left-out branch of Block::create is dead and the work the gate counted is in the block *)
    Theorem young_pool_nothing_left_out : forall dbg (n : nodeM) m s m1 order creator ts gt p,
      v_tip (view (n_chain _ n)) = Some p ->
      (forall x, tx_valid (n_chain _ n) (n_ledger _ n) x = true -> young_tx key_block gp next x = true) ->
      young_pool key_block gp next (m_txs m) = true ->
      intakeM dbg n m s = Ok m1 ->
      let drained := drain_in order (m_txs m1) in
      let c0 := cv (n_chain _ n) (n_ledger _ n) (pre_block (Some p) (par_hash p) creator ts gt drained) in
      rebroadcasts_due key_block gp next c0 = true ->
      kept_pool c0 drained = drained
      /\ nsum (map t_work (m_txs m1)) <= nsum (map t_work (kept_pool c0 drained)).
    Proof.
      intros dbg n m s m1 order creator ts gt p Htip Hv Hy Hi drained c0 Hdue.
      assert (Hy1 := intake_keeps_young dbg n m s m1 Hv Hy Hi).
      assert (Hperm : Permutation drained (m_txs m1)) by apply drain_perm.
      assert (Hyd : young_pool key_block gp next drained = true).
      { unfold young_pool in *. rewrite (forallb_perm _ _ _ Hperm). exact Hy1. }
      rewrite (young_pool_kept c0 drained Hdue Hyd). split; [reflexivity|].
      rewrite (nsum_perm _ _ (Permutation_map t_work Hperm)). lia.
    Qed.

    (* the invariant over the life of the pool: the intake (on the current tip), the re-validation
       when the tip moves (fix df3ca14) and every shrinking of the pool (bundle, hand-back) keep it
       young with respect to the current next block *)
    Lemma revalidate_young spendable confirmed txs :
      Forall (fun t => window_exempt t = false) txs ->
      young_pool key_block gp next (revalidate key_block gp next spendable confirmed txs) = true.
    Proof.
      intros Hex. unfold young_pool, revalidate. rewrite forallb_forall. intros t Ht.
      apply filter_In in Ht. destruct Ht as [Ht _]. apply filter_In in Ht. destruct Ht as [Hin Ht].
      rewrite Forall_forall in Hex. rewrite (Hex t Hin) in Ht. cbn [orb] in Ht.
      apply andb_true_iff in Ht. apply Ht.
    Qed.

    Lemma young_filter f l : young_pool key_block gp next l = true -> young_pool key_block gp next (filter f l) = true.
    Proof.
      unfold young_pool. rewrite !forallb_forall. intros H t Ht. apply filter_In in Ht. apply H. apply Ht.
    Qed.

    (* bundle_block's block is accepted: the window invariant of the pool replaces the former
       hypotheses about what create leaves out *)
    Theorem bundle_produced_validates : forall dbg (n : nodeM) creator m ts gt stake order b m' p,
      v_tip (view (n_chain _ n)) = Some p ->
      bundleM dbg n creator m ts gt stake order = Ok (Bundled b, m') ->
      forall gt' m0 s m1,
      screen_ticket chain view gt_ok n m gt = (gt', m0) ->
      stake = Some s -> intakeM dbg n m0 s = Ok m1 ->
      let drained := drain_in order (m_txs m1) in
      let cC := cv (n_chain _ n) (n_ledger _ n) (pre_block (Some p) (par_hash p) creator ts gt' drained) in
      let cV := cv (n_chain _ n) (n_ledger _ n) b in
      (forall x, tx_valid (n_chain _ n) (n_ledger _ n) x = true -> young_tx key_block gp next x = true) ->
      young_pool key_block gp next (m_txs m) = true ->
      rebroadcasts_due key_block gp next cC = true ->
      agreesb dbg hchain cC cV = true ->
      cv_types_ok cC = true ->
      (c_fee_tx cC <> None -> gt' <> None) ->
      (forall g, gt = Some g -> is_type TGoldenTicket g = true) ->
      pool_types_ok (m_txs m) = true ->
      count_type TIssuance (m_txs m) = 0 ->
      (v_stake_req (view (n_chain _ n)) = 0 \/ count_type TBlockStake (m_txs m1) = 1) ->
      forallb (tx_valid (n_chain _ n) (n_ledger _ n)) (b_txs b) = true ->
      m_work m <= nsum (map t_work (m_txs m)) ->
      supply_ok (n_chain _ n) (n_ledger _ n) b = true ->
      acceptsM dbg n b = Ok true.
    Proof.
      intros dbg n creator m ts gt stake order b m' p Htip Hb gt' m0 s m1 Hsc Hs Hi drained cC cV
             Hvy Hy Hdue Hag Hty Hfeegt Hgt Hpool0 Hiss0 Hstake Hvalid Hcache Hsupply.
      destruct (screen_inv n m gt gt' m0 Hsc) as (Htx0 & _ & _ & _ & _).
      assert (Hy0 : young_pool key_block gp next (m_txs m0) = true) by now rewrite Htx0.
      destruct (young_pool_nothing_left_out dbg n m0 s m1 order creator ts gt' p Htip Hvy Hy0 Hi Hdue) as [Hk Hw].
      fold drained in Hk, Hw. fold cC in Hk, Hw.
      assert (Hperm : Permutation drained (m_txs m1)) by apply drain_perm.
      destruct (bundle_inv dbg n creator m ts gt stake order b m' p Htip Hb)
        as (gt2 & m02 & w & s' & m1' & Hsc' & Hgate & _ & _ & _ & _ & _).
      rewrite Hsc in Hsc'. injection Hsc' as <- <-.
      destruct (gate_inv n m0 ts (is_some gt') w p Htip Hgate) as (Hnil & _).
      assert (Hstd := gate_started n m0 ts (is_some gt') w Hgate).
      assert (Hpool : pool_types_ok (m_txs m1) = true /\ count_type TIssuance (m_txs m1) = 0).
      { destruct (intake_txs dbg n m0 s m1 Hi) as [[E|(E & Hok & Hni)] _]; rewrite E, Htx0; [auto|].
        split.
        - unfold pool_types_ok. cbn [forallb]. rewrite Hok. exact Hpool0.
        - unfold count_type, countb in *. cbn [filter]. rewrite (Hni Hstd). exact Hiss0. }
      destruct Hpool as [Hpool Hiss].
      eapply bundle_produced_validates_gen with (gt' := gt') (m0 := m0) (s := s) (m1 := m1); eauto;
        fold drained; fold cC; rewrite ?Hk; auto.
      - destruct Hstake as [H|H]; [left; exact H|right].
        unfold count_type in *. rewrite (countb_perm _ _ _ Hperm). exact H.
      - intros E. assert (Hm1 : m_txs m1 = []) by (apply Permutation_nil; rewrite <- E; exact Hperm).
        destruct (intake_txs dbg n m0 s m1 Hi) as [[Hx|[Hx _]] _]; rewrite Hx in Hm1; [|discriminate].
        rewrite Hm1 in Hnil. discriminate.
    Qed.
  End Window.

  (* ---------------------------------------------------------------- the life of the pool
     [next_of] = id of the next block of a chain.  Transaction::validate refuses inputs outside
     the window of the next block (hypothesis [Hvy]: bb88717).  Events: a transaction arrives
     (intake on the current node state), the tip moves (any new node state; re-validation of
     fix df3ca14), the pool shrinks (bundle drained it, create handed part of it back, ...). *)
  Section PoolLife.
    Variable key_block : N -> N.
    Variable gp : N.
    Variable next_of : chain -> N.
    Hypothesis Hvy : forall (n : nodeM) x,
      tx_valid (n_chain _ n) (n_ledger _ n) x = true ->
      young_tx key_block gp (next_of (n_chain _ n)) x = true.

    Notation pev := (pev chain).
    Notation pstep := (pstep chain view tx_valid key_block gp next_of).
    Notation prun := (prun chain view tx_valid key_block gp next_of).
    Notation started := (started chain view).
    Notation tip_started := (tip_started chain view).
    Notation PoolInv := (PoolInv chain key_block gp next_of).

    (* on a running chain neither an ATR-typed (producer only) nor an Issuance-typed (fix 716c212)
       transaction gets into the pool *)
    Lemma intake_not_exempt dbg (n : nodeM) m t m1 :
      v_blocks_empty (view (n_chain _ n)) = false ->
      Forall (fun t => window_exempt t = false) (m_txs m) ->
      intakeM dbg n m t = Ok m1 ->
      Forall (fun t => window_exempt t = false) (m_txs m1).
    Proof.
      intros Hs Hne Hi. destruct (intake_txs dbg n m t m1 Hi) as [[E|(E & Hok & Hiss)] _]; rewrite E; [exact Hne|].
      constructor; [|exact Hne]. unfold window_exempt. rewrite (Hiss Hs).
      unfold pool_tx_ok in Hok. rewrite !andb_true_iff in Hok. destruct Hok as [[_ _] Ha].
      apply negb_true_iff in Ha. now rewrite Ha.
    Qed.

    Lemma pstep_inv dbg st e st1 :
      tip_started e = true -> started st = true -> PoolInv st -> pstep dbg st e = Ok st1 ->
      PoolInv st1 /\ started st1 = true.
    Proof.
      intros Hex Hst [Hy Hne] H. destruct e as [t|n' sp cf|f]; cbn [pstep] in H.
      - destruct (add_transaction_if_validates _ _ _ dbg (fst st) (snd st) t) as [m1| |s1] eqn:Ei; cbn [bind] in H; try discriminate.
        injection H as <-. split; [|exact Hst]. cbn [fst snd]. split.
        + eapply intake_keeps_young; eauto.
        + eapply intake_not_exempt; eauto. unfold Producer.started in Hst. now apply negb_true_iff in Hst.
      - injection H as <-. split; [|exact Hex]. cbn [fst snd with_txs m_txs]. split.
        + apply revalidate_young. exact Hne.
        + unfold revalidate. rewrite Forall_forall in *. intros t Ht.
          apply filter_In in Ht. destruct Ht as [Ht _]. apply filter_In in Ht. apply Hne. apply Ht.
      - injection H as <-. split; [|exact Hst]. cbn [fst snd with_txs m_txs]. split.
        + apply young_filter. exact Hy.
        + rewrite Forall_forall in *. intros t Ht. apply filter_In in Ht. apply Hne. apply Ht.
    Qed.

    Theorem pool_stays_young : forall dbg evs st st',
      forallb tip_started evs = true -> started st = true ->
      PoolInv st -> prun dbg st evs = Ok st' -> PoolInv st' /\ started st' = true.
    Proof.
      intros dbg evs. induction evs as [|e r IH]; intros st st' Hex Hst Hinv H.
      - injection H as <-. auto.
      - cbn [prun] in H. cbn [forallb] in Hex. apply andb_true_iff in Hex. destruct Hex as [He Hr].
        destruct (pstep dbg st e) as [st1| |s1] eqn:Es; cbn [bind] in H; try discriminate.
        destruct (pstep_inv dbg st e st1 He Hst Hinv Es) as [Hi1 Hs1].
        apply (IH st1 st' Hr Hs1 Hi1 H).
    Qed.
  End PoolLife.

  (* add_block_failure removes under the hash of the FAILED block: the ticket for the tip stays *)
  Lemma pick_gt_del m_g tip h : h <> tip ->
    find (fun x : N * tx => fst x =? tip) (del_gt h m_g) = find (fun x : N * tx => fst x =? tip) m_g.
  Proof.
    intros Hne. unfold del_gt. induction m_g as [|[k t] r IH]; cbn; [reflexivity|].
    destruct (k =? h) eqn:E1; cbn.
    - apply N.eqb_eq in E1. subst k. destruct (h =? tip) eqn:E2; [apply N.eqb_eq in E2; congruence|exact IH].
    - destruct (k =? tip); [reflexivity|exact IH].
  Qed.

  Lemma add_all_gts dbg m l m1 : add_all dbg m l = Ok m1 -> m_gts m1 = m_gts m.
  Proof.
    revert m. induction l as [|t r IH]; cbn; intros m; [intros [= <-]; reflexivity|].
    destruct (add_transaction dbg m t) as [m2| |s] eqn:E; cbn [bind]; try discriminate.
    intros H. rewrite (IH m2 H). apply (add_transaction_txs dbg m t m2 E).
  Qed.

  Lemma add_all_types dbg m l m1 :
    add_all dbg m l = Ok m1 -> pool_types_ok (m_txs m) = true -> forallb pool_tx_ok l = true ->
    pool_types_ok (m_txs m1) = true.
  Proof.
    revert m. induction l as [|t r IH]; cbn; intros m; [intros [= <-]; auto|].
    destruct (add_transaction dbg m t) as [m2| |s] eqn:E; cbn [bind]; try discriminate.
    rewrite andb_true_iff. intros H Hm [Ht Hr]. apply (IH m2 H); [|exact Hr].
    destruct (add_transaction_txs dbg m t m2 E) as [[->|[-> _]] _]; [exact Hm|].
    unfold pool_types_ok; cbn. now rewrite Ht.
  Qed.

  Lemma normal_pool_ok t : is_type TNormal t = true -> pool_tx_ok t = true.
  Proof.
    intros H. unfold pool_tx_ok.
    rewrite (is_type_other TNormal TGoldenTicket t H), (is_type_other TNormal TFee t H),
            (is_type_other TNormal TATR t H) by discriminate. reflexivity.
  Qed.

  Lemma after_failure_inv dbg (n : nodeM) m h mine b m1 tip :
    after_failure chain tx_valid dbg n m h mine b = Ok m1 -> h <> tip ->
    pool_types_ok (m_txs m) = true ->
    pick_gt m1 tip = pick_gt m tip /\ pool_types_ok (m_txs m1) = true.
  Proof.
    unfold after_failure. intros H Hne Hp. destruct mine.
    - destruct (add_all dbg _ _) as [m2| |s] eqn:E; cbn [bind] in H; try discriminate.
      injection H as <-. cbn [m_gts m_txs]. split.
      + unfold pick_gt. cbn [m_gts]. rewrite (add_all_gts _ _ _ _ E). cbn [m_gts].
        now rewrite pick_gt_del.
      + apply (add_all_types _ _ _ _ E); [exact Hp|].
        rewrite forallb_forall. intros t Ht. apply filter_In in Ht. destruct Ht as [_ Ht].
        rewrite andb_true_iff in Ht. apply normal_pool_ok. apply Ht.
    - injection H as <-. cbn [m_gts m_txs]. split; [|exact Hp].
      unfold pick_gt. cbn [m_gts]. now rewrite pick_gt_del.
  Qed.


  (* ---------------------------------------------------------------- ways of not producing *)
  Theorem bundle_ts_declines : forall dbg (n : nodeM) creator m ts gt stake order p,
    v_tip (view (n_chain _ n)) = Some p -> ts <= par_ts p ->
    bundleM dbg n creator m ts gt stake order = Ok (GateClosed, m).
  Proof.
    intros dbg n creator m ts gt stake order p Htip Hle. unfold bundle. rewrite Htip.
    assert (E : (par_ts p <? ts) = false) by (apply N.ltb_ge; exact Hle). now rewrite E.
  Qed.

  (* Block::create fails only through its double-spend detection; it then hands back what it
     had drained and not left out, and bundle_block rebuilds reservations and the work cache *)
  Lemma uadd_not_err dbg a b : uadd dbg a b <> Err.
  Proof. unfold uadd. destruct (_ <? two64); [discriminate|]. destruct dbg; discriminate. Qed.
  Lemma usub_not_err dbg a b : usub dbg a b <> Err.
  Proof. unfold usub. destruct (_ <=? _); [discriminate|]. destruct dbg; discriminate. Qed.

  Lemma create_err_is_double_spend_plain : forall dbg (n : nodeM) creator ts gt drained,
    createM dbg n creator ts gt drained = Err ->
    let v := view (n_chain _ n) in
    let tip_hash := match v_tip v with Some p => par_hash p | None => 0 end in
    let cC := cv (n_chain _ n) (n_ledger _ n) (pre_block (v_tip v) tip_hash creator ts gt drained) in
    dup_spend ((opt_list gt ++ drained) ++ c_rebroadcasts cC ++ opt_list (c_fee_tx cC)) = true.
  Proof.
    intros dbg n creator ts gt drained H. cbv zeta. unfold create_plain, create_from, tip_hash_of in H. cbv zeta in H.
    do 4 (match type of H with
          | bind ?r _ = _ =>
              let E := fresh "E" in
              destruct r as [?| |?] eqn:E;
                [cbn [bind] in H
                |exfalso; first [eapply uadd_not_err; eassumption|eapply usub_not_err; eassumption]
                |cbn [bind] in H; discriminate]
          end).
    cbn [b_txs pre_block] in H. destruct (dup_spend _) eqn:Ed; [reflexivity|discriminate].
  Qed.

  Theorem create_err_is_double_spend : forall dbg (n : nodeM) creator ts gt drained p,
    v_tip (view (n_chain _ n)) = Some p ->
    (forall g, gt = Some g -> is_type TGoldenTicket g = true) ->
    createF dbg n creator ts gt drained = Err ->
    let c0 := cv (n_chain _ n) (n_ledger _ n) (pre_block (Some p) (par_hash p) creator ts gt drained) in
    let kept := kept_pool c0 drained in
    let cC := cv (n_chain _ n) (n_ledger _ n) (pre_block (Some p) (par_hash p) creator ts gt kept) in
    dup_spend ((opt_list gt ++ kept) ++ c_rebroadcasts cC ++ opt_list (c_fee_tx cC)) = true
    /\ (c_rebroadcasts c0 <> [] ->
        forall t, In t kept -> is_type TGoldenTicket t = true \/ collides (rb_inputs c0) t = false).
  Proof.
    intros dbg n creator ts gt drained p Htip Hgt H c0 kept cC.
    rewrite (create_bridge dbg n creator ts gt drained p Htip Hgt) in H. fold c0 kept in H.
    split.
    - pose proof (create_err_is_double_spend_plain dbg n creator ts gt kept H) as Hd. cbv zeta in Hd.
      unfold tip_hash_of in Hd. rewrite Htip in Hd. exact Hd.
    - intros Hne t Ht. eapply kept_pool_no_collision; eauto.
  Qed.

  Theorem create_failure_restores : forall dbg (n : nodeM) creator m ts gt stake order m',
    bundleM dbg n creator m ts gt stake order = Ok (CreateFailed, m') ->
    exists gt' m0 s m1,
      screen_ticket chain view gt_ok n m gt = (gt', m0) /\ stake = Some s /\ intakeM dbg n m0 s = Ok m1
      /\ m_txs m' = handed_back chain view cv n creator ts gt' (drain_in order (m_txs m1))
      /\ m_work m' = nsum (map t_work (m_txs m'))
      /\ m_umap m' = flat_map t_inputs (m_txs m')
      /\ m_gts m' = m_gts m0.
  Proof.
    intros dbg n creator m ts gt stake order m' H. unfold bundle in H.
    destruct (negb _); [discriminate|].
    destruct (screen_ticket _ _ _ n m gt) as [gt' m0] eqn:Es.
    destruct (can_bundle _ _ _ n m0 ts (is_some gt')); [|discriminate].
    destruct stake as [s|]; [|discriminate].
    destruct (add_transaction_if_validates _ _ _ dbg n m0 s) as [m1| |s1] eqn:Ei; cbn [bind] in H; try discriminate.
    destruct (create _ _ _ _ _ dbg n creator ts gt' _) as [b0| |s2]; try discriminate.
    injection H as <-. exists gt', m0, s, m1. cbn. repeat split; auto.
    apply (intake_txs dbg n m0 s m1 Ei).
  Qed.
End Main.
