(* add_block_p of model/ChainPurge.v (all block ids): the chain computations and the
   decision / execution phase under the invariant of PurgeWind.v. *)
From Saito Require Import Base Chain ChainBasics ChainInv ChainWind ChainAdd PurgeInv PurgeWind ChainPurge.

Lemma plinked_ids_p c U l : puniv c U -> (forall a, In a l -> In a U) -> plinked l ->
  forall i a t, nth_error l 0 = Some t -> nth_error l i = Some a -> b_id a + N.of_nat i = b_id t.
Proof.
  intros HU. induction l as [|x l IH]; intros Hin Hc i a t H0 Hi; [destruct i; discriminate|].
  cbn [nth_error] in H0. injection H0 as ->.
  destruct i as [|i]; cbn [nth_error] in Hi; [injection Hi as ->; lia|].
  destruct l as [|p l]; [destruct i; discriminate|].
  destruct Hc as [Hl Hc'].
  assert (Hin' : forall a, In a (p :: l) -> In a U) by (intros; apply Hin; now right).
  specialize (IH Hin' Hc' i a p eq_refl Hi).
  pose proof (pu_link _ _ HU t p (Hin t (or_introl eq_refl)) (Hin' p (or_introl eq_refl)) Hl). lia.
Qed.

Lemma plinked_app_r l1 l2 : plinked (l1 ++ l2) -> plinked l2.
Proof. induction l1 as [|a l1 IH]; [auto|]. cbn [app plinked]. intros [_ H]. auto. Qed.

Lemma plinked_lt_p c U l1 y l2 : puniv c U -> (forall a, In a (l1 ++ y :: l2) -> In a U) ->
  plinked (l1 ++ y :: l2) -> forall z, In z l2 -> b_id z < b_id y.
Proof.
  intros HU Hin Hp z Hz. apply plinked_app_r in Hp.
  apply In_nth_error in Hz as [i Hi].
  assert (Hin' : forall a, In a (y :: l2) -> In a U) by (intros a Ha; apply Hin, in_app_iff; now right).
  pose proof (plinked_ids_p c U (y :: l2) HU Hin' Hp (S i) z y eq_refl Hi). lia.
Qed.

(* the links of the path found by new_chain_from *)
Fixpoint up_links (path : list blk) (sh : N) : Prop :=
  match path with
  | [] => True
  | z :: t => b_prev z = match t with [] => sh | z' :: _ => b_hash z' end /\ up_links t sh
  end.

Section PAdd.
  Variables (c : cfg) (U : list blk).
  Hypothesis HU : puniv c U.
  Hypothesis HWF : valid_wf U.

  (* ---------------- new_chain_from, read off its result ---------------- *)
  Lemma ncf_inv st : store_ok U (blocks st) -> forall fuel h acc sh l,
    new_chain_from fuel st h acc = (true, sh, l) ->
    exists path s,
      l = rev acc ++ hashes path
      /\ (forall z, In z path -> get_block st (b_hash z) = Some (mkSB z false))
      /\ up_links path sh
      /\ get_block st sh = Some (mkSB s true)
      /\ h = match path with [] => sh | z :: _ => b_hash z end.
  Proof.
    intros Hso. induction fuel as [|fuel IH]; intros h acc sh l; cbn [new_chain_from]; [discriminate|].
    destruct (get_block st h) as [[y f]|] eqn:G; [|discriminate]. cbn [s_lc s_b].
    destruct (proj2 Hso _ _ (get_sget _ _ _ G)) as [Eh _]. cbn [s_b] in Eh.
    destruct f.
    - intros [= <- <-]. exists [], y. rewrite app_nil_r. repeat split; auto. intros z [].
    - destruct (h =? 0); [discriminate|]. intros E.
      destruct (IH _ _ _ _ E) as (path & s & El & Hst & Hul & Gs & Eh').
      exists (y :: path), s. split; [cbn [rev hashes map] in *; now rewrite El, <- app_assoc, Eh|].
      split; [intros z [<-|Hz]; [now rewrite Eh|auto]|].
      split; [cbn [up_links]; split; [|exact Hul]; destruct path; exact Eh'|].
      split; [exact Gs|now symmetry].
  Qed.

  Lemma up_links_dn path s rest : up_links path (b_hash s) -> linked_dn U path (s :: rest).
  Proof.
    induction path as [|z t IH]; cbn [up_links linked_dn]; [auto|]. intros [H1 H2]. split; [|auto].
    unfold link_to. destruct t; cbn [app]; exact H1.
  Qed.

  Lemma up_links_plinked path s rest : up_links path (b_hash s) -> plinked (s :: rest) ->
    plinked (path ++ s :: rest).
  Proof.
    induction path as [|z t IH]; cbn [up_links app]; [auto|]. intros [H1 H2] Hp.
    cbn [plinked]. split; [|auto]. destruct t; cbn [app]; exact H1.
  Qed.

  (* ---------------- old_chain_from ---------------- *)
  Lemma ocf_spec_p st s : forall above below acc fuel,
    (forall y, In y (above ++ [s]) -> get_block st (b_hash y) = Some (mkSB y true) /\ b_hash y <> 0) ->
    plinked (above ++ s :: below) ->
    ~ In (b_hash s) (hashes above) -> (length above < fuel)%nat ->
    old_chain_from fuel st (match above with a :: _ => b_hash a | [] => b_hash s end) (b_hash s) acc
    = rev acc ++ hashes above.
  Proof.
    induction above as [|a above IH]; intros below acc fuel Hin Hp Hns Hf.
    - destruct fuel; [lia|]. cbn [old_chain_from hashes map]. now rewrite N.eqb_refl, app_nil_r.
    - destruct fuel as [|fuel]; [cbn in Hf; lia|]. cbn [old_chain_from].
      destruct (N.eqb_spec (b_hash s) (b_hash a)) as [E|_].
      { exfalso. apply Hns. cbn [hashes map]. left. now symmetry. }
      rewrite (proj1 (Hin a (or_introl eq_refl))). cbn [s_b].
      cbn [app plinked] in Hp. destruct Hp as [Hl Hp].
      assert (Hnext : b_prev a = match above with a' :: _ => b_hash a' | [] => b_hash s end).
      { destruct above; exact Hl. }
      destruct (N.eqb_spec (b_prev a) 0) as [E0|_].
      { exfalso. rewrite Hnext in E0.
        destruct above as [|a' ab'].
        - apply (proj2 (Hin s (or_intror (or_introl eq_refl))) E0).
        - apply (proj2 (Hin a' (or_intror (or_introl eq_refl))) E0). }
      rewrite Hnext, (IH below (b_hash a :: acc) fuel).
      + cbn [rev hashes map]. now rewrite <- app_assoc.
      + intros y Hy. apply Hin. now right.
      + exact Hp.
      + intros Hi. apply Hns. cbn [hashes map]. now right.
      + cbn [length] in Hf. lia.
  Qed.

  (* ---------------- inserting the new block ---------------- *)
  Lemma ring_contains_false_p bs r rl lcr b :
    ring_ok c bs r rl lcr -> sget bs (b_hash b) = None ->
    ring_contains c r (b_id b) (b_hash b) = false.
  Proof.
    intros Hr Hn. unfold ring_contains.
    destruct (existsb _ _) eqn:E; [|reflexivity]. exfalso.
    apply existsb_exists in E as (e & He & Ee). apply N.eqb_eq in Ee.
    destruct (r_sound _ _ _ _ _ Hr _ e (slot_lt c (b_id b) (gp_pos_p c U HU)) He) as (b0 & H1 & _).
    rewrite Ee, Hn in H1. discriminate.
  Qed.

  Lemma ins_block_eq_p st lcs lcp b : PCore c U st lcs lcp 0 -> get_block st (b_hash b) = None ->
    ins_block c st b = inserted c st b.
  Proof.
    intros W Hn. unfold ins_block.
    rewrite (ring_contains_false_p _ _ _ _ b (p_ring _ _ _ _ _ _ W)); [reflexivity|].
    now apply sget_none.
  Qed.

  Lemma stored_nz_p st lcs lcp x h sb : PCore c U st lcs lcp x -> get_block st h = Some sb -> h <> 0.
  Proof.
    intros W G. destruct (pc_stored_in c U _ _ _ _ _ _ W G) as [E Hin]. rewrite <- E. now apply (pu_nz _ _ HU).
  Qed.

  Lemma inserted_core st lcs lcp b :
    PCore c U st lcs lcp 0 -> In b U -> get_block st (b_hash b) = None -> ~ In b lcp ->
    PCore c U (inserted c st b) lcs lcp (b_hash b).
  Proof.
    intros W Hb Hn Hnp.
    assert (Hg : forall h, get_block (inserted c st b) h =
                   if h =? b_hash b then Some (mkSB b false) else get_block st h).
    { intros h. unfold get_block, inserted; cbn [blocks]. apply aget_aset. }
    split.
    - split; [unfold inserted; cbn [blocks]; apply aset_sorted, (p_store _ _ _ _ _ _ W)|].
      intros h y. rewrite sget_inserted. destruct (N.eqb_spec h (b_hash b)) as [->|_].
      + intros [= <-]. auto.
      + apply (proj2 (p_store _ _ _ _ _ _ W)).
    - apply (p_chain _ _ _ _ _ _ W).
    - intros y Hy. rewrite Hg. destruct (N.eqb_spec (b_hash y) (b_hash b)) as [E|_].
      + pose proof (p_lc _ _ _ _ _ _ W y Hy) as G. rewrite E, Hn in G. discriminate.
      + now apply (p_lc _ _ _ _ _ _ W).
    - intros y Hy. rewrite Hg. destruct (N.eqb_spec (b_hash y) (b_hash b)) as [E|_].
      + exfalso. apply Hnp. replace b with y; [exact Hy|].
        eapply hash_inj_p; eauto. eapply pc_in; [exact W|]. apply in_app_iff. now right.
      + now apply (p_gone _ _ _ _ _ _ W).
    - intros h sb. rewrite Hg. destruct (N.eqb_spec h (b_hash b)) as [->|_]; [auto|].
      intros G F. destruct (p_flags _ _ _ _ _ _ W h sb G F) as [?|E]; [auto|].
      exfalso. exact (stored_nz_p _ _ _ _ _ _ W G E).
    - apply (p_sorted _ _ _ _ _ _ W).
    - apply (p_ua _ _ _ _ _ _ W).
    - apply (p_ub _ _ _ _ _ _ W).
    - unfold inserted; cbn [blocks ring ring_lc].
      apply (ring_add_ok_p c U HU); auto; [apply (p_store _ _ _ _ _ _ W)|apply (p_ring _ _ _ _ _ _ W)].
  Qed.

  Lemma PCore_drop_on st lcs lcp x : PCore c U st lcs lcp x -> In x (hashes lcs) -> PCore c U st lcs lcp 0.
  Proof.
    intros [H1 H2 H3 H4 H5 H6 H7 H8 H9] Hx. split; auto.
    intros h sb G F. destruct (H5 h sb G F) as [?| ->]; auto.
  Qed.

  Lemma PCore_drop_off st lcs lcp x :
    PCore c U st lcs lcp x -> (forall sb, get_block st x = Some sb -> s_lc sb = false) ->
    PCore c U st lcs lcp 0.
  Proof.
    intros [H1 H2 H3 H4 H5 H6 H7 H8 H9] Hx. split; auto.
    intros h sb G F. destruct (H5 h sb G F) as [?| ->]; auto.
    specialize (Hx sb G). congruence.
  Qed.

  Lemma reflag_core st st' lcs lcp x b f f' :
    PCore c U st lcs lcp x -> get_block st x = Some (mkSB b f) -> ~ In x (hashes lcs) ->
    blocks st' = aset x (mkSB b f') (blocks st) -> ring st' = ring st -> ring_lc st' = ring_lc st ->
    utxo st' = utxo st -> PCore c U st' lcs lcp x.
  Proof.
    intros W G Hx E1 E2 E3 E4.
    assert (Hss : same_store (blocks st) (blocks st')).
    { rewrite E1. apply (same_store_flag _ _ _ f' G). }
    assert (Hg : forall h, get_block st' h = if h =? x then Some (mkSB b f') else get_block st h).
    { intros h. unfold get_block. rewrite E1. apply aget_aset. }
    split.
    - eapply store_ok_same; [|exact Hss|apply (p_store _ _ _ _ _ _ W)].
      rewrite E1. apply aset_sorted, (p_store _ _ _ _ _ _ W).
    - apply (p_chain _ _ _ _ _ _ W).
    - intros y Hy. rewrite Hg. destruct (N.eqb_spec (b_hash y) x) as [E|_].
      + exfalso. apply Hx. rewrite <- E. now apply in_map.
      + now apply (p_lc _ _ _ _ _ _ W).
    - intros y Hy. rewrite Hg. destruct (N.eqb_spec (b_hash y) x) as [E|_].
      + pose proof (p_gone _ _ _ _ _ _ W y Hy) as Gy. rewrite E, G in Gy. discriminate.
      + now apply (p_gone _ _ _ _ _ _ W).
    - intros h sb. rewrite Hg. destruct (N.eqb_spec h x) as [->|_]; [auto|]. apply (p_flags _ _ _ _ _ _ W).
    - rewrite E4. apply (p_sorted _ _ _ _ _ _ W).
    - rewrite E4. apply (p_ua _ _ _ _ _ _ W).
    - rewrite E4. apply (p_ub _ _ _ _ _ _ W).
    - rewrite E2, E3. eapply ring_ok_same; [exact Hss|apply (p_ring _ _ _ _ _ _ W)].
  Qed.

  Lemma failed_core st6 lcs lcp b f :
    PCore c U st6 lcs lcp (b_hash b) -> get_block st6 (b_hash b) = Some (mkSB b f) ->
    ~ In (b_hash b) (hashes lcs) ->
    PCore c U (failed c st6 b) lcs lcp 0.
  Proof.
    intros W G Hx.
    pose proof (proj1 (p_store _ _ _ _ _ _ W)) as Hsort.
    assert (Hg : forall h, get_block (failed c st6 b) h = if h =? b_hash b then None else get_block st6 h).
    { intros h. unfold get_block, failed; cbn [blocks]. rewrite aget_adel by now apply aset_sorted.
      rewrite aget_aset. now destruct (h =? b_hash b). }
    split.
    - split; [unfold failed; cbn [blocks]; now apply adel_sorted, aset_sorted|].
      intros h y. rewrite sget_failed by assumption. destruct (h =? b_hash b); [discriminate|].
      apply (proj2 (p_store _ _ _ _ _ _ W)).
    - apply (p_chain _ _ _ _ _ _ W).
    - intros y Hy. rewrite Hg. destruct (N.eqb_spec (b_hash y) (b_hash b)) as [E|_].
      + exfalso. apply Hx. rewrite <- E. now apply in_map.
      + now apply (p_lc _ _ _ _ _ _ W).
    - intros y Hy. rewrite Hg. destruct (b_hash y =? b_hash b); [reflexivity|now apply (p_gone _ _ _ _ _ _ W)].
    - intros h sb. rewrite Hg. destruct (N.eqb_spec h (b_hash b)) as [->|Hne]; [discriminate|].
      intros G' F. destruct (p_flags _ _ _ _ _ _ W h sb G' F); [now left|contradiction].
    - apply (p_sorted _ _ _ _ _ _ W).
    - apply (p_ua _ _ _ _ _ _ W).
    - apply (p_ub _ _ _ _ _ _ W).
    - unfold failed; cbn [blocks ring ring_lc].
      assert (Hss : same_store (blocks st6) (aset (b_hash b) (mkSB b false) (blocks st6))).
      { apply (same_store_flag _ _ _ false G). }
      apply (ring_delete_ok_p c U HU); auto.
      + eapply store_ok_same; [now apply aset_sorted|exact Hss|apply (p_store _ _ _ _ _ _ W)].
      + eapply ring_ok_same; [exact Hss|apply (p_ring _ _ _ _ _ _ W)].
      + rewrite <- Hss. apply (get_sget _ _ _ G).
  Qed.

  (* ---------------- the golden-ticket walk from the parent does not see the new block ---------------- *)
  Lemma gt_walk_ins_p st b n : In b U ->
    store_ok U (blocks st) -> forall h d f,
    (forall y, sget (blocks (inserted c st b)) h = Some y -> b_id y < b_id b) ->
    gt_walk n (inserted c st b) h d f = gt_walk n st h d f.
  Proof.
    intros Hb Hso. induction n as [|n IH]; intros h d f Hlt; cbn [gt_walk]; [reflexivity|].
    assert (Hne : h <> b_hash b).
    { intros ->. specialize (Hlt b). rewrite sget_inserted, N.eqb_refl in Hlt. specialize (Hlt eq_refl). lia. }
    assert (Eg : get_block (inserted c st b) h = get_block st h).
    { unfold get_block, inserted; cbn [blocks]. rewrite aget_aset.
      destruct (N.eqb_spec h (b_hash b)); [contradiction|reflexivity]. }
    rewrite Eg. destruct (get_block st h) as [sb|] eqn:G; [|reflexivity].
    apply IH. intros y' Hy'.
    pose proof (get_sget _ _ _ G) as Sy. destruct (proj2 Hso _ _ Sy) as [_ HyU].
    assert (Hy'U : In y' U /\ b_hash y' = b_prev (s_b sb)).
    { rewrite sget_inserted in Hy'. destruct (N.eqb_spec (b_prev (s_b sb)) (b_hash b)) as [E|_].
      - injection Hy' as <-. split; [exact Hb|now symmetry].
      - destruct (proj2 Hso _ _ Hy') as [E' HU']. auto. }
    destruct Hy'U as [Hy'U Ey'].
    pose proof (pu_link _ _ HU _ _ HyU Hy'U (eq_sym Ey')).
    assert (b_id (s_b sb) < b_id b).
    { apply Hlt. rewrite sget_inserted. destruct (N.eqb_spec h (b_hash b)); [contradiction|exact Sy]. }
    lia.
  Qed.

  Lemma gt_count_valid_ins_p st b : In b U -> store_ok U (blocks st) ->
    gt_count_valid (inserted c st b) (b_prev b) (b_gt b) = gt_count_valid st (b_prev b) (b_gt b).
  Proof.
    intros Hb Hso. unfold gt_count_valid. rewrite (gt_walk_ins_p st b _ Hb Hso); [reflexivity|].
    intros y Hy. rewrite sget_inserted in Hy.
    destruct (N.eqb_spec (b_prev b) (b_hash b)) as [E|_].
    - injection Hy as <-. pose proof (pu_link _ _ HU b b Hb Hb E). lia.
    - destruct (proj2 Hso _ _ Hy) as [E' HyU]. pose proof (pu_link _ _ HU b y Hb HyU (eq_sym E')). lia.
  Qed.
End PAdd.
