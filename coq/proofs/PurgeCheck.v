(* Executable checkers for the hypotheses of the purge-regime theorems, with soundness. *)
From Saito Require Import Base Chain ChainBasics ChainInv ChainWind ChainAdd ChainProofs ChainCheck
     PurgeInv PurgeWind PurgeAdd PurgeProofs ChainPurge.

Definition puniv_check (c : cfg) (U : list blk) : bool :=
  (1 <=? gp_of c)
  && nodup_b (hashes U)
  && forallb (fun b => negb (b_hash b =? 0) && (1 <=? b_id b)) U
  && forallb (fun b => forallb (fun p => negb (b_prev b =? b_hash p) || (b_id b =? b_id p + 1)) U) U
  && forallb (fun b1 => forallb (fun b2 =>
        forallb (fun k => negb (memb k (blk_outs b2)) || (b_id b1 =? b_id b2)) (blk_outs b1)
        && forallb (fun k => negb (memb k (blk_outs b2)) || (b_id b2 <? b_id b1)) (blk_ins b1)) U) U.

Lemma puniv_check_ok c U : puniv_check c U = true -> puniv c U.
Proof.
  unfold puniv_check. intros H.
  apply andb_true_iff in H as [H H5]. apply andb_true_iff in H as [H H4].
  apply andb_true_iff in H as [H H3]. apply andb_true_iff in H as [H1 H2].
  rewrite forallb_forall in H3, H4, H5. split.
  - now apply N.leb_le.
  - now apply nodup_b_ok.
  - intros b Hb. specialize (H3 b Hb). apply andb_true_iff in H3 as [H3 _].
    now apply negb_true_iff, N.eqb_neq in H3.
  - intros b Hb. specialize (H3 b Hb). apply andb_true_iff in H3 as [_ H3]. now apply N.leb_le.
  - intros b p Hb Hp E. specialize (H4 b Hb). rewrite forallb_forall in H4. specialize (H4 p Hp).
    apply orb_true_iff in H4 as [H4|H4].
    + apply negb_true_iff, N.eqb_neq in H4. contradiction.
    + now apply N.eqb_eq in H4.
  - intros b1 b2 k H1' H2' Hk1 Hk2. specialize (H5 b1 H1'). rewrite forallb_forall in H5.
    specialize (H5 b2 H2'). apply andb_true_iff in H5 as [H5 _]. rewrite forallb_forall in H5.
    specialize (H5 k Hk1). apply orb_true_iff in H5 as [H5|H5].
    + apply negb_true_iff in H5. apply memb_In in Hk2. congruence.
    + now apply N.eqb_eq in H5.
  - intros b1 b2 k H1' H2' Hk1 Hk2. specialize (H5 b1 H1'). rewrite forallb_forall in H5.
    specialize (H5 b2 H2'). apply andb_true_iff in H5 as [_ H5]. rewrite forallb_forall in H5.
    specialize (H5 k Hk1). apply orb_true_iff in H5 as [H5|H5].
    + apply negb_true_iff in H5. apply memb_In in Hk2. congruence.
    + now apply N.ltb_lt in H5.
Qed.

Definition step_ok_b (c : cfg) (U : list blk) (ps : pstate) (b : blk) : bool :=
  let st := core ps in
  let st2 := ins_block c st b in
  let '(found, sh, l) := new_chain_from (S (length (blocks st2))) st2 (b_hash b) [] in
  ((match blocks st with [] => is_root_b U b | _ => false end) || found)
  && (negb found || negb (late_b c st2 l)).

Lemma step_ok_b_ok c U ps b : In b U -> step_ok_b c U ps b = true -> step_ok c U ps b.
Proof.
  unfold step_ok_b, step_ok, conn, no_late. intros Hb H. cbv zeta in H.
  match type of H with context [new_chain_from ?f ?s ?h ?a] =>
    destruct (new_chain_from f s h a) as [[found sh] l] eqn:E end.
  apply andb_true_iff in H as [H1 H2]. split; [exact Hb|]. split.
  - apply orb_true_iff in H1 as [H1|H1].
    + left. destruct (blocks (core ps)); [|discriminate]. split; [reflexivity|now apply is_root_b_ok].
    + right. subst found. eauto.
  - intros sh' l' E'. injection E' as -> <- <-.
    cbn [negb orb] in H2. now apply negb_true_iff in H2.
Qed.

Fixpoint steps_ok_b (c : cfg) (U : list blk) (ps : pstate) (bs : list blk) : bool :=
  match bs with
  | [] => true
  | b :: t => step_ok_b c U ps b
              && match add_block_p c ps b with Ok (ps', _) => steps_ok_b c U ps' t | _ => true end
  end.

Lemma steps_ok_b_ok c U bs : forall ps, (forall b, In b bs -> In b U) ->
  steps_ok_b c U ps bs = true -> steps_ok c U ps bs.
Proof.
  induction bs as [|b t IH]; intros ps Hin H; cbn [steps_ok steps_ok_b] in *; [exact I|].
  apply andb_true_iff in H as [H1 H2]. split; [apply step_ok_b_ok; [apply Hin; now left|exact H1]|].
  destruct (add_block_p c ps b) as [[ps' r]| |]; auto. apply IH; [|exact H2]. intros y Hy. apply Hin. now right.
Qed.

(* index of the first delivery that violates the step hypothesis (None = none) *)
Fixpoint first_bad_step (c : cfg) (U : list blk) (ps : pstate) (bs : list blk) (i : N) : option N :=
  match bs with
  | [] => None
  | b :: t => if step_ok_b c U ps b
              then match add_block_p c ps b with Ok (ps', _) => first_bad_step c U ps' t (i + 1) | _ => Some (1000 + i) end
              else Some i
  end.

Definition phistory_check (c : cfg) (U : list blk) (order : list N) : bool :=
  puniv_check c U && wf_check U
  && match lookup U order with Some bs => steps_ok_b c U (pinit c) bs | None => false end.

Lemma phistory_check_ok c U order : phistory_check c U order = true ->
  puniv c U /\ valid_wf U
  /\ exists bs, lookup U order = Some bs /\ (forall b, In b bs -> In b U) /\ steps_ok c U (pinit c) bs.
Proof.
  unfold phistory_check. intros H. apply andb_true_iff in H as [H H3]. apply andb_true_iff in H as [H1 H2].
  pose proof (puniv_check_ok _ _ H1) as HU. split; [exact HU|]. split.
  { (* wf_check is sound for every universe with distinct hashes and linked ids *)
    intros b rest Hc. unfold wf_check in H2. rewrite forallb_forall in H2.
    pose proof Hc as (Hb & Hv & _ & Hc').
    specialize (H2 b Hb).
    assert (Hlen : (length rest < S (length U))%nat).
    { assert (length rest <= length U)%nat; [|lia].
      rewrite <- (map_length b_hash rest), <- (map_length b_hash U).
      apply NoDup_incl_length; [apply (chain_hashes_nodup_p c U _ HU Hc')|].
      intros h Hh. apply in_map_iff in Hh as (y & <- & Hy). apply in_map. eapply chain_ok_in; eauto. }
    assert (Hanc : anc U (S (length U)) b = Some rest).
    { clear -HU Hc Hlen. revert b Hc Hlen. generalize (S (length U)) as fuel. intros fuel; revert fuel.
      induction rest as [|p rest IH]; intros fuel b Hc Hf; (destruct fuel as [|fuel]; [cbn in Hf; lia|]);
        cbn [anc]; destruct Hc as (Hb & _ & Hl & Hc).
      - destruct (find_blk U (b_prev b)) as [p|] eqn:F; [|reflexivity].
        apply find_blk_some in F as [Hp E]. exfalso. exact (Hl p Hp E).
      - rewrite Hl. pose proof Hc as (Hp & _).
        rewrite (find_blk_in U p (pu_nodup _ _ HU) Hp).
        rewrite (IH fuel p Hc); [reflexivity|]. cbn [length] in Hf. lia. }
    rewrite Hanc, Hv in H2. cbn [andb] in H2.
    replace (forallb b_valid rest) with true in H2.
    - now apply wf_dec_ok.
    - symmetry. apply forallb_forall. intros y Hy. eapply chain_ok_valid; eauto. }
  destruct (lookup U order) as [bs|] eqn:L; [|discriminate].
  exists bs. split; [reflexivity|]. pose proof (lookup_in U order bs L) as Hin. split; [exact Hin|].
  now apply steps_ok_b_ok.
Qed.

(* ------------------------------------------------------------------ *)
(* witnesses (genesis period 2: the ring has 4 slots)                  *)
(* ------------------------------------------------------------------ *)
Definition pw_cfg : cfg := (2, false).
Definition pB (h p i bf : N) (v : bool) (txs : list (list N * list N)) : blk := mkB h p i bf true v txs.
Definition pw_main : list blk :=
  [pB 1 0 1 10 true [([], [10])]; pB 2 1 2 10 true [([], [20])]; pB 3 2 3 10 true [([], [30])];
   pB 4 3 4 10 true [([20], [40])]; pB 5 4 5 10 true [([], [50])]; pB 6 5 6 10 true [([], [60])]].

(* (R1) late failure: side chain 26, 27 on block 5 (lighter than 6), then 28 with an inflated burn
   fee and invalid.  The attempt winds 26 and 27 (id 7 > last block id 6, 7 > 2 gp): block 3 is
   purged on behalf of a chain that is then rejected *)
Definition pw_late : list blk := [pB 26 5 6 1 true []; pB 27 26 7 1 true []].
Definition pw_late_b : blk := pB 28 27 8 100 false [].

Lemma purge_late_failure_witness :
  exists ps ps',
    phistory_check pw_cfg (pw_main ++ pw_late ++ [pw_late_b]) (hashes (pw_main ++ pw_late)) = true
    /\ deliver_p pw_cfg (pinit pw_cfg) (pw_main ++ pw_late) = Ok ps
    /\ step_ok_b pw_cfg (pw_main ++ pw_late ++ [pw_late_b]) ps pw_late_b = false
    /\ get_block (core ps) (b_prev pw_late_b) <> None
    /\ add_block_p pw_cfg ps pw_late_b = Ok (ps', Invalid)
    /\ latest_hash (core ps) = Ok 6 /\ latest_hash (core ps') = Ok 6
    /\ get_block (core ps) 3 <> None /\ get_block (core ps') 3 = None
    /\ utxo (core ps) = [30; 40; 50; 60] /\ utxo (core ps') = [40; 50; 60]
    /\ gid ps = 4 /\ gid ps' = 5.
Proof.
  eexists. eexists. split; [vm_compute; reflexivity|]. split; [vm_compute; reflexivity|].
  split; [vm_compute; reflexivity|]. split; [vm_compute; discriminate|].
  split; [vm_compute; reflexivity|]. split; [vm_compute; reflexivity|]. split; [vm_compute; reflexivity|].
  split; [vm_compute; discriminate|]. repeat (split; [vm_compute; reflexivity|]). vm_compute; reflexivity.
Qed.

(* (R2) the same with a candidate long enough for the purge to reach the old tip: the
   restoration of the old chain unwraps a deleted block *)
Definition pw_long : list blk :=
  [pB 36 5 6 1 true []; pB 37 36 7 1 true []; pB 38 37 8 1 true []; pB 39 38 9 1 true []; pB 40 39 10 1 true []].
Definition pw_long_b : blk := pB 41 40 11 100 false [].

Lemma purge_late_failure_panic_witness :
  exists ps,
    phistory_check pw_cfg (pw_main ++ pw_long ++ [pw_long_b]) (hashes (pw_main ++ pw_long)) = true
    /\ deliver_p pw_cfg (pinit pw_cfg) (pw_main ++ pw_long) = Ok ps
    /\ step_ok_b pw_cfg (pw_main ++ pw_long ++ [pw_long_b]) ps pw_long_b = false
    /\ get_block (core ps) (b_prev pw_long_b) <> None
    /\ add_block_p pw_cfg ps pw_long_b = Panic SITE_UNWRAP_BLOCK.
Proof.
  eexists. split; [vm_compute; reflexivity|]. split; [vm_compute; reflexivity|].
  split; [vm_compute; reflexivity|]. split; [vm_compute; discriminate|]. vm_compute; reflexivity.
Qed.

(* (R3) resurrected output: block 4 spends key 20 of block 2; block 2 is purged at tip 6; a
   reorganisation from block 3 (still stored) unwinds 4 and re-inserts key 20, which no stored
   block created and which stays spendable for ever.  Every delivery satisfies the hypotheses
   of the theorems: this refutes only the exact ledger statement *)
Definition pw_deep : list blk :=
  [pB 14 3 4 10 true [([], [41])]; pB 15 14 5 10 true [([], [51])]; pB 16 15 6 10 true [([], [61])];
   pB 17 16 7 10 true [([], [71])]].

Lemma purge_resurrected_output_witness :
  exists ps,
    phistory_check pw_cfg (pw_main ++ pw_deep) (hashes (pw_main ++ pw_deep)) = true
    /\ deliver_p pw_cfg (pinit pw_cfg) (pw_main ++ pw_deep) = Ok ps
    /\ latest_hash (core ps) = Ok 17
    /\ utxo (core ps) = [20; 41; 51; 61; 71]
    /\ get_block (core ps) 2 = None
    /\ forallb (fun hb => negb (memb 20 (blk_outs (s_b (snd hb))))) (blocks (core ps)) = true.
Proof.
  eexists. split; [vm_compute; reflexivity|]. repeat (split; [vm_compute; reflexivity|]). vm_compute; reflexivity.
Qed.

(* (R4) a block whose parent IS stored, extending a stored fork whose fork point has been
   purged, takes the out-of-order branch: fork 13 <- 14 on block 2, main chain up to 6 (block 2
   is purged at tip 6), then 15 on 14: the reported tip goes back from 6 to 5 *)
Definition pw_fork : list blk :=
  [pB 1 0 1 10 true []; pB 2 1 2 10 true []; pB 3 2 3 10 true []; pB 13 2 3 10 true [];
   pB 4 3 4 10 true []; pB 14 13 4 10 true []; pB 5 4 5 10 true []; pB 6 5 6 10 true []].
Definition pw_fork_b : blk := pB 15 14 5 10 true [].

Lemma purge_disconnected_fork_witness :
  exists ps ps' r,
    phistory_check pw_cfg (pw_fork ++ [pw_fork_b]) (hashes pw_fork) = true
    /\ deliver_p pw_cfg (pinit pw_cfg) pw_fork = Ok ps
    /\ step_ok_b pw_cfg (pw_fork ++ [pw_fork_b]) ps pw_fork_b = false
    /\ get_block (core ps) (b_prev pw_fork_b) <> None
    /\ add_block_p pw_cfg ps pw_fork_b = Ok (ps', r)
    /\ latest_id (core ps) = Ok 6 /\ latest_id (core ps') = Ok 5
    /\ lc_hash_at pw_cfg (ring (core ps)) 6 = Some 6 /\ lc_hash_at pw_cfg (ring (core ps')) 6 = None
    /\ (exists sb, get_block (core ps') 6 = Some sb /\ s_lc sb = false).
Proof.
  eexists. eexists. eexists. split; [vm_compute; reflexivity|]. split; [vm_compute; reflexivity|].
  split; [vm_compute; reflexivity|]. split; [vm_compute; discriminate|].
  repeat (split; [vm_compute; reflexivity|]). eexists. split; vm_compute; reflexivity.
Qed.
