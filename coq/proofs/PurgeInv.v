(* Proofs about model/ChainPurge.v (add_block for all block ids, with the purge of
   blocks 2 * genesis_period below the tip): universe, slot arithmetic inside a
   window of 2 * genesis_period ids, and the ring operations re-proved for chains
   whose ids lie in such a window (the ring invariant [ring_ok] itself and
   everything that does not depend on the id range is reused from ChainInv.v). *)
From Saito Require Import Base Chain ChainPurge ChainBasics ChainInv.

(* block universe without an upper bound on ids; slips carry the id of the block
   that created them (the utxo key embeds block_id), and a block only spends
   slips created at a lower id *)
Record puniv (c : cfg) (U : list blk) : Prop := {
  pu_gp : 1 <= gp_of c;
  pu_nodup : NoDup (hashes U);
  pu_nz : forall b, In b U -> b_hash b <> 0;
  pu_id : forall b, In b U -> 1 <= b_id b;
  pu_link : forall b p, In b U -> In p U -> b_prev b = b_hash p -> b_id b = b_id p + 1;
  pu_key_id : forall b1 b2 k, In b1 U -> In b2 U -> In k (blk_outs b1) -> In k (blk_outs b2) ->
              b_id b1 = b_id b2;
  pu_spend_older : forall b1 b2 k, In b1 U -> In b2 U -> In k (blk_ins b1) -> In k (blk_outs b2) ->
                   b_id b2 < b_id b1
}.

Lemma hash_inj_p c U a b : puniv c U -> In a U -> In b U -> b_hash a = b_hash b -> a = b.
Proof.
  intros HU Ha Hb E. pose proof (pu_nodup _ _ HU) as Hnd. unfold hashes in Hnd. clear -Hnd Ha Hb E.
  induction U as [|x U IH]; [contradiction|]. cbn [map] in Hnd. inversion Hnd as [|? ? Hx Hnd']; subst.
  destruct Ha as [->|Ha], Hb as [->|Hb]; auto.
  - exfalso. apply Hx. rewrite E. now apply in_map.
  - exfalso. apply Hx. rewrite <- E. now apply in_map.
Qed.

Lemma chain_ids_p c U l : puniv c U -> chain_ok U l ->
  forall i a t, nth_error l 0 = Some t -> nth_error l i = Some a -> b_id a + N.of_nat i = b_id t.
Proof.
  intros HU. induction l as [|x l IH]; intros Hc i a t H0 Hi; [destruct i; discriminate|].
  cbn [nth_error] in H0. injection H0 as ->.
  destruct i as [|i]; cbn [nth_error] in Hi; [injection Hi as ->; lia|].
  destruct l as [|p l]; [destruct i; discriminate|].
  pose proof Hc as (Ht & _ & Hl & Hc').
  specialize (IH Hc' i a p eq_refl Hi).
  assert (In p U) by (apply (chain_ok_in _ _ Hc'); now left).
  pose proof (pu_link _ _ HU _ _ Ht H Hl). lia.
Qed.

Lemma chain_id_lt_p c U t l : puniv c U -> chain_ok U (t :: l) -> forall a, In a l -> b_id a < b_id t.
Proof.
  intros HU Hc a Ha. apply In_nth_error in Ha as [i Hi].
  pose proof (chain_ids_p c U (t :: l) HU Hc (S i) a t eq_refl Hi). lia.
Qed.

Lemma chain_ids_inj_p c U l : puniv c U -> chain_ok U l ->
  forall x y, In x l -> In y l -> b_id x = b_id y -> x = y.
Proof.
  intros HU Hc x y Hx Hy E.
  destruct (In_nth_error _ _ Hx) as [i Hi]. destruct (In_nth_error _ _ Hy) as [j Hj].
  destruct l as [|t l']; [contradiction|].
  pose proof (chain_ids_p c U _ HU Hc i x t eq_refl Hi).
  pose proof (chain_ids_p c U _ HU Hc j y t eq_refl Hj).
  assert (i = j) by lia. subst. congruence.
Qed.

Lemma chain_hashes_nodup_p c U l : puniv c U -> chain_ok U l -> NoDup (hashes l).
Proof.
  intros HU. induction l as [|t l IH]; intros Hc; cbn [hashes map]; constructor.
  - intros Hi. apply in_map_iff in Hi as (a & E & Ha).
    pose proof (chain_id_lt_p c U t l HU Hc a Ha).
    assert (a = t).
    { eapply hash_inj_p; eauto. apply (chain_ok_in _ _ Hc); now right. apply (chain_ok_in _ _ Hc); now left. }
    subst. lia.
  - apply IH. eapply chain_ok_tail; eauto.
Qed.

(* ------------------------------------------------------------------ *)
(* slots inside a window of 2 gp ids                                   *)
(* ------------------------------------------------------------------ *)
Lemma slot_inj_win c a b : 1 <= gp_of c ->
  a < b + 2 * gp_of c -> b < a + 2 * gp_of c -> slot c a = slot c b -> a = b.
Proof.
  unfold slot. intros Hgp Ha Hb E. apply N2Nat.inj in E.
  set (m := 2 * gp_of c) in *.
  pose proof (N.div_mod a m ltac:(lia)) as Da. pose proof (N.div_mod b m ltac:(lia)) as Db.
  pose proof (N.mod_upper_bound a m ltac:(lia)). pose proof (N.mod_upper_bound b m ltac:(lia)).
  rewrite E in Da. set (r := b mod m) in *. set (qa := a / m) in *. set (qb := b / m) in *.
  assert (Hm : 1 <= m) by (unfold m; lia). clearbody m r qa qb.
  assert (qa = qb) by nia. subst qa. lia.
Qed.

Lemma slot_prev_p c t : 1 <= gp_of c -> 1 <= t ->
  match slot c t with O => (N.to_nat (2 * gp_of c) - 1)%nat | S k => k end = slot c (t - 1).
Proof.
  unfold slot. intros Hgp Ht. set (m := 2 * gp_of c) in *.
  pose proof (N.div_mod t m ltac:(lia)) as Dt. pose proof (N.mod_upper_bound t m ltac:(lia)) as Ub.
  set (r := t mod m) in *. set (q := t / m) in *.
  assert (Hm : 1 <= m) by (unfold m; lia). clearbody m r q.
  destruct (N.eq_dec r 0) as [E0|Hne].
  - rewrite E0. cbn [N.to_nat]. assert (1 <= q) by nia.
    rewrite <- (N.mod_unique (t - 1) m (q - 1) (m - 1)); [lia|lia|nia].
  - rewrite <- (N.mod_unique (t - 1) m q (r - 1)); [|lia|nia].
    destruct (N.to_nat r) eqn:E; lia.
Qed.

(* ------------------------------------------------------------------ *)
(* ring operations for chains whose ids lie in one window              *)
(* ------------------------------------------------------------------ *)
Definition in_window (c : cfg) (l : list blk) : Prop :=
  forall x y, In x l -> In y l -> b_id x < b_id y + 2 * gp_of c.

Section PRing.
  Variables (c : cfg) (U : list blk).
  Hypothesis HU : puniv c U.

  Lemma gp_pos_p : 1 <= 2 * gp_of c.
  Proof. pose proof (pu_gp _ _ HU). lia. Qed.

  Lemma lc_entry_p bs r rl lcr x :
    store_ok U bs -> ring_ok c bs r rl lcr ->
    (forall b, In b lcr -> sget bs (b_hash b) = Some b) ->
    (forall a b, In a lcr -> In b lcr -> b_id a = b_id b -> a = b) ->
    in_window c lcr -> In x lcr ->
    exists q, ri_lc (item_at r (slot c (b_id x))) = Some q
              /\ nth_error (ri_ent (item_at r (slot c (b_id x)))) q = Some (b_hash x, b_id x).
  Proof.
    intros [_ Hst] Hr Hlc Hinj Hwin Hx.
    pose proof (slot_lt c (b_id x) gp_pos_p) as Hp.
    pose proof (r_lc _ _ _ _ _ Hr _ Hp) as Hl.
    destruct (ri_lc (item_at r (slot c (b_id x)))) as [q|]; [|exfalso; eapply Hl; eauto].
    destruct Hl as (e & Hq & He). exists q. split; [reflexivity|]. rewrite Hq. f_equal.
    apply in_hashes in He as (y & Hy & Ey).
    destruct (r_sound _ _ _ _ _ Hr _ e Hp (nth_error_In _ _ Hq)) as (b & Hb & Hid & Hs).
    rewrite <- Ey, (Hlc y Hy) in Hb. injection Hb as <-.
    rewrite <- Hid in Hs.
    apply slot_inj_win in Hs; [|apply (pu_gp _ _ HU)|apply Hwin; assumption|apply Hwin; assumption].
    assert (y = x) by (apply Hinj; auto). subst y.
    destruct e as [eh eid]; cbn [fst snd] in *. congruence.
  Qed.

  Lemma lc_hash_at_spec_p bs r rl lcr id :
    store_ok U bs -> ring_ok c bs r rl lcr ->
    (forall b, In b lcr -> sget bs (b_hash b) = Some b) ->
    (forall a b, In a lcr -> In b lcr -> b_id a = b_id b -> a = b) ->
    in_window c lcr ->
    lc_hash_at c r id = match find (fun b => b_id b =? id) lcr with Some b => Some (b_hash b) | None => None end.
  Proof.
    intros Hst Hr Hlc Hinj Hwin.
    destruct (find (fun b => b_id b =? id) lcr) as [x|] eqn:Hf.
    - apply find_some in Hf as [Hx Hid]. apply N.eqb_eq in Hid. subst id.
      destruct (lc_entry_p bs r rl lcr x Hst Hr Hlc Hinj Hwin Hx) as (q & Hq1 & Hq2).
      unfold lc_hash_at. rewrite Hq1, Hq2. cbn [snd fst]. now rewrite N.eqb_refl.
    - unfold lc_hash_at.
      pose proof (slot_lt c id gp_pos_p) as Hp. pose proof (r_lc _ _ _ _ _ Hr _ Hp) as Hl.
      destruct (ri_lc (item_at r (slot c id))) as [q|]; [|reflexivity].
      destruct Hl as (e & Hq & He). rewrite Hq.
      destruct (N.eqb_spec (snd e) id) as [E|]; [|reflexivity]. exfalso.
      apply in_hashes in He as (y & Hy & Ey).
      destruct (r_sound _ _ _ _ _ Hr _ e Hp (nth_error_In _ _ Hq)) as (b & Hb & Hid & Hs).
      rewrite <- Ey, (Hlc y Hy) in Hb. injection Hb as <-.
      pose proof (find_none _ _ Hf y Hy) as Hn. cbn beta in Hn. rewrite Hid, E, N.eqb_refl in Hn. discriminate.
  Qed.

  Lemma latest_entry_spec_p st lcr :
    store_ok U (blocks st) -> ring_ok c (blocks st) (ring st) (ring_lc st) lcr ->
    (forall b, In b lcr -> sget (blocks st) (b_hash b) = Some b) ->
    (forall a b, In a lcr -> In b lcr -> b_id a = b_id b -> a = b) ->
    in_window c lcr ->
    latest_entry st = Ok (match lcr with [] => None | t :: _ => Some (b_hash t, b_id t) end).
  Proof.
    intros Hst Hr Hlc Hinj Hwin. unfold latest_entry. rewrite (r_tip _ _ _ _ _ Hr).
    destruct lcr as [|t l]; [reflexivity|].
    destruct (lc_entry_p _ _ _ _ t Hst Hr Hlc Hinj Hwin (or_introl eq_refl)) as (q & Hq1 & Hq2).
    now rewrite Hq1, Hq2.
  Qed.

  (* ---- ring_add ---- *)
  Lemma ring_add_ok_p bs r rl lcr b f :
    store_ok U bs -> ring_ok c bs r rl lcr -> aget (b_hash b) bs = None ->
    ring_ok c (aset (b_hash b) (mkSB b f) bs) (ring_add c r (b_id b) (b_hash b)) rl lcr.
  Proof.
    intros Hst Hr Hnone.
    pose proof (slot_lt c (b_id b) gp_pos_p) as Hp.
    assert (Hg : forall h, sget (aset (b_hash b) (mkSB b f) bs) h = if h =? b_hash b then Some b else sget bs h).
    { intros h. unfold sget. rewrite aget_aset. now destruct (h =? b_hash b). }
    assert (Hlen := r_len _ _ _ _ _ Hr).
    assert (Hit : forall p, ri_ent (item_at (ring_add c r (b_id b) (b_hash b)) p) =
                  if Nat.eqb p (slot c (b_id b)) then ri_ent (item_at r p) ++ [(b_hash b, b_id b)]
                  else ri_ent (item_at r p)).
    { intros p. unfold ring_add. destruct (Nat.eqb_spec p (slot c (b_id b))) as [->|Hne].
      - rewrite item_at_set_eq by lia. reflexivity.
      - now rewrite item_at_set_neq. }
    assert (Hlc : forall p, ri_lc (item_at (ring_add c r (b_id b) (b_hash b)) p) = ri_lc (item_at r p)).
    { intros p. unfold ring_add. destruct (Nat.eq_dec p (slot c (b_id b))) as [->|Hne].
      - rewrite item_at_set_eq by lia. reflexivity.
      - now rewrite item_at_set_neq. }
    split.
    - unfold ring_add. now rewrite length_set_nth.
    - intros p e Hpn He. rewrite Hit in He.
      assert (Hold : In e (ri_ent (item_at r p)) ->
                exists b0, sget (aset (b_hash b) (mkSB b f) bs) (fst e) = Some b0 /\ b_id b0 = snd e /\ slot c (snd e) = p).
      { intros Hi. destruct (r_sound _ _ _ _ _ Hr p e Hpn Hi) as (b0 & H1 & H2 & H3).
        exists b0. rewrite Hg. destruct (N.eqb_spec (fst e) (b_hash b)) as [E|]; [|auto].
        rewrite E in H1. apply sget_some in H1 as (f0 & H1). congruence. }
      destruct (Nat.eqb_spec p (slot c (b_id b))) as [->|Hne]; [|auto].
      apply in_app_iff in He as [He|[<-|[]]]; [auto|].
      exists b. cbn [fst snd]. rewrite Hg, N.eqb_refl. auto.
    - intros h b0 Hs. rewrite Hg in Hs. rewrite Hit.
      destruct (N.eqb_spec h (b_hash b)) as [->|Hne].
      + injection Hs as <-. rewrite Nat.eqb_refl. apply in_app_iff. right. now left.
      + pose proof (r_complete _ _ _ _ _ Hr h b0 Hs).
        destruct (Nat.eqb (slot c (b_id b0)) (slot c (b_id b))); [apply in_app_iff; now left|assumption].
    - intros p Hpn. rewrite Hit. pose proof (r_nodup _ _ _ _ _ Hr p Hpn) as Hnd.
      destruct (Nat.eqb_spec p (slot c (b_id b))) as [->|Hne]; [|assumption].
      rewrite map_app. cbn [map fst]. apply NoDup_snoc; [|assumption].
      intros Hi. apply in_map_iff in Hi as (e & E & He).
      destruct (r_sound _ _ _ _ _ Hr _ e Hpn He) as (b0 & H1 & _).
      rewrite E in H1. apply sget_some in H1 as (f0 & H1). congruence.
    - intros p Hpn. rewrite Hlc, Hit. pose proof (r_lc _ _ _ _ _ Hr p Hpn) as Hl.
      destruct (ri_lc (item_at r p)) as [q|]; [|assumption].
      destruct Hl as (e & Hq & He). exists e. split; [|assumption].
      destruct (Nat.eqb p (slot c (b_id b))); [now apply nth_error_app_l|assumption].
    - apply (r_tip _ _ _ _ _ Hr).
  Qed.

  (* ---- marking (wind): the slot may still hold the lc block 2 gp below, which is
         then no longer indexed (it is purged right afterwards) ---- *)
  Lemma ring_mark_ok_p bs r rl rest b :
    ring_ok c bs r rl rest -> sget bs (b_hash b) = Some b ->
    ring_ok c bs (ring_mark c r (b_id b) (b_hash b)) (Some (slot c (b_id b))) (b :: rest).
  Proof.
    intros Hr Hs.
    pose proof (slot_lt c (b_id b) gp_pos_p) as Hp.
    assert (Hlen := r_len _ _ _ _ _ Hr).
    assert (Hit : forall p, ri_ent (item_at (ring_mark c r (b_id b) (b_hash b)) p) = ri_ent (item_at r p)).
    { intros p. unfold ring_mark. destruct (Nat.eq_dec p (slot c (b_id b))) as [->|Hne].
      - rewrite item_at_set_eq by lia. reflexivity.
      - now rewrite item_at_set_neq. }
    split.
    - unfold ring_mark. now rewrite length_set_nth.
    - intros p e Hpn He. rewrite Hit in He. eapply r_sound; eauto.
    - intros h b0 H0. rewrite Hit. eapply r_complete; eauto.
    - intros p Hpn. rewrite Hit. eapply r_nodup; eauto.
    - intros p Hpn. rewrite Hit. destruct (Nat.eq_dec p (slot c (b_id b))) as [->|Hne].
      + unfold ring_mark at 1. rewrite item_at_set_eq by lia. cbn [ri_lc].
        destruct (position_spec (b_hash b) (b_id b) (ri_ent (item_at r (slot c (b_id b)))))
          as (q & -> & Hq).
        * eapply r_nodup; eauto.
        * eapply r_complete; eauto.
        * exists (b_hash b, b_id b). split; [assumption|]. cbn [fst hashes map]. now left.
      + unfold ring_mark at 1. rewrite item_at_set_neq by assumption.
        pose proof (r_lc _ _ _ _ _ Hr p Hpn) as Hl.
        destruct (ri_lc (item_at r p)) as [q|].
        * destruct Hl as (e & Hq & He). exists e. split; [assumption|]. cbn [hashes map]. now right.
        * intros y [<-|Hy]; [congruence|auto].
    - reflexivity.
  Qed.

  (* the slot of the block just marked points at it *)
  Lemma ring_mark_entry bs r rl rest b :
    ring_ok c bs r rl rest -> sget bs (b_hash b) = Some b ->
    exists q, ri_lc (item_at (ring_mark c r (b_id b) (b_hash b)) (slot c (b_id b))) = Some q
      /\ nth_error (ri_ent (item_at (ring_mark c r (b_id b) (b_hash b)) (slot c (b_id b)))) q
         = Some (b_hash b, b_id b).
  Proof.
    intros Hr Hs.
    pose proof (slot_lt c (b_id b) gp_pos_p) as Hp.
    assert (Hlen := r_len _ _ _ _ _ Hr).
    unfold ring_mark. rewrite item_at_set_eq by lia. cbn [ri_lc ri_ent].
    destruct (position_spec (b_hash b) (b_id b) (ri_ent (item_at r (slot c (b_id b))))) as (q & Hq1 & Hq2).
    - eapply r_nodup; eauto.
    - eapply r_complete; eauto.
    - exists q. auto.
  Qed.

  (* dropping from the chain argument a block whose slot does not point at it *)
  Lemma ring_ok_drop bs r rl l1 y :
    ring_ok c bs r rl (l1 ++ [y]) -> l1 <> [] -> sget bs (b_hash y) = Some y ->
    (forall q e, ri_lc (item_at r (slot c (b_id y))) = Some q ->
                 nth_error (ri_ent (item_at r (slot c (b_id y)))) q = Some e -> fst e <> b_hash y) ->
    ring_ok c bs r rl l1.
  Proof.
    intros Hr Hne Hs Hny. destruct Hr as [H1 H2 H3 H4 H5 H6]. split; auto.
    - intros p Hp. specialize (H5 p Hp). destruct (ri_lc (item_at r p)) as [q|] eqn:El.
      + destruct H5 as (e & Hq & He). exists e. split; [assumption|].
        unfold hashes in He. rewrite map_app in He. apply in_app_iff in He as [He|[He|[]]]; [exact He|].
        exfalso. destruct (H2 p e Hp (nth_error_In _ _ Hq)) as (b0 & G0 & I0 & S0).
        rewrite <- He, Hs in G0. injection G0 as <-. rewrite <- I0 in S0. subst p.
        exact (Hny q e El Hq (eq_sym He)).
      + intros b Hb. apply H5. apply in_app_iff. now left.
    - rewrite H6. destruct l1; [contradiction|reflexivity].
  Qed.

  (* ---- unmarking the tip (unwind); the parent stays on the chain ---- *)
  Lemma ring_unmark_ok_p bs r rl t p rest :
    ring_ok c bs r rl (t :: p :: rest) ->
    (forall b, In b (t :: p :: rest) -> sget bs (b_hash b) = Some b) ->
    (forall y, In y (p :: rest) -> b_id y < b_id t) -> in_window c (t :: p :: rest) ->
    ring_ok c bs (ring_unmark c r (b_id t)) (Some (slot c (b_id p))) (p :: rest).
  Proof.
    intros Hr Hlc Hlt Hwin.
    pose proof (slot_lt c (b_id t) gp_pos_p) as Hp.
    assert (Hlen := r_len _ _ _ _ _ Hr).
    assert (Hit : forall p, ri_ent (item_at (ring_unmark c r (b_id t)) p) = ri_ent (item_at r p)).
    { intros p0. unfold ring_unmark. destruct (Nat.eq_dec p0 (slot c (b_id t))) as [->|Hne].
      - rewrite item_at_set_eq by lia. reflexivity.
      - now rewrite item_at_set_neq. }
    split.
    - unfold ring_unmark. now rewrite length_set_nth.
    - intros p0 e Hpn He. rewrite Hit in He. eapply r_sound; eauto.
    - intros h b0 H0. rewrite Hit. eapply r_complete; eauto.
    - intros p0 Hpn. rewrite Hit. eapply r_nodup; eauto.
    - intros p0 Hpn. rewrite Hit. destruct (Nat.eq_dec p0 (slot c (b_id t))) as [->|Hne].
      + unfold ring_unmark at 1. rewrite item_at_set_eq by lia. cbn [ri_lc].
        intros y Hy E.
        apply slot_inj_win in E; [|apply (pu_gp _ _ HU)|apply Hwin; cbn; auto|apply Hwin; cbn; auto].
        specialize (Hlt y Hy). lia.
      + unfold ring_unmark at 1. rewrite item_at_set_neq by assumption.
        pose proof (r_lc _ _ _ _ _ Hr p0 Hpn) as Hl.
        destruct (ri_lc (item_at r p0)) as [q|].
        * destruct Hl as (e & Hq & He). exists e. split; [assumption|].
          cbn [hashes map In] in He. destruct He as [He|He]; [exfalso|exact He].
          destruct (r_sound _ _ _ _ _ Hr p0 e Hpn (nth_error_In _ _ Hq)) as (b0 & H1 & H2 & H3).
          rewrite <- He, (Hlc t (or_introl eq_refl)) in H1. injection H1 as <-. congruence.
        * intros y Hy. apply Hl. now right.
    - reflexivity.
  Qed.

  Lemma ring_reorg_false_tip_p st t p rest :
    store_ok U (blocks st) -> ring_ok c (blocks st) (ring st) (ring_lc st) (t :: p :: rest) ->
    (forall b, In b (t :: p :: rest) -> sget (blocks st) (b_hash b) = Some b) ->
    (forall a b, In a (t :: p :: rest) -> In b (t :: p :: rest) -> b_id a = b_id b -> a = b) ->
    in_window c (t :: p :: rest) -> b_id t = b_id p + 1 ->
    ring_reorg c st (b_id t) (b_hash t) false
    = Ok (set_ring st (ring_unmark c (ring st) (b_id t)) (Some (slot c (b_id p)))).
  Proof.
    intros Hst Hr Hlc Hinj Hwin Hid.
    assert (Hlen := r_len _ _ _ _ _ Hr).
    pose proof (slot_lt c (b_id t) gp_pos_p) as Hp.
    pose proof (pu_gp _ _ HU) as Hgp.
    unfold ring_reorg. rewrite (r_tip _ _ _ _ _ Hr), Nat.eqb_refl.
    cbv zeta. rewrite slot_prev_p by lia.
    replace (b_id t - 1) with (b_id p) by lia.
    destruct (N.eqb_spec (b_id t) 0) as [E|_]; [lia|].
    assert (Hne : slot c (b_id p) <> slot c (b_id t)).
    { intros E. apply slot_inj_win in E; lia. }
    rewrite item_at_set_neq by assumption.
    destruct (lc_entry_p _ _ _ _ p Hst Hr Hlc Hinj Hwin (or_intror (or_introl eq_refl))) as (q & Hq1 & Hq2).
    rewrite Hq1, Hq2. cbn [snd]. rewrite N.eqb_refl. reflexivity.
  Qed.

  (* ---- RingItem::delete_block ---- *)
  Lemma ring_delete_ok_p bs r rl lcr b :
    store_ok U bs -> ring_ok c bs r rl lcr -> sget bs (b_hash b) = Some b ->
    ~ In (b_hash b) (hashes lcr) ->
    ring_ok c (adel (b_hash b) bs) (ring_delete c r (b_id b) (b_hash b)) rl lcr.
  Proof.
    intros [Hsort Hst] Hr Hs Hnl.
    pose proof (slot_lt c (b_id b) gp_pos_p) as Hp.
    assert (Hlen := r_len _ _ _ _ _ Hr).
    set (p0 := slot c (b_id b)) in *.
    set (ents := ri_ent (item_at r p0)).
    assert (Hitem : item_at (ring_delete c r (b_id b) (b_hash b)) p0 =
              mkRI (snd (ri_delete (b_id b) (b_hash b) ents O (ri_lc (item_at r p0)) O))
                   (filter (rkeep (b_id b) (b_hash b)) ents)).
    { unfold ring_delete. fold p0. fold ents.
      pose proof (ri_delete_fst (b_id b) (b_hash b) ents O (ri_lc (item_at r p0)) O) as Hf.
      destruct (ri_delete (b_id b) (b_hash b) ents 0 (ri_lc (item_at r p0)) 0) as [e' l'].
      cbn [fst snd] in *. rewrite item_at_set_eq by lia. now rewrite Hf. }
    assert (Hother : forall p, p <> p0 -> item_at (ring_delete c r (b_id b) (b_hash b)) p = item_at r p).
    { intros p Hne. unfold ring_delete. fold p0.
      destruct (ri_delete (b_id b) (b_hash b) (ri_ent (item_at r p0)) 0 (ri_lc (item_at r p0)) 0).
      now rewrite item_at_set_neq. }
    split.
    - unfold ring_delete. destruct (ri_delete _ _ _ _ _ _). now rewrite length_set_nth.
    - intros p e Hpn He. destruct (Nat.eq_dec p p0) as [->|Hne].
      + rewrite Hitem in He. cbn [ri_ent] in He. apply filter_In in He as [He Hk].
        destruct (r_sound _ _ _ _ _ Hr p0 e Hpn He) as (b0 & H1 & H2 & H3).
        exists b0. rewrite sget_adel by assumption.
        destruct (N.eqb_spec (fst e) (b_hash b)) as [E|]; [|auto]. exfalso.
        rewrite E, Hs in H1. injection H1 as <-. unfold rkeep in Hk.
        rewrite E, H2, !N.eqb_refl in Hk. discriminate.
      + rewrite Hother in He by assumption.
        destruct (r_sound _ _ _ _ _ Hr p e Hpn He) as (b0 & H1 & H2 & H3).
        exists b0. rewrite sget_adel by assumption.
        destruct (N.eqb_spec (fst e) (b_hash b)) as [E|]; [|auto]. exfalso.
        rewrite E, Hs in H1. injection H1 as <-. apply Hne. unfold p0. congruence.
    - intros h b0 H0. rewrite sget_adel in H0 by assumption.
      destruct (N.eqb_spec h (b_hash b)) as [|Hne]; [discriminate|].
      pose proof (r_complete _ _ _ _ _ Hr h b0 H0) as Hi.
      destruct (Nat.eq_dec (slot c (b_id b0)) p0) as [E|Hne'].
      + rewrite E in *. rewrite Hitem. cbn [ri_ent]. apply filter_In. split; [assumption|].
        unfold rkeep. cbn [fst snd]. destruct (N.eqb_spec h (b_hash b)); [contradiction|].
        now rewrite andb_false_r.
      + now rewrite Hother.
    - intros p Hpn. destruct (Nat.eq_dec p p0) as [->|Hne].
      + rewrite Hitem. cbn [ri_ent]. apply NoDup_map_filter. eapply r_nodup; eauto.
      + rewrite Hother by assumption. eapply r_nodup; eauto.
    - intros p Hpn. pose proof (r_lc _ _ _ _ _ Hr p Hpn) as Hl.
      destruct (Nat.eq_dec p p0) as [->|Hne]; [|now rewrite Hother].
      rewrite Hitem. cbn [ri_lc ri_ent].
      destruct (snd (ri_delete (b_id b) (b_hash b) ents 0 (ri_lc (item_at r p0)) 0)) as [q'|] eqn:Ed.
      + apply ri_delete_some in Ed as (q & e & H1 & _ & H3 & _ & _ & H6).
        rewrite H1 in Hl. destruct Hl as (e0 & Hq & He0). rewrite Nat.sub_0_r in H3, H6.
        fold ents in Hq. rewrite H3 in Hq. injection Hq as <-. exists e. auto.
      + destruct (ri_lc (item_at r p0)) as [q|] eqn:El; [exfalso|assumption].
        destruct Hl as (e0 & Hq & He0).
        pose proof (ri_delete_none _ _ _ _ _ _ Ed q e0 eq_refl (Nat.le_0_l _)) as Hk.
        rewrite Nat.sub_0_r in Hk. specialize (Hk Hq). unfold rkeep in Hk.
        apply negb_false_iff, andb_true_iff in Hk as [_ Hk]. apply N.eqb_eq in Hk.
        apply Hnl. now rewrite <- Hk.
    - apply (r_tip _ _ _ _ _ Hr).
  Qed.
End PRing.
