(* Theorems about add_block_p (model/ChainPurge.v): C03 / C04 / C05 for all block ids. *)
From Saito Require Import Base Chain ChainBasics ChainInv ChainWind ChainAdd ChainProofs
     PurgeInv PurgeWind PurgeAdd ChainPurge.

(* ------------------------------------------------------------------ *)
(* hypotheses on one delivery                                          *)
(* ------------------------------------------------------------------ *)
(* the new block is connected to the stored part of the longest chain (or is the
   first block, a root).  In the regime without purge this is "the parent is stored"
   (props/C03.v, parent_ok); once blocks are purged a stored fork whose fork point is
   gone is no longer connected — see the refuted statements in props/C05.v. *)
Definition conn (c : cfg) (U : list blk) (st : state) (b : blk) : Prop :=
  (blocks st = [] /\ is_root U b)
  \/ exists sh l, new_chain_from (S (length (blocks (ins_block c st b)))) (ins_block c st b) (b_hash b) []
                  = (true, sh, l).

(* blocks of a candidate (deepest first) that would be wound before the first invalid one *)
Fixpoint wound_prefix (st : state) (todo : list N) : list blk :=
  match todo with
  | [] => []
  | h :: t => match get_block st h with
              | Some sb => if b_valid (s_b sb) then s_b sb :: wound_prefix st t else []
              | None => []
              end
  end.

(* "late failure": the candidate chain contains an invalid block, and before reaching
   it a candidate block above the current last block id AND above 2 * gp would be wound
   (this is what triggers a purge on behalf of a chain that is then rejected) *)
Definition late_b (c : cfg) (st2 : state) (new : list N) : bool :=
  negb (forallb (fun h => match get_block st2 h with Some sb => b_valid (s_b sb) | None => false end) new)
  && existsb (fun y => (last_id st2 <? b_id y) && (2 * gp_of c <? b_id y)) (wound_prefix st2 (rev new)).

Definition no_late (c : cfg) (st : state) (b : blk) : Prop :=
  forall sh l, new_chain_from (S (length (blocks (ins_block c st b)))) (ins_block c st b) (b_hash b) []
               = (true, sh, l) -> late_b c (ins_block c st b) l = false.

Definition step_ok (c : cfg) (U : list blk) (ps : pstate) (b : blk) : Prop :=
  In b U /\ conn c U (core ps) b /\ no_late c (core ps) b.

(* ------------------------------------------------------------------ *)
(* the invariant at quiescent points                                   *)
(* ------------------------------------------------------------------ *)
Definition PInvW (c : cfg) (U : list blk) (ps : pstate) (lcs lcp : list blk) : Prop :=
  PInvS c U ps lcs lcp 0
  /\ (ring_empty (core ps) = true -> blocks (core ps) = [])
  /\ last_id (core ps) = tip_id lcs /\ last_hash (core ps) = tip_hash lcs
  /\ (lcs = [] -> lcp = []).
Definition PInvQ (c : cfg) (U : list blk) (ps : pstate) : Prop := exists lcs lcp, PInvW c U ps lcs lcp.

(* one call in the main case: the candidate chain b :: newtl (tip first) sits on the stored
   chain block [hd common]; oldb is the part of the stored chain above it *)
Record pmain (c : cfg) (U : list blk) (ps : pstate) (lcs lcp : list blk) (b : blk)
       (ps' : pstate) (r : add_result) (newtl oldb common : list blk) : Prop := {
  q_split : lcs = oldb ++ common;
  q_link : linked_dn U (b :: newtl) (common ++ lcp);
  q_new : forall y, In y newtl -> sget (blocks (core ps)) (b_hash y) = Some y /\ ~ In y lcs;
  q_first : common = [] -> newtl = [] /\ blocks (core ps) = [] /\ is_root U b /\ lcp = [];
  q_parent : common <> [] -> get_block (core ps) (b_prev b) <> None;
  q_res : r = if fork_choice c (core ps) lcs b newtl oldb
              then if cand_valid (core ps) b newtl then OnChain else Invalid else OffChain;
  q_on : fork_choice c (core ps) lcs b newtl oldb && cand_valid (core ps) b newtl = true ->
         exists lcs' lcp',
           PInvW c U ps' lcs' lcp' /\ lcs' ++ lcp' = (b :: newtl) ++ common ++ lcp
           /\ (exists r0, lcs' = b :: r0)
           /\ sget (blocks (core ps')) (b_hash b) = Some b
           /\ (forall h y, sget (blocks (core ps')) h = Some y ->
                 h = b_hash b \/ sget (blocks (core ps)) h = Some y)
           /\ (forall h y, sget (blocks (core ps)) h = Some y -> b_id b < b_id y + 2 * gp_of c ->
                 sget (blocks (core ps')) h = Some y);
  q_off : fork_choice c (core ps) lcs b newtl oldb && cand_valid (core ps) b newtl = false ->
          PInvW c U ps' lcs lcp
          /\ (forall h, sget (blocks (core ps')) h =
                if h =? b_hash b
                then if fork_choice c (core ps) lcs b newtl oldb then None else Some b
                else sget (blocks (core ps)) h)
          /\ gid ps' = gid ps
}.

Section PMain.
  Variables (c : cfg) (U : list blk).
  Hypothesis HU : puniv c U.
  Hypothesis HWF : valid_wf U.

  Lemma PWin_same st st' lcs lcp L : same_store (blocks st) (blocks st') ->
    PWin c st lcs lcp L -> PWin c st' lcs lcp L.
  Proof.
    intros Hss [N1 N2 N3]. split; auto.
    intros h sb Gs. pose proof (get_sget _ _ _ Gs) as Ss. rewrite <- Hss in Ss.
    destruct (sget_get _ _ _ Ss) as (f' & G'). apply (N1 _ _ G').
  Qed.

  Lemma PWin_sub st st' lcs lcp L :
    (forall h y, sget (blocks st') h = Some y -> sget (blocks st) h = Some y) ->
    PWin c st lcs lcp L -> PWin c st' lcs lcp L.
  Proof.
    intros Hss [N1 N2 N3]. split; auto.
    intros h sb Gs. pose proof (Hss _ _ (get_sget _ _ _ Gs)) as Ss.
    destruct (sget_get _ _ _ Ss) as (f' & G'). apply (N1 _ _ G').
  Qed.

  Lemma wound_prefix_spec st pre bad post :
    (forall y, In y (pre ++ bad :: post) -> sget (blocks st) (b_hash y) = Some y) ->
    forallb b_valid pre = true -> b_valid bad = false ->
    wound_prefix st (hashes (pre ++ bad :: post)) = pre.
  Proof.
    induction pre as [|y pre IH]; intros Hst Hv Hb; cbn [app hashes map wound_prefix].
    - destruct (sget_get _ _ _ (Hst bad (or_introl eq_refl))) as (f & ->). cbn [s_b]. now rewrite Hb.
    - destruct (sget_get _ _ _ (Hst y (or_introl eq_refl))) as (f & ->). cbn [s_b].
      cbn [forallb] in Hv. apply andb_true_iff in Hv as [Hy Hv]. rewrite Hy. f_equal.
      apply IH; auto. intros z Hz. apply Hst. now right.
  Qed.

  Lemma forallb_lookup st l : (forall y, In y l -> sget (blocks st) (b_hash y) = Some y) ->
    forallb (fun h => match get_block st h with Some sb => b_valid (s_b sb) | None => false end) (hashes l)
    = forallb b_valid l.
  Proof.
    induction l as [|y l IH]; intros Hst; cbn [hashes map forallb]; [reflexivity|].
    destruct (sget_get _ _ _ (Hst y (or_introl eq_refl))) as (f & ->). cbn [s_b]. f_equal.
    apply IH. intros z Hz. apply Hst. now right.
  Qed.

  (* ---------------- the decision and its execution ---------------- *)
  Lemma add_finish_p_ok ps2 b newtl oldb common lcp :
    PInvS c U ps2 (oldb ++ common) lcp (b_hash b) ->
    In b U ->
    get_block (core ps2) (b_hash b) = Some (mkSB b false) ->
    ~ In (b_hash b) (hashes (oldb ++ common)) ->
    (forall y, In y (b :: newtl) -> sget (blocks (core ps2)) (b_hash y) = Some y) ->
    linked_dn U (b :: newtl) (common ++ lcp) ->
    (common <> [] \/ (oldb = [] /\ newtl = [] /\ lcp = [] /\ only_block (core ps2) b)) ->
    last_id (core ps2) = tip_id (oldb ++ common) -> last_hash (core ps2) = tip_hash (oldb ++ common) ->
    (ring_empty (core ps2) = true -> oldb ++ common = []) ->
    (forall tb1 z tb2, rev (b :: newtl) = tb1 ++ z :: tb2 -> forall y, In y tb2 -> b_id z < b_id y) ->
    late_b c (core ps2) (hashes (b :: newtl)) = false ->
    let lg := longest_spec c (ring_empty (core ps2)) (tip_id (oldb ++ common)) b (b :: newtl) oldb in
    let gv := gt_count_valid (core ps2) (b_prev b) (b_gt b) && forallb b_valid (b :: newtl) in
    exists ps' r, add_finish_p c b ps2 (hashes (b :: newtl)) (hashes oldb) = Ok (ps', r)
      /\ ring_empty (core ps') = false
      /\ r = (if lg then if gv then OnChain else Invalid else OffChain)
      /\ (lg && gv = true -> exists lcs' lcp',
            PInvS c U ps' lcs' lcp' 0 /\ lcs' ++ lcp' = (b :: newtl) ++ common ++ lcp
            /\ (exists r0, lcs' = b :: r0)
            /\ last_id (core ps') = b_id b /\ last_hash (core ps') = b_hash b
            /\ (forall h y, sget (blocks (core ps')) h = Some y -> sget (blocks (core ps2)) h = Some y)
            /\ (forall h y, sget (blocks (core ps2)) h = Some y -> b_id b < b_id y + 2 * gp_of c ->
                  sget (blocks (core ps')) h = Some y))
      /\ (lg && gv = false ->
            PInvS c U ps' (oldb ++ common) lcp 0
            /\ (forall h, sget (blocks (core ps')) h =
                          if (h =? b_hash b) && lg then None else sget (blocks (core ps2)) h)
            /\ last_id (core ps') = last_id (core ps2) /\ last_hash (core ps') = last_hash (core ps2)
            /\ gid ps' = gid ps2).
  Proof.
    intros HI Hb G Hx Hst Hl Hcm Hla1 Hla2 Hre Hinc Hlate lg gv.
    pose proof HI as [[W Wn] Hg].
    unfold add_finish_p. rewrite (latest_id_spec_p c U HU _ _ _ _ _ W Wn). cbn [bind].
    rewrite (longest_eq c (core ps2) b newtl oldb (tip_id (oldb ++ common))); auto.
    2:{ intros y Hy. eapply pc_sget; [exact W|]. apply in_app_iff. now left. }
    2:{ apply (latest_id_spec_p c U HU _ _ _ _ _ W Wn). }
    fold lg. cbn [bind].
    assert (Hlg : common = [] -> lg = true).
    { intros ->. destruct Hcm as [?|(-> & -> & _)]; [contradiction|].
      unfold lg, longest_spec. cbn [app tip_id length bf_total fold_left].
      pose proof (pu_id _ _ HU b Hb).
      replace (0 - gp_of c <? b_id b) with true by (symmetry; apply N.ltb_lt; lia).
      replace (b_id b <=? 0) with false by (symmetry; apply N.leb_gt; lia).
      cbn. replace (0 <=? 0 + b_bf b) with true by (symmetry; apply N.leb_le; lia). now rewrite orb_true_r. }
    assert (Hlt : lg = true -> tip_id (oldb ++ common) < b_id b).
    { unfold lg, longest_spec. intros H. apply andb_true_iff in H as [_ H].
      destruct (ring_empty (core ps2)).
      - rewrite (Hre eq_refl). cbn [tip_id]. pose proof (pu_id _ _ HU b Hb). lia.
      - cbn [orb] in H. apply andb_true_iff in H as [H _]. apply andb_true_iff in H as [H _].
        now apply negb_true_iff, N.leb_gt in H. }
    destruct lg eqn:Elg.
    - (* longest: flag, validate *)
      set (ps5 := lift (fun st => set_lc_flag st (b_hash b) true) (lift set_not_empty ps2)).
      assert (E5 : core ps5 = set_blocks (set_not_empty (core ps2)) (aset (b_hash b) (mkSB b true) (blocks (core ps2)))).
      { unfold ps5, lift, set_lc_flag. cbn [core]. unfold get_block in *. cbn [set_not_empty blocks]. now rewrite G. }
      assert (S5 : same_store (blocks (core ps2)) (blocks (core ps5))).
      { rewrite E5. cbn [set_blocks blocks]. apply (same_store_flag _ _ _ true G). }
      assert (HI5 : PInvS c U ps5 (oldb ++ common) lcp (b_hash b)).
      { split; [split|].
        - eapply (reflag_core c U (core ps2) (core ps5) _ _ _ b false true W G Hx); rewrite E5; reflexivity.
        - replace (last_id (core ps5)) with (last_id (core ps2)) by (rewrite E5; reflexivity).
          apply (PWin_same (core ps2)); [exact S5|exact Wn].
        - replace (last_id (core ps5)) with (last_id (core ps2)) by (rewrite E5; reflexivity). exact Hg. }
      assert (L5 : last_id (core ps5) = last_id (core ps2)) by (rewrite E5; reflexivity).
      assert (H5 : last_hash (core ps5) = last_hash (core ps2)) by (rewrite E5; reflexivity).
      assert (R5 : ring_empty (core ps5) = false) by (rewrite E5; reflexivity).
      destruct (validate_p_ok c U HU HWF ps5 b newtl oldb common lcp (b_hash b) HI5) as
        (ps6 & ok & Ev & R6 & Eok & Hsucc & Hfail).
      { now rewrite L5. }
      { now rewrite H5. }
      { intros y Hy. rewrite <- S5. now apply Hst. }
      { exact Hl. }
      { destruct Hcm as [?|(Ho & Hn & Hp & Hob)]; [now left|right]. repeat split; auto.
        intros h sb Gs. pose proof (get_sget _ _ _ Gs) as Ss. rewrite <- S5 in Ss.
        destruct (sget_get _ _ _ Ss) as (f' & G'). exact (Hob h _ G'). }
      { exact Hinc. }
      { (* no late failure *)
        intros pre bad post Epre Hvp Hvb y Hy. rewrite L5.
        unfold late_b in Hlate. rewrite (forallb_lookup _ _ Hst) in Hlate.
        assert (Hfa : forallb b_valid (b :: newtl) = false).
        { rewrite <- forallb_rev, Epre. now apply forallb_app_false. }
        rewrite Hfa in Hlate. cbn [negb andb] in Hlate.
        rewrite rev_hashes, Epre in Hlate.
        rewrite (wound_prefix_spec (core ps2) pre bad post) in Hlate; auto.
        2:{ intros z Hz. apply Hst. apply in_rev. rewrite Epre. exact Hz. }
        destruct (N.le_gt_cases (b_id y) (last_id (core ps2))) as [?|Hgt1]; [now left|right].
        destruct (N.le_gt_cases (b_id y) (2 * gp_of c)) as [?|Hgt2]; [assumption|exfalso].
        assert (existsb (fun y0 => (last_id (core ps2) <? b_id y0) && (2 * gp_of c <? b_id y0)) pre = true);
          [|congruence].
        apply existsb_exists. exists y. split; [exact Hy|].
        apply andb_true_iff. split; apply N.ltb_lt; assumption. }
      rewrite Ev. cbn [bind].
      rewrite <- (gt_count_valid_same (core ps2) (core ps5) _ _ S5) in Eok. fold gv in Eok. subst ok.
      destruct gv eqn:Egv.
      + destruct (Hsucc eq_refl) as (lcs' & lcp' & HI6 & Eapp & Er0 & Hlast & T1 & T2).
        exists ps6, OnChain. split; [reflexivity|]. split; [congruence|]. split; [reflexivity|].
        cbn [andb]. split; [|discriminate]. intros _.
        exists lcs', lcp'. destruct Er0 as (r0 & Er0).
        split.
        { destruct HI6 as [[W6 Wn6] Hg6]. split; [split; [|exact Wn6]|exact Hg6].
          eapply PCore_drop_on; [exact W6|]. rewrite Er0. cbn [hashes map]. now left. }
        split; [exact Eapp|]. split; [eauto|].
        assert (Hl6 : last_id (core ps5) < b_id b) by (rewrite L5, Hla1; now apply Hlt).
        destruct (Hlast Hl6) as [Hl1 Hl2]. split; [exact Hl1|]. split; [exact Hl2|].
        split; [intros h y Hs; rewrite S5; now apply T1|].
        intros h y Hs Hlt'. apply T2; [now rewrite <- S5|exact Hlt'].
      + destruct (Hfail eq_refl) as (HI6 & S6 & Hl6 & Hh6 & Hg6).
        assert (G6 : exists f6, get_block (core ps6) (b_hash b) = Some (mkSB b f6)).
        { apply sget_get. rewrite <- S6, <- S5. apply (get_sget _ _ _ G). }
        destruct G6 as (f6 & G6).
        unfold lift at 1. cbn [core gid]. rewrite (failure_eq c _ _ _ G6).
        eexists (mkP (failed c (core ps6) b) (gid ps6)), Invalid. split; [reflexivity|].
        split; [cbn [core failed ring_empty]; congruence|]. split; [reflexivity|].
        cbn [andb]. split; [discriminate|]. intros _. cbn [core gid].
        destruct HI6 as [[W6 Wn6] Hgg6].
        split.
        { split; [split|].
          - apply (failed_core c U HU _ _ _ b f6 W6 G6 Hx).
          - change (last_id (failed c (core ps6) b)) with (last_id (core ps6)).
            apply (PWin_sub (core ps6)); [|exact Wn6].
            intros h y Ss. cbn [core] in Ss. rewrite sget_failed in Ss by apply (p_store _ _ _ _ _ _ W6).
            destruct (h =? b_hash b); [discriminate|exact Ss].
          - cbn [failed last_id]. exact Hgg6. }
        split.
        { intros h. rewrite sget_failed by apply (p_store _ _ _ _ _ _ W6). rewrite andb_true_r.
          destruct (h =? b_hash b); [reflexivity|]. rewrite <- S6. now rewrite <- S5. }
        cbn [failed last_id last_hash]. rewrite Hl6, Hh6, L5, H5, Hg6. repeat split.
    - exists (lift set_not_empty ps2), OffChain. split; [reflexivity|]. split; [reflexivity|].
      split; [reflexivity|]. cbn [andb]. split; [discriminate|]. intros _.
      split.
      { split; [split|].
        - apply (PCore_ext c U (core ps2)); [reflexivity..|].
          eapply PCore_drop_off; [exact W|]. intros sb Gs. rewrite G in Gs. now injection Gs as <-.
        - eapply PWin_ext; [|exact Wn]. reflexivity.
        - exact Hg. }
      split; [intros h; now rewrite andb_false_r|]. repeat split.
  Qed.

  (* ---------------- the two chains, empty store ---------------- *)
  Lemma add_chains_A_p st b :
    PCore c U st [] [] 0 -> PWin c st [] [] (last_id st) -> In b U -> blocks st = [] -> is_root U b ->
    last_id st = 0 ->
    add_chains c b 0 (inserted c st b) = Ok (inserted c st b, [b_hash b], []).
  Proof.
    intros W Wn Hb Hbl Hr Hl0.
    assert (Hn : get_block st (b_hash b) = None) by (unfold get_block; now rewrite Hbl).
    assert (Hnp : ~ In b []) by (intros []).
    pose proof (inserted_core c U HU st [] [] b W Hb Hn Hnp) as W2.
    set (st2 := inserted c st b) in *.
    assert (Wn2 : PWin c st2 [] [] (last_id st2)).
    { split; [|intros y []|intros y []]. intros h sb Gs. unfold st2, inserted; cbn [last_id]. rewrite Hl0.
      destruct (pc_stored_in c U _ _ _ _ _ _ W2 Gs) as [_ HsU]. pose proof (pu_id _ _ HU _ HsU). lia. }
    assert (Hbl2 : blocks st2 = [(b_hash b, mkSB b false)]).
    { unfold st2, inserted; cbn [blocks]. now rewrite Hbl. }
    assert (Hpb : b_prev b <> b_hash b) by (intros E; apply (Hr b Hb); now symmetry).
    pose proof (pu_nz _ _ HU b Hb) as Hnz.
    unfold add_chains. cbv zeta. rewrite Hbl2. cbn [length new_chain_from].
    unfold get_block at 1. rewrite Hbl2. cbn [aget]. rewrite N.eqb_refl. cbn [s_lc s_b].
    destruct (N.eqb_spec (b_hash b) 0) as [?|_]; [contradiction|].
    unfold get_block at 1. rewrite Hbl2. cbn [aget].
    destruct (N.eqb_spec (b_prev b) (b_hash b)) as [?|_]; [contradiction|].
    cbn [rev app bind length].
    rewrite (latest_hash_spec_p c U HU _ _ _ _ _ W2 Wn2), (latest_id_spec_p c U HU _ _ _ _ _ W2 Wn2). cbn [bind tip_hash].
    rewrite N.eqb_refl. cbn [negb andb].
    assert (Eo : old_chain_upto 2 st2 0 1 [] = []).
    { cbn [old_chain_upto length Nat.leb]. unfold get_block. rewrite Hbl2. cbn [aget].
      destruct (N.eqb_spec 0 (b_hash b)) as [E|_]; [congruence|reflexivity]. }
    destruct (ring_empty st2); cbn [bind]; now rewrite Eo.
  Qed.

  Lemma plinked_app_l l1 l2 : plinked (l1 ++ l2) -> plinked l1.
  Proof.
    induction l1 as [|a l1 IH]; [constructor|]. cbn [app plinked]. intros [H1 H2]. split; [|auto].
    destruct l1; [exact I|exact H1].
  Qed.

  (* ---------------- the two chains, connected block ---------------- *)
  Lemma add_chains_B_p st lcs lcp b sh l :
    PCore c U st lcs lcp 0 -> PWin c st lcs lcp (last_id st) -> In b U ->
    get_block st (b_hash b) = None ->
    new_chain_from (S (length (blocks (inserted c st b)))) (inserted c st b) (b_hash b) [] = (true, sh, l) ->
    exists newtl above s below,
      lcs = above ++ s :: below /\ l = hashes (b :: newtl)
      /\ add_chains c b (tip_hash lcs) (inserted c st b) = Ok (inserted c st b, hashes (b :: newtl), hashes above)
      /\ linked_dn U (b :: newtl) ((s :: below) ++ lcp)
      /\ (forall y, In y newtl -> sget (blocks st) (b_hash y) = Some y /\ ~ In y lcs)
      /\ (forall tb1 z tb2, rev (b :: newtl) = tb1 ++ z :: tb2 -> forall y, In y tb2 -> b_id z < b_id y)
      /\ get_block st (b_prev b) <> None.
  Proof.
    intros W Wn Hb Hn Encf.
    set (st2 := inserted c st b) in *.
    assert (Hg2 : forall h, get_block st2 h = if h =? b_hash b then Some (mkSB b false) else get_block st h).
    { intros h. unfold get_block, st2, inserted; cbn [blocks]. apply aget_aset. }
    assert (Hso2 : store_ok U (blocks st2)).
    { split; [unfold st2, inserted; cbn [blocks]; apply aset_sorted, (p_store _ _ _ _ _ _ W)|].
      intros h y. unfold st2. rewrite sget_inserted. destruct (N.eqb_spec h (b_hash b)) as [->|_].
      - intros [= <-]. auto.
      - apply (proj2 (p_store _ _ _ _ _ _ W)). }
    destruct (ncf_inv U st2 Hso2 _ _ _ _ _ Encf) as (path & s & El & Hst & Hul & Gs & Eh).
    cbn [rev app] in El.
    (* the path starts with b *)
    destruct path as [|z newtl].
    { exfalso. rewrite <- Eh, Hg2, N.eqb_refl in Gs. discriminate. }
    assert (z = b).
    { pose proof (Hst z (or_introl eq_refl)) as Gz. rewrite <- Eh, Hg2, N.eqb_refl in Gz. now injection Gz as <-. }
    subst z.
    (* the shared ancestor is a stored chain block *)
    assert (Hsh : sh <> b_hash b).
    { intros ->. rewrite Hg2, N.eqb_refl in Gs. discriminate. }
    rewrite Hg2 in Gs. destruct (N.eqb_spec sh (b_hash b)) as [?|_]; [contradiction|].
    assert (Hs : In s lcs /\ b_hash s = sh).
    { destruct (p_flags _ _ _ _ _ _ W sh _ Gs eq_refl) as [Hi|E0].
      - apply in_hashes in Hi as (s' & Hs' & Es'). pose proof (p_lc _ _ _ _ _ _ W s' Hs') as G'.
        rewrite Es', Gs in G'. injection G' as ->. auto.
      - exfalso. exact (stored_nz_p c U HU _ _ _ _ _ _ W Gs E0). }
    destruct Hs as [Hs Es]. destruct (in_split _ _ Hs) as (above & below & Elcs).
    pose proof (p_chain _ _ _ _ _ _ W) as Hc. rewrite Elcs, <- app_assoc in Hc. cbn [app] in Hc.
    assert (HpU : forall a, In a ((b :: newtl) ++ s :: below ++ lcp) -> In a U).
    { intros a Ha. apply in_app_iff in Ha as [Ha|Ha].
      - destruct (proj2 Hso2 _ _ (get_sget _ _ _ (Hst a Ha))) as [_ HaU]. exact HaU.
      - apply (chain_ok_in _ _ (chain_ok_app_r _ _ _ Hc)). exact Ha. }
    assert (Hpl : plinked ((b :: newtl) ++ s :: below ++ lcp)).
    { apply up_links_plinked; [now rewrite Es|].
      apply (chain_ok_plinked U), (chain_ok_app_r U above). exact Hc. }
    assert (Hlt : forall y, In y newtl -> b_id y < b_id b).
    { intros y Hy. apply (plinked_lt_p c U [] b (newtl ++ s :: below ++ lcp) HU); auto.
      apply in_app_iff. now left. }
    assert (Hne : forall y, In y newtl -> b_hash y <> b_hash b).
    { intros y Hy E. assert (y = b); [|subst; specialize (Hlt _ Hy); lia].
      eapply hash_inj_p; eauto. apply HpU. right. apply in_app_iff. now left. }
    assert (Hnew : forall y, In y newtl -> sget (blocks st) (b_hash y) = Some y /\ ~ In y lcs).
    { intros y Hy. pose proof (Hst y (or_intror Hy)) as Gy. rewrite Hg2 in Gy.
      destruct (N.eqb_spec (b_hash y) (b_hash b)) as [E|_]; [exfalso; exact (Hne y Hy E)|].
      split; [apply (get_sget _ _ _ Gy)|]. intros Hi. pose proof (p_lc _ _ _ _ _ _ W y Hi). congruence. }
    (* b's parent is stored *)
    assert (Hpar : get_block st (b_prev b) <> None).
    { cbn [up_links] in Hul. destruct Hul as [Hp _]. destruct newtl as [|p newtl'].
      - rewrite Hp, Gs. discriminate.
      - rewrite Hp. destruct (Hnew p (or_introl eq_refl)) as [Sp _].
        apply sget_get in Sp as (f & ->). discriminate. }
    exists newtl, above, s, below. split; [exact Elcs|]. split; [exact El|]. split.
    - unfold add_chains. cbv zeta. fold st2. rewrite Encf. cbn [bind]. rewrite El.
      replace (tip_hash lcs) with (match above with a :: _ => b_hash a | [] => b_hash s end)
        by (rewrite Elcs; now destruct above).
      rewrite <- Es.
      rewrite (ocf_spec_p st2 s above (below ++ lcp) []); [reflexivity| | | |].
      + intros y Hy. assert (Hyl : In y lcs).
        { rewrite Elcs. apply in_app_iff in Hy as [Hy|[<-|[]]]; apply in_app_iff; [now left|right; now left]. }
        split.
        * rewrite Hg2. destruct (N.eqb_spec (b_hash y) (b_hash b)) as [E|_]; [|now apply (p_lc _ _ _ _ _ _ W)].
          pose proof (p_lc _ _ _ _ _ _ W y Hyl). congruence.
        * apply (pu_nz _ _ HU). eapply pc_in; [exact W|]. apply in_app_iff. now left.
      + apply (chain_ok_plinked U). exact Hc.
      + pose proof (chain_hashes_nodup_p c U _ HU Hc) as Hnd'.
        unfold hashes in Hnd'. rewrite map_app in Hnd'. cbn [map] in Hnd'.
        apply NoDup_remove_2 in Hnd'. intros Hi. apply Hnd'. apply in_app_iff. now left.
      + assert (Hlen : (length lcs <= length (blocks st))%nat).
        { apply stored_length.
          - apply (NoDup_app_l _ (hashes lcp)). unfold hashes. rewrite <- map_app.
            apply (chain_hashes_nodup_p c U _ HU (p_chain _ _ _ _ _ _ W)).
          - intros y Hy. rewrite (p_lc _ _ _ _ _ _ W y Hy). discriminate. }
        assert (length (blocks st2) = S (length (blocks st))).
        { unfold st2, inserted; cbn [blocks]. apply length_aset_new. exact Hn. }
        rewrite Elcs, app_length in Hlen. cbn [length] in Hlen. lia.
    - split.
      { change ((s :: below) ++ lcp) with (s :: below ++ lcp). apply up_links_dn. now rewrite Es. }
      split; [exact Hnew|]. split; [|exact Hpar].
      intros tb1 z tb2 E y Hy.
      assert (El' : b :: newtl = rev tb2 ++ z :: rev tb1).
      { rewrite <- (rev_involutive (b :: newtl)), E, rev_app_distr. cbn [rev]. now rewrite <- app_assoc. }
      apply in_rev in Hy. destruct (in_split _ _ Hy) as (a1 & a2 & Ea).
      assert (Eq : (b :: newtl) ++ s :: below ++ lcp = a1 ++ y :: (a2 ++ z :: rev tb1 ++ s :: below ++ lcp)).
      { rewrite El', Ea. rewrite <- ?app_assoc. cbn [app]. rewrite <- ?app_assoc. reflexivity. }
      apply (plinked_lt_p c U a1 y (a2 ++ z :: rev tb1 ++ s :: below ++ lcp) HU); [rewrite <- Eq; exact HpU|rewrite <- Eq; exact Hpl|].
      apply in_app_iff. right. now left.
  Qed.

  Lemma late_b_single st2 b : get_block st2 (b_hash b) = Some (mkSB b false) ->
    late_b c st2 [b_hash b] = false.
  Proof.
    intros G. unfold late_b. cbn [forallb rev app wound_prefix]. rewrite G. cbn [s_b].
    destruct (b_valid b); cbn; reflexivity.
  Qed.

  Lemma lcs_nil_of_empty ps lcs lcp x : PInvS c U ps lcs lcp x -> blocks (core ps) = [] -> lcs = [].
  Proof.
    intros [[W _] _] E. destruct lcs as [|t l]; [reflexivity|].
    pose proof (p_lc _ _ _ _ _ _ W t (or_introl eq_refl)) as G. unfold get_block in G. rewrite E in G. discriminate.
  Qed.

  Theorem add_block_p_spec ps lcs lcp b :
    PInvW c U ps lcs lcp -> step_ok c U ps b ->
    exists ps' r, add_block_p c ps b = Ok (ps', r) /\
      ((get_block (core ps) (b_hash b) <> None /\ r = Exists /\ ps' = ps)
       \/ (get_block (core ps) (b_hash b) = None /\ (r = Retry \/ r = Invalid) /\ ps' = ps
           /\ blocks (core ps) = [] /\ ring_empty (core ps) = false /\ b_prev b <> 0 /\ snd c = true)
       \/ (get_block (core ps) (b_hash b) = None
           /\ exists newtl oldb common, pmain c U ps lcs lcp b ps' r newtl oldb common)).
  Proof.
    intros (HI & Hre & Hla1 & Hla2 & Hnil) (Hb & Hconn & Hnl).
    pose proof HI as [[W Wn] Hg].
    set (st := core ps) in *.
    unfold add_block_p. fold st.
    rewrite (latest_hash_spec_p c U HU _ _ _ _ _ W Wn). cbn [bind].
    destruct (get_block st (b_hash b)) as [sb|] eqn:G.
    { exists ps, Exists. split; [reflexivity|]. left. repeat split; discriminate. }
    rewrite (latest_id_spec_p c U HU _ _ _ _ _ W Wn). cbn [bind]. cbv zeta.
    assert (Hpb : b_prev b <> b_hash b).
    { intros E. pose proof (pu_link _ _ HU b b Hb Hb E). lia. }
    assert (Hx : ~ In (b_hash b) (hashes lcs)).
    { intros Hi. apply in_hashes in Hi as (y & Hy & E). pose proof (p_lc _ _ _ _ _ _ W y Hy). congruence. }
    rewrite (ins_block_eq_p c U HU st lcs lcp b W G).
    unfold no_late in Hnl. unfold conn in Hconn. fold st in Hnl, Hconn.
    rewrite (ins_block_eq_p c U HU st lcs lcp b W G) in Hnl, Hconn.
    assert (G2 : get_block (inserted c st b) (b_hash b) = Some (mkSB b false)).
    { unfold get_block, inserted; cbn [blocks]. now rewrite aget_aset, N.eqb_refl. }
    assert (Hgt : gt_count_valid (inserted c st b) (b_prev b) (b_gt b) = gt_count_valid st (b_prev b) (b_gt b)).
    { apply (gt_count_valid_ins_p c U HU); [exact Hb|apply (p_store _ _ _ _ _ _ W)]. }
    assert (Hsub : forall h y, sget (blocks (inserted c st b)) h = Some y ->
                     h = b_hash b /\ y = b \/ sget (blocks st) h = Some y).
    { intros h y. rewrite sget_inserted. destruct (N.eqb_spec h (b_hash b)) as [->|_]; [|now right].
      intros [= <-]. now left. }
    destruct Hconn as [[Hbl Hroot]|(sh & l & Encf)].
    - (* empty store *)
      pose proof (lcs_nil_of_empty _ _ _ _ HI Hbl) as ->. pose proof (Hnil eq_refl) as ->.
      cbn [tip_id tip_hash] in *.
      destruct (negb (ring_empty st) && match get_block st (b_prev b) with Some _ => false | None => true end
                && negb (b_prev b =? 0) && snd c) eqn:Econd.
      + apply andb_true_iff in Econd as [Econd Hc]. apply andb_true_iff in Econd as [Econd Hz].
        apply andb_true_iff in Econd as [He _].
        apply negb_true_iff in He. apply negb_true_iff, N.eqb_neq in Hz.
        destruct (N.max 1 (0 - gp_of c) <? b_id b) eqn:Em.
        * exists ps, Retry. split; [reflexivity|]. right; left. repeat split; auto.
        * exists ps, Invalid. split; [reflexivity|]. right; left. repeat split; auto.
      + rewrite (add_chains_A_p st b W Wn Hb Hbl Hroot Hla1). cbn [bind].
        set (ps2 := mkP (inserted c st b) (gid ps)).
        assert (HI2 : PInvS c U ps2 ([] ++ []) [] (b_hash b)).
        { split; [split|].
          - apply (inserted_core c U HU st [] [] b W Hb G). intros [].
          - cbn [ps2 core inserted last_id app]. split; [|intros y []|intros y []].
            intros h sb Gs. rewrite Hla1.
            assert (Hs : In (s_b sb) U).
            { unfold get_block, inserted in Gs; cbn [blocks] in Gs. rewrite Hbl in Gs. cbn [aset aget] in Gs.
              destruct (h =? b_hash b); [injection Gs as <-; exact Hb|discriminate]. }
            pose proof (pu_id _ _ HU _ Hs). lia.
          - exact Hg. }
        destruct (add_finish_p_ok ps2 b [] [] [] [] HI2 Hb G2) as (ps' & r & Ef & Rf & Er & Hon & Hoff).
        { intros []. }
        { intros y [<-|[]]. cbn [ps2 core]. now rewrite sget_inserted, N.eqb_refl. }
        { cbn [linked_dn link_to app]. auto. }
        { right. repeat split; auto. intros h sb Gs.
          unfold get_block, ps2, core, inserted in Gs; cbn [blocks] in Gs. rewrite Hbl in Gs. cbn [aset aget] in Gs.
          destruct (N.eqb_spec h (b_hash b)); [assumption|discriminate]. }
        { exact Hla1. }
        { exact Hla2. }
        { reflexivity. }
        { intros tb1 z tb2 E y Hy. cbn [rev app] in E. destruct tb1 as [|? tb1]; [|destruct tb1; discriminate].
          injection E as <- <-. contradiction. }
        { apply late_b_single. exact G2. }
        change (hashes [b]) with [b_hash b] in Ef. change (hashes []) with (@nil N) in Ef.
        exists ps', r. split; [exact Ef|]. right; right. split; [reflexivity|].
        exists [], [], []. cbn [app] in *. cbn [ps2 core inserted ring_empty] in Er, Hon, Hoff.
        change (gt_count_valid (inserted c st b) (b_prev b) (b_gt b)) with
          (gt_count_valid (core ps2) (b_prev b) (b_gt b)) in Hgt.
        split.
        * reflexivity.
        * cbn [linked_dn link_to app]. auto.
        * intros y [].
        * auto.
        * intros H; contradiction.
        * unfold fork_choice, cand_valid. fold st. rewrite <- Hgt. exact Er.
        * unfold fork_choice, cand_valid. fold st. rewrite <- Hgt. intros Hfv.
          destruct (Hon Hfv) as (lcs' & lcp' & HI' & Eapp & (r0 & Er0) & Hl1 & Hl2 & T1 & T2).
          exists lcs', lcp'. split.
          { split; [exact HI'|]. split; [intros Hr'; congruence|].
            rewrite Er0. cbn [tip_id tip_hash]. split; [exact Hl1|]. split; [exact Hl2|discriminate]. }
          split; [exact Eapp|]. split; [eauto|].
          split.
          { apply T2; [cbn [ps2 core]; now rewrite sget_inserted, N.eqb_refl|]. pose proof (pu_gp _ _ HU). lia. }
          split.
          { intros h y Hs. apply T1 in Hs. cbn [ps2 core] in Hs. destruct (Hsub h y Hs) as [[? _]|?]; auto. }
          intros h y Hs Hlt. apply T2; [|exact Hlt]. cbn [ps2 core]. rewrite sget_inserted.
          destruct (N.eqb_spec h (b_hash b)) as [->|_]; [|exact Hs].
          apply sget_get in Hs as (f & Hs). congruence.
        * unfold fork_choice, cand_valid. fold st. rewrite <- Hgt. intros Hfv.
          destruct (Hoff Hfv) as (HI' & Hs' & Hl1 & Hl2 & Hg').
          cbn [ps2 core gid inserted last_id last_hash] in Hl1, Hl2, Hg'.
          split.
          { split; [exact HI'|]. split; [intros Hr'; congruence|].
            split; [rewrite Hl1; exact Hla1|]. split; [rewrite Hl2; exact Hla2|reflexivity]. }
          split; [|exact Hg'].
          intros h. rewrite Hs'. cbn [ps2 core]. rewrite sget_inserted.
          destruct (h =? b_hash b); cbn [andb]; [|reflexivity].
          match goal with |- (if ?a then _ else _) = _ => destruct a end; reflexivity.
    - (* connected to the stored chain *)
      destruct (add_chains_B_p st lcs lcp b sh l W Wn Hb G Encf) as
        (newtl & above & s & below & Elcs & El & Ec & Hl & Hnew & Hinc & Hpar).
      destruct (get_block st (b_prev b)) as [sbp|] eqn:Gp; [|contradiction].
      rewrite andb_false_r. cbn [andb].
      rewrite Ec. cbn [bind].
      assert (Hbl : blocks st <> []).
      { intros Hbl. unfold get_block in Gp. rewrite Hbl in Gp. discriminate. }
      set (ps2 := mkP (inserted c st b) (gid ps)).
      (* b is not a purged chain block, and lies inside the window *)
      destruct (pc_stored_in c U _ _ _ _ _ _ W Gp) as [Ep HpU].
      pose proof (pu_link _ _ HU b _ Hb HpU (eq_sym Ep)) as Hidp.
      pose proof (p_win _ _ _ _ _ Wn _ _ Gp) as Hwp.
      assert (Hnp : ~ In b lcp).
      { intros Hi. pose proof (p_low _ _ _ _ _ Wn b Hi). lia. }
      assert (HI2 : PInvS c U ps2 (above ++ s :: below) lcp (b_hash b)).
      { rewrite <- Elcs. split; [split|].
        - apply (inserted_core c U HU st lcs lcp b W Hb G Hnp).
        - cbn [ps2 core inserted last_id]. destruct Wn as [N1 N2 N3]. split; auto.
          intros h sb. unfold get_block, inserted; cbn [blocks]. rewrite aget_aset.
          destruct (h =? b_hash b); [intros [= <-]; cbn [s_b]; lia|apply N1].
        - exact Hg. }
      destruct (add_finish_p_ok ps2 b newtl above (s :: below) lcp HI2 Hb G2) as (ps' & r & Ef & Rf & Er & Hon & Hoff).
      { now rewrite <- Elcs. }
      { intros y [<-|Hy]; cbn [ps2 core]; rewrite sget_inserted; [now rewrite N.eqb_refl|].
        destruct (Hnew y Hy) as [Hs _].
        destruct (N.eqb_spec (b_hash y) (b_hash b)) as [Ey|_]; [|exact Hs].
        rewrite Ey in Hs. apply sget_get in Hs as (f & Hs). congruence. }
      { exact Hl. }
      { left. discriminate. }
      { rewrite <- Elcs. exact Hla1. }
      { rewrite <- Elcs. exact Hla2. }
      { intros Hr0. exfalso. apply Hbl. apply Hre. exact Hr0. }
      { exact Hinc. }
      { rewrite <- El. apply (Hnl sh l Encf). }
      exists ps', r. split; [exact Ef|]. right; right. split; [reflexivity|].
      exists newtl, above, (s :: below). rewrite <- Elcs in *.
      cbn [ps2 core inserted ring_empty] in Er, Hon, Hoff.
      change (gt_count_valid (inserted c st b) (b_prev b) (b_gt b)) with
        (gt_count_valid (core ps2) (b_prev b) (b_gt b)) in Hgt.
      split.
      * exact Elcs.
      * exact Hl.
      * exact Hnew.
      * discriminate.
      * intros _. fold st. rewrite Gp. discriminate.
      * unfold fork_choice, cand_valid. fold st. rewrite <- Hgt. exact Er.
      * unfold fork_choice, cand_valid. fold st. rewrite <- Hgt. intros Hfv.
        destruct (Hon Hfv) as (lcs' & lcp' & HI' & Eapp & (r0 & Er0) & Hl1 & Hl2 & T1 & T2).
        exists lcs', lcp'. split.
        { split; [exact HI'|]. split; [intros Hr'; congruence|].
          rewrite Er0. cbn [tip_id tip_hash]. split; [exact Hl1|]. split; [exact Hl2|discriminate]. }
        split; [exact Eapp|]. split; [eauto|].
        split.
        { apply T2; [cbn [ps2 core]; now rewrite sget_inserted, N.eqb_refl|]. pose proof (pu_gp _ _ HU). lia. }
        split.
        { intros h y Hs. apply T1 in Hs. cbn [ps2 core] in Hs. destruct (Hsub h y Hs) as [[? _]|?]; auto. }
        intros h y Hs Hlt. apply T2; [|exact Hlt]. cbn [ps2 core]. rewrite sget_inserted.
        destruct (N.eqb_spec h (b_hash b)) as [->|_]; [|exact Hs].
        apply sget_get in Hs as (f & Hs). congruence.
      * unfold fork_choice, cand_valid. fold st. rewrite <- Hgt. intros Hfv.
        destruct (Hoff Hfv) as (HI' & Hs' & Hl1 & Hl2 & Hg').
        cbn [ps2 core gid inserted last_id last_hash] in Hl1, Hl2, Hg'.
        split.
        { split; [exact HI'|]. split; [intros Hr'; congruence|].
          split; [rewrite Hl1; exact Hla1|]. split; [rewrite Hl2; exact Hla2|exact Hnil]. }
        split; [|exact Hg'].
        intros h. rewrite Hs'. cbn [ps2 core]. rewrite sget_inserted.
        destruct (h =? b_hash b); cbn [andb]; [|reflexivity].
        match goal with |- (if ?a then _ else _) = _ => destruct a end; reflexivity.
  Qed.
End PMain.

(* ================================================================== *)
(* theorems                                                            *)
(* ================================================================== *)
Section PTheorems.
  Variables (c : cfg) (U : list blk).
  Hypothesis HU : puniv c U.
  Hypothesis HWF : valid_wf U.

  Theorem pinv_init : PInvW c U (pinit c) [] [].
  Proof.
    destruct (inv_init c U) as (W & _).
    split; [|repeat split]. split; [split|].
    - split.
      + apply (w_store _ _ _ _ _ W).
      + exact I.
      + intros b [].
      + intros b [].
      + intros h sb H. discriminate.
      + constructor.
      + intros k [].
      + intros k [].
      + apply (w_ring _ _ _ _ _ W).
    - split; [intros h sb H; discriminate|intros y []|intros y []].
    - unfold gfun. cbn [pinit core gid init last_id].
      destruct (N.leb_spec (2 * gp_of c + 1) 0); [lia|reflexivity].
  Qed.

  (* (1) totality: no panic site is reachable, in particular not the unwrap of delete_block *)
  Theorem add_block_p_total ps b :
    PInvQ c U ps -> step_ok c U ps b -> exists ps' r, add_block_p c ps b = Ok (ps', r).
  Proof.
    intros (lcs & lcp & HI) Hs.
    destruct (add_block_p_spec c U HU HWF ps lcs lcp b HI Hs) as (ps' & r & E & _). eauto.
  Qed.

  (* (3) the invariant is preserved *)
  Theorem pinv_step ps b ps' r :
    PInvQ c U ps -> step_ok c U ps b -> add_block_p c ps b = Ok (ps', r) -> PInvQ c U ps'.
  Proof.
    intros (lcs & lcp & HI) Hs E.
    destruct (add_block_p_spec c U HU HWF ps lcs lcp b HI Hs) as (ps1 & r1 & E1 & [C|[C|C]]);
      rewrite E in E1; injection E1 as <- <-.
    - destruct C as (_ & _ & ->). now exists lcs, lcp.
    - destruct C as (_ & _ & -> & _). now exists lcs, lcp.
    - destruct C as (_ & newtl & oldb & common & M).
      destruct (fork_choice c (core ps) lcs b newtl oldb && cand_valid (core ps) b newtl) eqn:Efv.
      + destruct (q_on _ _ _ _ _ _ _ _ _ _ _ M Efv) as (lcs' & lcp' & HI' & _). now exists lcs', lcp'.
      + destruct (q_off _ _ _ _ _ _ _ _ _ _ _ M Efv) as (HI' & _). now exists lcs, lcp.
  Qed.

  Fixpoint steps_ok (ps : pstate) (bs : list blk) : Prop :=
    match bs with
    | [] => True
    | b :: t => step_ok c U ps b
                /\ match add_block_p c ps b with Ok (ps', _) => steps_ok ps' t | _ => True end
    end.

  Theorem deliver_p_inv bs : forall ps, PInvQ c U ps -> steps_ok ps bs ->
    exists ps', deliver_p c ps bs = Ok ps' /\ PInvQ c U ps'.
  Proof.
    induction bs as [|b t IH]; intros ps HI Hof; cbn [deliver_p].
    - eauto.
    - destruct Hof as (Hs & Hof).
      destruct (add_block_p_total ps b HI Hs) as (ps1 & r1 & E1). rewrite E1 in *. cbn [bind fst].
      apply IH; [|exact Hof]. eapply pinv_step; eauto.
  Qed.

  (* (4) + (5): what the invariant says.  lcs = stored part of the chain (tip first), lcp = purged part *)
  Theorem pinv_meaning ps lcs lcp : PInvW c U ps lcs lcp ->
    let st := core ps in
    chain_ok U (lcs ++ lcp)
    /\ (forall b, In b lcs -> get_block st (b_hash b) = Some (mkSB b true))
    /\ (forall b, In b lcp -> get_block st (b_hash b) = None)
    /\ (forall h sb, get_block st h = Some sb -> s_lc sb = true -> In h (hashes lcs))
    (* ledger: PARTIAL — see ledger_exact_refuted for the missing inclusion *)
    /\ (forall k, In k (utxo st) -> In k (replay (lcs ++ lcp)))
    /\ (forall k, In k (replay (lcs ++ lcp)) -> lc_outs lcs k -> In k (utxo st))
    (* index, tip, last block, genesis block id *)
    /\ (forall id h, lc_hash_at c (ring st) id = Some h <-> chain_index lcs id h)
    /\ latest_id st = Ok (tip_id lcs) /\ latest_hash st = Ok (tip_hash lcs)
    /\ last_id st = tip_id lcs /\ last_hash st = tip_hash lcs
    /\ gid ps = (if 2 * gp_of c + 1 <=? tip_id lcs then tip_id lcs - gp_of c else 0)
    (* window: exactly the chain blocks with id > tip - 2gp are stored; nothing stored at or below *)
    /\ (forall h sb, get_block st h = Some sb -> tip_id lcs < b_id (s_b sb) + 2 * gp_of c)
    /\ (forall y, In y lcp -> b_id y + 2 * gp_of c <= tip_id lcs)
    (* ring entries *)
    /\ (forall h sb, get_block st h = Some sb ->
          In (h, b_id (s_b sb)) (ri_ent (item_at (ring st) (slot c (b_id (s_b sb))))))
    /\ (forall p e, (p < nslots c)%nat -> In e (ri_ent (item_at (ring st) p)) ->
          exists sb, get_block st (fst e) = Some sb /\ b_id (s_b sb) = snd e /\ slot c (snd e) = p)
    /\ (forall p, (p < nslots c)%nat -> NoDup (map fst (ri_ent (item_at (ring st) p)))).
  Proof.
    intros ([[W Wn] Hg] & _ & Hl1 & Hl2 & _) st. fold st in W, Wn, Hg, Hl1, Hl2.
    pose proof (p_ring _ _ _ _ _ _ W) as Hr.
    split; [apply (p_chain _ _ _ _ _ _ W)|]. split; [apply (p_lc _ _ _ _ _ _ W)|].
    split; [apply (p_gone _ _ _ _ _ _ W)|].
    split.
    { intros h sb G F. destruct (p_flags _ _ _ _ _ _ W h sb G F) as [Hi|E]; [exact Hi|].
      exfalso. exact (stored_nz_p c U HU _ _ _ _ _ _ W G E). }
    split; [apply (p_ua _ _ _ _ _ _ W)|]. split; [apply (p_ub _ _ _ _ _ _ W)|].
    split.
    { intros id h.
      rewrite (lc_hash_at_spec_p c U HU (blocks st) (ring st) (ring_lc st) lcs id
                 (p_store _ _ _ _ _ _ W) Hr (pc_sget c U _ _ _ _ W) (pc_inj c U HU _ _ _ _ W)
                 (pi_window c U _ _ _ _ _ W Wn)).
      apply find_id_spec.
      assert (Hnd : NoDup (map b_id (lcs ++ lcp))).
      { pose proof (p_chain _ _ _ _ _ _ W) as Hc. clear -HU Hc. induction (lcs ++ lcp) as [|t l IH]; cbn [map]; constructor.
        - intros Hi. apply in_map_iff in Hi as (a & E & Ha).
          pose proof (chain_id_lt_p c U t l HU Hc a Ha). lia.
        - apply IH. eapply chain_ok_tail; eauto. }
      rewrite map_app in Hnd. eapply NoDup_app_l; eauto. }
    split; [apply (latest_id_spec_p c U HU _ _ _ _ _ W Wn)|].
    split; [apply (latest_hash_spec_p c U HU _ _ _ _ _ W Wn)|].
    split; [exact Hl1|]. split; [exact Hl2|].
    split; [rewrite Hg, Hl1; reflexivity|].
    split; [rewrite <- Hl1; apply (p_win _ _ _ _ _ Wn)|].
    split; [rewrite <- Hl1; apply (p_low _ _ _ _ _ Wn)|].
    split.
    { intros h sb G. apply (r_complete _ _ _ _ _ Hr). apply (get_sget _ _ _ G). }
    split.
    { intros p e Hp He. destruct (r_sound _ _ _ _ _ Hr p e Hp He) as (y & Hy & Ey).
      destruct (sget_get _ _ _ Hy) as (f & G). exists (mkSB y f). auto. }
    apply (r_nodup _ _ _ _ _ Hr).
  Qed.

  (* (2) C04 for all ids: a rejected block leaves no trace *)
  Definition obs_eq_p (ps ps' : pstate) : Prop :=
    let st := core ps in let st' := core ps' in
    blocks st' = blocks st /\ utxo st' = utxo st
    /\ (forall id, lc_hash_at c (ring st') id = lc_hash_at c (ring st) id)
    /\ latest_id st' = latest_id st /\ latest_hash st' = latest_hash st
    /\ last_id st' = last_id st /\ last_hash st' = last_hash st /\ gid ps' = gid ps.

  Lemma lc_flag_iff_p st lcs lcp h sb : PCore c U st lcs lcp 0 -> get_block st h = Some sb ->
    (s_lc sb = true <-> In (s_b sb) lcs).
  Proof.
    intros W G. split.
    - intros F. destruct (p_flags _ _ _ _ _ _ W h sb G F) as [Hi|E].
      + apply in_hashes in Hi as (y & Hy & E). pose proof (p_lc _ _ _ _ _ _ W y Hy) as Gy.
        rewrite E, G in Gy. injection Gy as ->. exact Hy.
      + exfalso. exact (stored_nz_p c U HU _ _ _ _ _ _ W G E).
    - intros Hi. pose proof (p_lc _ _ _ _ _ _ W _ Hi) as Gy.
      destruct (pc_stored_in c U _ _ _ _ _ _ W G) as [E _]. rewrite E, G in Gy. now injection Gy as ->.
  Qed.

  Lemma obs_same_chain_p ps ps' lcs lcp :
    PInvW c U ps lcs lcp -> PInvW c U ps' lcs lcp ->
    same_store (blocks (core ps)) (blocks (core ps')) -> gid ps' = gid ps ->
    let st := core ps in let st' := core ps' in
    blocks st' = blocks st
    /\ (forall id, lc_hash_at c (ring st') id = lc_hash_at c (ring st) id)
    /\ latest_id st' = latest_id st /\ latest_hash st' = latest_hash st
    /\ last_id st' = last_id st /\ last_hash st' = last_hash st /\ gid ps' = gid ps.
  Proof.
    intros ([[W Wn] _] & _ & La1 & La2 & _) ([[W' Wn'] _] & _ & Lb1 & Lb2 & _) Hss Hgid st st'.
    fold st in W, Wn, La1, La2, Hss. fold st' in W', Wn', Lb1, Lb2, Hss. split.
    { apply asorted_ext; [apply (p_store _ _ _ _ _ _ W')|apply (p_store _ _ _ _ _ _ W)|].
      intros k. pose proof (Hss k) as Ek. unfold sget in Ek.
      destruct (aget k (blocks st)) as [sb|] eqn:G, (aget k (blocks st')) as [sb'|] eqn:G';
        cbn [option_map] in Ek; try discriminate; [|reflexivity].
      injection Ek as Ek. f_equal.
      pose proof (lc_flag_iff_p st lcs lcp k sb W G) as F.
      pose proof (lc_flag_iff_p st' lcs lcp k sb' W' G') as F'.
      destruct sb as [y f], sb' as [y' f']. cbn [s_b s_lc] in *. subst y'. f_equal.
      destruct f, f'; auto.
      - apply F'. apply F. reflexivity.
      - symmetry. apply F. apply F'. reflexivity. }
    split.
    { intros id.
      rewrite (lc_hash_at_spec_p c U HU _ _ _ lcs id (p_store _ _ _ _ _ _ W') (p_ring _ _ _ _ _ _ W')
                 (pc_sget c U _ _ _ _ W') (pc_inj c U HU _ _ _ _ W') (pi_window c U _ _ _ _ _ W' Wn')).
      now rewrite (lc_hash_at_spec_p c U HU _ _ _ lcs id (p_store _ _ _ _ _ _ W) (p_ring _ _ _ _ _ _ W)
                 (pc_sget c U _ _ _ _ W) (pc_inj c U HU _ _ _ _ W) (pi_window c U _ _ _ _ _ W Wn)). }
    split; [now rewrite (latest_id_spec_p c U HU _ _ _ _ _ W Wn), (latest_id_spec_p c U HU _ _ _ _ _ W' Wn')|].
    split; [now rewrite (latest_hash_spec_p c U HU _ _ _ _ _ W Wn), (latest_hash_spec_p c U HU _ _ _ _ _ W' Wn')|].
    split; [congruence|]. split; [congruence|exact Hgid].
  Qed.

  (* PARTIAL: everything except the exact equality of the spendable set, for which the
     invariant (pinv_meaning: between the created-by-stored-blocks part of the replay and
     the replay) is all that is proved to be kept *)
  Theorem rejected_no_trace_p_partial ps lcs lcp b ps' r :
    PInvW c U ps lcs lcp -> step_ok c U ps b -> add_block_p c ps b = Ok (ps', r) ->
    r = Invalid \/ r = Exists \/ r = Retry ->
    PInvW c U ps' lcs lcp
    /\ blocks (core ps') = blocks (core ps)
    /\ (forall id, lc_hash_at c (ring (core ps')) id = lc_hash_at c (ring (core ps)) id)
    /\ latest_id (core ps') = latest_id (core ps) /\ latest_hash (core ps') = latest_hash (core ps)
    /\ last_id (core ps') = last_id (core ps) /\ last_hash (core ps') = last_hash (core ps)
    /\ gid ps' = gid ps.
  Proof.
    intros HI Hs E Hr.
    destruct (add_block_p_spec c U HU HWF ps lcs lcp b HI Hs) as (ps1 & r1 & E1 & [C|[C|C]]);
      rewrite E in E1; injection E1 as <- <-.
    - destruct C as (_ & _ & ->). split; [exact HI|]. repeat split.
    - destruct C as (_ & _ & -> & _). split; [exact HI|]. repeat split.
    - destruct C as (G & newtl & oldb & common & M).
      pose proof (q_res _ _ _ _ _ _ _ _ _ _ _ M) as Er.
      destruct (fork_choice c (core ps) lcs b newtl oldb) eqn:Efc;
        [|subst r; destruct Hr as [?|[?|?]]; discriminate].
      destruct (cand_valid (core ps) b newtl) eqn:Ecv; [subst r; destruct Hr as [?|[?|?]]; discriminate|].
      assert (Efv : fork_choice c (core ps) lcs b newtl oldb && cand_valid (core ps) b newtl = false)
        by (now rewrite Efc, Ecv).
      destruct (q_off _ _ _ _ _ _ _ _ _ _ _ M Efv) as (HI' & Hst & Hgid). rewrite Efc in Hst.
      split; [exact HI'|].
      apply (obs_same_chain_p ps ps' lcs lcp HI HI'); [|exact Hgid].
      intros h. rewrite Hst. destruct (N.eqb_spec h (b_hash b)) as [->|_]; [|reflexivity].
      now apply sget_none.
  Qed.

  (* (6) C05 for all ids *)
  Theorem tip_moves_only_if_p ps lcs lcp b ps' r :
    PInvW c U ps lcs lcp -> step_ok c U ps b -> add_block_p c ps b = Ok (ps', r) ->
    latest_hash (core ps') <> latest_hash (core ps) ->
    r = OnChain
    /\ exists newtl oldb common lcs' lcp',
         lcs = oldb ++ common /\ PInvW c U ps' lcs' lcp'
         /\ lcs' ++ lcp' = (b :: newtl) ++ common ++ lcp /\ (exists r0, lcs' = b :: r0)
         /\ linked_dn U (b :: newtl) (common ++ lcp)
         /\ (length oldb < length (b :: newtl))%nat
         /\ bf_total oldb <= bf_total (b :: newtl)
         /\ forallb b_valid (b :: newtl) = true
         /\ gt_count_valid (core ps) (b_prev b) (b_gt b) = true
         /\ tip_id lcs - gp_of c < b_id b /\ tip_id lcs < b_id b
         /\ latest_hash (core ps') = Ok (b_hash b).
  Proof.
    intros HI Hs E Hne. pose proof HI as ([[W Wn] _] & Hre & _ & _ & _).
    destruct Hs as (Hb & Hs2).
    destruct (add_block_p_spec c U HU HWF ps lcs lcp b HI (conj Hb Hs2)) as (ps1 & r1 & E1 & [C|[C|C]]);
      rewrite E in E1; injection E1 as <- <-.
    - destruct C as (_ & _ & ->). contradiction.
    - destruct C as (_ & _ & -> & _). contradiction.
    - destruct C as (G & newtl & oldb & common & M).
      pose proof (q_res _ _ _ _ _ _ _ _ _ _ _ M) as Er.
      destruct (fork_choice c (core ps) lcs b newtl oldb && cand_valid (core ps) b newtl) eqn:Efv.
      2:{ exfalso. destruct (q_off _ _ _ _ _ _ _ _ _ _ _ M Efv) as (([[W' Wn'] _] & _) & _).
          apply Hne. now rewrite (latest_hash_spec_p c U HU _ _ _ _ _ W Wn), (latest_hash_spec_p c U HU _ _ _ _ _ W' Wn'). }
      apply andb_true_iff in Efv as [Efc Ecv]. rewrite Efc, Ecv in Er. split; [exact Er|].
      destruct (q_on _ _ _ _ _ _ _ _ _ _ _ M) as (lcs' & lcp' & HI' & Eapp & Er0 & _); [now rewrite Efc, Ecv|].
      exists newtl, oldb, common, lcs', lcp'.
      split; [apply (q_split _ _ _ _ _ _ _ _ _ _ _ M)|]. split; [exact HI'|]. split; [exact Eapp|].
      split; [exact Er0|]. split; [apply (q_link _ _ _ _ _ _ _ _ _ _ _ M)|].
      (* the fork-choice criteria *)
      unfold fork_choice, longest_spec in Efc. apply andb_true_iff in Efc as [H1 H2]. apply N.ltb_lt in H1.
      apply andb_true_iff in Ecv as [Eg Ev].
      assert (Hcr : tip_id lcs < b_id b /\ (length oldb < length (b :: newtl))%nat
                    /\ bf_total oldb <= bf_total (b :: newtl)).
      { destruct (ring_empty (core ps)) eqn:Ere.
        - pose proof (lcs_nil_of_empty c U _ _ _ _ (proj1 HI) (Hre eq_refl)) as Hn.
          pose proof (q_split _ _ _ _ _ _ _ _ _ _ _ M) as Es. rewrite Hn in Es. symmetry in Es.
          apply app_eq_nil in Es as [-> _]. rewrite Hn.
          pose proof (pu_id _ _ HU b Hb). cbn [tip_id length bf_total fold_left]. repeat split; lia.
        - cbn [orb] in H2. apply andb_true_iff in H2 as [H2 H4]. apply andb_true_iff in H2 as [H2 H3].
          apply negb_true_iff, N.leb_gt in H2. apply Nat.ltb_lt in H3. apply N.leb_le in H4. auto. }
      destruct Hcr as (C1 & C2 & C3).
      repeat (split; [assumption|]).
      destruct HI' as ([[W' Wn'] _] & _). rewrite (latest_hash_spec_p c U HU _ _ _ _ _ W' Wn').
      destruct Er0 as (r0 & ->). reflexivity.
  Qed.

  Theorem height_monotone_p ps lcs lcp b ps' r :
    PInvW c U ps lcs lcp -> step_ok c U ps b -> add_block_p c ps b = Ok (ps', r) ->
    exists i i', latest_id (core ps) = Ok i /\ latest_id (core ps') = Ok i' /\ i <= i'.
  Proof.
    intros HI Hs E. pose proof HI as ([[W Wn] _] & Hre & _).
    exists (tip_id lcs). rewrite (latest_id_spec_p c U HU _ _ _ _ _ W Wn).
    destruct (add_block_p_spec c U HU HWF ps lcs lcp b HI Hs) as (ps1 & r1 & E1 & [C|[C|C]]);
      rewrite E in E1; injection E1 as <- <-.
    - destruct C as (_ & _ & ->). exists (tip_id lcs). rewrite (latest_id_spec_p c U HU _ _ _ _ _ W Wn).
      repeat split; lia.
    - destruct C as (_ & _ & -> & _). exists (tip_id lcs). rewrite (latest_id_spec_p c U HU _ _ _ _ _ W Wn).
      repeat split; lia.
    - destruct C as (G & newtl & oldb & common & M).
      destruct (fork_choice c (core ps) lcs b newtl oldb && cand_valid (core ps) b newtl) eqn:Efv.
      + destruct (q_on _ _ _ _ _ _ _ _ _ _ _ M Efv) as (lcs' & lcp' & ([[W' Wn'] _] & _) & _ & (r0 & ->) & _).
        rewrite (latest_id_spec_p c U HU _ _ _ _ _ W' Wn'). exists (b_id b). cbn [tip_id].
        split; [reflexivity|]. split; [reflexivity|].
        apply andb_true_iff in Efv as [Efc _]. unfold fork_choice, longest_spec in Efc.
        apply andb_true_iff in Efc as [_ H2]. destruct (ring_empty (core ps)) eqn:Ere.
        * rewrite (lcs_nil_of_empty c U _ _ _ _ (proj1 HI) (Hre eq_refl)). cbn [tip_id]. lia.
        * cbn [orb] in H2. apply andb_true_iff in H2 as [H2 _]. apply andb_true_iff in H2 as [H2 _].
          apply negb_true_iff, N.leb_gt in H2. lia.
      + destruct (q_off _ _ _ _ _ _ _ _ _ _ _ M Efv) as (([[W' Wn'] _] & _) & _).
        rewrite (latest_id_spec_p c U HU _ _ _ _ _ W' Wn'). exists (tip_id lcs). repeat split; lia.
  Qed.
End PTheorems.
