(* Invariant of model/ChainPurge.v and its preservation by unwind, wind (with the
   purge of update_genesis_period), unwind_all, wind_list_p, validate_p. *)
From Saito Require Import Base Chain ChainPurge ChainBasics ChainInv ChainWind PurgeInv.

(* [lcs]: the stored part of the longest chain, tip first; [lcp]: its purged part
   (ghost), so that lcs ++ lcp is the whole chain down to its root.
   [x]: hash of a block in flight (stored, maybe flagged, not yet wound); 0 = none. *)
Definition lc_outs (l : list blk) (k : N) : Prop := exists b, In b l /\ In k (blk_outs b).

Record PCore (c : cfg) (U : list blk) (st : state) (lcs lcp : list blk) (x : N) : Prop := {
  p_store : store_ok U (blocks st);
  p_chain : chain_ok U (lcs ++ lcp);
  p_lc : forall b, In b lcs -> get_block st (b_hash b) = Some (mkSB b true);
  p_gone : forall b, In b lcp -> get_block st (b_hash b) = None;
  p_flags : forall h sb, get_block st h = Some sb -> s_lc sb = true -> In h (hashes lcs) \/ h = x;
  p_sorted : usorted (utxo st);
  (* the ledger: nothing that the replay of the whole chain does not hold, and
     everything of it that was created by a stored chain block *)
  p_ua : forall k, In k (utxo st) -> In k (replay (lcs ++ lcp));
  p_ub : forall k, In k (replay (lcs ++ lcp)) -> lc_outs lcs k -> In k (utxo st);
  p_ring : ring_ok c (blocks st) (ring st) (ring_lc st) lcs
}.

(* the stored blocks lie in the window (L - 2gp, ..), the chain part in (L - 2gp, L] *)
Record PWin (c : cfg) (st : state) (lcs lcp : list blk) (L : N) : Prop := {
  p_win : forall h sb, get_block st h = Some sb -> L < b_id (s_b sb) + 2 * gp_of c;
  p_tip : forall y, In y lcs -> b_id y <= L;
  p_low : forall y, In y lcp -> b_id y + 2 * gp_of c <= L
}.

Definition PInv (c : cfg) (U : list blk) (st : state) (lcs lcp : list blk) (x : N) : Prop :=
  PCore c U st lcs lcp x /\ PWin c st lcs lcp (last_id st).

Lemma PCore_ext c U st st' lcs lcp x :
  blocks st' = blocks st -> ring st' = ring st -> ring_lc st' = ring_lc st -> utxo st' = utxo st ->
  PCore c U st lcs lcp x -> PCore c U st' lcs lcp x.
Proof.
  intros E1 E2 E3 E4 [H1 H2 H3 H4 H5 H6 H7 H8 H9].
  split; unfold get_block in *; rewrite ?E1, ?E2, ?E3, ?E4; assumption.
Qed.

Lemma PWin_ext c st st' lcs lcp L : blocks st' = blocks st -> PWin c st lcs lcp L -> PWin c st' lcs lcp L.
Proof. intros E [H1 H2 H3]. split; unfold get_block in *; rewrite ?E; assumption. Qed.

Lemma chain_ok_before c U l1 z l2 : puniv c U -> chain_ok U (l1 ++ z :: l2) ->
  forall a, In a l2 -> b_id a < b_id z.
Proof. intros HU Hc. apply (chain_id_lt_p c U z l2 HU). eapply chain_ok_app_r; eauto. Qed.

(* membership in the set left by Block::delete *)
Lemma delete_tx_sorted u tx : usorted u -> usorted (delete_tx u tx).
Proof. intros; unfold delete_tx. now apply fold_udel_sorted, fold_udel_sorted. Qed.

Lemma In_delete_tx k u tx : usorted u ->
  (In k (delete_tx u tx) <-> In k u /\ ~ In k (fst tx) /\ ~ In k (snd tx)).
Proof.
  intros Hs. unfold delete_tx. rewrite In_fold_udel by now apply fold_udel_sorted.
  rewrite In_fold_udel by assumption. tauto.
Qed.

Lemma delete_utxo_sorted u b : usorted u -> usorted (delete_utxo u b).
Proof.
  unfold delete_utxo. generalize (b_txs b) as txs. intros txs; revert u.
  induction txs as [|tx txs IH]; intros u Hs; cbn [fold_left]; [assumption|].
  apply IH, delete_tx_sorted, Hs.
Qed.

Lemma In_delete_utxo k u b : usorted u ->
  (In k (delete_utxo u b) <-> In k u /\ ~ In k (blk_ins b) /\ ~ In k (blk_outs b)).
Proof.
  unfold delete_utxo, blk_ins, blk_outs. generalize (b_txs b) as txs. intros txs; revert u.
  induction txs as [|tx txs IH]; intros u Hs; cbn [fold_left map concat].
  - cbn [In]. tauto.
  - rewrite IH by now apply delete_tx_sorted. rewrite (In_delete_tx _ _ _ Hs), !in_app_iff. tauto.
Qed.

Section PWind.
  Variables (c : cfg) (U : list blk).
  Hypothesis HU : puniv c U.
  Hypothesis HWF : valid_wf U.

  Lemma pc_in st lcs lcp x : PCore c U st lcs lcp x -> forall b, In b (lcs ++ lcp) -> In b U.
  Proof. intros W. apply chain_ok_in, (p_chain _ _ _ _ _ _ W). Qed.

  Lemma pc_sget st lcs lcp x : PCore c U st lcs lcp x ->
    forall b, In b lcs -> sget (blocks st) (b_hash b) = Some b.
  Proof. intros W b Hb. apply (get_sget st _ _ (p_lc _ _ _ _ _ _ W b Hb)). Qed.

  Lemma pc_inj st lcs lcp x : PCore c U st lcs lcp x ->
    forall a b, In a lcs -> In b lcs -> b_id a = b_id b -> a = b.
  Proof.
    intros W a b Ha Hb. apply (chain_ids_inj_p c U _ HU (p_chain _ _ _ _ _ _ W)); apply in_app_iff; now left.
  Qed.

  Lemma pc_stored_in st lcs lcp x h sb : PCore c U st lcs lcp x -> get_block st h = Some sb ->
    b_hash (s_b sb) = h /\ In (s_b sb) U.
  Proof. intros W H. apply (proj2 (p_store _ _ _ _ _ _ W)). now apply get_sget. Qed.

  Lemma pi_window st lcs lcp x L : PCore c U st lcs lcp x -> PWin c st lcs lcp L -> in_window c lcs.
  Proof.
    intros W Wn a b Ha Hb. pose proof (p_tip _ _ _ _ _ Wn a Ha).
    pose proof (p_win _ _ _ _ _ Wn _ _ (p_lc _ _ _ _ _ _ W b Hb)). cbn [s_b] in *. lia.
  Qed.

  Lemma latest_id_spec_p st lcs lcp x L : PCore c U st lcs lcp x -> PWin c st lcs lcp L ->
    latest_id st = Ok (tip_id lcs).
  Proof.
    intros W Wn. unfold latest_id.
    rewrite (latest_entry_spec_p c U HU st lcs (p_store _ _ _ _ _ _ W) (p_ring _ _ _ _ _ _ W)
               (pc_sget _ _ _ _ W) (pc_inj _ _ _ _ W) (pi_window _ _ _ _ _ W Wn)).
    now destruct lcs.
  Qed.

  Lemma latest_hash_spec_p st lcs lcp x L : PCore c U st lcs lcp x -> PWin c st lcs lcp L ->
    latest_hash st = Ok (tip_hash lcs).
  Proof.
    intros W Wn. unfold latest_hash.
    rewrite (latest_entry_spec_p c U HU st lcs (p_store _ _ _ _ _ _ W) (p_ring _ _ _ _ _ _ W)
               (pc_sget _ _ _ _ W) (pc_inj _ _ _ _ W) (pi_window _ _ _ _ _ W Wn)).
    now destruct lcs.
  Qed.

  (* ---------------- unwind one block ---------------- *)
  Lemma unwind_block_eq_p st t p rest lcp x L :
    PCore c U st (t :: p :: rest) lcp x -> PWin c st (t :: p :: rest) lcp L ->
    unwind_block c st t = Ok (unwound c st t p).
  Proof.
    intros W Wn.
    pose proof (p_lc _ _ _ _ _ _ W t (or_introl eq_refl)) as Gt.
    unfold unwind_block, set_lc_flag, get_block, set_utxo. cbn [blocks].
    unfold get_block in Gt. rewrite Gt. cbn [s_b].
    match goal with |- context [ring_reorg c ?s _ _ _] => set (st2 := s) end.
    assert (Hss : same_store (blocks st) (blocks st2)).
    { unfold st2, set_blocks; cbn [blocks]. apply (same_store_flag _ _ _ false Gt). }
    assert (Hso : store_ok U (blocks st2)).
    { eapply store_ok_same; [|exact Hss|apply (p_store _ _ _ _ _ _ W)].
      unfold st2, set_blocks; cbn [blocks]. apply aset_sorted, (p_store _ _ _ _ _ _ W). }
    pose proof (p_chain _ _ _ _ _ _ W) as Hc. cbn [app] in Hc.
    assert (Hid : b_id t = b_id p + 1).
    { destruct Hc as (Ht & _ & Hl & Hc'). destruct Hc' as (Hp & _).
      apply (pu_link _ _ HU _ _ Ht Hp Hl). }
    rewrite (ring_reorg_false_tip_p c U HU st2 t p rest); try assumption.
    - cbn [bind]. rewrite bc_reorg_false. reflexivity.
    - unfold st2 at 2 3, set_blocks; cbn [ring ring_lc].
      eapply ring_ok_same; [exact Hss|apply (p_ring _ _ _ _ _ _ W)].
    - intros b Hb. rewrite <- Hss. eapply pc_sget; eauto.
    - eapply pc_inj; eauto.
    - eapply pi_window; eauto.
  Qed.

  Lemma unwound_core st t p rest lcp x L :
    PCore c U st (t :: p :: rest) lcp x -> PWin c st (t :: p :: rest) lcp L ->
    PCore c U (unwound c st t p) (p :: rest) lcp x.
  Proof.
    intros W Wn.
    pose proof (p_lc _ _ _ _ _ _ W t (or_introl eq_refl)) as Gt. unfold get_block in Gt.
    pose proof (p_chain _ _ _ _ _ _ W) as Hc. cbn [app] in Hc.
    assert (Hnt : forall b, In b ((p :: rest) ++ lcp) -> b_hash b <> b_hash t).
    { intros b Hb E. pose proof (chain_id_lt_p c U t _ HU Hc b Hb) as Hlt.
      assert (b = t); [|subst; lia].
      eapply hash_inj_p; eauto; apply (chain_ok_in _ _ Hc); [now right|now left]. }
    assert (Hss : same_store (blocks st) (aset (b_hash t) (mkSB t false) (blocks st))).
    { apply (same_store_flag _ _ _ false Gt). }
    assert (Hg : forall h, get_block (unwound c st t p) h =
                   if h =? b_hash t then Some (mkSB t false) else get_block st h).
    { intros h. unfold get_block, unwound; cbn [blocks]. apply aget_aset. }
    pose proof (HWF _ _ Hc) as (Wi & Wo & Wd).
    set (l := (p :: rest) ++ lcp) in *.
    assert (Hrep : forall k, In k (replay (t :: l)) <-> In k (blk_outs t) \/ (In k (replay l) /\ ~ In k (blk_ins t))).
    { intros k. change (replay (t :: l)) with (apply_block (replay l) t).
      apply In_apply_block; [apply replay_sorted|exact Wd]. }
    assert (Hun : forall k, In k (undo_block (utxo st) t) <->
                            (In k (utxo st) \/ In k (blk_ins t)) /\ ~ In k (blk_outs t)).
    { intros k. apply In_undo_block; [apply (p_sorted _ _ _ _ _ _ W)|exact Wd]. }
    split.
    - unfold unwound; cbn [blocks]. eapply store_ok_same; [|exact Hss|apply (p_store _ _ _ _ _ _ W)].
      apply aset_sorted, (p_store _ _ _ _ _ _ W).
    - eapply chain_ok_tail; eauto.
    - intros b Hb. rewrite Hg. destruct (N.eqb_spec (b_hash b) (b_hash t)) as [E|_].
      + exfalso. apply (Hnt b); [|exact E]. apply in_app_iff. now left.
      + apply (p_lc _ _ _ _ _ _ W). now right.
    - intros b Hb. rewrite Hg. destruct (N.eqb_spec (b_hash b) (b_hash t)) as [E|_].
      + exfalso. apply (Hnt b); [|exact E]. apply in_app_iff. now right.
      + now apply (p_gone _ _ _ _ _ _ W).
    - intros h sb. rewrite Hg. destruct (N.eqb_spec h (b_hash t)) as [->|Hne].
      + intros [= <-]. cbn [s_lc]. discriminate.
      + intros G F. destruct (p_flags _ _ _ _ _ _ W h sb G F) as [[E|Hi]|E]; auto. congruence.
    - unfold unwound; cbn [utxo]. apply undo_block_sorted, (p_sorted _ _ _ _ _ _ W).
    - unfold unwound; cbn [utxo]. intros k Hk. apply Hun in Hk as [[Hk|Hk] Hno].
      + pose proof (p_ua _ _ _ _ _ _ W k Hk) as Hr. cbn [app] in Hr. fold l in Hr.
        apply Hrep in Hr as [?|[? _]]; [contradiction|assumption].
      + now apply Wi.
    - unfold unwound; cbn [utxo]. intros k Hk (b0 & Hb0 & Ho). apply Hun.
      destruct (in_dec N.eq_dec k (blk_ins t)) as [Hi|Hni].
      + split; [now right|]. exact (Wd k Hi).
      + split; [|intros Ho'; exact (Wo k Ho' Hk)]. left.
        apply (p_ub _ _ _ _ _ _ W); [|exists b0; split; [now right|assumption]].
        cbn [app]. fold l. apply Hrep. right. auto.
    - unfold unwound; cbn [blocks ring ring_lc].
      eapply ring_ok_same; [exact Hss|].
      eapply (ring_unmark_ok_p c U HU); eauto.
      + apply (p_ring _ _ _ _ _ _ W).
      + eapply pc_sget; eauto.
      + intros y Hy. apply (chain_id_lt_p c U t l HU Hc). unfold l. apply in_app_iff. now left.
      + eapply pi_window; eauto.
  Qed.

  Lemma unwound_win st t p rest lcp L f :
    get_block st (b_hash t) = Some (mkSB t f) ->
    PWin c st (t :: p :: rest) lcp L -> PWin c (unwound c st t p) (p :: rest) lcp L.
  Proof.
    intros Gt [H1 H2 H3]. split; auto.
    - intros h sb. unfold get_block, unwound; cbn [blocks]. rewrite aget_aset.
      destruct (N.eqb_spec h (b_hash t)) as [->|_]; [|apply H1].
      intros [= <-]. cbn [s_b]. apply (H1 _ _ Gt).
    - intros y Hy. apply H2. now right.
  Qed.

  (* ---------------- wind one block: ring, ledger, flag (before the bookkeeping) ---------------- *)
  Definition wmid (st : state) (b : blk) : state :=
    mkSt (aset (b_hash b) (mkSB b true) (blocks st)) (ring_mark c (ring st) (b_id b) (b_hash b))
         (Some (slot c (b_id b))) (ring_empty st) (apply_block (utxo st) b)
         (last_id st) (last_hash st) (wsteps st).

  Lemma wind_block_p_eq ps b f : get_block (core ps) (b_hash b) = Some (mkSB b f) ->
    wind_block_p c ps b = bc_reorg_p c (mkP (wmid (core ps) b) (gid ps)) b true.
  Proof.
    intros G. unfold wind_block_p. rewrite ring_reorg_true. cbn [bind].
    unfold set_lc_flag, get_block, set_utxo, set_ring. cbn [blocks utxo].
    unfold get_block in G. rewrite G. reflexivity.
  Qed.

  Lemma wmid_same st b f : get_block st (b_hash b) = Some (mkSB b f) ->
    same_store (blocks st) (blocks (wmid st b)).
  Proof. intros G. unfold wmid; cbn [blocks]. apply (same_store_flag _ _ _ true G). Qed.

  Lemma wmid_core st b f rest lcp x :
    PCore c U st rest lcp x -> get_block st (b_hash b) = Some (mkSB b f) -> b_valid b = true ->
    link_to U b (rest ++ lcp) -> PCore c U (wmid st b) (b :: rest) lcp x.
  Proof.
    intros W G Hv Hl.
    pose proof (pc_stored_in _ _ _ _ _ _ W G) as [_ HbU]. cbn [s_b] in HbU.
    pose proof (wmid_same _ _ _ G) as Hss.
    unfold get_block in G.
    assert (Hg : forall h, get_block (wmid st b) h = if h =? b_hash b then Some (mkSB b true) else get_block st h).
    { intros h. unfold get_block, wmid; cbn [blocks]. apply aget_aset. }
    assert (Hc : chain_ok U (b :: rest ++ lcp)).
    { cbn [chain_ok]. repeat split; auto. apply (p_chain _ _ _ _ _ _ W). }
    pose proof (HWF _ _ Hc) as (Wi & Wo & Wd).
    set (l := rest ++ lcp) in *.
    assert (Hrep : forall k, In k (replay (b :: l)) <-> In k (blk_outs b) \/ (In k (replay l) /\ ~ In k (blk_ins b))).
    { intros k. change (replay (b :: l)) with (apply_block (replay l) b).
      apply In_apply_block; [apply replay_sorted|exact Wd]. }
    assert (Hap : forall k, In k (apply_block (utxo st) b) <->
                            In k (blk_outs b) \/ (In k (utxo st) /\ ~ In k (blk_ins b))).
    { intros k. apply In_apply_block; [apply (p_sorted _ _ _ _ _ _ W)|exact Wd]. }
    split.
    - eapply store_ok_same; [|exact Hss|apply (p_store _ _ _ _ _ _ W)].
      unfold wmid; cbn [blocks]. apply aset_sorted, (p_store _ _ _ _ _ _ W).
    - exact Hc.
    - intros y Hy. rewrite Hg. destruct (N.eqb_spec (b_hash y) (b_hash b)) as [E|Hne].
      + f_equal. f_equal. symmetry. eapply hash_inj_p; eauto.
        destruct Hy as [<-|Hy]; [assumption|]. eapply pc_in; eauto. apply in_app_iff. now left.
      + destruct Hy as [<-|Hy]; [congruence|]. now apply (p_lc _ _ _ _ _ _ W).
    - intros y Hy. rewrite Hg. destruct (N.eqb_spec (b_hash y) (b_hash b)) as [E|_].
      + pose proof (p_gone _ _ _ _ _ _ W y Hy) as Gy. unfold get_block in Gy. rewrite E in Gy. congruence.
      + now apply (p_gone _ _ _ _ _ _ W).
    - intros h sb. rewrite Hg. cbn [hashes map In]. destruct (N.eqb_spec h (b_hash b)) as [->|Hne]; [auto|].
      intros G' F. destruct (p_flags _ _ _ _ _ _ W h sb G' F); auto.
    - unfold wmid; cbn [utxo]. apply apply_block_sorted, (p_sorted _ _ _ _ _ _ W).
    - unfold wmid; cbn [utxo app]. fold l. intros k Hk. apply Hrep. apply Hap in Hk as [?|[Hk Hn]]; [now left|].
      right. split; [|exact Hn]. apply (p_ua _ _ _ _ _ _ W k Hk).
    - unfold wmid; cbn [utxo app]. fold l. intros k Hk (b0 & Hb0 & Ho). apply Hap.
      apply Hrep in Hk as [?|[Hk Hn]]; [now left|].
      destruct Hb0 as [<-|Hb0]; [now left|]. right. split; [|exact Hn].
      apply (p_ub _ _ _ _ _ _ W k Hk). exists b0. auto.
    - unfold wmid; cbn [blocks ring ring_lc]. eapply ring_ok_same; [exact Hss|].
      apply (ring_mark_ok_p c U HU _ _ (ring_lc st)); [apply (p_ring _ _ _ _ _ _ W)|].
      unfold sget. now rewrite G.
  Qed.

  (* ---------------- delete_blocks ---------------- *)
  Definition hmem (h : N) (hs : list N) : bool := existsb (N.eqb h) hs.

  Lemma hmem_In h hs : hmem h hs = true <-> In h hs.
  Proof.
    unfold hmem. rewrite existsb_exists. split.
    - intros (y & Hy & E). apply N.eqb_eq in E. now subst.
    - intros H. exists h. split; [exact H|apply N.eqb_refl].
  Qed.

  Lemma delete_blocks_ok d keep hs : forall st,
    store_ok U (blocks st) -> usorted (utxo st) ->
    ring_ok c (blocks st) (ring st) (ring_lc st) keep ->
    NoDup hs ->
    (forall h, In h hs -> exists sb, get_block st h = Some sb /\ b_id (s_b sb) = d) ->
    (forall y, In y keep -> sget (blocks st) (b_hash y) = Some y /\ b_id y <> d) ->
    exists st', delete_blocks c st d hs = Ok st'
      /\ store_ok U (blocks st') /\ usorted (utxo st')
      /\ ring_ok c (blocks st') (ring st') (ring_lc st') keep
      /\ (forall h, get_block st' h = if hmem h hs then None else get_block st h)
      /\ (forall k, In k (utxo st') -> In k (utxo st))
      /\ (forall k, In k (utxo st) ->
            (forall h sb, In h hs -> get_block st h = Some sb ->
                          ~ In k (blk_ins (s_b sb)) /\ ~ In k (blk_outs (s_b sb))) ->
            In k (utxo st'))
      /\ ring_lc st' = ring_lc st /\ ring_empty st' = ring_empty st
      /\ last_id st' = last_id st /\ last_hash st' = last_hash st /\ wsteps st' = wsteps st.
  Proof.
    induction hs as [|h t IH]; intros st Hso Hus Hr Hnd Hall Hkeep; cbn [delete_blocks].
    - exists st. split; [reflexivity|]. split; [exact Hso|]. split; [exact Hus|]. split; [exact Hr|].
      split; [intros h; reflexivity|]. split; [auto|]. split; [auto|]. repeat split.
    - destruct (Hall h (or_introl eq_refl)) as (sb & G & Ed).
      apply NoDup_cons_iff in Hnd as [Hnt Hnd'].
      unfold delete_block. rewrite G. cbn [bind].
      set (st1 := set_blocks _ _).
      pose proof (proj2 Hso _ _ (get_sget _ _ _ G)) as [Eh HqU].
      assert (Hg1 : forall h', get_block st1 h' = if h' =? h then None else get_block st h').
      { intros h'. unfold get_block, st1, set_blocks, set_ring, set_utxo; cbn [blocks].
        apply aget_adel, Hso. }
      assert (Hs1 : forall h', sget (blocks st1) h' = if h' =? h then None else sget (blocks st) h').
      { intros h'. unfold st1, set_blocks, set_ring, set_utxo; cbn [blocks]. apply sget_adel, Hso. }
      assert (Hso1 : store_ok U (blocks st1)).
      { split; [unfold st1, set_blocks, set_ring, set_utxo; cbn [blocks]; apply adel_sorted, Hso|].
        intros h' y. rewrite Hs1. destruct (h' =? h); [discriminate|]. apply (proj2 Hso). }
      assert (Hr1 : ring_ok c (blocks st1) (ring st1) (ring_lc st1) keep).
      { unfold st1, set_blocks, set_ring, set_utxo; cbn [blocks ring ring_lc].
        rewrite <- Eh, <- Ed.
        apply (ring_delete_ok_p c U HU); auto.
        - rewrite Eh. apply (get_sget _ _ _ G).
        - rewrite Eh. intros Hi. apply in_hashes in Hi as (y & Hy & Ey).
          destruct (Hkeep y Hy) as [Sy Ny]. rewrite Ey, (get_sget _ _ _ G) in Sy.
          injection Sy as Sy. apply Ny. now rewrite <- Sy. }
      assert (Hus1 : usorted (utxo st1)).
      { unfold st1, set_blocks, set_ring, set_utxo; cbn [utxo]. now apply delete_utxo_sorted. }
      destruct (IH st1 Hso1 Hus1 Hr1 Hnd') as
        (st' & E' & A1 & A2 & A3 & A4 & A5 & A6 & A7 & A8 & A9 & A10 & A11).
      { intros h' Hh'. rewrite Hg1. destruct (N.eqb_spec h' h) as [->|_]; [contradiction|].
        apply Hall. now right. }
      { intros y Hy. destruct (Hkeep y Hy) as [Sy Ny]. split; [|exact Ny]. rewrite Hs1.
        destruct (N.eqb_spec (b_hash y) h) as [E|_]; [|exact Sy].
        exfalso. rewrite E, (get_sget _ _ _ G) in Sy. injection Sy as Sy. apply Ny. now rewrite <- Sy. }
      exists st'. split; [exact E'|]. split; [exact A1|]. split; [exact A2|]. split; [exact A3|].
      assert (Hu1 : forall k, In k (utxo st1) <->
                 In k (utxo st) /\ ~ In k (blk_ins (s_b sb)) /\ ~ In k (blk_outs (s_b sb))).
      { intros k. unfold st1, set_blocks, set_ring, set_utxo; cbn [utxo]. now apply In_delete_utxo. }
      split.
      { intros h'. rewrite A4, Hg1. cbn [hmem existsb]. fold (hmem h' t).
        destruct (h' =? h); cbn [orb]; [now destruct (hmem h' t)|reflexivity]. }
      split; [intros k Hk; apply A5 in Hk; now apply Hu1 in Hk|].
      split.
      { intros k Hk Hno. apply A6.
        - apply Hu1. split; [exact Hk|]. apply (Hno h sb (or_introl eq_refl) G).
        - intros h' sb' Hh' G'. rewrite Hg1 in G'. destruct (h' =? h); [discriminate|].
          apply (Hno h' sb' (or_intror Hh') G'). }
      repeat split; [rewrite A7|rewrite A8|rewrite A9|rewrite A10|rewrite A11]; reflexivity.
  Qed.

  (* ---------------- wind one block, including the purge ---------------- *)
  Lemma exists_last_or_nil {A} (l : list A) : l = [] \/ exists l' a, l = l' ++ [a].
  Proof.
    destruct l as [|x l]; [now left|right].
    destruct (@exists_last _ (x :: l)) as (l' & a & E); [discriminate|eauto].
  Qed.

  Lemma rest_shape rest lcp b d :
    chain_ok U (b :: rest ++ lcp) ->
    (forall z, In z rest -> d <= b_id z) ->
    exists rest0 ys, rest = rest0 ++ ys /\ (forall z, In z rest0 -> d < b_id z)
                     /\ (ys = [] \/ exists y, ys = [y] /\ b_id y = d).
  Proof.
    intros Hc Hge. destruct (exists_last_or_nil rest) as [->|(r' & y & ->)].
    - exists [], []. split; [reflexivity|]. split; [intros z []|now left].
    - destruct (N.eq_dec (b_id y) d) as [E|Hne].
      + exists r', [y]. split; [reflexivity|]. split; [|right; eauto].
        intros z Hz. destruct (in_split _ _ Hz) as (l1 & l2 & ->).
        assert (Hlt : b_id y < b_id z).
        { apply (chain_ok_before c U (b :: l1) z (l2 ++ [y] ++ lcp) HU).
          - assert (Eq : b :: ((l1 ++ z :: l2) ++ [y]) ++ lcp = (b :: l1) ++ z :: l2 ++ [y] ++ lcp)
              by (cbn [app]; rewrite <- !app_assoc; cbn [app]; reflexivity).
            rewrite <- Eq. exact Hc.
          - apply in_app_iff. right. now left. }
        lia.
      + exists (r' ++ [y]), []. split; [now rewrite app_nil_r|]. split; [|now left].
        intros z Hz. apply in_app_iff in Hz as [Hz|[<-|[]]].
        * destruct (in_split _ _ Hz) as (l1 & l2 & ->).
          assert (Hlt : b_id y < b_id z).
          { apply (chain_ok_before c U (b :: l1) z (l2 ++ [y] ++ lcp) HU).
            - assert (Eq : b :: ((l1 ++ z :: l2) ++ [y]) ++ lcp = (b :: l1) ++ z :: l2 ++ [y] ++ lcp)
                by (cbn [app]; rewrite <- !app_assoc; cbn [app]; reflexivity).
              rewrite <- Eq. exact Hc.
            - apply in_app_iff. right. now left. }
          assert (d <= b_id y) by (apply Hge, in_app_iff; right; now left). lia.
        * assert (d <= b_id y) by (apply Hge, in_app_iff; right; now left). lia.
  Qed.

  Definition only_block (st : state) (b : blk) : Prop :=
    forall h sb, get_block st h = Some sb -> h = b_hash b.

  Lemma wind_p_ok ps b f rest lcp x :
    PInv c U (core ps) rest lcp x -> get_block (core ps) (b_hash b) = Some (mkSB b f) ->
    b_valid b = true -> link_to U b (rest ++ lcp) ->
    (rest <> [] \/ (lcp = [] /\ only_block (core ps) b)) ->
    exists ps' lcs' lcp',
      wind_block_p c ps b = Ok ps'
      /\ PInv c U (core ps') lcs' lcp' x
      /\ lcs' ++ lcp' = (b :: rest) ++ lcp /\ (exists r0, lcs' = b :: r0)
      /\ (forall h y, sget (blocks (core ps')) h = Some y -> sget (blocks (core ps)) h = Some y)
      /\ (forall h y, sget (blocks (core ps)) h = Some y -> b_id b < b_id y + 2 * gp_of c ->
                      sget (blocks (core ps')) h = Some y)
      /\ ring_empty (core ps') = ring_empty (core ps) /\ wsteps (core ps') = wsteps (core ps)
      /\ (b_id b <= last_id (core ps) ->
            last_id (core ps') = last_id (core ps) /\ last_hash (core ps') = last_hash (core ps))
      /\ (last_id (core ps) < b_id b ->
            last_id (core ps') = b_id b /\ last_hash (core ps') = b_hash b
            /\ gid ps' = if 2 * gp_of c + 1 <=? b_id b then b_id b - gp_of c else gid ps)
      /\ (b_id b <= last_id (core ps) \/ b_id b <= 2 * gp_of c ->
            lcs' = b :: rest /\ lcp' = lcp /\ gid ps' = gid ps
            /\ same_store (blocks (core ps)) (blocks (core ps'))).
  Proof.
    intros [W Wn] G Hv Hl Hfirst.
    set (st := core ps) in *.
    pose proof (pu_gp _ _ HU) as Hgp.
    pose proof (pc_stored_in _ _ _ _ _ _ W G) as [_ HbU]. cbn [s_b] in HbU.
    rewrite (wind_block_p_eq _ _ _ G). fold st.
    pose proof (wmid_core _ _ _ _ _ _ W G Hv Hl) as W1.
    pose proof (wmid_same _ _ _ G) as Hss.
    assert (Hgm : forall h, get_block (wmid st b) h = if h =? b_hash b then Some (mkSB b true) else get_block st h).
    { intros h. unfold get_block, wmid; cbn [blocks]. apply aget_aset. }
    assert (Hwm : forall h sb, get_block (wmid st b) h = Some sb -> last_id st < b_id (s_b sb) + 2 * gp_of c).
    { intros h sb. rewrite Hgm. destruct (h =? b_hash b).
      - intros [= <-]. cbn [s_b]. apply (p_win _ _ _ _ _ Wn _ _ G).
      - apply (p_win _ _ _ _ _ Wn). }
    assert (Hidb : rest <> [] -> b_id b <= last_id st + 1).
    { intros Hne. destruct rest as [|t rest']; [contradiction|]. cbn [app link_to] in Hl.
      assert (HtU : In t U) by (eapply pc_in; [exact W|]; now left).
      pose proof (pu_link _ _ HU b t HbU HtU Hl). pose proof (p_tip _ _ _ _ _ Wn t (or_introl eq_refl)). lia. }
    unfold bc_reorg_p. cbn [core gid]. change (last_id (wmid st b)) with (last_id st).
    destruct (N.leb_spec (b_id b) (last_id st)) as [Hle|Hgt].
    { (* not beyond the last block: no bookkeeping *)
      exists (mkP (wmid st b) (gid ps)), (b :: rest), lcp. cbn [core gid].
      split; [reflexivity|]. split.
      { split; [exact W1|]. change (last_id (wmid st b)) with (last_id st). split.
        - exact Hwm.
        - intros y [<-|Hy]; [exact Hle|apply (p_tip _ _ _ _ _ Wn y Hy)].
        - apply (p_low _ _ _ _ _ Wn). }
      split; [reflexivity|]. split; [eauto|].
      split; [intros h y; now rewrite <- Hss|]. split; [intros h y Hs _; now rewrite <- Hss|].
      split; [reflexivity|]. split; [reflexivity|]. split; [intros _; split; reflexivity|].
      split; [intros; lia|]. intros _. repeat split; auto. }
    (* beyond: last block set, update_genesis *)
    set (st1 := mkSt (blocks (wmid st b)) (ring (wmid st b)) (ring_lc (wmid st b)) (ring_empty (wmid st b))
                     (utxo (wmid st b)) (b_id b) (b_hash b) (wsteps (wmid st b))).
    assert (W1' : PCore c U st1 (b :: rest) lcp x) by (eapply PCore_ext; [..|exact W1]; reflexivity).
    assert (Hlat : latest_id st1 = Ok (b_id b)).
    { unfold latest_id, latest_entry, st1. cbn [ring_lc ring wmid].
      destruct (ring_mark_entry c U HU _ _ (ring_lc st) rest b (p_ring _ _ _ _ _ _ W)) as (q & Hq1 & Hq2).
      { unfold sget. unfold get_block in G. now rewrite G. }
      now rewrite Hq1, Hq2. }
    unfold update_genesis. cbn [core gid]. fold st1. rewrite Hlat. cbn [bind].
    destruct (N.leb_spec (2 * gp_of c + 1) (b_id b)) as [Hpg|Hnp].
    2:{ (* still below 2gp + 1: nothing to purge *)
      exists (mkP st1 (gid ps)), (b :: rest), lcp. cbn [core gid].
      split; [reflexivity|]. split.
      { split; [exact W1'|]. unfold st1 at 2. cbn [last_id]. split.
        - intros h sb Gs. apply pc_stored_in with (lcs := b :: rest) (lcp := lcp) (x := x) in Gs as [_ HsU]; [|exact W1'].
          pose proof (pu_id _ _ HU _ HsU). lia.
        - intros y [<-|Hy]; [lia|]. pose proof (p_tip _ _ _ _ _ Wn y Hy). lia.
        - intros y Hy. pose proof (p_low _ _ _ _ _ Wn y Hy). lia. }
      split; [reflexivity|]. split; [eauto|].
      split; [intros h y; unfold st1; cbn [blocks]; now rewrite <- Hss|].
      split; [intros h y Hs _; unfold st1; cbn [blocks]; now rewrite <- Hss|].
      split; [reflexivity|]. split; [reflexivity|]. split; [intros; lia|].
      split; [intros _; unfold st1; cbn [last_id last_hash]; repeat split|].
      intros _. repeat split; auto. }
    (* purge of the blocks 2 gp below *)
    set (d := b_id b - 2 * gp_of c).
    replace (0 <? d) with true by (symmetry; apply N.ltb_lt; unfold d; lia).
    assert (Hge : forall z, In z rest -> d <= b_id z).
    { intros z Hz. assert (Hne : rest <> []) by (intros ->; contradiction).
      specialize (Hidb Hne). pose proof (p_win _ _ _ _ _ Wn _ _ (p_lc _ _ _ _ _ _ W z Hz)) as Hwz.
      cbn [s_b] in Hwz. unfold d. lia. }
    destruct (rest_shape rest lcp b d (p_chain _ _ _ _ _ _ W1') Hge) as (rest0 & ys & Er & Hr0 & Hys).
    set (keep := b :: rest0).
    assert (Hring1 : ring_ok c (blocks st1) (ring st1) (ring_lc st1) keep).
    { pose proof (p_ring _ _ _ _ _ _ W1') as Hr. rewrite Er in Hr.
      destruct Hys as [->|(y & -> & Ey)]; [now rewrite app_nil_r in Hr|].
      change (b :: rest0 ++ [y]) with ((b :: rest0) ++ [y]) in Hr.
      apply (ring_ok_drop c _ _ _ _ y Hr); [discriminate| |].
      - eapply pc_sget; [exact W1'|]. rewrite Er. right. apply in_app_iff. right. now left.
      - intros q e Hq He.
        assert (Hsl : slot c (b_id y) = slot c (b_id b)).
        { unfold slot. f_equal. rewrite Ey. unfold d.
          replace (b_id b) with (b_id b - 2 * gp_of c + 1 * (2 * gp_of c)) at 2 by lia.
          rewrite N.mod_add by lia. reflexivity. }
        rewrite Hsl in Hq, He. unfold st1 in Hq, He. cbn [ring wmid] in Hq, He.
        destruct (ring_mark_entry c U HU _ _ (ring_lc st) rest b (p_ring _ _ _ _ _ _ W)) as (q' & Hq1 & Hq2).
        { unfold sget. unfold get_block in G. now rewrite G. }
        rewrite Hq1 in Hq. injection Hq as <-. rewrite Hq2 in He. injection He as <-. cbn [fst].
        intros Eh. assert (y = b); [|subst y; unfold d in Ey; lia].
        eapply hash_inj_p; eauto. eapply pc_in; [exact W1'|]. rewrite Er. right.
        apply in_app_iff. left. apply in_app_iff. right. now left. }
    set (hs := hashes_at c (ring st1) d).
    assert (Hslot : (slot c d < nslots c)%nat) by (apply slot_lt; lia).
    assert (Hhs : forall h, In h hs <-> exists y, sget (blocks st1) h = Some y /\ b_id y = d).
    { intros h. unfold hs, hashes_at. rewrite in_map_iff. split.
      - intros (e & <- & He). apply filter_In in He as [He Ed]. apply N.eqb_eq in Ed.
        destruct (r_sound _ _ _ _ _ (p_ring _ _ _ _ _ _ W1') _ e Hslot He) as (y & Hy & Ei & _).
        exists y. split; [exact Hy|congruence].
      - intros (y & Hy & Ei). exists (h, d). split; [reflexivity|]. apply filter_In. cbn [snd].
        split; [|apply N.eqb_refl]. rewrite <- Ei. apply (r_complete _ _ _ _ _ (p_ring _ _ _ _ _ _ W1') h y Hy). }
    destruct (delete_blocks_ok d keep hs st1 (p_store _ _ _ _ _ _ W1') (p_sorted _ _ _ _ _ _ W1') Hring1) as
      (st' & E' & A1 & A2 & A3 & A4 & A5 & A6 & A7 & A8 & A9 & A10 & A11).
    { unfold hs, hashes_at. apply NoDup_map_filter. apply (r_nodup _ _ _ _ _ (p_ring _ _ _ _ _ _ W1') _ Hslot). }
    { intros h Hh. apply Hhs in Hh as (y & Hy & Ei). destruct (sget_get _ _ _ Hy) as (fy & Gy).
      exists (mkSB y fy). auto. }
    { intros y Hy. split.
      - eapply pc_sget; [exact W1'|]. destruct Hy as [<-|Hy]; [now left|]. right. rewrite Er.
        apply in_app_iff. now left.
      - destruct Hy as [<-|Hy]; [unfold d; lia|]. specialize (Hr0 y Hy). lia. }
    fold hs. rewrite E'. cbn [bind].
    assert (Hmem : forall h, hmem h hs = true <-> exists y, sget (blocks st1) h = Some y /\ b_id y = d).
    { intros h. rewrite hmem_In. apply Hhs. }
    assert (Hsg : forall h, sget (blocks st') h = if hmem h hs then None else sget (blocks st1) h).
    { intros h. pose proof (A4 h) as E. unfold get_block in E. unfold sget. rewrite E.
      now destruct (hmem h hs). }
    assert (Hlcp' : chain_ok U (keep ++ ys ++ lcp)).
    { unfold keep. cbn [app]. rewrite app_assoc, <- Er. apply (p_chain _ _ _ _ _ _ W1'). }
    exists (mkP st' (b_id b - gp_of c)), keep, (ys ++ lcp). cbn [core gid].
    split; [reflexivity|]. split.
    { split.
      - split.
        + exact A1.
        + exact Hlcp'.
        + intros y Hy. rewrite A4.
          destruct (hmem (b_hash y) hs) eqn:Em.
          * exfalso. apply Hmem in Em as (y' & Hy' & Ei).
            assert (Sy : sget (blocks st1) (b_hash y) = Some y).
            { eapply pc_sget; [exact W1'|]. destruct Hy as [<-|Hy]; [now left|]. right. rewrite Er.
              apply in_app_iff. now left. }
            rewrite Sy in Hy'. injection Hy' as <-.
            destruct Hy as [<-|Hy]; [unfold d in Ei; lia|]. specialize (Hr0 y Hy). lia.
          * apply (p_lc _ _ _ _ _ _ W1'). destruct Hy as [<-|Hy]; [now left|]. right. rewrite Er.
            apply in_app_iff. now left.
        + intros y Hy. rewrite A4. destruct (hmem (b_hash y) hs) eqn:Em; [reflexivity|].
          apply in_app_iff in Hy as [Hy|Hy]; [|now apply (p_gone _ _ _ _ _ _ W1')].
          exfalso. destruct Hys as [->|(y0 & -> & Ey)]; [contradiction|]. destruct Hy as [<-|[]].
          assert (hmem (b_hash y0) hs = true); [|congruence].
          apply Hmem. exists y0. split; [|exact Ey]. eapply pc_sget; [exact W1'|]. rewrite Er. right.
          apply in_app_iff. right. now left.
        + intros h sb. rewrite A4. destruct (hmem h hs) eqn:Em; [discriminate|].
          intros Gs F. destruct (p_flags _ _ _ _ _ _ W1' h sb Gs F) as [Hi|Hx]; [|now right]. left.
          rewrite Er in Hi. change (b :: rest0 ++ ys) with (keep ++ ys) in Hi.
          unfold hashes in Hi. rewrite map_app in Hi. apply in_app_iff in Hi as [Hi|Hi]; [exact Hi|].
          exfalso. destruct Hys as [->|(y0 & -> & Ey)]; [contradiction|]. destruct Hi as [<-|[]].
          assert (hmem (b_hash y0) hs = true); [|congruence].
          apply Hmem. exists y0. split; [|exact Ey]. eapply pc_sget; [exact W1'|]. rewrite Er. right.
          apply in_app_iff. right. now left.
        + exact A2.
        + intros k Hk. apply A5 in Hk. apply (p_ua _ _ _ _ _ _ W1') in Hk.
          unfold keep. cbn [app]. rewrite app_assoc, <- Er. exact Hk.
        + intros k Hk (b0 & Hb0 & Ho). apply A6.
          * apply (p_ub _ _ _ _ _ _ W1').
            -- unfold keep in Hk. cbn [app] in Hk. rewrite app_assoc, <- Er in Hk. exact Hk.
            -- exists b0. split; [|exact Ho]. destruct Hb0 as [<-|Hb0]; [now left|]. right. rewrite Er.
               apply in_app_iff. now left.
          * intros h sb Hh Gs.
            assert (Hb0U : In b0 U).
            { apply (chain_ok_in _ _ Hlcp'). apply in_app_iff. now left. }
            assert (Hb0d : d < b_id b0) by (destruct Hb0 as [<-|Hb0]; [unfold d; lia|auto]).
            apply Hhs in Hh as (y & Hy & Ei). rewrite (get_sget _ _ _ Gs) in Hy. injection Hy as Hy.
            destruct (proj2 (p_store _ _ _ _ _ _ W1') _ _ (get_sget _ _ _ Gs)) as [_ HsU].
            rewrite Hy in *. split; intros Hi.
            -- pose proof (pu_spend_older _ _ HU y b0 k HsU Hb0U Hi Ho). lia.
            -- pose proof (pu_key_id _ _ HU y b0 k HsU Hb0U Hi Ho). lia.
        + exact A3.
      - rewrite A9. unfold st1 at 1. cbn [last_id]. split.
        + intros h sb. rewrite A4. destruct (hmem h hs) eqn:Em; [discriminate|]. intros Gs.
          assert (Hnd : b_id (s_b sb) <> d).
          { intros Ei. assert (hmem h hs = true); [|congruence]. apply Hmem. exists (s_b sb).
            split; [apply (get_sget _ _ _ Gs)|exact Ei]. }
          destruct Hfirst as [Hne|[_ Honly]].
          * specialize (Hidb Hne). pose proof (Hwm h sb Gs). unfold d in Hnd. lia.
          * assert (h = b_hash b).
            { unfold st1, get_block in Gs. cbn [blocks] in Gs. fold (get_block (wmid st b) h) in Gs.
              rewrite Hgm in Gs. destruct (N.eqb_spec h (b_hash b)); [assumption|]. eapply Honly; eauto. }
            subst h. unfold st1, get_block in Gs. cbn [blocks] in Gs. fold (get_block (wmid st b) (b_hash b)) in Gs.
            rewrite Hgm, N.eqb_refl in Gs. injection Gs as <-. cbn [s_b]. lia.
        + intros y [<-|Hy]; [lia|].
          assert (In y rest) by (rewrite Er; apply in_app_iff; now left).
          pose proof (p_tip _ _ _ _ _ Wn y H). lia.
        + intros y Hy. apply in_app_iff in Hy as [Hy|Hy].
          * destruct Hys as [->|(y0 & -> & Ey)]; [contradiction|]. destruct Hy as [<-|[]]. unfold d in Ey. lia.
          * pose proof (p_low _ _ _ _ _ Wn y Hy). lia. }
    split; [unfold keep; cbn [app]; now rewrite app_assoc, <- Er|]. split; [unfold keep; eauto|].
    split.
    { intros h y. rewrite Hsg. destruct (hmem h hs); [discriminate|]. unfold st1; cbn [blocks]. now rewrite <- Hss. }
    split.
    { intros h y Hs Hlt. rewrite Hsg. destruct (hmem h hs) eqn:Em.
      - exfalso. apply Hmem in Em as (y' & Hy' & Ei). unfold st1 in Hy'; cbn [blocks] in Hy'.
        rewrite <- Hss, Hs in Hy'. injection Hy' as <-. unfold d in Ei. lia.
      - unfold st1; cbn [blocks]. now rewrite <- Hss. }
    split; [rewrite A8; reflexivity|]. split; [rewrite A11; reflexivity|].
    split; [intros; lia|]. split.
    { intros _. rewrite A9, A10. unfold st1; cbn [last_id last_hash].
      replace (2 * gp_of c + 1 <=? b_id b) with true by (symmetry; apply N.leb_le; lia). repeat split. }
    intros [?|?]; lia.
  Qed.

  (* ---------------- pstate level ---------------- *)
  Definition gfun (L : N) : N := if 2 * gp_of c + 1 <=? L then L - gp_of c else 0.

  Definition PInvS (ps : pstate) (lcs lcp : list blk) (x : N) : Prop :=
    PInv c U (core ps) lcs lcp x /\ gid ps = gfun (last_id (core ps)).

  (* ---------------- unwind_all ---------------- *)
  Lemma unwind_all_p_ok pre : forall ps rest lcp x,
    PInvS ps (pre ++ rest) lcp x -> (rest <> [] \/ pre = []) ->
    exists ps', unwind_all_p c ps (hashes pre) = Ok ps' /\ PInvS ps' rest lcp x
                /\ same_store (blocks (core ps)) (blocks (core ps'))
                /\ ring_empty (core ps') = ring_empty (core ps)
                /\ last_id (core ps') = last_id (core ps) /\ last_hash (core ps') = last_hash (core ps)
                /\ gid ps' = gid ps.
  Proof.
    unfold unwind_all_p.
    induction pre as [|t pre IH]; intros ps rest lcp x [[W Wn] Hg] Hne; cbn [hashes map unwind_all bind].
    - exists (mkP (core ps) (gid ps)). cbn [core gid]. split; [reflexivity|]. split; [split; [split|]; assumption|].
      split; [apply same_store_refl|repeat split].
    - destruct Hne as [Hne|]; [|discriminate].
      pose proof (p_lc _ _ _ _ _ _ W t (or_introl eq_refl)) as Gt. rewrite Gt. cbn [s_b].
      assert (exists p rest', pre ++ rest = p :: rest') as (p & rest' & E).
      { destruct pre as [|p pre']; cbn [app]; [|eauto]. destruct rest; [contradiction|eauto]. }
      cbn [app] in W, Wn. rewrite E in W, Wn.
      rewrite (unwind_block_eq_p _ _ _ _ _ _ _ W Wn). cbn [bind].
      pose proof (unwound_core _ _ _ _ _ _ _ W Wn) as W'.
      pose proof (unwound_win _ _ _ _ _ _ _ Gt Wn) as Wn'. rewrite <- E in W', Wn'.
      destruct (IH (mkP (unwound c (core ps) t p) (gid ps)) rest lcp x) as (ps' & H1 & H2 & H3 & H4 & H5 & H6 & H7).
      { split; [split; [exact W'|exact Wn']|exact Hg]. }
      { now left. }
      cbn [core gid] in *. exists ps'. split; [exact H1|]. split; [exact H2|].
      split.
      { eapply same_store_trans; [|exact H3]. unfold unwound; cbn [blocks].
        unfold get_block in Gt. apply (same_store_flag _ _ _ false Gt). }
      repeat split; [rewrite H4|rewrite H5|rewrite H6|rewrite H7]; reflexivity.
  Qed.

  (* ---------------- wind_list_p ---------------- *)
  Lemma hd_error_app_cons {A} (l : list A) b r1 r2 : hd_error (l ++ b :: r1) = hd_error (l ++ b :: r2).
  Proof. now destruct l. Qed.

  Lemma wind_p_last ps b ps' :
    (b_id b <= last_id (core ps) ->
       last_id (core ps') = last_id (core ps) /\ last_hash (core ps') = last_hash (core ps)) ->
    (last_id (core ps) < b_id b -> last_id (core ps') = b_id b /\ last_hash (core ps') = b_hash b /\
       gid ps' = if 2 * gp_of c + 1 <=? b_id b then b_id b - gp_of c else gid ps) ->
    (b_id b <= last_id (core ps) \/ b_id b <= 2 * gp_of c -> gid ps' = gid ps) ->
    gid ps = gfun (last_id (core ps)) ->
    last_from (core ps) (core ps') [b] /\ last_id (core ps) <= last_id (core ps')
    /\ b_id b <= last_id (core ps') /\ gid ps' = gfun (last_id (core ps')).
  Proof.
    intros H1 H2 H3 Hg. destruct (N.le_gt_cases (b_id b) (last_id (core ps))) as [Hle|Hgt].
    - destruct (H1 Hle) as [E1 E2]. rewrite E1. split; [|split; [lia|split; [lia|]]].
      + split; [intros M HM _; lia|left; auto].
      + rewrite (H3 (or_introl Hle)). exact Hg.
    - destruct (H2 Hgt) as (E1 & E2 & E3). rewrite E1. split; [|split; [lia|split; [lia|]]].
      + split; [intros M _ HM; rewrite E1; apply HM; now left|right; exists b; split; [now left|auto]].
      + rewrite E3, Hg. unfold gfun.
        destruct (N.leb_spec (2 * gp_of c + 1) (b_id b)); [reflexivity|].
        destruct (N.leb_spec (2 * gp_of c + 1) (last_id (core ps))); [lia|reflexivity].
  Qed.

  Lemma wind_list_p_ok tb : forall ps cur lcp wnd x,
    PInvS ps cur lcp x ->
    (forall b, In b tb -> sget (blocks (core ps)) (b_hash b) = Some b) ->
    linked_up U tb (cur ++ lcp) ->
    (cur <> [] \/ tb = [] \/ (lcp = [] /\ exists b, tb = [b] /\ only_block (core ps) b)) ->
    (forall tb1 b tb2, tb = tb1 ++ b :: tb2 -> forall y, In y tb2 -> b_id b < b_id y) ->
    exists ps' r, wind_list_p c ps (hashes tb) wnd = Ok (ps', r)
      /\ ring_empty (core ps') = ring_empty (core ps)
      /\ exists tbw lcs' lcp',
           ((forallb b_valid tb = true /\ r = None /\ tbw = tb)
            \/ (exists bad tb2, tb = tbw ++ bad :: tb2 /\ forallb b_valid tbw = true
                  /\ b_valid bad = false /\ r = Some (rev (hashes tbw) ++ wnd)))
           /\ PInvS ps' lcs' lcp' x
           /\ lcs' ++ lcp' = rev tbw ++ cur ++ lcp
           /\ hd_error lcs' = hd_error (rev tbw ++ cur)
           /\ last_from (core ps) (core ps') tbw
           /\ last_id (core ps) <= last_id (core ps')
           /\ (forall y, In y tbw -> b_id y <= last_id (core ps'))
           /\ (forall h y, sget (blocks (core ps')) h = Some y -> sget (blocks (core ps)) h = Some y)
           /\ (forall h y, sget (blocks (core ps)) h = Some y ->
                 (forall z, In z tbw -> b_id z < b_id y + 2 * gp_of c) -> sget (blocks (core ps')) h = Some y)
           /\ ((forall z, In z tbw -> b_id z <= last_id (core ps) \/ b_id z <= 2 * gp_of c) ->
                 lcs' = rev tbw ++ cur /\ lcp' = lcp /\ same_store (blocks (core ps)) (blocks (core ps'))).
  Proof.
    induction tb as [|b tb IH]; intros ps cur lcp wnd x HI Hst Hl Hfirst Hinc; cbn [hashes map wind_list_p].
    - exists ps, None. split; [reflexivity|]. split; [reflexivity|]. exists [], cur, lcp.
      split; [left; auto|]. split; [exact HI|]. split; [reflexivity|]. split; [reflexivity|].
      split; [apply last_from_refl|]. split; [lia|]. split; [intros y []|].
      split; [auto|]. split; [auto|]. intros _. split; [reflexivity|]. split; [reflexivity|apply same_store_refl].
    - destruct (sget_get _ _ _ (Hst b (or_introl eq_refl))) as (f & G). rewrite G. cbn [s_b].
      destruct (b_valid b) eqn:Hv.
      + destruct Hl as [Hl1 Hl2]. destruct HI as [HP Hg].
        destruct (wind_p_ok ps b f cur lcp x HP G Hv Hl1) as
          (ps1 & lcs1 & lcp1 & E1 & HP1 & Eapp & (r0 & Er0) & S1 & S2 & R1 & _ & L1 & L2 & S3).
        { destruct Hfirst as [?|[?|(-> & b0 & Eb & Ho)]]; [now left|discriminate|].
          right. split; [reflexivity|]. injection Eb as <- _. exact Ho. }
        rewrite E1. cbn [bind].
        assert (Hg3 : b_id b <= last_id (core ps) \/ b_id b <= 2 * gp_of c -> gid ps1 = gid ps).
        { intros H. now destruct (S3 H) as (_ & _ & ? & _). }
        destruct (wind_p_last ps b ps1 L1 L2 Hg3 Hg) as (LF1 & Lm1 & Lb1 & Hg1).
        destruct (IH ps1 lcs1 lcp1 (b_hash b :: wnd) x) as
          (ps' & r & E2 & R2 & tbw & lcs' & lcp' & D & HI' & Eapp' & Hhd & LF2 & Lm2 & Lb2 & T1 & T2 & T3).
        { split; assumption. }
        { intros y Hy. apply S2; [apply Hst; now right|].
          pose proof (Hinc [] b tb eq_refl y Hy). lia. }
        { rewrite Eapp. exact Hl2. }
        { left. rewrite Er0. discriminate. }
        { intros tb1 b0 tb2 E y Hy. apply (Hinc (b :: tb1) b0 tb2); [now rewrite E|exact Hy]. }
        exists ps', r. split; [exact E2|]. split; [congruence|].
        exists (b :: tbw), lcs', lcp'. split.
        { destruct D as [(D1 & D2 & D3)|(bad & tb2 & D1 & D2 & D3 & D4)].
          - left. cbn [forallb]. rewrite Hv, D1, D3. auto.
          - right. exists bad, tb2. cbn [forallb hashes map rev app]. rewrite Hv, D2, <- app_assoc.
            cbn [app]. subst tb. auto. }
        split; [exact HI'|].
        split; [cbn [rev]; rewrite <- app_assoc; cbn [app]; rewrite Eapp', Eapp; reflexivity|].
        split; [cbn [rev]; rewrite <- app_assoc; cbn [app]; rewrite Hhd, Er0; apply hd_error_app_cons|].
        split; [apply (last_from_trans _ _ _ [b] tbw LF1 LF2)|]. split; [lia|].
        split; [intros y [<-|Hy]; [lia|auto]|].
        split; [intros h y Hs; apply S1, T1, Hs|].
        split.
        { intros h y Hs Hz. apply T2; [apply S2; [exact Hs|apply Hz; now left]|].
          intros z Hz'. apply Hz. now right. }
        intros Hz. destruct (S3 (Hz b (or_introl eq_refl))) as (-> & -> & _ & SS1).
        destruct T3 as (-> & -> & SS2).
        { intros z Hz'. destruct (Hz z (or_intror Hz')) as [?|?]; [left; lia|now right]. }
        cbn [rev]. rewrite <- app_assoc. cbn [app]. repeat split. eapply same_store_trans; eauto.
      + exists ps, (Some wnd). split; [reflexivity|]. split; [reflexivity|]. exists [], cur, lcp.
        split; [right; exists b, tb; cbn [app forallb rev hashes map]; auto|].
        split; [exact HI|]. split; [reflexivity|]. split; [reflexivity|].
        split; [apply last_from_refl|]. split; [lia|]. split; [intros y []|].
        split; [auto|]. split; [auto|]. intros _. split; [reflexivity|]. split; [reflexivity|apply same_store_refl].
  Qed.

  (* ---------------- small facts ---------------- *)
  Lemma PInvS_steps ps lcs lcp x n :
    PInvS ps lcs lcp x -> PInvS (lift (fun st => set_steps st n) ps) lcs lcp x.
  Proof.
    intros [[W Wn] Hg]. split; [split|exact Hg].
    - eapply PCore_ext; [..|exact W]; reflexivity.
    - eapply PWin_ext; [|exact Wn]. reflexivity.
  Qed.

  Lemma chain_rev_inc l rest : chain_ok U (l ++ rest) ->
    forall tb1 z tb2, rev l = tb1 ++ z :: tb2 -> forall y, In y tb2 -> b_id z < b_id y.
  Proof.
    intros Hc tb1 z tb2 E y Hy.
    assert (El : l = rev tb2 ++ z :: rev tb1).
    { rewrite <- (rev_involutive l), E, rev_app_distr. cbn [rev]. now rewrite <- app_assoc. }
    apply in_rev in Hy. destruct (in_split _ _ Hy) as (a & b0 & Ea).
    rewrite El, Ea in Hc. rewrite <- !app_assoc in Hc. cbn [app] in Hc.
    apply (chain_ok_before c U a y (b0 ++ z :: rev tb1 ++ rest) HU Hc).
    apply in_app_iff. right. now left.
  Qed.

  Lemma resync_p_ok ps lcs lcp x : PInvS ps lcs lcp x ->
    exists ps', resync_last_p ps = Ok ps'
      /\ blocks (core ps') = blocks (core ps) /\ ring (core ps') = ring (core ps)
      /\ ring_lc (core ps') = ring_lc (core ps) /\ utxo (core ps') = utxo (core ps)
      /\ ring_empty (core ps') = ring_empty (core ps) /\ gid ps' = gid ps
      /\ match lcs with
         | [] => last_id (core ps') = last_id (core ps) /\ last_hash (core ps') = last_hash (core ps)
         | t :: _ => last_id (core ps') = b_id t /\ last_hash (core ps') = b_hash t
         end.
  Proof.
    intros [[W Wn] Hg]. unfold resync_last_p, resync_last.
    rewrite (latest_entry_spec_p c U HU (core ps) lcs (p_store _ _ _ _ _ _ W) (p_ring _ _ _ _ _ _ W)
               (pc_sget _ _ _ _ W) (pc_inj _ _ _ _ W) (pi_window _ _ _ _ _ W Wn)).
    cbn [bind]. destruct lcs as [|t l']; eexists; (split; [reflexivity|]); cbn; repeat split.
  Qed.

  (* ---------------- validate_p ---------------- *)
  Lemma validate_p_ok ps b newtl oldb common lcp x :
    PInvS ps (oldb ++ common) lcp x ->
    last_id (core ps) = tip_id (oldb ++ common) -> last_hash (core ps) = tip_hash (oldb ++ common) ->
    (forall y, In y (b :: newtl) -> sget (blocks (core ps)) (b_hash y) = Some y) ->
    linked_dn U (b :: newtl) (common ++ lcp) ->
    (common <> [] \/ (oldb = [] /\ newtl = [] /\ lcp = [] /\ only_block (core ps) b)) ->
    (forall tb1 z tb2, rev (b :: newtl) = tb1 ++ z :: tb2 -> forall y, In y tb2 -> b_id z < b_id y) ->
    (forall pre bad post, rev (b :: newtl) = pre ++ bad :: post -> forallb b_valid pre = true ->
        b_valid bad = false ->
        forall y, In y pre -> b_id y <= last_id (core ps) \/ b_id y <= 2 * gp_of c) ->
    exists ps' ok, validate_p c ps (hashes (b :: newtl)) (hashes oldb) = Ok (ps', ok)
      /\ ring_empty (core ps') = ring_empty (core ps)
      /\ ok = (gt_count_valid (core ps) (b_prev b) (b_gt b) && forallb b_valid (b :: newtl))
      /\ (ok = true -> exists lcs' lcp',
            PInvS ps' lcs' lcp' x /\ lcs' ++ lcp' = (b :: newtl) ++ common ++ lcp
            /\ (exists r0, lcs' = b :: r0)
            /\ (last_id (core ps) < b_id b ->
                  last_id (core ps') = b_id b /\ last_hash (core ps') = b_hash b)
            /\ (forall h y, sget (blocks (core ps')) h = Some y -> sget (blocks (core ps)) h = Some y)
            /\ (forall h y, sget (blocks (core ps)) h = Some y -> b_id b < b_id y + 2 * gp_of c ->
                  sget (blocks (core ps')) h = Some y))
      /\ (ok = false ->
            PInvS ps' (oldb ++ common) lcp x
            /\ same_store (blocks (core ps)) (blocks (core ps'))
            /\ last_id (core ps') = last_id (core ps) /\ last_hash (core ps') = last_hash (core ps)
            /\ gid ps' = gid ps).
  Proof.
    intros HI Hla1 Hla2 Hst Hl Hcm Hinc Hnl.
    set (newb := b :: newtl) in *.
    destruct (sget_get _ _ _ (Hst b (or_introl eq_refl))) as (f & G).
    unfold validate_p. change (hashes newb) with (b_hash b :: hashes newtl). cbv iota beta.
    rewrite G. cbn [s_b]. change (b_hash b :: hashes newtl) with (hashes newb).
    set (ps0 := lift (fun st => set_steps st 0) ps).
    pose proof (PInvS_steps _ _ _ _ 0 HI) as HI0. fold ps0 in HI0.
    assert (S0 : same_store (blocks (core ps)) (blocks (core ps0))) by apply same_store_refl.
    rewrite <- (gt_count_valid_same (core ps) (core ps0) _ _ S0).
    destruct (gt_count_valid (core ps) (b_prev b) (b_gt b)) eqn:Egt; cbn [negb andb].
    2:{ exists ps0, false. split; [reflexivity|]. split; [reflexivity|]. split; [reflexivity|].
        split; [discriminate|]. intros _. split; [exact HI0|]. split; [exact S0|]. repeat split. }
    destruct (unwind_all_p_ok oldb ps0 common lcp x HI0) as (ps1 & E1 & HI1 & S1 & R1 & L1 & H1 & G1).
    { destruct Hcm as [?|[? _]]; auto. }
    rewrite E1. cbn [bind]. rewrite rev_hashes.
    assert (Ll : last_id (core ps1) = last_id (core ps)) by (rewrite L1; reflexivity).
    destruct (wind_list_p_ok (rev newb) ps1 common lcp [] x HI1) as
      (ps2 & r & E2 & R2 & tbw & lcs2 & lcp2 & D2 & HI2 & Eapp2 & Hhd2 & LF2 & Lm2 & Lb2 & T1 & T2 & T3).
    { intros y Hy. rewrite <- S1. apply Hst. now apply in_rev. }
    { now apply linked_dn_up. }
    { destruct Hcm as [?|(_ & Hn & Hp & Ho)]; [now left|]. right; right. split; [exact Hp|].
      exists b. unfold newb. rewrite Hn. split; [reflexivity|].
      intros h sb Gs. pose proof (get_sget _ _ _ Gs) as Ss. rewrite <- S1 in Ss.
      destruct (sget_get _ _ _ Ss) as (f' & G'). exact (Ho h _ G'). }
    { exact Hinc. }
    rewrite E2. cbn [bind].
    destruct D2 as [(A1 & -> & ->)|(bad & tb2 & A1 & A2 & A3 & ->)].
    - (* every block of the candidate wound *)
      rewrite forallb_rev in A1. rewrite rev_involutive in Eapp2, Hhd2.
      exists (lift (fun st => set_steps st (Nlen (hashes oldb) + Nlen (hashes newb))) ps2), true.
      split; [reflexivity|]. split; [cbn [lift core set_steps ring_empty]; rewrite R2, R1; reflexivity|].
      split; [now rewrite A1|]. split; [|discriminate]. intros _.
      exists lcs2, lcp2. split; [now apply PInvS_steps|]. split; [exact Eapp2|].
      assert (Er0 : exists r0, lcs2 = b :: r0).
      { destruct lcs2 as [|t r0]; cbn [hd_error newb app] in Hhd2; [discriminate|].
        injection Hhd2 as ->. eauto. }
      split; [exact Er0|]. cbn [lift core set_steps last_id last_hash].
      split.
      { intros Hlt.
        assert (Hids : forall y, In y newtl -> b_id y < b_id b).
        { intros y Hy. destruct HI2 as [[W2 _] _]. pose proof (p_chain _ _ _ _ _ _ W2) as Hc2.
          rewrite Eapp2 in Hc2. apply (chain_id_lt_p c U b _ HU Hc2). apply in_app_iff. now left. }
        destruct LF2 as [LF1' LF2'].
        assert (Hle : last_id (core ps2) <= b_id b).
        { apply LF1'; [lia|]. intros y Hy. apply in_rev in Hy. destruct Hy as [<-|Hy]; [lia|].
          specialize (Hids y Hy). lia. }
        assert (Hge : b_id b <= last_id (core ps2)) by (apply Lb2; apply -> in_rev; now left).
        destruct LF2' as [[F1 F2]|(y & Hy & F1 & F2)]; [lia|].
        apply in_rev in Hy. destruct Hy as [<-|Hy]; [auto|]. specialize (Hids y Hy). lia. }
      split.
      { intros h y Hs. apply (eq_trans (S1 h)). apply T1. exact Hs. }
      intros h y Hs Hlt. apply T2; [now rewrite <- S1|].
      intros z Hz. apply in_rev in Hz. destruct Hz as [<-|Hz]; [exact Hlt|].
      assert (b_id z < b_id b); [|lia].
      destruct HI2 as [[W2 _] _]. pose proof (p_chain _ _ _ _ _ _ W2) as Hc2.
      rewrite Eapp2 in Hc2. apply (chain_id_lt_p c U b _ HU Hc2). apply in_app_iff. now left.
    - (* the candidate fails at [bad]; nothing above the window was wound *)
      assert (Hf : forallb b_valid newb = false).
      { rewrite <- forallb_rev, A1. now apply forallb_app_false. }
      rewrite Hf. rewrite app_nil_r, rev_hashes.
      assert (Hpre : forall z, In z tbw -> b_id z <= last_id (core ps1) \/ b_id z <= 2 * gp_of c).
      { intros z Hz. rewrite Ll. apply (Hnl tbw bad tb2 A1 A2 A3 z Hz). }
      destruct (T3 Hpre) as (-> & -> & SS2).
      assert (Htbw : common = [] -> tbw = []).
      { intros Hc0. destruct Hcm as [?|(_ & Hn & _)]; [contradiction|].
        unfold newb in A1. rewrite Hn in A1. cbn [rev app] in A1.
        destruct tbw as [|? tbw]; [reflexivity|]. destruct tbw; discriminate. }
      destruct (unwind_all_p_ok (rev tbw) ps2 common lcp x HI2) as (ps3 & E3 & HI3 & S3 & R3 & L3 & H3 & G3).
      { destruct common; [right; now rewrite Htbw|left; discriminate]. }
      rewrite E3. cbn [bind].
      assert (S03 : same_store (blocks (core ps)) (blocks (core ps3))).
      { eapply same_store_trans; [exact S1|]. eapply same_store_trans; [exact SS2|exact S3]. }
      (* the last-block bookkeeping moved at most inside the no-purge zone *)
      assert (Hlb : last_id (core ps) <= last_id (core ps3)
                    /\ (last_id (core ps3) = last_id (core ps) \/ last_id (core ps3) <= 2 * gp_of c)).
      { rewrite L3. split; [lia|]. destruct LF2 as [LF1' _].
        destruct (N.le_gt_cases (last_id (core ps2)) (last_id (core ps))) as [?|Hgt]; [left; lia|right].
        destruct (N.le_gt_cases (last_id (core ps)) (2 * gp_of c)) as [Hsm|Hbig].
        - apply LF1'; [lia|]. intros y Hy. destruct (Hpre y Hy); lia.
        - exfalso. assert (last_id (core ps2) <= last_id (core ps)); [|lia].
          apply LF1'; [lia|]. intros y Hy. destruct (Hpre y Hy); lia. }
      assert (Hgf : gfun (last_id (core ps3)) = gfun (last_id (core ps))).
      { destruct Hlb as [Hlb1 [->|Hlb2]]; [reflexivity|]. unfold gfun.
        destruct (N.leb_spec (2 * gp_of c + 1) (last_id (core ps3))); [lia|].
        destruct (N.leb_spec (2 * gp_of c + 1) (last_id (core ps))); [lia|reflexivity]. }
      pose proof HI as [[W Wn] Hg].
      (* rebuilding the window facts of the original state on a state with the same stored blocks *)
      assert (Hwin : forall ps', same_store (blocks (core ps)) (blocks (core ps')) ->
                 PWin c (core ps') (oldb ++ common) lcp (last_id (core ps))).
      { intros ps' Hss. destruct Wn as [N1 N2 N3]. split; auto.
        intros h sb Gs. pose proof (get_sget _ _ _ Gs) as Ss. rewrite <- Hss in Ss.
        destruct (sget_get _ _ _ Ss) as (f' & G'). apply (N1 _ _ G'). }
      destruct oldb as [|o oldb'].
      + cbn [hashes map app] in *.
        destruct (resync_p_ok ps3 common lcp x HI3) as (ps4 & E4 & B1 & B2 & B3 & B4 & B5 & B6 & B7).
        rewrite E4. cbn [bind].
        assert (Hl4 : last_id (core ps4) = last_id (core ps) /\ last_hash (core ps4) = last_hash (core ps)).
        { destruct common as [|t l'].
          - destruct B7 as [-> ->]. rewrite L3, H3. rewrite (Htbw eq_refl) in LF2.
            destruct LF2 as [_ [[F1 F2]|(y & [] & _)]]. rewrite F1, F2, L1, H1. split; reflexivity.
          - destruct B7 as [-> ->]. cbn [tip_id tip_hash] in Hla1, Hla2. auto. }
        destruct Hl4 as [Hl4 Hh4].
        eexists (lift (fun st => set_steps st _) ps4), false. split; [reflexivity|].
        split; [cbn [lift core set_steps ring_empty]; rewrite B5, R3, R2, R1; reflexivity|].
        split; [reflexivity|]. split; [discriminate|]. intros _.
        assert (S04 : same_store (blocks (core ps)) (blocks (core ps4))) by (rewrite B1; exact S03).
        split.
        { apply PInvS_steps. destruct HI3 as [[W3 _] Hg3]. split; [split|].
          - eapply PCore_ext; [..|exact W3]; assumption.
          - rewrite Hl4. apply (Hwin ps4 S04).
          - rewrite B6, Hl4, G3. destruct HI2 as [_ Hg2]. rewrite Hg2, <- L3. exact Hgf. }
        split; [exact S04|]. cbn [lift core set_steps last_id last_hash gid].
        split; [exact Hl4|]. split; [exact Hh4|].
        rewrite B6, G3. destruct HI2 as [_ Hg2]. rewrite Hg2, <- L3, Hgf. now symmetry.
      + set (oldb := o :: oldb') in *.
        assert (Hcne : common <> []) by (destruct Hcm as [?|[? _]]; [assumption|discriminate]).
        change (hashes oldb) with (b_hash o :: hashes oldb') at 4. cbv iota beta.
        change (b_hash o :: hashes oldb') with (hashes oldb). rewrite rev_hashes.
        destruct (wind_list_p_ok (rev oldb) ps3 common lcp [] x HI3) as
          (ps4 & r4 & E4 & R4 & tbw4 & lcs4 & lcp4 & D4 & HI4 & Eapp4 & Hhd4 & LF4 & Lm4 & Lb4 & U1 & U2 & U3).
        { intros y Hy. rewrite <- S03. eapply pc_sget; [exact W|]. apply in_app_iff. left. now apply in_rev. }
        { apply linked_dn_up, chain_ok_linked_dn. rewrite app_assoc. apply (p_chain _ _ _ _ _ _ W). }
        { now left. }
        { apply (chain_rev_inc oldb (common ++ lcp)). rewrite app_assoc. apply (p_chain _ _ _ _ _ _ W). }
        rewrite E4. cbn [bind fst snd].
        assert (Hvo : forallb b_valid (rev oldb) = true).
        { apply forallb_forall. intros y Hy. apply in_rev in Hy.
          eapply chain_ok_valid; [apply (p_chain _ _ _ _ _ _ W)|]. apply in_app_iff. left.
          apply in_app_iff. now left. }
        destruct D4 as [(B1 & -> & ->)|(bad' & tc2 & B1 & B2 & B3 & _)].
        2:{ exfalso. rewrite B1 in Hvo. rewrite (forallb_app_false _ _ _ _ B3) in Hvo. discriminate. }
        destruct U3 as (-> & -> & SS4).
        { intros z Hz. left. apply in_rev in Hz.
          pose proof (p_tip _ _ _ _ _ Wn z (proj2 (in_app_iff _ _ _) (or_introl Hz))). lia. }
        rewrite rev_involutive in HI4.
        destruct (resync_p_ok ps4 (oldb ++ common) lcp x HI4) as (ps5 & E5 & C1 & C2 & C3 & C4 & C5 & C6 & C7).
        rewrite E5. cbn [bind].
        assert (Hl5 : last_id (core ps5) = last_id (core ps) /\ last_hash (core ps5) = last_hash (core ps)).
        { unfold oldb in C7. cbn [app] in C7. unfold oldb in Hla1, Hla2. cbn [app tip_id tip_hash] in Hla1, Hla2.
          destruct C7 as [-> ->]. auto. }
        destruct Hl5 as [Hl5 Hh5].
        assert (S05 : same_store (blocks (core ps)) (blocks (core ps5))).
        { rewrite C1. eapply same_store_trans; [exact S03|exact SS4]. }
        (* gid: nothing moved outside the no-purge zone *)
        assert (Hg4 : gid ps4 = gid ps).
        { destruct HI4 as [_ Hg4]. rewrite Hg4, Hg.
          assert (last_id (core ps4) = last_id (core ps3)).
          { destruct LF4 as [LF1' _]. apply N.le_antisymm; [|exact Lm4].
            apply LF1'; [lia|]. intros y Hy. apply in_rev in Hy.
            pose proof (p_tip _ _ _ _ _ Wn y (proj2 (in_app_iff _ _ _) (or_introl Hy))). lia. }
          rewrite H. exact Hgf. }
        eexists (lift (fun st => set_steps st _) ps5), false. split; [reflexivity|].
        split; [cbn [lift core set_steps ring_empty]; rewrite C5, R4, R3, R2, R1; reflexivity|].
        split; [reflexivity|]. split; [discriminate|]. intros _.
        split.
        { apply PInvS_steps. destruct HI4 as [[W4 _] _]. split; [split|].
          - eapply PCore_ext; [..|exact W4]; assumption.
          - rewrite Hl5. apply (Hwin ps5 S05).
          - rewrite C6, Hl5, Hg4. exact Hg. }
        split; [exact S05|]. cbn [lift core set_steps last_id last_hash gid].
        split; [exact Hl5|]. split; [exact Hh5|]. now rewrite C6.
  Qed.
End PWind.
