(* Invariant of model/ChainPurge.v and its preservation by unwind, wind (with the
   purge of update_genesis_period), unwind_all, wind_list_p, validate_p. *)
From Saito Require Import Base Chain ChainPurge ChainBasics ChainInv ChainWind PurgeInv.

(* [lcs]: the stored part of the longest chain, tip first; [lcp]: its purged part
   (ghost), so that lcs ++ lcp is the whole chain down to its root.
   [x]: hash of a block in flight (stored, maybe flagged, not yet wound); 0 = none. *)
Definition lc_outs (l : list blk) (k : N) : Prop := exists b, In b l /\ In k (blk_outs b).

Record PCore (c : cfg) (U : list blk) (st : state) (lcs lcp : list blk) (x : N) : Prop := {
  p_store : store_ok U (blocks st);
  p_chain : chain_ok U (lcs ++ lcp);
  p_lc : forall b, In b lcs -> get_block st (b_hash b) = Some (mkSB b true);
  p_gone : forall b, In b lcp -> get_block st (b_hash b) = None;
  p_flags : forall h sb, get_block st h = Some sb -> s_lc sb = true -> In h (hashes lcs) \/ h = x;
  p_sorted : usorted (utxo st);
  (* the ledger: nothing that the replay of the whole chain does not hold, and
     everything of it that was created by a stored chain block *)
  p_ua : forall k, In k (utxo st) -> In k (replay (lcs ++ lcp));
  p_ub : forall k, In k (replay (lcs ++ lcp)) -> lc_outs lcs k -> In k (utxo st);
  p_ring : ring_ok c (blocks st) (ring st) (ring_lc st) lcs
}.

(* the stored blocks lie in the window (L - 2gp, ..), the chain part in (L - 2gp, L] *)
Record PWin (c : cfg) (st : state) (lcs lcp : list blk) (L : N) : Prop := {
  p_win : forall h sb, get_block st h = Some sb -> L < b_id (s_b sb) + 2 * gp_of c;
  p_tip : forall y, In y lcs -> b_id y <= L;
  p_low : forall y, In y lcp -> b_id y + 2 * gp_of c <= L
}.

Definition PInv (c : cfg) (U : list blk) (st : state) (lcs lcp : list blk) (x : N) : Prop :=
  PCore c U st lcs lcp x /\ PWin c st lcs lcp (last_id st).

Lemma PCore_ext c U st st' lcs lcp x :
  blocks st' = blocks st -> ring st' = ring st -> ring_lc st' = ring_lc st -> utxo st' = utxo st ->
  PCore c U st lcs lcp x -> PCore c U st' lcs lcp x.
Proof.
  intros E1 E2 E3 E4 [H1 H2 H3 H4 H5 H6 H7 H8 H9].
  split; unfold get_block in *; rewrite ?E1, ?E2, ?E3, ?E4; assumption.
Qed.

Lemma PWin_ext c st st' lcs lcp L : blocks st' = blocks st -> PWin c st lcs lcp L -> PWin c st' lcs lcp L.
Proof. intros E [H1 H2 H3]. split; unfold get_block in *; rewrite ?E; assumption. Qed.

Lemma chain_ok_before c U l1 z l2 : puniv c U -> chain_ok U (l1 ++ z :: l2) ->
  forall a, In a l2 -> b_id a < b_id z.
Proof. intros HU Hc. apply (chain_id_lt_p c U z l2 HU). eapply chain_ok_app_r; eauto. Qed.

(* membership in the set left by Block::delete *)
Lemma delete_tx_sorted u tx : usorted u -> usorted (delete_tx u tx).
Proof. intros; unfold delete_tx. now apply fold_udel_sorted, fold_udel_sorted. Qed.

Lemma In_delete_tx k u tx : usorted u ->
  (In k (delete_tx u tx) <-> In k u /\ ~ In k (fst tx) /\ ~ In k (snd tx)).
Proof.
  intros Hs. unfold delete_tx. rewrite In_fold_udel by now apply fold_udel_sorted.
  rewrite In_fold_udel by assumption. tauto.
Qed.

Lemma delete_utxo_sorted u b : usorted u -> usorted (delete_utxo u b).
Proof.
  unfold delete_utxo. generalize (b_txs b) as txs. intros txs; revert u.
  induction txs as [|tx txs IH]; intros u Hs; cbn [fold_left]; [assumption|].
  apply IH, delete_tx_sorted, Hs.
Qed.

Lemma In_delete_utxo k u b : usorted u ->
  (In k (delete_utxo u b) <-> In k u /\ ~ In k (blk_ins b) /\ ~ In k (blk_outs b)).
Proof.
  unfold delete_utxo, blk_ins, blk_outs. generalize (b_txs b) as txs. intros txs; revert u.
  induction txs as [|tx txs IH]; intros u Hs; cbn [fold_left map concat].
  - cbn [In]. tauto.
  - rewrite IH by now apply delete_tx_sorted. rewrite (In_delete_tx _ _ _ Hs), !in_app_iff. tauto.
Qed.

Section PWind.
  Variables (c : cfg) (U : list blk).
  Hypothesis HU : puniv c U.
  Hypothesis HWF : valid_wf U.

  Lemma pc_in st lcs lcp x : PCore c U st lcs lcp x -> forall b, In b (lcs ++ lcp) -> In b U.
  Proof. intros W. apply chain_ok_in, (p_chain _ _ _ _ _ _ W). Qed.

  Lemma pc_sget st lcs lcp x : PCore c U st lcs lcp x ->
    forall b, In b lcs -> sget (blocks st) (b_hash b) = Some b.
  Proof. intros W b Hb. apply (get_sget st _ _ (p_lc _ _ _ _ _ _ W b Hb)). Qed.

  Lemma pc_inj st lcs lcp x : PCore c U st lcs lcp x ->
    forall a b, In a lcs -> In b lcs -> b_id a = b_id b -> a = b.
  Proof.
    intros W a b Ha Hb. apply (chain_ids_inj_p c U _ HU (p_chain _ _ _ _ _ _ W)); apply in_app_iff; now left.
  Qed.

  Lemma pc_stored_in st lcs lcp x h sb : PCore c U st lcs lcp x -> get_block st h = Some sb ->
    b_hash (s_b sb) = h /\ In (s_b sb) U.
  Proof. intros W H. apply (proj2 (p_store _ _ _ _ _ _ W)). now apply get_sget. Qed.

  Lemma pi_window st lcs lcp x L : PCore c U st lcs lcp x -> PWin c st lcs lcp L -> in_window c lcs.
  Proof.
    intros W Wn a b Ha Hb. pose proof (p_tip _ _ _ _ _ Wn a Ha).
    pose proof (p_win _ _ _ _ _ Wn _ _ (p_lc _ _ _ _ _ _ W b Hb)). cbn [s_b] in *. lia.
  Qed.

  Lemma latest_id_spec_p st lcs lcp x L : PCore c U st lcs lcp x -> PWin c st lcs lcp L ->
    latest_id st = Ok (tip_id lcs).
  Proof.
    intros W Wn. unfold latest_id.
    rewrite (latest_entry_spec_p c U HU st lcs (p_store _ _ _ _ _ _ W) (p_ring _ _ _ _ _ _ W)
               (pc_sget _ _ _ _ W) (pc_inj _ _ _ _ W) (pi_window _ _ _ _ _ W Wn)).
    now destruct lcs.
  Qed.

  Lemma latest_hash_spec_p st lcs lcp x L : PCore c U st lcs lcp x -> PWin c st lcs lcp L ->
    latest_hash st = Ok (tip_hash lcs).
  Proof.
    intros W Wn. unfold latest_hash.
    rewrite (latest_entry_spec_p c U HU st lcs (p_store _ _ _ _ _ _ W) (p_ring _ _ _ _ _ _ W)
               (pc_sget _ _ _ _ W) (pc_inj _ _ _ _ W) (pi_window _ _ _ _ _ W Wn)).
    now destruct lcs.
  Qed.

  (* ---------------- unwind one block ---------------- *)
  Lemma unwind_block_eq_p st t p rest lcp x L :
    PCore c U st (t :: p :: rest) lcp x -> PWin c st (t :: p :: rest) lcp L ->
    unwind_block c st t = Ok (unwound c st t p).
  Proof.
    intros W Wn.
    pose proof (p_lc _ _ _ _ _ _ W t (or_introl eq_refl)) as Gt.
    unfold unwind_block, set_lc_flag, get_block, set_utxo. cbn [blocks].
    unfold get_block in Gt. rewrite Gt. cbn [s_b].
    match goal with |- context [ring_reorg c ?s _ _ _] => set (st2 := s) end.
    assert (Hss : same_store (blocks st) (blocks st2)).
    { unfold st2, set_blocks; cbn [blocks]. apply (same_store_flag _ _ _ false Gt). }
    assert (Hso : store_ok U (blocks st2)).
    { eapply store_ok_same; [|exact Hss|apply (p_store _ _ _ _ _ _ W)].
      unfold st2, set_blocks; cbn [blocks]. apply aset_sorted, (p_store _ _ _ _ _ _ W). }
    pose proof (p_chain _ _ _ _ _ _ W) as Hc. cbn [app] in Hc.
    assert (Hid : b_id t = b_id p + 1).
    { destruct Hc as (Ht & _ & Hl & Hc'). destruct Hc' as (Hp & _).
      apply (pu_link _ _ HU _ _ Ht Hp Hl). }
    rewrite (ring_reorg_false_tip_p c U HU st2 t p rest); try assumption.
    - cbn [bind]. rewrite bc_reorg_false. reflexivity.
    - unfold st2 at 2 3, set_blocks; cbn [ring ring_lc].
      eapply ring_ok_same; [exact Hss|apply (p_ring _ _ _ _ _ _ W)].
    - intros b Hb. rewrite <- Hss. eapply pc_sget; eauto.
    - eapply pc_inj; eauto.
    - eapply pi_window; eauto.
  Qed.

  Lemma unwound_core st t p rest lcp x L :
    PCore c U st (t :: p :: rest) lcp x -> PWin c st (t :: p :: rest) lcp L ->
    PCore c U (unwound c st t p) (p :: rest) lcp x.
  Proof.
    intros W Wn.
    pose proof (p_lc _ _ _ _ _ _ W t (or_introl eq_refl)) as Gt. unfold get_block in Gt.
    pose proof (p_chain _ _ _ _ _ _ W) as Hc. cbn [app] in Hc.
    assert (Hnt : forall b, In b ((p :: rest) ++ lcp) -> b_hash b <> b_hash t).
    { intros b Hb E. pose proof (chain_id_lt_p c U t _ HU Hc b Hb) as Hlt.
      assert (b = t); [|subst; lia].
      eapply hash_inj_p; eauto; apply (chain_ok_in _ _ Hc); [now right|now left]. }
    assert (Hss : same_store (blocks st) (aset (b_hash t) (mkSB t false) (blocks st))).
    { apply (same_store_flag _ _ _ false Gt). }
    assert (Hg : forall h, get_block (unwound c st t p) h =
                   if h =? b_hash t then Some (mkSB t false) else get_block st h).
    { intros h. unfold get_block, unwound; cbn [blocks]. apply aget_aset. }
    pose proof (HWF _ _ Hc) as (Wi & Wo & Wd).
    set (l := (p :: rest) ++ lcp) in *.
    assert (Hrep : forall k, In k (replay (t :: l)) <-> In k (blk_outs t) \/ (In k (replay l) /\ ~ In k (blk_ins t))).
    { intros k. change (replay (t :: l)) with (apply_block (replay l) t).
      apply In_apply_block; [apply replay_sorted|exact Wd]. }
    assert (Hun : forall k, In k (undo_block (utxo st) t) <->
                            (In k (utxo st) \/ In k (blk_ins t)) /\ ~ In k (blk_outs t)).
    { intros k. apply In_undo_block; [apply (p_sorted _ _ _ _ _ _ W)|exact Wd]. }
    split.
    - unfold unwound; cbn [blocks]. eapply store_ok_same; [|exact Hss|apply (p_store _ _ _ _ _ _ W)].
      apply aset_sorted, (p_store _ _ _ _ _ _ W).
    - eapply chain_ok_tail; eauto.
    - intros b Hb. rewrite Hg. destruct (N.eqb_spec (b_hash b) (b_hash t)) as [E|_].
      + exfalso. apply (Hnt b); [|exact E]. apply in_app_iff. now left.
      + apply (p_lc _ _ _ _ _ _ W). now right.
    - intros b Hb. rewrite Hg. destruct (N.eqb_spec (b_hash b) (b_hash t)) as [E|_].
      + exfalso. apply (Hnt b); [|exact E]. apply in_app_iff. now right.
      + now apply (p_gone _ _ _ _ _ _ W).
    - intros h sb. rewrite Hg. destruct (N.eqb_spec h (b_hash t)) as [->|Hne].
      + intros [= <-]. cbn [s_lc]. discriminate.
      + intros G F. destruct (p_flags _ _ _ _ _ _ W h sb G F) as [[E|Hi]|E]; auto. congruence.
    - unfold unwound; cbn [utxo]. apply undo_block_sorted, (p_sorted _ _ _ _ _ _ W).
    - unfold unwound; cbn [utxo]. intros k Hk. apply Hun in Hk as [[Hk|Hk] Hno].
      + pose proof (p_ua _ _ _ _ _ _ W k Hk) as Hr. cbn [app] in Hr. fold l in Hr.
        apply Hrep in Hr as [?|[? _]]; [contradiction|assumption].
      + now apply Wi.
    - unfold unwound; cbn [utxo]. intros k Hk (b0 & Hb0 & Ho). apply Hun.
      destruct (in_dec N.eq_dec k (blk_ins t)) as [Hi|Hni].
      + split; [now right|]. exact (Wd k Hi).
      + split; [|intros Ho'; exact (Wo k Ho' Hk)]. left.
        apply (p_ub _ _ _ _ _ _ W); [|exists b0; split; [now right|assumption]].
        cbn [app]. fold l. apply Hrep. right. auto.
    - unfold unwound; cbn [blocks ring ring_lc].
      eapply ring_ok_same; [exact Hss|].
      eapply (ring_unmark_ok_p c U HU); eauto.
      + apply (p_ring _ _ _ _ _ _ W).
      + eapply pc_sget; eauto.
      + intros y Hy. apply (chain_id_lt_p c U t l HU Hc). unfold l. apply in_app_iff. now left.
      + eapply pi_window; eauto.
  Qed.

  Lemma unwound_win st t p rest lcp L f :
    get_block st (b_hash t) = Some (mkSB t f) ->
    PWin c st (t :: p :: rest) lcp L -> PWin c (unwound c st t p) (p :: rest) lcp L.
  Proof.
    intros Gt [H1 H2 H3]. split; auto.
    - intros h sb. unfold get_block, unwound; cbn [blocks]. rewrite aget_aset.
      destruct (N.eqb_spec h (b_hash t)) as [->|_]; [|apply H1].
      intros [= <-]. cbn [s_b]. apply (H1 _ _ Gt).
    - intros y Hy. apply H2. now right.
  Qed.

  (* ---------------- wind one block: ring, ledger, flag (before the bookkeeping) ---------------- *)
  Definition wmid (st : state) (b : blk) : state :=
    mkSt (aset (b_hash b) (mkSB b true) (blocks st)) (ring_mark c (ring st) (b_id b) (b_hash b))
         (Some (slot c (b_id b))) (ring_empty st) (apply_block (utxo st) b)
         (last_id st) (last_hash st) (wsteps st).

  Lemma wind_block_p_eq ps b f : get_block (core ps) (b_hash b) = Some (mkSB b f) ->
    wind_block_p c ps b = bc_reorg_p c (mkP (wmid (core ps) b) (gid ps)) b true.
  Proof.
    intros G. unfold wind_block_p. rewrite ring_reorg_true. cbn [bind].
    unfold set_lc_flag, get_block, set_utxo, set_ring. cbn [blocks utxo].
    unfold get_block in G. rewrite G. reflexivity.
  Qed.

  Lemma wmid_same st b f : get_block st (b_hash b) = Some (mkSB b f) ->
    same_store (blocks st) (blocks (wmid st b)).
  Proof. intros G. unfold wmid; cbn [blocks]. apply (same_store_flag _ _ _ true G). Qed.

  Lemma wmid_core st b f rest lcp x :
    PCore c U st rest lcp x -> get_block st (b_hash b) = Some (mkSB b f) -> b_valid b = true ->
    link_to U b (rest ++ lcp) -> PCore c U (wmid st b) (b :: rest) lcp x.
  Proof.
    intros W G Hv Hl.
    pose proof (pc_stored_in _ _ _ _ _ _ W G) as [_ HbU]. cbn [s_b] in HbU.
    pose proof (wmid_same _ _ _ G) as Hss.
    unfold get_block in G.
    assert (Hg : forall h, get_block (wmid st b) h = if h =? b_hash b then Some (mkSB b true) else get_block st h).
    { intros h. unfold get_block, wmid; cbn [blocks]. apply aget_aset. }
    assert (Hc : chain_ok U (b :: rest ++ lcp)).
    { cbn [chain_ok]. repeat split; auto. apply (p_chain _ _ _ _ _ _ W). }
    pose proof (HWF _ _ Hc) as (Wi & Wo & Wd).
    set (l := rest ++ lcp) in *.
    assert (Hrep : forall k, In k (replay (b :: l)) <-> In k (blk_outs b) \/ (In k (replay l) /\ ~ In k (blk_ins b))).
    { intros k. change (replay (b :: l)) with (apply_block (replay l) b).
      apply In_apply_block; [apply replay_sorted|exact Wd]. }
    assert (Hap : forall k, In k (apply_block (utxo st) b) <->
                            In k (blk_outs b) \/ (In k (utxo st) /\ ~ In k (blk_ins b))).
    { intros k. apply In_apply_block; [apply (p_sorted _ _ _ _ _ _ W)|exact Wd]. }
    split.
    - eapply store_ok_same; [|exact Hss|apply (p_store _ _ _ _ _ _ W)].
      unfold wmid; cbn [blocks]. apply aset_sorted, (p_store _ _ _ _ _ _ W).
    - exact Hc.
    - intros y Hy. rewrite Hg. destruct (N.eqb_spec (b_hash y) (b_hash b)) as [E|Hne].
      + f_equal. f_equal. symmetry. eapply hash_inj_p; eauto.
        destruct Hy as [<-|Hy]; [assumption|]. eapply pc_in; eauto. apply in_app_iff. now left.
      + destruct Hy as [<-|Hy]; [congruence|]. now apply (p_lc _ _ _ _ _ _ W).
    - intros y Hy. rewrite Hg. destruct (N.eqb_spec (b_hash y) (b_hash b)) as [E|_].
      + pose proof (p_gone _ _ _ _ _ _ W y Hy) as Gy. unfold get_block in Gy. rewrite E in Gy. congruence.
      + now apply (p_gone _ _ _ _ _ _ W).
    - intros h sb. rewrite Hg. cbn [hashes map In]. destruct (N.eqb_spec h (b_hash b)) as [->|Hne]; [auto|].
      intros G' F. destruct (p_flags _ _ _ _ _ _ W h sb G' F); auto.
    - unfold wmid; cbn [utxo]. apply apply_block_sorted, (p_sorted _ _ _ _ _ _ W).
    - unfold wmid; cbn [utxo app]. fold l. intros k Hk. apply Hrep. apply Hap in Hk as [?|[Hk Hn]]; [now left|].
      right. split; [|exact Hn]. apply (p_ua _ _ _ _ _ _ W k Hk).
    - unfold wmid; cbn [utxo app]. fold l. intros k Hk (b0 & Hb0 & Ho). apply Hap.
      apply Hrep in Hk as [?|[Hk Hn]]; [now left|].
      destruct Hb0 as [<-|Hb0]; [now left|]. right. split; [|exact Hn].
      apply (p_ub _ _ _ _ _ _ W k Hk). exists b0. auto.
    - unfold wmid; cbn [blocks ring ring_lc]. eapply ring_ok_same; [exact Hss|].
      apply (ring_mark_ok_p c U HU _ _ (ring_lc st)); [apply (p_ring _ _ _ _ _ _ W)|].
      unfold sget. now rewrite G.
  Qed.

  (* ---------------- delete_blocks ---------------- *)
  Definition hmem (h : N) (hs : list N) : bool := existsb (N.eqb h) hs.

  Lemma hmem_In h hs : hmem h hs = true <-> In h hs.
  Proof.
    unfold hmem. rewrite existsb_exists. split.
    - intros (y & Hy & E). apply N.eqb_eq in E. now subst.
    - intros H. exists h. split; [exact H|apply N.eqb_refl].
  Qed.

  Lemma delete_blocks_ok d keep hs : forall st,
    store_ok U (blocks st) -> usorted (utxo st) ->
    ring_ok c (blocks st) (ring st) (ring_lc st) keep ->
    NoDup hs ->
    (forall h, In h hs -> exists sb, get_block st h = Some sb /\ b_id (s_b sb) = d) ->
    (forall y, In y keep -> sget (blocks st) (b_hash y) = Some y /\ b_id y <> d) ->
    exists st', delete_blocks c st d hs = Ok st'
      /\ store_ok U (blocks st') /\ usorted (utxo st')
      /\ ring_ok c (blocks st') (ring st') (ring_lc st') keep
      /\ (forall h, get_block st' h = if hmem h hs then None else get_block st h)
      /\ (forall k, In k (utxo st') -> In k (utxo st))
      /\ (forall k, In k (utxo st) ->
            (forall h sb, In h hs -> get_block st h = Some sb ->
                          ~ In k (blk_ins (s_b sb)) /\ ~ In k (blk_outs (s_b sb))) ->
            In k (utxo st'))
      /\ ring_lc st' = ring_lc st /\ ring_empty st' = ring_empty st
      /\ last_id st' = last_id st /\ last_hash st' = last_hash st /\ wsteps st' = wsteps st.
  Proof.
    induction hs as [|h t IH]; intros st Hso Hus Hr Hnd Hall Hkeep; cbn [delete_blocks].
    - exists st. split; [reflexivity|]. split; [exact Hso|]. split; [exact Hus|]. split; [exact Hr|].
      split; [intros h; reflexivity|]. split; [auto|]. split; [auto|]. repeat split.
    - destruct (Hall h (or_introl eq_refl)) as (sb & G & Ed).
      apply NoDup_cons_iff in Hnd as [Hnt Hnd'].
      unfold delete_block. rewrite G. cbn [bind].
      set (st1 := set_blocks _ _).
      pose proof (proj2 Hso _ _ (get_sget _ _ _ G)) as [Eh HqU].
      assert (Hg1 : forall h', get_block st1 h' = if h' =? h then None else get_block st h').
      { intros h'. unfold get_block, st1, set_blocks, set_ring, set_utxo; cbn [blocks].
        apply aget_adel, Hso. }
      assert (Hs1 : forall h', sget (blocks st1) h' = if h' =? h then None else sget (blocks st) h').
      { intros h'. unfold st1, set_blocks, set_ring, set_utxo; cbn [blocks]. apply sget_adel, Hso. }
      assert (Hso1 : store_ok U (blocks st1)).
      { split; [unfold st1, set_blocks, set_ring, set_utxo; cbn [blocks]; apply adel_sorted, Hso|].
        intros h' y. rewrite Hs1. destruct (h' =? h); [discriminate|]. apply (proj2 Hso). }
      assert (Hr1 : ring_ok c (blocks st1) (ring st1) (ring_lc st1) keep).
      { unfold st1, set_blocks, set_ring, set_utxo; cbn [blocks ring ring_lc].
        rewrite <- Eh, <- Ed.
        apply (ring_delete_ok_p c U HU); auto.
        - rewrite Eh. apply (get_sget _ _ _ G).
        - rewrite Eh. intros Hi. apply in_hashes in Hi as (y & Hy & Ey).
          destruct (Hkeep y Hy) as [Sy Ny]. rewrite Ey, (get_sget _ _ _ G) in Sy.
          injection Sy as Sy. apply Ny. now rewrite <- Sy. }
      assert (Hus1 : usorted (utxo st1)).
      { unfold st1, set_blocks, set_ring, set_utxo; cbn [utxo]. now apply delete_utxo_sorted. }
      destruct (IH st1 Hso1 Hus1 Hr1 Hnd') as
        (st' & E' & A1 & A2 & A3 & A4 & A5 & A6 & A7 & A8 & A9 & A10 & A11).
      { intros h' Hh'. rewrite Hg1. destruct (N.eqb_spec h' h) as [->|_]; [contradiction|].
        apply Hall. now right. }
      { intros y Hy. destruct (Hkeep y Hy) as [Sy Ny]. split; [|exact Ny]. rewrite Hs1.
        destruct (N.eqb_spec (b_hash y) h) as [E|_]; [|exact Sy].
        exfalso. rewrite E, (get_sget _ _ _ G) in Sy. injection Sy as Sy. apply Ny. now rewrite <- Sy. }
      exists st'. split; [exact E'|]. split; [exact A1|]. split; [exact A2|]. split; [exact A3|].
      assert (Hu1 : forall k, In k (utxo st1) <->
                 In k (utxo st) /\ ~ In k (blk_ins (s_b sb)) /\ ~ In k (blk_outs (s_b sb))).
      { intros k. unfold st1, set_blocks, set_ring, set_utxo; cbn [utxo]. now apply In_delete_utxo. }
      split.
      { intros h'. rewrite A4, Hg1. cbn [hmem existsb]. fold (hmem h' t).
        destruct (h' =? h); cbn [orb]; [now destruct (hmem h' t)|reflexivity]. }
      split; [intros k Hk; apply A5 in Hk; now apply Hu1 in Hk|].
      split.
      { intros k Hk Hno. apply A6.
        - apply Hu1. split; [exact Hk|]. apply (Hno h sb (or_introl eq_refl) G).
        - intros h' sb' Hh' G'. rewrite Hg1 in G'. destruct (h' =? h); [discriminate|].
          apply (Hno h' sb' (or_intror Hh') G'). }
      repeat split; [rewrite A7|rewrite A8|rewrite A9|rewrite A10|rewrite A11]; reflexivity.
  Qed.

  (* ---------------- wind one block, including the purge ---------------- *)
  Lemma exists_last_or_nil {A} (l : list A) : l = [] \/ exists l' a, l = l' ++ [a].
  Proof.
    destruct l as [|x l]; [now left|right].
    destruct (@exists_last _ (x :: l)) as (l' & a & E); [discriminate|eauto].
  Qed.

  Lemma rest_shape rest lcp b d :
    chain_ok U (b :: rest ++ lcp) ->
    (forall z, In z rest -> d <= b_id z) ->
    exists rest0 ys, rest = rest0 ++ ys /\ (forall z, In z rest0 -> d < b_id z)
                     /\ (ys = [] \/ exists y, ys = [y] /\ b_id y = d).
  Proof.
    intros Hc Hge. destruct (exists_last_or_nil rest) as [->|(r' & y & ->)].
    - exists [], []. split; [reflexivity|]. split; [intros z []|now left].
    - destruct (N.eq_dec (b_id y) d) as [E|Hne].
      + exists r', [y]. split; [reflexivity|]. split; [|right; eauto].
        intros z Hz. destruct (in_split _ _ Hz) as (l1 & l2 & ->).
        assert (Hlt : b_id y < b_id z).
        { apply (chain_ok_before c U (b :: l1) z (l2 ++ [y] ++ lcp) HU).
          - cbn [app]. rewrite <- !app_assoc in Hc. cbn [app] in Hc. rewrite <- app_assoc. exact Hc.
          - apply in_app_iff. right. now left. }
        lia.
      + exists (r' ++ [y]), []. split; [now rewrite app_nil_r|]. split; [|now left].
        intros z Hz. apply in_app_iff in Hz as [Hz|[<-|[]]].
        * destruct (in_split _ _ Hz) as (l1 & l2 & ->).
          assert (Hlt : b_id y < b_id z).
          { apply (chain_ok_before c U (b :: l1) z (l2 ++ [y] ++ lcp) HU).
            - cbn [app]. rewrite <- !app_assoc in Hc. cbn [app] in Hc. rewrite <- app_assoc. exact Hc.
            - apply in_app_iff. right. now left. }
          assert (d <= b_id y) by (apply Hge, in_app_iff; right; now left). lia.
        * assert (d <= b_id y) by (apply Hge, in_app_iff; right; now left). lia.
  Qed.

  Definition only_block (st : state) (b : blk) : Prop :=
    forall h sb, get_block st h = Some sb -> h = b_hash b.

  Lemma wind_p_ok ps b f rest lcp x :
    PInv c U (core ps) rest lcp x -> get_block (core ps) (b_hash b) = Some (mkSB b f) ->
    b_valid b = true -> link_to U b (rest ++ lcp) ->
    (rest <> [] \/ (lcp = [] /\ only_block (core ps) b)) ->
    exists ps' lcs' lcp',
      wind_block_p c ps b = Ok ps'
      /\ PInv c U (core ps') lcs' lcp' x
      /\ lcs' ++ lcp' = (b :: rest) ++ lcp /\ (exists r0, lcs' = b :: r0)
      /\ (forall h y, sget (blocks (core ps')) h = Some y -> sget (blocks (core ps)) h = Some y)
      /\ (forall h y, sget (blocks (core ps)) h = Some y -> b_id b < b_id y + 2 * gp_of c ->
                      sget (blocks (core ps')) h = Some y)
      /\ ring_empty (core ps') = ring_empty (core ps) /\ wsteps (core ps') = wsteps (core ps)
      /\ (b_id b <= last_id (core ps) ->
            last_id (core ps') = last_id (core ps) /\ last_hash (core ps') = last_hash (core ps))
      /\ (last_id (core ps) < b_id b ->
            last_id (core ps') = b_id b /\ last_hash (core ps') = b_hash b
            /\ gid ps' = if 2 * gp_of c + 1 <=? b_id b then b_id b - gp_of c else gid ps)
      /\ (b_id b <= last_id (core ps) \/ b_id b <= 2 * gp_of c ->
            lcs' = b :: rest /\ lcp' = lcp /\ gid ps' = gid ps
            /\ same_store (blocks (core ps)) (blocks (core ps'))).
  Proof.
    intros [W Wn] G Hv Hl Hfirst.
    set (st := core ps) in *.
    pose proof (pu_gp _ _ HU) as Hgp.
    pose proof (pc_stored_in _ _ _ _ _ _ W G) as [_ HbU]. cbn [s_b] in HbU.
    rewrite (wind_block_p_eq _ _ _ G). fold st.
    pose proof (wmid_core _ _ _ _ _ _ W G Hv Hl) as W1.
    pose proof (wmid_same _ _ _ G) as Hss.
    assert (Hgm : forall h, get_block (wmid st b) h = if h =? b_hash b then Some (mkSB b true) else get_block st h).
    { intros h. unfold get_block, wmid; cbn [blocks]. apply aget_aset. }
    assert (Hwm : forall h sb, get_block (wmid st b) h = Some sb -> last_id st < b_id (s_b sb) + 2 * gp_of c).
    { intros h sb. rewrite Hgm. destruct (h =? b_hash b).
      - intros [= <-]. cbn [s_b]. apply (p_win _ _ _ _ _ Wn _ _ G).
      - apply (p_win _ _ _ _ _ Wn). }
    assert (Hidb : rest <> [] -> b_id b <= last_id st + 1).
    { intros Hne. destruct rest as [|t rest']; [contradiction|]. cbn [app link_to] in Hl.
      assert (HtU : In t U) by (eapply pc_in; [exact W|]; now left).
      pose proof (pu_link _ _ HU b t HbU HtU Hl). pose proof (p_tip _ _ _ _ _ Wn t (or_introl eq_refl)). lia. }
    unfold bc_reorg_p. cbn [core gid]. change (last_id (wmid st b)) with (last_id st).
    destruct (N.leb_spec (b_id b) (last_id st)) as [Hle|Hgt].
    { (* not beyond the last block: no bookkeeping *)
      exists (mkP (wmid st b) (gid ps)), (b :: rest), lcp. cbn [core gid].
      split; [reflexivity|]. split.
      { split; [exact W1|]. change (last_id (wmid st b)) with (last_id st). split.
        - exact Hwm.
        - intros y [<-|Hy]; [exact Hle|apply (p_tip _ _ _ _ _ Wn y Hy)].
        - apply (p_low _ _ _ _ _ Wn). }
      split; [reflexivity|]. split; [eauto|].
      split; [intros h y; now rewrite <- Hss|]. split; [intros h y Hs _; now rewrite <- Hss|].
      split; [reflexivity|]. split; [reflexivity|]. split; [intros _; split; reflexivity|].
      split; [intros; lia|]. intros _. repeat split; auto. }
    (* beyond: last block set, update_genesis *)
    set (st1 := mkSt (blocks (wmid st b)) (ring (wmid st b)) (ring_lc (wmid st b)) (ring_empty (wmid st b))
                     (utxo (wmid st b)) (b_id b) (b_hash b) (wsteps (wmid st b))).
    assert (W1' : PCore c U st1 (b :: rest) lcp x) by (eapply PCore_ext; [..|exact W1]; reflexivity).
    assert (Hlat : latest_id st1 = Ok (b_id b)).
    { unfold latest_id, latest_entry, st1. cbn [ring_lc ring wmid].
      destruct (ring_mark_entry c U HU _ _ (ring_lc st) rest b (p_ring _ _ _ _ _ _ W)) as (q & Hq1 & Hq2).
      { unfold sget. unfold get_block in G. now rewrite G. }
      now rewrite Hq1, Hq2. }
    unfold update_genesis. cbn [core gid]. fold st1. rewrite Hlat. cbn [bind].
    destruct (N.leb_spec (2 * gp_of c + 1) (b_id b)) as [Hpg|Hnp].
    2:{ (* still below 2gp + 1: nothing to purge *)
      exists (mkP st1 (gid ps)), (b :: rest), lcp. cbn [core gid].
      split; [reflexivity|]. split.
      { split; [exact W1'|]. unfold st1 at 2. cbn [last_id]. split.
        - intros h sb Gs. apply pc_stored_in with (lcs := b :: rest) (lcp := lcp) (x := x) in Gs as [_ HsU]; [|exact W1'].
          pose proof (pu_id _ _ HU _ HsU). lia.
        - intros y [<-|Hy]; [lia|]. pose proof (p_tip _ _ _ _ _ Wn y Hy). lia.
        - intros y Hy. pose proof (p_low _ _ _ _ _ Wn y Hy). lia. }
      split; [reflexivity|]. split; [eauto|].
      split; [intros h y; unfold st1; cbn [blocks]; now rewrite <- Hss|].
      split; [intros h y Hs _; unfold st1; cbn [blocks]; now rewrite <- Hss|].
      split; [reflexivity|]. split; [reflexivity|]. split; [intros; lia|].
      split; [intros _; unfold st1; cbn [last_id last_hash]; repeat split|].
      intros _. repeat split; auto. }
    (* purge of the blocks 2 gp below *)
    set (d := b_id b - 2 * gp_of c).
    replace (0 <? d) with true by (symmetry; apply N.ltb_lt; unfold d; lia).
    assert (Hge : forall z, In z rest -> d <= b_id z).
    { intros z Hz. assert (Hne : rest <> []) by (intros ->; contradiction).
      specialize (Hidb Hne). pose proof (p_win _ _ _ _ _ Wn _ _ (p_lc _ _ _ _ _ _ W z Hz)) as Hwz.
      cbn [s_b] in Hwz. unfold d. lia. }
    destruct (rest_shape rest lcp b d (p_chain _ _ _ _ _ _ W1') Hge) as (rest0 & ys & Er & Hr0 & Hys).
    set (keep := b :: rest0).
    assert (Hring1 : ring_ok c (blocks st1) (ring st1) (ring_lc st1) keep).
    { pose proof (p_ring _ _ _ _ _ _ W1') as Hr. rewrite Er in Hr.
      destruct Hys as [->|(y & -> & Ey)]; [now rewrite app_nil_r in Hr|].
      change (b :: rest0 ++ [y]) with ((b :: rest0) ++ [y]) in Hr.
      apply (ring_ok_drop c U HU _ _ _ _ y Hr); [discriminate| |].
      - eapply pc_sget; [exact W1'|]. rewrite Er. right. apply in_app_iff. right. now left.
      - intros q e Hq He.
        assert (Hsl : slot c (b_id y) = slot c (b_id b)).
        { unfold slot. f_equal. rewrite Ey. unfold d.
          replace (b_id b) with (b_id b - 2 * gp_of c + 1 * (2 * gp_of c)) at 2 by lia.
          rewrite N.mod_add by lia. reflexivity. }
        rewrite Hsl in Hq, He. unfold st1 in Hq, He. cbn [ring wmid] in Hq, He.
        destruct (ring_mark_entry c U HU _ _ (ring_lc st) rest b (p_ring _ _ _ _ _ _ W)) as (q' & Hq1 & Hq2).
        { unfold sget. unfold get_block in G. now rewrite G. }
        rewrite Hq1 in Hq. injection Hq as <-. rewrite Hq2 in He. injection He as <-. cbn [fst].
        intros Eh. assert (y = b); [|subst y; unfold d in Ey; lia].
        eapply hash_inj_p; eauto. eapply pc_in; [exact W1'|]. rewrite Er. right.
        apply in_app_iff. left. apply in_app_iff. right. now left. }
    set (hs := hashes_at c (ring st1) d).
    assert (Hslot : (slot c d < nslots c)%nat) by (apply slot_lt; lia).
    assert (Hhs : forall h, In h hs <-> exists y, sget (blocks st1) h = Some y /\ b_id y = d).
    { intros h. unfold hs, hashes_at. rewrite in_map_iff. split.
      - intros (e & <- & He). apply filter_In in He as [He Ed]. apply N.eqb_eq in Ed.
        destruct (r_sound _ _ _ _ _ (p_ring _ _ _ _ _ _ W1') _ e Hslot He) as (y & Hy & Ei & _).
        exists y. split; [exact Hy|congruence].
      - intros (y & Hy & Ei). exists (h, d). split; [reflexivity|]. apply filter_In. cbn [snd].
        split; [|apply N.eqb_refl]. rewrite <- Ei. apply (r_complete _ _ _ _ _ (p_ring _ _ _ _ _ _ W1') h y Hy). }
    destruct (delete_blocks_ok d keep hs st1 (p_store _ _ _ _ _ _ W1') (p_sorted _ _ _ _ _ _ W1') Hring1) as
      (st' & E' & A1 & A2 & A3 & A4 & A5 & A6 & A7 & A8 & A9 & A10 & A11).
    { unfold hs, hashes_at. apply NoDup_map_filter. apply (r_nodup _ _ _ _ _ (p_ring _ _ _ _ _ _ W1') _ Hslot). }
    { intros h Hh. apply Hhs in Hh as (y & Hy & Ei). destruct (sget_get _ _ _ Hy) as (fy & Gy).
      exists (mkSB y fy). auto. }
    { intros y Hy. split.
      - eapply pc_sget; [exact W1'|]. destruct Hy as [<-|Hy]; [now left|]. right. rewrite Er.
        apply in_app_iff. now left.
      - destruct Hy as [<-|Hy]; [unfold d; lia|]. specialize (Hr0 y Hy). lia. }
    fold hs. rewrite E'. cbn [bind].
    assert (Hmem : forall h, hmem h hs = true <-> exists y, sget (blocks st1) h = Some y /\ b_id y = d).
    { intros h. rewrite hmem_In. apply Hhs. }
    assert (Hsg : forall h, sget (blocks st') h = if hmem h hs then None else sget (blocks st1) h).
    { intros h. pose proof (A4 h) as E. unfold get_block in E. unfold sget. rewrite E.
      now destruct (hmem h hs). }
    assert (Hlcp' : chain_ok U (keep ++ ys ++ lcp)).
    { unfold keep. cbn [app]. rewrite app_assoc, <- Er. apply (p_chain _ _ _ _ _ _ W1'). }
    exists (mkP st' (b_id b - gp_of c)), keep, (ys ++ lcp). cbn [core gid].
    split; [reflexivity|]. split.
    { split.
      - split.
        + exact A1.
        + exact Hlcp'.
        + intros y Hy. rewrite A4.
          destruct (hmem (b_hash y) hs) eqn:Em.
          * exfalso. apply Hmem in Em as (y' & Hy' & Ei).
            assert (Sy : sget (blocks st1) (b_hash y) = Some y).
            { eapply pc_sget; [exact W1'|]. destruct Hy as [<-|Hy]; [now left|]. right. rewrite Er.
              apply in_app_iff. now left. }
            rewrite Sy in Hy'. injection Hy' as <-.
            destruct Hy as [<-|Hy]; [unfold d in Ei; lia|]. specialize (Hr0 y Hy). lia.
          * apply (p_lc _ _ _ _ _ _ W1'). destruct Hy as [<-|Hy]; [now left|]. right. rewrite Er.
            apply in_app_iff. now left.
        + intros y Hy. rewrite A4. destruct (hmem (b_hash y) hs) eqn:Em; [reflexivity|].
          apply in_app_iff in Hy as [Hy|Hy]; [|now apply (p_gone _ _ _ _ _ _ W1')].
          exfalso. destruct Hys as [->|(y0 & -> & Ey)]; [contradiction|]. destruct Hy as [<-|[]].
          assert (hmem (b_hash y0) hs = true); [|congruence].
          apply Hmem. exists y0. split; [|exact Ey]. eapply pc_sget; [exact W1'|]. rewrite Er. right.
          apply in_app_iff. right. now left.
        + intros h sb. rewrite A4. destruct (hmem h hs) eqn:Em; [discriminate|].
          intros Gs F. destruct (p_flags _ _ _ _ _ _ W1' h sb Gs F) as [Hi|Hx]; [|now right]. left.
          rewrite Er in Hi. change (b :: rest0 ++ ys) with (keep ++ ys) in Hi.
          unfold hashes in Hi. rewrite map_app in Hi. apply in_app_iff in Hi as [Hi|Hi]; [exact Hi|].
          exfalso. destruct Hys as [->|(y0 & -> & Ey)]; [contradiction|]. destruct Hi as [<-|[]].
          assert (hmem (b_hash y0) hs = true); [|congruence].
          apply Hmem. exists y0. split; [|exact Ey]. eapply pc_sget; [exact W1'|]. rewrite Er. right.
          apply in_app_iff. right. now left.
        + exact A2.
        + intros k Hk. apply A5 in Hk. apply (p_ua _ _ _ _ _ _ W1') in Hk.
          unfold keep. cbn [app]. rewrite app_assoc, <- Er. exact Hk.
        + intros k Hk (b0 & Hb0 & Ho). apply A6.
          * apply (p_ub _ _ _ _ _ _ W1').
            -- unfold keep in Hk. cbn [app] in Hk. rewrite app_assoc, <- Er in Hk. exact Hk.
            -- exists b0. split; [|exact Ho]. destruct Hb0 as [<-|Hb0]; [now left|]. right. rewrite Er.
               apply in_app_iff. now left.
          * intros h sb Hh Gs.
            assert (Hb0U : In b0 U).
            { apply (chain_ok_in _ _ Hlcp'). apply in_app_iff. now left. }
            assert (Hb0d : d < b_id b0) by (destruct Hb0 as [<-|Hb0]; [unfold d; lia|auto]).
            apply Hhs in Hh as (y & Hy & Ei). rewrite (get_sget _ _ _ Gs) in Hy. injection Hy as Hy.
            destruct (proj2 (p_store _ _ _ _ _ _ W1') _ _ (get_sget _ _ _ Gs)) as [_ HsU].
            rewrite Hy in *. split; intros Hi.
            -- pose proof (pu_spend_older _ _ HU y b0 k HsU Hb0U Hi Ho). lia.
            -- pose proof (pu_key_id _ _ HU y b0 k HsU Hb0U Hi Ho). lia.
        + rewrite A7. exact A3.
      - rewrite A9. unfold st1 at 1. cbn [last_id]. split.
        + intros h sb. rewrite A4. destruct (hmem h hs) eqn:Em; [discriminate|]. intros Gs.
          assert (Hnd : b_id (s_b sb) <> d).
          { intros Ei. assert (hmem h hs = true); [|congruence]. apply Hmem. exists (s_b sb).
            split; [apply (get_sget _ _ _ Gs)|exact Ei]. }
          destruct Hfirst as [Hne|[_ Honly]].
          * specialize (Hidb Hne). pose proof (Hwm h sb Gs). unfold d in Hnd. lia.
          * assert (h = b_hash b).
            { unfold st1, get_block in Gs. cbn [blocks] in Gs. fold (get_block (wmid st b) h) in Gs.
              rewrite Hgm in Gs. destruct (N.eqb_spec h (b_hash b)); [assumption|]. eapply Honly; eauto. }
            subst h. unfold st1, get_block in Gs. cbn [blocks] in Gs. fold (get_block (wmid st b) (b_hash b)) in Gs.
            rewrite Hgm, N.eqb_refl in Gs. injection Gs as <-. cbn [s_b]. lia.
        + intros y [<-|Hy]; [lia|].
          assert (In y rest) by (rewrite Er; apply in_app_iff; now left).
          pose proof (p_tip _ _ _ _ _ Wn y H). lia.
        + intros y Hy. apply in_app_iff in Hy as [Hy|Hy].
          * destruct Hys as [->|(y0 & -> & Ey)]; [contradiction|]. destruct Hy as [<-|[]]. unfold d in Ey. lia.
          * pose proof (p_low _ _ _ _ _ Wn y Hy). lia. }
    split; [unfold keep; cbn [app]; now rewrite app_assoc, <- Er|]. split; [unfold keep; eauto|].
    split.
    { intros h y. rewrite Hsg. destruct (hmem h hs); [discriminate|]. unfold st1; cbn [blocks]. now rewrite <- Hss. }
    split.
    { intros h y Hs Hlt. rewrite Hsg. destruct (hmem h hs) eqn:Em.
      - exfalso. apply Hmem in Em as (y' & Hy' & Ei). unfold st1 in Hy'; cbn [blocks] in Hy'.
        rewrite <- Hss, Hs in Hy'. injection Hy' as <-. unfold d in Ei. lia.
      - unfold st1; cbn [blocks]. now rewrite <- Hss. }
    split; [rewrite A8; reflexivity|]. split; [rewrite A11; reflexivity|].
    split; [intros; lia|]. split.
    { intros _. rewrite A9, A10. unfold st1; cbn [last_id last_hash].
      replace (2 * gp_of c + 1 <=? b_id b) with true by (symmetry; apply N.leb_le; lia). repeat split. }
    intros [?|?]; lia.
  Qed.
End PWind.
