(* C08 — proofs about model/Routing.v *)
From Saito Require Import Base BurnFee Routing.

Local Open Scope N_scope.

(* ---------------------------------------------------------------- *)
(* generate_total_work                                               *)

Definition halve (w : N) : N := w - w / 2.

Fixpoint contiguous (p : list hop) : bool :=
  match p with
  | h1 :: t => match t with
               | h2 :: _ => (h_from h2 =? h_to h1) && contiguous t
               | [] => true
               end
  | [] => true
  end.

Lemma halve_le : forall w, halve w <= w.
Proof. intros. unfold halve. lia. Qed.

Lemma work_loop_le : forall rest prev w, work_loop prev rest w <= w.
Proof.
  induction rest as [|h t IH]; intros prev w; cbn [work_loop]; [lia|].
  destruct (h_from h =? h_to prev); [|lia].
  specialize (IH h (w - w / 2)). lia.
Qed.

Theorem total_work_le_fees : forall creator tx, total_work creator tx <= t_fees tx.
Proof.
  intros c tx. unfold total_work. destruct (t_path tx) as [|h0 rest]; [lia|].
  destruct (_ =? c); [apply work_loop_le|lia].
Qed.

Lemma last_to_last : forall rest h0 d, last_to rest (h_to h0) = h_to (last (h0 :: rest) d).
Proof.
  induction rest as [|h t IH]; intros h0 d; [reflexivity|].
  cbn [last_to]. rewrite (IH h d). reflexivity.
Qed.

Theorem work_zero_if_no_path : forall creator tx, t_path tx = [] -> total_work creator tx = 0.
Proof. intros c tx H. unfold total_work. rewrite H. reflexivity. Qed.

Theorem work_zero_if_not_to_creator : forall creator tx d,
  h_to (last (t_path tx) d) <> creator -> total_work creator tx = 0.
Proof.
  intros c tx d H. unfold total_work. destruct (t_path tx) as [|h0 rest]; [reflexivity|].
  rewrite (last_to_last rest h0 d).
  destruct (N.eqb_spec (h_to (last (h0 :: rest) d)) c); [contradiction|reflexivity].
Qed.

Lemma work_loop_broken : forall rest prev w, contiguous (prev :: rest) = false -> work_loop prev rest w = 0.
Proof.
  induction rest as [|h t IH]; intros prev w H; [discriminate|].
  cbn [work_loop]. cbn [contiguous] in H.
  destruct (h_from h =? h_to prev); [|reflexivity].
  cbn [andb] in H. apply IH. exact H.
Qed.

Theorem work_zero_if_broken : forall creator tx,
  contiguous (t_path tx) = false -> total_work creator tx = 0.
Proof.
  intros c tx H. unfold total_work. destruct (t_path tx) as [|h0 rest]; [discriminate|].
  destruct (_ =? c); [|reflexivity]. apply work_loop_broken, H.
Qed.

Fixpoint iter_halve (n : nat) (w : N) : N :=
  match n with O => w | S k => iter_halve k (halve w) end.

Lemma work_loop_exact : forall rest prev w, contiguous (prev :: rest) = true ->
  work_loop prev rest w = iter_halve (length rest) w.
Proof.
  induction rest as [|h t IH]; intros prev w H; [reflexivity|].
  cbn [work_loop length iter_halve]. cbn [contiguous] in H.
  apply Bool.andb_true_iff in H. destruct H as [H1 H2]. rewrite H1.
  apply IH. exact H2.
Qed.

(* the work a transaction delivers to the creator is exactly: fees halved once
   per hop after the first, provided the path is non-empty, contiguous and ends
   at the creator; otherwise nothing *)
Theorem total_work_exact : forall creator tx d,
  t_path tx <> [] -> h_to (last (t_path tx) d) = creator -> contiguous (t_path tx) = true ->
  total_work creator tx = iter_halve (pred (length (t_path tx))) (t_fees tx).
Proof.
  intros c tx d Hne Hl Hc. unfold total_work. destruct (t_path tx) as [|h0 rest]; [contradiction|].
  rewrite (last_to_last rest h0 d), Hl, N.eqb_refl. cbn [length pred].
  apply work_loop_exact, Hc.
Qed.

Theorem total_work_positive : forall creator tx d,
  0 < total_work creator tx ->
  t_path tx <> [] /\ h_to (last (t_path tx) d) = creator /\ contiguous (t_path tx) = true /\ 0 < t_fees tx.
Proof.
  intros c tx d H.
  assert (Hne : t_path tx <> []).
  { intros E. rewrite (work_zero_if_no_path c tx E) in H. lia. }
  assert (Hl : h_to (last (t_path tx) d) = c).
  { destruct (N.eq_dec (h_to (last (t_path tx) d)) c) as [E|E]; [exact E|].
    rewrite (work_zero_if_not_to_creator c tx d E) in H. lia. }
  assert (Hc : contiguous (t_path tx) = true).
  { destruct (contiguous (t_path tx)) eqn:E; [reflexivity|].
    rewrite (work_zero_if_broken c tx E) in H. lia. }
  pose proof (total_work_le_fees c tx). repeat split; try assumption. lia.
Qed.

Lemma block_total_work_acc : forall creator txs a,
  fold_left (fun acc tx => acc + total_work creator tx) txs a
  = a + fold_left (fun acc tx => acc + total_work creator tx) txs 0.
Proof.
  induction txs as [|t r IH]; intros a; cbn [fold_left]; [lia|].
  rewrite (IH (a + _)), (IH (0 + _)). lia.
Qed.

Theorem block_total_work_le_fees : forall creator txs,
  block_total_work creator txs <= fold_right (fun tx acc => t_fees tx + acc) 0 txs.
Proof.
  intros c txs. unfold block_total_work.
  induction txs as [|t r IH]; cbn [fold_left fold_right]; [lia|].
  rewrite block_total_work_acc. pose proof (total_work_le_fees c t). lia.
Qed.

(* ---------------------------------------------------------------- *)
(* validate_routing_path                                             *)

Lemma vrp_loop_sound : forall p prev, vrp_loop prev p = true ->
  (forall h, In h p -> h_sig_ok h = true /\ h_from h <> h_to h)
  /\ contiguous p = true
  /\ match prev, p with Some q, h :: _ => h_from h = h_to q | _, _ => True end.
Proof.
  induction p as [|h t IH]; intros prev H.
  - repeat split; try contradiction. destruct prev; exact I.
  - cbn [vrp_loop] in H.
    apply Bool.andb_true_iff in H. destruct H as [H H4].
    apply Bool.andb_true_iff in H. destruct H as [H H3].
    apply Bool.andb_true_iff in H. destruct H as [H1 H2].
    destruct (IH (Some h) H4) as (A & B & C).
    split; [|split].
    + intros h' [<-|Hin]; [|apply A, Hin]. split; [exact H1|].
      apply Bool.negb_true_iff in H2. apply N.eqb_neq in H2. exact H2.
    + cbn [contiguous]. destruct t as [|h2 t']; [reflexivity|].
      rewrite B. apply N.eqb_eq in C. rewrite C. reflexivity.
    + destruct prev; [|exact I]. apply N.eqb_eq. exact H3.
Qed.

Theorem validate_routing_path_sound : forall tx, validate_routing_path tx = true ->
  (forall h, In h (t_path tx) -> h_sig_ok h = true /\ h_from h <> h_to h)
  /\ contiguous (t_path tx) = true.
Proof.
  intros tx H. destruct (vrp_loop_sound _ _ H) as (A & B & _). split; assumption.
Qed.

Lemma vrp_loop_complete : forall p prev,
  (forall h, In h p -> h_sig_ok h = true /\ h_from h <> h_to h) ->
  contiguous p = true ->
  match prev, p with Some q, h :: _ => h_from h = h_to q | _, _ => True end ->
  vrp_loop prev p = true.
Proof.
  induction p as [|h t IH]; intros prev A B C; [reflexivity|].
  cbn [vrp_loop]. destruct (A h (or_introl eq_refl)) as [S D].
  rewrite S. apply N.eqb_neq in D. rewrite D. cbn [negb andb].
  assert (E : match prev with None => true | Some q => h_from h =? h_to q end = true).
  { destruct prev; [apply N.eqb_eq; exact C|reflexivity]. }
  rewrite E. cbn [andb]. apply IH.
  - intros h' Hin. apply A. right. exact Hin.
  - cbn [contiguous] in B. destruct t; [reflexivity|]. apply Bool.andb_true_iff in B. apply B.
  - cbn [contiguous] in B. destruct t; [exact I|]. apply Bool.andb_true_iff in B.
    destruct B as [B _]. apply N.eqb_eq. exact B.
Qed.

Theorem validate_routing_path_complete : forall tx,
  (forall h, In h (t_path tx) -> h_sig_ok h = true /\ h_from h <> h_to h) ->
  contiguous (t_path tx) = true -> validate_routing_path tx = true.
Proof. intros. apply vrp_loop_complete; auto. Qed.

(* ---------------------------------------------------------------- *)
(* get_winning_routing_node                                          *)

Lemma wbh_from_length : forall dbg rest agg this l,
  work_by_hop_from dbg rest agg this = Ok l -> length l = length rest.
Proof.
  induction rest as [|h t IH]; intros agg this l H; cbn [work_by_hop_from] in H.
  - injection H as <-. reflexivity.
  - destruct (dbg && _); [discriminate|].
    destruct (work_by_hop_from dbg t _ _) as [l'| |s] eqn:E; cbn [bind] in H; try discriminate.
    injection H as <-. cbn [length]. f_equal. eapply IH, E.
Qed.

Lemma wbh_length : forall dbg fees p l, p <> [] ->
  work_by_hop dbg fees p = Ok l -> length l = length p.
Proof.
  intros dbg fees p l Hp H. unfold work_by_hop in H.
  destruct (work_by_hop_from dbg (tl p) fees fees) as [l'| |s] eqn:E; cbn [bind] in H; try discriminate.
  injection H as <-. apply wbh_from_length in E. destruct p; [contradiction|].
  cbn [length tl] in *. lia.
Qed.

Lemma pick_in_path : forall wbh p win k, pick win wbh p = Ok k -> exists h, In h p /\ k = h_to h.
Proof.
  induction wbh as [|w wt IH]; intros p win k H; cbn [pick] in H; [discriminate|].
  destruct p as [|h pt]; [discriminate|].
  destruct (win <=? w).
  - injection H as <-. exists h. split; [left; reflexivity|reflexivity].
  - destruct (IH pt win k H) as (h' & Hin & E). exists h'. split; [right; exact Hin|exact E].
Qed.

Lemma pick_found : forall wbh p win, wbh <> [] -> length wbh = length p -> win <= last wbh 0 ->
  exists k, pick win wbh p = Ok k.
Proof.
  induction wbh as [|w wt IH]; intros p win Hne Hlen Hw; [contradiction|].
  destruct p as [|h pt]; [discriminate|]. cbn [pick].
  destruct (N.leb_spec win w); [eexists; reflexivity|].
  destruct wt as [|w2 wt'].
  - cbn [last] in Hw. lia.
  - apply IH; [discriminate|cbn [length] in *; lia|exact Hw].
Qed.

Lemma wbh_nonempty : forall dbg fees p l, work_by_hop dbg fees p = Ok l -> l <> [].
Proof.
  intros dbg fees p l H. unfold work_by_hop in H.
  destruct (work_by_hop_from dbg (tl p) fees fees); cbn [bind] in H; try discriminate.
  injection H as <-. discriminate.
Qed.

Lemma wbh_panic_site : forall dbg rest agg this s,
  work_by_hop_from dbg rest agg this = Panic s -> s = P_AGG_OVERFLOW /\ dbg = true.
Proof.
  induction rest as [|h t IH]; intros agg this s H; cbn [work_by_hop_from] in H; [discriminate|].
  destruct dbg; cbn [andb] in H.
  - destruct (two64 <=? _); [injection H as <-; auto|].
    destruct (work_by_hop_from true t _ _) eqn:E; cbn [bind] in H; try discriminate.
    injection H as <-. eapply IH, E.
  - destruct (work_by_hop_from false t _ _) eqn:E; cbn [bind] in H; try discriminate.
    injection H as <-. destruct (IH _ _ _ E). auto.
Qed.

(* the winner is the zero key, the sender of a path-less transaction, or the
   `to` of a hop of the path — never anybody else *)
Theorem winner_in_path : forall dbg tx x k,
  winning_routing_node dbg tx x = Ok k ->
  k = 0
  \/ (t_path tx = [] /\ t_from0 tx = Some k)
  \/ (exists h, In h (t_path tx) /\ k = h_to h).
Proof.
  intros dbg tx x k H. unfold winning_routing_node in H.
  destruct (t_path tx) as [|h0 rest] eqn:Ep.
  - injection H as <-. destruct (t_from0 tx); [right; left; auto|left; reflexivity].
  - destruct (t_fees tx =? 0); [injection H as <-; left; reflexivity|].
    destruct (work_by_hop dbg (t_fees tx) (h0 :: rest)) as [wbh| |s]; cbn [bind] in H; try discriminate.
    destruct (last wbh 0 =? 0); [discriminate|].
    right. right. eapply pick_in_path, H.
Qed.

(* the zero key is returned exactly in the documented cases *)
Theorem winner_zero_cases : forall dbg tx x,
  (t_path tx = [] -> winning_routing_node dbg tx x = Ok (match t_from0 tx with Some k => k | None => 0 end))
  /\ (t_path tx <> [] -> t_fees tx = 0 -> winning_routing_node dbg tx x = Ok 0).
Proof.
  intros dbg tx x. unfold winning_routing_node. split.
  - intros ->. reflexivity.
  - intros Hp Hf. destruct (t_path tx); [contradiction|]. rewrite Hf. reflexivity.
Qed.

(* the unreachable! at the end of get_winning_routing_node is unreachable, and
   so is an out-of-bounds path index — in both build profiles, even when the
   aggregate wraps around *)
Theorem winner_found : forall dbg tx x,
  winning_routing_node dbg tx x <> Panic P_UNREACHABLE
  /\ winning_routing_node dbg tx x <> Panic P_PATH_INDEX.
Proof.
  intros dbg tx x. unfold winning_routing_node.
  destruct (t_path tx) as [|h0 rest] eqn:Ep; [split; discriminate|].
  destruct (t_fees tx =? 0); [split; discriminate|].
  destruct (work_by_hop dbg (t_fees tx) (h0 :: rest)) as [wbh| |s] eqn:E; cbn [bind].
  - destruct (N.eqb_spec (last wbh 0) 0) as [Z|Z]; [split; discriminate|].
    destruct (pick_found wbh (h0 :: rest) ((x mod last wbh 0) mod two64)) as [k Hk].
    + eapply wbh_nonempty, E.
    + eapply wbh_length; [discriminate|exact E].
    + pose proof (N.mod_upper_bound x (last wbh 0) Z).
      pose proof (N.mod_le (x mod last wbh 0) two64). unfold two64 in *. lia.
    + rewrite Hk. split; discriminate.
  - split; discriminate.
  - unfold work_by_hop in E.
    destruct (work_by_hop_from dbg (tl (h0 :: rest)) (t_fees tx) (t_fees tx)) eqn:E2; cbn [bind] in E; try discriminate.
    injection E as <-. apply wbh_panic_site in E2. destruct E2 as [-> _].
    split; discriminate.
Qed.

(* no overflow and a positive divisor when 2·fees fits u64 *)
Lemma wbh_from_ok : forall dbg rest fees agg this,
  fees <= agg -> agg + this < two64 ->
  exists l, work_by_hop_from dbg rest agg this = Ok l /\ (forall w, In w l -> fees <= w).
Proof.
  induction rest as [|h t IH]; intros fees agg this Hf Hb; cbn [work_by_hop_from].
  - exists []. split; [reflexivity|contradiction].
  - assert (Hs : agg + this / 2 < two64) by lia.
    replace (two64 <=? agg + this / 2) with false by (symmetry; apply N.leb_gt; exact Hs).
    rewrite Bool.andb_false_r. rewrite (N.mod_small _ _ Hs).
    destruct (IH fees (agg + this / 2) (this / 2)) as (l & El & Hl); [lia|lia|].
    rewrite El. cbn [bind]. eexists. split; [reflexivity|].
    intros w [<-|Hin]; [lia|apply Hl, Hin].
Qed.

Lemma last_in : forall (l : list N) d, l <> [] -> In (last l d) l.
Proof.
  induction l as [|a t IH]; intros d H; [contradiction|].
  destruct t as [|b t']; [left; reflexivity|]. right. apply IH. discriminate.
Qed.

Theorem winner_no_panic : forall dbg tx x, 2 * t_fees tx < two64 ->
  exists k, winning_routing_node dbg tx x = Ok k.
Proof.
  intros dbg tx x Hf. unfold winning_routing_node.
  destruct (t_path tx) as [|h0 rest] eqn:Ep; [eexists; reflexivity|].
  destruct (N.eqb_spec (t_fees tx) 0) as [Z|Z]; [eexists; reflexivity|].
  unfold work_by_hop. cbn [tl].
  destruct (wbh_from_ok dbg rest (t_fees tx) (t_fees tx) (t_fees tx)) as (l & El & Hl); [lia|lia|].
  rewrite El. cbn [bind].
  assert (Hz : t_fees tx <= last (t_fees tx :: l) 0).
  { pose proof (last_in (t_fees tx :: l) 0) as Hin. destruct Hin as [E|Hin]; [discriminate|lia|].
    apply Hl, Hin. }
  destruct (N.eqb_spec (last (t_fees tx :: l) 0) 0) as [Z2|Z2]; [lia|].
  apply pick_found.
  - discriminate.
  - cbn [length]. f_equal. eapply wbh_from_length, El.
  - pose proof (N.mod_upper_bound x _ Z2).
    pose proof (N.mod_le (x mod last (t_fees tx :: l) 0) two64). unfold two64 in *. lia.
Qed.

(* ---------------------------------------------------------------- *)
(* find_winning_router                                               *)

Lemma first_reaching_spec : forall txs win t, first_reaching win txs = Some t -> In t txs /\ win <= b_cum t.
Proof.
  induction txs as [|a r IH]; intros win t H; cbn [first_reaching] in H; [discriminate|].
  destruct (N.leb_spec win (b_cum a)).
  - injection H as <-. split; [left; reflexivity|assumption].
  - destruct (IH win t H). split; [right|]; assumption.
Qed.

(* eligible payees of a block: hop targets and, for path-less transactions, the sender *)
Definition eligible_tx (k : N) (tx : rtx) : Prop :=
  (t_path tx = [] /\ t_from0 tx = Some k) \/ (exists h, In h (t_path tx) /\ k = h_to h).

Definition routed_tx (t : btx) : option rtx := if b_is_atr t then b_inner t else Some (b_tx t).

Theorem router_eligible : forall dbg fees txs x x2 k,
  find_winning_router dbg fees txs x x2 = Ok k ->
  k = 0 \/ exists t tx, In t txs /\ routed_tx t = Some tx /\ eligible_tx k tx.
Proof.
  intros dbg fees txs x x2 k H. unfold find_winning_router in H.
  destruct (fees =? 0); [injection H as <-; left; reflexivity|].
  destruct (first_reaching _ txs) as [t|] eqn:E; [|injection H as <-; left; reflexivity].
  apply first_reaching_spec in E. destruct E as [Hin _].
  unfold routed_tx, eligible_tx.
  destruct (b_is_atr t) eqn:Ea.
  - destruct (b_inner t) as [itx|] eqn:Ei; [|discriminate].
    destruct (winner_in_path _ _ _ _ H) as [Z|W]; [left; exact Z|].
    right. exists t, itx. rewrite Ea. auto.
  - destruct (b_cum t =? 0); [discriminate|].
    destruct (winner_in_path _ _ _ _ H) as [Z|W]; [left; exact Z|].
    right. exists t, (b_tx t). rewrite Ea. auto.
Qed.

(* the assert_ne! on cumulative fees can never fire *)
Theorem router_assert_unreachable : forall dbg fees txs x x2,
  find_winning_router dbg fees txs x x2 <> Panic P_ASSERT_CUM_FEES
  /\ find_winning_router dbg fees txs x x2 <> Panic P_UNREACHABLE.
Proof.
  intros dbg fees txs x x2. unfold find_winning_router.
  destruct (fees =? 0); [split; discriminate|].
  destruct (first_reaching _ txs) as [t|] eqn:E; [|split; discriminate].
  apply first_reaching_spec in E. destruct E as [_ Hc].
  destruct (b_is_atr t).
  - destruct (b_inner t); [|split; discriminate].
    pose proof (winner_found dbg r x2) as [A B]. split; [|exact A].
    unfold winning_routing_node.
    destruct (t_path r); [discriminate|]. destruct (t_fees r =? 0); [discriminate|].
    destruct (work_by_hop dbg (t_fees r) (h :: l)) as [wbh| |s] eqn:Ew; cbn [bind]; try discriminate.
    + destruct (last wbh 0 =? 0); [discriminate|].
      intros Hp. clear -Hp. revert Hp. generalize ((x2 mod last wbh 0) mod two64). generalize (h :: l).
      induction wbh as [|w wt IH]; intros p win; cbn [pick]; [discriminate|].
      destruct p; [discriminate|]. destruct (win <=? w); [discriminate|]. apply IH.
    + unfold work_by_hop in Ew.
      destruct (work_by_hop_from dbg (tl (h :: l)) (t_fees r) (t_fees r)) eqn:E2; cbn [bind] in Ew; try discriminate.
      injection Ew as <-. apply wbh_panic_site in E2. destruct E2 as [-> _]. discriminate.
  - destruct (N.eqb_spec (b_cum t) 0) as [Z|Z]; [lia|].
    pose proof (winner_found dbg (b_tx t) x2) as [A B]. split; [|exact A].
    unfold winning_routing_node.
    destruct (t_path (b_tx t)); [discriminate|]. destruct (t_fees (b_tx t) =? 0); [discriminate|].
    destruct (work_by_hop dbg _ (h :: l)) as [wbh| |s] eqn:Ew; cbn [bind]; try discriminate.
    + destruct (last wbh 0 =? 0); [discriminate|].
      intros Hp. clear -Hp. revert Hp. generalize ((x2 mod last wbh 0) mod two64). generalize (h :: l).
      induction wbh as [|w wt IH]; intros p win; cbn [pick]; [discriminate|].
      destruct p; [discriminate|]. destruct (win <=? w); [discriminate|]. apply IH.
    + unfold work_by_hop in Ew.
      destruct (work_by_hop_from dbg (tl (h :: l)) _ _) eqn:E2; cbn [bind] in Ew; try discriminate.
      injection Ew as <-. apply wbh_panic_site in E2. destruct E2 as [-> _]. discriminate.
Qed.

(* ---------------------------------------------------------------- *)
(* the gate                                                          *)

Theorem gate_sound : forall dbg tw bf ts prev hb,
  gate_passes dbg tw bf ts prev hb = Ok true ->
  exists needed, work_needed_r dbg bf ts prev hb = Ok needed /\ needed <= tw.
Proof.
  intros dbg tw bf ts prev hb H. unfold gate_passes in H.
  destruct (work_needed_r dbg bf ts prev hb) as [n| |s]; cbn [bind] in H; try discriminate.
  exists n. split; [reflexivity|]. injection H as H. apply Bool.negb_true_iff, N.ltb_ge in H. exact H.
Qed.

Theorem gate_complete : forall dbg tw bf ts prev hb needed,
  work_needed_r dbg bf ts prev hb = Ok needed -> needed <= tw ->
  gate_passes dbg tw bf ts prev hb = Ok true.
Proof.
  intros dbg tw bf ts prev hb n E H. unfold gate_passes. rewrite E. cbn [bind].
  f_equal. apply Bool.negb_true_iff, N.ltb_ge. exact H.
Qed.

(* ---------------------------------------------------------------- *)
(* payouts                                                           *)

Lemma capped_spec : forall e c, fst (capped e c) + snd (capped e c) = e /\ fst (capped e c) <= e.
Proof.
  intros e c. unfold capped. destruct (N.ltb_spec c e); cbn [fst snd]; lia.
Qed.

Definition payout_bound (prev : option prev_info) : N :=
  match prev with
  | None => 0
  | Some pv =>
      pv_fees pv +
      (if pv_has_gt pv then 0
       else match pv_pp pv with Some (f, _) => f - f / 2 | None => 0 end)
  end.

Definition payout_payee (miner : N) (prev : option prev_info) (k : N) : Prop :=
  match prev with
  | None => False
  | Some pv =>
      k = miner \/ k = pv_router pv
      \/ (pv_has_gt pv = false /\ exists f, pv_pp pv = Some (f, k))
  end.

Ltac capped_facts :=
  repeat match goal with
  | |- context [capped ?e ?c] =>
      let H := fresh "HC" in
      pose proof (capped_spec e c) as H;
      destruct (capped e c); cbn [fst snd] in H
  end.

Theorem payout_bounded : forall miner prev,
  slips_total (po_slips (payout_with_gt miner prev)) <= payout_bound prev.
Proof.
  intros miner [pv|]; [|cbn; lia].
  unfold payout_with_gt, payout_bound.
  destruct pv as [fees avg hasgt r1 pp]. cbn [pv_fees pv_avg pv_has_gt pv_router pv_pp].
  set (cap := payout_cap avg). clearbody cap.
  destruct hasgt; [|destruct pp as [[ppfees r2]|]]; capped_facts; cbv beta iota zeta;
    repeat match goal with |- context [if ?b then _ else _] => destruct b end;
    cbn [po_slips slips_total fold_right app fst snd]; lia.
Qed.

Theorem payout_eligible : forall miner prev k a kind,
  In (k, a, kind) (po_slips (payout_with_gt miner prev)) ->
  k <> 0 /\ 0 < a /\ payout_payee miner prev k.
Proof.
  intros miner [pv|] k a kind; [|cbn; contradiction].
  unfold payout_with_gt, payout_payee.
  destruct pv as [fees avg hasgt r1 pp]. cbn [pv_fees pv_avg pv_has_gt pv_router pv_pp].
  set (cap := payout_cap avg). clearbody cap.
  destruct (capped (fees / 2) cap) as [mp g1]. destruct (capped (fees - fees / 2) cap) as [r1p g2].
  assert (Hm : forall l, In (k, a, kind) ((if negb (miner =? 0) && (0 <? mp) then [(miner, mp, SLIP_MINER)] else []) ++ l) ->
               (k = miner /\ k <> 0 /\ 0 < a) \/ In (k, a, kind) l).
  { intros l Hin. destruct (N.eqb_spec miner 0); cbn [negb andb app] in Hin; [right; exact Hin|].
    destruct (N.ltb_spec 0 mp); cbn [app] in Hin; [|right; exact Hin].
    destruct Hin as [E|Hin]; [|right; exact Hin]. injection E as <- <- <-. left. auto. }
  assert (Hr : forall r rp g l, In (k, a, kind)
              (fst (if 0 <? rp then if negb (r =? 0) then ([(r, rp, SLIP_ROUTER)], 0) else ([], rp) else ([], g)) ++ l) ->
              (k = r /\ k <> 0 /\ 0 < a) \/ In (k, a, kind) l).
  { intros r rp g l Hin. destruct (N.ltb_spec 0 rp); [|right; exact Hin].
    destruct (N.eqb_spec r 0); cbn [negb fst app] in Hin; [right; exact Hin|].
    destruct Hin as [E|Hin]; [|right; exact Hin]. injection E as <- <- <-. left. auto. }
  destruct hasgt.
  - destruct (if 0 <? r1p then if negb (r1 =? 0) then ([(r1, r1p, SLIP_ROUTER)], 0) else ([], r1p) else ([], 0)) as [s1 g5] eqn:E1.
    cbn [N.ltb N.compare]. cbn [po_slips].
    intros Hin. apply Hm in Hin. destruct Hin as [(A & B & C)|Hin]; [auto|].
    replace s1 with (fst (if 0 <? r1p then if negb (r1 =? 0) then ([(r1, r1p, SLIP_ROUTER)], 0) else ([], r1p) else ([], 0))) in Hin
      by (rewrite E1; reflexivity).
    apply Hr in Hin. destruct Hin as [(A & B & C)|Hin]; [auto|]. contradiction.
  - destruct pp as [[ppfees r2]|].
    + destruct (capped (ppfees / 2) cap) as [tr g3]. destruct (capped (ppfees - ppfees / 2) cap) as [r2p g4].
      destruct (if 0 <? r1p then if negb (r1 =? 0) then ([(r1, r1p, SLIP_ROUTER)], 0) else ([], r1p) else ([], 0)) as [s1 g5] eqn:E1.
      destruct (if 0 <? r2p then if negb (r2 =? 0) then ([(r2, r2p, SLIP_ROUTER)], 0) else ([], r2p) else ([], 0)) as [s2 g6] eqn:E2.
      cbn [po_slips].
      intros Hin. apply Hm in Hin. destruct Hin as [(A & B & C)|Hin]; [auto|].
      replace s1 with (fst (if 0 <? r1p then if negb (r1 =? 0) then ([(r1, r1p, SLIP_ROUTER)], 0) else ([], r1p) else ([], 0))) in Hin
        by (rewrite E1; reflexivity).
      apply Hr in Hin. destruct Hin as [(A & B & C)|Hin]; [auto|].
      replace s2 with (fst (if 0 <? r2p then if negb (r2 =? 0) then ([(r2, r2p, SLIP_ROUTER)], 0) else ([], r2p) else ([], 0)) ++ []) in Hin
        by (rewrite E2, app_nil_r; reflexivity).
      apply Hr in Hin. destruct Hin as [(A & B & C)|Hin]; [|contradiction].
      repeat split; auto. right. right. split; [reflexivity|]. exists ppfees. rewrite A. reflexivity.
    + destruct (if 0 <? r1p then if negb (r1 =? 0) then ([(r1, r1p, SLIP_ROUTER)], 0) else ([], r1p) else ([], 0)) as [s1 g5] eqn:E1.
      cbn [N.ltb N.compare]. cbn [po_slips].
      intros Hin. apply Hm in Hin. destruct Hin as [(A & B & C)|Hin]; [auto|].
      replace s1 with (fst (if 0 <? r1p then if negb (r1 =? 0) then ([(r1, r1p, SLIP_ROUTER)], 0) else ([], r1p) else ([], 0))) in Hin
        by (rewrite E1; reflexivity).
      apply Hr in Hin. destruct Hin as [(A & B & C)|Hin]; [auto|]. contradiction.
Qed.

(* the miner output of the fee transaction goes to the golden-ticket solver *)
Theorem payout_miner_slip : forall miner prev k a,
  In (k, a, SLIP_MINER) (po_slips (payout_with_gt miner prev)) -> k = miner.
Proof.
  intros miner [pv|] k a; [|cbn; contradiction].
  unfold payout_with_gt.
  destruct pv as [fees avg hasgt r1 pp]. cbn [pv_fees pv_avg pv_has_gt pv_router pv_pp].
  set (cap := payout_cap avg). clearbody cap.
  destruct (capped (fees / 2) cap) as [mp g1]. destruct (capped (fees - fees / 2) cap) as [r1p g2].
  assert (Hm : forall l, In (k, a, SLIP_MINER) ((if negb (miner =? 0) && (0 <? mp) then [(miner, mp, SLIP_MINER)] else []) ++ l) ->
               k = miner \/ In (k, a, SLIP_MINER) l).
  { intros l Hin. destruct (negb (miner =? 0) && (0 <? mp)); cbn [app] in Hin; [|right; exact Hin].
    destruct Hin as [E|Hin]; [|right; exact Hin]. injection E as <- _. left. reflexivity. }
  assert (Hr : forall r rp g l, In (k, a, SLIP_MINER)
              (fst (if 0 <? rp then if negb (r =? 0) then ([(r, rp, SLIP_ROUTER)], 0) else ([], rp) else ([], g)) ++ l) ->
              In (k, a, SLIP_MINER) l).
  { intros r rp g l Hin. destruct (0 <? rp); [|exact Hin].
    destruct (negb (r =? 0)); cbn [fst app] in Hin; [|exact Hin].
    destruct Hin as [E|Hin]; [discriminate E|exact Hin]. }
  destruct hasgt; [|destruct pp as [[ppfees r2]|]].
  - destruct (if 0 <? r1p then if negb (r1 =? 0) then ([(r1, r1p, SLIP_ROUTER)], 0) else ([], r1p) else ([], 0)) as [s1 g5] eqn:E1.
    cbv beta iota zeta.
    destruct (if 0 <? 0 then if negb (0 =? 0) then ([(0, 0, SLIP_ROUTER)], 0) else ([], 0) else ([], 0)) as [s2 g6] eqn:E2.
    cbn [po_slips]. intros Hin. apply Hm in Hin. destruct Hin as [A|Hin]; [exact A|].
    replace s1 with (fst (if 0 <? r1p then if negb (r1 =? 0) then ([(r1, r1p, SLIP_ROUTER)], 0) else ([], r1p) else ([], 0))) in Hin
      by (rewrite E1; reflexivity).
    apply Hr in Hin.
    replace s2 with (fst (if 0 <? 0 then if negb (0 =? 0) then ([(0, 0, SLIP_ROUTER)], 0) else ([], 0) else ([], 0)) ++ []) in Hin
      by (rewrite E2, app_nil_r; reflexivity).
    apply Hr in Hin. contradiction.
  - destruct (capped (ppfees / 2) cap) as [tr g3]. destruct (capped (ppfees - ppfees / 2) cap) as [r2p g4].
    destruct (if 0 <? r1p then if negb (r1 =? 0) then ([(r1, r1p, SLIP_ROUTER)], 0) else ([], r1p) else ([], 0)) as [s1 g5] eqn:E1.
    destruct (if 0 <? r2p then if negb (r2 =? 0) then ([(r2, r2p, SLIP_ROUTER)], 0) else ([], r2p) else ([], 0)) as [s2 g6] eqn:E2.
    cbn [po_slips]. intros Hin. apply Hm in Hin. destruct Hin as [A|Hin]; [exact A|].
    replace s1 with (fst (if 0 <? r1p then if negb (r1 =? 0) then ([(r1, r1p, SLIP_ROUTER)], 0) else ([], r1p) else ([], 0))) in Hin
      by (rewrite E1; reflexivity).
    apply Hr in Hin.
    replace s2 with (fst (if 0 <? r2p then if negb (r2 =? 0) then ([(r2, r2p, SLIP_ROUTER)], 0) else ([], r2p) else ([], 0)) ++ []) in Hin
      by (rewrite E2, app_nil_r; reflexivity).
    apply Hr in Hin. contradiction.
  - destruct (if 0 <? r1p then if negb (r1 =? 0) then ([(r1, r1p, SLIP_ROUTER)], 0) else ([], r1p) else ([], 0)) as [s1 g5] eqn:E1.
    cbv beta iota zeta.
    destruct (if 0 <? 0 then if negb (0 =? 0) then ([(0, 0, SLIP_ROUTER)], 0) else ([], 0) else ([], 0)) as [s2 g6] eqn:E2.
    cbn [po_slips]. intros Hin. apply Hm in Hin. destruct Hin as [A|Hin]; [exact A|].
    replace s1 with (fst (if 0 <? r1p then if negb (r1 =? 0) then ([(r1, r1p, SLIP_ROUTER)], 0) else ([], r1p) else ([], 0))) in Hin
      by (rewrite E1; reflexivity).
    apply Hr in Hin.
    replace s2 with (fst (if 0 <? 0 then if negb (0 =? 0) then ([(0, 0, SLIP_ROUTER)], 0) else ([], 0) else ([], 0)) ++ []) in Hin
      by (rewrite E2, app_nil_r; reflexivity).
    apply Hr in Hin. contradiction.
Qed.

(* the golden-ticket check passes only for a solution with enough leading zeros
   (difficulties below 2^32: `difficulty as u32` is the identity) *)
Theorem golden_ticket_solves_sound : forall lz d,
  d < 4294967296 -> golden_ticket_solves lz d = true -> d <= lz.
Proof.
  intros lz d Hd H. unfold golden_ticket_solves in H.
  rewrite N.mod_small in H by exact Hd. apply N.leb_le. exact H.
Qed.

Theorem golden_ticket_section_sound : forall k u lz d,
  d < 4294967296 -> golden_ticket_section_ok k u lz d = true -> u = 0 /\ k <> 0 /\ d <= lz.
Proof.
  intros k u lz d Hd H. unfold golden_ticket_section_ok in H.
  apply Bool.andb_true_iff in H. destruct H as [H H3].
  apply Bool.andb_true_iff in H. destruct H as [H1 H2].
  apply N.eqb_eq in H1. apply Bool.negb_true_iff, N.eqb_neq in H2.
  repeat split; try assumption. apply golden_ticket_solves_sound; assumption.
Qed.
