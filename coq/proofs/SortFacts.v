(* Facts about the generic helpers of lib/Base.v *)
From Saito Require Import Base.
From Coq Require Import Permutation Sorted.

Section SortFacts.
  Context {A : Type} (le : A -> A -> bool).
  Definition R (a b : A) : Prop := le a b = true.
  Hypothesis le_total : forall a b, le a b = true \/ le b a = true.
  Hypothesis le_trans : forall a b c, le a b = true -> le b c = true -> le a c = true.

  Lemma insert_by_perm x l : Permutation (insert_by le x l) (x :: l).
  Proof.
    induction l as [|y t IH]; cbn [insert_by]; [reflexivity|].
    destruct (le x y); [reflexivity|].
    rewrite IH. apply perm_swap.
  Qed.

  Lemma sort_by_perm l : Permutation (sort_by le l) l.
  Proof.
    induction l as [|x t IH]; cbn [sort_by fold_right]; [reflexivity|].
    fold (sort_by le t). rewrite insert_by_perm. now rewrite IH.
  Qed.

  Lemma insert_by_sorted x l :
    StronglySorted R l -> StronglySorted R (insert_by le x l).
  Proof.
    induction l as [|y t IH]; cbn [insert_by]; intros Hs.
    - constructor; constructor.
    - destruct (le x y) eqn:Hxy.
      + constructor; [exact Hs|]. constructor; [exact Hxy|].
        inversion Hs as [|? ? _ Hall]; subst.
        eapply Forall_impl; [|exact Hall]. intros a Ha. eapply le_trans; eassumption.
      + inversion Hs as [|? ? Ht Hall]; subst. constructor; [apply IH; exact Ht|].
        eapply Permutation_Forall; [symmetry; apply insert_by_perm|].
        constructor; [|exact Hall].
        destruct (le_total x y) as [H|H]; [congruence|exact H].
  Qed.

  Lemma sort_by_sorted l : StronglySorted R (sort_by le l).
  Proof.
    induction l as [|x t IH]; cbn [sort_by fold_right]; [constructor|].
    apply insert_by_sorted. exact IH.
  Qed.
End SortFacts.

Lemma countb_perm {A} (f : A -> bool) l l' : Permutation l l' -> countb f l = countb f l'.
Proof.
  intros H. unfold countb. f_equal.
  induction H; cbn [filter]; try destruct (f x); try destruct (f y); cbn [length]; lia.
Qed.

Lemma countb_cons {A} (f : A -> bool) x l :
  countb f (x :: l) = (if f x then 1 else 0) + countb f l.
Proof. unfold countb; cbn [filter]; destruct (f x); cbn [length]; lia. Qed.

Lemma countb_nil {A} (f : A -> bool) : countb f [] = 0.
Proof. reflexivity. Qed.

Lemma countb_app {A} (f : A -> bool) l l' : countb f (l ++ l') = countb f l + countb f l'.
Proof. unfold countb. rewrite filter_app, app_length. lia. Qed.

Lemma countb_filter_le {A} (f g : A -> bool) l : countb f (filter g l) <= countb f l.
Proof.
  induction l as [|x t IH]; [cbn; lia|]. cbn [filter].
  destruct (g x); rewrite ?countb_cons; destruct (f x); lia.
Qed.

Lemma NoDup_map_filter {A B} (k : A -> B) (g : A -> bool) l :
  NoDup (map k l) -> NoDup (map k (filter g l)).
Proof.
  induction l as [|x t IH]; cbn [map filter]; intros H; [constructor|].
  inversion H as [|? ? Hn Hd]; subst. destruct (g x); cbn [map]; [|auto].
  constructor; [|auto]. intros Hin. apply Hn.
  apply in_map_iff in Hin as [y [Hy Hin]]. apply filter_In in Hin as [Hin _].
  apply in_map_iff. eauto.
Qed.

(* association maps *)
Section AMapFacts.
  Context {V : Type}.
  Lemma in_aset k (v : V) m kv : In kv (aset k v m) -> kv = (k, v) \/ In kv m.
  Proof.
    induction m as [|[k' v'] t IH]; cbn [aset]; intros H.
    - destruct H as [H|[]]; auto.
    - destruct (k =? k'); [destruct H; [auto|right; right; auto]|].
      destruct (k <? k'); [destruct H; auto|].
      destruct H as [H|H]; [right; left; auto|].
      destruct (IH H); auto. right; right; auto.
  Qed.
  Lemma aget_in k (v : V) m : aget k m = Some v -> In (k, v) m.
  Proof.
    induction m as [|[k' v'] t IH]; cbn [aget]; [discriminate|].
    destruct (N.eqb_spec k k'); intros H; [inversion H; subst; left; auto|right; auto].
  Qed.
End AMapFacts.
