(* Proofs about model/Storage.v (C12): what a crash can leave on disk, the order in which a
   restart replays the stored blocks, restart as a fold of add_block (composition with the
   chain invariant of C03), the restarted tip. *)
From Saito Require Import Base Chain Storage ChainBasics ChainInv ChainWind ChainAdd ChainProofs ChainCheck.
From Coq Require Import Permutation Sorted.
From Saito Require Import SortFacts.

(* ================================================================== *)
(* A. journals and crashes                                            *)
(* ================================================================== *)
Lemma apply_op_sorted d o : asorted d -> asorted (apply_op d o).
Proof. destruct o; cbn [apply_op]; intros H; [now apply aset_sorted|now apply adel_sorted]. Qed.

Lemma run_ops_sorted j : forall d, asorted d -> asorted (run_ops j d).
Proof.
  unfold run_ops. induction j as [|o j IH]; intros d H; cbn [fold_left]; [exact H|].
  apply IH. now apply apply_op_sorted.
Qed.

Lemma run_ops_app j1 j2 d : run_ops (j1 ++ j2) d = run_ops j2 (run_ops j1 d).
Proof. unfold run_ops. apply fold_left_app. Qed.

(* a disk on which every intact file is filed under the name of its content *)
Definition named (d : disk) : Prop := forall k p, aget k d = Some (Intact p) -> k = fkey p.

(* every intact file was written, completely, by some operation of the journal *)
Lemma intact_from_write j : forall d k p, asorted d ->
  aget k (run_ops j d) = Some (Intact p) ->
  (k = fkey p /\ In (Write p) j) \/ aget k d = Some (Intact p).
Proof.
  unfold run_ops. induction j as [|o j IH]; intros d k p Hs H; cbn [fold_left] in H; [now right|].
  destruct (IH _ k p (apply_op_sorted d o Hs) H) as [[E Hi]|Hd].
  - left. split; [exact E|now right].
  - destruct o as [q|k0]; cbn [apply_op] in Hd.
    + rewrite aget_aset in Hd. destruct (N.eqb_spec k (fkey q)) as [->|_]; [|now right].
      injection Hd as ->. left. split; [reflexivity|now left].
    + rewrite aget_adel in Hd by exact Hs. destruct (k =? k0); [discriminate|now right].
Qed.

Lemma disk_after_sorted j n t : asorted (disk_after j n t).
Proof.
  unfold disk_after. pose proof (run_ops_sorted (firstn n j) [] asorted_nil) as H.
  destruct t; [|exact H]. destruct (nth_error j n) as [[p|k]|]; [now apply aset_sorted|exact H|exact H].
Qed.

(* C12_crash_closed: a file that decodes on a crashed disk holds, intact, a block whose write
   was complete before the crash, under that block's own name; a torn write never produces an
   intact file (it can only destroy one: rewriting an existing file truncates it first) *)
Theorem crash_closed j n t k p :
  aget k (disk_after j n t) = Some (Intact p) -> k = fkey p /\ In (Write p) (firstn n j).
Proof.
  unfold disk_after. intros H.
  assert (G : aget k (run_ops (firstn n j) []) = Some (Intact p)).
  { destruct t; [|exact H]. destruct (nth_error j n) as [[q|k0]|]; try exact H.
    rewrite aget_aset in H. destruct (k =? fkey q); [discriminate|exact H]. }
  destruct (intact_from_write _ _ _ _ asorted_nil G) as [R|R]; [exact R|discriminate].
Qed.

Corollary crash_named j n t : named (disk_after j n t).
Proof. intros k p H. now apply crash_closed in H. Qed.

(* removes only remove, a torn write only tears: the keys of a crashed disk were all written *)
Lemma key_from_write j : forall d k, asorted d ->
  In k (map fst (run_ops j d)) -> (exists p, k = fkey p /\ In (Write p) j) \/ In k (map fst d).
Proof.
  unfold run_ops. induction j as [|o j IH]; intros d k Hs H; cbn [fold_left] in H; [now right|].
  destruct (IH _ k (apply_op_sorted d o Hs) H) as [(p & E & Hi)|Hd].
  - left. exists p. split; [exact E|now right].
  - destruct o as [q|k0]; cbn [apply_op] in Hd.
    + apply keys_aset in Hd as [->|Hd]; [|now right]. left. exists q. split; [reflexivity|now left].
    + right. eapply keys_adel; eassumption.
Qed.

(* ------------------------------------------------------------------ *)
(* byte level: the abstraction Intact / Torn is sound under two facts  *)
(* about the codec                                                     *)
(* ------------------------------------------------------------------ *)
Section BytesFacts.
  Variable enc : pblk -> list N.
  Variable dec : list N -> option pblk.
  (* C09 (round trip) *)
  Hypothesis dec_enc : forall p, dec (enc p) = Some p.
  (* C10 / CodecPrefix.block_prefix_rejected: a strict prefix of a serialised block never decodes *)
  Hypothesis torn_rejected : forall p m, (m < length (enc p))%nat -> dec (firstn m (enc p)) = None.

  Lemma map_aset {V W} (f : V -> W) k v (m : list (N * V)) :
    map (fun e => (fst e, f (snd e))) (aset k v m) = aset k (f v) (map (fun e => (fst e, f (snd e))) m).
  Proof.
    induction m as [|[k1 v1] t IH]; cbn [aset map fst snd]; [reflexivity|].
    destruct (k =? k1); cbn [map fst snd]; [reflexivity|].
    destruct (k <? k1); cbn [map fst snd]; [reflexivity|]. now rewrite IH.
  Qed.
  Lemma map_adel {V W} (f : V -> W) k (m : list (N * V)) :
    map (fun e => (fst e, f (snd e))) (adel k m) = adel k (map (fun e => (fst e, f (snd e))) m).
  Proof.
    induction m as [|[k1 v1] t IH]; cbn [adel map fst snd]; [reflexivity|].
    destruct (k =? k1); cbn [map fst snd]; [reflexivity|]. now rewrite IH.
  Qed.

  (* one byte-level storage operation, complete or torn after m bytes, is the abstract operation *)
  Theorem abs_apply_bop d o :
    abs_disk dec (apply_bop enc d o) = abs_op enc o (abs_disk dec d).
  Proof.
    destruct o as [p m|k]; cbn [apply_bop abs_op]; unfold abs_disk.
    - rewrite map_aset. destruct (Nat.ltb_spec m (length (enc p))) as [Hlt|Hge].
      + unfold abs_file at 1. now rewrite torn_rejected.
      + unfold abs_file at 1. rewrite firstn_all2 by lia. now rewrite dec_enc.
    - apply map_adel.
  Qed.

  Corollary abs_run_bops ops : forall d,
    abs_disk dec (fold_left (apply_bop enc) ops d) = fold_left (fun a o => abs_op enc o a) ops (abs_disk dec d).
  Proof.
    induction ops as [|o t IH]; intros d; cbn [fold_left]; [reflexivity|]. now rewrite IH, abs_apply_bop.
  Qed.

  Lemma abs_intact_from_write ops k p : forall (a : disk), asorted a ->
    aget k (fold_left (fun a o => abs_op enc o a) ops a) = Some (Intact p) ->
    (k = fkey p /\ exists m, In (BWrite p m) ops /\ (length (enc p) <= m)%nat) \/ aget k a = Some (Intact p).
  Proof.
    induction ops as [|o t IH]; intros a Hs H; cbn [fold_left] in H; [now right|].
    assert (Hs' : asorted (abs_op enc o a)).
    { destruct o as [q m|k0]; cbn [abs_op]; [destruct (Nat.ltb m (length (enc q))); now apply aset_sorted|now apply adel_sorted]. }
    destruct (IH _ Hs' H) as [(E & m & Hi & Hm)|Hd].
    - left. split; [exact E|]. exists m. split; [now right|exact Hm].
    - destruct o as [q m|k0]; cbn [abs_op] in Hd.
      + destruct (Nat.ltb_spec m (length (enc q))) as [Hlt|Hge]; rewrite aget_aset in Hd;
          destruct (N.eqb_spec k (fkey q)) as [->|_].
        * discriminate.
        * now right.
        * injection Hd as ->. left. split; [reflexivity|]. exists m. split; [now left|exact Hge].
        * now right.
      + rewrite aget_adel in Hd by exact Hs. destruct (k =? k0); [discriminate|now right].
  Qed.

  (* a file that decodes after any sequence of complete / torn writes and removes is the
     complete serialisation written by one of the COMPLETE writes *)
  Theorem decodable_was_written ops k bs p :
    aget k (fold_left (apply_bop enc) ops []) = Some bs -> dec bs = Some p ->
    k = fkey p /\ exists m, In (BWrite p m) ops /\ (length (enc p) <= m)%nat.
  Proof.
    intros Hg Hd.
    assert (Ha : aget k (abs_disk dec (fold_left (apply_bop enc) ops [])) = Some (Intact p)).
    { unfold abs_disk. generalize dependent (fold_left (apply_bop enc) ops []). intros m0 Hg0.
      induction m0 as [|[k1 v1] t IH]; cbn [aget map fst snd] in *; [discriminate|].
      destruct (k =? k1); [|now apply IH]. injection Hg0 as ->. unfold abs_file. now rewrite Hd. }
    rewrite abs_run_bops in Ha. cbn [abs_disk map] in Ha.
    destruct (abs_intact_from_write _ _ _ [] asorted_nil Ha) as [R|R]; [exact R|discriminate].
  Qed.
End BytesFacts.

(* ================================================================== *)
(* B. the order in which a restart replays the stored blocks          *)
(* ================================================================== *)
Lemma chunks_in {A} n : forall fuel (l ch : list A) x, In ch (chunks fuel n l) -> In x ch -> In x l.
Proof.
  induction fuel as [|f IH]; intros l ch x Hc Hx; cbn [chunks] in Hc; [contradiction|].
  destruct l as [|a l']; [contradiction|]. rewrite <- (firstn_skipn n (a :: l')). apply in_or_app.
  destruct Hc as [<-|Hc]; [now left|right]. eapply IH; eassumption.
Qed.

Lemma chunks_single {A} n (l : list A) : (length l <= n)%nat -> chunks (length l) n l = match l with [] => [] | _ => [l] end.
Proof.
  destruct l as [|a l]; [reflexivity|]. intros H. cbn [length chunks].
  rewrite firstn_all2 by exact H. rewrite skipn_all2 by exact H. destruct (length l); reflexivity.
Qed.

Lemma load_order_single bsz d : (length d <= bsz)%nat -> load_order bsz d = sort_by id_le (load_batch d).
Proof.
  intros H. unfold load_order. rewrite chunks_single by exact H.
  destruct d as [|e d]; [reflexivity|]. cbn [flat_map]. apply app_nil_r.
Qed.

Lemma load_batch_in es p : In p (load_batch es) -> exists k, In (k, Intact p) es.
Proof.
  induction es as [|[k [q|]] t IH]; cbn [load_batch]; try contradiction.
  intros [->|H]; [exists k; now left|]. destruct (IH H) as (k' & Hk). exists k'. now right.
Qed.

Lemma in_load_order bsz d p : asorted d -> In p (load_order bsz d) -> exists k, aget k d = Some (Intact p).
Proof.
  intros Hs H. unfold load_order in H. apply in_flat_map in H as (ch & Hc & Hp).
  eapply Permutation_in in Hp; [|apply sort_by_perm].
  apply load_batch_in in Hp as (k & Hk). exists k. apply in_aget; [exact Hs|].
  eapply chunks_in; eassumption.
Qed.

Lemma named_tail k c t : asorted ((k, c) :: t) -> named ((k, c) :: t) -> named t.
Proof.
  intros Hs Hn k' p H. apply Hn. cbn [aget].
  destruct (N.eqb_spec k' k) as [->|_]; [|exact H].
  apply asorted_inv in Hs as [_ Hk]. apply aget_in, (in_map fst) in H. specialize (Hk _ H). cbn [fst] in Hk. lia.
Qed.

(* the loaded part of a batch is closed under "smaller name": load_blocks_from_disk stops at the
   first undecodable file, everything before it is loaded *)
Lemma load_batch_closed d : asorted d -> named d ->
  forall p q kq, In p (load_batch d) -> aget kq d = Some (Intact q) -> kq < fkey p -> In q (load_batch d).
Proof.
  induction d as [|[k c] t IH]; intros Hs Hn p q kq Hp Hq Hlt; cbn [load_batch] in *; [contradiction|].
  destruct c as [p0|]; [|contradiction].
  pose proof (asorted_inv _ _ _ Hs) as [Ht Hk].
  cbn [aget] in Hq. destruct (N.eqb_spec kq k) as [->|Hne]; [injection Hq as ->; now left|].
  right. destruct Hp as [->|Hp].
  - exfalso. assert (k = fkey p) by (apply Hn; cbn [aget]; now rewrite N.eqb_refl). subst k.
    apply aget_in, (in_map fst) in Hq. specialize (Hk _ Hq). cbn [fst] in Hk. lia.
  - eapply IH; try eassumption. eapply named_tail; eassumption.
Qed.

Lemma id_le_total a b : id_le a b = true \/ id_le b a = true.
Proof. unfold id_le. lia. Qed.
Lemma id_le_trans a b c : id_le a b = true -> id_le b c = true -> id_le a c = true.
Proof. unfold id_le. lia. Qed.

Lemma sorted_app_inv {A} (R : A -> A -> Prop) l1 x l2 :
  StronglySorted R (l1 ++ x :: l2) -> Forall (R x) l2.
Proof.
  induction l1 as [|a l1 IH]; cbn [app]; intros H; inversion H; subst; [assumption|auto].
Qed.

(* the order the code uses, one batch: if the file of q is on disk and decodes, has a smaller
   name than the file of p and q's id is smaller, then q is replayed BEFORE p *)
Theorem load_order_before bsz d : asorted d -> named d -> (length d <= bsz)%nat ->
  forall l1 p l2, load_order bsz d = l1 ++ p :: l2 ->
  forall q kq, aget kq d = Some (Intact q) -> kq < fkey p -> b_id (p_b q) < b_id (p_b p) -> In q l1.
Proof.
  intros Hs Hn Hlen l1 p l2 E q kq Hq Hk Hid.
  rewrite load_order_single in E by exact Hlen.
  assert (Hp : In p (load_batch d)).
  { eapply Permutation_in; [apply sort_by_perm|]. rewrite E. apply in_or_app. right. now left. }
  assert (Hq' : In q (sort_by id_le (load_batch d))).
  { eapply Permutation_in; [symmetry; apply sort_by_perm|]. eapply load_batch_closed; eassumption. }
  pose proof (sort_by_sorted id_le id_le_total id_le_trans (load_batch d)) as Hsort.
  rewrite E in Hsort, Hq'. apply sorted_app_inv in Hsort. rewrite Forall_forall in Hsort.
  apply in_app_or in Hq' as [H|[->|H]]; [exact H|lia|].
  specialize (Hsort _ H). unfold SortFacts.R, id_le in Hsort. lia.
Qed.

Lemma fkey_lt p q : b_hash (p_b q) < HM -> p_ts q < p_ts p -> fkey q < fkey p.
Proof.
  unfold fkey. intros Hh Ht.
  assert ((p_ts q + 1) * HM <= p_ts p * HM) by (apply N.mul_le_mono_r; lia). lia.
Qed.

(* parents first: names carry the timestamp, timestamps grow along parent links (a block whose
   timestamp is not above its parent's needs the impossible amount of routing work, C08), ids
   grow by one: a parent whose file is on disk and decodes is replayed before its child *)
Definition ts_monotone (d : disk) : Prop :=
  forall kp p kq q, aget kp d = Some (Intact p) -> aget kq d = Some (Intact q) ->
    b_prev (p_b p) = b_hash (p_b q) ->
    p_ts q < p_ts p /\ b_id (p_b p) = b_id (p_b q) + 1 /\ b_hash (p_b q) < HM.

Theorem load_order_parents_first bsz d : asorted d -> named d -> ts_monotone d -> (length d <= bsz)%nat ->
  forall l1 p l2, load_order bsz d = l1 ++ p :: l2 ->
  forall q kq, aget kq d = Some (Intact q) -> b_prev (p_b p) = b_hash (p_b q) -> In q l1.
Proof.
  intros Hs Hn Hm Hlen l1 p l2 E q kq Hq Hl.
  assert (Hp : exists kp, aget kp d = Some (Intact p)).
  { apply (in_load_order bsz); [exact Hs|]. rewrite E. apply in_or_app. right. now left. }
  destruct Hp as (kp & Hp). destruct (Hm _ _ _ _ Hp Hq Hl) as (Ht & Hi & Hh).
  pose proof (Hn _ _ Hq) as ->.
  eapply load_order_before; try eassumption; [now apply fkey_lt|lia].
Qed.

(* ================================================================== *)
(* C. restart is a fold of add_block: composition with C03            *)
(* ================================================================== *)
Lemma replay_deliver c ps : forall st st' j, Storage.replay c st ps = Ok (st', j) -> deliver c st (map p_b ps) = Ok st'.
Proof.
  induction ps as [|p t IH]; intros st st' j H; cbn [Storage.replay deliver map] in *; [now injection H as -> _|].
  destruct (add_block c st (p_b p)) as [[st1 r]| |]; cbn [bind fst snd] in *; try discriminate.
  destruct (Storage.replay c st1 t) as [[st2 j2]| |] eqn:E; cbn [bind fst snd] in *; try discriminate.
  injection H as <- _. eapply IH; eassumption.
Qed.

Lemma deliver_replay c ps : forall st st', deliver c st (map p_b ps) = Ok st' -> exists j, Storage.replay c st ps = Ok (st', j).
Proof.
  induction ps as [|p t IH]; intros st st' H; cbn [Storage.replay deliver map] in *; [injection H as ->; eauto|].
  destruct (add_block c st (p_b p)) as [[st1 r]| |]; cbn [bind fst snd] in *; try discriminate.
  destruct (IH _ _ H) as (j & ->). cbn [bind fst snd]. eauto.
Qed.

(* the writes of a replay are writes of replayed blocks *)
Lemma replay_writes c ps : forall st st' j, Storage.replay c st ps = Ok (st', j) -> forall o, In o j -> exists p, o = Write p /\ In p ps.
Proof.
  induction ps as [|p t IH]; intros st st' j H o Ho; cbn [Storage.replay] in H; [injection H as _ <-; contradiction|].
  destruct (add_block c st (p_b p)) as [[st1 r]| |]; cbn [bind fst snd] in *; try discriminate.
  destruct (Storage.replay c st1 t) as [[st2 j2]| |] eqn:E; cbn [bind fst snd] in *; try discriminate.
  injection H as _ <-.
  assert (G : In o j2 -> exists p0, o = Write p0 /\ In p0 (p :: t)).
  { intros Hi. destruct (IH _ _ _ E _ Hi) as (p0 & -> & Hp0). exists p0. split; [reflexivity|now right]. }
  destruct (written r); [destruct Ho as [<-|Ho]; [exists p; split; [reflexivity|now left]|auto]|auto].
Qed.

Section Restart.
  Variables (c : cfg) (U : list blk).
  Hypothesis HU : univ_ok c U.
  Hypothesis HWF : valid_wf U.

  (* C12_restart_safe: on every disk whose replay order is orphan-free (each replayed block finds
     its parent stored; the first one is a root) the restart reaches no panic site, stays inside
     the modelled regime and ends in a state that satisfies the chain invariant of C03 *)
  Theorem restart_safe bsz d :
    orphan_free c U (init c) (map p_b (load_order bsz d)) ->
    exists st j d', restart c bsz d = Ok (st, j, d') /\ Inv c U st.
  Proof.
    intros Hof.
    destruct (deliver_inv c U HU HWF _ (init c) (ex_intro _ [] (inv_init c U)) Hof) as (st & Hd & HI).
    destruct (deliver_replay _ _ _ _ Hd) as (j & Hr).
    unfold restart. rewrite Hr. cbn [bind fst snd]. eauto.
  Qed.

  (* one step: the store only grows by the delivered block *)
  Lemma step_store st b st' r :
    Inv c U st -> In b U -> parent_ok U st b -> add_block c st b = Ok (st', r) ->
    (forall h x, sget (blocks st') h = Some x -> sget (blocks st) h = Some x \/ x = b)
    /\ (forall h, h <> b_hash b -> sget (blocks st') h = sget (blocks st) h)
    /\ (r <> Invalid -> r <> Retry -> sget (blocks st') (b_hash b) = Some b).
  Proof.
    intros [lcr HI] Hb Hp E.
    destruct (add_block_spec c U HU HWF st lcr b HI Hb Hp) as (st1 & r1 & E1 & [C|[C|C]]);
      rewrite E in E1; injection E1 as <- <-.
    - destruct C as (Hg & -> & ->). split; [auto|]. split; [auto|]. intros _ _.
      destruct HI as [W _]. destruct (get_block st (b_hash b)) as [[x f]|] eqn:G; [|congruence].
      assert (Hs : sget (blocks st) (b_hash b) = Some x) by (unfold sget, get_block in *; now rewrite G).
      destruct (w_store _ _ _ _ _ W) as [_ Hst]. destruct (Hst _ _ Hs) as [Hh Hx].
      rewrite Hs. f_equal. eapply hash_inj; eauto.
    - destruct C as (_ & Hr & -> & _). split; [auto|]. split; [auto|]. intros H1 H2. destruct Hr; congruence.
    - destruct C as (_ & _ & newtl & oldb & common & M).
      pose proof (m_store _ _ _ _ _ _ _ _ _ _ M) as Hst. pose proof (m_res _ _ _ _ _ _ _ _ _ _ M) as Hr.
      split; [|split].
      + intros h x Hx. rewrite Hst in Hx. destruct (h =? b_hash b); [|now left].
        destruct (_ && negb _); [discriminate|]. injection Hx as <-. now right.
      + intros h Hne. rewrite Hst. destruct (N.eqb_spec h (b_hash b)); [contradiction|reflexivity].
      + intros H1 _. rewrite Hst, N.eqb_refl.
        destruct (fork_choice c st lcr b newtl oldb); cbn [andb]; [|reflexivity].
        destruct (cand_valid st b newtl); cbn [negb]; [reflexivity|congruence].
  Qed.

  (* every stored block of the result was delivered *)
  Lemma deliver_store bs : forall st, Inv c U st -> orphan_free c U st bs ->
    exists st', deliver c st bs = Ok st' /\ Inv c U st'
      /\ forall h x, sget (blocks st') h = Some x -> sget (blocks st) h = Some x \/ In x bs.
  Proof.
    induction bs as [|b t IH]; intros st HI Hof; cbn [deliver].
    - exists st. auto.
    - destruct Hof as (Hb & Hp & Hof).
      destruct (add_block_total c U HU HWF st b HI Hb Hp) as (st1 & r1 & E1). rewrite E1 in *. cbn [bind fst].
      pose proof (inv_step c U HU HWF _ _ _ _ HI Hb Hp E1) as HI1.
      destruct (IH st1 HI1 Hof) as (st' & Hd & HI' & Hst).
      exists st'. split; [exact Hd|]. split; [exact HI'|].
      intros h x Hx. destruct (Hst _ _ Hx) as [H1|H1]; [|right; now right].
      destruct (step_store _ _ _ _ HI Hb Hp E1) as (Hs1 & _ & _).
      destruct (Hs1 _ _ H1) as [H2| ->]; [now left|right; now left].
  Qed.

  (* C12_restart_tip_known: the restarted tip is the empty chain or a VALID block that was
     replayed from a decodable file *)
  Theorem restart_tip_known bsz d : 1 <= 2 * gp_of c -> asorted d ->
    orphan_free c U (init c) (map p_b (load_order bsz d)) ->
    exists st j d' h, restart c bsz d = Ok (st, j, d') /\ Inv c U st /\ latest_hash st = Ok h
      /\ (h = 0 \/ exists p k, aget k d = Some (Intact p) /\ b_hash (p_b p) = h /\ b_valid (p_b p) = true).
  Proof.
    intros Hgp Hs Hof.
    destruct (deliver_store _ (init c) (ex_intro _ [] (inv_init c U)) Hof) as (st & Hd & [lcr HI] & Hst).
    destruct (deliver_replay _ _ _ _ Hd) as (j & Hr).
    exists st, (j ++ map Remove (filter (fun k => negb (existsb (N.eqb k)
       (map fkey (filter (fun p => stored st (b_hash (p_b p))) (load_order bsz d))))) (map fst d))).
    eexists. exists (tip_hash lcr). split; [unfold restart; rewrite Hr; cbn [bind fst snd]; reflexivity|].
    destruct (inv_meaning c U HU st lcr HI Hgp) as (Hc & Hlc & _ & _ & _ & _ & Hh & _).
    split; [now exists lcr|].
    split; [exact Hh|]. destruct lcr as [|t l]; [now left|right]. cbn [tip_hash].
    assert (Hg : get_block st (b_hash t) = Some (mkSB t true)).
    { apply Hlc. apply in_rev. rewrite rev_involutive. now left. }
    assert (Hsg : sget (blocks st) (b_hash t) = Some t) by (unfold sget, get_block in *; now rewrite Hg).
    destruct (Hst _ _ Hsg) as [H0|H0]; [discriminate|].
    apply in_map_iff in H0 as (p & <- & Hp). destruct (in_load_order _ _ _ Hs Hp) as (k & Hk).
    exists p, k. split; [exact Hk|]. split; [reflexivity|]. cbn [chain_ok] in Hc. tauto.
  Qed.

  (* restart after a crash: no panic, the chain invariant holds, and the tip is the empty chain or a
     valid block whose file was written completely before the crash *)
  Theorem restart_after_crash j n t bsz : 1 <= 2 * gp_of c ->
    orphan_free c U (init c) (map p_b (load_order bsz (disk_after j n t))) ->
    exists st j' d' h, restart c bsz (disk_after j n t) = Ok (st, j', d') /\ Inv c U st /\ latest_hash st = Ok h
      /\ (h = 0 \/ exists p, In (Write p) (firstn n j) /\ b_hash (p_b p) = h /\ b_valid (p_b p) = true).
  Proof.
    intros Hgp Hof.
    destruct (restart_tip_known bsz _ Hgp (disk_after_sorted j n t) Hof) as (st & j' & d' & h & Hr & HI & Hh & Ht).
    exists st, j', d', h. repeat (split; [assumption|]).
    destruct Ht as [->|(p & k & Hk & Hp & Hv)]; [now left|right].
    apply crash_closed in Hk as [_ Hw]. eauto.
  Qed.

  (* ---- the side condition, for the order the code uses ---- *)
  (* no replayed block is answered "invalid" / "retry" *)
  Fixpoint accepts (st : state) (bs : list blk) : Prop :=
    match bs with
    | [] => True
    | b :: t => match add_block c st b with
                | Ok (st', r) => r <> Invalid /\ r <> Retry /\ accepts st' t
                | _ => True
                end
    end.

  (* parents first: every block but the first has its parent earlier in the list; the first is a root *)
  Definition parents_first (bs : list blk) : Prop :=
    forall l1 b l2, bs = l1 ++ b :: l2 ->
      (l1 = [] /\ is_root U b) \/ exists q, In q l1 /\ b_hash q = b_prev b.

  Lemma parents_first_orphan_free_gen rest : forall st done,
    Inv c U st -> (done = [] -> blocks st = []) ->
    (forall x, In x done -> get_block st (b_hash x) <> None) ->
    (forall b, In b rest -> In b U) ->
    parents_first (done ++ rest) -> accepts st rest -> orphan_free c U st rest.
  Proof.
    induction rest as [|b t IH]; intros st done HI Hd0 Hdone HinU Hpf Hacc; cbn [orphan_free]; [exact I|].
    assert (Hb : In b U) by (apply HinU; now left).
    assert (Hp : parent_ok U st b).
    { destruct (Hpf done b t eq_refl) as [[-> Hroot]|(q & Hq & Hl)].
      - left. split; [now apply Hd0|exact Hroot].
      - right. rewrite <- Hl. now apply Hdone. }
    split; [exact Hb|]. split; [exact Hp|].
    destruct (add_block_total c U HU HWF st b HI Hb Hp) as (st1 & r1 & E1).
    cbn [accepts] in Hacc. rewrite E1 in *. destruct Hacc as (Hr1 & Hr2 & Hacc).
    destruct (step_store _ _ _ _ HI Hb Hp E1) as (_ & Hkeep & Hnew).
    apply (IH st1 (done ++ [b])).
    - eapply inv_step; eauto.
    - intros H. destruct done; discriminate.
    - intros x Hx. apply in_app_or in Hx as [Hx|[<-|[]]].
      + specialize (Hdone _ Hx). destruct (N.eqb_spec (b_hash x) (b_hash b)) as [Eh|Hne].
        * rewrite Eh. intros G. specialize (Hnew Hr1 Hr2). unfold sget, get_block in *. rewrite G in Hnew. discriminate.
        * intros G. apply Hdone. specialize (Hkeep _ Hne). unfold sget, get_block in *.
          rewrite G in Hkeep. cbn [option_map] in Hkeep. destruct (aget (b_hash x) (blocks st)); [discriminate|reflexivity].
      + intros G. specialize (Hnew Hr1 Hr2). unfold sget, get_block in *. rewrite G in Hnew. discriminate.
    - intros x Hx. apply HinU. now right.
    - rewrite <- app_assoc. exact Hpf.
    - exact Hacc.
  Qed.

  Theorem parents_first_orphan_free bs :
    (forall b, In b bs -> In b U) -> parents_first bs -> accepts (init c) bs -> orphan_free c U (init c) bs.
  Proof.
    intros Hin Hpf Hacc. apply (parents_first_orphan_free_gen bs (init c) []);
      [exists []; apply inv_init|reflexivity|intros x []|exact Hin|exact Hpf|exact Hacc].
  Qed.
End Restart.

(* ================================================================== *)
(* D. histories whose arrival order is the replay order               *)
(* ================================================================== *)
Definition key_lt (a b : pblk) : Prop := fkey a < fkey b.
Definition key_sorted (W : list pblk) : Prop := StronglySorted key_lt W.
Definition id_sorted (W : list pblk) : Prop := StronglySorted (fun a b => id_le a b = true) W.
Definition entries (W : list pblk) : disk := map (fun p => (fkey p, Intact p)) W.

Lemma aset_append {V} k (v : V) m : (forall k', In k' (map fst m) -> k' < k) -> aset k v m = m ++ [(k, v)].
Proof.
  induction m as [|[k1 v1] t IH]; intros H; cbn [aset app]; [reflexivity|].
  assert (k1 < k) by (apply H; now left).
  destruct (N.eqb_spec k k1); [lia|]. destruct (N.ltb_spec k k1); [lia|].
  rewrite IH; [reflexivity|]. intros k' Hk'. apply H. now right.
Qed.

Lemma keys_entries W k : In k (map fst (entries W)) -> exists p, In p W /\ k = fkey p.
Proof.
  unfold entries. rewrite map_map. cbn [fst]. intros H. apply in_map_iff in H as (p & <- & Hp). eauto.
Qed.

Lemma run_writes_sorted W : forall W0, key_sorted (W0 ++ W) ->
  run_ops (map Write W) (entries W0) = entries (W0 ++ W).
Proof.
  unfold run_ops. induction W as [|p t IH]; intros W0 Hs; cbn [map fold_left apply_op].
  - now rewrite app_nil_r.
  - rewrite aset_append.
    + replace (entries W0 ++ [(fkey p, Intact p)]) with (entries (W0 ++ [p])) by (unfold entries; now rewrite map_app).
      rewrite IH; rewrite <- app_assoc; [reflexivity|exact Hs].
    + intros k' Hk'. apply keys_entries in Hk' as (q & Hq & ->).
      clear IH. induction W0 as [|a W0 IHW]; [contradiction|]. cbn [app] in Hs. inversion Hs as [|? ? Hs' Hall]; subst.
      destruct Hq as [->|Hq]; [|now apply IHW].
      rewrite Forall_forall in Hall. apply Hall. apply in_or_app. right. now left.
Qed.

Lemma load_batch_entries W : load_batch (entries W) = W.
Proof. induction W as [|p t IH]; cbn [entries map load_batch]; [reflexivity|]. fold (entries t). now rewrite IH. Qed.

Lemma load_batch_entries_torn W k rest : load_batch (entries W ++ (k, Torn) :: rest) = W.
Proof.
  induction W as [|p t IH]; cbn [entries map load_batch app]; [reflexivity|]. fold (entries t). now rewrite IH.
Qed.

Lemma sort_by_id_sorted W : id_sorted W -> sort_by id_le W = W.
Proof.
  induction W as [|x t IH]; intros H; [reflexivity|]. inversion H as [|? ? Ht Hall]; subst.
  unfold sort_by in *. cbn [fold_right]. rewrite (IH Ht).
  destruct t as [|y t']; [reflexivity|]. cbn [insert_by].
  inversion Hall as [|? ? Hxy _]; subst. now rewrite Hxy.
Qed.

Lemma sorted_firstn {A} (R : A -> A -> Prop) n : forall l, StronglySorted R l -> StronglySorted R (firstn n l).
Proof.
  induction n as [|n IH]; intros l H; [constructor|]. destruct l as [|a l]; [constructor|].
  cbn [firstn]. inversion H as [|? ? Hl Hall]; subst. constructor; [now apply IH|].
  rewrite Forall_forall in *. intros x Hx. apply Hall. rewrite <- (firstn_skipn n l). apply in_or_app. now left.
Qed.

Lemma key_sorted_nth_above W n p : key_sorted W -> nth_error W n = Some p ->
  forall k', In k' (map fst (entries (firstn n W))) -> k' < fkey p.
Proof.
  revert W. induction n as [|n IH]; intros W Hs Hn k' Hk'; [contradiction|].
  destruct W as [|a W]; [discriminate|]. cbn [nth_error firstn] in *.
  inversion Hs as [|? ? Hs' Hall]; subst. cbn [entries map fst In] in Hk'. destruct Hk' as [<-|Hk'].
  - rewrite Forall_forall in Hall. apply Hall. eapply nth_error_In; eassumption.
  - eapply IH; eassumption.
Qed.

(* the replay order after a crash is exactly the list of blocks whose files were completely
   written, in arrival order - when arrival order is name order and id order *)
Theorem load_order_sorted_history bsz W n t :
  key_sorted W -> id_sorted W -> (length W <= bsz)%nat ->
  load_order bsz (disk_after (map Write W) n t) = firstn n W.
Proof.
  intros Hk Hi Hlen. unfold disk_after. rewrite firstn_map.
  assert (Hrun : run_ops (map Write (firstn n W)) [] = entries (firstn n W)).
  { apply (run_writes_sorted (firstn n W) []). cbn [app]. now apply sorted_firstn. }
  rewrite Hrun.
  assert (Hfn : (length (firstn n W) <= bsz)%nat) by (rewrite firstn_length; lia).
  assert (Hclean : load_order bsz (entries (firstn n W)) = firstn n W).
  { rewrite load_order_single by (unfold entries; now rewrite map_length).
    rewrite load_batch_entries. apply sort_by_id_sorted. now apply sorted_firstn. }
  destruct t; [|exact Hclean].
  rewrite nth_error_map. destruct (nth_error W n) as [p|] eqn:En; cbn [option_map]; [|exact Hclean].
  rewrite aset_append by (eapply key_sorted_nth_above; eassumption).
  assert (Hn : (n < length W)%nat) by (apply nth_error_Some; congruence).
  rewrite load_order_single.
  - rewrite load_batch_entries_torn. apply sort_by_id_sorted. now apply sorted_firstn.
  - rewrite app_length. unfold entries. rewrite map_length, firstn_length. cbn [length]. lia.
Qed.

(* C12_restart_same_tip_linear, general form: the restarted node is in exactly the state the
   original node was in after the delivery of the last block whose file was completely written *)
Theorem restart_same_state_sorted c bsz W n t st :
  key_sorted W -> id_sorted W -> (length W <= bsz)%nat ->
  deliver c (init c) (map p_b (firstn n W)) = Ok st ->
  exists j d', restart c bsz (disk_after (map Write W) n t) = Ok (st, j, d').
Proof.
  intros Hk Hi Hlen Hd. unfold restart. rewrite load_order_sorted_history by assumption.
  destruct (deliver_replay _ _ _ _ Hd) as (j & ->). cbn [bind fst snd]. eauto.
Qed.

(* a linear history: every block is the child of the previous one, with a larger timestamp *)
Fixpoint linear (W : list pblk) : Prop :=
  match W with
  | [] => True
  | p :: t => match t with
              | [] => True
              | q :: _ => b_prev (p_b q) = b_hash (p_b p) /\ p_ts p < p_ts q
                          /\ b_id (p_b q) = b_id (p_b p) + 1 /\ b_hash (p_b p) < HM
              end /\ linear t
  end.

Lemma linear_sorted W : linear W -> key_sorted W /\ id_sorted W.
Proof.
  intros H. split.
  - apply Sorted_StronglySorted; [intros a b c'; unfold key_lt; lia|].
    induction W as [|p t IH]; [constructor|]. destruct H as [H1 H2]. constructor; [now apply IH|].
    destruct t as [|q t']; constructor. destruct H1 as (_ & Ht & _ & Hh). now apply fkey_lt.
  - apply Sorted_StronglySorted; [intros a b c'; unfold id_le; lia|].
    induction W as [|p t IH]; [constructor|]. destruct H as [H1 H2]. constructor; [now apply IH|].
    destruct t as [|q t']; constructor. destruct H1 as (_ & _ & Hid & _). unfold id_le. lia.
Qed.

Theorem restart_same_tip_linear c bsz W n t st :
  linear W -> (length W <= bsz)%nat ->
  deliver c (init c) (map p_b (firstn n W)) = Ok st ->
  exists j d', restart c bsz (disk_after (map Write W) n t) = Ok (st, j, d').
Proof.
  intros Hl. destruct (linear_sorted _ Hl). now apply restart_same_state_sorted.
Qed.

(* ================================================================== *)
(* E. witnesses                                                       *)
(* ================================================================== *)
Definition wc : cfg := (5, false).
Definition wP (ts h p i bf : N) (v : bool) : pblk := mkP ts (wB h p i bf true v).
Definition hashes_p (l : list pblk) : list N := map (fun p => b_hash (p_b p)) l.
Definition tip_of (r : res (state * list op * disk)) : res N :=
  match r with Ok (st, _, _) => latest_hash st | Err => Err | Panic s => Panic s end.
Definition tip_id_of (r : res (state * list op * disk)) : res N :=
  match r with Ok (st, _, _) => latest_id st | Err => Err | Panic s => Panic s end.

(* E1: two competing blocks at height 2.  3 arrives first (and has the LARGER timestamp), 2 second *)
Definition wit_fork_W : list pblk :=
  [wP 100 1 0 1 10 true; wP 300 3 1 2 10 true; wP 200 2 1 2 10 true].

Lemma wit_fork_ok :
  history_check wc (map p_b wit_fork_W) (hashes_p wit_fork_W) = true
  /\ (exists st, deliver wc (init wc) (map p_b wit_fork_W) = Ok st /\ latest_hash st = Ok 3)
  /\ tip_of (restart wc BATCH (disk_after (map Write wit_fork_W) 3 false)) = Ok 2.
Proof.
  split; [vm_compute; reflexivity|]. split; [|vm_compute; reflexivity].
  eexists. split; [vm_compute; reflexivity|]. vm_compute. reflexivity.
Qed.

(* E1b: the same tie at height 2 (block 9: small timestamp, large burn fee, arrives after 2), the node
   then extends 2 with 3 and 4.  After the restart 9 is replayed before 2, stays the tip, and the
   longer chain 2-3-4 never collects the burn fee to displace it: the node comes up two blocks back,
   on the other branch *)
Definition wit_short_W : list pblk :=
  [wP 100 1 0 1 10 true; wP 500 2 1 2 1 true; wP 200 9 1 2 100 true; wP 600 3 2 3 1 true; wP 700 4 3 4 1 true].

Lemma wit_short_ok :
  history_check wc (map p_b wit_short_W) (hashes_p wit_short_W) = true
  /\ (exists st, deliver wc (init wc) (map p_b wit_short_W) = Ok st /\ latest_hash st = Ok 4 /\ latest_id st = Ok 4)
  /\ tip_of (restart wc BATCH (disk_after (map Write wit_short_W) 5 false)) = Ok 9
  /\ tip_id_of (restart wc BATCH (disk_after (map Write wit_short_W) 5 false)) = Ok 2.
Proof.
  split; [vm_compute; reflexivity|]. split.
  { eexists. split; [vm_compute; reflexivity|]. split; vm_compute; reflexivity. }
  split; vm_compute; reflexivity.
Qed.

(* E2: the replay order is parents-first and still not orphan-free.  Block 8 (invalid; stored
   without validation because it arrived as an off-chain sibling of 2) has the smaller timestamp,
   so the restart replays it BEFORE 2: now it is the longest-chain candidate, fails validation and is
   dropped; its child 9 is then replayed while its parent is not stored (the out-of-order branch of
   add_block, listed finding orphan-branch).  The original history was orphan-free. *)
Definition wit_rej_W : list pblk :=
  [wP 100 1 0 1 10 true; wP 500 2 1 2 10 true; wP 200 8 1 2 10 false; wP 600 3 2 3 10 true; wP 300 9 8 3 10 true].

Lemma wit_rej_ok :
  history_check wc (map p_b wit_rej_W) (hashes_p wit_rej_W) = true
  /\ hashes_p (load_order BATCH (disk_after (map Write wit_rej_W) 5 false)) = [1; 8; 2; 9; 3]
  /\ orphan_free_b wc (map p_b wit_rej_W) (init wc)
       (map p_b (load_order BATCH (disk_after (map Write wit_rej_W) 5 false))) = false.
Proof. split; [vm_compute; reflexivity|]. split; vm_compute; reflexivity. Qed.

(* E3: an undecodable file aborts only ITS batch; the next batches are still replayed.  Linear chain
   1..5, the file of 2 is torn (a rewrite during an earlier start-up), batch size 2 instead of 1000:
   batches [1, 2(torn)] [3, 4] [5] -> 1, 3, 4, 5 are replayed, 3 without its parent.  The node ends on
   the disconnected chain 3-4-5 with block 1 off the longest chain and the file of 2 deleted.
   With one batch (size >= 5) only block 1 is replayed. *)
Definition wit_gap_W : list pblk :=
  [wP 100 1 0 1 10 true; wP 200 2 1 2 10 true; wP 300 3 2 3 10 true; wP 400 4 3 4 10 true; wP 500 5 4 5 10 true].
Definition wit_gap_j : list op := map Write wit_gap_W ++ [Write (wP 200 2 1 2 10 true)].

Lemma wit_gap_ok :
  hashes_p (load_order 2 (disk_after wit_gap_j 5 true)) = [1; 3; 4; 5]
  /\ orphan_free_b wc (map p_b wit_gap_W) (init wc) (map p_b (load_order 2 (disk_after wit_gap_j 5 true))) = false
  /\ (exists st j d', restart wc 2 (disk_after wit_gap_j 5 true) = Ok (st, j, d')
        /\ latest_hash st = Ok 5 /\ latest_id st = Ok 5
        /\ option_map s_lc (get_block st 1) = Some false /\ get_block st 2 = None
        /\ lc_hash_at wc (ring st) 1 = None /\ lc_hash_at wc (ring st) 2 = None /\ lc_hash_at wc (ring st) 3 = Some 3
        /\ flat_map op_row j = [1; 1; 1; 3; 1; 4; 1; 5; 0; 2]
        /\ map (fun e => key_hash (fst e)) d' = [1; 3; 4; 5])
  /\ hashes_p (load_order 5 (disk_after wit_gap_j 5 true)) = [1].
Proof.
  split; [vm_compute; reflexivity|]. split; [vm_compute; reflexivity|]. split; [|vm_compute; reflexivity].
  eexists. eexists. eexists. split; [vm_compute; reflexivity|].
  split; [vm_compute; reflexivity|]. split; [vm_compute; reflexivity|]. split; [vm_compute; reflexivity|].
  split; [vm_compute; reflexivity|]. split; [vm_compute; reflexivity|]. split; [vm_compute; reflexivity|].
  split; [vm_compute; reflexivity|]. split; vm_compute; reflexivity.
Qed.


(* non-vacuity of the positive theorems: a history with a fork, a reorganisation (12-13-14
   overtakes 2) and a sibling (3) on the abandoned branch, whose arrival order IS the replay order *)
Fixpoint sortedb {A} (r : A -> A -> bool) (l : list A) : bool :=
  match l with [] => true | x :: t => forallb (r x) t && sortedb r t end.
Lemma sortedb_ok {A} (R : A -> A -> Prop) (r : A -> A -> bool) l :
  (forall a b, r a b = true -> R a b) -> sortedb r l = true -> StronglySorted R l.
Proof.
  intros Hr. induction l as [|x t IH]; cbn [sortedb]; intros H; [constructor|].
  apply andb_true_iff in H as [H1 H2]. constructor; [now apply IH|].
  rewrite forallb_forall in H1. rewrite Forall_forall. intros y Hy. apply Hr. now apply H1.
Qed.

Definition ex_W : list pblk :=
  [wP 100 1 0 1 10 true; wP 200 2 1 2 10 true; wP 300 12 1 2 10 true; wP 400 13 12 3 10 true;
   wP 450 3 2 3 10 true; wP 500 14 13 4 10 true].

Lemma ex_W_sorted : key_sorted ex_W /\ id_sorted ex_W.
Proof.
  split.
  - apply (sortedb_ok _ (fun a b => fkey a <? fkey b)); [intros a b H; unfold key_lt; lia|vm_compute; reflexivity].
  - apply (sortedb_ok _ id_le); [auto|vm_compute; reflexivity].
Qed.

Lemma ex_W_run :
  history_check wc (map p_b ex_W) (hashes_p ex_W) = true
  /\ (exists st, deliver wc (init wc) (map p_b (firstn 4 ex_W)) = Ok st /\ latest_hash st = Ok 13)
  /\ tip_of (restart wc BATCH (disk_after (map Write ex_W) 4 true)) = Ok 13
  /\ tip_of (restart wc BATCH (disk_after (map Write ex_W) 6 false)) = Ok 14.
Proof.
  split; [vm_compute; reflexivity|]. split.
  { eexists. split; [vm_compute; reflexivity|]. vm_compute. reflexivity. }
  split; vm_compute; reflexivity.
Qed.

(* ================================================================== *)
(* F. the replay order of a parent-closed disk is parents-first       *)
(* ================================================================== *)
Lemma map_eq_app_cons {A B} (f : A -> B) l : forall l1 b l2, map f l = l1 ++ b :: l2 ->
  exists L1 p L2, l = L1 ++ p :: L2 /\ map f L1 = l1 /\ f p = b /\ map f L2 = l2.
Proof.
  induction l as [|a l IH]; intros l1 b l2 E; [destruct l1; discriminate|].
  destruct l1 as [|x l1]; cbn [app map] in E.
  - injection E as E1 E2. exists [], a, l. auto.
  - injection E as E1 E2. destruct (IH _ _ _ E2) as (L1 & p & L2 & -> & H1 & H2 & H3).
    exists (a :: L1), p, L2. cbn [app map]. rewrite H1, E1. auto.
Qed.

Lemma load_batch_nodup d : asorted d -> named d -> NoDup (load_batch d).
Proof.
  induction d as [|[k [p0|]] t IH]; intros Hs Hn; cbn [load_batch]; try constructor.
  - intros Hin. apply load_batch_in in Hin as (k' & Hk').
    pose proof (asorted_inv _ _ _ Hs) as [Ht Hk].
    assert (E1 : k = fkey p0) by (apply Hn; cbn [aget]; now rewrite N.eqb_refl).
    assert (E2 : k' = fkey p0) by (apply (named_tail _ _ _ Hs Hn); now apply in_aget).
    apply (in_map fst) in Hk'. specialize (Hk _ Hk'). cbn [fst] in Hk. lia.
  - apply IH; [now apply asorted_inv in Hs|eapply named_tail; eassumption].
Qed.

Theorem disk_parents_first U bsz d :
  asorted d -> named d -> ts_monotone d -> (length d <= bsz)%nat ->
  (forall k p, aget k d = Some (Intact p) ->
     is_root U (p_b p) \/ exists kq q, aget kq d = Some (Intact q) /\ b_prev (p_b p) = b_hash (p_b q)) ->
  (forall k p k' p', aget k d = Some (Intact p) -> aget k' d = Some (Intact p') ->
     is_root U (p_b p) -> is_root U (p_b p') -> k = k') ->
  parents_first U (map p_b (load_order bsz d)).
Proof.
  intros Hs Hn Hm Hlen Hclosed Hone l1 b l2 E.
  apply map_eq_app_cons in E as (L1 & p & L2 & EL & <- & <- & _).
  assert (Hp : exists kp, aget kp d = Some (Intact p)).
  { apply (in_load_order bsz); [exact Hs|]. rewrite EL. apply in_or_app. right. now left. }
  destruct Hp as (kp & Hp).
  destruct (Hclosed _ _ Hp) as [Hroot|(kq & q & Hq & Hl)].
  - destruct L1 as [|a L1']; [left; split; [reflexivity|exact Hroot]|exfalso].
    assert (Ha : exists ka, aget ka d = Some (Intact a)).
    { apply (in_load_order bsz); [exact Hs|]. rewrite EL. now left. }
    destruct Ha as (ka & Ha).
    destruct (Hclosed _ _ Ha) as [Hra|(kq & q & Hq & Hl)].
    + pose proof (Hone _ _ _ _ Ha Hp Hra Hroot) as ->. rewrite Ha in Hp. injection Hp as ->.
      assert (Hnd : NoDup (load_order bsz d)).
      { rewrite load_order_single by exact Hlen. eapply Permutation_NoDup; [symmetry; apply sort_by_perm|].
        now apply load_batch_nodup. }
      rewrite EL in Hnd. cbn [app] in Hnd. inversion Hnd as [|? ? Hni _]; subst. apply Hni.
      apply in_or_app. right. now left.
    + pose proof (load_order_parents_first bsz d Hs Hn Hm Hlen [] a (L1' ++ p :: L2) EL q kq Hq Hl) as [].
  - right. exists (p_b q). split; [|now rewrite Hl].
    apply in_map. eapply load_order_parents_first; eassumption.
Qed.

(* the side condition of restart_safe, discharged for the order the code uses: one batch, names
   ordered like the chain, parent-closed disk with one root, and no replayed block rejected *)
Theorem restart_orphan_free c U bsz d : univ_ok c U -> valid_wf U ->
  asorted d -> named d -> ts_monotone d -> (length d <= bsz)%nat ->
  (forall k p, aget k d = Some (Intact p) -> In (p_b p) U) ->
  (forall k p, aget k d = Some (Intact p) ->
     is_root U (p_b p) \/ exists kq q, aget kq d = Some (Intact q) /\ b_prev (p_b p) = b_hash (p_b q)) ->
  (forall k p k' p', aget k d = Some (Intact p) -> aget k' d = Some (Intact p') ->
     is_root U (p_b p) -> is_root U (p_b p') -> k = k') ->
  accepts c (init c) (map p_b (load_order bsz d)) ->
  orphan_free c U (init c) (map p_b (load_order bsz d)).
Proof.
  intros HU HWF Hs Hn Hm Hlen HinU Hclosed Hone Hacc.
  apply parents_first_orphan_free; try assumption.
  - intros b Hb. apply in_map_iff in Hb as (p & <- & Hp).
    destruct (in_load_order _ _ _ Hs Hp) as (k & Hk). eapply HinU; eassumption.
  - now apply disk_parents_first.
Qed.
