(* C02 — the step theorem for the validation function as it runs in the debug profile. *)
From Saito Require Import Base CV Supply Known CVProofs LedgerProofs SupplyProofs ModeProofs.

Theorem supply_step_debug : forall cap15 cap05 cf st b,
  cf_dbg cf = true -> Inv st -> located b ->
  validate cap15 cap05 cf st b = Ok true ->
  clean cap05 cf st b = true ->
  supply (cf_gp cf) (wind cf st b) = supply (cf_gp cf) st.
Proof.
  intros cap15 cap05 cf st b Hd HI Hl Hv Hc.
  exact (supply_step cap15 cap05 cf st b HI Hl (debug_accept_is_unbounded_accept _ _ _ _ _ Hd Hv) Hc).
Qed.
