(* C02 — conservation of the supply over an accepted block (model/Supply.v, model/CV.v). *)
From Saito Require Import Base CV Supply Known CVProofs LedgerProofs.
From Coq Require Import Permutation.

(* ---------- transaction sums ---------- *)
Lemma sat_sum_acc : forall l acc, acc + sumN l < two64 ->
  fold_left sat_add l acc = acc + sumN l.
Proof.
  induction l as [|x r IH]; intros acc H; cbn [fold_left].
  - rewrite sumN_nil. lia.
  - rewrite sumN_cons in H. rewrite IH.
    + unfold sat_add, U64MAX; rewrite sumN_cons.
      assert (acc + x <= 18446744073709551615) by (unfold two64 in H; lia).
      rewrite N.min_l by assumption. lia.
    + unfold sat_add, U64MAX.
      assert (acc + x <= 18446744073709551615) by (unfold two64 in H; lia).
      rewrite N.min_l by assumption. lia.
Qed.
Lemma sat_sum_exact : forall l, sumN l < two64 -> sat_sum l = sumN l.
Proof. intros l H. unfold sat_sum. rewrite sat_sum_acc; lia. Qed.

Definition slips_no_bound (l : list slip) : Prop := forall s, In s l -> is_bound s = false.

Lemma counted_no_bound : forall l, slips_no_bound l -> map counted l = map s_amt l.
Proof.
  induction l as [|s r IH]; intro H; [reflexivity|].
  cbn [map]. unfold counted at 1. pose proof (H s (or_introl eq_refl)) as Hs. unfold is_bound in Hs. rewrite Hs.
  rewrite IH; auto. intros x Hx. apply H. right. exact Hx.
Qed.

Lemma plain_tx_no_bound : forall t, plain_tx t = true -> slips_no_bound (t_from t) /\ slips_no_bound (t_to t).
Proof.
  intros t H. unfold plain_tx in H. apply andb_prop in H. destruct H as [_ H].
  rewrite forallb_forall in H. split; intros s Hs; apply negb_true_iff; apply H; apply in_or_app; auto.
Qed.

Lemma tx_totals : forall t, plain_tx t = true -> fits t = true ->
  total_in t = sumN (map s_amt (t_from t)) /\ total_out t = sumN (map s_amt (t_to t)).
Proof.
  intros t Hp Hf. destruct (plain_tx_no_bound t Hp) as [Hb1 Hb2].
  unfold fits in Hf. apply andb_prop in Hf. destruct Hf as [Hf1 Hf2].
  apply N.ltb_lt in Hf1. apply N.ltb_lt in Hf2.
  unfold total_in, total_out. rewrite (counted_no_bound _ Hb1), (counted_no_bound _ Hb2).
  rewrite !sat_sum_exact by assumption. auto.
Qed.

(* ---------- what an accepted block satisfies (unbounded arithmetic) ---------- *)
Ltac peel H :=
  repeat match type of H with
  | (if negb (?a =? ?b) then Ok false else _) = Ok true =>
      let E := fresh "E" in destruct (a =? b) eqn:E; cbn [negb] in H; [apply N.eqb_eq in E | discriminate]
  end.

Definition dflt_tx : tx := mkTx 0 0 [] [] 0 0 0 0 false.

Lemma validate_inv : forall cap15 cap05 cf st b,
  validate_m cap15 cap05 cf MInf st b = Ok true ->
  exists c,
    cv_inf cap15 cap05 cf st b = Ok c /\
    (h_total_fees (b_hdr b) = c_total_fees c /\ h_fees_atr (b_hdr b) = c_fees_atr c /\
     h_fees_new (b_hdr b) = c_fees_new c /\ h_pay_atr (b_hdr b) = c_pay_atr c) /\
    ((0 <? c_it_num c) && (1 <? h_id (b_hdr b)) = false) /\
    (match parent_of st with
     | None => True
     | Some pb =>
         h_id (b_hdr b) = h_id (b_hdr pb) + 1 /\
         h_treasury (b_hdr b) + c_pay_atr c = h_treasury (b_hdr pb) + c_pay_treasury c /\
         h_graveyard (b_hdr b) = h_graveyard (b_hdr pb) + c_pay_graveyard c /\
         (match c_gt_index c with
          | Some _ => h_unpaid (b_hdr b) = 0 /\ o_miner (b_orc b) <> 0
          | None => h_unpaid (b_hdr b) = h_total_fees (b_hdr pb)
          end)
     end) /\
    c_rb_slips c = block_rb_slips (b_txs b) /\
    eqb_list sig_eqb (c_rb_hash c) (block_atrs (b_txs b)) = true /\
    same_inputs (block_atrs (b_txs b)) (c_rebroadcasts c) = true /\
    c_ft_num c <= 1 /\
    (0 < c_ft_num c -> exists f, c_fee_tx c = Some f) /\
    (c_ft_num c = 0 -> c_fee_tx c = None) /\
    (forall fi expected, c_ft_index c = Some fi -> c_fee_tx c = Some expected ->
       sig_eqb expected (nth (N.to_nat fi) (b_txs b) dflt_tx) = true) /\
    vsweep cf (st_utxo st) (tip_id st + 1) [] (b_txs b) = true.
Proof.
  intros cap15 cap05 cf st b H. unfold validate_m in H.
  destruct (no_tx_reject st b); [discriminate|].
  unfold validate_body in H.
  destruct (negb (b_sig_ok b)); [discriminate|].
  unfold cv_inf, the_input, new_id.
  destruct (run_cv cap15 cap05 cf MInf st _) as [c| |] eqn:Ec; cbn [bind] in H; try discriminate.
  exists c. split; [reflexivity|].
  peel H.
  destruct ((0 <? c_it_num c) && (1 <? h_id (b_hdr b))) eqn:Eit; [discriminate|].
  match type of H with (do prev_ok <- ?X; _) = _ => destruct X as [pok| |] eqn:Eprev end; cbn [bind] in H; try discriminate.
  destruct pok; cbn [negb] in H; [|discriminate].
  peel H.
  destruct (negb (eqb_list sig_eqb (c_rb_hash c) (block_atrs (b_txs b)))) eqn:Ehash; [discriminate|].
  apply negb_false_iff in Ehash.
  destruct (negb (same_inputs (block_atrs (b_txs b)) (c_rebroadcasts c))) eqn:Esame; [discriminate|].
  apply negb_false_iff in Esame.
  destruct (negb (b_merkle_ok b)); [discriminate|].
  destruct (1 <? c_ft_num c) eqn:Eft1; [discriminate|]. apply N.ltb_ge in Eft1.
  match type of H with (if ?c then _ else _) = _ => destruct c eqn:Eft2 end; [discriminate|].
  match type of H with (if ?c then _ else _) = _ => destruct c eqn:Eft3 end; [discriminate|].
  match type of H with (if negb ?c then _ else _) = _ => destruct c eqn:Efee end; cbn [negb] in H; [|discriminate].
  inversion H as [Hsw]. rewrite Hsw.
  repeat split; auto.
  - (* parent-dependent checks *)
    destruct (parent_of st) as [pb|]; [|exact I].
    cbn [add bind] in Eprev. peel Eprev. cbn [add bind] in Eprev.
    destruct (sub MInf 2112 _ _) as [et| |] eqn:Esub; cbn [bind] in Eprev; try discriminate.
    apply sub_inf_ok in Esub. destruct Esub as [Hle Het].
    peel Eprev. cbn [add bind] in Eprev. peel Eprev.
    destruct (negb (b_work_ok b)); [discriminate|].
    split; [assumption|]. split; [lia|]. split; [lia|].
    destruct (c_gt_index c).
    + peel Eprev. destruct (o_miner (b_orc b) =? 0) eqn:Em; [discriminate|].
      apply N.eqb_neq in Em. split; assumption.
    + peel Eprev. assumption.
  - (* a fee transaction is expected when one is carried *)
    intros Hpos. destruct (c_fee_tx c) as [f|]; [eauto|].
    apply N.ltb_lt in Hpos. rewrite Hpos in Eft2. discriminate.
  - (* and carried when one is expected *)
    intros Hz. destruct (c_fee_tx c) as [f|]; [|reflexivity].
    rewrite Hz in Eft3. discriminate.
  - (* and it is the expected one *)
    intros fi expected Hfi Hexp. rewrite Hfi, Hexp in Efee.
    destruct (c_gt_index c); [exact Efee | discriminate].
Qed.

(* ---------- the final sweep ---------- *)
Lemma add_keys_spec : forall ks seen seen', add_keys seen ks = Some seen' ->
  NoDup seen -> NoDup seen' /\ (forall x, In x seen' <-> In x ks \/ In x seen) /\ NoDup ks /\
  (forall x, In x ks -> ~ In x seen).
Proof.
  induction ks as [|k r IH]; intros seen seen' H Hnd; cbn [add_keys] in H.
  - inversion H; subst. split; [auto|]. split; [intro x; split; [auto | intros [[]|H0]; exact H0]|].
    split; [constructor | intros x []].
  - destruct (existsb (slip_eqb k) seen) eqn:E; [discriminate|].
    assert (Hk : ~ In k seen).
    { intro Hin. assert (existsb (slip_eqb k) seen = true); [|congruence].
      apply existsb_exists. exists k. split; auto. apply slip_eqb_refl. }
    assert (Hnd' : NoDup (k :: seen)) by (constructor; auto).
    destruct (IH (k :: seen) seen' H Hnd') as [H1 [H2 [H3 H4]]].
    split; [auto|]. split; [|split].
    + intro x. rewrite H2. cbn [In]. tauto.
    + constructor; auto. intro Hin. apply (H4 k Hin). left. reflexivity.
    + intros x [Hx|Hx] Hs; [subst; contradiction|]. apply (H4 x Hx). right. exact Hs.
Qed.

(* the value inputs the sweep looks at *)
Definition swept (l : list tx) : list slip :=
  flat_map (fun t => if t_ty t =? TFee then [] else filter valuable (t_from t)) l.

Lemma vsweep_spec : forall cf u next l seen, vsweep cf u next seen l = true -> NoDup seen ->
  (forall t, In t l -> tx_valid cf u next t = true) /\ NoDup (swept l) /\ (forall x, In x (swept l) -> ~ In x seen).
Proof.
  intros cf u next. induction l as [|t r IH]; intros seen H Hnd.
  - cbn [swept flat_map]. repeat split; try constructor; intros ? [].
  - cbn [vsweep] in H. destruct (tx_valid cf u next t) eqn:Ev; cbn [negb] in H; [|discriminate].
    cbn [swept flat_map]. fold (swept r).
    destruct (t_ty t =? TFee) eqn:Efee.
    + destruct (IH seen H Hnd) as [H1 [H2 H3]]. cbn [app]. repeat split; auto.
      intros t' [Ht|Ht]; subst; auto.
    + destruct (add_keys seen (filter valuable (t_from t))) as [seen'|] eqn:Eak; [|discriminate].
      destruct (add_keys_spec _ _ _ Eak Hnd) as [A1 [A2 [A3 A4]]].
      destruct (IH seen' H A1) as [H1 [H2 H3]].
      repeat split.
      * intros t' [Ht|Ht]; subst; auto.
      * apply NoDup_app_intro; auto. intros x Hx Hx'. apply (H3 x Hx'). apply A2. left. exact Hx.
      * intros x Hx Hs. apply in_app_or in Hx. destruct Hx as [Hx|Hx].
        -- apply (A4 x Hx Hs).
        -- apply (H3 x Hx). apply A2. right. exact Hs.
Qed.

(* ---------- located outputs ---------- *)
Lemma relocate_from_spec : forall bid ord l j s,
  In s (relocate_from bid ord j l) -> j + Nlen l <= 256 ->
  s_bid s = bid /\ s_ord s = ord /\ j <= s_idx s < j + Nlen l.
Proof.
  intros bid ord. induction l as [|x r IH]; intros j s H Hlen; [destruct H|].
  unfold Nlen in *. cbn [length] in Hlen. rewrite Nat2N.inj_succ in Hlen.
  cbn [relocate_from In] in H. destruct H as [H|H].
  - subst s. cbn [s_bid s_ord s_idx]. rewrite N.mod_small by lia.
    cbn [length]. rewrite Nat2N.inj_succ. lia.
  - destruct (IH (j + 1) s H) as [H1 [H2 H3]]; [lia|].
    cbn [length]. rewrite Nat2N.inj_succ. lia.
Qed.

Lemma relocate_from_nodup : forall bid ord l j, j + Nlen l <= 256 -> NoDup (relocate_from bid ord j l).
Proof.
  intros bid ord. induction l as [|x r IH]; intros j Hlen; [constructor|].
  unfold Nlen in *. cbn [length] in Hlen. rewrite Nat2N.inj_succ in Hlen.
  cbn [relocate_from]. constructor.
  - intro Hin. apply relocate_from_spec in Hin; [|unfold Nlen; lia].
    cbn [s_idx] in Hin. rewrite N.mod_small in Hin by lia. lia.
  - apply IH. unfold Nlen. lia.
Qed.

Lemma relocate_from_length : forall bid ord l j, length (relocate_from bid ord j l) = length l.
Proof. intros bid ord. induction l; intros; cbn [relocate_from length]; auto. Qed.

Lemma outs_locate_spec : forall bid l i s,
  (forall t, In t l -> Nlen (t_to t) <= 255) ->
  In s (outs (locate bid i l)) -> s_bid s = bid /\ i <= s_ord s.
Proof.
  intros bid. induction l as [|t r IH]; intros i s Hlen H; [destruct H|].
  cbn [locate outs flat_map] in H. fold (outs (locate bid (i + 1) r)) in H.
  apply in_app_or in H. destruct H as [H|H].
  - unfold relocate in H. cbn [t_to] in H. apply relocate_from_spec in H.
    + lia.
    + pose proof (Hlen t (or_introl eq_refl)). lia.
  - destruct (IH (i + 1) s) as [H1 H2]; auto. { intros; apply Hlen; right; assumption. } lia.
Qed.

Lemma outs_locate_nodup : forall bid l i,
  (forall t, In t l -> Nlen (t_to t) <= 255) -> NoDup (outs (locate bid i l)).
Proof.
  intros bid. induction l as [|t r IH]; intros i Hlen; [constructor|].
  cbn [locate outs flat_map]. fold (outs (locate bid (i + 1) r)).
  apply NoDup_app_intro.
  - unfold relocate. cbn [t_to]. apply relocate_from_nodup. pose proof (Hlen t (or_introl eq_refl)). lia.
  - apply IH. intros; apply Hlen; right; assumption.
  - intros x Hx Hx'. unfold relocate in Hx. cbn [t_to] in Hx.
    apply relocate_from_spec in Hx; [|pose proof (Hlen t (or_introl eq_refl)); lia].
    apply outs_locate_spec in Hx'; [|intros; apply Hlen; right; assumption]. lia.
Qed.

Lemma located_outputs : forall b, located b ->
  NoDup (outputs b) /\ forall s, In s (outputs b) -> s_bid s = h_id (b_hdr b).
Proof.
  intros b [Hloc [Hlen _]]. unfold outputs. fold (outs (b_txs b)). rewrite Hloc. split.
  - apply outs_locate_nodup. exact Hlen.
  - intros s Hs. apply outs_locate_spec in Hs; [tauto | exact Hlen].
Qed.

(* ---------- block ids on the chain ---------- *)
Definition bid_of (b : block) : N := h_id (b_hdr b).

Lemma ids_ok_cons2 : forall b p r, ids_ok (b :: p :: r) <-> h_id (b_hdr b) = h_id (b_hdr p) + 1 /\ ids_ok (p :: r).
Proof. intros. reflexivity. Qed.

Lemma ids_ok_bounds : forall l, ids_ok l ->
  match l with
  | [] => False
  | top :: _ => forall blk, In blk l -> 1 <= bid_of blk <= bid_of top
  end.
Proof.
  induction l as [|b r IH]; intro H; [exact H|].
  destruct r as [|p r'].
  - cbn [ids_ok] in H. intros blk [Hb|[]]. subst. unfold bid_of. lia.
  - apply ids_ok_cons2 in H. destruct H as [H1 H2]. specialize (IH H2). cbn beta iota in IH.
    intros blk [Hb|Hb].
    + subst. pose proof (IH p (or_introl eq_refl)). unfold bid_of in *. lia.
    + pose proof (IH blk Hb). unfold bid_of in *. lia.
Qed.

Lemma ids_ok_unique : forall l, ids_ok l -> forall b1 b2, In b1 l -> In b2 l -> bid_of b1 = bid_of b2 -> b1 = b2.
Proof.
  induction l as [|b r IH]; intro H; [destruct H|].
  destruct r as [|p r'].
  - intros b1 b2 [H1|[]] [H2|[]] _. congruence.
  - apply ids_ok_cons2 in H. destruct H as [H1 H2].
    pose proof (ids_ok_bounds _ H2) as Hb. cbn beta iota in Hb.
    intros b1 b2 [Hb1|Hb1] [Hb2|Hb2] Heq.
    + congruence.
    + subst b1. pose proof (Hb b2 Hb2). unfold bid_of in *. lia.
    + subst b2. pose proof (Hb b1 Hb1). unfold bid_of in *. lia.
    + apply (IH H2); auto.
Qed.

Lemma ids_ok_find : forall l, ids_ok l ->
  match l with
  | [] => False
  | top :: _ => forall k, 1 <= k <= bid_of top ->
                exists blk, find (fun b => h_id (b_hdr b) =? k) l = Some blk /\ In blk l /\ bid_of blk = k
  end.
Proof.
  induction l as [|b r IH]; intro H; [exact H|].
  destruct r as [|p r'].
  - cbn [ids_ok] in H. intros k Hk. unfold bid_of in Hk. assert (k = 1) by lia. subst k.
    exists b. cbn [find]. rewrite H, N.eqb_refl. unfold bid_of. auto using in_eq.
  - apply ids_ok_cons2 in H. destruct H as [H1 H2]. specialize (IH H2). cbn beta iota in IH.
    intros k Hk. cbn [find]. destruct (h_id (b_hdr b) =? k) eqn:E.
    + apply N.eqb_eq in E. exists b. unfold bid_of. auto using in_eq.
    + apply N.eqb_neq in E. destruct (IH k) as [blk [Hf [Hi Hid]]].
      { unfold bid_of in *. lia. }
      exists blk. repeat split; auto. right. exact Hi.
Qed.

Lemma block_at_spec : forall st k, ids_ok (st_chain st) -> 1 <= k <= tip_id st ->
  exists blk, block_at st k = Some blk /\ In blk (st_chain st) /\ bid_of blk = k.
Proof.
  intros st k H Hk. unfold block_at. pose proof (ids_ok_find _ H) as Hf.
  unfold tip_id, tip in Hk. destruct (st_chain st) as [|top r]; [destruct H|].
  cbn [hd_error] in Hk. apply Hf. exact Hk.
Qed.

Lemma chain_ids_le_tip : forall st blk, ids_ok (st_chain st) -> In blk (st_chain st) ->
  1 <= bid_of blk <= tip_id st.
Proof.
  intros st blk H Hin. pose proof (ids_ok_bounds _ H) as Hb.
  unfold tip_id, tip. destruct (st_chain st) as [|top r]; [destruct H|].
  cbn [hd_error]. apply Hb. exact Hin.
Qed.

(* ---------- the window moves by one block ---------- *)
Lemma wval_raise : forall lo lo' u, lo <= lo' -> (forall s, In s u -> lo' <= s_bid s) -> wval lo u = wval lo' u.
Proof.
  intros lo lo' u Hle H. induction u as [|s r IH]; [reflexivity|].
  rewrite !wval_cons, IH by (intros; apply H; right; assumption).
  pose proof (H s (or_introl eq_refl)) as Hs. unfold counts_in.
  assert ((lo <=? s_bid s) = true) by (apply N.leb_le; lia).
  assert ((lo' <=? s_bid s) = true) by (apply N.leb_le; lia).
  rewrite H0, H1. reflexivity.
Qed.

Definition at_bid (e : N) (s : slip) : bool := negb (is_bound s) && (s_bid s =? e).

Lemma wval_step : forall e u, wval e u = wval (e + 1) u + sumN (map s_amt (filter (at_bid e) u)).
Proof.
  intros e. induction u as [|s r IH]; [reflexivity|].
  rewrite !wval_cons, IH. cbn [filter]. unfold counts_in, at_bid.
  destruct (negb (is_bound s)); cbn [andb]; [|lia].
  destruct (s_bid s =? e) eqn:E1.
  - apply N.eqb_eq in E1. subst e.
    assert ((s_bid s <=? s_bid s) = true) by (apply N.leb_le; lia).
    assert ((s_bid s + 1 <=? s_bid s) = false) by (apply N.leb_gt; lia).
    rewrite H, H0. cbn [map]. rewrite sumN_cons. lia.
  - apply N.eqb_neq in E1.
    destruct (e <=? s_bid s) eqn:E2.
    + apply N.leb_le in E2. assert ((e + 1 <=? s_bid s) = true) by (apply N.leb_le; lia). rewrite H. lia.
    + apply N.leb_gt in E2. assert ((e + 1 <=? s_bid s) = false) by (apply N.leb_gt; lia). rewrite H. lia.
Qed.

Lemma sum_filter_pos : forall l, sumN (map s_amt (filter pos l)) = sumN (map s_amt l).
Proof.
  induction l as [|s r IH]; [reflexivity|].
  cbn [filter]. unfold pos at 1. destruct (0 <? s_amt s) eqn:E; cbn [map]; rewrite ?sumN_cons, IH.
  - reflexivity.
  - apply N.ltb_ge in E. lia.
Qed.

Lemma sum_perm : forall a b, Permutation a b -> sumN (map s_amt a) = sumN (map s_amt b).
Proof.
  intros a b H. induction H; cbn [map]; rewrite ?sumN_cons; try lia; try reflexivity.
Qed.

Lemma exp_items_sum : forall v etxs,
  sumN (map (fun it : tx * slip => s_amt (snd it)) (exp_items v etxs)) =
  sumN (map s_amt (filter v (flat_map t_to etxs))).
Proof.
  intros v. induction etxs as [|t r IH]; [reflexivity|].
  unfold exp_items in *. cbn [flat_map]. rewrite map_app, sumN_app, IH, filter_app, map_app, sumN_app.
  f_equal. rewrite map_map. cbn [snd]. reflexivity.
Qed.

Lemma expiring_is_atr_etxs : forall cf st b,
  atr_etxs (cf_gp cf) (the_input cf st b) = expiring_txs cf st b.
Proof.
  intros cf st b. unfold atr_etxs, expiring_txs, the_input, cv_input, new_id. cbn [i_id i_expiring].
  destruct (h_id (b_hdr b) <=? cf_gp cf + 1) eqn:E1.
  - apply N.leb_le in E1. assert ((cf_gp cf + 1 <? h_id (b_hdr b)) = false) by (apply N.ltb_ge; lia).
    rewrite H. reflexivity.
  - apply N.leb_gt in E1. assert ((cf_gp cf + 1 <? h_id (b_hdr b)) = true) by (apply N.ltb_lt; lia).
    rewrite H. destruct (block_at st _); reflexivity.
Qed.

Lemma window_shift : forall cf st b,
  Inv st -> new_id b = tip_id st + 1 ->
  Known_C02_nft_expiring cf st b = false ->
  wval (tip_id st - cf_gp cf) (st_utxo st) =
  wval (new_id b - cf_gp cf) (st_utxo st) +
  sumN (map (fun it : tx * slip => s_amt (snd it))
            (exp_items (slip_valid (st_utxo st)) (expiring_txs cf st b))).
Proof.
  intros cf st b HI Hid Hnft. destruct HI as [Hids Hnd Hutxo Hloc _ _].
  set (u := st_utxo st) in *. set (gp := cf_gp cf) in *.
  assert (Hbid : forall s, In s u -> 1 <= s_bid s <= tip_id st).
  { intros s Hs. destruct (Hutxo s Hs) as [_ [blk [Hb [Hbi _]]]].
    pose proof (chain_ids_le_tip st blk Hids Hb). unfold bid_of in *. lia. }
  unfold expiring_txs. fold gp. rewrite Hid.
  destruct (gp + 1 <? tip_id st + 1) eqn:Eact.
  2:{ (* the chain is not older than the window: nothing leaves it *)
    apply N.ltb_ge in Eact. cbn [exp_items flat_map map]. rewrite sumN_nil, N.add_0_r.
    assert (tip_id st - gp = 0) by lia. rewrite H.
    apply wval_raise; [lia|]. intros s Hs. pose proof (Hbid s Hs). lia. }
  apply N.ltb_lt in Eact.
  set (e := tip_id st - gp).
  assert (He : tip_id st + 1 - (gp + 1) = e) by (unfold e; lia).
  assert (He1 : tip_id st + 1 - gp = e + 1) by (unfold e; lia).
  rewrite He, He1.
  destruct (block_at_spec st e Hids) as [eb [Hat [Hin Hide]]]; [unfold e; lia|].
  rewrite Hat. rewrite wval_step. f_equal.
  rewrite exp_items_sum. fold (outputs eb).
  (* the guard: the expiring block has no Bound outputs *)
  assert (Hnb : forall s, In s (outputs eb) -> is_bound s = false).
  { unfold Known_C02_nft_expiring, expiring_txs in Hnft. fold gp in Hnft. rewrite Hid in Hnft.
    assert (Hlt : (gp + 1 <? tip_id st + 1) = true) by (apply N.ltb_lt; lia).
    rewrite Hlt, He, Hat in Hnft. apply negb_false_iff in Hnft. rewrite forallb_forall in Hnft.
    intros s Hs. unfold outputs in Hs. apply in_flat_map in Hs. destruct Hs as [t [Ht Hs]].
    specialize (Hnft t Ht). rewrite forallb_forall in Hnft. apply negb_true_iff. apply Hnft. exact Hs. }
  destruct (located_outputs eb (Hloc eb Hin)) as [Hnd_out Hbid_out].
  rewrite <- (sum_filter_pos (filter (slip_valid u) (outputs eb))).
  apply sum_perm. apply NoDup_Permutation.
  - apply NoDup_filter. exact Hnd.
  - apply NoDup_filter, NoDup_filter. exact Hnd_out.
  - intro x. rewrite !filter_In. unfold at_bid, pos, slip_valid. split.
    + intros [Hx Hc]. apply andb_prop in Hc. destruct Hc as [Hc1 Hc2]. apply N.eqb_eq in Hc2.
      destruct (Hutxo x Hx) as [Hpos [blk [Hb [Hbi Ho]]]].
      assert (blk = eb). { apply (ids_ok_unique _ Hids); auto. unfold bid_of in *. congruence. }
      subst blk. apply N.ltb_lt in Hpos. rewrite Hpos. repeat split; auto.
      apply in_utxo_In. exact Hx.
    + intros [[Ho Hv] Hp]. rewrite Hp in Hv. apply in_utxo_In in Hv.
      split; auto. rewrite (Hnb x Ho). cbn [negb andb]. apply N.eqb_eq.
      rewrite (Hbid_out x Ho). exact Hide.
Qed.

(* ---------- the transactions of a plain block by kind ---------- *)
Lemma plain_kinds : forall t, plain_tx t = true -> is_ty TIssuance t = false ->
  (counts_fee t = true /\ is_ty TATR t = false /\ is_ty TFee t = false) \/
  (counts_fee t = false /\ is_ty TATR t = true /\ is_ty TFee t = false) \/
  (counts_fee t = false /\ is_ty TATR t = false /\ is_ty TFee t = true).
Proof.
  intros t H Hi. unfold plain_tx in H. apply andb_prop in H. destruct H as [H _].
  apply negb_true_iff in H. unfold counts_fee, is_ty in *. rewrite H, Hi.
  destruct (t_ty t =? TFee) eqn:E1; [apply N.eqb_eq in E1; rewrite E1; cbn; tauto|].
  destruct (t_ty t =? TATR) eqn:E2; cbn; tauto.
Qed.

Lemma sum_split_plain : forall (f : tx -> N) l, forallb plain_tx l = true ->
  (forall t, In t l -> is_ty TIssuance t = false) ->
  sumN (map f l) = sumN (map f (filter counts_fee l)) + sumN (map f (filter (is_ty TATR) l))
                   + sumN (map f (filter (is_ty TFee) l)).
Proof.
  intros f. induction l as [|t r IH]; intros H Hi; [reflexivity|].
  cbn [forallb] in H. apply andb_prop in H. destruct H as [Ht Hr].
  cbn [map filter]. rewrite sumN_cons, (IH Hr) by (intros; apply Hi; right; assumption).
  destruct (plain_kinds t Ht (Hi t (or_introl eq_refl))) as [[A [B C]]|[[A [B C]]|[A [B C]]]]; rewrite A, B, C; cbn [map]; rewrite ?sumN_cons; lia.
Qed.

(* exactly one transaction of a kind: the index the sweep remembers points at it *)
Lemma last_index_none : forall f l i acc, filter f l = [] -> last_index f i l acc = acc.
Proof.
  intros f. induction l as [|t r IH]; intros i acc H; [reflexivity|].
  cbn [filter] in H. cbn [last_index]. destruct (f t); [discriminate|]. apply IH. exact H.
Qed.

Lemma last_index_unique : forall f l i acc t, filter f l = [t] ->
  exists j, last_index f i l acc = Some (i + N.of_nat j) /\ nth j l dflt_tx = t.
Proof.
  intros f. induction l as [|x r IH]; intros i acc t H; [discriminate|].
  cbn [filter] in H. cbn [last_index]. destruct (f x) eqn:E.
  - inversion H; subst. exists 0%nat. rewrite (last_index_none f r (i + 1) (Some i) H2).
    split; [f_equal; lia | reflexivity].
  - destruct (IH (i + 1) acc t H) as [j [H1 H2]]. exists (S j). split; [rewrite H1; f_equal; lia | exact H2].
Qed.

(* ---------- what the hash binds ---------- *)
Lemma sig_slips_amounts : forall a b, eqb_list sig_slip_eqb a b = true -> map s_amt a = map s_amt b.
Proof.
  induction a as [|x r IH]; intros [|y r'] H; cbn [eqb_list] in H; try discriminate; [reflexivity|].
  apply andb_prop in H. destruct H as [H1 H2]. cbn [map]. rewrite (IH _ H2). f_equal.
  unfold sig_slip_eqb in H1. repeat (apply andb_prop in H1; destruct H1 as [H1 ?]).
  repeat match goal with H : (_ =? _) = true |- _ => apply N.eqb_eq in H end. lia.
Qed.

Lemma sig_eqb_outs : forall a b, sig_eqb a b = true -> outs_sum a = outs_sum b /\ (t_from a = [] -> t_from b = []).
Proof.
  intros a b H. unfold sig_eqb in H. repeat (apply andb_prop in H; destruct H as [H ?]).
  split.
  - unfold outs_sum. f_equal. apply sig_slips_amounts. assumption.
  - intro Hf. rewrite Hf in *. destruct (t_from b); [reflexivity|].
    match goal with H : eqb_list sig_slip_eqb [] _ = true |- _ => cbn in H; discriminate end.
Qed.

Lemma sig_list_outs : forall l1 l2, eqb_list sig_eqb l1 l2 = true ->
  sumN (map outs_sum l1) = sumN (map outs_sum l2).
Proof.
  induction l1 as [|a r IH]; intros [|b r'] H; cbn [eqb_list] in H; try discriminate; [reflexivity|].
  apply andb_prop in H. destruct H as [H1 H2]. cbn [map]. rewrite !sumN_cons, (IH _ H2).
  destruct (sig_eqb_outs a b H1) as [E _]. lia.
Qed.

(* ---------- purge of the block that is two windows old ---------- *)
Lemma utxo_remove_absent : forall u s, ~ In s u -> utxo_remove u s = u.
Proof.
  intros u s H. unfold utxo_remove. induction u as [|x r IH]; [reflexivity|].
  cbn [filter]. destruct (slip_eqb s x) eqn:E.
  - apply slip_eqb_eq in E. subst. exfalso. apply H. left. reflexivity.
  - cbn [negb]. rewrite IH; auto. intro Hin. apply H. right. exact Hin.
Qed.

Lemma remove_fold_harmless : forall lo L u,
  (forall s, In s L -> counts_in lo s = false \/ s_amt s = 0) ->
  (forall x, In x u -> 0 < s_amt x) ->
  wval lo (fold_left utxo_remove L u) = wval lo u /\ (forall x, In x (fold_left utxo_remove L u) -> 0 < s_amt x).
Proof.
  intros lo. induction L as [|s r IH]; intros u HL Hu; cbn [fold_left]; [auto|].
  assert (Hu' : forall x, In x (utxo_remove u s) -> 0 < s_amt x).
  { intros x Hx. apply In_utxo_remove in Hx. apply Hu. tauto. }
  destruct (IH (utxo_remove u s)) as [H1 H2]; auto.
  { intros; apply HL; right; assumption. }
  split; auto. rewrite H1.
  destruct (HL s (or_introl eq_refl)) as [Hc|Hz].
  - apply wval_remove_out. exact Hc.
  - rewrite utxo_remove_absent; auto. intro Hin. apply Hu in Hin. lia.
Qed.

Lemma delete_fold_harmless : forall lo (l : list tx) u,
  (forall t s, In t l -> In s (t_from t ++ t_to t) -> counts_in lo s = false \/ s_amt s = 0) ->
  (forall x, In x u -> 0 < s_amt x) ->
  wval lo (fold_left delete_tx l u) = wval lo u /\ (forall x, In x (fold_left delete_tx l u) -> 0 < s_amt x).
Proof.
  intros lo. induction l as [|t r IH]; intros u HL Hu; cbn [fold_left]; [auto|].
  unfold delete_tx at 2 4. 
  destruct (remove_fold_harmless lo (t_from t) u) as [A1 A2]; auto.
  { intros s Hs. apply (HL t s); [left; reflexivity | apply in_or_app; auto]. }
  destruct (remove_fold_harmless lo (t_to t) (fold_left utxo_remove (t_from t) u)) as [B1 B2]; auto.
  { intros s Hs. apply (HL t s); [left; reflexivity | apply in_or_app; auto]. }
  destruct (IH (fold_left utxo_remove (t_to t) (fold_left utxo_remove (t_from t) u))) as [C1 C2]; auto.
  { intros t' s Ht' Hs. apply (HL t' s); [right; assumption | assumption]. }
  split; auto. rewrite C1, B1, A1. reflexivity.
Qed.

(* ---------- the step theorem ---------- *)
Lemma find_skip : forall (f : block -> bool) x l, f x = false -> find f (x :: l) = find f l.
Proof. intros f x l H. cbn [find]. rewrite H. reflexivity. Qed.

Lemma clean_split : forall cap05 cf st b, clean cap05 cf st b = true ->
  Known_C02_bound_or_spv b = false /\ Known_C02_nft_expiring cf st b = false /\
  forallb fits (b_txs b) = true /\ cap05 (parent_treasury st) < U64MAX.
Proof.
  intros cap05 cf st b H. unfold clean in H.
  repeat (apply andb_prop in H; destruct H as [H ?]).
  repeat match goal with H : negb _ = true |- _ => apply negb_true_iff in H end.
  match goal with H : Known_C02_saturated _ _ _ = false |- _ =>
    unfold Known_C02_saturated in H; apply negb_false_iff in H; apply andb_prop in H; destruct H as [Hf Hc] end.
  apply N.ltb_lt in Hc.
  repeat split; assumption.
Qed.

Lemma supply_unfold : forall gp st top, tip st = Some top ->
  supply gp st = wval (h_id (b_hdr top) - gp) (st_utxo st) + reservoirs (b_hdr top).
Proof. intros gp st top H. unfold supply. rewrite H. reflexivity. Qed.

Lemma user_tx_counts : forall t, user_tx t = counts_fee t.
Proof.
  intro t. unfold user_tx, utxo_checked, counts_fee.
  destruct (t_ty t =? TFee), (t_ty t =? TSPV), (t_ty t =? TATR), (t_ty t =? TIssuance); reflexivity.
Qed.

Lemma countb_zero : forall (f : tx -> bool) l, countb f l = 0 -> forall t, In t l -> f t = false.
Proof.
  intros f l H t Ht. unfold countb in H. destruct (f t) eqn:E; [|reflexivity].
  assert (In t (filter f l)) by (apply filter_In; auto).
  destruct (filter f l); [destruct H0 | cbn [length] in H; lia].
Qed.

Lemma expiring_on_chain : forall cf st b, expiring_txs cf st b = [] \/
  exists e, In e (st_chain st) /\ expiring_txs cf st b = b_txs e /\ h_id (b_hdr e) = new_id b - (cf_gp cf + 1).
Proof.
  intros cf st b. unfold expiring_txs. destruct (cf_gp cf + 1 <? new_id b); [|auto].
  unfold block_at. destruct (find _ (st_chain st)) as [e|] eqn:E; [|auto].
  apply find_some in E. destruct E as [E1 E2]. apply N.eqb_eq in E2. right. exists e. auto.
Qed.

(* the inputs of the carried rebroadcasts are those of the expected ones *)
Lemma same_inputs_from : forall E C, eqb_list sig_eqb E C = true -> same_inputs C E = true ->
  forall t, In t C -> exists e, In e E /\ t_from t = t_from e.
Proof.
  induction E as [|e r IH]; intros [|c r'] Hh Hs t Ht; cbn [eqb_list] in Hh; try discriminate; [destruct Ht|].
  apply andb_prop in Hh. destruct Hh as [_ Hh]. cbn [same_inputs] in Hs. apply andb_prop in Hs. destruct Hs as [Hs1 Hs2].
  destruct Ht as [Ht|Ht].
  - subst c. exists e. split; [left; reflexivity|].
    clear - Hs1. revert Hs1. generalize (t_from e). induction (t_from t) as [|x l IHl]; intros [|y l'] H; cbn [eqb_list] in H; try discriminate; auto.
    apply andb_prop in H. destruct H as [Hx Hl]. apply slip_eqb_eq in Hx. subst. f_equal. apply IHl. exact Hl.
  - destruct (IH r' Hh Hs2 t Ht) as [e' [He' Hf]]. exists e'. split; [right; exact He' | exact Hf].
Qed.

(* everything the theorems need to know about an accepted block outside the three classes *)
Record Facts (cap15 cap05 : N -> N) (cf : config) (st : state) (b : block)
             (c : cv) (pb : block) (rest : list block) (r : atr_out) (p : pay_out) : Prop := mkFacts {
  f_chain : st_chain st = pb :: rest;
  f_id : new_id b = tip_id st + 1;
  f_tid : tip_id st = h_id (b_hdr pb);
  f_gp : cf_gp cf <> 0;
  f_cv : gcv cap15 cap05 MInf (cf_gp cf) (slip_valid (st_utxo st)) (the_input cf st b) = Ok c;
  f_hdr : h_total_fees (b_hdr b) = c_total_fees c /\ h_fees_atr (b_hdr b) = c_fees_atr c /\
          h_fees_new (b_hdr b) = c_fees_new c /\ h_pay_atr (b_hdr b) = c_pay_atr c;
  f_treasury : h_treasury (b_hdr b) + c_pay_atr c = h_treasury (b_hdr pb) + c_pay_treasury c;
  f_graveyard : h_graveyard (b_hdr b) = h_graveyard (b_hdr pb) + c_pay_graveyard c;
  f_unpaid : match c_gt_index c with
             | Some _ => h_unpaid (b_hdr b) = 0 /\ o_miner (b_orc b) <> 0
             | None => h_unpaid (b_hdr b) = h_total_fees (b_hdr pb)
             end;
  f_fees_new : c_fees_new c = fees_new_of (b_txs b);
  f_total : c_total_fees c = c_fees_new c + c_fees_atr c;
  f_gti : c_gt_index c = last_index (is_ty TGolden) 0 (b_txs b) None;
  f_plain : forall t, In t (b_txs b) -> plain_tx t = true;
  f_fits : forall t, In t (b_txs b) -> fits t = true;
  f_noiss : forall t, In t (b_txs b) -> is_ty TIssuance t = false;
  f_valid : forall t, In t (b_txs b) -> tx_valid cf (st_utxo st) (tip_id st + 1) t = true;
  f_swept : NoDup (swept (b_txs b));
  f_feesum : sumN (map outs_sum (filter (is_ty TFee) (b_txs b))) = fee_out_sum (c_fee_tx c);
  f_feefrom : forall t, In t (b_txs b) -> is_ty TFee t = true -> t_from t = [];
  f_ubid : forall s, In s (st_utxo st) -> 0 < s_amt s /\ 1 <= s_bid s <= tip_id st;
  f_ins : forall x, In x (ins (b_txs b)) -> 0 < s_amt x -> In x (st_utxo st);
  f_nb : txs_no_bound (atr_etxs (cf_gp cf) (the_input cf st b)) = true;
  f_cap : cap05 (pv (the_input cf st b) h_treasury) < U64MAX;
  f_atr : atr_section cap05 MInf (cf_gp cf) (slip_valid (st_utxo st)) (the_input cf st b) (c_fees_new c) = Ok r;
  f_atr_fields : c_fees_atr c = r_fees r /\ c_pay_atr c = r_payout r /\ c_rb_hash c = r_hash r /\
                 c_rebroadcasts c = r_rbs r /\ c_cap c = r_cap r;
  f_hash : eqb_list sig_eqb (c_rb_hash c) (block_atrs (b_txs b)) = true;
  f_atrfrom : forall t, In t (b_txs b) -> is_ty TATR t = true ->
              exists it, In it (atr_items (cf_gp cf) (slip_valid (st_utxo st)) (the_input cf st b)) /\ t_from t = [snd it];
  f_pay : exists nonfee, payouts cap15 MInf (the_input cf st b) (c_gt_index c) nonfee = Ok p;
  f_pay_fields : c_pay_treasury c = p_treasury p /\ c_pay_graveyard c = p_graveyard p /\
                 c_pay_mining c = p_mining p /\ c_fee_tx c = p_fee_tx p
}.

Lemma block_facts : forall cap15 cap05 cf st b,
  Inv st -> located b ->
  validate_m cap15 cap05 cf MInf st b = Ok true ->
  clean cap05 cf st b = true ->
  exists c pb rest r p, Facts cap15 cap05 cf st b c pb rest r p.
Proof.
  intros cap15 cap05 cf st b HI Hlocb Hval Hclean.
  destruct (clean_split _ _ _ _ Hclean) as [G1 [G2 [G9 Gcap]]].
  destruct (validate_inv _ _ _ _ _ Hval) as [c [Hcv [Htf [Hitn [Hprev [_ [Hhash [Hsame [Hft1 [Hftex [Hftnone [Hftsig Hsweep]]]]]]]]]]]].
  pose proof HI as HI'. destruct HI' as [Hids Hnd Hutxo Hloc Hunpaid Hinputs].
  set (gp := cf_gp cf) in *. set (u := st_utxo st) in *. set (txs := b_txs b) in *.
  destruct (st_chain st) as [|pb rest] eqn:Echain; [destruct Hids|].
  assert (Htip : tip st = Some pb) by (unfold tip; rewrite Echain; reflexivity).
  assert (Hpar : parent_of st = Some pb) by exact Htip.
  assert (Htid : tip_id st = h_id (b_hdr pb)) by (unfold tip_id; rewrite Htip; reflexivity).
  rewrite Hpar in Hprev. destruct Hprev as [Hid [Htre [Hgra Hunp]]].
  assert (G8 : new_id b = tip_id st + 1) by (unfold new_id; lia).
  unfold Known_C02_bound_or_spv in G1. apply negb_false_iff in G1. fold txs in G1.
  fold txs in G9.
  assert (Hcapl : cap05 (pv (the_input cf st b) h_treasury) < U64MAX).
  { unfold parent_treasury in Gcap. rewrite Hpar in Gcap. unfold pv, the_input, cv_input. cbn [i_prev].
    rewrite Hpar. exact Gcap. }
  rewrite forallb_forall in G1. rewrite forallb_forall in G9.
  assert (Hnb : txs_no_bound (atr_etxs gp (the_input cf st b)) = true).
  { unfold gp. rewrite expiring_is_atr_etxs. unfold Known_C02_nft_expiring in G2.
    apply negb_false_iff in G2. exact G2. }
  unfold cv_inf, run_cv in Hcv. fold (the_input cf st b) in Hcv. fold gp u in Hcv.
  destruct (gcv_inf _ _ _ _ _ _ Hcv)
    as [Hgp [Cfn [Ctf [Cftn [Cfti [Cgti [Citn [[r [Hr [Cfa [Cpa [Chash [Crbs [_ [_ [_ Ccap]]]]]]]]] [p [nonfee [Hpay [Cpt [Cpg [Cpm Cftx]]]]]]]]]]]]]].
  assert (Hitxs : i_txs (the_input cf st b) = txs) by reflexivity.
  rewrite Hitxs in *.
  destruct (atr_section_balance _ _ _ _ _ _ Hnb Hcapl Hr) as [_ [Hrbs Hrfrom]].
  (* no issuance after the first block *)
  assert (Hids' : ids_ok (st_chain st)) by (rewrite Echain; exact Hids).
  assert (Htip1 : 1 <= tip_id st).
  { pose proof (chain_ids_le_tip st pb Hids' ltac:(rewrite Echain; left; reflexivity)). unfold bid_of in *. lia. }
  assert (Hnoiss : forall t, In t txs -> is_ty TIssuance t = false).
  { apply countb_zero. rewrite <- Citn.
    assert (E : (1 <? h_id (b_hdr b)) = true) by (apply N.ltb_lt; lia).
    rewrite E, andb_true_r in Hitn. apply N.ltb_ge in Hitn. lia. }
  (* every transaction is valid, value inputs pairwise distinct *)
  destruct (vsweep_spec _ _ _ _ _ Hsweep (NoDup_nil _)) as [Hvalid [Hndsw _]].
  fold txs u in Hvalid, Hndsw.
  (* the fee transaction *)
  assert (Hfeetx : sumN (map outs_sum (filter (is_ty TFee) txs)) = fee_out_sum (c_fee_tx c)
                   /\ forall t, In t txs -> is_ty TFee t = true -> t_from t = []).
  { unfold countb in Cftn.
    destruct (filter (is_ty TFee) txs) as [|ft [|ft2 r0]] eqn:Ef.
    - split.
      + cbn [map length] in *. rewrite sumN_nil. rewrite (Hftnone Cftn). reflexivity.
      + intros t Ht Hty. assert (In t (filter (is_ty TFee) txs)) by (apply filter_In; auto).
        rewrite Ef in H. destruct H.
    - destruct (last_index_unique (is_ty TFee) txs 0 None ft Ef) as [j [Hj Hn]].
      rewrite <- Cfti in Hj.
      destruct (Hftex ltac:(rewrite Cftn; cbn; lia)) as [f Hf].
      pose proof (Hftsig _ _ Hj Hf) as Hsig. rewrite N.add_0_l, Nat2N.id, Hn in Hsig.
      destruct (sig_eqb_outs _ _ Hsig) as [Ho Hfrom].
      assert (Hfempty : t_from f = []).
      { rewrite Cftx in Hf. destruct (c_gt_index c) as [gi|] eqn:Egi.
        - destruct (payouts_gt_inf _ _ _ _ _ Hpay) as [_ [f' [Hf' [_ Hfr]]]]. congruence.
        - destruct (payouts_nogt_inf _ _ _ _ _ Hpay) as [Hnone _]. congruence. }
      split.
      + cbn [map]. rewrite sumN_cons, sumN_nil, Hf. cbn [fee_out_sum]. lia.
      + intros t Ht Hty. assert (Hin : In t (filter (is_ty TFee) txs)) by (apply filter_In; auto).
        rewrite Ef in Hin. destruct Hin as [Hin|[]]. subst t. auto.
    - cbn [length] in Cftn. rewrite Cftn in Hft1. lia. }
  destruct Hfeetx as [Hfeesum Hfeefrom].
  assert (Hubid : forall s, In s u -> 0 < s_amt s /\ 1 <= s_bid s <= tip_id st).
  { intros s Hs. destruct (Hutxo s Hs) as [Hp [blk [Hb [Hbi _]]]]. split; auto.
    rewrite <- Echain in Hb.
    pose proof (chain_ids_le_tip st blk Hids' Hb). unfold bid_of in *. lia. }
  assert (Hins_in : forall x, In x (ins txs) -> 0 < s_amt x -> In x u).
  { intros x Hx Hp. unfold ins in Hx. apply in_flat_map in Hx. destruct Hx as [t [Ht Hx]].
    pose proof (Hvalid t Ht) as Hv. unfold tx_valid in Hv.
    apply andb_prop in Hv. destruct Hv as [_ Hl]. unfold tx_ledger in Hl.
    apply andb_prop in Hl. destruct Hl as [_ Hl].
    destruct (is_ty TFee t) eqn:Efee.
    - rewrite (Hfeefrom t Ht Efee) in Hx. destruct Hx.
    - assert (Huc : utxo_checked t = true).
      { unfold utxo_checked. unfold is_ty in Efee. rewrite Efee.
        pose proof (G1 t Ht) as Hpl. unfold plain_tx in Hpl. apply andb_prop in Hpl. destruct Hpl as [Hpl _].
        apply negb_true_iff in Hpl. rewrite Hpl. reflexivity. }
      rewrite Huc in Hl. cbn [negb orb] in Hl.
      apply andb_prop in Hl. destruct Hl as [_ Hall].
      rewrite forallb_forall in Hall. specialize (Hall x Hx). unfold slip_valid in Hall.
      apply N.ltb_lt in Hp. rewrite Hp in Hall. apply in_utxo_In. exact Hall. }
  (* the rebroadcasts of the block consume the outputs that leave the window *)
  assert (Hatrfrom : forall t, In t txs -> is_ty TATR t = true ->
            exists it, In it (atr_items gp (slip_valid u) (the_input cf st b)) /\ t_from t = [snd it]).
  { intros t Ht Hty.
    assert (Hin : In t (block_atrs txs)) by (unfold block_atrs; apply filter_In; auto).
    rewrite Crbs, Hrbs, <- Chash in Hsame.
    destruct (same_inputs_from _ _ Hhash Hsame t Hin) as [e [He Hf]].
    rewrite Chash in He. destruct (Hrfrom e He) as [it [Hit Hfe]]. exists it. split; auto. congruence. }
  exists c, pb, rest, r, p.
  constructor; auto.
  exists nonfee. exact Hpay.
Qed.

Theorem supply_step : forall cap15 cap05 cf st b,
  Inv st -> located b ->
  validate_m cap15 cap05 cf MInf st b = Ok true ->
  clean cap05 cf st b = true ->
  supply (cf_gp cf) (wind cf st b) = supply (cf_gp cf) st.
Proof.
  intros cap15 cap05 cf st b HI Hlocb Hval Hclean.
  destruct (block_facts _ _ _ _ _ HI Hlocb Hval Hclean) as [c [pb [rest [r [p F]]]]].
  destruct F as [Echain G8 Htid Hgp Hcv Htf Htre Hgra Hunp Cfn Ctf Cgti G1 G9 Hnoiss Hvalid Hndsw
                 Hfeesum Hfeefrom Hubid Hins_in Hnb Hcapl Hr [Cfa [Cpa [Chash [Crbs Ccap]]]] Hhash Hatrfrom [nonfee Hpay]
                 [Cpt [Cpg [Cpm Cftx]]]].
  destruct (clean_split _ _ _ _ Hclean) as [_ [G2 _]].
  pose proof HI as HI'. destruct HI' as [Hids Hnd Hutxo Hloc Hunpaid Hinputs].
  set (gp := cf_gp cf) in *. set (u := st_utxo st) in *. set (txs := b_txs b) in *.
  assert (Htip : tip st = Some pb) by (unfold tip; rewrite Echain; reflexivity).
  assert (Hpar : parent_of st = Some pb) by exact Htip.
  rewrite Echain in Hids, Hunpaid.
  set (items := atr_items gp (slip_valid u) (the_input cf st b)) in *.
  destruct (atr_section_balance _ _ _ _ _ _ Hnb Hcapl Hr) as [Hbal _]. fold items in Hbal.
  rewrite <- Chash, <- Cfa, <- Cpa in Hbal.
  apply sig_list_outs in Hhash. unfold block_atrs in Hhash. fold txs in Hhash.
  change (filter (fun t : tx => t_ty t =? TATR) txs) with (filter (is_ty TATR) txs) in Hhash.
  (* facts about the slips of the block *)
  destruct (located_outputs b Hlocb) as [Hndout Hbidout]. unfold outputs in Hndout, Hbidout.
  fold txs in Hndout, Hbidout. fold (outs txs) in Hndout, Hbidout.
  assert (Hsep : separated txs).
  { intros x Hx Hp Ho. pose proof (Hubid x (Hins_in x Hx Hp)). pose proof (Hbidout x Ho).
    unfold new_id in G8. lia. }
  assert (Hswept : filter pos (ins txs) = swept txs).
  { unfold ins, swept. clear - G1 Hfeefrom.
    assert (forall l, (forall t, In t l -> In t txs) -> filter pos (flat_map t_from l) =
              flat_map (fun t => if t_ty t =? TFee then [] else filter valuable (t_from t)) l).
    { induction l as [|t r IH]; intro Hsub; [reflexivity|].
      cbn [flat_map]. rewrite filter_app, IH by (intros; apply Hsub; right; assumption). f_equal.
      pose proof (Hsub t (or_introl eq_refl)) as Ht.
      destruct (t_ty t =? TFee) eqn:E.
      - rewrite (Hfeefrom t Ht E). reflexivity.
      - destruct (plain_tx_no_bound t (G1 t Ht)) as [Hb _].
        apply filter_ext_in. intros s Hs. unfold pos, valuable.
        destruct (s_amt s) eqn:Ea; reflexivity. }
    apply H. auto. }
  assert (Hndins : NoDup (filter pos (ins txs))) by (rewrite Hswept; exact Hndsw).
  assert (Houts_new : forall x, In x (outs txs) -> 0 < s_amt x -> ~ In x u).
  { intros x Hx _ Hin. pose proof (Hubid x Hin). pose proof (Hbidout x Hx). unfold new_id in G8. lia. }
  set (lo := new_id b - gp).
  pose proof (wind_value lo txs u Hnd Hsep Hndins (NoDup_filter _ Hndout) Hins_in Houts_new) as Hwv.
  (* the outputs all count *)
  assert (Houtval : wval lo (outs txs) = sumN (map outs_sum txs)).
  { unfold outs. rewrite wval_flat_map. f_equal. apply map_ext_in. intros t Ht.
    unfold outs_sum. apply wval_all_in. intros s Hs. unfold counts_in.
    destruct (plain_tx_no_bound t (G1 t Ht)) as [_ Hb]. rewrite (Hb s Hs). cbn [negb andb].
    apply N.leb_le. assert (In s (outs txs)) by (unfold outs; apply in_flat_map; eauto).
    rewrite (Hbidout s H). unfold lo, new_id. lia. }
  (* the inputs: those of user transactions count, those of rebroadcasts do not *)
  assert (Hinval : wval lo (ins txs) = sumN (map (fun t => sumN (map s_amt (t_from t))) (filter counts_fee txs))).
  { unfold ins. rewrite wval_flat_map.
    rewrite (sum_split_plain (fun t => wval lo (t_from t)) txs) by (try apply forallb_forall; assumption).
    assert (Ha : sumN (map (fun t => wval lo (t_from t)) (filter (is_ty TATR) txs)) = 0).
    { assert (forall l, (forall t, In t l -> In t txs /\ is_ty TATR t = true) ->
                sumN (map (fun t => wval lo (t_from t)) l) = 0).
      { induction l as [|t r0 IH]; intro Hl; [reflexivity|]. cbn [map]. rewrite sumN_cons, IH by (intros; apply Hl; right; assumption).
        destruct (Hl t (or_introl eq_refl)) as [Ht Hty].
        destruct (Hatrfrom t Ht Hty) as [it [Hit Hf]]. rewrite Hf.
        (* the input is an output of the block that leaves the window *)
        assert (Hold : s_bid (snd it) < lo \/ s_amt (snd it) = 0).
        { unfold items, atr_items, gp in Hit. rewrite expiring_is_atr_etxs in Hit.
          destruct (expiring_on_chain cf st b) as [He|[e [Hein [He Heid]]]]; rewrite He in Hit.
          - destruct Hit.
          - unfold exp_items in Hit. apply in_flat_map in Hit. destruct Hit as [t0 [Ht0 Hit]].
            apply in_map_iff in Hit. destruct Hit as [s0 [Hs0 Hf0]]. subst it. cbn [snd].
            apply filter_In in Hf0. destruct Hf0 as [Hs0 _].
            assert (Ho : In s0 (outputs e)) by (unfold outputs; apply in_flat_map; eauto).
            destruct (located_outputs e (Hloc e Hein)) as [_ Hb]. rewrite (Hb s0 Ho), Heid.
            left. unfold lo, new_id in *. fold gp.
            pose proof (chain_ids_le_tip st e ltac:(rewrite Echain; exact Hids) Hein) as Hle. unfold bid_of in Hle.
            rewrite Heid in Hle. unfold new_id in Hle. fold gp in Hle. lia. }
        rewrite wval_cons, wval_nil. unfold counts_in.
        destruct Hold as [Hold|Hold].
        - assert ((lo <=? s_bid (snd it)) = false) by (apply N.leb_gt; exact Hold). rewrite H, andb_false_r. lia.
        - rewrite Hold. destruct (_ && _); lia. }
      apply H. intros t Ht. apply filter_In in Ht. exact Ht. }
    assert (Hf : sumN (map (fun t => wval lo (t_from t)) (filter (is_ty TFee) txs)) = 0).
    { assert (forall l, (forall t, In t l -> In t txs /\ is_ty TFee t = true) ->
                sumN (map (fun t => wval lo (t_from t)) l) = 0).
      { induction l as [|t r0 IH]; intro Hl; [reflexivity|]. cbn [map]. rewrite sumN_cons, IH by (intros; apply Hl; right; assumption).
        destruct (Hl t (or_introl eq_refl)) as [Ht Hty]. rewrite (Hfeefrom t Ht Hty). reflexivity. }
      apply H. intros t Ht. apply filter_In in Ht. exact Ht. }
    rewrite Ha, Hf, !N.add_0_r. f_equal. apply map_ext_in. intros t Ht. apply filter_In in Ht. destruct Ht as [Ht Hc].
    rewrite <- wval_filter_pos, <- sum_filter_pos. apply wval_all_in.
    intros s Hs. apply filter_In in Hs. destruct Hs as [Hs Hp]. unfold counts_in.
    destruct (plain_tx_no_bound t (G1 t Ht)) as [Hb _]. rewrite (Hb s Hs). cbn [negb andb].
    (* the age test of Transaction::validate *)
    pose proof (Hvalid t Ht) as Hv. unfold tx_valid in Hv.
    apply andb_prop in Hv. destruct Hv as [Hv _]. apply andb_prop in Hv. destruct Hv as [_ Hage].
    rewrite user_tx_counts, Hc in Hage. cbn [andb] in Hage. apply negb_true_iff in Hage.
    unfold too_old in Hage.
    destruct (lo <=? s_bid s) eqn:E; [reflexivity|]. exfalso. apply N.leb_gt in E.
    assert (existsb (fun s => aged s && (sadd (s_bid s) (cf_gp cf) <? tip_id st + 1)) (t_from t) = true); [|congruence].
    apply existsb_exists. exists s. split; auto. unfold aged. unfold pos in Hp. rewrite Hp, (Hb s Hs). cbn [negb andb].
    apply N.ltb_lt. pose proof (N.le_min_l (s_bid s + cf_gp cf) U64MAX) as Hsat. fold (sadd (s_bid s) (cf_gp cf)) in Hsat.
    unfold lo, new_id in *. fold gp in Hsat |- *. fold gp in E. lia. }
  (* fees of the user transactions *)
  assert (Hfees : sumN (map (fun t => sumN (map s_amt (t_from t))) (filter counts_fee txs)) =
                  fees_new_of txs + sumN (map outs_sum (filter counts_fee txs))).
  { unfold fees_new_of.
    assert (forall l, (forall t, In t l -> In t txs /\ counts_fee t = true) ->
              sumN (map (fun t => sumN (map s_amt (t_from t))) l) = sumN (map total_fees l) + sumN (map outs_sum l)).
    { induction l as [|t r0 IH]; intro Hl; [reflexivity|]. cbn [map]. rewrite !sumN_cons, IH by (intros; apply Hl; right; assumption).
      destruct (Hl t (or_introl eq_refl)) as [Ht Hc].
      destruct (tx_totals t (G1 t Ht) (G9 t Ht)) as [Ti To].
      pose proof (Hvalid t Ht) as Hv. unfold tx_valid in Hv.
      apply andb_prop in Hv. destruct Hv as [_ Hl0]. unfold tx_ledger in Hl0.
      apply andb_prop in Hl0. destruct Hl0 as [Hle _].
      rewrite user_tx_counts, Hc in Hle. cbn [negb orb] in Hle. apply N.leb_le in Hle.
      unfold total_fees. unfold outs_sum. rewrite <- Ti, <- To.
      destruct (total_out t <? total_in t) eqn:E; [apply N.ltb_lt in E | apply N.ltb_ge in E]; lia. }
    apply H. intros t Ht. apply filter_In in Ht. exact Ht. }
  (* the ledger after the block, purge included *)
  unfold wind. fold u txs gp.
  set (u1 := apply_txs u txs) in *.
  assert (Hpurge : wval lo (purge cf u1 (b :: pb :: rest) (h_id (b_hdr b))) = wval lo u1).
  { unfold purge. fold gp.
    destruct ((2 * gp + 1 <=? h_id (b_hdr b)) && (2 * gp <=? cf_pab cf)) eqn:Ep; [|reflexivity].
    apply andb_prop in Ep. destruct Ep as [Ep _]. apply N.leb_le in Ep.
    assert ((h_id (b_hdr b) =? h_id (b_hdr b) - 2 * gp) = false) by (apply N.eqb_neq; lia).
    rewrite (find_skip (fun b0 => h_id (b_hdr b0) =? h_id (b_hdr b) - 2 * gp) b (pb :: rest) H).
    destruct (find (fun b0 => h_id (b_hdr b0) =? h_id (b_hdr b) - 2 * gp) (pb :: rest)) as [old|] eqn:Eold; [|reflexivity].
    apply find_some in Eold. destruct Eold as [Hoin Hoid]. apply N.eqb_eq in Hoid.
    rewrite <- Echain in Hoin.
    apply (delete_fold_harmless lo (b_txs old) u1).
    - intros t s Ht Hs. destruct (N.eq_dec (s_amt s) 0) as [Hz|Hz]; [right; exact Hz|left].
      unfold counts_in. assert (Hlow : s_bid s < lo); [|assert ((lo <=? s_bid s) = false) by (apply N.leb_gt; exact Hlow); rewrite H0; apply andb_false_r].
      apply in_app_or in Hs. destruct Hs as [Hs|Hs].
      + assert (In s (inputs old)) by (unfold inputs; apply in_flat_map; eauto).
        pose proof (Hinputs old s Hoin H0 ltac:(lia)). unfold lo, new_id. lia.
      + assert (In s (outputs old)) by (unfold outputs; apply in_flat_map; eauto).
        destruct (located_outputs old (Hloc old Hoin)) as [_ Hb].
        rewrite (Hb s H0). unfold lo, new_id. lia.
    - intros x Hx. unfold u1 in Hx. apply (In_apply_txs txs u x Hsep) in Hx.
      destruct Hx as [[Hx _]|[_ Hx]]; [apply Hubid; exact Hx | exact Hx]. }
  (* supply before and after *)
  rewrite (supply_unfold gp st pb Htip).
  unfold supply. cbn [tip st_chain hd_error st_utxo].
  change (utxo_value gp (h_id (b_hdr b))) with (wval (h_id (b_hdr b) - gp)).
  rewrite Echain. change (h_id (b_hdr b) - gp) with lo. rewrite Hpurge. fold u.
  (* the window moves by one block *)
  pose proof (window_shift cf st b HI G8 G2) as Hshift. fold gp u lo in Hshift.
  rewrite <- Htid, Hshift.
  rewrite <- (expiring_is_atr_etxs cf st b). fold gp. fold (atr_items gp (slip_valid u) (the_input cf st b)). fold items.
  (* sum up *)
  rewrite (sum_split_plain outs_sum txs) in Houtval by (try apply forallb_forall; assumption).
  unfold reservoirs.
  (* payout split *)
  assert (Hdue : fee_out_sum (c_fee_tx c) + c_pay_treasury c + c_pay_graveyard c + h_unpaid (b_hdr b)
                 = h_total_fees (b_hdr pb) + h_unpaid (b_hdr pb)).
  { assert (Hiprev : i_prev (the_input cf st b) = Some (b_hdr pb)).
    { unfold the_input, cv_input. cbn [i_prev]. rewrite Hpar. reflexivity. }
    assert (Hipp : i_prevprev (the_input cf st b) = option_map b_hdr (hd_error rest)).
    { unfold the_input, cv_input, grandparent_of. cbn [i_prevprev]. rewrite Echain. destruct rest; reflexivity. }
    destruct (c_gt_index c) as [gi|] eqn:Egi.
    - destruct (payouts_gt_inf _ _ _ _ _ Hpay) as [Hsum _].
      unfold due, miner_lost in Hsum. rewrite Hiprev, Hipp in Hsum.
      destruct Hunp as [Hunp Hminer].
      assert (Hlost : (if o_miner (i_orc (the_input cf st b)) =? 0 then p_mining p else 0) = 0).
      { change (i_orc (the_input cf st b)) with (b_orc b).
        apply N.eqb_neq in Hminer. rewrite Hminer. reflexivity. }
      rewrite Hlost in Hsum. rewrite Cpt, Cpg, Cftx, Hunp.
      destruct rest as [|ppb rest'].
      + cbn [hd_error option_map] in Hsum. cbn [unpaid_ok] in Hunpaid. rewrite Hunpaid.
        destruct (h_has_gt (b_hdr pb)); lia.
      + cbn [hd_error option_map] in Hsum. cbn [unpaid_ok] in Hunpaid. rewrite Hunpaid.
        destruct (h_has_gt (b_hdr pb)); lia.
    - destruct (payouts_nogt_inf _ _ _ _ _ Hpay) as [Hnone [Ht0 [_ [_ Hg]]]].
      rewrite Hiprev, Hipp in Hg. rewrite Cpt, Cpg, Cftx, Hnone, Ht0, Hg, Hunp. cbn [fee_out_sum].
      destruct rest as [|ppb rest'].
      + cbn [hd_error option_map]. cbn [unpaid_ok] in Hunpaid. rewrite Hunpaid.
        destruct (h_has_gt (b_hdr pb)); lia.
      + cbn [hd_error option_map]. cbn [unpaid_ok] in Hunpaid. rewrite Hunpaid.
        destruct (h_has_gt (b_hdr pb)); lia. }
  unfold outs_sum in *. lia.
Qed.

(* ---------- the invariant is kept ---------- *)
Lemma NoDup_remove_fold : forall L u, NoDup u -> NoDup (fold_left utxo_remove L u).
Proof. induction L; intros; cbn [fold_left]; auto. apply IHL. apply NoDup_utxo_remove. assumption. Qed.
Lemma In_remove_fold : forall L u x, In x (fold_left utxo_remove L u) -> In x u.
Proof. induction L; intros u x H; cbn [fold_left] in H; auto. apply IHL in H. apply In_utxo_remove in H. tauto. Qed.
Lemma NoDup_delete_fold : forall l u, NoDup u -> NoDup (fold_left delete_tx l u).
Proof.
  induction l as [|t r IH]; intros u H; cbn [fold_left]; auto. apply IH. unfold delete_tx.
  apply NoDup_remove_fold, NoDup_remove_fold. exact H.
Qed.
Lemma In_delete_fold : forall l u x, In x (fold_left delete_tx l u) -> In x u.
Proof.
  induction l as [|t r IH]; intros u x H; cbn [fold_left] in H; auto. apply IH in H. unfold delete_tx in H.
  apply In_remove_fold in H. apply In_remove_fold in H. exact H.
Qed.
Lemma purge_sub : forall cf u chain tipid x, In x (purge cf u chain tipid) -> In x u.
Proof.
  intros cf u chain tipid x H. unfold purge in H.
  destruct (_ && _); auto. destruct (find _ chain); auto. apply In_delete_fold in H. exact H.
Qed.
Lemma purge_nodup : forall cf u chain tipid, NoDup u -> NoDup (purge cf u chain tipid).
Proof.
  intros cf u chain tipid H. unfold purge. destruct (_ && _); auto. destruct (find _ chain); auto.
  apply NoDup_delete_fold. exact H.
Qed.

Lemma last_index_exists : forall f l i acc,
  match last_index f i l acc with
  | Some _ => existsb f l = true \/ acc <> None
  | None => existsb f l = false /\ acc = None
  end.
Proof.
  intros f. induction l as [|t r IH]; intros i acc; cbn [last_index existsb].
  - destruct acc; [right; discriminate | auto].
  - specialize (IH (i + 1) (if f t then Some i else acc)).
    destruct (last_index f (i + 1) r _).
    + destruct (f t); [left; reflexivity|]. destruct IH as [IH|IH]; [left; rewrite IH; reflexivity | right; exact IH].
    + destruct IH as [IH1 IH2]. destruct (f t); [discriminate|]. rewrite IH1. auto.
Qed.

Theorem inv_step : forall cap15 cap05 cf st b,
  Inv st -> located b ->
  validate_m cap15 cap05 cf MInf st b = Ok true ->
  clean cap05 cf st b = true ->
  Inv (wind cf st b).
Proof.
  intros cap15 cap05 cf st b HI Hlocb Hval Hclean.
  destruct (block_facts _ _ _ _ _ HI Hlocb Hval Hclean) as [c [pb [rest [r [p F]]]]].
  pose proof (f_chain _ _ _ _ _ _ _ _ _ _ F) as Echain.
  pose proof (f_id _ _ _ _ _ _ _ _ _ _ F) as Hid.
  pose proof (f_tid _ _ _ _ _ _ _ _ _ _ F) as Htid.
  pose proof (f_ins _ _ _ _ _ _ _ _ _ _ F) as Hins.
  pose proof (f_ubid _ _ _ _ _ _ _ _ _ _ F) as Hubid.
  pose proof (f_unpaid _ _ _ _ _ _ _ _ _ _ F) as Hunp0.
  pose proof (f_gti _ _ _ _ _ _ _ _ _ _ F) as Cgti.
  assert (Hunp : h_unpaid (b_hdr b) = if existsb (is_ty TGolden) (b_txs b) then 0 else h_total_fees (b_hdr pb)).
  { rewrite Cgti in Hunp0. pose proof (last_index_exists (is_ty TGolden) (b_txs b) 0 None) as Hli.
    destruct (last_index (is_ty TGolden) 0 (b_txs b) None).
    - destruct Hli as [Hli|Hli]; [rewrite Hli; tauto | congruence].
    - destruct Hli as [Hli _]. rewrite Hli. exact Hunp0. }
  destruct HI as [Hids Hnd Hutxo Hloc Hunpaid Hinputs].
  unfold new_id in Hid.
  destruct (located_outputs b Hlocb) as [_ Hbidout].
  constructor; unfold wind; cbn [st_chain st_utxo].
  - rewrite Echain. apply ids_ok_cons2. split; [lia | rewrite <- Echain; exact Hids].
  - apply purge_nodup, NoDup_apply_txs. exact Hnd.
  - intros s Hs. apply purge_sub in Hs.
    assert (Hsep : separated (b_txs b)).
    { intros x Hx Hp Ho. pose proof (Hubid x (Hins x Hx Hp)).
      assert (In x (outputs b)) by exact Ho. pose proof (Hbidout x H0). lia. }
    apply (In_apply_txs (b_txs b) (st_utxo st) s Hsep) in Hs. destruct Hs as [[Hs _]|[Hs Hp]].
    + destruct (Hutxo s Hs) as [Hp [blk [Hb [Hbi Ho]]]]. split; auto. exists blk. split; [right; exact Hb | auto].
    + split; auto. exists b. split; [left; reflexivity|]. split; [symmetry; apply Hbidout; exact Hs | exact Hs].
  - intros blk [Hb|Hb]; [subst; exact Hlocb | apply Hloc; exact Hb].
  - rewrite Echain. cbn [unpaid_ok]. destruct Hlocb as [_ [_ Hgt]]. rewrite Hgt. exact Hunp.
  - intros blk s [Hb|Hb] Hs Hp.
    + subst blk. pose proof (Hubid s (Hins s Hs Hp)). lia.
    + apply (Hinputs blk s Hb Hs Hp).
Qed.

(* ---------- chains of accepted blocks ---------- *)
Inductive Reach (cap15 cap05 : N -> N) (cf : config) (g : block) : state -> Prop :=
| reach_genesis : Reach cap15 cap05 cf g (genesis_state g)
| reach_step : forall st b,
    Reach cap15 cap05 cf g st -> located b ->
    validate_m cap15 cap05 cf MInf st b = Ok true ->
    clean cap05 cf st b = true ->
    Reach cap15 cap05 cf g (wind cf st b).

Definition genesis_ok (g : block) : Prop :=
  h_id (b_hdr g) = 1 /\ located g /\ h_unpaid (b_hdr g) = 0 /\ (forall s, In s (inputs g) -> s_amt s = 0).

Lemma genesis_inv : forall g, genesis_ok g -> Inv (genesis_state g).
Proof.
  intros g [Hid [Hloc [Hunp Hin]]]. unfold genesis_state.
  assert (Hsep : separated (b_txs g)).
  { intros x Hx Hp _. pose proof (Hin x Hx). lia. }
  destruct (located_outputs g Hloc) as [_ Hbid].
  constructor; cbn [st_chain st_utxo].
  - exact Hid.
  - apply NoDup_apply_txs. constructor.
  - intros s Hs. apply (In_apply_txs (b_txs g) [] s Hsep) in Hs. destruct Hs as [[[] _]|[Hs Hp]].
    split; auto. exists g. split; [left; reflexivity|]. split; [symmetry; apply Hbid; exact Hs | exact Hs].
  - intros blk [Hb|[]]. subst. exact Hloc.
  - exact Hunp.
  - intros blk s [Hb|[]] Hs Hp. subst. pose proof (Hin s Hs). lia.
Qed.

Lemma reach_inv : forall cap15 cap05 cf g st, genesis_ok g -> Reach cap15 cap05 cf g st -> Inv st.
Proof.
  intros cap15 cap05 cf g st Hg H. induction H.
  - apply genesis_inv. exact Hg.
  - eapply inv_step; eauto.
Qed.

Theorem supply_conserved : forall cap15 cap05 cf g st,
  genesis_ok g -> Reach cap15 cap05 cf g st ->
  supply (cf_gp cf) st = supply (cf_gp cf) (genesis_state g).
Proof.
  intros cap15 cap05 cf g st Hg H. induction H.
  - reflexivity.
  - rewrite <- IHReach. eapply supply_step; eauto. eapply reach_inv; eauto.
Qed.

(* no accepted user transaction pays out more than it consumes, in unbounded arithmetic *)
Theorem no_overflow_mint : forall cap15 cap05 cf st b t,
  validate_m cap15 cap05 cf MInf st b = Ok true ->
  In t (b_txs b) -> user_tx t = true -> plain_tx t = true -> fits t = true ->
  sumN (map s_amt (t_to t)) <= sumN (map s_amt (t_from t)).
Proof.
  intros cap15 cap05 cf st b t Hval Ht Hu Hp Hf.
  destruct (validate_inv _ _ _ _ _ Hval) as [c [_ [_ [_ [_ [_ [_ [_ [_ [_ [_ [_ Hsweep]]]]]]]]]]]].
  destruct (vsweep_spec _ _ _ _ _ Hsweep (NoDup_nil _)) as [Hvalid _].
  pose proof (Hvalid t Ht) as Hv. unfold tx_valid in Hv.
  apply andb_prop in Hv. destruct Hv as [_ Hl]. unfold tx_ledger in Hl.
  apply andb_prop in Hl. destruct Hl as [Hle _].
  rewrite Hu in Hle. cbn [negb orb] in Hle. apply N.leb_le in Hle.
  destruct (tx_totals t Hp Hf) as [Ti To]. lia.
Qed.

(* the wrap-around clause: whatever the outputs are (their sum may exceed 2^64, where the code's
   sums saturate), an accepted user transaction whose inputs sum to less than 2^64-1 pays out
   no more than it consumes *)
Lemma sat_fold_min : forall l acc, acc <= U64MAX -> fold_left sat_add l acc = N.min (acc + sumN l) U64MAX.
Proof.
  induction l as [|x r IH]; intros acc H; cbn [fold_left].
  - rewrite sumN_nil, N.add_0_r. symmetry. apply N.min_l. exact H.
  - rewrite IH by (unfold sat_add; apply N.le_min_r). rewrite sumN_cons. unfold sat_add.
    generalize U64MAX. intro M. lia.
Qed.
Lemma sat_sum_min : forall l, sat_sum l = N.min (sumN l) U64MAX.
Proof. intro l. unfold sat_sum. rewrite sat_fold_min by apply N.le_0_l. reflexivity. Qed.

Theorem no_overflow_mint_any_outputs : forall cap15 cap05 cf st b t,
  validate_m cap15 cap05 cf MInf st b = Ok true ->
  In t (b_txs b) -> user_tx t = true -> plain_tx t = true ->
  sumN (map s_amt (t_from t)) < U64MAX ->
  sumN (map s_amt (t_to t)) <= sumN (map s_amt (t_from t)).
Proof.
  intros cap15 cap05 cf st b t Hval Ht Hu Hp Hin.
  destruct (validate_inv _ _ _ _ _ Hval) as [c [_ [_ [_ [_ [_ [_ [_ [_ [_ [_ [_ Hsweep]]]]]]]]]]]].
  destruct (vsweep_spec _ _ _ _ _ Hsweep (NoDup_nil _)) as [Hvalid _].
  pose proof (Hvalid t Ht) as Hv. unfold tx_valid in Hv.
  apply andb_prop in Hv. destruct Hv as [_ Hl]. unfold tx_ledger in Hl.
  apply andb_prop in Hl. destruct Hl as [Hle _].
  rewrite Hu in Hle. cbn [negb orb] in Hle. apply N.leb_le in Hle.
  destruct (plain_tx_no_bound t Hp) as [Hb1 Hb2].
  unfold total_in, total_out in Hle. rewrite (counted_no_bound _ Hb1), (counted_no_bound _ Hb2) in Hle.
  rewrite !sat_sum_min in Hle. revert Hle Hin. generalize U64MAX. intros M Hle Hin. lia.
Qed.

(* ---------- the node's own check ---------- *)
Lemma sum_m_mod : forall dbg site l acc r,
  (forall x, In x l -> x < two64) -> acc < two64 ->
  sum_m (M64 dbg) site acc l = Ok r ->
  r = (acc + sumN l) mod two64 /\ r < two64 /\ (dbg = true -> r = acc + sumN l).
Proof.
  intros dbg site. induction l as [|x t IH]; intros acc r Hl Hacc H; cbn [sum_m] in H.
  - inversion H; subst. rewrite sumN_nil, N.add_0_r. rewrite N.mod_small by exact Hacc. auto.
  - pose proof (Hl x (or_introl eq_refl)) as Hx.
    cbn [add] in H. destruct (acc + x <? two64) eqn:E.
    + cbn [bind] in H. apply N.ltb_lt in E.
      destruct (IH (acc + x) r) as [H1 [H2 H3]]; auto. { intros; apply Hl; right; assumption. }
      rewrite sumN_cons. rewrite N.add_assoc. auto.
    + destruct dbg; [discriminate|]. cbn [bind] in H.
      assert (Hm : (acc + x) mod two64 < two64) by (apply N.mod_lt; discriminate).
      destruct (IH ((acc + x) mod two64) r) as [H1 [H2 H3]]; auto. { intros; apply Hl; right; assumption. }
      split; [|split; [exact H2 | discriminate]].
      rewrite H1, sumN_cons, N.add_assoc. rewrite N.add_mod_idemp_l by discriminate. reflexivity.
Qed.

(* the supply of property C02 restricted to what the node looks at *)
Definition big_node_supply (cf : config) (u : list slip) (h : hdr) : N :=
  sumN (map s_amt (counted_utxo cf (h_id h) u)) + h_graveyard h + h_treasury h + h_unpaid h + h_total_fees h.

Definition hdr_u64 (h : hdr) : Prop :=
  h_graveyard h < two64 /\ h_treasury h < two64 /\ h_unpaid h < two64 /\ h_total_fees h < two64.

Theorem check_total_supply_sound_partial : forall cf u h init i,
  (forall s, In s u -> s_amt s < two64) -> hdr_u64 h -> init <> 0 ->
  check_total_supply cf u h init = Ok i ->
  i = init /\ big_node_supply cf u h mod two64 = init /\
  (cf_dbg cf = true -> big_node_supply cf u h = init).
Proof.
  intros cf u h init i Hu [Hg [Ht [Hp Hf]]] Hinit H.
  unfold check_total_supply, node_supply, mode in H.
  destruct (sum_m (M64 (cf_dbg cf)) 2201 0 _) as [s| |] eqn:E1; cbn [bind] in H; try discriminate.
  destruct (sum_m (M64 (cf_dbg cf)) 2202 s _) as [cur| |] eqn:E2; cbn [bind] in H; try discriminate.
  apply N.eqb_neq in Hinit. rewrite Hinit in H.
  destruct (cur =? init) eqn:Ec; [|discriminate]. apply N.eqb_eq in Ec. inversion H; subst i cur. clear H.
  apply sum_m_mod in E1; [|intros x Hx; apply in_map_iff in Hx; destruct Hx as [sl [Hs Hin]]; subst x;
                           apply Hu; unfold counted_utxo in Hin; apply filter_In in Hin; tauto | unfold two64; lia].
  destruct E1 as [A1 [A2 A3]].
  apply sum_m_mod in E2; [| intros x [Hx|[Hx|[Hx|[Hx|[]]]]]; subst x; assumption | exact A2].
  destruct E2 as [B1 [B2 B3]].
  unfold big_node_supply. cbn [sumN fold_right] in B1, B3. rewrite N.add_0_l in A1, A3.
  split; [reflexivity|]. split.
  - rewrite B1, A1. rewrite N.add_mod_idemp_l by discriminate. f_equal. lia.
  - intro Hd. rewrite (B3 Hd), (A3 Hd). lia.
Qed.
