(* Proofs about the sync-exchange model (model/SyncProto.v). *)
From Saito Require Import Base Chain ForkId SyncProto.

Lemma offer_one : forall c st b st1 r,
  add_block c st b = Ok (st1, r) -> r <> Retry ->
  offer_all c st [b] [] = Ok (st1, []).
Proof.
  intros c st b st1 r H Hr. cbn [offer_all]. rewrite H. cbn [bind snd fst].
  destruct r; try reflexivity. contradiction.
Qed.

(* one block per drain: the run of the consensus thread is the Run relation *)
Lemma run_fetched_of_Run : forall c st arrivals eff st',
  Run c st arrivals eff st' -> run_fetched c (st, []) arrivals = Ok (st', []).
Proof.
  intros c st arrivals eff st' H. induction H.
  - reflexivity.
  - cbn [run_fetched on_block_fetched].
    destruct (get_block st (b_hash b)) as [sb|] eqn:E; [|contradiction].
    cbn [bind]. exact IHRun.
  - cbn [run_fetched on_block_fetched]. rewrite H.
    cbn [queued existsb app]. unfold drain. cbn [sort_by fold_right insert_by].
    rewrite (offer_one _ _ _ _ _ H0 H1). cbn [bind]. exact IHRun.
Qed.

(* ... and its effective offers, delivered in that order, give the same state *)
Lemma deliver_of_Run : forall c st arrivals eff st',
  Run c st arrivals eff st' -> deliver c st eff = Ok st'.
Proof.
  intros c st arrivals eff st' H. induction H.
  - reflexivity.
  - exact IHRun.
  - cbn [deliver]. rewrite H0. cbn [bind fst]. exact IHRun.
Qed.

Theorem sync_converges_partial : forall c st0 arrivals needed st_in tipB,
  deliver c st0 needed = Ok st_in -> latest_hash st_in = Ok tipB ->
  (exists st', Run c st0 arrivals needed st') ->
  exists st', run_fetched c (st0, []) arrivals = Ok (st', []) /\ latest_hash st' = Ok tipB.
Proof.
  intros c st0 arrivals needed st_in tipB Hd Ht [st' HR].
  exists st'. split; [eapply run_fetched_of_Run; eauto|].
  pose proof (deliver_of_Run _ _ _ _ _ HR) as Hd'. rewrite Hd in Hd'. inversion Hd'. subst. exact Ht.
Qed.

(* a batch drained at once: the sort by id restores the order inside the batch *)
Lemma offer_all_of_Run_all_new : forall c l st st',
  Run c st l l st' -> offer_all c st l [] = Ok (st', []).
Proof.
  intros c l. induction l as [|b t IH]; intros st st' H.
  - inversion H. reflexivity.
  - inversion H as [|s0 b0 t0 e0 s1 Hk HR|s0 b0 t0 e0 s1 r0 s2 Hn Ha Hr HR]; subst.
    + (* Run_known would need |eff| > |arrivals| *)
      exfalso.
      assert (L : forall a e s s', Run c s a e s' -> (length e <= length a)%nat).
      { clear. intros a e s s' R. induction R; cbn [length]; lia. }
      apply L in HR. cbn [length] in HR. lia.
    + cbn [offer_all]. rewrite Ha. cbn [bind snd fst].
      destruct r0; try (apply IH; assumption). contradiction.
Qed.

Lemma fold_queue_nodup : forall batch q,
  NoDup (map b_hash (q ++ batch)) ->
  fold_left (fun q b => if queued q b then q else q ++ [b]) batch q = q ++ batch.
Proof.
  induction batch as [|b t IH]; intros q H; cbn [fold_left]; [rewrite app_nil_r; reflexivity|].
  assert (queued q b = false) as ->.
  { unfold queued. apply not_true_is_false. intro E. apply existsb_exists in E.
    destruct E as [x [Hin Hx]]. apply N.eqb_eq in Hx.
    rewrite map_app in H. apply NoDup_remove_2 in H. apply H.
    apply in_or_app. left. rewrite <- Hx. apply in_map. exact Hin. }
  rewrite IH; [rewrite <- app_assoc; reflexivity|].
  rewrite <- app_assoc. exact H.
Qed.

Theorem batch_sorted_converges : forall c st batch st',
  NoDup (map b_hash batch) ->
  (forall b, In b batch -> get_block st (b_hash b) = None) ->
  Run c st (sort_by id_le batch) (sort_by id_le batch) st' ->
  on_batch c (st, []) batch = Ok (st', []).
Proof.
  intros c st batch st' Hnd Hnew HR. unfold on_batch.
  assert (filter (fun b => match get_block st (b_hash b) with Some _ => false | None => true end) batch = batch) as ->.
  { clear - Hnew. induction batch as [|b t IH]; [reflexivity|]. cbn [filter].
    rewrite (Hnew b (or_introl eq_refl)). f_equal. apply IH. intros x Hx. apply Hnew. right. exact Hx. }
  rewrite (fold_queue_nodup batch []); [|exact Hnd]. cbn [app].
  unfold drain. apply offer_all_of_Run_all_new. exact HR.
Qed.
