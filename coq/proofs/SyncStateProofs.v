(* Invariants of the block-fetch scheduler model (model/SyncState.v). *)
From Saito Require Import Base SyncState SortFacts.
From Coq Require Import Permutation Sorted.

(* ---------- order facts ---------- *)
Lemma key_le_total a b : key_le a b = true \/ key_le b a = true.
Proof. unfold key_le. destruct a as [a1 a2], b as [b1 b2]; cbn [fst snd].
       destruct (N.eqb_spec a1 b1), (N.eqb_spec b1 a1); lia. Qed.

Lemma key_le_trans a b c : key_le a b = true -> key_le b c = true -> key_le a c = true.
Proof. unfold key_le. destruct a as [a1 a2], b as [b1 b2], c as [c1 c2]; cbn [fst snd].
       destruct (N.eqb_spec a1 b1), (N.eqb_spec b1 c1), (N.eqb_spec a1 c1); lia. Qed.

Lemma entry_le_total a b : entry_le a b = true \/ entry_le b a = true.
Proof. apply key_le_total. Qed.
Lemma entry_le_trans a b c : entry_le a b = true -> entry_le b c = true -> entry_le a c = true.
Proof. apply key_le_trans. Qed.

(* ---------- per-entry / per-queue invariant ---------- *)
Definition entry_ok (e : entry) : Prop :=
  match e_st e with
  | Queued   => e_req e <= e_retry e /\ e_retry e <= MAX_RETRIES
  | Fetching => e_req e <= e_retry e + 1 /\ e_retry e <= MAX_RETRIES
  | Failed   => e_req e <= e_retry e + 1 /\ e_retry e <= MAX_RETRIES + 1
                /\ e_req e <= MAX_RETRIES + 1
  | Fetched  => False
  end.

Definition InvQ (batch : N) (q : list entry) : Prop :=
  countb is_fetching q <= batch
  /\ NoDup (map ekey q)
  /\ Forall entry_ok q
  /\ q <> [].

Definition Inv (batch : N) (s : state) : Prop :=
  Forall (fun pq => fst pq <> 0 /\ InvQ batch (snd pq)) (tofetch s)
  /\ Forall (fun pq => fst pq <> 0) (received s).

Lemma entry_ok_req e : entry_ok e -> e_req e <= MAX_RETRIES + 1.
Proof. unfold entry_ok. destruct (e_st e); lia. Qed.

(* ---------- select_loop ---------- *)
Ltac sl_step IH :=
  match goal with
  | |- context [select_loop ?k ?t] =>
      let t' := fresh "t'" in let sel := fresh "sel" in let E := fresh "E" in
      specialize (IH k); destruct (select_loop k t) as [t' sel] eqn:E
  end.

Lemma select_loop_keys quota q :
  map ekey (fst (select_loop quota q)) = map ekey q.
Proof.
  revert quota; induction q as [|e t IH]; intros quota; cbn [select_loop]; [reflexivity|].
  destruct (quota =? 0); [reflexivity|].
  destruct (e_st e) eqn:Hst.
  - sl_step IH. cbn [fst map] in *. unfold ekey at 1 3; cbn. now rewrite IH.
  - sl_step IH. cbn [fst map] in *. now rewrite IH.
  - sl_step IH. cbn [fst map] in *. now rewrite IH.
  - destruct (e_retry e <? MAX_RETRIES); [|destruct (e_retry e =? MAX_RETRIES)];
      sl_step IH; cbn [fst map] in *; unfold ekey at 1 3; cbn; now rewrite IH.
Qed.

Lemma select_loop_count quota q :
  let '(q', sel) := select_loop quota q in
  countb is_fetching q' = countb is_fetching q + Nlen sel /\ Nlen sel <= quota.
Proof.
  revert quota; induction q as [|e t IH]; intros quota; cbn [select_loop].
  - unfold Nlen; cbn; lia.
  - destruct (N.eqb_spec quota 0) as [Hq|Hq]; [unfold Nlen; cbn [length]; lia|].
    destruct (e_st e) eqn:Hst.
    + sl_step IH. rewrite !countb_cons. unfold is_fetching at 1 3; cbn [e_st]. rewrite Hst.
      unfold Nlen in *; cbn [length status_eqb]. lia.
    + sl_step IH. rewrite !countb_cons. unfold is_fetching at 1 3. rewrite Hst. lia.
    + sl_step IH. rewrite !countb_cons. unfold is_fetching at 1 3. rewrite Hst. lia.
    + destruct (e_retry e <? MAX_RETRIES); [|destruct (e_retry e =? MAX_RETRIES)];
        sl_step IH; rewrite !countb_cons; unfold is_fetching at 1 3; cbn [e_st];
        rewrite ?Hst; cbn [status_eqb]; lia.
Qed.

Lemma select_loop_ok quota q :
  Forall entry_ok q -> Forall entry_ok (fst (select_loop quota q)).
Proof.
  revert quota; induction q as [|e t IH]; intros quota Hall; cbn [select_loop]; [constructor|].
  destruct (quota =? 0); [exact Hall|].
  inversion Hall as [|? ? He Ht]; subst.
  unfold entry_ok in He.
  destruct (e_st e) eqn:Hst.
  - sl_step IH. cbn [fst] in *. constructor; [|auto]. unfold entry_ok; cbn. lia.
  - sl_step IH. cbn [fst] in *. constructor; [|auto]. unfold entry_ok; rewrite Hst; exact He.
  - contradiction.
  - destruct (N.ltb_spec (e_retry e) MAX_RETRIES); [|destruct (N.eqb_spec (e_retry e) MAX_RETRIES)];
      sl_step IH; cbn [fst] in *; (constructor; [|auto]); unfold entry_ok; cbn; rewrite ?Hst;
      unfold MAX_RETRIES in *; lia.
Qed.

(* the selection is taken from a prefix; the suffix is untouched *)
Definition is_queued (e : entry) : bool := status_eqb (e_st e) Queued.
Definition hk (e : entry) : N * N := (e_hash e, e_id e).

Definition split_spec (q q' : list entry) (sel : list (N * N)) : Prop :=
  exists pre pre' rest,
    q = pre ++ rest /\ q' = pre' ++ rest /\ sel = map hk (filter is_queued pre).

Lemma split_spec_skip e e' t t' sel :
  e_st e <> Queued -> split_spec t t' sel -> split_spec (e :: t) (e' :: t') sel.
Proof.
  intros Hnq (pre & pre' & rest & H1 & H2 & H3).
  exists (e :: pre), (e' :: pre'), rest. subst. repeat split.
  cbn [filter]. unfold is_queued at 2. destruct (e_st e); try reflexivity. congruence.
Qed.

Lemma split_spec_take e e' t t' sel :
  e_st e = Queued -> split_spec t t' sel ->
  split_spec (e :: t) (e' :: t') ((e_hash e, e_id e) :: sel).
Proof.
  intros Hq (pre & pre' & rest & H1 & H2 & H3).
  exists (e :: pre), (e' :: pre'), rest. subst. repeat split.
  cbn [filter]. unfold is_queued at 2. rewrite Hq. reflexivity.
Qed.

Lemma select_loop_split quota q :
  split_spec q (fst (select_loop quota q)) (snd (select_loop quota q)).
Proof.
  revert quota; induction q as [|e t IH]; intros quota; cbn [select_loop].
  - exists [], [], []. repeat split.
  - destruct (quota =? 0).
    { exists [], [], (e :: t). repeat split. }
    destruct (e_st e) eqn:Hst.
    + specialize (IH (quota - 1)). destruct (select_loop (quota - 1) t) as [t' sel].
      cbn [fst snd] in *. now apply split_spec_take.
    + specialize (IH quota). destruct (select_loop quota t) as [t' sel].
      cbn [fst snd] in *. apply split_spec_skip; [congruence|exact IH].
    + specialize (IH quota). destruct (select_loop quota t) as [t' sel].
      cbn [fst snd] in *. apply split_spec_skip; [congruence|exact IH].
    + destruct (e_retry e <? MAX_RETRIES); [|destruct (e_retry e =? MAX_RETRIES)].
      * specialize (IH (quota - 1)). destruct (select_loop (quota - 1) t) as [t' sel].
        cbn [fst snd] in *. apply split_spec_skip; [congruence|exact IH].
      * specialize (IH quota). destruct (select_loop quota t) as [t' sel].
        cbn [fst snd] in *. apply split_spec_skip; [congruence|exact IH].
      * specialize (IH quota). destruct (select_loop quota t) as [t' sel].
        cbn [fst snd] in *. apply split_spec_skip; [congruence|exact IH].
Qed.

Lemma Forall_filter_local {A} (P : A -> Prop) f l : Forall P l -> Forall P (filter f l).
Proof. intros H. apply Forall_forall. intros x Hx. apply filter_In in Hx as [Hx _].
       rewrite Forall_forall in H; auto. Qed.

Lemma StronglySorted_filter {A} (R : A -> A -> Prop) f l :
  StronglySorted R l -> StronglySorted R (filter f l).
Proof.
  induction l as [|x t IH]; intros H; cbn [filter]; [constructor|].
  inversion H as [|? ? Hs Hall]; subst. destruct (f x); [|auto].
  constructor; [auto|]. now apply Forall_filter_local.
Qed.

(* eligible = consumes quota when swept *)
Definition eligible (e : entry) : bool :=
  match e_st e with
  | Queued => true
  | Failed => e_retry e <? MAX_RETRIES
  | _ => false
  end.

Lemma select_loop_progress quota l1 e l2 :
  e_st e = Queued -> countb eligible l1 < quota ->
  In (e_hash e, e_id e) (snd (select_loop quota (l1 ++ e :: l2))).
Proof.
  revert quota; induction l1 as [|x t IH]; intros quota Hq Hlt.
  - cbn [app select_loop]. destruct (N.eqb_spec quota 0); [rewrite countb_nil in Hlt; lia|].
    rewrite Hq. destruct (select_loop (quota - 1) l2). now left.
  - cbn [app select_loop]. rewrite countb_cons in Hlt.
    destruct (N.eqb_spec quota 0); [lia|].
    unfold eligible in Hlt at 1.
    destruct (e_st x) eqn:Hst.
    + specialize (IH (quota - 1) Hq). destruct (select_loop (quota - 1) (t ++ e :: l2)).
      right. apply IH. lia.
    + specialize (IH quota Hq). destruct (select_loop quota (t ++ e :: l2)). apply IH. lia.
    + specialize (IH quota Hq). destruct (select_loop quota (t ++ e :: l2)). apply IH. lia.
    + destruct (e_retry x <? MAX_RETRIES) eqn:Hr.
      * specialize (IH (quota - 1) Hq). destruct (select_loop (quota - 1) (t ++ e :: l2)).
        apply IH. lia.
      * destruct (e_retry x =? MAX_RETRIES);
          specialize (IH quota Hq); destruct (select_loop quota (t ++ e :: l2)); apply IH; lia.
Qed.

(* ---------- select_peer ---------- *)
Lemma InvQ_perm batch q q' : Permutation q q' -> InvQ batch q -> InvQ batch q'.
Proof.
  intros Hp (Hc & Hn & Ha & Hne). repeat split.
  - now rewrite <- (countb_perm _ _ _ Hp).
  - eapply Permutation_NoDup; [apply Permutation_map; exact Hp|exact Hn].
  - eapply Permutation_Forall; eassumption.
  - intros ->. apply Permutation_sym, Permutation_nil in Hp. congruence.
Qed.

Lemma select_peer_inv batch peer q :
  peer <> 0 -> InvQ batch q ->
  exists q' sel, select_peer batch peer q = Ok (q', sel) /\ InvQ batch q'.
Proof.
  intros Hp Hinv. unfold select_peer.
  destruct (N.eqb_spec peer 0); [contradiction|].
  assert (Hs : InvQ batch (sort_by entry_le q)).
  { eapply InvQ_perm; [symmetry; apply sort_by_perm|exact Hinv]. }
  destruct Hs as (Hc & Hn & Ha & Hne).
  destruct (N.ltb_spec batch (countb is_fetching (sort_by entry_le q))); [lia|].
  destruct (sort_by entry_le q) as [|x t] eqn:Hq1; [congruence|].
  rewrite <- Hq1 in *.
  pose proof (select_loop_count (batch - countb is_fetching (sort_by entry_le q)) (sort_by entry_le q)) as Hcnt.
  pose proof (select_loop_keys (batch - countb is_fetching (sort_by entry_le q)) (sort_by entry_le q)) as Hk.
  pose proof (select_loop_ok (batch - countb is_fetching (sort_by entry_le q)) (sort_by entry_le q) Ha) as Hok.
  destruct (select_loop _ _) as [q' sel]. cbn [fst] in *.
  exists q', sel. split; [reflexivity|]. repeat split.
  - lia.
  - now rewrite Hk.
  - exact Hok.
  - intros ->. rewrite Hq1 in Hk. discriminate.
Qed.

Lemma select_all_inv batch tf :
  Forall (fun pq => fst pq <> 0 /\ InvQ batch (snd pq)) tf ->
  exists tf' sels, select_all batch tf = Ok (tf', sels)
    /\ Forall (fun pq => fst pq <> 0 /\ InvQ batch (snd pq)) tf'.
Proof.
  induction tf as [|[peer q] t IH]; intros Hall; cbn [select_all].
  - exists [], []. split; [reflexivity|constructor].
  - inversion Hall as [|? ? [Hp Hq] Ht]; subst. cbn [fst snd] in *.
    destruct (select_peer_inv batch peer q Hp Hq) as (q' & sel & -> & Hq').
    destruct (IH Ht) as (t' & sels & -> & Ht'). cbn [bind].
    eexists _, _. split; [reflexivity|]. constructor; [split; assumption|exact Ht'].
Qed.

(* ---------- the other operations ---------- *)
Lemma Forall_filter {A} (P : A -> Prop) f l : Forall P l -> Forall P (filter f l).
Proof. intros H. apply Forall_forall. intros x Hx. apply filter_In in Hx as [Hx _].
       rewrite Forall_forall in H; auto. Qed.

Lemma filter_nonempty_inv {A} (P : list A -> Prop) (tf : list (N * list A)) :
  Forall (fun pq => fst pq <> 0 /\ (snd pq <> [] -> P (snd pq))) tf ->
  Forall (fun pq => fst pq <> 0 /\ P (snd pq)) (filter nonempty tf).
Proof.
  intros H. apply Forall_forall. intros [p q] Hin. apply filter_In in Hin as [Hin Hne].
  rewrite Forall_forall in H. destruct (H _ Hin) as [Hp HP]. split; [exact Hp|].
  apply HP. unfold nonempty in Hne; cbn [snd] in *. destruct q; congruence.
Qed.

Lemma mark_first_keys h q : map ekey (mark_first h q) = map ekey q.
Proof. induction q as [|e t IH]; cbn [mark_first]; [reflexivity|].
       destruct (e_hash e =? h); cbn [map]; [reflexivity|now rewrite IH]. Qed.

Lemma fail_first_keys i h q : map ekey (fail_first i h q) = map ekey q.
Proof. induction q as [|e t IH]; cbn [fail_first]; [reflexivity|].
       destruct ((e_id e =? i) && (e_hash e =? h)); cbn [map]; [reflexivity|now rewrite IH]. Qed.

Lemma mark_first_count h q : countb is_fetching (mark_first h q) <= countb is_fetching q.
Proof. induction q as [|e t IH]; cbn [mark_first]; [lia|].
       destruct (e_hash e =? h); rewrite !countb_cons; [|lia].
       unfold is_fetching at 1; cbn. destruct (is_fetching e); lia. Qed.

Lemma fail_first_count i h q : countb is_fetching (fail_first i h q) <= countb is_fetching q.
Proof. induction q as [|e t IH]; cbn [fail_first]; [lia|].
       destruct ((e_id e =? i) && (e_hash e =? h)); rewrite !countb_cons; [|lia].
       unfold is_fetching at 1; cbn. destruct (is_fetching e); lia. Qed.

Lemma filter_mark_first_ok h q :
  Forall entry_ok q -> Forall entry_ok (filter not_fetched (mark_first h q)).
Proof.
  induction q as [|e t IH]; intros H; cbn [mark_first filter]; [constructor|].
  inversion H as [|? ? He Ht]; subst.
  destruct (e_hash e =? h).
  - cbn [filter]. unfold not_fetched at 1; cbn. apply Forall_filter. exact Ht.
  - cbn [filter]. destruct (not_fetched e); [constructor|]; auto.
Qed.

Lemma fail_first_ok i h q : Forall entry_ok q -> Forall entry_ok (fail_first i h q).
Proof.
  induction q as [|e t IH]; intros H; cbn [fail_first]; [constructor|].
  inversion H as [|? ? He Ht]; subst.
  destruct ((e_id e =? i) && (e_hash e =? h)); constructor; auto.
  unfold entry_ok in *; cbn. destruct (e_st e); try contradiction; unfold MAX_RETRIES in *; lia.
Qed.

Lemma InvQ_filter batch f q :
  InvQ batch q -> filter f q <> [] -> InvQ batch (filter f q).
Proof.
  intros (Hc & Hn & Ha & _) Hne. repeat split; auto.
  - pose proof (countb_filter_le is_fetching f q). lia.
  - now apply NoDup_map_filter.
  - now apply Forall_filter.
Qed.

Lemma mark_as_fetched_inv batch s h : Inv batch s -> Inv batch (mark_as_fetched s h).
Proof.
  intros [Htf Hrc]. split; [|exact Hrc]. cbn [tofetch mark_as_fetched].
  apply (filter_nonempty_inv (InvQ batch)).
  apply Forall_forall. intros [p q'] Hin. apply in_map_iff in Hin as [[p0 q] [Heq Hin]].
  inversion Heq; subst. rewrite Forall_forall in Htf. destruct (Htf _ Hin) as [Hp (Hc & Hn & Ha & _)].
  cbn [fst snd] in *. split; [exact Hp|]. intros Hne. repeat split; auto.
  - pose proof (countb_filter_le is_fetching not_fetched (mark_first h q)).
    pose proof (mark_first_count h q). lia.
  - apply NoDup_map_filter. now rewrite mark_first_keys.
  - now apply filter_mark_first_ok.
Qed.

Lemma remove_entry_inv batch s h : Inv batch s -> Inv batch (remove_entry s h).
Proof.
  intros [Htf Hrc]. split; [|exact Hrc]. cbn [tofetch remove_entry].
  apply (filter_nonempty_inv (InvQ batch)).
  apply Forall_forall. intros [p q'] Hin. apply in_map_iff in Hin as [[p0 q] [Heq Hin]].
  inversion Heq; subst. rewrite Forall_forall in Htf. destruct (Htf _ Hin) as [Hp Hq].
  cbn [fst snd] in *. split; [exact Hp|]. intros Hne. now apply InvQ_filter.
Qed.

Lemma Forall_aset {V} (P : N * V -> Prop) k v m :
  Forall P m -> P (k, v) -> Forall P (aset k v m).
Proof.
  intros Hm Hkv. apply Forall_forall. intros kv Hin.
  apply in_aset in Hin as [->|Hin]; [exact Hkv|]. rewrite Forall_forall in Hm; auto.
Qed.

Lemma mark_as_failed_inv batch s i h p : Inv batch s -> Inv batch (mark_as_failed s i h p).
Proof.
  intros [Htf Hrc]. unfold mark_as_failed.
  destruct (aget p (tofetch s)) as [q|] eqn:Hg; [|split; assumption].
  split; [|exact Hrc]. cbn [tofetch].
  apply aget_in in Hg. pose proof Htf as Htf'. rewrite Forall_forall in Htf'.
  destruct (Htf' _ Hg) as [Hp (Hc & Hn & Ha & Hne)]. cbn [fst snd] in *.
  apply Forall_aset; [exact Htf|]. cbn [fst snd]. split; [exact Hp|]. repeat split.
  - pose proof (fail_first_count i h q). lia.
  - now rewrite fail_first_keys.
  - now apply fail_first_ok.
  - destruct q; [congruence|]. cbn [fail_first]. destruct (_ && _); discriminate.
Qed.

Lemma push_received_inv batch s p i h : p <> 0 -> Inv batch s -> Inv batch (push_received s p i h).
Proof.
  intros Hp [Htf Hrc]. split; [exact Htf|]. cbn [received push_received].
  apply Forall_aset; [exact Hrc|exact Hp].
Qed.

Lemma add_entry_inv batch urls s h i p :
  ~ In 0 urls -> Inv batch s -> Inv batch (add_entry urls s h i p).
Proof.
  intros Hu Hinv. unfold add_entry. destruct (N.eqb_spec p 0).
  - revert s Hinv. induction urls as [|u t IH]; intros s Hinv; cbn [fold_left]; [exact Hinv|].
    apply IH; [intros H; apply Hu; now right|].
    apply push_received_inv; [intros ->; apply Hu; now left|exact Hinv].
  - now apply push_received_inv.
Qed.

(* build_queue *)
Lemma entry_exists_false q i h :
  entry_exists q i h = false -> ~ In (i, h) (map ekey q).
Proof.
  unfold entry_exists. intros H Hin. apply in_map_iff in Hin as [e [Hk Hin]].
  assert (existsb (fun b => (e_hash b =? h) && (e_id b =? i)) q = true); [|congruence].
  apply existsb_exists. exists e. split; [exact Hin|]. unfold ekey in Hk. inversion Hk. lia.
Qed.

Definition InvQ0 (batch : N) (q : list entry) : Prop :=
  countb is_fetching q <= batch /\ NoDup (map ekey q) /\ Forall entry_ok q.

Lemma NoDup_snoc {A} (l : list A) x : NoDup l -> ~ In x l -> NoDup (l ++ [x]).
Proof.
  intros Hn Hx. apply NoDup_rev in Hn. rewrite <- (rev_involutive (l ++ [x])).
  apply NoDup_rev. rewrite rev_app_distr. cbn. constructor; [|exact Hn].
  now rewrite <- in_rev.
Qed.

Lemma build_queue_inv batch known q pic : InvQ0 batch q -> InvQ0 batch (build_queue known q pic).
Proof.
  unfold build_queue. generalize (sort_by key_le pic) as l. intros l. revert q.
  induction l as [|[i h] t IH]; intros q Hq; cbn [fold_left]; [exact Hq|].
  apply IH. destruct (known h); [exact Hq|].
  destruct (entry_exists q i h) eqn:Hex; [exact Hq|].
  destruct Hq as (Hc & Hn & Ha). repeat split.
  - rewrite countb_app, countb_cons, countb_nil. unfold is_fetching at 2; cbn. lia.
  - rewrite map_app. cbn [map]. unfold ekey at 2; cbn.
    apply NoDup_snoc; [exact Hn|]. now apply entry_exists_false.
  - apply Forall_app. split; [exact Ha|]. constructor; [|constructor].
    unfold entry_ok; cbn. unfold MAX_RETRIES. lia.
Qed.

Lemma InvQ_of_InvQ0 batch q : InvQ0 batch q -> q <> [] -> InvQ batch q.
Proof. intros (A & B & C) D. repeat split; auto. Qed.
Lemma InvQ0_of_InvQ batch q : InvQ batch q -> InvQ0 batch q.
Proof. intros (A & B & C & D). repeat split; auto. Qed.
Lemma InvQ0_nil batch : InvQ0 batch [].
Proof. repeat split; [rewrite countb_nil; lia|constructor|constructor]. Qed.

Definition TfInv0 batch (tf : list (N * list entry)) :=
  Forall (fun pq => fst pq <> 0 /\ InvQ0 batch (snd pq)) tf.

Lemma build_inv batch known s : Inv batch s -> Inv batch (build known s).
Proof.
  intros [Htf Hrc]. split; [|constructor]. cbn [tofetch build].
  apply (filter_nonempty_inv (InvQ batch)).
  assert (H0 : TfInv0 batch (tofetch s)).
  { eapply Forall_impl; [|exact Htf]. intros pq [Hp Hq]. split; [exact Hp|now apply InvQ0_of_InvQ]. }
  assert (Hgoal : TfInv0 batch
            (fold_left (fun tf pp => let '(peer, pic) := pp in
                          let q := match aget peer tf with Some q => q | None => [] end in
                          aset peer (build_queue known q pic) tf) (received s) (tofetch s))).
  { revert H0. generalize (tofetch s) as tf. induction (received s) as [|[peer pic] t IH];
      intros tf H0; cbn [fold_left]; [exact H0|].
    inversion Hrc as [|? ? Hp Hrc']; subst. cbn [fst] in Hp.
    apply IH; [exact Hrc'|]. apply Forall_aset; [exact H0|]. cbn [fst snd]. split; [exact Hp|].
    apply build_queue_inv. destruct (aget peer tf) as [q|] eqn:Hg; [|apply InvQ0_nil].
    apply aget_in in Hg. unfold TfInv0 in H0. rewrite Forall_forall in H0. now destruct (H0 _ Hg). }
  eapply Forall_impl; [|exact Hgoal]. intros pq [Hp Hq]. split; [exact Hp|].
  intros Hne. now apply InvQ_of_InvQ0.
Qed.

(* ---------- every reachable state ---------- *)
Lemma Inv_init batch : Inv batch init.
Proof. split; constructor. Qed.

Lemma step_inv batch urls s o :
  ~ In 0 urls -> Inv batch s ->
  exists s' obs, step batch urls s o = Ok (s', obs) /\ Inv batch s'.
Proof.
  intros Hu Hinv. destruct o; cbn [step].
  - eexists _, _. split; [reflexivity|]. now apply add_entry_inv.
  - eexists _, _. split; [reflexivity|]. now apply build_inv.
  - unfold select. destruct Hinv as [Htf Hrc].
    destruct (select_all_inv batch (tofetch s) Htf) as (tf' & sels & -> & Htf'). cbn [bind].
    eexists _, _. split; [reflexivity|]. split; assumption.
  - eexists _, _. split; [reflexivity|]. now apply mark_as_fetched_inv.
  - eexists _, _. split; [reflexivity|]. now apply mark_as_failed_inv.
  - eexists _, _. split; [reflexivity|]. now apply remove_entry_inv.
Qed.

Lemma run_inv batch urls ops s :
  ~ In 0 urls -> Inv batch s -> exists s', run batch urls s ops = Ok s' /\ Inv batch s'.
Proof.
  intros Hu. revert s. induction ops as [|o t IH]; intros s Hinv; cbn [run].
  - exists s. split; [reflexivity|exact Hinv].
  - destruct (step_inv batch urls s o Hu Hinv) as (s' & obs & -> & Hinv'). cbn [bind fst].
    now apply IH.
Qed.

Definition Reach batch urls (s : state) : Prop := exists ops, run batch urls init ops = Ok s.

Lemma reach_inv batch urls s : ~ In 0 urls -> Reach batch urls s -> Inv batch s.
Proof.
  intros Hu [ops Hr]. destruct (run_inv batch urls ops init Hu (Inv_init batch)) as (s' & Hr' & Hinv).
  congruence.
Qed.

(* ---------- the statements used by props/C16.v ---------- *)
Lemma no_panic batch urls ops site :
  ~ In 0 urls -> run batch urls init ops <> Panic site.
Proof.
  intros Hu. destruct (run_inv batch urls ops init Hu (Inv_init batch)) as (s' & -> & _). discriminate.
Qed.

Lemma inflight_bounded batch urls s p q :
  ~ In 0 urls -> Reach batch urls s -> In (p, q) (tofetch s) ->
  countb is_fetching q <= batch.
Proof.
  intros Hu Hr Hin. destruct (reach_inv _ _ _ Hu Hr) as [Htf _].
  rewrite Forall_forall in Htf. destruct (Htf _ Hin) as [_ (Hc & _)]. exact Hc.
Qed.

Lemma keys_unique batch urls s p q :
  ~ In 0 urls -> Reach batch urls s -> In (p, q) (tofetch s) -> NoDup (map ekey q).
Proof.
  intros Hu Hr Hin. destruct (reach_inv _ _ _ Hu Hr) as [Htf _].
  rewrite Forall_forall in Htf. destruct (Htf _ Hin) as [_ (_ & Hn & _)]. exact Hn.
Qed.

Lemma requests_bounded batch urls s p q e :
  ~ In 0 urls -> Reach batch urls s -> In (p, q) (tofetch s) -> In e q ->
  e_req e <= MAX_RETRIES + 1 /\ e_retry e <= MAX_RETRIES + 1.
Proof.
  intros Hu Hr Hin He. destruct (reach_inv _ _ _ Hu Hr) as [Htf _].
  rewrite Forall_forall in Htf. destruct (Htf _ Hin) as [_ (_ & _ & Ha & _)].
  rewrite Forall_forall in Ha. specialize (Ha _ He). split; [now apply entry_ok_req|].
  unfold entry_ok in Ha. destruct (e_st e); try contradiction; lia.
Qed.

(* one selection round of one peer: what is handed out *)
Definition swap (hi : N * N) : N * N := (snd hi, fst hi).

Lemma select_peer_round batch peer q q' sel :
  select_peer batch peer q = Ok (q', sel) ->
  (* sorted by (id, hash) *)
  StronglySorted (fun a b => key_le a b = true) (map swap sel)
  (* handed-out entries were Queued, i.e. not in flight *)
  /\ (forall hi, In hi sel -> exists e, In e q /\ e_st e = Queued /\ hi = (e_hash e, e_id e))
  (* a Queued entry that is not handed out sorts after everything handed out *)
  /\ (forall e, In e q -> e_st e = Queued -> ~ In (e_hash e, e_id e) sel ->
        forall hi, In hi sel -> key_le (swap hi) (ekey e) = true)
  /\ Nlen sel + countb is_fetching q <= batch.
Proof.
  unfold select_peer. destruct (peer =? 0); [discriminate|].
  set (q1 := sort_by entry_le q).
  destruct (N.ltb_spec batch (countb is_fetching q1)) as [|Hle]; [discriminate|].
  assert (Hperm : Permutation q1 q) by apply sort_by_perm.
  assert (Hsorted : StronglySorted (fun a b => entry_le a b = true) q1)
    by (apply sort_by_sorted; [apply entry_le_total|apply entry_le_trans]).
  destruct q1 as [|x t] eqn:Hq1; [discriminate|]. rewrite <- Hq1 in *. clear Hq1 x t.
  intros Heq. inversion Heq as [Hsl]. clear Heq.
  pose proof (select_loop_split (batch - countb is_fetching q1) q1) as Hsp.
  pose proof (select_loop_count (batch - countb is_fetching q1) q1) as Hcnt.
  rewrite Hsl in Hsp, Hcnt. cbn [fst snd] in Hsp.
  destruct Hsp as (pre & pre' & rest & Hq & Hq' & Hsel).
  assert (Hsel1 : forall hi, In hi sel -> exists e, In e pre /\ e_st e = Queued /\ hi = (e_hash e, e_id e)).
  { intros hi Hin. rewrite Hsel in Hin. apply in_map_iff in Hin as (e & <- & Hin).
    apply filter_In in Hin as [Hin Hqd]. exists e. repeat split; auto.
    unfold is_queued in Hqd. destruct (e_st e); try discriminate; reflexivity. }
  assert (Hsel2 : forall e, In e pre -> e_st e = Queued -> In (e_hash e, e_id e) sel).
  { intros e Hin Hst. rewrite Hsel. apply in_map_iff. exists e. split; [reflexivity|].
    apply filter_In. split; [exact Hin|]. unfold is_queued. now rewrite Hst. }
  assert (Hin_q : forall e, In e q1 <-> In e q).
  { intros e. split; apply Permutation_in; [exact Hperm|now symmetry]. }
  (* sortedness of pre ++ rest *)
  rewrite Hq in Hsorted.
  assert (Hpre_sorted : StronglySorted (fun a b => entry_le a b = true) pre).
  { clear -Hsorted. induction pre as [|a l IH]; [constructor|].
    cbn in Hsorted. inversion Hsorted as [|? ? Hs Hall]; subst. constructor; [auto|].
    apply Forall_app in Hall. tauto. }
  assert (Hcross : forall a b, In a pre -> In b rest -> entry_le a b = true).
  { clear -Hsorted. induction pre as [|x l IH]; intros a b Ha Hb; [contradiction|].
    cbn in Hsorted. inversion Hsorted as [|? ? Hs Hall]; subst.
    destruct Ha as [<-|Ha]; [|now apply IH].
    rewrite Forall_forall in Hall. apply Hall. apply in_or_app. now right. }
  repeat split.
  - (* sorted *)
    rewrite Hsel, map_map.
    apply (StronglySorted_filter _ is_queued) in Hpre_sorted.
    clear -Hpre_sorted. induction (filter is_queued pre) as [|a l IH]; [constructor|].
    inversion Hpre_sorted as [|? ? Hs Hall]; subst. cbn [map]. constructor; [auto|].
    rewrite Forall_map. exact Hall.
  - intros hi Hin. destruct (Hsel1 hi Hin) as (e & He & Hst & ->).
    exists e. repeat split; auto. apply Hin_q. rewrite Hq. apply in_or_app. now left.
  - intros e He Hst Hnot hi Hhi.
    destruct (Hsel1 hi Hhi) as (e0 & He0 & Hst0 & ->). unfold swap; cbn [fst snd].
    apply Hin_q in He. rewrite Hq in He. apply in_app_or in He as [He|He].
    + exfalso. apply Hnot. now apply Hsel2.
    + now apply Hcross.
  - rewrite <- (countb_perm _ _ _ Hperm). lia.
Qed.

Lemma select_peer_progress batch peer q l1 e l2 :
  peer <> 0 -> InvQ batch q ->
  sort_by entry_le q = l1 ++ e :: l2 -> e_st e = Queued ->
  countb eligible l1 + countb is_fetching q < batch ->
  exists q' sel, select_peer batch peer q = Ok (q', sel) /\ In (e_hash e, e_id e) sel.
Proof.
  intros Hp Hinv Hs Hq Hlt.
  destruct (select_peer_inv batch peer q Hp Hinv) as (q' & sel & Heq & _).
  exists q', sel. split; [exact Heq|].
  unfold select_peer in Heq. destruct (peer =? 0); [discriminate|].
  assert (Hc : countb is_fetching (sort_by entry_le q) = countb is_fetching q)
    by (apply countb_perm, sort_by_perm).
  rewrite Hc in Heq.
  destruct (batch <? countb is_fetching q); [discriminate|].
  rewrite Hs in Heq. destruct (l1 ++ e :: l2) eqn:Hl; [destruct l1; discriminate|].
  rewrite <- Hl in Heq. inversion Heq as [Hsl].
  pose proof (select_loop_progress (batch - countb is_fetching q) l1 e l2 Hq) as Hpr.
  rewrite Hsl in Hpr. apply Hpr. lia.
Qed.

(* ------------------------------------------------------------------ *)
(* bounded liveness over several rounds, under the environment assumption that
   every block handed out in a round is fetched before the next round.         *)

Definition all_queued (q : list entry) : Prop := Forall (fun e => e_st e = Queued) q.

Lemma select_loop_all_queued quota q :
  all_queued q ->
  snd (select_loop quota q) = map hk (firstn (N.to_nat quota) q)
  /\ map ekey (fst (select_loop quota q)) = map ekey q
  /\ Forall (fun e => e_st e = Fetching) (firstn (N.to_nat quota) (fst (select_loop quota q)))
  /\ skipn (N.to_nat quota) (fst (select_loop quota q)) = skipn (N.to_nat quota) q.
Proof.
  revert quota. induction q as [|e t IH]; intros quota Hq.
  - cbn [select_loop fst snd]. rewrite !firstn_nil, !skipn_nil. repeat split; constructor.
  - inversion Hq as [|? ? He Ht]; subst. cbn [select_loop].
    destruct (N.eqb_spec quota 0) as [->|Hn].
    + cbn [fst snd N.to_nat firstn skipn map]. repeat split; constructor.
    + rewrite He. specialize (IH (quota - 1) Ht).
      destruct (select_loop (quota - 1) t) as [t' sel] eqn:Hs. cbn [fst snd] in *.
      destruct IH as (I1 & I2 & I3 & I4).
      assert (Hq' : N.to_nat quota = S (N.to_nat (quota - 1))) by lia.
      rewrite Hq'. cbn [firstn skipn map]. repeat split.
      * rewrite I1. reflexivity.
      * rewrite I2. reflexivity.
      * constructor; [reflexivity|exact I3].
      * exact I4.
Qed.

(* insertion sort leaves a sorted list alone *)
Lemma insert_by_head {A} (le : A -> A -> bool) x l :
  Forall (fun y => le x y = true) l -> insert_by le x l = x :: l.
Proof. destruct l as [|y t]; [reflexivity|]. intros H. inversion H; subst. cbn [insert_by]. now rewrite H2. Qed.

Lemma sort_by_sorted_id {A} (le : A -> A -> bool) l :
  StronglySorted (fun a b => le a b = true) l -> sort_by le l = l.
Proof.
  induction l as [|x t IH]; intros H; [reflexivity|].
  inversion H as [|? ? Ht Hall]; subst. cbn [sort_by fold_right]. fold (sort_by le t).
  rewrite (IH Ht). now apply insert_by_head.
Qed.

(* what one peer's queue looks like after a selection round followed by the arrival of
   every block that was handed out: the first [batch] entries (in height order) are gone *)
Fixpoint fetch_all (hashes : list N) (q : list entry) : list entry :=
  match hashes with
  | [] => q
  | h :: t => fetch_all t (filter not_fetched (mark_first h q))
  end.

Definition hashes_unique (q : list entry) : Prop := NoDup (map e_hash q).

Lemma filter_not_fetched_id q :
  Forall (fun e => e_st e <> Fetched) q -> filter not_fetched q = q.
Proof.
  induction q as [|e t IH]; intros H; [reflexivity|]. inversion H; subst. cbn [filter].
  unfold not_fetched at 1. destruct (e_st e); try contradiction; cbn [status_eqb negb]; f_equal; auto.
Qed.

Lemma fetch_all_prefix pre rest :
  Forall (fun e => e_st e <> Fetched) (pre ++ rest) ->
  fetch_all (map e_hash pre) (pre ++ rest) = rest.
Proof.
  revert rest. induction pre as [|e t IH]; intros rest Hnf; [reflexivity|].
  cbn [map fetch_all app mark_first]. rewrite N.eqb_refl. cbn [filter].
  unfold not_fetched at 1. cbn [e_st set_st status_eqb negb].
  cbn [app] in Hnf. inversion Hnf as [|? ? _ Hnf']; subst.
  rewrite filter_not_fetched_id by exact Hnf'. now apply IH.
Qed.

(* one peer, ideal round: sort, hand out, everything handed out arrives *)
Definition ideal_round (batch : N) (q : list entry) : list entry :=
  let q1 := sort_by entry_le q in
  fetch_all (map fst (snd (select_loop batch q1))) (fst (select_loop batch q1)).

Lemma skipn_In_local {A} n (l : list A) x : In x (skipn n l) -> In x l.
Proof. revert l. induction n as [|n IH]; intros [|y t] H; cbn in *; auto. Qed.

Lemma firstn_map_hash n (l : list entry) : map e_hash (firstn n l) = firstn n (map e_hash l).
Proof. symmetry. apply firstn_map. Qed.

Lemma ideal_round_spec batch q :
  all_queued q ->
  ideal_round batch q = skipn (N.to_nat batch) (sort_by entry_le q).
Proof.
  intros Hq. unfold ideal_round. set (q1 := sort_by entry_le q).
  assert (Hp : Permutation q1 q) by apply sort_by_perm.
  assert (Hq1 : all_queued q1) by (eapply Permutation_Forall; [symmetry; exact Hp|exact Hq]).
  destruct (select_loop_all_queued batch q1 Hq1) as (S1 & S2 & S3 & S4).
  set (q' := fst (select_loop batch q1)) in *. rewrite S1, map_map.
  replace (map (fun x => fst (hk x)) (firstn (N.to_nat batch) q1))
    with (map e_hash (firstn (N.to_nat batch) q')).
  2:{ assert (Hh : map e_hash q' = map e_hash q1).
      { assert (Hk : forall l, map snd (map ekey l) = map e_hash l)
          by (intros l; rewrite map_map; apply map_ext; reflexivity).
        rewrite <- !Hk. now rewrite S2. }
      rewrite !firstn_map_hash, Hh. rewrite <- firstn_map_hash. apply map_ext. reflexivity. }
  rewrite <- S4.
  rewrite <- (firstn_skipn (N.to_nat batch) q') at 2.
  apply fetch_all_prefix. rewrite firstn_skipn.
  (* nothing in q' is Fetched: first part Fetching, rest unchanged Queued *)
  rewrite <- (firstn_skipn (N.to_nat batch) q'). apply Forall_app. split.
  - eapply Forall_impl; [|exact S3]. intros e He. rewrite He. discriminate.
  - rewrite S4. apply Forall_forall. intros e He.
    assert (Hin : In e q1) by (eapply (skipn_In_local); exact He).
    unfold all_queued in Hq1. rewrite Forall_forall in Hq1. rewrite (Hq1 _ Hin). discriminate.
Qed.

Lemma StronglySorted_skipn {A} (R : A -> A -> Prop) n l :
  StronglySorted R l -> StronglySorted R (skipn n l).
Proof.
  revert l. induction n as [|n IH]; intros [|x t] H; cbn [skipn]; auto.
  inversion H; subst. auto.
Qed.

Lemma all_queued_skipn n q : all_queued q -> all_queued (skipn n q).
Proof.
  unfold all_queued. intros H. apply Forall_forall. intros e He.
  rewrite Forall_forall in H. apply H. eapply skipn_In_local; exact He.
Qed.

Lemma skipn_skipn_local {A} (x y : nat) (l : list A) : skipn x (skipn y l) = skipn (y + x) l.
Proof.
  revert l. induction y as [|y IH]; intros l; [reflexivity|].
  destruct l as [|a t]; cbn [skipn Nat.add]; [now rewrite skipn_nil|apply IH].
Qed.

Fixpoint rounds (k : nat) (batch : N) (q : list entry) : list entry :=
  match k with O => q | S k' => rounds k' batch (ideal_round batch q) end.

(* after k+1 rounds in each of which everything handed out arrives, exactly the first
   (k+1) * batch entries (in (height, hash) order) have been requested and received *)
Lemma rounds_spec k batch q :
  all_queued q ->
  rounds (S k) batch q = skipn (S k * N.to_nat batch) (sort_by entry_le q).
Proof.
  revert q. induction k as [|k IH]; intros q Hq.
  - cbn [rounds]. rewrite ideal_round_spec by exact Hq. f_equal; lia.
  - change (rounds (S (S k)) batch q) with (rounds (S k) batch (ideal_round batch q)).
    rewrite ideal_round_spec by exact Hq.
    assert (Hs : StronglySorted (fun a b => entry_le a b = true) (sort_by entry_le q))
      by (apply sort_by_sorted; [apply entry_le_total|apply entry_le_trans]).
    assert (Hq' : all_queued (skipn (N.to_nat batch) (sort_by entry_le q))).
    { apply all_queued_skipn. eapply Permutation_Forall; [symmetry; apply sort_by_perm|exact Hq]. }
    rewrite IH by exact Hq'.
    rewrite (sort_by_sorted_id entry_le) by (apply StronglySorted_skipn; exact Hs).
    rewrite skipn_skipn_local. f_equal; lia.
Qed.

