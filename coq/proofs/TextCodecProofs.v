(* Round trips of the text formats of model/TextCodec.v (balance snapshot rows and
   file name): decimal and hex printing/parsing, separators. *)
From Saito Require Import Base Bytes BytesProofs Codec CodecProofs TextCodec.

Open Scope N_scope.

(* ------------------------------------------------------------------ *)
(* decimal                                                             *)
(* ------------------------------------------------------------------ *)

Fixpoint pow10 (n : nat) : N := match n with O => 1 | S k => 10 * pow10 k end.

Lemma dec_digits_app fuel : forall x acc, dec_digits fuel x acc = dec_digits fuel x [] ++ acc.
Proof.
  induction fuel as [|f IH]; intros x acc; cbn [dec_digits]; [reflexivity|].
  destruct (x <? 10); [reflexivity|].
  rewrite (IH (x / 10) (48 + x mod 10 :: acc)), (IH (x / 10) [48 + x mod 10]).
  now rewrite <- app_assoc.
Qed.

Lemma digit_of_mod x : is_digit (48 + x mod 10) = true.
Proof. unfold is_digit. pose proof (N.mod_lt x 10 ltac:(lia)). lia. Qed.

Lemma dec_digits_all_digits fuel : forall x acc,
  forallb is_digit acc = true -> forallb is_digit (dec_digits fuel x acc) = true.
Proof.
  induction fuel as [|f IH]; intros x acc H; cbn [dec_digits]; [assumption|].
  assert (H' : forallb is_digit (48 + x mod 10 :: acc) = true)
    by (cbn [forallb]; now rewrite digit_of_mod, H).
  destruct (x <? 10); [assumption|]. now apply IH.
Qed.

Lemma dec_digits_nonempty fuel x acc : dec_digits (S fuel) x acc <> [].
Proof.
  cbn [dec_digits]. destruct (x <? 10); [discriminate|].
  rewrite dec_digits_app. destruct (dec_digits fuel (x / 10) []); discriminate.
Qed.

Lemma dval_snoc l d : dval (l ++ [d]) = dval l * 10 + (d - 48).
Proof. unfold dval. now rewrite fold_left_app. Qed.

Lemma dec_digits_S f x acc :
  dec_digits (S f) x acc =
  if x <? 10 then (48 + x mod 10) :: acc else dec_digits f (x / 10) ((48 + x mod 10) :: acc).
Proof. reflexivity. Qed.

Lemma dval_dec_digits fuel : forall x, x < pow10 (S fuel) -> dval (dec_digits (S fuel) x []) = x.
Proof.
  induction fuel as [|f IH]; intros x Hx; rewrite dec_digits_S.
  - cbn [pow10] in Hx. replace (x <? 10) with true by lia.
    unfold dval. cbn [fold_left]. rewrite N.mod_small by lia. lia.
  - destruct (x <? 10) eqn:E.
    + unfold dval. cbn [fold_left]. rewrite N.mod_small by lia. lia.
    + rewrite dec_digits_app, dval_snoc.
      assert (Hq : x / 10 < pow10 (S f)).
      { apply N.div_lt_upper_bound; [lia|]. change (pow10 (S (S f))) with (10 * pow10 (S f)) in Hx. lia. }
      rewrite (IH (x / 10) Hq). pose proof (N.div_mod x 10 ltac:(lia)).
      pose proof (N.mod_lt x 10 ltac:(lia)). lia.
Qed.

Lemma dec_enc_digits x : forallb is_digit (dec_enc x) = true.
Proof. unfold dec_enc. now apply dec_digits_all_digits. Qed.

Lemma dec_enc_nonempty x : dec_enc x <> [].
Proof. unfold dec_enc. apply dec_digits_nonempty. Qed.

Lemma pow10_20 : pow10 20 = 100000000000000000000.
Proof. reflexivity. Qed.

Lemma dval_dec_enc x : x < two64 -> dval (dec_enc x) = x.
Proof.
  intro H. unfold dec_enc. apply (dval_dec_digits 19). rewrite pow10_20. unfold two64 in H. lia.
Qed.

Lemma dec_parse_enc bound x : x < bound -> bound <= two64 -> dec_parse bound (dec_enc x) = Some x.
Proof.
  intros Hx Hb. unfold dec_parse.
  pose proof (dec_enc_digits x) as Hd. pose proof (dec_enc_nonempty x) as Hn.
  destruct (dec_enc x) as [|c r] eqn:E; [contradiction|].
  assert (Hc : is_digit c = true) by (cbn [forallb] in Hd; now apply andb_split in Hd as [Hc _]).
  unfold is_digit in Hc. replace (c =? CH_PLUS) with false by (unfold CH_PLUS; lia).
  rewrite Hd. rewrite <- E, dval_dec_enc by lia. replace (x <? bound) with true by lia. reflexivity.
Qed.

Lemma digits_no_char c l : forallb is_digit l = true -> (c <? 48) = true ->
  forallb (fun x => negb (x =? c)) l = true.
Proof.
  intros H Hc. induction l as [|d l IH]; [reflexivity|]. cbn [forallb] in *.
  apply andb_split in H as [Hd Hl]. rewrite (IH Hl). unfold is_digit in Hd.
  replace (d =? c) with false by lia. reflexivity.
Qed.

(* ------------------------------------------------------------------ *)
(* hex                                                                 *)
(* ------------------------------------------------------------------ *)

Lemma hexval_hexchar n : n < 16 -> hexval (hexchar n) = Some n.
Proof.
  intro H. unfold hexchar, hexval. destruct (n <? 10) eqn:E.
  - replace ((48 <=? 48 + n) && (48 + n <=? 57)) with true by lia. f_equal. lia.
  - replace ((48 <=? 87 + n) && (87 + n <=? 57)) with false by lia.
    replace ((97 <=? 87 + n) && (87 + n <=? 102)) with true by lia. f_equal. lia.
Qed.

Lemma hex_dec_enc l : bytes_ok l = true -> hex_dec (hex_enc l) = Some l.
Proof.
  induction l as [|b l IH]; intro H; [reflexivity|].
  rewrite bytes_ok_cons in H. apply andb_split in H as [Hb Hl]. unfold byte_ok in Hb.
  cbn [hex_enc flat_map app hex_dec]. fold (hex_enc l).
  assert (H1 : b / 16 < 16) by (apply N.div_lt_upper_bound; lia).
  assert (H2 : b mod 16 < 16) by (apply N.mod_lt; lia).
  rewrite (hexval_hexchar _ H1), (hexval_hexchar _ H2), (IH Hl).
  f_equal. f_equal. pose proof (N.div_mod b 16 ltac:(lia)). lia.
Qed.

Lemma hexchar_no_char c n : n < 16 -> (c <? 48) = true -> (hexchar n =? c) = false.
Proof. intros H Hc. unfold hexchar. destruct (n <? 10); lia. Qed.

Lemma hex_enc_no_char c l : bytes_ok l = true -> (c <? 48) = true ->
  forallb (fun x => negb (x =? c)) (hex_enc l) = true.
Proof.
  intros H Hc. induction l as [|b l IH]; [reflexivity|].
  rewrite bytes_ok_cons in H. apply andb_split in H as [Hb Hl]. unfold byte_ok in Hb.
  cbn [hex_enc flat_map app forallb]. fold (hex_enc l).
  rewrite !hexchar_no_char; try assumption; [now rewrite (IH Hl)| |].
  - apply N.mod_lt. lia.
  - apply N.div_lt_upper_bound; lia.
Qed.

(* ------------------------------------------------------------------ *)
(* rows and file name                                                  *)
(* ------------------------------------------------------------------ *)

Lemma forallb_app_intro {A} (f : A -> bool) a b :
  forallb f a = true -> forallb f b = true -> forallb f (a ++ b) = true.
Proof. intros Ha Hb. now rewrite forallb_app, Ha, Hb. Qed.

Lemma snapshot_row_round_trip r : wf_snap_row r = true -> parse_row (print_row r) = Some r.
Proof.
  intro W. unfold wf_snap_row in W. split_and.
  unfold parse_row, print_row.
  assert (Hsp : forall x, forallb (fun c => negb (c =? CH_SPACE)) (dec_enc x) = true)
    by (intro x; apply digits_no_char; [apply dec_enc_digits|reflexivity]).
  rewrite split_on_app by assumption.
  rewrite split_on_app by apply Hsp.
  rewrite split_on_app by apply Hsp.
  rewrite split_on_app by apply Hsp.
  rewrite split_on_no_sep by apply Hsp.
  rewrite !dec_parse_enc by (unfold two64 in *; lia).
  destruct r; reflexivity.
Qed.

Lemma snapshot_name_round_trip ts id hash :
  ts < two64 -> id < two64 -> arr_ok 32 hash = true ->
  parse_snap_name (print_snap_name ts id hash) = Some (ts, id, hash).
Proof.
  intros Hts Hid Hh. pose proof (arr_ok_len _ _ Hh) as HL. pose proof (arr_ok_bytes _ _ Hh) as HB.
  unfold parse_snap_name, print_snap_name, SNAP_EXT.
  assert (Hdot : forallb (fun c => negb (c =? CH_DOT))
                   (dec_enc ts ++ CH_DASH :: dec_enc id ++ CH_DASH :: hex_enc hash) = true).
  { apply forallb_app_intro; [apply digits_no_char; [apply dec_enc_digits|reflexivity]|].
    cbn [forallb]. apply andb_true_iff. split; [reflexivity|].
    apply forallb_app_intro; [apply digits_no_char; [apply dec_enc_digits|reflexivity]|].
    cbn [forallb]. apply andb_true_iff. split; [reflexivity|].
    apply hex_enc_no_char; [assumption|reflexivity]. }
  replace (dec_enc ts ++ CH_DASH :: dec_enc id ++ CH_DASH :: hex_enc hash ++ [46; 115; 110; 97; 112])
    with ((dec_enc ts ++ CH_DASH :: dec_enc id ++ CH_DASH :: hex_enc hash) ++ CH_DOT :: [115; 110; 97; 112])
    by (rewrite <- !app_assoc; cbn [app]; rewrite <- !app_assoc; reflexivity).
  rewrite split_on_app by assumption.
  rewrite split_on_app by (apply digits_no_char; [apply dec_enc_digits|reflexivity]).
  rewrite split_on_app by (apply digits_no_char; [apply dec_enc_digits|reflexivity]).
  rewrite split_on_no_sep by (apply hex_enc_no_char; [assumption|reflexivity]).
  rewrite !dec_parse_enc by (unfold two64 in *; lia).
  rewrite hex_dec_enc by assumption. rewrite HL. reflexivity.
Qed.
