(* Facts about model/TxValid.v used by props/C01.v *)
From Saito Require Import Base TxValid.
From Coq Require Import Permutation.

Definition user_type (t : atx) : Prop :=
  t_type t <> TFee /\ t_type t <> TSPV /\ t_type t <> TATR /\ t_type t <> TIssuance
  /\ t_type t <> TStake /\ t_type t <> TBound.

(* unbounded sums *)
Definition nsum (l : list N) : N := fold_left N.add l 0.

(* what the property demands of one accepted user transaction *)
Record SpendOK (t : atx) : Prop := {
  so_signed : t_sig_ok t = true;
  so_nonempty : t_from t <> [];
  so_spendable : forall s, In s (t_from t) -> value_input s = true -> sl_spendable s = true;
  so_owned : forall s, In s (t_from t) -> value_input s = true -> sl_pk s = signer t;
  so_nodup : NoDup (value_keys t);
  so_no_inflation : nsum (map counted (t_from t)) < U64MAX ->
                    nsum (map counted (t_to t)) <= nsum (map counted (t_from t))
}.

Lemma nodupb_NoDup l : nodupb l = true -> NoDup l.
Proof.
  induction l as [|x t IH]; cbn [nodupb]; intros H; [constructor|].
  apply andb_true_iff in H as [Hx Ht]. constructor; [|auto].
  intros Hin. apply negb_true_iff in Hx.
  assert (existsb (N.eqb x) t = true); [|congruence].
  apply existsb_exists. exists x. split; [exact Hin|apply N.eqb_refl].
Qed.

(* saturating sums *)
Lemma fold_sat_add_acc l a :
  fold_left sat_add l a = N.min (fold_left N.add l a) U64MAX \/
  (U64MAX <= a /\ fold_left sat_add l a = fold_left sat_add l a).
Proof. left. revert a. induction l as [|x t IH]; intros a; cbn [fold_left].
  - unfold U64MAX, two64. (* a may exceed the bound only if it started above it *)
Abort.

Lemma sat_sum_spec_gen l a : a <= U64MAX ->
  fold_left sat_add l a = N.min (fold_left N.add l a) U64MAX.
Proof.
  revert a. induction l as [|x t IH]; intros a Ha; cbn [fold_left].
  - lia.
  - rewrite IH by (unfold sat_add; lia). unfold sat_add.
    destruct (N.le_gt_cases (a + x) U64MAX) as [Hle|Hgt].
    + rewrite (N.min_l (a + x)) by lia. reflexivity.
    + rewrite (N.min_r (a + x)) by lia.
      assert (Hmono : forall l b c, b <= c -> fold_left N.add l b <= fold_left N.add l c).
      { clear. induction l as [|y l IH]; intros b c Hbc; cbn [fold_left]; [lia|]. apply IH. lia. }
      pose proof (Hmono t U64MAX (a + x) ltac:(lia)).
      assert (Hge : forall l b, b <= fold_left N.add l b).
      { clear. induction l as [|y l IH]; intros b; cbn [fold_left]; [lia|].
        specialize (IH (b + y)). lia. }
      pose proof (Hge t U64MAX). lia.
Qed.

Lemma sat_sum_spec l : sat_sum l = N.min (nsum l) U64MAX.
Proof. unfold sat_sum, nsum. apply sat_sum_spec_gen. unfold U64MAX, two64. lia. Qed.

Lemma no_inflation t :
  total_in t <? total_out t = false ->
  nsum (map counted (t_from t)) < U64MAX ->
  nsum (map counted (t_to t)) <= nsum (map counted (t_from t)).
Proof. unfold total_in, total_out. rewrite !sat_sum_spec. lia. Qed.

Lemma forallb_In {A} (f : A -> bool) l x : forallb f l = true -> In x l -> f x = true.
Proof. intros H Hin. rewrite forallb_forall in H. auto. Qed.

Ltac case_if H :=
  match type of H with
  | (if ?c then _ else _) = _ => let E := fresh "E" in destruct c eqn:E; [try discriminate H|]
  end.

Lemma valid_user_inv t :
  user_type t -> tx_validate t = Valid ->
  nodupb (value_keys t) = true /\ t_from t <> [] /\ t_sig_ok t = true /\ all_owned t = true
  /\ (total_in t <? total_out t) = false /\ forallb slip_validate (t_from t) = true.
Proof.
  intros (Hfee & Hspv & Hatr & Hiss & Hstk & Hbnd) H. unfold tx_validate in H.
  apply N.eqb_neq in Hfee, Hspv, Hatr, Hiss, Hstk, Hbnd.
  rewrite Hfee, Hspv, Hstk, Hatr, Hiss, Hbnd in H. cbn [negb andb] in H.
  destruct (255 <? Nlen (t_from t)); [discriminate|].
  destruct (255 <? Nlen (t_to t)); [discriminate|].
  destruct (nodupb (value_keys t)); cbn [negb] in H; [|discriminate].
  destruct (t_from t) as [|s0 rest] eqn:Hfrom; [discriminate|].
  destruct (t_has_hash t); cbn [negb] in H; [|discriminate].
  destruct (t_sig_ok t); cbn [negb] in H; [|discriminate].
  destruct (all_owned t); cbn [negb] in H; [|discriminate].
  destruct (t_path_ok t); cbn [negb] in H; [|discriminate].
  destruct (total_in t <? total_out t); [discriminate|].
  destruct (has_bound (s0 :: rest) || has_bound (t_to t)); [discriminate|].
  destruct (t_to t); [discriminate|].
  destruct (forallb slip_validate (s0 :: rest)); [|discriminate].
  repeat split; congruence.
Qed.

Lemma valid_user_spendok t :
  user_type t -> tx_validate t = Valid -> SpendOK t.
Proof.
  intros Hu H. destruct (valid_user_inv t Hu H) as (Hnd & Hne & Hsig & Hown & Htot & Hsp).
  constructor.
  - exact Hsig.
  - exact Hne.
  - intros s Hin Hv. pose proof (forallb_In _ _ _ Hsp Hin) as Hs. cbn beta in Hs.
    unfold slip_validate in Hs. unfold value_input in Hv.
    apply andb_true_iff in Hv as [Hv _]. now rewrite Hv in Hs.
  - intros s Hin Hv. unfold all_owned in Hown.
    pose proof (forallb_In _ _ _ Hown Hin) as Hs. cbn beta in Hs. rewrite Hv in Hs.
    cbn [negb orb] in Hs. now apply N.eqb_eq in Hs.
  - now apply nodupb_NoDup.
  - intros Hlt. apply no_inflation; assumption.
Qed.

Lemma pool_gate_types t : pool_gate t = true ->
  t_type t <> TFee /\ t_type t <> TATR /\ t_type t <> TSPV /\ tx_validate t = Valid.
Proof.
  unfold pool_gate. intros H. apply andb_true_iff in H as [Ht Hv].
  apply negb_true_iff in Ht. apply orb_false_iff in Ht as [Ht Hspv].
  apply orb_false_iff in Ht as [Hfee Hatr].
  apply N.eqb_neq in Hfee, Hatr, Hspv. repeat split; auto.
  destruct (tx_validate t); congruence.
Qed.

(* the sweep *)
Lemma sweep_all_valid seen txs t :
  sweep seen txs = true -> In t txs -> tx_validate t = Valid.
Proof.
  revert seen. induction txs as [|x rest IH]; intros seen H Hin; [contradiction|].
  cbn [sweep] in H. destruct (tx_validate x) eqn:Hx; try discriminate.
  destruct Hin as [<-|Hin]; [exact Hx|].
  destruct (t_type x =? TFee); [eauto|].
  destruct (existsb _ (value_keys x)); [discriminate|eauto].
Qed.

Definition nonfee (t : atx) : bool := negb (t_type t =? TFee).
Definition block_keys (txs : list atx) : list N := flat_map value_keys (filter nonfee txs).

Lemma existsb_false_notin k seen : existsb (N.eqb k) seen = false -> ~ In k seen.
Proof.
  intros H Hin. assert (existsb (N.eqb k) seen = true); [|congruence].
  apply existsb_exists. exists k. split; [exact Hin|apply N.eqb_refl].
Qed.

Lemma sweep_nodup seen txs :
  NoDup seen -> sweep seen txs = true ->
  NoDup (block_keys txs ++ seen) /\ True.
Proof.
  revert seen. induction txs as [|x rest IH]; intros seen Hnd H.
  - split; [exact Hnd|exact I].
  - cbn [sweep] in H. destruct (tx_validate x) eqn:Hx; try discriminate.
    unfold block_keys. cbn [filter]. unfold nonfee at 1.
    destruct (t_type x =? TFee) eqn:Hfee; cbn [negb].
    + apply IH; assumption.
    + destruct (existsb (fun k => existsb (N.eqb k) seen) (value_keys x)) eqn:Hex; [discriminate|].
      assert (Hxn : NoDup (value_keys x)).
      { unfold tx_validate in Hx.
        destruct (255 <? Nlen (t_from x)); [discriminate|].
        destruct (255 <? Nlen (t_to x)); [discriminate|].
        destruct (nodupb (value_keys x)) eqn:En; [now apply nodupb_NoDup|discriminate]. }
      assert (Hdisj : forall k, In k (value_keys x) -> ~ In k seen).
      { intros k Hk. apply existsb_false_notin.
        destruct (existsb (N.eqb k) seen) eqn:Hks; [|reflexivity].
        assert (existsb (fun k => existsb (N.eqb k) seen) (value_keys x) = true); [|congruence].
        apply existsb_exists. exists k. split; assumption. }
      assert (Hnd' : NoDup (value_keys x ++ seen)).
      { clear -Hxn Hnd Hdisj. induction (value_keys x) as [|k l IHl]; [exact Hnd|].
        inversion Hxn; subst. cbn. constructor.
        - intros Hin. apply in_app_or in Hin as [Hin|Hin]; [contradiction|].
          apply (Hdisj k); [now left|exact Hin].
        - apply IHl; [assumption|]. intros k' Hk'. apply Hdisj. now right. }
      destruct (IH (value_keys x ++ seen) Hnd' H) as [Hres _]. split; [|exact I].
      cbn [flat_map]. fold (block_keys rest).
      (* reorder: (keys x ++ block_keys rest) ++ seen  vs  block_keys rest ++ (keys x ++ seen) *)
      eapply Permutation_NoDup; [|exact Hres].
      rewrite <- !app_assoc.
      rewrite Permutation_app_swap_app. reflexivity.
Qed.

Lemma sweep_no_double_spend txs : sweep [] txs = true -> NoDup (block_keys txs).
Proof.
  intros H. destruct (sweep_nodup [] txs (NoDup_nil _) H) as [Hn _].
  now rewrite app_nil_r in Hn.
Qed.
