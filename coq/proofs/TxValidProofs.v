(* Facts about model/TxValid.v used by props/C01.v *)
From Saito Require Import Base TxValid.
From Coq Require Import Permutation.

(* transactions that originate from users: everything the block producer does not
   generate itself.  BlockStake and Bound (NFT) transactions are user transactions. *)
Definition user_type (t : atx) : Prop :=
  t_type t <> TFee /\ t_type t <> TSPV /\ t_type t <> TATR /\ t_type t <> TIssuance.

(* unbounded sums *)
Definition nsum (l : list N) : N := fold_left N.add l 0.

(* what the property demands of one accepted user transaction *)
(* inside the retention window: the output can still be spent in the next block
   (the outputs of block b are rebroadcast or collected by block b + genesis_period + 1) *)
Definition in_window (e : env) (s : aslip) : Prop := e_next e <= sl_bid s + e_gp e.

Record SpendOK (e : env) (t : atx) : Prop := {
  so_signed : t_sig_ok t = true;
  so_nonempty : t_from t <> [];
  (* every input with an amount -- Bound slips included -- is in the ledger *)
  so_spendable : forall s, In s (t_from t) -> has_amount s = true -> sl_spendable s = true;
  so_owned : forall s, In s (t_from t) -> value_input s = true -> sl_pk s = signer t;
  so_window : forall s, In s (t_from t) -> value_input s = true -> in_window e s;
  (* ... and named once (Bound slips included) *)
  so_nodup : NoDup (dup_keys t);
  so_no_inflation : nsum (map counted (t_from t)) < U64MAX ->
                    nsum (map counted (t_to t)) <= nsum (map counted (t_from t))
}.

Lemma nodupb_NoDup l : nodupb l = true -> NoDup l.
Proof.
  induction l as [|x t IH]; cbn [nodupb]; intros H; [constructor|].
  apply andb_true_iff in H as [Hx Ht]. constructor; [|auto].
  intros Hin. apply negb_true_iff in Hx.
  assert (existsb (N.eqb x) t = true); [|congruence].
  apply existsb_exists. exists x. split; [exact Hin|apply N.eqb_refl].
Qed.

(* saturating sums *)
Lemma sat_sum_spec_gen l a : a <= U64MAX ->
  fold_left sat_add l a = N.min (fold_left N.add l a) U64MAX.
Proof.
  revert a. induction l as [|x t IH]; intros a Ha; cbn [fold_left].
  - lia.
  - rewrite IH by (unfold sat_add; lia). unfold sat_add.
    destruct (N.le_gt_cases (a + x) U64MAX) as [Hle|Hgt].
    + rewrite (N.min_l (a + x)) by lia. reflexivity.
    + rewrite (N.min_r (a + x)) by lia.
      assert (Hmono : forall l b c, b <= c -> fold_left N.add l b <= fold_left N.add l c).
      { clear. induction l as [|y l IH]; intros b c Hbc; cbn [fold_left]; [lia|]. apply IH. lia. }
      pose proof (Hmono t U64MAX (a + x) ltac:(lia)).
      assert (Hge : forall l b, b <= fold_left N.add l b).
      { clear. induction l as [|y l IH]; intros b; cbn [fold_left]; [lia|].
        specialize (IH (b + y)). lia. }
      pose proof (Hge t U64MAX). lia.
Qed.

Lemma sat_sum_spec l : sat_sum l = N.min (nsum l) U64MAX.
Proof. unfold sat_sum, nsum. apply sat_sum_spec_gen. unfold U64MAX, two64. lia. Qed.

Lemma no_inflation t :
  total_in t <? total_out t = false ->
  nsum (map counted (t_from t)) < U64MAX ->
  nsum (map counted (t_to t)) <= nsum (map counted (t_from t)).
Proof. unfold total_in, total_out. rewrite !sat_sum_spec. lia. Qed.

Lemma forallb_In {A} (f : A -> bool) l x : forallb f l = true -> In x l -> f x = true.
Proof. intros H Hin. rewrite forallb_forall in H. auto. Qed.

(* ---------- inversion of the validation function ---------- *)

Lemma tail_inv t : tail_checks t = Valid ->
  t_to t <> [] /\ forallb slip_validate (t_from t) = true.
Proof.
  unfold tail_checks. destruct (t_to t); [discriminate|].
  destruct (forallb slip_validate (t_from t)); [|discriminate]. intros _. split; congruence.
Qed.

Lemma bound_send_idx_inv ovf t : bound_send_idx ovf t = Valid ->
  succ_u8 ovf (sl_idx (fr t 0)) (sl_idx (fr t 1)) = Valid /\
  succ_u8 ovf (sl_idx (fr t 1)) (sl_idx (fr t 2)) = Valid.
Proof.
  unfold bound_send_idx.
  destruct (succ_u8 ovf (sl_idx (fr t 0)) (sl_idx (fr t 1))); try discriminate. auto.
Qed.

Lemma bound_checks_inv e t : bound_checks e t = Valid ->
  tail_checks t = Valid /\
  ((is_new_nft t = true /\ bound_create_ok t = true) \/
   (is_new_nft t = false /\ bound_send_shape t = true /\ bound_send_idx (e_ovf e) t = Valid)).
Proof.
  unfold bound_checks. destruct (is_new_nft t).
  - destruct (bound_create_ok t); [|discriminate]. intros H. split; [exact H|]. left; auto.
  - destruct (bound_send_shape t); [|discriminate].
    destruct (bound_send_idx (e_ovf e) t) eqn:Hi; try discriminate.
    intros H. split; [exact H|]. right; auto.
Qed.

(* the checks every user transaction passes *)
Lemma common_inv e t :
  user_type t -> common_checks e t = Valid ->
  t_from t <> [] /\ t_sig_ok t = true /\ (total_in t <? total_out t) = false
  /\ age_check (e_gp e) (e_next e) (t_from t) = true
  /\ all_owned t = true
  /\ (t_type t <> TBound -> tail_checks t = Valid
                            /\ has_bound (t_from t) = false /\ has_bound (t_to t) = false)
  /\ (t_type t = TBound -> bound_checks e t = Valid).
Proof.
  intros (Hfee & Hspv & Hatr & Hiss) H. unfold common_checks in H.
  apply N.eqb_neq in Hatr, Hiss. rewrite Hatr, Hiss in H. cbn [negb andb] in H.
  destruct (t_from t) as [|s0 rest] eqn:Hfrom; [discriminate|].
  destruct (t_has_hash t); cbn [negb] in H; [|discriminate].
  destruct (t_sig_ok t); cbn [negb] in H; [|discriminate].
  destruct (all_owned t) eqn:Hown; cbn [negb] in H; [|discriminate].
  destruct (age_check (e_gp e) (e_next e) (s0 :: rest)) eqn:Hage; cbn [negb] in H; [|discriminate].
  unfold common_tail in H. rewrite Hatr, Hiss in H. cbn [negb andb] in H.
  destruct (t_path_ok t); cbn [negb] in H; [|discriminate].
  destruct (total_in t <? total_out t); [discriminate|].
  destruct (t_type t =? TBound) eqn:Hb.
  - apply N.eqb_eq in Hb. split; [congruence|]. do 4 (split; [reflexivity|]).
    split; [intros Hn; congruence|intros _; exact H].
  - rewrite Hfrom in H.
    destruct (has_bound (s0 :: rest)) eqn:Hb1; [discriminate|].
    destruct (has_bound (t_to t)) eqn:Hb2; [discriminate|]. cbn [orb] in H.
    apply N.eqb_neq in Hb. split; [congruence|]. do 4 (split; [reflexivity|]).
    split; [intros _; repeat split; auto|intros Hn; congruence].
Qed.

Lemma age_check_window gp next l : age_check gp next l = true ->
  forall s, In s l -> value_input s = true -> next <= sl_bid s + gp.
Proof.
  intros H s Hin Hv. unfold age_check in H.
  pose proof (forallb_In _ _ _ H Hin) as Hs. cbn beta in Hs. rewrite Hv in Hs. cbn [andb] in Hs.
  apply negb_true_iff in Hs. apply N.ltb_ge in Hs. unfold sat_add in Hs. lia.
Qed.

Lemma valid_inv e t :
  user_type t -> tx_validate e t = Valid ->
  nodupb (dup_keys t) = true /\ common_checks e t = Valid
  /\ (t_type t = TStake ->
      exists total, stake_outs (e_ovf e) 0 (t_to t) = SOk total
                    /\ e_stake_req e <= total /\ stake_ins t = true).
Proof.
  intros (Hfee & Hspv & Hatr & Hiss) H. unfold tx_validate in H.
  apply N.eqb_neq in Hfee, Hspv. rewrite Hfee, Hspv in H.
  destruct (255 <? Nlen (t_from t)); [discriminate|].
  destruct (255 <? Nlen (t_to t)); [discriminate|].
  destruct (nodupb (dup_keys t)); cbn [negb] in H; [|discriminate].
  destruct (t_type t =? TStake) eqn:Hs.
  - destruct (stake_outs (e_ovf e) 0 (t_to t)) as [total| |] eqn:Ho; try discriminate.
    destruct (total <? e_stake_req e) eqn:Hr; [discriminate|].
    destruct (stake_ins t) eqn:Hi; cbn [negb] in H; [|discriminate].
    repeat split; auto. intros _. exists total. repeat split; auto. lia.
  - repeat split; auto. intros Hn. apply N.eqb_neq in Hs. congruence.
Qed.

Lemma spendable_of_tail t : tail_checks t = Valid ->
  forall s, In s (t_from t) -> has_amount s = true -> sl_spendable s = true.
Proof.
  intros Ht s Hin Hv. destruct (tail_inv t Ht) as [_ Hsp].
  pose proof (forallb_In _ _ _ Hsp Hin) as Hs. cbn beta in Hs.
  unfold slip_validate in Hs. unfold has_amount in Hv. now rewrite Hv in Hs.
Qed.

Lemma owned_of_all_owned t : all_owned t = true ->
  forall s, In s (t_from t) -> value_input s = true -> sl_pk s = signer t.
Proof.
  intros Hown s Hin Hv. unfold all_owned in Hown.
  pose proof (forallb_In _ _ _ Hown Hin) as Hs. cbn beta in Hs. rewrite Hv in Hs.
  cbn [negb orb] in Hs. now apply N.eqb_eq in Hs.
Qed.

(* every accepted user transaction, Bound (NFT) ones included *)
Lemma valid_user_spendok e t :
  user_type t -> tx_validate e t = Valid -> SpendOK e t.
Proof.
  intros Hu H. destruct (valid_inv e t Hu H) as (Hnd & Hc & _).
  destruct (common_inv e t Hu Hc) as (Hne & Hsig & Htot & Hage & Hown & Hnb & Hb).
  assert (Htail : tail_checks t = Valid).
  { destruct (N.eq_dec (t_type t) TBound) as [Hty|Hty].
    - now destruct (bound_checks_inv e t (Hb Hty)).
    - now destruct (Hnb Hty) as (Ht & _). }
  constructor; auto.
  - now apply spendable_of_tail.
  - now apply owned_of_all_owned.
  - intros s Hin Hv. exact (age_check_window _ _ _ Hage s Hin Hv).
  - now apply nodupb_NoDup.
  - intros Hlt. now apply no_inflation.
Qed.

(* ---------- BlockStake ---------- *)

Definition stake_amounts (l : list aslip) : list N :=
  map sl_amount (filter (is_type SStake) l).

Record StakeOK (e : env) (t : atx) : Prop := {
  sk_out_types : forall s, In s (t_to t) -> sl_type s = SStake \/ sl_type s = SNormal;
  sk_requirement : e_stake_req e <= nsum (stake_amounts (t_to t));
  sk_unlocked : forall s, In s (t_from t) ->
                  sl_unlocked s = true /\ sl_key s <> 0 /\ sl_key_amount s = sl_amount s;
  sk_distinct : NoDup (map sl_key (t_from t))
}.

Lemma fold_add_acc l a : fold_left N.add l a = a + fold_left N.add l 0.
Proof.
  revert a. induction l as [|x l IH]; intros a; cbn [fold_left]; [lia|].
  rewrite (IH (a + x)), (IH (0 + x)). lia.
Qed.

Lemma stake_outs_spec ovf l : forall acc total,
  stake_outs ovf acc l = SOk total ->
  (forall s, In s l -> sl_type s = SStake \/ sl_type s = SNormal)
  /\ total <= acc + nsum (stake_amounts l).
Proof.
  induction l as [|s rest IH]; intros acc total H; cbn [stake_outs] in H.
  - inversion H; subst. split; [intros ? []|]. unfold stake_amounts, nsum. cbn. lia.
  - unfold is_type in H.
    destruct (sl_type s =? SStake) eqn:Hs; cbn [negb andb] in H.
    + assert (Hsum : nsum (stake_amounts (s :: rest)) = sl_amount s + nsum (stake_amounts rest)).
      { unfold stake_amounts, nsum. cbn [filter]. unfold is_type. rewrite Hs.
        cbn [map fold_left]. rewrite fold_add_acc. lia. }
      destruct (two64 <=? acc + sl_amount s) eqn:Ho.
      * destruct ovf; [discriminate|].
        destruct (IH _ _ H) as [Hty Hle]. split.
        -- intros x [<-|Hx]; [left; now apply N.eqb_eq|auto].
        -- rewrite Hsum. pose proof (N.mod_le (acc + sl_amount s) two64 ltac:(unfold two64; lia)). lia.
      * destruct (IH _ _ H) as [Hty Hle]. split.
        -- intros x [<-|Hx]; [left; now apply N.eqb_eq|auto].
        -- rewrite Hsum. lia.
    + destruct (sl_type s =? SNormal) eqn:Hn; cbn [negb] in H; [|discriminate].
      destruct (IH _ _ H) as [Hty Hle]. split.
      * intros x [<-|Hx]; [right; now apply N.eqb_eq|auto].
      * unfold stake_amounts in *. cbn [filter]. unfold is_type at 1. rewrite Hs. exact Hle.
Qed.

Lemma valid_stake e t :
  t_type t = TStake -> tx_validate e t = Valid -> SpendOK e t /\ StakeOK e t.
Proof.
  intros Hty H.
  assert (Hu : user_type t) by (unfold user_type; rewrite Hty; repeat split; discriminate).
  split.
  - now apply (valid_user_spendok e).
  - destruct (valid_inv e t Hu H) as (_ & _ & Hs).
    destruct (Hs Hty) as (total & Ho & Hreq & Hin).
    destruct (stake_outs_spec _ _ _ _ Ho) as [Htypes Hle].
    unfold stake_ins in Hin. apply andb_true_iff in Hin as [Hall Hnd].
    constructor.
    + exact Htypes.
    + lia.
    + intros s Hs'. pose proof (forallb_In _ _ _ Hall Hs') as Hok. unfold stake_input_ok in Hok.
      apply andb_true_iff in Hok as [Hok Ha]. apply andb_true_iff in Hok as [Hk Hu'].
      repeat split; auto.
      * apply negb_true_iff in Hk. now apply N.eqb_neq.
      * now apply N.eqb_eq.
    + now apply nodupb_NoDup.
Qed.

(* ---------- Bound (NFT) ---------- *)

Lemma Nlen_1 {A} (l : list A) : Nlen l =? 1 = true -> exists x, l = [x].
Proof.
  unfold Nlen. intros H. apply N.eqb_eq in H.
  destruct l as [|x [|y l]]; cbn in H; try lia. now exists x.
Qed.

(* a new NFT: the single input is a Normal slip of the signer (so the full SpendOK
   holds), the outputs start Bound / Normal / Bound(0), and the NFT id carried by
   the third output names the consumed output *)
Record CreateOK (t : atx) : Prop := {
  co_input : exists s, t_from t = [s] /\ sl_type s = SNormal
             /\ sl_uuid_bid (tt t 2) = sl_bid s /\ sl_uuid_ord (tt t 2) = sl_ord s
             /\ sl_uuid_idx (tt t 2) = sl_idx s;
  co_outputs : sl_type (tt t 0) = SBound /\ sl_type (tt t 1) = SNormal
               /\ sl_type (tt t 2) = SBound /\ sl_amount (tt t 2) = 0
               /\ 3 <= Nlen (t_to t);
  (* no Bound (or other) slips after the three NFT slips: nothing is minted on the side *)
  co_rest : forall s, In s (skipn 3 (t_to t)) -> sl_type s = SNormal
}.

Ltac split_andb H :=
  repeat match type of H with
  | (_ && _) = true => let H2 := fresh H in apply andb_true_iff in H as [H H2]
  end.

Lemma valid_bound_create e t :
  t_type t = TBound -> is_new_nft t = true -> tx_validate e t = Valid ->
  SpendOK e t /\ CreateOK t.
Proof.
  intros Hty Hnew H.
  assert (Hu : user_type t) by (unfold user_type; rewrite Hty; repeat split; discriminate).
  destruct (valid_inv e t Hu H) as (_ & Hc & _).
  destruct (common_inv e t Hu Hc) as (_ & _ & _ & _ & _ & _ & Hb).
  destruct (bound_checks_inv e t (Hb Hty)) as (_ & [[_ Hok]|[Hn _]]); [|congruence].
  unfold is_new_nft in Hnew. apply andb_true_iff in Hnew as [Hnew Hlen].
  apply andb_true_iff in Hnew as [Hone Hnorm].
  destruct (Nlen_1 _ Hone) as [s Hs].
  split.
  - now apply (valid_user_spendok e).
  - unfold bound_create_ok in Hok. split_andb Hok. unfold is_type in *.
    assert (Hfr : fr t 0 = s) by (unfold fr; now rewrite Hs).
    rewrite Hfr in *.
    constructor.
    + exists s. repeat split; auto; now apply N.eqb_eq.
    + repeat split; try now apply N.eqb_eq. now apply N.leb_le.
    + match goal with Hx : forallb (fun s0 => sl_type s0 =? SNormal) (skipn 3 (t_to t)) = true |- _ =>
        intros x Hx'; pose proof (forallb_In _ _ _ Hx Hx') as Hy; now apply N.eqb_eq in Hy end.
Qed.

(* a transfer of an existing NFT *)
Definition next_idx (ovf : bool) (a b : N) : Prop :=
  if ovf then b = a + 1 /\ a <> 255 else b = (a + 1) mod 256 \/ (a <> 255 /\ b = a + 1).

Definition SendOK (e : env) (t : atx) : Prop :=
  exists f0 f1 f2 frest o0 o1 o2 orest,
      t_from t = f0 :: f1 :: f2 :: frest /\ t_to t = o0 :: o1 :: o2 :: orest
      /\ sl_type f0 = SBound /\ sl_type f1 = SNormal /\ sl_type f2 = SBound
      /\ sl_amount f2 = 0
      (* who signs (Transaction::signer_public_key): the holder -- the owner of the Normal slip
         that moves with the NFT -- if that slip carries coins; the key in the first Bound slip
         if the NFT has no deposit *)
      /\ signer t = (if 0 <? sl_amount f1 then sl_pk f1 else sl_pk f0)
      (* the Normal slip moved with the NFT is the one created right after the Bound
         slip, in the same transaction of the same block: it cannot be replaced *)
      /\ sl_bid f1 = sl_bid f0 /\ sl_ord f1 = sl_ord f0 /\ sl_bid f2 = sl_bid f0 /\ sl_ord f2 = sl_ord f0
      /\ succ_u8 (e_ovf e) (sl_idx f0) (sl_idx f1) = Valid
      /\ succ_u8 (e_ovf e) (sl_idx f1) (sl_idx f2) = Valid
      /\ (forall s, In s frest -> sl_type s = SNormal)
      (* the two Bound slips are re-created unchanged *)
      /\ sl_type o0 = SBound /\ sl_type o1 = SNormal /\ sl_type o2 = SBound
      /\ sl_pk o0 = sl_pk f0 /\ sl_amount o0 = sl_amount f0
      /\ sl_pk o2 = sl_pk f2 /\ sl_amount o2 = 0
      /\ (forall s, In s orest -> sl_type s = SNormal).

Lemma Nlen_ge3 {A} (l : list A) : Nlen l <? 3 = false -> exists a b c r, l = a :: b :: c :: r.
Proof.
  unfold Nlen. intros H. apply N.ltb_ge in H.
  destruct l as [|a [|b [|c r]]]; cbn in H; try lia. now exists a, b, c, r.
Qed.

Lemma forallb_type ty l : forallb (is_type ty) l = true -> forall s, In s l -> sl_type s = ty.
Proof. intros H s Hin. pose proof (forallb_In _ _ _ H Hin) as Hs. now apply N.eqb_eq in Hs. Qed.

Lemma valid_bound_send e t :
  t_type t = TBound -> is_new_nft t = false -> tx_validate e t = Valid ->
  SpendOK e t /\ SendOK e t.
Proof.
  intros Hty Hnew H.
  assert (Hu : user_type t) by (unfold user_type; rewrite Hty; repeat split; discriminate).
  split; [now apply (valid_user_spendok e)|].
  destruct (valid_inv e t Hu H) as (_ & Hc & _).
  destruct (common_inv e t Hu Hc) as (_ & _ & _ & _ & _ & _ & Hb).
  destruct (bound_checks_inv e t (Hb Hty)) as (_ & [[Hn _]|(_ & Hsh & Hidx)]); [congruence|].
  unfold bound_send_shape in Hsh. split_andb Hsh.
  repeat match goal with Hx : negb _ = true |- _ => apply negb_true_iff in Hx end.
  match goal with Hx : (Nlen (t_from t) <? 3) = false |- _ =>
    destruct (Nlen_ge3 _ Hx) as (f0 & f1 & f2 & fr' & Hf) end.
  match goal with Hx : (Nlen (t_to t) <? 3) = false |- _ =>
    destruct (Nlen_ge3 _ Hx) as (o0 & o1 & o2 & or' & Ho) end.
  destruct (bound_send_idx_inv _ _ Hidx) as [Hi1 Hi2].
  unfold fr, tt, is_type in *. rewrite Hf, Ho in *. cbn [nth skipn] in *.
  repeat match goal with Hx : (_ =? _) = true |- _ => apply N.eqb_eq in Hx end.
  exists f0, f1, f2, fr', o0, o1, o2, or'.
  assert (Hsg : signer t = (if 0 <? sl_amount f1 then sl_pk f1 else sl_pk f0)).
  { unfold signer. rewrite Hf, Hty.
    match goal with Hx : sl_type f0 = SBound |- _ => rewrite Hx end.
    cbn [N.eqb Pos.eqb andb]. rewrite !N.eqb_refl. cbn [andb]. reflexivity. }
  repeat match goal with |- _ /\ _ => split end; auto; try congruence;
    now apply forallb_type.
Qed.

(* ---------- pool and block ---------- *)

Lemma pool_gate_types e t : pool_gate e t = true ->
  t_type t <> TFee /\ t_type t <> TATR /\ t_type t <> TSPV
  /\ (t_type t = TIssuance -> e_no_chain e = true)
  /\ (t_type t = TStake -> forall s, In s (t_from t) -> sl_pk s = e_node e)
  /\ tx_validate e t = Valid.
Proof.
  unfold pool_gate. intros H. apply andb_true_iff in H as [Ht Hv].
  apply andb_true_iff in Ht as [Ht Hst]. apply andb_true_iff in Ht as [Ht Hiss].
  apply negb_true_iff in Ht. apply orb_false_iff in Ht as [Ht Hspv].
  apply orb_false_iff in Ht as [Hfee Hatr].
  apply N.eqb_neq in Hfee, Hatr, Hspv.
  apply negb_true_iff in Hiss, Hst.
  split; [exact Hfee|]. split; [exact Hatr|]. split; [exact Hspv|]. split; [|split].
  - intros Hty. rewrite Hty in Hiss. cbn in Hiss. destruct (e_no_chain e); [reflexivity|discriminate].
  - intros Hty s Hin. rewrite Hty in Hst. cbn in Hst. apply negb_false_iff in Hst.
    pose proof (forallb_In _ _ _ Hst Hin) as Hs. now apply N.eqb_eq in Hs.
  - destruct (tx_validate e t); congruence.
Qed.

Lemma sweep_all_valid e seen txs t :
  sweep e seen txs = true -> In t txs -> tx_validate e t = Valid.
Proof.
  revert seen. induction txs as [|x rest IH]; intros seen H Hin; [contradiction|].
  cbn [sweep] in H. destruct (tx_validate e x) eqn:Hx; try discriminate.
  destruct Hin as [<-|Hin]; [exact Hx|].
  destruct (t_type x =? TFee); [eauto|].
  destruct (existsb _ (dup_keys x)); [discriminate|eauto].
Qed.

Definition nonfee (t : atx) : bool := negb (t_type t =? TFee).
Definition block_keys (txs : list atx) : list N := flat_map dup_keys (filter nonfee txs).

Lemma existsb_false_notin k seen : existsb (N.eqb k) seen = false -> ~ In k seen.
Proof.
  intros H Hin. assert (existsb (N.eqb k) seen = true); [|congruence].
  apply existsb_exists. exists k. split; [exact Hin|apply N.eqb_refl].
Qed.

Lemma sweep_nodup e seen txs :
  NoDup seen -> sweep e seen txs = true -> NoDup (block_keys txs ++ seen).
Proof.
  revert seen. induction txs as [|x rest IH]; intros seen Hnd H.
  - exact Hnd.
  - cbn [sweep] in H. destruct (tx_validate e x) eqn:Hx; try discriminate.
    unfold block_keys. cbn [filter]. unfold nonfee at 1.
    destruct (t_type x =? TFee) eqn:Hfee; cbn [negb].
    + apply IH; assumption.
    + destruct (existsb (fun k => existsb (N.eqb k) seen) (dup_keys x)) eqn:Hex; [discriminate|].
      assert (Hxn : NoDup (dup_keys x)).
      { unfold tx_validate in Hx.
        destruct (255 <? Nlen (t_from x)); [discriminate|].
        destruct (255 <? Nlen (t_to x)); [discriminate|].
        destruct (nodupb (dup_keys x)) eqn:En; [now apply nodupb_NoDup|discriminate]. }
      assert (Hdisj : forall k, In k (dup_keys x) -> ~ In k seen).
      { intros k Hk. apply existsb_false_notin.
        destruct (existsb (N.eqb k) seen) eqn:Hks; [|reflexivity].
        assert (existsb (fun k => existsb (N.eqb k) seen) (dup_keys x) = true); [|congruence].
        apply existsb_exists. exists k. split; assumption. }
      assert (Hnd' : NoDup (dup_keys x ++ seen)).
      { clear -Hxn Hnd Hdisj. induction (dup_keys x) as [|k l IHl]; [exact Hnd|].
        inversion Hxn; subst. cbn. constructor.
        - intros Hin. apply in_app_or in Hin as [Hin|Hin]; [contradiction|].
          apply (Hdisj k); [now left|exact Hin].
        - apply IHl; [assumption|]. intros k' Hk'. apply Hdisj. now right. }
      pose proof (IH (dup_keys x ++ seen) Hnd' H) as Hres.
      cbn [flat_map]. fold (block_keys rest).
      eapply Permutation_NoDup; [|exact Hres].
      rewrite <- !app_assoc.
      rewrite Permutation_app_swap_app. reflexivity.
Qed.

Lemma sweep_no_double_spend e txs : sweep e [] txs = true -> NoDup (block_keys txs).
Proof.
  intros H. pose proof (sweep_nodup e [] txs (NoDup_nil _) H) as Hn.
  now rewrite app_nil_r in Hn.
Qed.

(* staking worlds: the one staking transaction of an accepted block *)
Lemma block_stake_tx e id txs :
  block_txs_ok e id txs = true -> e_stake_req e <> 0 -> 1 < id ->
  (e_ovf e = true \/ stake_count txs < 256) ->
  stake_count txs = 1 /\
  forall t, In t txs -> t_type t = TStake -> SpendOK e t /\ StakeOK e t.
Proof.
  intros H Hreq Hid Hovf. unfold block_txs_ok in H. apply andb_true_iff in H as [Hc Hs].
  split.
  - unfold stake_count_ok in Hc.
    apply N.eqb_neq in Hreq. rewrite Hreq in Hc.
    assert (Hid' : (id <=? 1) = false) by (apply N.leb_gt; exact Hid).
    rewrite Hid' in Hc. cbn [orb] in Hc.
    destruct (256 <=? stake_count txs) eqn:Hbig.
    + apply N.leb_le in Hbig. destruct Hovf as [Ho|Hlt]; [rewrite Ho in Hc; discriminate|lia].
    + now apply N.eqb_eq in Hc.
  - intros t Hin Hty. apply valid_stake; [exact Hty|]. exact (sweep_all_valid e [] txs t Hs Hin).
Qed.

(* ---------- what the signature does not bind ---------- *)

(* everything validation reads of the slips of a transaction that is neither
   BlockStake nor Bound is (i) what the signature covers of each slip and (ii) for
   the inputs: whether they are spendable and pairwise distinct.  So the verdict
   carries over to any transaction with the same signed content whose (different)
   inputs are spendable and distinct: the signature does not say WHICH outputs
   are spent. *)
Definition value_v (v : N * N * N * N) : bool :=
  let '(_, a, _, ty) := v in (0 <? a) && negb (ty =? SBound).
Definition counted_v (v : N * N * N * N) : N := let '(_, a, _, ty) := v in if ty =? SBound then 0 else a.
Definition pk_v (v : N * N * N * N) : N := let '(p, _, _, _) := v in p.
Definition ty_v (v : N * N * N * N) : N := let '(_, _, _, ty) := v in ty.
Definition am_v (v : N * N * N * N) : N := let '(_, a, _, _) := v in a.

Lemma counted_view l : map counted l = map counted_v (map signed_view l).
Proof. rewrite map_map. apply map_ext. intros s. reflexivity. Qed.

Lemma has_bound_view l : has_bound l = existsb (fun v => ty_v v =? SBound) (map signed_view l).
Proof. unfold has_bound. induction l as [|s l IH]; cbn; [reflexivity|]. now rewrite IH. Qed.

Lemma len_view l : Nlen l = Nlen (map signed_view l).
Proof. unfold Nlen. now rewrite map_length. Qed.

Lemma owned_view k l :
  forallb (fun s => negb (value_input s) || (sl_pk s =? k)) l
  = forallb (fun v => negb (value_v v) || (pk_v v =? k)) (map signed_view l).
Proof. induction l as [|s l IH]; cbn [forallb map]; [reflexivity|]. now rewrite IH. Qed.

Lemma signer_view t : t_type t <> TBound ->
  signer t = match map signed_view (t_from t) with v0 :: _ => pk_v v0 | [] => 0 end.
Proof.
  intros Hb. apply N.eqb_neq in Hb. unfold signer. rewrite Hb. cbn [andb].
  destruct (t_from t) as [|a [|b [|c l]]]; reflexivity.
Qed.

Lemma all_owned_view t : t_type t <> TBound -> all_owned t =
  forallb (fun v => negb (value_v v) || (pk_v v =? match map signed_view (t_from t) with v0 :: _ => pk_v v0 | [] => 0 end))
          (map signed_view (t_from t)).
Proof. intros Hb. unfold all_owned. rewrite owned_view, signer_view by exact Hb. reflexivity. Qed.

Lemma out_amounts_view l :
  existsb (fun s => 0 <? sl_amount s) l = existsb (fun v => 0 <? am_v v) (map signed_view l).
Proof. induction l as [|s l IH]; cbn; [reflexivity|]. now rewrite IH. Qed.

Lemma signature_does_not_bind_inputs e t t' :
  t_type t <> TStake -> t_type t <> TBound ->
  signed_content t' = signed_content t ->
  t_sig_ok t' = t_sig_ok t -> t_has_hash t' = t_has_hash t -> t_path_ok t' = t_path_ok t ->
  nodupb (dup_keys t') = true ->
  forallb slip_validate (t_from t') = true ->
  age_check (e_gp e) (e_next e) (t_from t') = true ->
  tx_validate e t = Valid -> tx_validate e t' = Valid.
Proof.
  intros Hns Hnb Hsc Hsig Hhash Hpath Hnd Hsp Hage H.
  unfold signed_content in Hsc. injection Hsc as Hty Hfrom Hto.
  assert (Hnb1 : t_type t <> TBound) by exact Hnb.
  assert (Hnb2 : t_type t' <> TBound) by (rewrite Hty; exact Hnb).
  assert (Hao : all_owned t' = all_owned t)
    by (rewrite (all_owned_view t' Hnb2), (all_owned_view t Hnb1), Hfrom; reflexivity).
  apply N.eqb_neq in Hns, Hnb.
  assert (Hti : total_in t' = total_in t) by (unfold total_in; now rewrite !counted_view, Hfrom).
  assert (Hto' : total_out t' = total_out t) by (unfold total_out; now rewrite !counted_view, Hto).
  assert (Htf : total_fees t' = total_fees t) by (unfold total_fees; now rewrite Hti, Hto').
  assert (Hemp : match t_from t' with [] => true | _ => false end
                 = match t_from t with [] => true | _ => false end).
  { destruct (t_from t'), (t_from t); cbn in Hfrom; try discriminate; reflexivity. }
  assert (Hemp2 : forall (A : Type) (a b : A), match t_to t' with [] => a | _ => b end
                 = match t_to t with [] => a | _ => b end).
  { intros. destruct (t_to t'), (t_to t); cbn in Hto; try discriminate; reflexivity. }
  unfold tx_validate in *. rewrite Hty in *. rewrite Hns in *.
  rewrite (len_view (t_from t')), (len_view (t_to t')), Hfrom, Hto, <- !len_view.
  destruct (255 <? Nlen (t_from t)); [discriminate|].
  destruct (255 <? Nlen (t_to t)); [discriminate|].
  rewrite Hnd. cbn [negb].
  destruct (nodupb (dup_keys t)); cbn [negb] in H; [|discriminate].
  destruct (t_type t =? TFee); [reflexivity|].
  destruct (t_type t =? TSPV).
  { rewrite out_amounts_view, Hto, <- out_amounts_view, Htf.
    rewrite (out_amounts_view (t_from t')), Hfrom, <- out_amounts_view. exact H. }
  unfold common_checks in *. rewrite Hty in *.
  rewrite Hemp, Hhash, Hsig, Hao, Hage.
  rewrite andb_false_r.
  repeat match type of H with
  | (if ?c then Invalid else _) = Valid => destruct c; [discriminate|]
  end.
  unfold common_tail in *. rewrite Hty, Hnb in *.
  rewrite Hpath, Hti, Hto'.
  rewrite !has_bound_view, Hfrom, Hto, <- !has_bound_view.
  repeat match type of H with
  | (if ?c then Invalid else _) = Valid => destruct c; [discriminate|]
  end.
  unfold tail_checks in *. rewrite Hemp2. rewrite Hsp.
  destruct (t_to t); [discriminate|reflexivity].
Qed.

(* ---------- where the inputs end IS fixed by the signed bytes (since /repo 4d27589) ---------- *)

Definition idx_v (v : N * N * N * N) : N := let '(_, _, i, _) := v in i.
Fixpoint numv (i : N) (l : list (N * N * N * N)) : Prop :=
  match l with
  | [] => True
  | v :: rest => idx_v v = i /\ numv (i + 1) rest
  end.

Lemma numbered_numv l : forall i, numbered_from i l = true -> numv i (map signed_view l).
Proof.
  induction l as [|s l IH]; intros i H; cbn [numbered_from map numv] in *; [exact I|].
  apply andb_true_iff in H as [H1 H2]. split; [now apply N.eqb_eq in H1|now apply IH].
Qed.

Lemma numv_app l : forall i r, numv i (l ++ r) -> numv (i + Nlen l) r.
Proof.
  induction l as [|v l IH]; intros i r H.
  - unfold Nlen. cbn. now rewrite N.add_0_r.
  - cbn [app numv] in H. destruct H as [_ H]. apply IH in H.
    unfold Nlen in *. cbn [length]. rewrite Nat2N.inj_succ.
    replace (i + N.succ (N.of_nat (length l))) with (i + 1 + N.of_nat (length l)) by lia. exact H.
Qed.

Lemma split_point (l r r' : list (N * N * N * N)) :
  r = l ++ r' -> numv 0 r -> numv 0 r' -> r' <> [] -> l = [].
Proof.
  intros -> Hr Hr' Hne. apply numv_app in Hr. destruct r' as [|v r']; [congruence|].
  cbn [numv] in Hr, Hr'. destruct Hr as [H1 _], Hr' as [H2 _].
  rewrite H1 in H2. unfold Nlen in H2. destruct l; [reflexivity|cbn in H2; lia].
Qed.

(* two transactions as validation sees them (outputs numbered by position, at least one output)
   with the same flat signed sequence have the same inputs and the same outputs: a signed
   transaction cannot be re-split *)
Lemma signed_bytes_delimited t t' :
  outs_numbered t = true -> outs_numbered t' = true -> t_to t <> [] -> t_to t' <> [] ->
  signed_flat t' = signed_flat t -> signed_content t' = signed_content t.
Proof.
  intros Hn Hn' Hne Hne' H. unfold signed_flat in H. injection H as Hty Hl.
  unfold outs_numbered in Hn, Hn'. apply numbered_numv in Hn, Hn'.
  assert (Hne2 : map signed_view (t_to t) <> []) by (destruct (t_to t); [congruence|discriminate]).
  assert (Hne2' : map signed_view (t_to t') <> []) by (destruct (t_to t'); [congruence|discriminate]).
  unfold signed_content. rewrite Hty.
  apply app_eq_app in Hl. destruct Hl as [l [[H1 H2]|[H1 H2]]].
  - assert (l = []) by (eapply split_point; eauto). subst l.
    rewrite app_nil_r in H1. cbn [app] in H2. now rewrite H1, H2.
  - assert (l = []) by (eapply split_point; eauto). subst l.
    rewrite app_nil_r in H1. cbn [app] in H2. now rewrite H1, H2.
Qed.

(* ---------- builders for the concrete witnesses in props/C01.v ---------- *)
(* an unspent Normal output of [pk] at (bid, ord, idx) *)
Definition nslip (pk amount key bid ord idx : N) : aslip :=
  mkSlip pk amount SNormal key true bid ord idx true amount 0 0 0.
(* a Bound slip; [sp]: present in the utxo set *)
Definition bslip (pk amount key : N) (sp : bool) (bid ord idx : N) : aslip :=
  mkSlip pk amount SBound key sp bid ord idx sp amount 0 0 0.
(* an output being created *)
Definition oslip (pk amount ty : N) : aslip := mkSlip pk amount ty 0 false 0 0 0 false amount 0 0 0.
(* ... with its position *)
Definition oslip_at (i pk amount ty : N) : aslip := mkSlip pk amount ty 0 false 0 0 i false amount 0 0 0.
(* the third output of a new NFT: public key field = (block id, tx ordinal, slip index) of the input *)
Definition uslip (pk bid ord idx : N) : aslip := mkSlip pk 0 SBound 0 false 0 0 0 false 0 bid ord idx.
(* no staking requirement, overflow checks on, tip = block 3, genesis period 100, node key 1, chain running *)
Definition env0 : env := mkEnv 0 true 3 100 1 false.

(* ---------- the witnesses of the repaired defects, kept as regression examples ---------- *)
(* [sig] = does the signature verify against Transaction::signer_public_key.  The attacker is key 5
   and can only produce signatures of key 5. *)
(* was bound-foreign-input (fixed c1271fb): the attacker transfers an NFT of his own and adds an
   unspent Normal output of key 6 as fourth input *)
Definition W_foreign : atx :=
  mkTx TBound [bslip 5 1 21 true 2 3 0; nslip 5 300 22 2 3 1; bslip 77 0 0 false 2 3 2; nslip 6 2000 23 1 8 0]
              [oslip 5 1 SBound; oslip 5 300 SNormal; oslip 77 0 SBound; oslip 5 2000 SNormal] true true true.
(* was bound-creator-reclaims (fixed c1271fb): key 5 minted an NFT for key 6 (deposit 400 owned by 6)
   and moves NFT and deposit to itself; the signature that counts is now key 6's *)
Definition W_reclaim (sig : bool) : atx :=
  mkTx TBound [bslip 5 1 21 true 2 3 0; nslip 6 400 22 2 3 1; bslip 77 0 0 false 2 3 2]
              [oslip 5 1 SBound; oslip 5 400 SNormal; oslip 77 0 SBound] sig true true.
(* was bound-fabricated-triple (fixed c1271fb): two zero-amount Bound slips invented around an
   output of key 6 *)
Definition W_fabricated (sig : bool) : atx :=
  mkTx TBound [bslip 5 0 31 false 2 7 0; nslip 6 2850 32 2 7 1; bslip 5 0 33 false 2 7 2]
              [oslip 5 0 SBound; oslip 5 2850 SNormal; oslip 5 0 SBound] sig true true.

Definition refused (t : atx) : Prop :=
  tx_validate env0 t = Invalid /\ pool_gate env0 t = false /\ sweep env0 [] [t] = false.
