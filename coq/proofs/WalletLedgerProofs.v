(* C19, third part: on a chain without reorganisation the wallet's unspent set is
   the ledger's view (spendable, own key, inside the window) minus the outputs the
   wallet committed to transactions it built. *)
From Saito Require Import Base Wallet WalletProofs.

Local Open Scope N_scope.

(* ------------------------------------------------------------------ *)
(** * Well-formed chains *)

(* a transaction as Block::generate leaves it, in block [bid] at index [txi];
   inputs reference outputs of earlier blocks *)
Record tx_wf (bid txi : N) (t : tx) : Prop := {
  wf_to : forall o, In o (t_to t) ->
          s_key o = slip_key o /\ s_bid o = bid /\ s_txo o = txi /\ s_ty o <> TY_BOUND;
  wf_from : forall i, In i (t_from t) ->
            s_key i = slip_key i /\ s_bid i < bid /\ s_ty i <> TY_BOUND }.

Fixpoint txs_wf (bid txi : N) (l : list tx) : Prop :=
  match l with
  | [] => True
  | t :: r => tx_wf bid txi t /\ txs_wf bid (next_index txi t) r
  end.

Definition block_wf (b : block) : Prop := txs_wf (b_id b) 0 (b_txs b).

Fixpoint chain_wf (gp top : N) (ops : list cop) : Prop :=
  match ops with
  | [] => True
  | CBlock b :: r =>
      b_id b = top + 1 /\ block_wf b /\ (gp < b_id b -> b_txs b <> []) /\ chain_wf gp (b_id b) r
  | CCreate _ _ _ _ :: r => chain_wf gp top r
  end.

(* ------------------------------------------------------------------ *)
(* ------------------------------------------------------------------ *)
(** * The coupling invariant between wallet and ledger *)

Record CI (pk : N) (w : wallet) (u C : list key) (L Tu Tc : N) : Prop := {
  ci_pk : w_pk w = pk;
  ci_nodup : NoDup (map fst (w_slips w));
  ci_rec : forall k x, mget k (w_slips w) = Some x -> ws_key x = k /\ fields_key pk x = k;
  ci_slips : forall k, mhas k (w_slips w) = true <-> (In k u /\ k_pk k = pk /\ L <= k_bid k);
  ci_unspent : forall k, In k (w_unspent w) <->
                 (mhas k (w_slips w) = true /\ spendable_ty (k_ty k) = true /\ ~ In k C);
  ci_u_top : forall k, In k u -> k_bid k <= Tu;
  ci_c_top : forall k, In k C -> k_bid k <= Tc }.

Lemma CI_ext : forall pk w u u' C L Tu Tc,
  (forall k, In k u <-> In k u') -> CI pk w u C L Tu Tc -> CI pk w u' C L Tu Tc.
Proof.
  intros pk w u u' C L Tu Tc He [H1 H2 H3 H4 H5 H6 H7]. constructor; auto.
  - intros k. rewrite H4, He. tauto.
  - intros k Hk. apply H6, He, Hk.
Qed.

Lemma CI_weaken : forall pk w u C L Tu Tc Tu' Tc',
  Tu <= Tu' -> Tc <= Tc' -> CI pk w u C L Tu Tc -> CI pk w u C L Tu' Tc'.
Proof.
  intros pk w u C L Tu Tc Tu' Tc' Hu Hc [H1 H2 H3 H4 H5 H6 H7]. constructor; auto.
  - intros k Hk. specialize (H6 k Hk). lia.
  - intros k Hk. specialize (H7 k Hk). lia.
Qed.

Lemma CI_key_pk : forall pk w u C L Tu Tc k,
  CI pk w u C L Tu Tc -> mhas k (w_slips w) = true -> k_pk k = pk.
Proof. intros pk w u C L Tu Tc k H Hk. apply (ci_slips _ _ _ _ _ _ _ H) in Hk. tauto. Qed.

(* the ledger removes a key the wallet does not hold *)
Lemma CI_kremove_absent : forall pk w u C L Tu Tc k,
  CI pk w u C L Tu Tc -> mhas k (w_slips w) = false -> CI pk w (kremove k u) C L Tu Tc.
Proof.
  intros pk w u C L Tu Tc k [H1 H2 H3 H4 H5 H6 H7] Hk. constructor; auto.
  - intros k'. rewrite H4, kremove_In. split; [|tauto].
    intros (Ha & Hb & Hc). repeat split; auto. intros ->.
    assert (mhas k (w_slips w) = true) by (apply H4; auto). congruence.
  - intros k' Hk'. apply kremove_In in Hk' as [Hk' _]. auto.
Qed.

(* the ledger inserts a key that is not the wallet's *)
Lemma CI_kinsert_foreign : forall pk w u C L Tu Tc k,
  CI pk w u C L Tu Tc -> k_pk k <> pk -> k_bid k <= Tu -> CI pk w (kinsert k u) C L Tu Tc.
Proof.
  intros pk w u C L Tu Tc k [H1 H2 H3 H4 H5 H6 H7] Hk Hb. constructor; auto.
  - intros k'. rewrite H4, kinsert_In. split; [tauto|].
    intros ([->|Ha] & Hb' & Hc); [contradiction|auto].
  - intros k' Hk'. apply kinsert_In in Hk' as [->|Hk']; auto.
Qed.

(* ---- delete_key ---- *)
Lemma delete_key_spec : forall dbg w k w',
  delete_key dbg w k = Ok w' ->
  (mget k (w_slips w) = None /\ w' = w) \/
  (exists x, mget k (w_slips w) = Some x /\ w_pk w' = w_pk w /\
             w_slips w' = mremove k (w_slips w) /\
             ((In k (w_unspent w) /\ w_unspent w' = kremove k (w_unspent w)) \/
              (~ In k (w_unspent w) /\ w_unspent w' = w_unspent w))).
Proof.
  intros dbg w k w'. unfold delete_key.
  destruct (mget k (w_slips w)) as [x|] eqn:Hget; [|intros H; inversion H; auto].
  right. exists x. split; [reflexivity|].
  destruct (kmem k (w_unspent w)) eqn:Hm.
  - apply kmem_In in Hm.
    destruct (sub64 dbg SITE_BAL_SUB (w_balance w) (ws_amt x)); cbn [bind] in H; try discriminate.
    inversion H; subst. cbn. auto.
  - apply kmem_false in Hm. inversion H; subst. cbn. auto.
Qed.

Lemma delete_key_CI : forall dbg pk w u C L Tu Tc k w',
  CI pk w u C L Tu Tc -> delete_key dbg w k = Ok w' -> CI pk w' (kremove k u) C L Tu Tc.
Proof.
  intros dbg pk w u C L Tu Tc k w' H Hd.
  apply delete_key_spec in Hd as [[Hn ->]|(x & Hx & Hpk & Hsl & Hun)].
  - apply CI_kremove_absent; auto. apply mhas_false; auto.
  - assert (Hun' : w_unspent w' = kremove k (w_unspent w)).
    { destruct Hun as [[_ Hun]|[Hn Hun]]; [exact Hun|]. rewrite kremove_notin by auto. exact Hun. }
    destruct H as [H1 H2 H3 H4 H5 H6 H7].
    assert (Hget : forall k', mget k' (w_slips w') = if key_eqb k' k then None else mget k' (w_slips w)).
    { intros k'. rewrite Hsl. destruct (key_eqb k' k) eqn:E.
      - apply key_eqb_eq in E; subst. apply mget_mremove_same.
      - apply key_eqb_neq in E. apply mget_mremove_other; auto. }
    assert (Hhas : forall k', mhas k' (w_slips w') = true <-> mhas k' (w_slips w) = true /\ k' <> k).
    { intros k'. unfold mhas. rewrite Hget. destruct (key_eqb k' k) eqn:E.
      - apply key_eqb_eq in E. split; [discriminate|intros [_ Hne]; contradiction].
      - apply key_eqb_neq in E. tauto. }
    constructor.
    + congruence.
    + rewrite Hsl. apply mremove_keys_NoDup; auto.
    + intros k' y Hy. rewrite Hget in Hy. destruct (key_eqb k' k); [discriminate|auto].
    + intros k'. rewrite Hhas, H4, kremove_In. tauto.
    + intros k'. rewrite Hun', kremove_In, Hhas, H5. tauto.
    + intros k' Hk'. apply kremove_In in Hk' as [Hk' _]. auto.
    + auto.
Qed.

Lemma delete_key_absent : forall dbg w k,
  mhas k (w_slips w) = false -> delete_key dbg w k = Ok w.
Proof.
  intros dbg w k H. apply mhas_false in H. unfold delete_key. rewrite H. reflexivity.
Qed.

(* ---- remove_old_slips ---- *)
Lemma delete_keys_CI : forall dbg pk ks w u C L Tu Tc w',
  CI pk w u C L Tu Tc -> delete_keys dbg w ks = Ok w' -> CI pk w' (remove_all ks u) C L Tu Tc.
Proof.
  induction ks as [|k t IH]; intros w u C L Tu Tc w' H Hd; cbn [delete_keys] in Hd.
  - inversion Hd; subst. exact H.
  - destruct (delete_key dbg w k) as [w1| |] eqn:E; cbn [bind] in Hd; try discriminate.
    unfold remove_all. cbn [fold_left]. apply (IH w1); auto.
    eapply delete_key_CI; eauto.
Qed.

Lemma old_keys_In : forall w limit k,
  NoDup (map fst (w_slips w)) ->
  (In k (old_keys w limit) <-> exists x, mget k (w_slips w) = Some x /\ ws_bid x < limit).
Proof.
  intros w limit k ND. unfold old_keys. rewrite in_map_iff. split.
  - intros ([k0 x] & Hk & Hin). cbn [fst] in Hk; subst k0. apply filter_In in Hin as [Hin Hf].
    cbn [snd] in Hf. apply N.ltb_lt in Hf. exists x. split; [apply In_mget_nodup; auto|auto].
  - intros (x & Hx & Hlt). exists (k, x). split; [reflexivity|].
    apply filter_In. split; [apply In_mget_nodup; auto|]. cbn [snd]. apply N.ltb_lt; auto.
Qed.

Lemma remove_old_CI : forall dbg pk w u C L Tu Tc limit w',
  CI pk w u C L Tu Tc -> remove_old_slips dbg w limit = Ok w' ->
  CI pk w' u C (N.max L limit) Tu Tc.
Proof.
  intros dbg pk w u C L Tu Tc limit w' H Hd. unfold remove_old_slips in Hd.
  pose proof (delete_keys_CI _ _ _ _ _ _ _ _ _ _ H Hd) as H'.
  destruct H as [H1 H2 H3 H4 H5 H6 H7]. destruct H' as [G1 G2 G3 G4 G5 G6 G7].
  constructor; auto.
  assert (Hbidk : forall k x, mget k (w_slips w) = Some x -> ws_bid x = k_bid k).
  { intros k x Hx. destruct (H3 k x Hx) as [_ Hf]. rewrite <- Hf. reflexivity. }
  intros k. rewrite G4, remove_all_In, old_keys_In by auto. split.
  - intros ((Ha & Hn) & Hb & Hc). repeat split; auto.
    assert (Hk : mhas k (w_slips w) = true) by (apply H4; auto).
    apply mhas_true in Hk as [x Hx].
    destruct (N.lt_ge_cases (k_bid k) limit) as [Hlt|Hge]; [|lia].
    exfalso. apply Hn. exists x. split; auto. rewrite (Hbidk k x Hx). exact Hlt.
  - intros (Ha & Hb & Hc). repeat split; auto; [|lia].
    intros (x & Hx & Hlt). rewrite (Hbidk k x Hx) in Hlt. lia.
Qed.

(* ---- add_slip for an output of the block being wound ---- *)
Lemma add_output_CI : forall dbg pk w u C L Tu Tc bid txi o w',
  CI pk w u C L Tu Tc ->
  s_key o = slip_key o -> s_bid o = bid -> s_txo o = txi ->
  Tc < bid -> L <= bid -> bid <= Tu ->
  (if (0 <? s_amt o) && (s_pk o =? w_pk w) then add_slip dbg w bid txi o true else Ok w) = Ok w' ->
  CI pk w' (if 0 <? s_amt o then kinsert (s_key o) u else u) C L Tu Tc.
Proof.
  intros dbg pk w u C L Tu Tc bid txi o w' H Hkey Hbid Htxo HTc HL HTu Hs.
  destruct (0 <? s_amt o) eqn:Ea; cbn [andb] in Hs; [|inversion Hs; subst; exact H].
  assert (Hkb : k_bid (s_key o) = bid) by (rewrite Hkey; cbn [slip_key k_bid]; exact Hbid).
  assert (Hkp : k_pk (s_key o) = s_pk o) by (rewrite Hkey; reflexivity).
  pose proof (ci_pk _ _ _ _ _ _ _ H) as Hpk.
  destruct (s_pk o =? w_pk w) eqn:Ep.
  2: { inversion Hs; subst. apply N.eqb_neq in Ep. apply CI_kinsert_foreign; auto; [congruence|lia]. }
  apply N.eqb_eq in Ep.
  unfold add_slip in Hs. rewrite <- Hkey in Hs. set (k := s_key o) in *.
  destruct H as [H1 H2 H3 H4 H5 H6 H7].
  destruct (mhas k (w_slips w)) eqn:Hhas.
  { inversion Hs; subst. constructor; auto.
    - intros k'. rewrite H4, kinsert_In. split; [tauto|].
      intros ([->|Ha] & Hb & Hc); [apply H4; exact Hhas|auto].
    - intros k' Hk'. apply kinsert_In in Hk' as [->|Hk']; [lia|auto]. }
  destruct (bid =? 0); [discriminate|].
  set (x := mkWS k (s_amt o) bid txi true (s_idx o) false (s_ty o)) in *.
  assert (Hfk : fields_key pk x = k).
  { unfold fields_key, x. cbn [ws_bid ws_txo ws_idx ws_amt ws_ty]. rewrite Hkey. unfold slip_key.
    f_equal; congruence. }
  assert (Hnu : ~ In k (w_unspent w)).
  { intros Hin. apply H5 in Hin as [Hin _]. congruence. }
  assert (HnC : ~ In k C).
  { intros Hin. apply H7 in Hin. lia. }
  assert (Hget : forall k', mget k' (mset k x (w_slips w)) = if key_eqb k' k then Some x else mget k' (w_slips w)).
  { intros k'. destruct (key_eqb k' k) eqn:E.
    - apply key_eqb_eq in E; subst. apply mget_mset_same.
    - apply key_eqb_neq in E. apply mget_mset_other; auto. }
  assert (Hhas' : forall k', mhas k' (mset k x (w_slips w)) = true <-> k' = k \/ mhas k' (w_slips w) = true).
  { intros k'. unfold mhas. rewrite Hget. destruct (key_eqb k' k) eqn:E.
    - apply key_eqb_eq in E. tauto.
    - apply key_eqb_neq in E. tauto. }
  assert (Hrec : forall k' y, mget k' (mset k x (w_slips w)) = Some y -> ws_key y = k' /\ fields_key pk y = k').
  { intros k' y. rewrite Hget. destruct (key_eqb k' k) eqn:E.
    - apply key_eqb_eq in E; subst. intros Hy; inversion Hy; subst. split; [reflexivity|exact Hfk].
    - apply H3. }
  assert (Hsl : forall k', (k' = k \/ mhas k' (w_slips w) = true) <->
                           (In k' (kinsert k u) /\ k_pk k' = pk /\ L <= k_bid k')).
  { intros k'. rewrite kinsert_In, H4. split.
    - intros [->|Ha]; [repeat split; auto; [congruence|lia]|tauto].
    - intros ([->|Ha] & Hb & Hc); auto. }
  assert (Htop : forall k', In k' (kinsert k u) -> k_bid k' <= Tu).
  { intros k' Hk'. apply kinsert_In in Hk' as [->|Hk']; [lia|auto]. }
  assert (Hty : k_ty k = s_ty o) by (rewrite Hkey; reflexivity).
  destruct (s_ty o =? TY_BLOCKSTAKE) eqn:Es; [|destruct (s_ty o =? TY_BOUND) eqn:Eb].
  - inversion Hs; subst w'. constructor; cbn [w_pk w_slips w_unspent]; auto.
    + apply mset_keys_NoDup; auto.
    + intros k'. rewrite Hhas'. apply Hsl.
    + intros k'. rewrite Hhas', H5. split; [tauto|].
      intros ([->|Ha] & Hb & Hc); [|tauto]. exfalso.
      unfold spendable_ty in Hb. rewrite Hty, Es in Hb. discriminate.
  - inversion Hs; subst w'. constructor; cbn [w_pk w_slips w_unspent]; auto.
    + apply mset_keys_NoDup; auto.
    + intros k'. rewrite Hhas'. apply Hsl.
    + intros k'. rewrite Hhas', H5. split; [tauto|].
      intros ([->|Ha] & Hb & Hc); [|tauto]. exfalso.
      unfold spendable_ty in Hb. rewrite Hty, Eb, andb_false_r in Hb. discriminate.
  - destruct (add64 dbg SITE_BAL_ADD (w_balance w) (s_amt o)); cbn [bind] in Hs; try discriminate.
    inversion Hs; subst w'. constructor; cbn [w_pk w_slips w_unspent]; auto.
    + apply mset_keys_NoDup; auto.
    + intros k'. rewrite Hhas'. apply Hsl.
    + intros k'. rewrite kinsert_In, Hhas', H5. split.
      * intros [->|Ha]; [|tauto]. repeat split; auto.
        unfold spendable_ty. rewrite Hty, Es, Eb. reflexivity.
      * intros ([->|Ha] & Hb & Hc); [left; reflexivity|right; tauto].
Qed.

(* ---- an input of the block being wound ---- *)
Lemma delete_pending_CI : forall pk w u C L Tu Tc t w',
  CI pk w u C L Tu Tc -> delete_pending w t = Ok w' -> CI pk w' u C L Tu Tc.
Proof.
  intros pk w u C L Tu Tc t w' [H1 H2 H3 H4 H5 H6 H7] Hd. unfold delete_pending in Hd.
  destruct (t_hash t); [|discriminate]. inversion Hd; subst. constructor; auto.
Qed.

Lemma del_input_CI : forall dbg pk w u C L Tu Tc t i w',
  CI pk w u C L Tu Tc -> s_key i = slip_key i ->
  (if s_pk i =? w_pk w then
     do w1 <- (if 0 <? s_amt i then delete_slip dbg w i else Ok w); delete_pending w1 t
   else Ok w) = Ok w' ->
  CI pk w' (if 0 <? s_amt i then kremove (s_key i) u else u) C L Tu Tc.
Proof.
  intros dbg pk w u C L Tu Tc t i w' H Hkey Hs.
  pose proof (ci_pk _ _ _ _ _ _ _ H) as Hpk.
  destruct (s_pk i =? w_pk w) eqn:Ep.
  - destruct (0 <? s_amt i).
    + unfold delete_slip in Hs.
      destruct (delete_key dbg w (s_key i)) as [w1| |] eqn:E; cbn [bind] in Hs; try discriminate.
      eapply delete_pending_CI; [|exact Hs]. eapply delete_key_CI; eauto.
    + cbn [bind] in Hs. eapply delete_pending_CI; eauto.
  - inversion Hs; subst w'. destruct (0 <? s_amt i); [|exact H].
    apply CI_kremove_absent; auto.
    destruct (mhas (s_key i) (w_slips w)) eqn:Hh; [|reflexivity]. exfalso.
    apply (CI_key_pk _ _ _ _ _ _ _ _ H) in Hh. rewrite Hkey in Hh. cbn [slip_key k_pk] in Hh.
    apply N.eqb_neq in Ep. congruence.
Qed.

(* ---- scan is a plain fold when there are no Bound slips ---- *)
Lemma scan_no_bound : forall A (f : A -> slip -> res A) l acc,
  (forall s, In s l -> s_ty s <> TY_BOUND) -> scan f acc l = fold_res f acc l.
Proof.
  induction l as [|a t IH]; intros acc Hnb; [reflexivity|].
  assert (Hstep : (do acc' <- f acc a; scan f acc' t) = fold_res f acc (a :: t)).
  { cbn [fold_res]. destruct (f acc a); cbn [bind]; auto. apply IH. intros; apply Hnb; cbn; auto. }
  cbn [scan]. destruct t as [|b [|c t']]; try exact Hstep.
  assert (Ha : is_bound a = false).
  { unfold is_bound. apply N.eqb_neq. apply Hnb; cbn; auto. }
  rewrite Ha. cbn [andb]. exact Hstep.
Qed.

(* lock-step folds *)
Definition ins_out (u : list key) (o : slip) : list key :=
  if 0 <? s_amt o then kinsert (s_key o) u else u.
Definition rem_in (u : list key) (i : slip) : list key :=
  if 0 <? s_amt i then kremove (s_key i) u else u.

Lemma fold_outputs_CI : forall dbg pk bid txi C L Tu Tc outs w u w',
  Tc < bid -> L <= bid -> bid <= Tu ->
  (forall o, In o outs -> s_key o = slip_key o /\ s_bid o = bid /\ s_txo o = txi) ->
  CI pk w u C L Tu Tc ->
  fold_res (fun w o => if (0 <? s_amt o) && (s_pk o =? w_pk w) then add_slip dbg w bid txi o true else Ok w)
           w outs = Ok w' ->
  CI pk w' (fold_left ins_out outs u) C L Tu Tc.
Proof.
  induction outs as [|o r IH]; intros w u w' HTc HL HTu Hwf H Hf; cbn [fold_res fold_left] in *.
  - inversion Hf; subst. exact H.
  - destruct ((if (0 <? s_amt o) && (s_pk o =? w_pk w) then add_slip dbg w bid txi o true else Ok w)) as [w1| |] eqn:E;
      cbn [bind] in Hf; try discriminate.
    destruct (Hwf o (or_introl eq_refl)) as (K1 & K2 & K3).
    apply (IH w1); auto; [intros; apply Hwf; cbn; auto|].
    unfold ins_out. eapply add_output_CI; eauto.
Qed.

Lemma fold_inputs_CI : forall dbg pk t C L Tu Tc ins w u w',
  (forall i, In i ins -> s_key i = slip_key i) ->
  CI pk w u C L Tu Tc ->
  fold_res (fun w i => if s_pk i =? w_pk w then
                         do w1 <- (if 0 <? s_amt i then delete_slip dbg w i else Ok w); delete_pending w1 t
                       else Ok w) w ins = Ok w' ->
  CI pk w' (fold_left rem_in ins u) C L Tu Tc.
Proof.
  induction ins as [|i r IH]; intros w u w' Hwf H Hf; cbn [fold_res fold_left] in *.
  - inversion Hf; subst. exact H.
  - match type of Hf with (do _ <- ?step; _) = _ => destruct step as [w1| |] eqn:E end;
      cbn [bind] in Hf; try discriminate.
    apply (IH w1); auto; [intros; apply Hwf; cbn; auto|].
    unfold rem_in. eapply del_input_CI; eauto. apply Hwf; cbn; auto.
Qed.

(* membership in the folds *)
Definition made (outs : list slip) (k : key) : Prop := exists o, In o outs /\ 0 < s_amt o /\ s_key o = k.
Definition gone (ins : list slip) (k : key) : Prop := exists i, In i ins /\ 0 < s_amt i /\ s_key i = k.

Lemma fold_ins_In : forall outs u k, In k (fold_left ins_out outs u) <-> In k u \/ made outs k.
Proof.
  induction outs as [|o r IH]; intros u k; cbn [fold_left].
  - split; [auto|intros [H|(o & [] & _)]; auto].
  - rewrite IH. unfold ins_out. destruct (0 <? s_amt o) eqn:E.
    + apply N.ltb_lt in E. rewrite kinsert_In. split.
      * intros [[->|H]|(o' & Ho & Ha & Hk)]; auto.
        -- right. exists o. cbn; auto.
        -- right. exists o'. cbn; auto.
      * intros [H|(o' & [<-|Ho] & Ha & Hk)]; auto. right. exists o'. auto.
    + apply N.ltb_ge in E. split.
      * intros [H|(o' & Ho & Ha & Hk)]; auto. right. exists o'. cbn; auto.
      * intros [H|(o' & [<-|Ho] & Ha & Hk)]; auto; [lia|]. right. exists o'. auto.
Qed.

Lemma fold_rem_In : forall ins u k, In k (fold_left rem_in ins u) <-> In k u /\ ~ gone ins k.
Proof.
  induction ins as [|i r IH]; intros u k; cbn [fold_left].
  - split; [intros H; split; auto; intros (i & [] & _)|tauto].
  - rewrite IH. unfold rem_in. destruct (0 <? s_amt i) eqn:E.
    + apply N.ltb_lt in E. rewrite kremove_In. split.
      * intros [[H1 H2] H3]. split; auto. intros (i' & [<-|Hi] & Ha & Hk); [congruence|].
        apply H3. exists i'. auto.
      * intros [H1 H2]. repeat split; auto.
        -- intros ->. apply H2. exists i. cbn; auto.
        -- intros (i' & Hi & Ha & Hk). apply H2. exists i'. cbn; auto.
    + apply N.ltb_ge in E. split.
      * intros [H1 H2]. split; auto. intros (i' & [<-|Hi] & Ha & Hk); [lia|]. apply H2. exists i'. auto.
      * intros [H1 H2]. split; auto. intros (i' & Hi & Ha & Hk). apply H2. exists i'. cbn; auto.
Qed.

Lemma ledger_wind_tx_In : forall u t k,
  In k (ledger_wind_tx u t) <-> (In k u /\ ~ gone (t_from t) k) \/ made (t_to t) k.
Proof.
  intros. unfold ledger_wind_tx.
  change (fun u0 i => if 0 <? s_amt i then kremove (s_key i) u0 else u0) with rem_in.
  change (fun u0 o => if 0 <? s_amt o then kinsert (s_key o) u0 else u0) with ins_out.
  rewrite fold_ins_In, fold_rem_In. tauto.
Qed.

(* ---- one transaction ---- *)
Definition low_after (gp bid L : N) : N := if gp <? bid then N.max L (bid - gp) else L.

Lemma wind_tx_CI : forall dbg pk gp bid txi t w u C L Tu Tc w',
  Tc < bid -> L <= bid -> bid <= Tu -> tx_wf bid txi t ->
  CI pk w u C L Tu Tc -> wind_tx dbg gp bid w txi t = Ok w' ->
  CI pk w' (ledger_wind_tx u t) C (low_after gp bid L) Tu Tc.
Proof.
  intros dbg pk gp bid txi t w u C L Tu Tc w' HTc HL HTu [Wto Wfrom] H Hw.
  unfold wind_tx in Hw.
  rewrite scan_no_bound in Hw by (intros s Hs; apply (Wto s Hs)).
  match type of Hw with (do _ <- ?step; _) = _ => destruct step as [w1| |] eqn:E1 end;
    cbn [bind] in Hw; try discriminate.
  rewrite scan_no_bound in Hw by (intros s Hs; apply (Wfrom s Hs)).
  match type of Hw with (do _ <- ?step; _) = _ => destruct step as [w2| |] eqn:E2 end;
    cbn [bind] in Hw; try discriminate.
  assert (H1 : CI pk w1 (fold_left ins_out (t_to t) u) C L Tu Tc).
  { eapply fold_outputs_CI; eauto. intros o Ho. destruct (Wto o Ho) as (A & B & C0 & _). auto. }
  assert (H2 : CI pk w2 (fold_left rem_in (t_from t) (fold_left ins_out (t_to t) u)) C L Tu Tc).
  { eapply fold_inputs_CI; eauto. intros i Hi. apply (Wfrom i Hi). }
  assert (H3 : CI pk w2 (ledger_wind_tx u t) C L Tu Tc).
  { eapply CI_ext; [|exact H2]. intros k.
    rewrite fold_rem_In, fold_ins_In, ledger_wind_tx_In. split.
    - intros [[Ha|Ha] Hb]; auto.
    - intros [[Ha Hb]|Ha]; [auto|]. split; [auto|].
      intros (i & Hi & Hia & Hik). destruct Ha as (o & Ho & Hoa & Hok).
      destruct (Wto o Ho) as (A & B & _). destruct (Wfrom i Hi) as (A' & B' & _).
      assert (k_bid k = bid) by (rewrite <- Hok, A; cbn [slip_key k_bid]; exact B).
      assert (k_bid k < bid) by (rewrite <- Hik, A'; cbn [slip_key k_bid]; exact B').
      lia. }
  unfold low_after. destruct (gp <? bid).
  - eapply remove_old_CI; eauto.
  - inversion Hw; subst. exact H3.
Qed.

Lemma low_after_idem : forall gp bid L, low_after gp bid (low_after gp bid L) = low_after gp bid L.
Proof. intros. unfold low_after. destruct (gp <? bid); [lia|reflexivity]. Qed.

Lemma low_after_le : forall gp bid L, L <= bid -> low_after gp bid L <= bid.
Proof. intros. unfold low_after. destruct (gp <? bid); lia. Qed.

(* ---- one block ---- *)
Lemma txs_loop_CI : forall dbg pk gp bid C Tu Tc txs txi w u L w',
  Tc < bid -> L <= bid -> bid <= Tu -> txs_wf bid txi txs ->
  CI pk w u C L Tu Tc -> txs_loop (wind_tx dbg gp bid) w txi txs = Ok w' ->
  CI pk w' (fold_left ledger_wind_tx txs u) C (match txs with [] => L | _ => low_after gp bid L end) Tu Tc.
Proof.
  induction txs as [|t r IH]; intros txi w u L w' HTc HL HTu Hwf H Hl; cbn [txs_loop fold_left] in *.
  - inversion Hl; subst. exact H.
  - destruct Hwf as [Wt Wr].
    destruct (wind_tx dbg gp bid w txi t) as [w1| |] eqn:E; cbn [bind] in Hl; try discriminate.
    pose proof (wind_tx_CI _ _ _ _ _ _ _ _ _ _ _ _ _ HTc HL HTu Wt H E) as H1.
    specialize (IH (next_index txi t) w1 (ledger_wind_tx u t) (low_after gp bid L) w' HTc
                   (low_after_le _ _ _ HL) HTu Wr H1 Hl).
    destruct r; [exact IH|]. rewrite low_after_idem in IH. exact IH.
Qed.

(* ---- purge of an old block leaves the wallet alone ---- *)
Lemma delete_block_absent : forall dbg w p,
  (forall t s, In t (b_txs p) -> In s (t_from t) \/ In s (t_to t) -> mhas (s_key s) (w_slips w) = false) ->
  delete_block dbg w p = Ok w.
Proof.
  intros dbg w p. unfold delete_block. induction (b_txs p) as [|t r IH]; intros H; cbn [fold_res]; [reflexivity|].
  assert (H1 : fold_res (fun w i => delete_slip dbg w i) w (t_from t) = Ok w).
  { assert (Hf : forall s, In s (t_from t) -> mhas (s_key s) (w_slips w) = false)
      by (intros s Hs; apply (H t s); cbn; auto).
    induction (t_from t) as [|i ri IHi]; cbn [fold_res]; [reflexivity|].
    unfold delete_slip at 1. rewrite delete_key_absent by (apply Hf; cbn; auto). cbn [bind].
    apply IHi. intros; apply Hf; cbn; auto. }
  rewrite H1. cbn [bind].
  assert (H2 : fold_res (fun w o => if 0 <? s_amt o then delete_slip dbg w o else Ok w) w (t_to t) = Ok w).
  { assert (Hf : forall s, In s (t_to t) -> mhas (s_key s) (w_slips w) = false)
      by (intros s Hs; apply (H t s); cbn; auto).
    induction (t_to t) as [|o ro IHo]; cbn [fold_res]; [reflexivity|].
    destruct (0 <? s_amt o).
    - unfold delete_slip at 1. rewrite delete_key_absent by (apply Hf; cbn; auto). cbn [bind].
      apply IHo. intros; apply Hf; cbn; auto.
    - cbn [bind]. apply IHo. intros; apply Hf; cbn; auto. }
  rewrite H2. cbn [bind]. apply IH. intros t0 s Ht0 Hs. apply (H t0 s); cbn; auto.
Qed.

Lemma txs_wf_bids : forall bid txs txi t s,
  txs_wf bid txi txs -> In t txs -> In s (t_from t) \/ In s (t_to t) -> k_bid (s_key s) <= bid.
Proof.
  induction txs as [|t0 r IH]; intros txi t s Hwf Ht Hs; [destruct Ht|].
  destruct Hwf as [[Wto Wfrom] Wr]. destruct Ht as [<-|Ht]; [|eapply IH; eauto].
  destruct Hs as [Hs|Hs].
  - destruct (Wfrom s Hs) as (A & B & _). rewrite A. cbn [slip_key k_bid]. lia.
  - destruct (Wto s Hs) as (A & B & _). rewrite A. cbn [slip_key k_bid]. lia.
Qed.

(* ---- create ---- *)
Lemma fields_key_spent : forall pk x, fields_key pk (set_spent x) = fields_key pk x.
Proof. reflexivity. Qed.

Lemma create_CI : forall dbg pk w u C L T order keys pays fee latest gp w' out,
  CI pk w u C L T T -> create dbg w order keys pays fee latest gp = Ok (w', out) ->
  CI pk w' u (filter (fun k => negb (kmem k (w_unspent w'))) (w_unspent w) ++ C) L T T.
Proof.
  intros dbg pk w u C L T order keys pays fee latest gp w' out [H1 H2 H3 H4 H5 H6 H7] Hc.
  apply create_frame in Hc as (Hpk & [Hnd Hrel] & Hincl).
  assert (Hhas : forall k, mhas k (w_slips w') = mhas k (w_slips w)).
  { intros k. unfold mhas. destruct (Hrel k) as [E|(x & Hx & E)]; rewrite E; [reflexivity|rewrite Hx; reflexivity]. }
  constructor.
  - congruence.
  - auto.
  - intros k y Hy. destruct (Hrel k) as [E|(x & Hx & E)].
    + rewrite E in Hy. auto.
    + rewrite E in Hy. inversion Hy; subst. apply (H3 k x Hx).
  - intros k. rewrite Hhas. apply H4.
  - intros k. rewrite Hhas, in_app_iff, filter_In. split.
    + intros Hk. pose proof (Hincl k Hk) as Hk0. apply H5 in Hk0 as (A & B & C0). repeat split; auto.
      intros [[_ Hn]|Hn]; [|contradiction].
      cbv beta in Hn. apply negb_true_iff, kmem_false in Hn. contradiction.
    + intros (A & B & Hn). destruct (kmem k (w_unspent w')) eqn:E; [apply kmem_In; exact E|].
      exfalso. apply Hn. left. split; [apply H5; repeat split; auto|cbv beta; try rewrite E; reflexivity].
  - auto.
  - intros k Hk. apply in_app_iff in Hk as [Hk|Hk]; [|auto].
    apply filter_In in Hk as [Hk _]. apply H5 in Hk as (A & _). apply H4 in A as (A & _). auto.
Qed.

(* ------------------------------------------------------------------ *)
(** * The state invariant and the theorem *)

Record SI (pk gp : N) (st : cstate) : Prop := {
  si_ci : CI pk (c_w st) (c_u st) (c_committed st) (c_top st - gp) (c_top st) (c_top st);
  si_blocks : forall p, In p (c_blocks st) -> block_wf p /\ b_id p <= c_top st }.

Lemma cinit_SI : forall pk gp, SI pk gp (cinit pk).
Proof.
  intros. constructor; cbn [cinit c_w c_u c_top c_committed c_blocks].
  - constructor; cbn [init w_pk w_slips w_unspent map].
    + reflexivity.
    + constructor.
    + intros k x H; discriminate.
    + intros k. unfold mhas; cbn [mget]. split; [discriminate|intros [[] _]].
    + intros k. cbn [In]. split; [tauto|]. unfold mhas; cbn [mget]. intros [H _]; discriminate.
    + intros k [].
    + intros k [].
  - intros p [].
Qed.

Lemma find_block_spec : forall id bs p, find_block id bs = Some p -> In p bs /\ b_id p = id.
Proof.
  intros id bs p H. unfold find_block in H. apply find_some in H as [H1 H2].
  apply N.eqb_eq in H2. auto.
Qed.

Lemma chain_step_SI : forall dbg pk gp st o st',
  1 <= gp -> SI pk gp st ->
  match o with
  | CBlock b => b_id b = c_top st + 1 /\ block_wf b /\ (gp < b_id b -> b_txs b <> [])
  | _ => True
  end ->
  chain_step dbg gp st o = Ok st' -> SI pk gp st'.
Proof.
  intros dbg pk gp st o st' Hgp [Hci Hbl] Hwf Hs. destruct o as [b|order keys pays fee]; cbn [chain_step] in Hs.
  - destruct Hwf as (Hid & Hb & Hne).
    unfold on_chain_reorganization in Hs.
    destruct (txs_loop (wind_tx dbg gp (b_id b)) (c_w st) 0 (b_txs b)) as [w1| |] eqn:E1; cbn [bind] in Hs; try discriminate.
    set (bid := b_id b) in *. set (top := c_top st) in *.
    assert (H0 : CI pk (c_w st) (c_u st) (c_committed st) (top - gp) bid top)
      by (eapply CI_weaken; [| |exact Hci]; lia).
    pose proof (txs_loop_CI dbg pk gp bid (c_committed st) bid top (b_txs b) 0 (c_w st) (c_u st) (top - gp) w1
                  ltac:(lia) ltac:(lia) ltac:(lia) Hb H0 E1) as H1.
    assert (HL : match b_txs b with [] => top - gp | _ => low_after gp bid (top - gp) end = bid - gp).
    { unfold low_after. destruct (gp <? bid) eqn:Eg.
      - apply N.ltb_lt in Eg. destruct (b_txs b); [exfalso; apply (Hne Eg); reflexivity|lia].
      - apply N.ltb_ge in Eg. destruct (b_txs b); lia. }
    rewrite HL in H1. fold (ledger_wind (c_u st) b) in H1.
    assert (Hw2 : exists w2, (if 2 * gp <? bid then
                                match find_block (bid - 2 * gp) (c_blocks st) with
                                | Some p => delete_block dbg w1 p | None => Ok w1 end
                              else Ok w1) = Ok w2 /\ w2 = w1).
    { destruct (2 * gp <? bid) eqn:E2; [|eauto]. apply N.ltb_lt in E2.
      destruct (find_block (bid - 2 * gp) (c_blocks st)) as [p|] eqn:Ef; [|eauto].
      apply find_block_spec in Ef as [Hin Hpid]. destruct (Hbl p Hin) as [Hpwf _].
      exists w1. split; [|reflexivity]. apply delete_block_absent.
      intros t s Ht Hs0. destruct (mhas (s_key s) (w_slips w1)) eqn:Hh; [|reflexivity]. exfalso.
      apply (ci_slips _ _ _ _ _ _ _ H1) in Hh as (_ & _ & Hlow).
      pose proof (txs_wf_bids _ _ _ _ _ Hpwf Ht Hs0) as Hle. lia. }
    destruct Hw2 as (w2 & Ew2 & ->). rewrite Ew2 in Hs. cbn [bind] in Hs. inversion Hs; subst st'.
    constructor; cbn [c_w c_u c_top c_committed c_blocks].
    + eapply CI_weaken; [| |exact H1]; lia.
    + intros p [<-|Hp]; [split; [exact Hb|lia]|]. destruct (Hbl p Hp). split; [auto|lia].
  - destruct (enumerates order (w_unspent (c_w st))); [|discriminate].
    destruct (create dbg (c_w st) order keys pays fee (c_top st) gp) as [[w' out]| |] eqn:Ec; cbn [bind] in Hs; try discriminate.
    inversion Hs; subst st'. cbn [fst]. constructor; cbn [c_w c_u c_top c_committed c_blocks].
    + eapply create_CI; eauto.
    + exact Hbl.
Qed.

Lemma chain_run_SI : forall dbg pk gp ops st st',
  1 <= gp -> SI pk gp st -> chain_wf gp (c_top st) ops ->
  chain_run dbg gp st ops = Ok st' -> SI pk gp st'.
Proof.
  induction ops as [|o r IH]; intros st st' Hgp H Hwf Hr; cbn [chain_run] in Hr.
  - inversion Hr; subst. exact H.
  - destruct (chain_step dbg gp st o) as [st1| |] eqn:E; cbn [bind] in Hr; try discriminate.
    destruct o as [b|order keys pays fee]; cbn [chain_wf] in Hwf.
    + destruct Hwf as (A & B & C0 & D).
      assert (H1 : SI pk gp st1) by (eapply chain_step_SI; eauto; cbn; auto).
      apply (IH st1); auto.
      assert (c_top st1 = b_id b).
      { cbn [chain_step] in E.
        destruct (on_chain_reorganization dbg (c_w st) b true gp); cbn [bind] in E; try discriminate.
        match type of E with (do _ <- ?x; _) = _ => destruct x end; cbn [bind] in E; try discriminate.
        inversion E; reflexivity. }
      congruence.
    + assert (H1 : SI pk gp st1) by (eapply chain_step_SI; eauto; cbn; auto).
      apply (IH st1); auto.
      assert (c_top st1 = c_top st).
      { cbn [chain_step] in E. destruct (enumerates order (w_unspent (c_w st))); [|discriminate].
        destruct (create dbg (c_w st) order keys pays fee (c_top st) gp); cbn [bind] in E; try discriminate.
        inversion E; reflexivity. }
      congruence.
Qed.

Theorem matches_ledger : forall dbg pk gp ops st,
  1 <= gp -> chain_wf gp 0 ops ->
  chain_run dbg gp (cinit pk) ops = Ok st ->
  forall k, In k (w_unspent (c_w st)) <->
            In k (ledger_mine pk gp (c_top st) (c_u st)) /\ ~ In k (c_committed st).
Proof.
  intros dbg pk gp ops st Hgp Hwf Hr k.
  pose proof (chain_run_SI dbg pk gp ops (cinit pk) st Hgp (cinit_SI pk gp) Hwf Hr) as [H _].
  rewrite (ci_unspent _ _ _ _ _ _ _ H), (ci_slips _ _ _ _ _ _ _ H).
  unfold ledger_mine. rewrite filter_In, !andb_true_iff, N.eqb_eq, N.leb_le. tauto.
Qed.

Theorem no_stale_on_chain : forall dbg pk gp ops st,
  1 <= gp -> chain_wf gp 0 ops ->
  chain_run dbg gp (cinit pk) ops = Ok st ->
  forall k, stale pk (w_slips (c_w st)) k = false.
Proof.
  intros dbg pk gp ops st Hgp Hwf Hr k.
  pose proof (chain_run_SI dbg pk gp ops (cinit pk) st Hgp (cinit_SI pk gp) Hwf Hr) as [H _].
  unfold stale. destruct (mget k (w_slips (c_w st))) as [x|] eqn:Hx; [|reflexivity].
  destruct (ci_rec _ _ _ _ _ _ _ H k x Hx) as [_ Hf]. rewrite Hf, key_eqb_refl. reflexivity.
Qed.

(* ---- a concrete chain (non-vacuity) ---- *)
Definition ex_chain : list cop :=
  [CBlock (pay_block 1 1 1000);
   CBlock (pay_block 2 1 100);
   CBlock (pay_block 3 2 7);
   CCreate [mkK 1 2 0 0 100 0; mkK 1 1 0 0 1000 0] [2] [50] 0;
   CBlock (mkB 4 [mkTx [out_slip 1 100 2 0 0 TY_NORMAL]
                       [out_slip 1 50 4 0 0 TY_NORMAL; out_slip 2 50 4 0 1 TY_NORMAL] None (Some 40)]);
   CBlock (mkB 5 [mkTx [out_slip 1 1000 1 0 0 TY_NORMAL] [out_slip 1 1000 5 0 0 TY_ATR] None (Some 50)]);
   CCreate [mkK 1 5 0 0 1000 1; mkK 1 4 0 0 50 0] [3] [20] 1;
   CBlock (pay_block 6 1 9)].

Lemma ex_chain_wf : chain_wf 3 0 ex_chain.
Proof.
  cbn [chain_wf ex_chain pay_block b_id b_txs block_wf txs_wf].
  repeat match goal with
         | |- _ /\ _ => split
         | |- True => exact I
         | |- _ = _ => reflexivity
         | |- _ -> _ <> _ => intros _; discriminate
         | |- tx_wf _ _ _ =>
             constructor; cbn [t_to t_from In];
             intros s Hs;
             repeat match goal with H : _ \/ _ |- _ => destruct H | H : False |- _ => destruct H end;
             subst; cbn; repeat split; try reflexivity; try discriminate; try lia
         end.
Qed.
