(* Proofs about model/Wallet.v (property C19). *)
From Saito Require Import Base Wallet SortFacts.
From Coq Require Import Permutation.

Local Open Scope N_scope.

(* ------------------------------------------------------------------ *)
(** * Keys, sets, maps *)

Lemma key_eqb_eq : forall a b, key_eqb a b = true <-> a = b.
Proof.
  intros [a1 a2 a3 a4 a5 a6] [b1 b2 b3 b4 b5 b6]; unfold key_eqb; cbn [k_pk k_bid k_txo k_idx k_amt k_ty].
  rewrite !andb_true_iff, !N.eqb_eq. split.
  - intros [[[[[? ?] ?] ?] ?] ?]; subst; reflexivity.
  - intros H; inversion H; subst; repeat split; reflexivity.
Qed.

Lemma key_eqb_refl : forall a, key_eqb a a = true.
Proof. intros; apply key_eqb_eq; reflexivity. Qed.

Lemma key_eqb_neq : forall a b, key_eqb a b = false <-> a <> b.
Proof.
  intros a b; split; intros H.
  - intros E; apply key_eqb_eq in E; congruence.
  - destruct (key_eqb a b) eqn:E; [apply key_eqb_eq in E; contradiction|reflexivity].
Qed.

Lemma key_eq_dec : forall a b : key, {a = b} + {a <> b}.
Proof.
  intros a b; destruct (key_eqb a b) eqn:E; [left; apply key_eqb_eq; exact E|right; apply key_eqb_neq; exact E].
Qed.

Ltac keq a b :=
  let E := fresh "E" in
  destruct (key_eqb a b) eqn:E;
  [apply key_eqb_eq in E; try subst | apply key_eqb_neq in E].

Lemma kmem_In : forall k l, kmem k l = true <-> In k l.
Proof.
  induction l as [|x t IH]; cbn [kmem In]; [split; [discriminate|tauto]|].
  rewrite orb_true_iff, IH, key_eqb_eq. split; intros [H|H]; auto.
Qed.

Lemma kmem_false : forall k l, kmem k l = false <-> ~ In k l.
Proof.
  intros; rewrite <- kmem_In; destruct (kmem k l); split; congruence.
Qed.

Lemma kremove_In : forall k x l, In x (kremove k l) <-> In x l /\ x <> k.
Proof.
  induction l as [|y t IH]; cbn [kremove In]; [tauto|].
  keq k y.
  - rewrite IH. split; [intros [H1 H2]; auto|intros [[H1|H1] H2]; [congruence|auto]].
  - cbn [In]. rewrite IH. split.
    + intros [H|[H1 H2]]; [subst; split; auto|auto].
    + intros [[H|H] H2]; auto.
Qed.

Lemma kremove_NoDup : forall k l, NoDup l -> NoDup (kremove k l).
Proof.
  induction l as [|y t IH]; cbn [kremove]; intros H; [constructor|].
  inversion H; subst. keq k y; [auto|].
  constructor; [rewrite kremove_In; tauto|auto].
Qed.

Lemma kremove_notin : forall k l, ~ In k l -> kremove k l = l.
Proof.
  induction l as [|y t IH]; cbn [kremove In]; intros H; [reflexivity|].
  keq k y; [tauto|]. rewrite IH; tauto.
Qed.

Lemma kinsert_In : forall k x l, In x (kinsert k l) <-> x = k \/ In x l.
Proof.
  intros; unfold kinsert. destruct (kmem k l) eqn:E.
  - apply kmem_In in E. split; [auto|intros [H|H]; subst; auto].
  - cbn [In]. split; intros [H|H]; auto.
Qed.

Lemma kinsert_NoDup : forall k l, NoDup l -> NoDup (kinsert k l).
Proof.
  intros; unfold kinsert. destruct (kmem k l) eqn:E; [auto|].
  apply kmem_false in E. constructor; auto.
Qed.

Section MapFacts.
  Context {V : Type}.
  Implicit Types m : list (key * V).

  Lemma mget_mremove_same : forall k m, mget k (mremove k m) = None.
  Proof.
    induction m as [|[k' v] t IH]; cbn [mremove mget]; [reflexivity|].
    keq k k'; [exact IH|]. cbn [mget]. apply key_eqb_neq in E; rewrite E. exact IH.
  Qed.

  Lemma mget_mremove_other : forall k k' m, k' <> k -> mget k' (mremove k m) = mget k' m.
  Proof.
    induction m as [|[k0 v] t IH]; cbn [mremove mget]; intros H; [reflexivity|].
    keq k k0.
    - rewrite IH by auto. apply key_eqb_neq in H. rewrite H. reflexivity.
    - cbn [mget]. rewrite IH by auto. reflexivity.
  Qed.

  Lemma mget_mset_same : forall k v m, mget k (mset k v m) = Some v.
  Proof. intros; unfold mset; cbn [mget]. rewrite key_eqb_refl. reflexivity. Qed.

  Lemma mget_mset_other : forall k k' v m, k' <> k -> mget k' (mset k v m) = mget k' m.
  Proof.
    intros; unfold mset; cbn [mget]. apply key_eqb_neq in H as H'. rewrite H'.
    apply mget_mremove_other; auto.
  Qed.

  Lemma mget_In : forall k v m, mget k m = Some v -> In (k, v) m.
  Proof.
    induction m as [|[k0 v0] t IH]; cbn [mget In]; [discriminate|].
    keq k k0; intros H; [inversion H; auto|auto].
  Qed.

  Lemma In_mget : forall k v m, In (k, v) m -> exists v', mget k m = Some v'.
  Proof.
    induction m as [|[k0 v0] t IH]; cbn [mget In]; [tauto|].
    intros [H|H]; [inversion H; subst; rewrite key_eqb_refl; eauto|].
    keq k k0; eauto.
  Qed.

  Lemma mhas_true : forall k m, mhas k m = true <-> exists v, mget k m = Some v.
  Proof.
    intros; unfold mhas; destruct (mget k m); split; intros H; eauto; try discriminate.
    destruct H; discriminate.
  Qed.

  Lemma mremove_length : forall k m, (length (mremove k m) <= length m)%nat.
  Proof.
    induction m as [|[k0 v0] t IH]; cbn [mremove length]; [lia|].
    destruct (key_eqb k k0); cbn [length]; lia.
  Qed.
End MapFacts.

(* ------------------------------------------------------------------ *)
(** * Sums over key lists *)

Definition amt_of (m : list (key * wslip)) (k : key) : N :=
  match mget k m with Some x => ws_amt x | None => 0 end.

Definition sum_keys (m : list (key * wslip)) (l : list key) : N :=
  fold_right (fun k a => amt_of m k + a) 0 l.

Definition sum_unspent (w : wallet) : N := sum_keys (w_slips w) (w_unspent w).

Lemma sum_keys_cons : forall m k l, sum_keys m (k :: l) = amt_of m k + sum_keys m l.
Proof. reflexivity. Qed.

Lemma sum_keys_ext : forall m m' l,
  (forall k, In k l -> amt_of m k = amt_of m' k) -> sum_keys m l = sum_keys m' l.
Proof.
  induction l as [|k t IH]; intros H; [reflexivity|].
  rewrite !sum_keys_cons, IH, (H k) by (intros; try apply H; cbn [In]; auto). reflexivity.
Qed.

Lemma sum_keys_remove : forall m k l,
  NoDup l -> In k l -> sum_keys m l = amt_of m k + sum_keys m (kremove k l).
Proof.
  induction l as [|y t IH]; intros ND HI; [destruct HI|].
  inversion ND; subst. cbn [kremove]. keq k y.
  - rewrite kremove_notin by auto. reflexivity.
  - destruct HI as [HI|HI]; [congruence|].
    rewrite !sum_keys_cons, (IH H2 HI). lia.
Qed.

Lemma sum_keys_remove_notin : forall m k l, ~ In k l -> sum_keys m (kremove k l) = sum_keys m l.
Proof. intros; rewrite kremove_notin; auto. Qed.

Lemma sum_keys_incl : forall m l1 l2,
  NoDup l1 -> NoDup l2 -> incl l1 l2 -> sum_keys m l1 <= sum_keys m l2.
Proof.
  induction l1 as [|k t IH]; intros l2 N1 N2 HI; [cbn; lia|].
  inversion N1; subst.
  rewrite sum_keys_cons, (sum_keys_remove m k l2 N2) by (apply HI; cbn; auto).
  assert (sum_keys m t <= sum_keys m (kremove k l2)).
  { apply IH; auto using kremove_NoDup.
    intros x Hx. apply kremove_In. split; [apply HI; cbn; auto|]. intros ->; contradiction. }
  lia.
Qed.

Lemma sum_keys_perm : forall m l1 l2, Permutation l1 l2 -> sum_keys m l1 = sum_keys m l2.
Proof.
  induction 1 as [|x l l' HP IH|x y l|l l' l'' H1 IH1 H2 IH2].
  - reflexivity.
  - rewrite !sum_keys_cons, IH. reflexivity.
  - rewrite !sum_keys_cons. lia.
  - congruence.
Qed.

Lemma amt_of_mset_same : forall m k x, amt_of (mset k x m) k = ws_amt x.
Proof. intros; unfold amt_of; rewrite mget_mset_same; reflexivity. Qed.

Lemma amt_of_mset_other : forall m k k' x, k' <> k -> amt_of (mset k x m) k' = amt_of m k'.
Proof. intros; unfold amt_of; rewrite mget_mset_other; auto. Qed.

Lemma amt_of_mremove_other : forall m k k', k' <> k -> amt_of (mremove k m) k' = amt_of m k'.
Proof. intros; unfold amt_of; rewrite mget_mremove_other; auto. Qed.

(* ------------------------------------------------------------------ *)
(** * 64-bit arithmetic *)

Lemma add64_cases : forall dbg site a b v,
  add64 dbg site a b = Ok v ->
  (a + b < W64 /\ v = a + b) \/ (dbg = false /\ W64 <= a + b /\ v = (a + b) mod W64).
Proof.
  intros dbg site a b v; unfold add64.
  destruct (a + b <? W64) eqn:E.
  - intros H; inversion H; left; split; [apply N.ltb_lt; auto|auto].
  - apply N.ltb_ge in E. destruct dbg; [discriminate|].
    intros H; inversion H; right; auto.
Qed.

Lemma add64_ok : forall dbg site a b, a + b < W64 -> add64 dbg site a b = Ok (a + b).
Proof. intros; unfold add64. apply N.ltb_lt in H; rewrite H; reflexivity. Qed.

Lemma add64_panic : forall dbg site a b s, add64 dbg site a b = Panic s -> s = site /\ dbg = true.
Proof.
  intros dbg site a b s; unfold add64. destruct (a + b <? W64); [discriminate|].
  destruct dbg; [intros H; inversion H; auto|discriminate].
Qed.

Lemma add64_not_err : forall dbg site a b, add64 dbg site a b <> Err.
Proof. intros; unfold add64; destruct (a + b <? W64); [discriminate|destruct dbg; discriminate]. Qed.

Lemma sub64_ok : forall dbg site a b, b <= a -> sub64 dbg site a b = Ok (a - b).
Proof. intros; unfold sub64. apply N.leb_le in H; rewrite H; reflexivity. Qed.

Lemma sub64_cases : forall dbg site a b v,
  sub64 dbg site a b = Ok v ->
  (b <= a /\ v = a - b) \/ (dbg = false /\ a < b /\ v = (a + W64 - b mod W64) mod W64).
Proof.
  intros dbg site a b v; unfold sub64. destruct (b <=? a) eqn:E.
  - apply N.leb_le in E. intros H; inversion H; auto.
  - apply N.leb_gt in E. destruct dbg; [discriminate|]. intros H; inversion H; auto.
Qed.

Lemma sub64_panic : forall dbg site a b s, sub64 dbg site a b = Panic s -> s = site /\ dbg = true /\ a < b.
Proof.
  intros dbg site a b s; unfold sub64. destruct (b <=? a) eqn:E; [discriminate|].
  apply N.leb_gt in E. destruct dbg; [intros H; inversion H; auto|discriminate].
Qed.

Lemma sub64_not_err : forall dbg site a b, sub64 dbg site a b <> Err.
Proof. intros; unfold sub64; destruct (b <=? a); [discriminate|destruct dbg; discriminate]. Qed.

(* ------------------------------------------------------------------ *)
(** * The accounting invariant *)

Record InvG (w : wallet) : Prop := {
  ig_nodup : NoDup (w_unspent w);
  ig_sub : forall k, In k (w_unspent w) -> mhas k (w_slips w) = true;
  ig_key : forall k x, mget k (w_slips w) = Some x -> ws_key x = k;
  ig_u64 : forall k x, mget k (w_slips w) = Some x -> ws_amt x < W64;
  ig_bal : w_balance w = sum_unspent w mod W64 }.

(* with overflow checks the sum itself stays below 2^64 *)
Definition InvD (dbg : bool) (w : wallet) : Prop :=
  InvG w /\ (dbg = true -> sum_unspent w < W64).

Definition safe {A} (P : A -> Prop) (r : res A) : Prop :=
  match r with Ok a => P a | Err => True | Panic s => s <> SITE_BAL_SUB end.

Lemma safe_bind {A B} (P : A -> Prop) (Q : B -> Prop) (r : res A) (f : A -> res B) :
  safe P r -> (forall a, P a -> safe Q (f a)) -> safe Q (bind r f).
Proof. destruct r; cbn [bind safe]; auto. Qed.

Lemma safe_impl {A} (P Q : A -> Prop) (r : res A) :
  safe P r -> (forall a, P a -> Q a) -> safe Q r.
Proof. destruct r; cbn [safe]; auto. Qed.

Lemma InvD_exact : forall w, InvD true w -> w_balance w = sum_unspent w.
Proof.
  intros w [G B]. rewrite (ig_bal w G). apply N.mod_small. auto.
Qed.

Lemma InvG_bal_lt : forall w, InvG w -> w_balance w < W64.
Proof. intros w G. rewrite (ig_bal w G). apply N.mod_lt. discriminate. Qed.

Lemma sum_keys_mset_fresh : forall m k x l, ~ In k l -> sum_keys (mset k x m) l = sum_keys m l.
Proof.
  intros. apply sum_keys_ext. intros k' Hk'. apply amt_of_mset_other. intros ->; contradiction.
Qed.

Lemma sum_keys_mremove : forall m k l, ~ In k l -> sum_keys (mremove k m) l = sum_keys m l.
Proof.
  intros. apply sum_keys_ext. intros k' Hk'. apply amt_of_mremove_other. intros ->; contradiction.
Qed.

Lemma init_InvD : forall dbg pk, InvD dbg (init pk).
Proof.
  intros. split; [constructor; cbn; try constructor; try tauto; try discriminate|cbn; intros; reflexivity].
Qed.

Ltac w64 := unfold W64 in *.
Ltac splits := repeat match goal with |- _ /\ _ => split end.

(* ---- add_slip ---- *)
Lemma add_slip_safe : forall dbg w bid txi s lc,
  InvD dbg w -> s_amt s < W64 -> safe (InvD dbg) (add_slip dbg w bid txi s lc).
Proof.
  intros dbg w bid txi s lc [G B] Hamt. unfold add_slip.
  set (k := slip_key s).
  destruct (mhas k (w_slips w)) eqn:Hhas; [cbn; split; auto|].
  destruct (bid =? 0); [cbn; discriminate|].
  assert (Hnk : ~ In k (w_unspent w)).
  { intros Hin. apply (ig_sub w G) in Hin. congruence. }
  set (x := mkWS k (s_amt s) bid txi lc (s_idx s) false (s_ty s)).
  assert (Hget : forall k' y, mget k' (mset k x (w_slips w)) = Some y ->
                              (k' = k /\ y = x) \/ (k' <> k /\ mget k' (w_slips w) = Some y)).
  { intros k' y. destruct (key_eq_dec k' k) as [->|Hne].
    - rewrite mget_mset_same. intros H; inversion H; auto.
    - rewrite mget_mset_other by auto. auto. }
  assert (Hsub : forall k', In k' (w_unspent w) -> mhas k' (mset k x (w_slips w)) = true).
  { intros k' Hin. apply mhas_true. destruct (key_eq_dec k' k) as [->|Hne]; [contradiction|].
    rewrite mget_mset_other by auto. apply mhas_true. apply (ig_sub w G); auto. }
  assert (Hkey : forall k' y, mget k' (mset k x (w_slips w)) = Some y -> ws_key y = k').
  { intros k' y H. apply Hget in H as [[-> ->]|[_ H]]; [reflexivity|apply (ig_key w G); auto]. }
  assert (Hu : forall k' y, mget k' (mset k x (w_slips w)) = Some y -> ws_amt y < W64).
  { intros k' y H. apply Hget in H as [[-> ->]|[_ H]]; [exact Hamt|eapply (ig_u64 w G); eauto]. }
  destruct (s_ty s =? TY_BLOCKSTAKE); [|destruct (s_ty s =? TY_BOUND)].
  - cbn [safe]. split; [constructor; cbn [w_unspent w_slips w_balance]; auto; [apply G|]|].
    + unfold sum_unspent; cbn [w_unspent w_slips]. rewrite sum_keys_mset_fresh by auto. apply G.
    + unfold sum_unspent; cbn [w_unspent w_slips]. rewrite sum_keys_mset_fresh by auto. exact B.
  - cbn [safe]. split; [constructor; cbn [w_unspent w_slips w_balance]; auto; [apply G|]|].
    + unfold sum_unspent; cbn [w_unspent w_slips]. rewrite sum_keys_mset_fresh by auto. apply G.
    + unfold sum_unspent; cbn [w_unspent w_slips]. rewrite sum_keys_mset_fresh by auto. exact B.
  - assert (Hins : kinsert k (w_unspent w) = k :: w_unspent w).
    { unfold kinsert. apply kmem_false in Hnk. rewrite Hnk. reflexivity. }
    assert (Hsum : sum_keys (mset k x (w_slips w)) (k :: w_unspent w) = s_amt s + sum_unspent w).
    { rewrite sum_keys_cons, amt_of_mset_same, sum_keys_mset_fresh by auto. reflexivity. }
    pose proof (ig_bal w G) as Hb.
    destruct (add64 dbg SITE_BAL_ADD (w_balance w) (s_amt s)) as [b| |site] eqn:Ea; cbn [bind safe].
    + rewrite Hins. split.
      * constructor; cbn [w_unspent w_slips w_balance].
        -- constructor; [exact Hnk|apply G].
        -- intros k' [<-|Hin]; [apply mhas_true; rewrite mget_mset_same; eauto|auto].
        -- exact Hkey.
        -- exact Hu.
        -- unfold sum_unspent; cbn [w_unspent w_slips]. rewrite Hsum.
           apply add64_cases in Ea as [[H1 ->]|[_ [H1 ->]]]; w64; lia.
      * intros ->. unfold sum_unspent; cbn [w_unspent w_slips]. rewrite Hsum.
        specialize (B eq_refl).
        apply add64_cases in Ea as [[H1 ->]|[H0 _]]; [|discriminate].
        rewrite Hb in H1. rewrite N.mod_small in H1 by exact B. lia.
    + exfalso; eapply add64_not_err; eauto.
    + apply add64_panic in Ea as [-> _]. discriminate.
Qed.

(* ---- delete_key / delete_slip ---- *)
Lemma delete_key_safe : forall dbg w k, InvD dbg w -> safe (InvD dbg) (delete_key dbg w k).
Proof.
  intros dbg w k [G B]. unfold delete_key.
  destruct (mget k (w_slips w)) as [removed|] eqn:Hget; [|cbn; split; auto].
  assert (Hget' : forall k' y, mget k' (mremove k (w_slips w)) = Some y -> k' <> k /\ mget k' (w_slips w) = Some y).
  { intros k' y. destruct (key_eq_dec k' k) as [->|Hne].
    - rewrite mget_mremove_same. discriminate.
    - rewrite mget_mremove_other by auto. auto. }
  assert (Hkey : forall k' y, mget k' (mremove k (w_slips w)) = Some y -> ws_key y = k').
  { intros k' y H. apply Hget' in H as [_ H]. apply (ig_key w G); auto. }
  assert (Hu : forall k' y, mget k' (mremove k (w_slips w)) = Some y -> ws_amt y < W64).
  { intros k' y H. apply Hget' in H as [_ H]. eapply (ig_u64 w G); eauto. }
  destruct (kmem k (w_unspent w)) eqn:Hmem.
  - apply kmem_In in Hmem.
    pose proof (sum_keys_remove (w_slips w) k (w_unspent w) (ig_nodup w G) Hmem) as Hsplit.
    assert (Ha : amt_of (w_slips w) k = ws_amt removed) by (unfold amt_of; rewrite Hget; reflexivity).
    assert (Hlt : ws_amt removed < W64) by (eapply (ig_u64 w G); eauto).
    assert (Hsum : sum_keys (mremove k (w_slips w)) (kremove k (w_unspent w)) =
                   sum_keys (w_slips w) (kremove k (w_unspent w))).
    { apply sum_keys_mremove. rewrite kremove_In. tauto. }
    pose proof (ig_bal w G) as Hb. fold (sum_unspent w) in Hsplit.
    destruct (sub64 dbg SITE_BAL_SUB (w_balance w) (ws_amt removed)) as [b| |site] eqn:Es; cbn [bind safe].
    + split.
      * constructor; cbn [w_unspent w_slips w_balance].
        -- apply kremove_NoDup, G.
        -- intros k' Hin. apply kremove_In in Hin as [Hin Hne]. apply mhas_true.
           rewrite mget_mremove_other by auto. apply mhas_true, (ig_sub w G); auto.
        -- exact Hkey.
        -- exact Hu.
        -- unfold sum_unspent; cbn [w_unspent w_slips]. rewrite Hsum.
           apply sub64_cases in Es as [[H1 ->]|[_ [H1 ->]]]; w64; lia.
      * intros ->. unfold sum_unspent; cbn [w_unspent w_slips]. rewrite Hsum.
        specialize (B eq_refl). lia.
    + exfalso; eapply sub64_not_err; eauto.
    + apply sub64_panic in Es as [_ [-> Hlt2]]. exfalso.
      specialize (B eq_refl). rewrite Hb, N.mod_small in Hlt2 by exact B. lia.
  - apply kmem_false in Hmem. cbn [safe].
    assert (Hsum : sum_keys (mremove k (w_slips w)) (w_unspent w) = sum_unspent w)
      by (apply sum_keys_mremove; auto).
    split; [constructor; cbn [w_unspent w_slips w_balance]|].
    + apply G.
    + intros k' Hin. apply mhas_true.
      rewrite mget_mremove_other by (intros ->; contradiction). apply mhas_true, (ig_sub w G); auto.
    + exact Hkey.
    + exact Hu.
    + unfold sum_unspent; cbn [w_unspent w_slips]. rewrite Hsum. apply G.
    + unfold sum_unspent; cbn [w_unspent w_slips]. rewrite Hsum. exact B.
Qed.

Lemma delete_slip_safe : forall dbg w s, InvD dbg w -> safe (InvD dbg) (delete_slip dbg w s).
Proof. intros; apply delete_key_safe; auto. Qed.

Lemma delete_keys_safe : forall dbg ks w, InvD dbg w -> safe (InvD dbg) (delete_keys dbg w ks).
Proof.
  induction ks as [|k t IH]; intros w H; cbn [delete_keys]; [exact H|].
  eapply safe_bind; [apply delete_key_safe; exact H|]. intros; apply IH; auto.
Qed.

Lemma remove_old_safe : forall dbg w limit, InvD dbg w -> safe (InvD dbg) (remove_old_slips dbg w limit).
Proof. intros; apply delete_keys_safe; auto. Qed.

(* ---- the loops ---- *)
Lemma scan_safe_n : forall A (P : A -> Prop) (f : A -> slip -> res A) (n : nat) l acc,
  (length l <= n)%nat ->
  (forall a s, P a -> In s l -> safe P (f a s)) -> P acc -> safe P (scan f acc l).
Proof.
  induction n as [|n IH]; intros l acc Hlen Hf Hacc.
  - destruct l; [exact Hacc|cbn in Hlen; lia].
  - destruct l as [|a t]; [exact Hacc|]. cbn [length] in Hlen.
    assert (Hstep : safe P (do acc' <- f acc a; scan f acc' t)).
    { eapply safe_bind; [apply Hf; cbn; auto|].
      intros acc' Hacc'. apply IH; [lia| |exact Hacc'].
      intros a0 s0 Ha0 Hin. apply Hf; cbn; auto. }
    cbn [scan]. destruct t as [|b [|c t']]; try exact Hstep.
    destruct (is_bound a && is_bound c && negb (is_bound b)); [|exact Hstep].
    apply IH; [cbn [length] in *; lia| |exact Hacc].
    intros a0 s0 Ha0 Hin. apply Hf; cbn; auto.
Qed.

Lemma scan_safe : forall A (P : A -> Prop) (f : A -> slip -> res A) l acc,
  (forall a s, P a -> In s l -> safe P (f a s)) -> P acc -> safe P (scan f acc l).
Proof. intros; eapply scan_safe_n; eauto. Qed.

Lemma fold_res_safe : forall A B (P : A -> Prop) (f : A -> B -> res A) l acc,
  (forall a s, P a -> In s l -> safe P (f a s)) -> P acc -> safe P (fold_res f acc l).
Proof.
  induction l as [|x t IH]; intros acc Hf Hacc; cbn [fold_res]; [exact Hacc|].
  eapply safe_bind; [apply Hf; cbn; auto|].
  intros a Ha. apply IH; auto. intros; apply Hf; cbn; auto.
Qed.

Lemma txs_loop_safe : forall (P : wallet -> Prop) f l w txi,
  (forall w i t, P w -> In t l -> safe P (f w i t)) -> P w -> safe P (txs_loop f w txi l).
Proof.
  induction l as [|t r IH]; intros w txi Hf Hw; cbn [txs_loop]; [exact Hw|].
  eapply safe_bind; [apply Hf; cbn; auto|].
  intros a Ha. apply IH; auto. intros; apply Hf; cbn; auto.
Qed.

(* all amounts are u64 values *)
Definition slips_u64 (l : list slip) : Prop := forall s, In s l -> s_amt s < W64.
Definition tx_u64 (t : tx) : Prop := slips_u64 (t_from t) /\ slips_u64 (t_to t).
Definition block_u64 (b : block) : Prop := forall t, In t (b_txs b) -> tx_u64 t.

Lemma delete_pending_safe : forall dbg w t, InvD dbg w -> safe (InvD dbg) (delete_pending w t).
Proof.
  intros dbg w t [G B]. unfold delete_pending. destruct (t_hash t); cbn [safe]; [|discriminate].
  split; [destruct G; constructor; auto|exact B].
Qed.

Lemma wind_tx_safe : forall dbg gp bid w txi t,
  InvD dbg w -> tx_u64 t -> safe (InvD dbg) (wind_tx dbg gp bid w txi t).
Proof.
  intros dbg gp bid w txi t H [Hf Ht]. unfold wind_tx.
  eapply safe_bind.
  { apply scan_safe; [|exact H]. intros a s Ha Hin.
    destruct ((0 <? s_amt s) && (s_pk s =? w_pk a)); [apply add_slip_safe; auto|exact Ha]. }
  intros w1 H1. eapply safe_bind.
  { apply scan_safe; [|exact H1]. intros a s Ha Hin.
    destruct (s_pk s =? w_pk a); [|exact Ha].
    eapply safe_bind; [|intros; apply delete_pending_safe; eauto].
    destruct (0 <? s_amt s); [apply delete_slip_safe; auto|exact Ha]. }
  intros w2 H2. destruct (gp <? bid); [apply remove_old_safe; auto|exact H2].
Qed.

Lemma unwind_tx_safe : forall dbg bid w txi t,
  InvD dbg w -> tx_u64 t -> safe (InvD dbg) (unwind_tx dbg bid w txi t).
Proof.
  intros dbg bid w txi t H [Hf Ht]. unfold unwind_tx.
  eapply safe_bind.
  { apply scan_safe; [|exact H]. intros a s Ha Hin.
    destruct ((0 <? s_amt s) && (s_pk s =? w_pk a)); [apply delete_slip_safe; auto|exact Ha]. }
  intros w1 H1.
  apply scan_safe; [|exact H1]. intros a s Ha Hin.
  destruct ((0 <? s_amt s) && (s_pk s =? w_pk a) && (0 <? s_bid s)); [apply add_slip_safe; auto|exact Ha].
Qed.

Lemma reorg_safe : forall dbg w b lc gp,
  InvD dbg w -> block_u64 b -> safe (InvD dbg) (on_chain_reorganization dbg w b lc gp).
Proof.
  intros dbg w b lc gp H Hb. unfold on_chain_reorganization. destruct lc.
  - apply txs_loop_safe; [|exact H]. intros; apply wind_tx_safe; auto.
  - apply txs_loop_safe; [|exact H]. intros; apply unwind_tx_safe; auto.
Qed.

Lemma delete_block_safe : forall dbg w b, InvD dbg w -> safe (InvD dbg) (delete_block dbg w b).
Proof.
  intros dbg w b H. unfold delete_block.
  apply fold_res_safe; [|exact H]. intros a t Ha _.
  eapply safe_bind.
  { apply fold_res_safe; [|exact Ha]. intros; apply delete_slip_safe; auto. }
  intros w1 H1. apply fold_res_safe; [|exact H1].
  intros a0 s Ha0 _. destruct (0 <? s_amt s); [apply delete_slip_safe; auto|exact Ha0].
Qed.

(* ---- remove_all ---- *)
Lemma remove_all_In : forall ks l x, In x (remove_all ks l) <-> In x l /\ ~ In x ks.
Proof.
  unfold remove_all. induction ks as [|k t IH]; intros l x; cbn [fold_left In]; [tauto|].
  rewrite IH, kremove_In. split; [intros [[H1 H2] H3]|intros [H1 H2]]; repeat split; auto.
  intros [H|H]; [congruence|contradiction].
Qed.

Lemma remove_all_NoDup : forall ks l, NoDup l -> NoDup (remove_all ks l).
Proof.
  unfold remove_all. induction ks as [|k t IH]; intros l H; cbn [fold_left]; [exact H|].
  apply IH, kremove_NoDup, H.
Qed.

Lemma sum_keys_remove_all : forall m ks l,
  NoDup ks -> NoDup l -> incl ks l ->
  sum_keys m l = sum_keys m ks + sum_keys m (remove_all ks l).
Proof.
  unfold remove_all. induction ks as [|k t IH]; intros l N1 N2 HI; cbn [fold_left]; [cbn; lia|].
  inversion N1; subst.
  rewrite sum_keys_cons, (sum_keys_remove m k l N2) by (apply HI; cbn; auto).
  rewrite (IH (kremove k l)); auto using kremove_NoDup; [lia|].
  intros x Hx. apply kremove_In. split; [apply HI; cbn; auto|intros ->; contradiction].
Qed.

(* ---- generate_slips ---- *)
Definition slips_ok (sl : list (key * wslip)) : Prop :=
  forall k x, mget k sl = Some x -> ws_key x = k /\ ws_amt x < W64.

Lemma slips_ok_spent : forall sl k x, slips_ok sl -> mget k sl = Some x ->
  slips_ok (mset k (set_spent x) sl) /\
  (forall k', amt_of (mset k (set_spent x) sl) k' = amt_of sl k') /\
  (forall k', mhas k' (mset k (set_spent x) sl) = mhas k' sl).
Proof.
  intros sl k x Hok Hget. destruct (Hok k x Hget) as [Hk Ha]. split; [|split].
  - intros k0 x0 H. destruct (key_eq_dec k0 k) as [->|Hne].
    + rewrite mget_mset_same in H. injection H as <-. cbn [set_spent ws_key ws_amt]. split; [exact Hk|exact Ha].
    + rewrite mget_mset_other in H by auto. apply (Hok k0 x0 H).
  - intros k'. destruct (key_eq_dec k' k) as [->|Hne].
    + rewrite amt_of_mset_same. unfold amt_of. rewrite Hget. reflexivity.
    + apply amt_of_mset_other; auto.
  - intros k'. unfold mhas. destruct (key_eq_dec k' k) as [->|Hne].
    + rewrite mget_mset_same, Hget. reflexivity.
    + rewrite mget_mset_other by auto. reflexivity.
Qed.

Lemma gen_loop_gen : forall dbg pk thr req order sl bal nin,
  slips_ok sl -> bal < W64 ->
  match gen_loop dbg pk thr req order sl bal nin with
  | Ok g =>
      incl (g_removed g) order /\ (NoDup order -> NoDup (g_removed g)) /\
      (forall k, amt_of (g_slips g) k = amt_of sl k) /\
      (forall k, mhas k (g_slips g) = mhas k sl) /\
      slips_ok (g_slips g) /\ g_balance g < W64 /\
      (g_balance g + sum_keys sl (g_removed g)) mod W64 = bal mod W64 /\
      (dbg = true -> g_balance g + sum_keys sl (g_removed g) = bal)
  | Err => False
  | Panic s => s <> SITE_BAL_SUB \/ (dbg = true /\ bal < sum_keys sl order)
  end.
Proof.
  induction order as [|k t IH]; intros sl bal nin Hok Hbal; cbn [gen_loop].
  - cbn [g_removed g_slips g_balance sum_keys fold_right]. rewrite N.add_0_r.
    split; [intros y Hy; exact Hy|]. splits; auto; intros; constructor.
  - destruct (mget k sl) as [x|] eqn:Hget; [|left; discriminate].
    destruct (Hok k x Hget) as [Hk Ha].
    assert (Hamt : amt_of sl k = ws_amt x) by (unfold amt_of; rewrite Hget; reflexivity).
    destruct (ws_bid x <=? thr).
    { specialize (IH sl bal nin Hok Hbal).
      destruct (gen_loop dbg pk thr req t sl bal nin) as [g| |s]; [|exact IH|].
      - destruct IH as (I1 & I2 & I3 & I4 & I5 & I6 & I7 & I8). splits; auto.
        + intros y Hy; right; apply I1; exact Hy.
        + intros ND; inversion ND; auto.
      - destruct IH as [IH|[IH1 IH2]]; [left; exact IH|right; split; auto].
        rewrite sum_keys_cons. lia. }
    destruct (req <=? nin).
    { cbn [g_removed g_slips g_balance sum_keys fold_right]. rewrite N.add_0_r.
      split; [intros y Hy; destruct Hy|]. splits; auto; intros; constructor. }
    destruct (add64 dbg SITE_NOLAN_ADD nin (ws_amt x)) as [nin'| |s] eqn:Ea; cbn [bind].
    2: { eapply add64_not_err; eauto. }
    2: { apply add64_panic in Ea as [-> _]. left; discriminate. }
    destruct (sub64 dbg SITE_BAL_SUB bal (ws_amt x)) as [bal'| |s] eqn:Es; cbn [bind].
    2: { eapply sub64_not_err; eauto. }
    2: { apply sub64_panic in Es as [_ [-> Hlt]]. right; split; auto. rewrite sum_keys_cons, Hamt. lia. }
    destruct (slips_ok_spent sl k x Hok Hget) as (Hok' & Hamt' & Hhas').
    assert (Hbal' : bal' < W64 /\ (bal' + ws_amt x) mod W64 = bal mod W64 /\ (dbg = true -> bal' + ws_amt x = bal)).
    { apply sub64_cases in Es as [[H1 ->]|[-> [H1 ->]]]; w64; splits; try lia; discriminate. }
    destruct Hbal' as (Hb1 & Hb2 & Hb3).
    specialize (IH (mset k (set_spent x) sl) bal' nin' Hok' Hb1).
    assert (Hsk : forall l, sum_keys (mset k (set_spent x) sl) l = sum_keys sl l).
    { intros l. apply sum_keys_ext. intros; apply Hamt'. }
    rewrite Hsk in IH.
    destruct (gen_loop dbg pk thr req t (mset k (set_spent x) sl) bal' nin') as [g| |s];
      cbn [bind g_removed g_slips g_balance]; [|exact IH|].
    + destruct IH as (I1 & I2 & I3 & I4 & I5 & I6 & I7 & I8). rewrite Hk. rewrite Hsk in I7, I8.
      splits; auto.
      * intros y [<-|Hy]; [left; reflexivity|right; apply I1; exact Hy].
      * intros ND; inversion ND; subst. constructor; [intros Hin; apply I1 in Hin; contradiction|auto].
      * intros k'. rewrite I3. apply Hamt'.
      * intros k'. rewrite I4. apply Hhas'.
      * rewrite sum_keys_cons, Hamt. w64. lia.
      * intros Hd. rewrite sum_keys_cons, Hamt. specialize (I8 Hd). specialize (Hb3 Hd). lia.
    + destruct IH as [IH|[IH1 IH2]]; [left; exact IH|right; split; auto].
      rewrite sum_keys_cons, Hamt. specialize (Hb3 IH1). lia.
Qed.

Lemma enumerates_spec : forall order l,
  enumerates order l = true -> NoDup order /\ incl order l /\ length order = length l.
Proof.
  intros order l. unfold enumerates. rewrite !andb_true_iff. intros [[H1 H2] H3].
  repeat split.
  - clear H2 H3. induction order as [|k t IH]; [constructor|].
    cbn [knodup] in H1. apply andb_true_iff in H1 as [Ha Hb].
    constructor; [apply kmem_false; destruct (kmem k t); [discriminate|reflexivity]|auto].
  - rewrite forallb_forall in H3. intros k Hk. apply kmem_In, H3, Hk.
  - apply N.eqb_eq in H2. unfold Nlen in H2. lia.
Qed.

Lemma generate_slips_safe : forall dbg w order req latest gp,
  InvD dbg w -> NoDup order -> incl order (w_unspent w) ->
  safe (fun r => InvD dbg (fst (fst r))) (generate_slips dbg w order req latest gp).
Proof.
  intros dbg w order req latest gp [G B] ND HI. unfold generate_slips.
  destruct (skip_threshold dbg latest gp) as [thr| |s] eqn:Et; cbn [bind safe]; auto.
  2: { unfold skip_threshold in Et. destruct (sub64 dbg SITE_GP_SUB gp 1) eqn:Es; cbn [bind] in Et; try discriminate.
       inversion Et; subst. apply sub64_panic in Es as [-> _]. discriminate. }
  assert (Hok : slips_ok (w_slips w)).
  { intros k x H. split; [apply (ig_key w G); auto|eapply (ig_u64 w G); eauto]. }
  pose proof (gen_loop_gen dbg (w_pk w) thr req order (w_slips w) (w_balance w) 0 Hok (InvG_bal_lt w G)) as HG.
  assert (Hle : sum_keys (w_slips w) order <= sum_unspent w).
  { apply sum_keys_incl; auto. apply G. }
  destruct (gen_loop dbg (w_pk w) thr req order (w_slips w) (w_balance w) 0) as [g| |s]; cbn [bind safe].
  - destruct HG as (I1 & I2 & I3 & I4 & I5 & I6 & I7 & I8). cbn [fst].
    assert (Hincl : incl (g_removed g) (w_unspent w)) by (intros x Hx; apply HI, I1, Hx).
    pose proof (sum_keys_remove_all (w_slips w) (g_removed g) (w_unspent w) (I2 ND) (ig_nodup w G) Hincl) as Hsplit.
    fold (sum_unspent w) in Hsplit.
    assert (Hsum : sum_keys (g_slips g) (remove_all (g_removed g) (w_unspent w)) =
                   sum_keys (w_slips w) (remove_all (g_removed g) (w_unspent w))).
    { apply sum_keys_ext. intros; apply I3. }
    split; [constructor; cbn [w_unspent w_slips w_balance]|].
    + apply remove_all_NoDup, G.
    + intros k Hk. apply remove_all_In in Hk as [Hk _]. rewrite I4. apply (ig_sub w G); auto.
    + intros k x H. apply (I5 k x H).
    + intros k x H. apply (I5 k x H).
    + unfold sum_unspent; cbn [w_unspent w_slips]. rewrite Hsum.
      pose proof (ig_bal w G) as Hb. rewrite Hb in I7. w64. lia.
    + intros Hd. unfold sum_unspent; cbn [w_unspent w_slips]. rewrite Hsum. specialize (B Hd). lia.
  - exact I.
  - destruct HG as [HG|[Hd HG]]; [exact HG|]. exfalso.
    specialize (B Hd). pose proof (ig_bal w G) as Hb. rewrite N.mod_small in Hb by exact B. lia.
Qed.

Lemma create_safe : forall dbg w order keys pays fee latest gp,
  InvD dbg w -> NoDup order -> incl order (w_unspent w) ->
  safe (fun r => InvD dbg (fst r)) (create dbg w order keys pays fee latest gp).
Proof.
  intros dbg w order keys pays fee latest gp H ND HI. unfold create.
  destruct (sum_checked 0 pays) as [total|]; [|exact H].
  destruct (negb (Nlen pays =? Nlen keys)); [exact H|].
  cbv zeta.
  destruct (negb (total + (if w_balance w <? fee then 0 else fee) <? W64)); [exact H|].
  destruct (w_balance w <? total + (if w_balance w <? fee then 0 else fee)); [exact H|].
  destruct (total + (if w_balance w <? fee then 0 else fee) =? 0).
  - cbn [bind safe fst]. exact H.
  - pose proof (generate_slips_safe dbg w order (total + (if w_balance w <? fee then 0 else fee)) latest gp H ND HI) as HS.
    destruct (generate_slips dbg w order (total + (if w_balance w <? fee then 0 else fee)) latest gp) as [[[w' ins] outs]| |s];
      cbn [bind safe fst] in *; auto.
Qed.

(* ---- staking ---- *)
Lemma stake_loop1_spec : forall dbg sl amount unlocked lastvalid order c,
  match stake_loop1 dbg sl amount unlocked lastvalid order c with
  | Ok r => incl (snd r) order /\ (NoDup order -> NoDup (snd r))
  | Err => False
  | Panic s => s <> SITE_BAL_SUB
  end.
Proof.
  induction order as [|k t IH]; intros c; cbn [stake_loop1].
  - cbn [snd]. split; [intros y Hy; exact Hy|auto].
  - destruct (mget k sl) as [x|]; [|discriminate].
    assert (Hskip : match stake_loop1 dbg sl amount unlocked lastvalid t c with
                    | Ok r => incl (snd r) (k :: t) /\ (NoDup (k :: t) -> NoDup (snd r))
                    | Err => False | Panic s => s <> SITE_BAL_SUB end).
    { specialize (IH c). destruct (stake_loop1 dbg sl amount unlocked lastvalid t c); auto.
      destruct IH as [I1 I2]. split; [intros y Hy; right; apply I1, Hy|intros ND; inversion ND; auto]. }
    destruct (negb ((ws_ty x =? TY_BLOCKSTAKE) && (ws_bid x <=? unlocked))); [exact Hskip|].
    destruct (ws_bid x <? lastvalid); [exact Hskip|].
    destruct (add64 dbg SITE_NOLAN_ADD c (ws_amt x)) as [c'| |s] eqn:Ea; cbn [bind].
    2: { eapply add64_not_err; eauto. }
    2: { apply add64_panic in Ea as [-> _]. discriminate. }
    destruct (amount <=? c').
    + cbn [snd]. split; [intros y [<-|[]]; left; reflexivity|intros; constructor; [intros []|constructor]].
    + specialize (IH c'). destruct (stake_loop1 dbg sl amount unlocked lastvalid t c') as [r| |s]; cbn [bind]; auto.
      destruct IH as [I1 I2]. cbn [snd]. split.
      * intros y [<-|Hy]; [left; reflexivity|right; apply I1, Hy].
      * intros ND; inversion ND; subst. constructor; [intros Hin; apply I1 in Hin; contradiction|auto].
Qed.

Lemma stake_loop2_spec : forall dbg sl required lastvalid order c,
  c < W64 ->
  match stake_loop2 dbg sl required lastvalid order c with
  | Ok r => incl (snd r) order /\ (NoDup order -> NoDup (snd r)) /\ fst r < W64 /\
            fst r mod W64 = (c + sum_keys sl (snd r)) mod W64 /\
            (dbg = true -> fst r = c + sum_keys sl (snd r))
  | Err => False
  | Panic s => s <> SITE_BAL_SUB
  end.
Proof.
  induction order as [|k t IH]; intros c Hc; cbn [stake_loop2].
  - cbn [snd fst sum_keys fold_right]. rewrite N.add_0_r. splits; auto. intros y Hy; exact Hy.
  - destruct (mget k sl) as [x|] eqn:Hget; [|discriminate].
    assert (Hamt : amt_of sl k = ws_amt x) by (unfold amt_of; rewrite Hget; reflexivity).
    destruct (ws_bid x <? lastvalid).
    { specialize (IH c Hc). destruct (stake_loop2 dbg sl required lastvalid t c) as [r| |s]; auto.
      destruct IH as (I1 & I2 & I3 & I4 & I5). splits; auto.
      - intros y Hy; right; apply I1, Hy.
      - intros ND; inversion ND; auto. }
    destruct (add64 dbg SITE_NOLAN_ADD c (ws_amt x)) as [c'| |s] eqn:Ea; cbn [bind].
    2: { eapply add64_not_err; eauto. }
    2: { apply add64_panic in Ea as [-> _]. discriminate. }
    assert (Hc' : c' < W64 /\ c' mod W64 = (c + ws_amt x) mod W64 /\ (dbg = true -> c' = c + ws_amt x)).
    { apply add64_cases in Ea as [[H1 ->]|[-> [H1 ->]]]; w64; splits; try lia; discriminate. }
    destruct Hc' as (H1 & H2 & H3).
    destruct (required <=? c').
    + cbn [snd fst]. rewrite sum_keys_cons, Hamt. cbn [sum_keys fold_right]. rewrite N.add_0_r. splits; auto.
      * intros y [<-|[]]; left; reflexivity.
      * intros; constructor; [intros []|constructor].
    + specialize (IH c' H1). destruct (stake_loop2 dbg sl required lastvalid t c') as [r| |s]; cbn [bind]; auto.
      destruct IH as (I1 & I2 & I3 & I4 & I5). cbn [snd fst]. rewrite sum_keys_cons, Hamt. splits; auto.
      * intros y [<-|Hy]; [left; reflexivity|right; apply I1, Hy].
      * intros ND; inversion ND; subst. constructor; [intros Hin; apply I1 in Hin; contradiction|auto].
      * w64. lia.
      * intros Hd. rewrite (I5 Hd), (H3 Hd). lia.
Qed.

Lemma create_staking_safe : forall dbg w sorder uorder amount unlocked lastvalid,
  InvD dbg w -> NoDup uorder -> incl uorder (w_unspent w) ->
  safe (fun r => InvD dbg (fst r)) (create_staking dbg w sorder uorder amount unlocked lastvalid).
Proof.
  intros dbg w sorder uorder amount unlocked lastvalid [G B] ND HI. unfold create_staking.
  pose proof (stake_loop1_spec dbg (w_slips w) amount unlocked lastvalid sorder 0) as H1.
  destruct (stake_loop1 dbg (w_slips w) amount unlocked lastvalid sorder 0) as [[collected sel1]| |s];
    cbn [bind safe]; auto.
  assert (Hstake : forall st, InvD dbg (mkW (w_pk w) (w_slips w) (w_unspent w) st (w_balance w) (w_pending w))).
  { intros st. split; [destruct G; constructor; auto|exact B]. }
  destruct (collected <? amount); [|cbn [safe fst]; apply Hstake].
  set (sorted := sort_by amount_desc uorder).
  assert (Hperm : Permutation sorted uorder) by apply SortFacts.sort_by_perm.
  assert (NDs : NoDup sorted) by (eapply Permutation_NoDup; [symmetry; exact Hperm|exact ND]).
  assert (HIs : incl sorted (w_unspent w)).
  { intros y Hy. apply HI. eapply Permutation_in; eauto. }
  pose proof (stake_loop2_spec dbg (w_slips w) (amount - collected) lastvalid sorted 0 ltac:(reflexivity)) as H2.
  destruct (stake_loop2 dbg (w_slips w) (amount - collected) lastvalid sorted 0) as [[c2 sel2]| |s];
    cbn [bind safe]; auto.
  destruct H2 as (I1 & I2 & I3 & I4 & I5). cbn [fst snd] in *. rewrite N.add_0_l in *.
  destruct (c2 <? amount - collected); [cbn [safe fst]; split; auto|].
  destruct (add64 dbg SITE_NOLAN_ADD collected c2) as [total| |s] eqn:Ea; cbn [bind safe]; auto.
  2: { apply add64_panic in Ea as [-> _]. discriminate. }
  assert (Hincl : incl sel2 (w_unspent w)) by (intros y Hy; apply HIs, I1, Hy).
  pose proof (sum_keys_remove_all (w_slips w) sel2 (w_unspent w) (I2 NDs) (ig_nodup w G) Hincl) as Hsplit.
  fold (sum_unspent w) in Hsplit.
  pose proof (ig_bal w G) as Hb.
  destruct (sub64 dbg SITE_BAL_SUB (w_balance w) c2) as [bal| |s] eqn:Es; cbn [bind safe fst].
  - split; [constructor; cbn [w_unspent w_slips w_balance]|].
    + apply remove_all_NoDup, G.
    + intros k Hk. apply remove_all_In in Hk as [Hk _]. apply (ig_sub w G); auto.
    + apply G.
    + apply G.
    + unfold sum_unspent; cbn [w_unspent w_slips].
      apply sub64_cases in Es as [[E1 ->]|[_ [E1 ->]]]; w64; lia.
    + intros Hd. unfold sum_unspent; cbn [w_unspent w_slips]. specialize (B Hd). lia.
  - exact I.
  - apply sub64_panic in Es as [_ [-> Hlt]]. exfalso.
    specialize (B eq_refl). specialize (I5 eq_refl). rewrite N.mod_small in Hb by exact B. lia.
Qed.

Lemma add_to_pending_safe : forall dbg w p g h, InvD dbg w -> safe (InvD dbg) (add_to_pending w p g h).
Proof.
  intros dbg w p g h [G B]. unfold add_to_pending.
  destruct p; [|cbn; discriminate]. destruct h; [|cbn; discriminate].
  destruct (negb (n =? w_pk w) || g); [cbn; discriminate|].
  cbn [safe]. split; [destruct G; constructor; auto|exact B].
Qed.

(* ---- update_from_balance_snapshot / reset ---- *)
Definition AmtKey (w : wallet) : Prop :=
  forall k x, mget k (w_slips w) = Some x -> ws_amt x = k_amt k.

Lemma snap_insert_safe : forall dbg w s,
  InvD dbg w /\ AmtKey w -> s_amt s < W64 -> s_amt s = k_amt (s_key s) ->
  safe (fun w' => InvD dbg w' /\ AmtKey w') (snap_insert dbg w s).
Proof.
  intros dbg w s [[G B] AK] Hamt Hkamt. unfold snap_insert.
  set (k := s_key s) in *.
  destruct (key_eqb k zero_key); [cbn; discriminate|].
  set (x := mkWS k (s_amt s) (s_bid s) (s_txo s) true (s_idx s) false (s_ty s)).
  assert (Hget : forall k' y, mget k' (mset k x (w_slips w)) = Some y ->
                              (k' = k /\ y = x) \/ (k' <> k /\ mget k' (w_slips w) = Some y)).
  { intros k' y. destruct (key_eq_dec k' k) as [->|Hne].
    - rewrite mget_mset_same. intros H; inversion H; auto.
    - rewrite mget_mset_other by auto. auto. }
  assert (Hkey : forall k' y, mget k' (mset k x (w_slips w)) = Some y -> ws_key y = k').
  { intros k' y H. apply Hget in H as [[-> ->]|[_ H]]; [reflexivity|apply (ig_key w G); auto]. }
  assert (Hu : forall k' y, mget k' (mset k x (w_slips w)) = Some y -> ws_amt y < W64).
  { intros k' y H. apply Hget in H as [[-> ->]|[_ H]]; [exact Hamt|eapply (ig_u64 w G); eauto]. }
  assert (HAK : forall k' y, mget k' (mset k x (w_slips w)) = Some y -> ws_amt y = k_amt k').
  { intros k' y H. apply Hget in H as [[-> ->]|[_ H]]; [exact Hkamt|apply AK; auto]. }
  assert (Hsubx : forall k', In k' (w_unspent w) -> mhas k' (mset k x (w_slips w)) = true).
  { intros k' Hin. apply mhas_true. destruct (key_eq_dec k' k) as [->|Hne].
    - rewrite mget_mset_same; eauto.
    - rewrite mget_mset_other by auto. apply mhas_true, (ig_sub w G); auto. }
  destruct (mhas k (w_slips w)) eqn:Hhas.
  - apply mhas_true in Hhas as [x0 Hx0].
    assert (Hamt_same : forall k', amt_of (mset k x (w_slips w)) k' = amt_of (w_slips w) k').
    { intros k'. destruct (key_eq_dec k' k) as [->|Hne].
      - rewrite amt_of_mset_same. unfold amt_of. rewrite Hx0. cbn [ws_amt x]. rewrite (AK k x0 Hx0). exact Hkamt.
      - apply amt_of_mset_other; auto. }
    assert (Hsum : sum_keys (mset k x (w_slips w)) (w_unspent w) = sum_unspent w).
    { apply sum_keys_ext. intros; apply Hamt_same. }
    cbn [safe]. split; [split; [constructor; cbn [w_unspent w_slips w_balance]|]|exact HAK].
    + apply G.
    + exact Hsubx.
    + exact Hkey.
    + exact Hu.
    + unfold sum_unspent; cbn [w_unspent w_slips]. rewrite Hsum. apply G.
    + unfold sum_unspent; cbn [w_unspent w_slips]. rewrite Hsum. exact B.
  - assert (Hnk : ~ In k (w_unspent w)).
    { intros Hin. apply (ig_sub w G) in Hin. congruence. }
    assert (Hsame : sum_keys (mset k x (w_slips w)) (w_unspent w) = sum_unspent w)
      by (apply sum_keys_mset_fresh; auto).
    assert (Hkeep : forall st,
              InvD dbg (mkW (w_pk w) (mset k x (w_slips w)) (w_unspent w) st (w_balance w) (w_pending w)) /\
              AmtKey (mkW (w_pk w) (mset k x (w_slips w)) (w_unspent w) st (w_balance w) (w_pending w))).
    { intros st. split; [split; [constructor; cbn [w_unspent w_slips w_balance]|]|exact HAK].
      - apply G.
      - exact Hsubx.
      - exact Hkey.
      - exact Hu.
      - unfold sum_unspent; cbn [w_unspent w_slips]. rewrite Hsame. apply G.
      - unfold sum_unspent; cbn [w_unspent w_slips]. rewrite Hsame. exact B. }
    destruct (s_ty s =? TY_BLOCKSTAKE); [cbn [safe]; apply Hkeep|].
    destruct (s_ty s =? TY_BOUND); [cbn [safe]; apply Hkeep|].
    assert (Hins : kinsert k (w_unspent w) = k :: w_unspent w).
    { unfold kinsert. apply kmem_false in Hnk. rewrite Hnk. reflexivity. }
    assert (Hsum : sum_keys (mset k x (w_slips w)) (k :: w_unspent w) = s_amt s + sum_unspent w).
    { rewrite sum_keys_cons, amt_of_mset_same, sum_keys_mset_fresh by auto. reflexivity. }
    pose proof (ig_bal w G) as Hb.
    destruct (add64 dbg SITE_BAL_ADD (w_balance w) (s_amt s)) as [b| |site] eqn:Ea; cbn [bind safe].
    + rewrite Hins. split; [split|exact HAK].
      * constructor; cbn [w_unspent w_slips w_balance].
        -- constructor; [exact Hnk|apply G].
        -- intros k' [<-|Hin]; [apply mhas_true; rewrite mget_mset_same; eauto|auto].
        -- exact Hkey.
        -- exact Hu.
        -- unfold sum_unspent; cbn [w_unspent w_slips]. rewrite Hsum.
           apply add64_cases in Ea as [[H1 ->]|[_ [H1 ->]]]; w64; lia.
      * intros ->. unfold sum_unspent; cbn [w_unspent w_slips]. rewrite Hsum.
        specialize (B eq_refl).
        apply add64_cases in Ea as [[H1 ->]|[H0 _]]; [|discriminate].
        rewrite Hb in H1. rewrite N.mod_small in H1 by exact B. lia.
    + exact I.
    + apply add64_panic in Ea as [-> _]. discriminate.
Qed.

Definition snap_ok (l : list slip) : Prop :=
  forall s, In s l -> s_amt s < W64 /\ s_amt s = k_amt (s_key s).

Lemma update_from_snapshot_safe : forall dbg w l,
  snap_ok l -> safe (InvD dbg) (update_from_snapshot dbg w l).
Proof.
  intros dbg w l Hl. unfold update_from_snapshot.
  apply (safe_impl (fun w' => InvD dbg w' /\ AmtKey w')); [|intros a [Ha _]; exact Ha].
  apply fold_res_safe.
  - intros a s Ha Hin. destruct (Hl s Hin). apply snap_insert_safe; auto.
  - split; [split|].
    + constructor; cbn [w_unspent w_slips w_balance].
      * constructor.
      * intros k [].
      * intros k x H; discriminate.
      * intros k x H; discriminate.
      * reflexivity.
    + intros _. reflexivity.
    + intros k x H; discriminate.
Qed.

Lemma reset_InvD : forall dbg w, InvD dbg (reset w).
Proof.
  intros. split; [constructor; cbn; try constructor; try tauto; try discriminate|intros; reflexivity].
Qed.

(* ---- operations and runs ---- *)
Definition op_u64 (o : op) : Prop :=
  match o with
  | OAddSlip _ _ s _ => s_amt s < W64
  | OWind b _ | OUnwind b _ => block_u64 b
  | OSnapshot l => snap_ok l
  | _ => True
  end.

Lemma step_safe : forall dbg w o,
  InvD dbg w -> op_u64 o -> safe (fun r => InvD dbg (fst r)) (step dbg w o).
Proof.
  intros dbg w o H Hu. destruct o; cbn [step op_u64] in *.
  - eapply safe_bind; [apply add_slip_safe; eauto|]. intros a Ha; exact Ha.
  - eapply safe_bind; [apply delete_slip_safe; eauto|]. intros a Ha; exact Ha.
  - eapply safe_bind; [apply reorg_safe; eauto|]. intros a Ha; exact Ha.
  - eapply safe_bind; [apply reorg_safe; eauto|]. intros a Ha; exact Ha.
  - eapply safe_bind; [apply remove_old_safe; eauto|]. intros a Ha; exact Ha.
  - eapply safe_bind; [apply delete_block_safe; eauto|]. intros a Ha; exact Ha.
  - destruct (enumerates order (w_unspent w)) eqn:E; [|exact I].
    apply enumerates_spec in E as (E1 & E2 & _).
    eapply safe_bind; [apply create_safe; eauto|]. intros a Ha; exact Ha.
  - destruct (enumerates sorder (w_staking w) && enumerates uorder (w_unspent w)) eqn:E; [|exact I].
    apply andb_true_iff in E as [_ E]. apply enumerates_spec in E as (E1 & E2 & _).
    eapply safe_bind; [apply create_staking_safe; eauto|]. intros a Ha; exact Ha.
  - eapply safe_bind; [apply add_to_pending_safe; eauto|]. intros a Ha; exact Ha.
  - eapply safe_bind; [apply update_from_snapshot_safe; eauto|]. intros a Ha; exact Ha.
  - cbn [safe fst]. apply reset_InvD.
Qed.

Definition ops_u64 (ops : list op) : Prop := forall o, In o ops -> op_u64 o.

Lemma run_safe : forall dbg ops w,
  InvD dbg w -> ops_u64 ops -> safe (InvD dbg) (run dbg w ops).
Proof.
  induction ops as [|o t IH]; intros w H Hu; cbn [run]; [exact H|].
  eapply safe_bind; [apply step_safe; [exact H|apply Hu; cbn; auto]|].
  intros a Ha. apply IH; [exact Ha|]. intros o' Ho'. apply Hu; cbn; auto.
Qed.

(* ---- C19: balance is the sum; the subtraction never underflows ---- *)
Theorem balance_is_sum_mod : forall dbg pk ops w,
  ops_u64 ops -> run dbg (init pk) ops = Ok w -> w_balance w = sum_unspent w mod W64.
Proof.
  intros dbg pk ops w Hu Hr. pose proof (run_safe dbg ops (init pk) (init_InvD dbg pk) Hu) as H.
  rewrite Hr in H. destruct H as [G _]. apply G.
Qed.

Theorem balance_is_sum_debug : forall pk ops w,
  ops_u64 ops -> run true (init pk) ops = Ok w -> w_balance w = sum_unspent w.
Proof.
  intros pk ops w Hu Hr. pose proof (run_safe true ops (init pk) (init_InvD true pk) Hu) as H.
  rewrite Hr in H. apply InvD_exact; exact H.
Qed.

Theorem balance_is_sum_bounded : forall dbg pk ops w,
  ops_u64 ops -> run dbg (init pk) ops = Ok w -> sum_unspent w < W64 -> w_balance w = sum_unspent w.
Proof.
  intros. erewrite balance_is_sum_mod by eauto. apply N.mod_small; auto.
Qed.

Theorem no_underflow_panic : forall dbg pk ops,
  ops_u64 ops -> run dbg (init pk) ops <> Panic SITE_BAL_SUB.
Proof.
  intros dbg pk ops Hu Hr. pose proof (run_safe dbg ops (init pk) (init_InvD dbg pk) Hu) as H.
  rewrite Hr in H. apply H; reflexivity.
Qed.

(* ------------------------------------------------------------------ *)
(** * Transactions built by the wallet *)

Definition sumN (l : list N) : N := fold_right N.add 0 l.
Definition sum_amt (l : list slip) : N := sumN (map s_amt l).

Definition fee_eff (w : wallet) (fee : N) : N := if w_balance w <? fee then 0 else fee.
Definition requested (w : wallet) (pays : list N) (fee : N) : N := sumN pays + fee_eff w fee.

(* latest_block_id.saturating_sub(genesis_period - 1); a zero period wraps in release *)
Definition thr_of (latest gp : N) : N := latest - (if gp =? 0 then W64 - 1 else gp - 1).

(* the keys generate_slips selects, in order *)
Fixpoint select (thr req : N) (order : list key) (sl : list (key * wslip)) (nin : N) : list key :=
  match order with
  | [] => []
  | k :: t =>
      match mget k sl with
      | None => []
      | Some x =>
          if ws_bid x <=? thr then select thr req t sl nin
          else if req <=? nin then []
          else k :: select thr req t sl (nin + ws_amt x)
      end
  end.

(* funds that are not "about to be rebroadcast" *)
Fixpoint eligible_sum (thr : N) (sl : list (key * wslip)) (order : list key) : N :=
  match order with
  | [] => 0
  | k :: t =>
      match mget k sl with
      | Some x => (if ws_bid x <=? thr then 0 else ws_amt x) + eligible_sum thr sl t
      | None => eligible_sum thr sl t
      end
  end.

(* the key the wallet would compute from the coordinates it stored for a slip *)
Definition fields_key (pk : N) (x : wslip) : key :=
  mkK pk (ws_bid x) (ws_txo x) (ws_idx x) (ws_amt x) (ws_ty x).

Definition stale (pk : N) (sl : list (key * wslip)) (k : key) : bool :=
  match mget k sl with Some x => negb (key_eqb (fields_key pk x) k) | None => false end.

Definition selection (w : wallet) (order : list key) (pays : list N) (fee latest gp : N) : list key :=
  select (thr_of latest gp) (requested w pays fee) order (w_slips w) 0.

(* The two classes of calls on which the code still builds a bad transaction
   (the u64 wrap of payments + fee and the stale coordinates after an unwind were
   repaired in /repo: 2da67eb, 953d536) *)
Definition known_edge (w : wallet) (order : list key) (pays : list N) (fee latest gp : N) : bool :=
  eligible_sum (thr_of latest gp) (w_slips w) order <? requested w pays fee.
Definition known_cap (w : wallet) (order : list key) (pays : list N) (fee latest gp : N) : bool :=
  255 <? Nlen (selection w order pays fee latest gp).

Definition Known_C19 (w : wallet) (order : list key) (pays : list N) (fee latest gp : N) : bool :=
  known_edge w order pays fee latest gp || known_cap w order pays fee latest gp.

(* no stored slip has coordinates that disagree with its key *)
Definition NoStale (w : wallet) : Prop := forall k, stale (w_pk w) (w_slips w) k = false.

Definition inputs_of (pk : N) (sl : list (key * wslip)) (ks : list key) : list slip :=
  flat_map (fun k => match mget k sl with Some x => [input_of pk x] | None => [] end) ks.

Lemma sumN_app : forall a b, sumN (a ++ b) = sumN a + sumN b.
Proof. induction a as [|x t IH]; intros; cbn [app sumN fold_right]; [reflexivity|]. fold (sumN (t ++ b)). fold (sumN t). rewrite IH. lia. Qed.

Lemma sumN_rev : forall a, sumN (rev a) = sumN a.
Proof.
  induction a as [|x t IH]; [reflexivity|]. cbn [rev]. rewrite sumN_app, IH. cbn [sumN fold_right]. fold (sumN t). lia.
Qed.

Lemma sumN_firstn : forall n l, sumN (firstn n l) <= sumN l.
Proof.
  induction n as [|n IH]; intros [|x t]; cbn [firstn sumN fold_right]; try lia.
  fold (sumN (firstn n t)). fold (sumN t). specialize (IH t). lia.
Qed.

Lemma sum_amt_firstn : forall n l, sum_amt (firstn n l) <= sum_amt l.
Proof. intros. unfold sum_amt. rewrite <- firstn_map. apply sumN_firstn. Qed.

Lemma sum_amt_app : forall a b, sum_amt (a ++ b) = sum_amt a + sum_amt b.
Proof. intros. unfold sum_amt. rewrite map_app. apply sumN_app. Qed.

Lemma sum_checked_exact : forall l acc, acc + sumN l < W64 -> sum_checked acc l = Some (acc + sumN l).
Proof.
  induction l as [|x t IH]; intros acc H; cbn [sum_checked sumN fold_right] in *; [rewrite N.add_0_r; reflexivity|].
  fold (sumN t) in *. assert (E : acc + x <? W64 = true) by (apply N.ltb_lt; lia). rewrite E.
  rewrite IH by lia. f_equal. lia.
Qed.

Lemma sum_checked_some : forall l acc v, sum_checked acc l = Some v -> v = acc + sumN l /\ (acc < W64 -> v < W64).
Proof.
  induction l as [|x t IH]; intros acc v H; cbn [sum_checked sumN fold_right] in *.
  - inversion H; subst. split; [lia|auto].
  - fold (sumN t) in *. destruct (acc + x <? W64) eqn:E; [|discriminate]. apply N.ltb_lt in E.
    apply IH in H as [H1 H2]. split; [lia|intros _; auto].
Qed.

Lemma pays_sum : forall (keys pays : list N), length pays = length keys ->
  sum_amt (map (fun kp => fresh_slip (fst kp) (snd kp) TY_NORMAL) (rev (combine keys pays))) = sumN pays.
Proof.
  intros keys pays Hlen. unfold sum_amt. rewrite map_map. cbn [fresh_slip s_amt].
  rewrite <- (map_map snd (fun x => x)), map_id, map_rev, sumN_rev.
  f_equal. revert pays Hlen. induction keys as [|k t IH]; intros [|p r] H; cbn in *; try lia; [reflexivity|].
  f_equal. apply IH. lia.
Qed.

Lemma skip_threshold_ok : forall dbg latest gp thr,
  skip_threshold dbg latest gp = Ok thr -> thr = thr_of latest gp.
Proof.
  intros dbg latest gp thr. unfold skip_threshold, thr_of.
  destruct (sub64 dbg SITE_GP_SUB gp 1) as [g| |s] eqn:Es; cbn [bind]; try discriminate.
  intros H; inversion H; subst. f_equal.
  apply sub64_cases in Es as [[H1 ->]|[_ [H1 ->]]].
  - destruct (gp =? 0) eqn:E; [apply N.eqb_eq in E; lia|reflexivity].
  - assert (gp = 0) by lia. subst. reflexivity.
Qed.

Lemma select_incl : forall thr req order sl nin, incl (select thr req order sl nin) order.
Proof.
  induction order as [|k t IH]; intros sl nin; cbn [select]; [intros y Hy; exact Hy|].
  destruct (mget k sl) as [x|]; [|intros y []].
  destruct (ws_bid x <=? thr); [intros y Hy; right; eapply IH; eauto|].
  destruct (req <=? nin); [intros y []|].
  intros y [<-|Hy]; [left; reflexivity|right; eapply IH; eauto].
Qed.

Lemma select_NoDup : forall thr req order sl nin, NoDup order -> NoDup (select thr req order sl nin).
Proof.
  induction order as [|k t IH]; intros sl nin ND; cbn [select]; [constructor|].
  inversion ND; subst.
  destruct (mget k sl) as [x|]; [|constructor].
  destruct (ws_bid x <=? thr); [auto|].
  destruct (req <=? nin); [constructor|].
  constructor; [intros Hin; apply select_incl in Hin; contradiction|auto].
Qed.

Lemma select_enough : forall thr req order sl nin,
  (forall k, In k order -> mhas k sl = true) ->
  req <= nin + eligible_sum thr sl order -> req <= nin + sum_keys sl (select thr req order sl nin).
Proof.
  induction order as [|k t IH]; intros sl nin Hall H; cbn [select eligible_sum] in *; [cbn; lia|].
  assert (Hk : mhas k sl = true) by (apply Hall; cbn; auto).
  apply mhas_true in Hk as [x Hx]. rewrite Hx in *.
  assert (Hall' : forall k', In k' t -> mhas k' sl = true) by (intros; apply Hall; cbn; auto).
  destruct (ws_bid x <=? thr); [apply IH; auto; lia|].
  destruct (req <=? nin) eqn:E; [apply N.leb_le in E; cbn; lia|].
  rewrite sum_keys_cons. unfold amt_of at 1. rewrite Hx.
  specialize (IH sl (nin + ws_amt x) Hall'). lia.
Qed.

(* exact behaviour of the selection loop when nothing overflows *)
Lemma gen_loop_exact : forall dbg pk thr req order sl0 sl bal nin,
  NoDup order ->
  (forall k, In k order -> mget k sl = mget k sl0) ->
  (forall k, In k order -> mhas k sl0 = true) ->
  (forall k x, mget k sl0 = Some x -> ws_key x = k) ->
  nin + sum_keys sl0 order < W64 -> sum_keys sl0 order <= bal ->
  exists g, gen_loop dbg pk thr req order sl bal nin = Ok g /\
    g_removed g = select thr req order sl0 nin /\
    g_inputs g = inputs_of pk sl0 (select thr req order sl0 nin) /\
    g_in g = nin + sum_keys sl0 (select thr req order sl0 nin) /\
    g_balance g + sum_keys sl0 (select thr req order sl0 nin) = bal.
Proof.
  induction order as [|k t IH]; intros sl0 sl bal nin ND Hsame Hall Hkey Hov Hle; cbn [gen_loop select].
  - eexists; split; [reflexivity|]. cbn [g_removed g_inputs g_in g_balance inputs_of flat_map sum_keys fold_right].
    splits; auto; lia.
  - inversion ND; subst.
    assert (Hk : mhas k sl0 = true) by (apply Hall; cbn; auto).
    apply mhas_true in Hk as [x Hx].
    rewrite (Hsame k) by (cbn; auto). rewrite Hx.
    rewrite sum_keys_cons in Hov, Hle. unfold amt_of at 1 in Hov. unfold amt_of at 1 in Hle. rewrite Hx in Hov, Hle.
    assert (Hsame' : forall k', In k' t -> mget k' sl = mget k' sl0) by (intros; apply Hsame; cbn; auto).
    assert (Hall' : forall k', In k' t -> mhas k' sl0 = true) by (intros; apply Hall; cbn; auto).
    destruct (ws_bid x <=? thr).
    { apply IH; auto; lia. }
    destruct (req <=? nin).
    { eexists; split; [reflexivity|].
      cbn [g_removed g_inputs g_in g_balance inputs_of flat_map sum_keys fold_right]. splits; auto; lia. }
    rewrite add64_ok by lia. rewrite sub64_ok by lia. cbn [bind].
    destruct (IH sl0 (mset k (set_spent x) sl) (bal - ws_amt x) (nin + ws_amt x)) as (g & Hg & G1 & G2 & G3 & G4); auto; try lia.
    { intros k' Hk'. rewrite mget_mset_other by (intros ->; contradiction). apply Hsame'; auto. }
    rewrite Hg. cbn [bind]. eexists; split; [reflexivity|].
    cbn [g_removed g_inputs g_in g_balance]. rewrite (Hkey k x Hx), G1, G2, G3.
    rewrite sum_keys_cons. unfold amt_of at 1 2. rewrite Hx.
    cbn [inputs_of flat_map]. rewrite Hx. cbn [app]. splits; auto; lia.
Qed.

Lemma sum_amt_inputs_of : forall pk sl ks,
  (forall k, In k ks -> mhas k sl = true) -> sum_amt (inputs_of pk sl ks) = sum_keys sl ks.
Proof.
  induction ks as [|k t IH]; intros Hall; [reflexivity|].
  assert (Hk : mhas k sl = true) by (apply Hall; cbn; auto).
  apply mhas_true in Hk as [x Hx].
  cbn [inputs_of flat_map]. rewrite Hx. cbn [app]. rewrite sum_keys_cons. unfold amt_of. rewrite Hx.
  unfold sum_amt in *. cbn [map sumN fold_right input_of s_amt].
  fold (inputs_of pk sl t). fold (sumN (map s_amt (inputs_of pk sl t))). rewrite IH; [reflexivity|].
  intros; apply Hall; cbn; auto.
Qed.

Lemma keys_inputs_of : forall pk sl ks,
  (forall k, In k ks -> mhas k sl = true) ->
  (forall k, In k ks -> stale pk sl k = false) ->
  map slip_key (inputs_of pk sl ks) = ks.
Proof.
  induction ks as [|k t IH]; intros Hall Hns; [reflexivity|].
  assert (Hk : mhas k sl = true) by (apply Hall; cbn; auto).
  apply mhas_true in Hk as [x Hx].
  cbn [inputs_of flat_map]. rewrite Hx. cbn [app map]. fold (inputs_of pk sl t).
  rewrite IH; [|intros; apply Hall; cbn; auto|intros; apply Hns; cbn; auto]. f_equal.
  specialize (Hns k (or_introl eq_refl)). unfold stale in Hns. rewrite Hx in Hns.
  apply negb_false_iff, key_eqb_eq in Hns. exact Hns.
Qed.

Lemma length_inputs_of : forall pk sl ks,
  (forall k, In k ks -> mhas k sl = true) -> length (inputs_of pk sl ks) = length ks.
Proof.
  induction ks as [|k t IH]; intros Hall; [reflexivity|].
  assert (Hk : mhas k sl = true) by (apply Hall; cbn; auto).
  apply mhas_true in Hk as [x Hx].
  cbn [inputs_of flat_map]. rewrite Hx. cbn [app length]. fold (inputs_of pk sl t).
  rewrite IH; [reflexivity|]. intros; apply Hall; cbn; auto.
Qed.

Definition Exact (w : wallet) : Prop := InvG w /\ sum_unspent w < W64.

Lemma Exact_InvD : forall dbg w, Exact w -> InvD dbg w.
Proof. intros dbg w [G B]; split; auto. Qed.

Lemma InvD_true_Exact : forall w, InvD true w -> Exact w.
Proof. intros w [G B]; split; auto. Qed.

Lemma Exact_balance : forall w, Exact w -> w_balance w = sum_unspent w.
Proof. intros w [G B]. rewrite (ig_bal w G). apply N.mod_small; auto. Qed.

Lemma existsb_false_all : forall A (f : A -> bool) l, existsb f l = false -> forall x, In x l -> f x = false.
Proof.
  induction l as [|y t IH]; cbn [existsb In]; intros H x Hx; [destruct Hx|].
  apply orb_false_iff in H as [H1 H2]. destruct Hx as [<-|Hx]; auto.
Qed.

Lemma firstn_all_le : forall A (l : list A) n, (length l <= n)%nat -> firstn n l = l.
Proof. intros. apply firstn_all2; auto. Qed.

Theorem built_tx_ok : forall dbg w order keys pays fee latest gp w' t,
  Exact w -> NoStale w -> enumerates order (w_unspent w) = true ->
  Known_C19 w order pays fee latest gp = false ->
  create dbg w order keys pays fee latest gp = Ok (w', Built t) ->
  NoDup (map slip_key (bt_from t)) /\
  sum_amt (bt_to t) <= sum_amt (bt_from t) /\
  (forall i, In i (bt_from t) -> 0 < s_amt i -> In (slip_key i) (w_unspent w)) /\
  ((length pays <= 254)%nat -> sum_amt (bt_from t) = sum_amt (bt_to t) + fee_eff w fee).
Proof.
  intros dbg w order keys pays fee latest gp w' t [G B] HNS Hen HK Hc.
  apply enumerates_spec in Hen as (ND & HI & _).
  unfold Known_C19 in HK. apply orb_false_iff in HK as [Ke Kc].
  unfold known_edge in Ke. apply N.ltb_ge in Ke.
  unfold known_cap in Kc. apply N.ltb_ge in Kc.
  assert (Hns : forall x, In x (selection w order pays fee latest gp) -> stale (w_pk w) (w_slips w) x = false)
    by (intros; apply HNS).
  unfold selection in *. unfold requested in *.
  unfold create in Hc. cbv zeta in Hc. fold (fee_eff w fee) in Hc.
  destruct (sum_checked 0 pays) as [total|] eqn:Esum; [|discriminate].
  apply sum_checked_some in Esum as [-> _]. rewrite N.add_0_l in Hc.
  destruct (negb (Nlen pays =? Nlen keys)) eqn:El; [discriminate|].
  apply negb_false_iff, N.eqb_eq in El. unfold Nlen in El.
  assert (Hlen : length pays = length keys) by lia.
  destruct (negb (sumN pays + fee_eff w fee <? W64)) eqn:Ew; [discriminate|].
  apply negb_false_iff, N.ltb_lt in Ew. pose proof Ew as Kw.
  set (req := sumN pays + fee_eff w fee) in *.
  destruct (w_balance w <? req) eqn:Eb; [discriminate|]. apply N.ltb_ge in Eb.
  pose proof (pays_sum keys pays Hlen) as Hps.
  set (payslips := map (fun kp => fresh_slip (fst kp) (snd kp) TY_NORMAL) (rev (combine keys pays))) in *.
  assert (Hplen : length payslips = length pays).
  { unfold payslips. rewrite map_length, rev_length, combine_length. lia. }
  destruct (req =? 0) eqn:E0.
  - apply N.eqb_eq in E0. cbn [bind] in Hc. inversion Hc; subst w' t. clear Hc.
    cbn [bt_from bt_to app]. unfold cap255.
    rewrite (firstn_all_le _ [fresh_slip (w_pk w) 0 TY_NORMAL]) by (cbn [length]; lia).
    assert (Hreq : req = sumN pays + fee_eff w fee) by reflexivity.
    assert (Hz : sum_amt payslips = 0) by lia.
    pose proof (sum_amt_firstn 255 payslips) as Hf.
    assert (Hz0 : sum_amt [fresh_slip (w_pk w) 0 TY_NORMAL] = 0) by reflexivity.
    splits.
    + constructor; [intros []|constructor].
    + lia.
    + intros i [<-|[]]. cbn [fresh_slip s_amt]. lia.
    + intros _. lia.
  - apply N.eqb_neq in E0.
    unfold generate_slips in Hc.
    destruct (skip_threshold dbg latest gp) as [thr| |s] eqn:Et; cbn [bind] in Hc; try discriminate.
    apply skip_threshold_ok in Et. subst thr.
    pose proof (sum_keys_incl (w_slips w) order (w_unspent w) ND (ig_nodup w G) HI) as Hle.
    fold (sum_unspent w) in Hle.
    assert (Hbal : w_balance w = sum_unspent w) by (apply Exact_balance; split; auto).
    assert (Hall : forall k, In k order -> mhas k (w_slips w) = true) by (intros; apply (ig_sub w G), HI; auto).
    destruct (gen_loop_exact dbg (w_pk w) (thr_of latest gp) req order (w_slips w) (w_slips w) (w_balance w) 0)
      as (g & Hg & G1 & G2 & G3 & G4); auto; try lia.
    { apply G. }
    rewrite Hg in Hc. cbn [bind] in Hc. inversion Hc; subst w' t. clear Hc.
    set (sel := select (thr_of latest gp) req order (w_slips w) 0) in *.
    assert (Hsel_incl : incl sel order) by apply select_incl.
    assert (Hsel_all : forall k, In k sel -> mhas k (w_slips w) = true) by (intros; apply Hall, Hsel_incl; auto).
    assert (Hsum_in : sum_amt (inputs_of (w_pk w) (w_slips w) sel) = sum_keys (w_slips w) sel)
      by (apply sum_amt_inputs_of; auto).
    assert (Henough : req <= sum_keys (w_slips w) sel).
    { pose proof (select_enough (thr_of latest gp) req order (w_slips w) 0 Hall) as HE.
      rewrite !N.add_0_l in HE. apply HE. exact Ke. }
    assert (Hne : g_inputs g <> []).
    { rewrite G2. intros Hnil. rewrite Hnil in Hsum_in. unfold sum_amt in Hsum_in. cbn in Hsum_in. lia. }
    cbn [bt_from bt_to]. rewrite N.add_0_l in G3.
    destruct (g_inputs g) as [|i0 rest] eqn:Egi; [congruence|]. cbv beta iota. rewrite G2.
    assert (Hlen_in : length (inputs_of (w_pk w) (w_slips w) sel) = length sel) by (apply length_inputs_of; auto).
    unfold cap255. rewrite (firstn_all_le _ (inputs_of (w_pk w) (w_slips w) sel)) by (unfold Nlen in Kc; lia).
    assert (Hkeys : map slip_key (inputs_of (w_pk w) (w_slips w) sel) = sel) by (apply keys_inputs_of; auto).
    set (change := if req <? g_in g then g_in g - req else 0).
    assert (Hchange : change = g_in g - req).
    { unfold change. destruct (req <? g_in g) eqn:E; [reflexivity|]. apply N.ltb_ge in E. lia. }
    cbn [app].
    pose proof (sum_amt_firstn 255 (fresh_slip (w_pk w) change TY_NORMAL :: payslips)) as Hf.
    assert (Hcons : sum_amt (fresh_slip (w_pk w) change TY_NORMAL :: payslips) = change + sum_amt payslips)
      by reflexivity.
    assert (Hreq : req = sumN pays + fee_eff w fee) by reflexivity.
    splits.
    + rewrite Hkeys. apply select_NoDup; auto.
    + rewrite Hsum_in. lia.
    + intros i Hi _. apply HI, Hsel_incl. rewrite <- Hkeys. apply in_map; auto.
    + intros H254. rewrite firstn_all_le by (cbn [length]; lia).
      rewrite Hsum_in. lia.
Qed.

(* reachable in the debug build => exact *)
Lemma run_debug_Exact : forall pk ops w,
  ops_u64 ops -> run true (init pk) ops = Ok w -> Exact w.
Proof.
  intros pk ops w Hu Hr. pose proof (run_safe true ops (init pk) (init_InvD true pk) Hu) as H.
  rewrite Hr in H. apply InvD_true_Exact; exact H.
Qed.

(* reachable in the release build with holdings below 2^64 => exact *)
Lemma run_release_Exact : forall pk ops w,
  ops_u64 ops -> run false (init pk) ops = Ok w -> sum_unspent w < W64 -> Exact w.
Proof.
  intros pk ops w Hu Hr Hb. pose proof (run_safe false ops (init pk) (init_InvD false pk) Hu) as H.
  rewrite Hr in H. destruct H as [G _]. split; auto.
Qed.


(* ------------------------------------------------------------------ *)
(** * More map facts *)

Section MapKeys.
  Context {V : Type}.
  Implicit Types m : list (key * V).

  Lemma mremove_keys_In : forall k k' m, In k' (map fst (mremove k m)) <-> In k' (map fst m) /\ k' <> k.
  Proof.
    induction m as [|[k0 v] t IH]; cbn [mremove map In fst]; [tauto|].
    destruct (key_eqb k k0) eqn:E.
    - apply key_eqb_eq in E; subst. rewrite IH. split; [intros [H1 H2]; auto|intros [[H1|H1] H2]; [congruence|auto]].
    - apply key_eqb_neq in E. cbn [map In fst]. rewrite IH. split.
      + intros [H|[H1 H2]]; [subst; split; auto|auto].
      + intros [[H|H] H2]; auto.
  Qed.

  Lemma mremove_keys_NoDup : forall k m, NoDup (map fst m) -> NoDup (map fst (mremove k m)).
  Proof.
    induction m as [|[k0 v] t IH]; cbn [mremove map fst]; intros H; [constructor|].
    inversion H; subst. destruct (key_eqb k k0); [auto|].
    cbn [map fst]. constructor; [rewrite mremove_keys_In; tauto|auto].
  Qed.

  Lemma mset_keys_NoDup : forall k v m, NoDup (map fst m) -> NoDup (map fst (mset k v m)).
  Proof.
    intros. unfold mset. cbn [map fst]. constructor; [rewrite mremove_keys_In; tauto|].
    apply mremove_keys_NoDup; auto.
  Qed.

  Lemma mget_keys : forall k m, (exists v, mget k m = Some v) <-> In k (map fst m).
  Proof.
    induction m as [|[k0 v0] t IH]; cbn [mget map In fst].
    - split; [intros [v H]; discriminate|tauto].
    - destruct (key_eqb k k0) eqn:E.
      + apply key_eqb_eq in E; subst. split; eauto.
      + apply key_eqb_neq in E. rewrite IH. split; [auto|intros [H|H]; [congruence|auto]].
  Qed.

  Lemma In_mget_nodup : forall k v m, NoDup (map fst m) -> (In (k, v) m <-> mget k m = Some v).
  Proof.
    induction m as [|[k0 v0] t IH]; cbn [mget map In fst]; intros ND.
    - split; [tauto|discriminate].
    - inversion ND; subst. destruct (key_eqb k k0) eqn:E.
      + apply key_eqb_eq in E; subst. split.
        * intros [H|H]; [inversion H; reflexivity|]. exfalso. apply H1.
          apply (in_map fst) in H. exact H.
        * intros H; inversion H; auto.
      + apply key_eqb_neq in E. rewrite <- IH by auto. split; [intros [H|H]; [inversion H; congruence|auto]|auto].
  Qed.

  Lemma mhas_false : forall k m, mhas k m = false <-> mget k m = None.
  Proof. intros; unfold mhas; destruct (mget k m); split; congruence. Qed.
End MapKeys.

(* ------------------------------------------------------------------ *)
(** * What building a transaction does to the rest of the wallet *)

Definition spent_rel (sl sl' : list (key * wslip)) : Prop :=
  (NoDup (map fst sl) -> NoDup (map fst sl')) /\
  forall k, mget k sl' = mget k sl \/ exists x, mget k sl = Some x /\ mget k sl' = Some (set_spent x).

Lemma spent_rel_refl : forall sl, spent_rel sl sl.
Proof. intros; split; auto. Qed.

Lemma spent_rel_trans : forall a b c, spent_rel a b -> spent_rel b c -> spent_rel a c.
Proof.
  intros a b c [N1 R1] [N2 R2]. split; [auto|]. intros k.
  destruct (R1 k) as [E1|(x & Hx & E1)], (R2 k) as [E2|(y & Hy & E2)].
  - left; congruence.
  - right. exists y. split; congruence.
  - right. exists x. split; congruence.
  - right. exists x. split; [auto|]. rewrite E1 in Hy. inversion Hy; subst. rewrite E2. reflexivity.
Qed.

Lemma gen_loop_frame : forall dbg pk thr req order sl bal nin g,
  gen_loop dbg pk thr req order sl bal nin = Ok g -> spent_rel sl (g_slips g).
Proof.
  induction order as [|k t IH]; intros sl bal nin g Hg; cbn [gen_loop] in Hg.
  - inversion Hg; subst. apply spent_rel_refl.
  - destruct (mget k sl) as [x|] eqn:Hx; [|discriminate].
    destruct (ws_bid x <=? thr); [eapply IH; eauto|].
    destruct (req <=? nin); [inversion Hg; subst; apply spent_rel_refl|].
    destruct (add64 dbg SITE_NOLAN_ADD nin (ws_amt x)); cbn [bind] in Hg; try discriminate.
    destruct (sub64 dbg SITE_BAL_SUB bal (ws_amt x)); cbn [bind] in Hg; try discriminate.
    destruct (gen_loop dbg pk thr req t (mset k (set_spent x) sl) v0 v) as [g'| |] eqn:E; cbn [bind] in Hg; try discriminate.
    inversion Hg; subst. cbn [g_slips].
    eapply spent_rel_trans; [|eapply IH; eauto].
    split; [apply mset_keys_NoDup|]. intros k'. destruct (key_eq_dec k' k) as [->|Hne].
    + right. exists x. rewrite mget_mset_same. auto.
    + left. apply mget_mset_other; auto.
Qed.

Lemma create_frame : forall dbg w order keys pays fee latest gp w' out,
  create dbg w order keys pays fee latest gp = Ok (w', out) ->
  w_pk w' = w_pk w /\ spent_rel (w_slips w) (w_slips w') /\ incl (w_unspent w') (w_unspent w).
Proof.
  intros dbg w order keys pays fee latest gp w' out. unfold create.
  assert (Hsame : w_pk w = w_pk w /\ spent_rel (w_slips w) (w_slips w) /\ incl (w_unspent w) (w_unspent w)).
  { splits; auto using spent_rel_refl. intros x Hx; exact Hx. }
  destruct (sum_checked 0 pays) as [total|]; [|intros H; inversion H; subst; exact Hsame].
  destruct (negb (Nlen pays =? Nlen keys)); [intros H; inversion H; subst; exact Hsame|].
  cbv zeta.
  destruct (negb (total + (if w_balance w <? fee then 0 else fee) <? W64)); [intros H; inversion H; subst; exact Hsame|].
  set (req := total + (if w_balance w <? fee then 0 else fee)).
  destruct (w_balance w <? req); [intros H; inversion H; subst; exact Hsame|].
  destruct (req =? 0).
  - cbn [bind]. intros H; inversion H; subst; exact Hsame.
  - unfold generate_slips.
    destruct (skip_threshold dbg latest gp); cbn [bind]; try discriminate.
    destruct (gen_loop dbg (w_pk w) v req order (w_slips w) (w_balance w) 0) as [g| |] eqn:Eg; cbn [bind]; try discriminate.
    intros H; inversion H; subst. cbn [w_pk w_slips w_unspent]. splits; auto.
    + eapply gen_loop_frame; eauto.
    + intros x Hx. apply remove_all_In in Hx. tauto.
Qed.


(* ------------------------------------------------------------------ *)
(** * No stored slip is stale (regression of 953d536: no hypothesis on unwound blocks) *)

Definition okp {A} (P : A -> Prop) (r : res A) : Prop := forall a, r = Ok a -> P a.

Lemma okp_bind {A B} (P : A -> Prop) (Q : B -> Prop) (r : res A) (f : A -> res B) :
  okp P r -> (forall a, P a -> okp Q (f a)) -> okp Q (bind r f).
Proof. unfold okp. destruct r; cbn [bind]; intros H1 H2 b Hb; try discriminate. eapply H2; eauto. Qed.

Lemma okp_ok {A} (P : A -> Prop) (a : A) : P a -> okp P (Ok a).
Proof. intros H b Hb. inversion Hb; subst; auto. Qed.

Lemma scan_okp_n : forall A (P : A -> Prop) (f : A -> slip -> res A) (n : nat) l acc,
  (length l <= n)%nat ->
  (forall a s, P a -> In s l -> okp P (f a s)) -> P acc -> okp P (scan f acc l).
Proof.
  induction n as [|n IH]; intros l acc Hlen Hf Hacc.
  - destruct l; [apply okp_ok; exact Hacc|cbn in Hlen; lia].
  - destruct l as [|a t]; [apply okp_ok; exact Hacc|]. cbn [length] in Hlen.
    assert (Hstep : okp P (do acc' <- f acc a; scan f acc' t)).
    { eapply okp_bind; [apply Hf; cbn; auto|].
      intros acc' Hacc'. apply IH; [lia| |exact Hacc'].
      intros a0 s0 Ha0 Hin. apply Hf; cbn; auto. }
    cbn [scan]. destruct t as [|b [|c t']]; try exact Hstep.
    destruct (is_bound a && is_bound c && negb (is_bound b)); [|exact Hstep].
    apply IH; [cbn [length] in *; lia| |exact Hacc].
    intros a0 s0 Ha0 Hin. apply Hf; cbn; auto.
Qed.

Lemma scan_okp : forall A (P : A -> Prop) (f : A -> slip -> res A) l acc,
  (forall a s, P a -> In s l -> okp P (f a s)) -> P acc -> okp P (scan f acc l).
Proof. intros; eapply scan_okp_n; eauto. Qed.

Lemma fold_res_okp : forall A B (P : A -> Prop) (f : A -> B -> res A) l acc,
  (forall a s, P a -> In s l -> okp P (f a s)) -> P acc -> okp P (fold_res f acc l).
Proof.
  induction l as [|x t IH]; intros acc Hf Hacc; cbn [fold_res]; [apply okp_ok; exact Hacc|].
  eapply okp_bind; [apply Hf; cbn; auto|].
  intros a Ha. apply IH; auto. intros; apply Hf; cbn; auto.
Qed.

Definition NS (pk : N) (w : wallet) : Prop :=
  w_pk w = pk /\ forall k x, mget k (w_slips w) = Some x -> fields_key pk x = k.

Lemma NS_NoStale : forall pk w, NS pk w -> NoStale w.
Proof.
  intros pk w [Hpk H] k. unfold stale. destruct (mget k (w_slips w)) as [x|] eqn:Hx; [|reflexivity].
  rewrite Hpk, (H k x Hx), key_eqb_refl. reflexivity.
Qed.

Lemma NS_frame : forall pk w sl un st bal pe,
  NS pk w -> (forall k x, mget k sl = Some x -> fields_key pk x = k) -> NS pk (mkW (w_pk w) sl un st bal pe).
Proof. intros pk w sl un st bal pe [Hpk _] H. split; auto. Qed.

Lemma add_slip_NS : forall dbg pk w bid txi s lc,
  NS pk w -> s_pk s = pk -> s_bid s = bid -> s_txo s = txi ->
  okp (NS pk) (add_slip dbg w bid txi s lc).
Proof.
  intros dbg pk w bid txi s lc HN Hp Hb Ht. unfold add_slip.
  destruct (mhas (slip_key s) (w_slips w)); [apply okp_ok; exact HN|].
  destruct (bid =? 0); [intros a Ha; discriminate|].
  set (x := mkWS (slip_key s) (s_amt s) bid txi lc (s_idx s) false (s_ty s)).
  assert (Hrec : forall k y, mget k (mset (slip_key s) x (w_slips w)) = Some y -> fields_key pk y = k).
  { intros k y. destruct (key_eq_dec k (slip_key s)) as [->|Hne].
    - rewrite mget_mset_same. intros Hy; inversion Hy; subst y.
      unfold fields_key, x, slip_key. cbn [ws_bid ws_txo ws_idx ws_amt ws_ty]. f_equal; congruence.
    - rewrite mget_mset_other by auto. apply HN. }
  destruct (s_ty s =? TY_BLOCKSTAKE); [apply okp_ok, NS_frame; auto|].
  destruct (s_ty s =? TY_BOUND); [apply okp_ok, NS_frame; auto|].
  destruct (add64 dbg SITE_BAL_ADD (w_balance w) (s_amt s)); cbn [bind]; try (intros a Ha; discriminate).
  apply okp_ok, NS_frame; auto.
Qed.

Lemma delete_key_NS : forall dbg pk w k, NS pk w -> okp (NS pk) (delete_key dbg w k).
Proof.
  intros dbg pk w k HN. unfold delete_key.
  destruct (mget k (w_slips w)) as [x|]; [|apply okp_ok; exact HN].
  assert (Hrec : forall k' y, mget k' (mremove k (w_slips w)) = Some y -> fields_key pk y = k').
  { intros k' y. destruct (key_eq_dec k' k) as [->|Hne].
    - rewrite mget_mremove_same. discriminate.
    - rewrite mget_mremove_other by auto. apply HN. }
  destruct (kmem k (w_unspent w)).
  - destruct (sub64 dbg SITE_BAL_SUB (w_balance w) (ws_amt x)); cbn [bind]; try (intros a Ha; discriminate).
    apply okp_ok, NS_frame; auto.
  - apply okp_ok, NS_frame; auto.
Qed.

Lemma delete_keys_NS : forall dbg pk ks w, NS pk w -> okp (NS pk) (delete_keys dbg w ks).
Proof.
  induction ks as [|k t IH]; intros w HN; cbn [delete_keys]; [apply okp_ok; exact HN|].
  eapply okp_bind; [apply delete_key_NS; exact HN|]. intros; apply IH; auto.
Qed.

Lemma delete_pending_NS : forall pk w t, NS pk w -> okp (NS pk) (delete_pending w t).
Proof.
  intros pk w t HN. unfold delete_pending. destruct (t_hash t); [|intros a Ha; discriminate].
  apply okp_ok, NS_frame; auto. apply HN.
Qed.

(* outputs of a wound block carry the block id and the transaction index *)
Definition outs_at (bid txi : N) (t : tx) : Prop :=
  forall o, In o (t_to t) -> s_bid o = bid /\ s_txo o = txi.

Fixpoint txs_at (bid txi : N) (l : list tx) : Prop :=
  match l with
  | [] => True
  | t :: r => outs_at bid txi t /\ txs_at bid (next_index txi t) r
  end.

Lemma wind_tx_NS : forall dbg pk gp bid txi w t,
  NS pk w -> outs_at bid txi t -> okp (NS pk) (wind_tx dbg gp bid w txi t).
Proof.
  intros dbg pk gp bid txi w t HN Hat. unfold wind_tx.
  eapply okp_bind.
  { apply scan_okp; [|exact HN]. intros a s Ha Hin.
    destruct (0 <? s_amt s); cbn [andb]; [|apply okp_ok; exact Ha].
    destruct (s_pk s =? w_pk a) eqn:Ep; [|apply okp_ok; exact Ha].
    apply N.eqb_eq in Ep. destruct (Hat s Hin). apply add_slip_NS; auto.
    destruct Ha as [Hpk _]. congruence. }
  intros w1 H1. eapply okp_bind.
  { apply scan_okp; [|exact H1]. intros a s Ha Hin.
    destruct (s_pk s =? w_pk a); [|apply okp_ok; exact Ha].
    eapply okp_bind; [|intros; apply delete_pending_NS; eauto].
    destruct (0 <? s_amt s); [apply delete_key_NS; auto|apply okp_ok; exact Ha]. }
  intros w2 H2. destruct (gp <? bid); [apply delete_keys_NS; auto|apply okp_ok; exact H2].
Qed.

(* no hypothesis on the block: the spent outputs return under their own coordinates *)
Lemma unwind_tx_NS : forall dbg pk bid txi w t,
  NS pk w -> okp (NS pk) (unwind_tx dbg bid w txi t).
Proof.
  intros dbg pk bid txi w t HN. unfold unwind_tx.
  eapply okp_bind.
  { apply scan_okp; [|exact HN]. intros a s Ha Hin.
    destruct ((0 <? s_amt s) && (s_pk s =? w_pk a)); [apply delete_key_NS; auto|apply okp_ok; exact Ha]. }
  intros w1 H1. apply scan_okp; [|exact H1]. intros a s Ha Hin.
  destruct (0 <? s_amt s); cbn [andb]; [|apply okp_ok; exact Ha].
  destruct (s_pk s =? w_pk a) eqn:Ep; cbn [andb]; [|apply okp_ok; exact Ha].
  destruct (0 <? s_bid s); [|apply okp_ok; exact Ha].
  apply N.eqb_eq in Ep. apply add_slip_NS; auto. destruct Ha as [Hpk _]. congruence.
Qed.

Lemma wind_loop_NS : forall dbg pk gp bid l w txi,
  NS pk w -> txs_at bid txi l -> okp (NS pk) (txs_loop (wind_tx dbg gp bid) w txi l).
Proof.
  induction l as [|t r IH]; intros w txi HN Hat; cbn [txs_loop]; [apply okp_ok; exact HN|].
  destruct Hat as [H1 H2]. eapply okp_bind; [apply wind_tx_NS; eauto|]. intros; apply IH; auto.
Qed.

Lemma unwind_loop_NS : forall dbg pk bid l w txi,
  NS pk w -> okp (NS pk) (txs_loop (unwind_tx dbg bid) w txi l).
Proof.
  induction l as [|t r IH]; intros w txi HN; cbn [txs_loop]; [apply okp_ok; exact HN|].
  eapply okp_bind; [apply unwind_tx_NS; eauto|]. intros; apply IH; auto.
Qed.

Lemma delete_block_NS : forall dbg pk w b, NS pk w -> okp (NS pk) (delete_block dbg w b).
Proof.
  intros dbg pk w b HN. unfold delete_block.
  apply fold_res_okp; [|exact HN]. intros a t Ha _.
  eapply okp_bind.
  { apply fold_res_okp; [|exact Ha]. intros; apply delete_key_NS; auto. }
  intros w1 H1. apply fold_res_okp; [|exact H1].
  intros a0 s Ha0 _. destruct (0 <? s_amt s); [apply delete_key_NS; auto|apply okp_ok; exact Ha0].
Qed.

Lemma create_NS : forall dbg pk w order keys pays fee latest gp,
  NS pk w -> okp (fun r => NS pk (fst r)) (create dbg w order keys pays fee latest gp).
Proof.
  intros dbg pk w order keys pays fee latest gp [Hpk HN] [w' out] Hc. cbn [fst].
  apply create_frame in Hc as (Hpk' & [_ Hrel] & _). split; [congruence|].
  intros k y Hy. destruct (Hrel k) as [E|(x & Hx & E)].
  - rewrite E in Hy. auto.
  - rewrite E in Hy. inversion Hy; subst. apply (HN k x Hx).
Qed.

Lemma create_staking_NS : forall dbg pk w so uo amount unlocked lastvalid,
  NS pk w -> okp (fun r => NS pk (fst r)) (create_staking dbg w so uo amount unlocked lastvalid).
Proof.
  intros dbg pk w so uo amount unlocked lastvalid HN [w' out]. unfold create_staking.
  destruct (stake_loop1 dbg (w_slips w) amount unlocked lastvalid so 0) as [[collected sel1]| |]; cbn [bind]; try discriminate.
  destruct (collected <? amount).
  - destruct (stake_loop2 dbg (w_slips w) (amount - collected) lastvalid (sort_by amount_desc uo) 0) as [[c2 sel2]| |];
      cbn [bind]; try discriminate.
    destruct (c2 <? amount - collected); [intros H; inversion H; subst; exact HN|].
    destruct (add64 dbg SITE_NOLAN_ADD collected c2); cbn [bind]; try discriminate.
    destruct (sub64 dbg SITE_BAL_SUB (w_balance w) c2); cbn [bind]; try discriminate.
    intros H; inversion H; subst. cbn [fst]. apply NS_frame; auto. apply HN.
  - intros H; inversion H; subst. cbn [fst]. apply NS_frame; auto. apply HN.
Qed.

Lemma snap_insert_NS : forall dbg pk w s,
  NS pk w -> s_key s = slip_key s -> s_pk s = pk -> okp (NS pk) (snap_insert dbg w s).
Proof.
  intros dbg pk w s HN Hk Hp. unfold snap_insert.
  destruct (key_eqb (s_key s) zero_key); [intros a Ha; discriminate|].
  set (x := mkWS (s_key s) (s_amt s) (s_bid s) (s_txo s) true (s_idx s) false (s_ty s)).
  assert (Hrec : forall k y, mget k (mset (s_key s) x (w_slips w)) = Some y -> fields_key pk y = k).
  { intros k y. destruct (key_eq_dec k (s_key s)) as [->|Hne].
    - rewrite mget_mset_same. intros Hy; inversion Hy; subst y.
      rewrite Hk. unfold fields_key, x, slip_key. cbn [ws_bid ws_txo ws_idx ws_amt ws_ty]. f_equal; congruence.
    - rewrite mget_mset_other by auto. apply HN. }
  destruct (mhas (s_key s) (w_slips w)); [apply okp_ok, NS_frame; auto|].
  destruct (s_ty s =? TY_BLOCKSTAKE); [apply okp_ok, NS_frame; auto|].
  destruct (s_ty s =? TY_BOUND); [apply okp_ok, NS_frame; auto|].
  destruct (add64 dbg SITE_BAL_ADD (w_balance w) (s_amt s)); cbn [bind]; try (intros a Ha; discriminate).
  apply okp_ok, NS_frame; auto.
Qed.

(* what a caller of the public mutators has to respect; nothing for OUnwind *)
Definition op_ns (pk : N) (o : op) : Prop :=
  match o with
  | OAddSlip bid txi s _ => s_pk s = pk /\ s_bid s = bid /\ s_txo s = txi
  | OWind b _ => txs_at (b_id b) 0 (b_txs b)
  | OSnapshot l => forall s, In s l -> s_key s = slip_key s /\ s_pk s = pk
  | _ => True
  end.

Lemma step_NS : forall dbg pk w o, NS pk w -> op_ns pk o -> okp (fun r => NS pk (fst r)) (step dbg w o).
Proof.
  intros dbg pk w o HN Ho. destruct o; cbn [step op_ns] in *.
  - destruct Ho as (A & B & C). eapply okp_bind; [apply add_slip_NS; eauto|]. intros a Ha; apply okp_ok; exact Ha.
  - eapply okp_bind; [apply delete_key_NS; eauto|]. intros a Ha; apply okp_ok; exact Ha.
  - eapply okp_bind; [apply wind_loop_NS; eauto|]. intros a Ha; apply okp_ok; exact Ha.
  - eapply okp_bind; [apply unwind_loop_NS; eauto|]. intros a Ha; apply okp_ok; exact Ha.
  - eapply okp_bind; [apply delete_keys_NS; eauto|]. intros a Ha; apply okp_ok; exact Ha.
  - eapply okp_bind; [apply delete_block_NS; eauto|]. intros a Ha; apply okp_ok; exact Ha.
  - destruct (enumerates order (w_unspent w)); [|intros a Ha; discriminate].
    eapply okp_bind; [apply create_NS; eauto|]. intros a Ha; apply okp_ok; exact Ha.
  - destruct (enumerates sorder (w_staking w) && enumerates uorder (w_unspent w)); [|intros a Ha; discriminate].
    eapply okp_bind; [apply create_staking_NS; eauto|]. intros a Ha; apply okp_ok; exact Ha.
  - unfold add_to_pending. destruct first_from_pk; [|intros a Ha; discriminate].
    destruct h; [|intros a Ha; discriminate].
    destruct (negb (n =? w_pk w) || is_gt); cbn [bind]; [intros a Ha; discriminate|].
    apply okp_ok. cbn [fst]. apply NS_frame; auto. apply HN.
  - eapply okp_bind; [|intros a Ha; apply okp_ok; exact Ha].
    unfold update_from_snapshot. apply fold_res_okp.
    + intros a s Ha Hin. destruct (Ho s Hin). apply snap_insert_NS; auto.
    + split; [apply HN|]. intros k x Hx; discriminate.
  - apply okp_ok. cbn [fst reset]. split; [apply HN|]. intros k x Hx; discriminate.
Qed.

Theorem no_stale_reachable : forall dbg pk ops w,
  (forall o, In o ops -> op_ns pk o) -> run dbg (init pk) ops = Ok w -> NoStale w.
Proof.
  intros dbg pk ops w Hops Hr. apply (NS_NoStale pk).
  assert (HN : NS pk (init pk)) by (split; [reflexivity|intros k x Hx; discriminate]).
  revert Hops Hr HN. generalize (init pk). induction ops as [|o t IH]; intros w0 Hops Hr HN; cbn [run] in Hr.
  - inversion Hr; subst. exact HN.
  - destruct (step dbg w0 o) as [[w1 out]| |] eqn:E; cbn [bind] in Hr; try discriminate.
    apply (IH w1); [intros; apply Hops; cbn; auto|exact Hr|].
    apply (step_NS dbg pk w0 o HN (Hops o (or_introl eq_refl)) (w1, out) E).
Qed.

(* ------------------------------------------------------------------ *)
(** * Witnesses: the four ways the pinned code builds a bad transaction *)

(* an output as Block::generate leaves it *)
Definition out_slip (pk amt bid txo idx ty : N) : slip :=
  mkSlip pk amt idx bid txo ty (mkK pk bid txo idx amt ty).

(* block [bid] with one transaction paying [amt] to [pk] *)
Definition pay_block (bid pk amt : N) : block :=
  mkB bid [mkTx [] [out_slip pk amt bid 0 0 TY_NORMAL] None (Some bid)].

Definition wit_edge_ops : list op := [OWind (pay_block 1 1 1000) 5; OWind (pay_block 5 1 100) 5].

Lemma refuted_edge :
  exists ops w order keys pays fee latest gp w' t,
    run true (init 1) ops = Ok w /\ enumerates order (w_unspent w) = true /\
    create true w order keys pays fee latest gp = Ok (w', Built t) /\
    sum_amt (bt_from t) < sum_amt (bt_to t).
Proof.
  exists wit_edge_ops. eexists.
  exists [mkK 1 5 0 0 100 0; mkK 1 1 0 0 1000 0], [2], [500], 0, 5, 5. do 2 eexists.
  split; [vm_compute; reflexivity|]. split; [vm_compute; reflexivity|].
  split; [vm_compute; reflexivity|]. vm_compute. reflexivity.
Qed.

(* regression (2da67eb): payments + fee beyond u64 used to wrap in release builds (a
   transaction paying out ~2^64 from one input) and to panic in debug builds; the
   request is now refused in both, and the wallet is untouched *)
Lemma regress_wrap : forall dbg,
  exists w, run dbg (init 1) [OWind (pay_block 1 1 1000) 5] = Ok w /\
    create dbg w [mkK 1 1 0 0 1000 0] [2] [18446744073709551615] 2 1 5 = Ok (w, ErrInvalidInput) /\
    create dbg w [mkK 1 1 0 0 1000 0] [2; 3] [18446744073709551615; 1] 0 1 5 = Ok (w, ErrInvalidInput).
Proof. intros [|]; eexists; (split; [vm_compute; reflexivity|split; vm_compute; reflexivity]). Qed.

Fixpoint upto (n : nat) : list N :=
  match n with O => [] | S m => upto m ++ [N.of_nat m] end.

(* one block, two transactions with 150 outputs of 1 each *)
Definition wit_cap_block : block :=
  mkB 1 [mkTx [] (map (fun i => out_slip 1 1 1 0 i TY_NORMAL) (upto 150)) None (Some 1);
         mkTx [] (map (fun i => out_slip 1 1 1 1 i TY_NORMAL) (upto 150)) None (Some 2)].

Definition wit_cap_order : list key :=
  map (fun i => mkK 1 1 0 i 1 0) (upto 150) ++ map (fun i => mkK 1 1 1 i 1 0) (upto 150).

Lemma refuted_cap :
  exists ops w order keys pays fee latest gp w' t,
    run true (init 1) ops = Ok w /\ enumerates order (w_unspent w) = true /\
    create true w order keys pays fee latest gp = Ok (w', Built t) /\
    sum_amt (bt_from t) < sum_amt (bt_to t).
Proof.
  exists [OWind wit_cap_block 100]. eexists.
  exists wit_cap_order, [2], [300], 0, 1, 100. do 2 eexists.
  split; [vm_compute; reflexivity|]. split; [vm_compute; reflexivity|].
  split; [vm_compute; reflexivity|]. vm_compute. reflexivity.
Qed.

(* block 3 spends the output of block 1; it is wound and then unwound *)
Definition wit_spend_block : block :=
  mkB 3 [mkTx [out_slip 1 1000 1 0 0 TY_NORMAL] [out_slip 2 1000 3 0 0 TY_NORMAL] None (Some 3)].

Definition wit_stale_ops : list op :=
  [OWind (pay_block 1 1 1000) 5; OWind wit_spend_block 5; OUnwind wit_spend_block 5].

(* regression (953d536): unwinding used to re-add the spent output under the spending
   block's id and transaction index; the transaction built afterwards now references
   the output the wallet lists (and that exists) *)
Lemma regress_stale :
  exists w w' t, run true (init 1) wit_stale_ops = Ok w /\ NoStale w /\
    create true w [mkK 1 1 0 0 1000 0] [2] [400] 0 2 5 = Ok (w', Built t) /\
    map slip_key (bt_from t) = [mkK 1 1 0 0 1000 0] /\ w_unspent w = [mkK 1 1 0 0 1000 0] /\
    sum_amt (bt_from t) = 1000 /\ sum_amt (bt_to t) = 1000.
Proof.
  do 3 eexists. split; [vm_compute; reflexivity|]. split.
  { intros k. unfold stale. cbn [w_slips w_pk].
    destruct (key_eq_dec k (mkK 1 1 0 0 1000 0)) as [->|Hne]; [vm_compute; reflexivity|].
    cbn [mget]. apply key_eqb_neq in Hne. rewrite Hne. reflexivity. }
  repeat split; vm_compute; reflexivity.
Qed.

(* regression (bc2e87e): a balance snapshot used to keep staking_slips and to file the
   staked slip as unspent as well, so that the next staking transaction referenced it
   twice; now it is in the staking set only and selected once *)
Definition wit_stake_slip : slip := out_slip 1 645 4 2 1 TY_BLOCKSTAKE.
Definition wit_snapshot_ops : list op := [OAddSlip 4 2 wit_stake_slip true; OSnapshot [wit_stake_slip]].

Lemma regress_snapshot_staking :
  exists w w' t, ops_u64 wit_snapshot_ops /\ run true (init 1) wit_snapshot_ops = Ok w /\
    w_staking w = [mkK 1 4 2 1 645 8] /\ w_unspent w = [] /\ w_balance w = 0 /\
    create_staking true w [mkK 1 4 2 1 645 8] [] 600 10 0 = Ok (w', Some t) /\
    map s_key (bt_from t) = [mkK 1 4 2 1 645 8].
Proof.
  do 3 eexists. split.
  { intros o [<-|[<-|[]]]; cbn [op_u64].
    - vm_compute. reflexivity.
    - intros s [<-|[]]. split; vm_compute; reflexivity. }
  repeat split; vm_compute; reflexivity.
Qed.

(* the witnesses are inside the respective class *)
Lemma wit_edge_known : exists w, run true (init 1) wit_edge_ops = Ok w /\
  known_edge w [mkK 1 5 0 0 100 0; mkK 1 1 0 0 1000 0] [500] 0 5 5 = true.
Proof. eexists. split; vm_compute; reflexivity. Qed.

(* ---- examples for non-vacuity ---- *)
Definition ex_ops : list op :=
  [OWind (pay_block 7 1 1000) 5; OWind (pay_block 8 1 100) 5; OWind (pay_block 9 2 5) 5].
Definition ex_order : list key := [mkK 1 8 0 0 100 0; mkK 1 7 0 0 1000 0].
