(* C01 — Only authorised, existing, unspent outputs are ever spent.
   Statements only; proofs in proofs/TxValidProofs.v.  The model
   (model/TxValid.v) is Transaction::validate (all transaction types, including
   the BlockStake branch and the Bound / NFT branch) + the pool's validity gate +
   the final sweep of Block::validate, as they stand at /repo HEAD.
   [sl_spendable] is "the ledger holds this output as spendable" (C03 ties the
   ledger to the replay of the longest chain), [t_sig_ok] is the real signature
   check against from[0]'s key, [sl_unlocked] the real Blockchain::is_slip_unlocked.

   The property at full strength,

     forall e t, user_type t -> tx_validate e t = Valid -> SpendOK e t          (FULL)

   is FALSE for the code as it is: Bound-typed transactions are exempt from the
   ownership check (C01_user_tx_spendok_refuted and the three witnesses below,
   each reproduced on the real pool and inside an attacker block by harness c01).
   It is proved for every user transaction outside the class Known_bound_foreign,
   and for Bound transactions everything validation does establish is stated. *)
From Saito Require Import Base TxValid TxValidProofs.

(* ------------------------------------------------------------------ positive *)

(* every value-carrying input of an accepted user transaction that is not
   Bound-typed -- Normal, GoldenTicket, Vip and, since the staking branch falls
   through to the common checks, BlockStake -- is spendable in the ledger,
   is still inside the retention window (block_id + genesis_period >= latest + 1,
   [so_window]: enforced by Transaction::validate itself since /repo bb88717),
   belongs to the key whose signature authorises the transaction, is referenced
   once, and the transaction does not pay out more than it consumes (sums in
   unbounded N; inputs are real ledger amounts, far below 2^64) *)
Theorem C01_valid_user_tx_spendok : forall e t,
  coin_type t -> tx_validate e t = Valid -> SpendOK e t.
Proof. exact valid_user_spendok. Qed.

(* (FULL) outside the listed class *)
Theorem C01_valid_tx_spendok_guarded : forall e t,
  user_type t -> ~ Known_bound_foreign t -> tx_validate e t = Valid -> SpendOK e t.
Proof. exact valid_user_spendok_guarded. Qed.

(* ... and inside it everything but ownership still holds *)
Theorem C01_valid_tx_spendok_but_owner : forall e t,
  user_type t -> tx_validate e t = Valid -> SpendOK_but_owner e t.
Proof. exact valid_user_but_owner. Qed.

(* BlockStake transactions: SpendOK, and the staking rules: only BlockStake / Normal
   outputs, the staked total reaches the requirement (in unbounded arithmetic, also
   when the u64 sum wraps in a release build), every input is unlocked
   (is_slip_unlocked), its key is set and encodes its amount, no input (zero-amount
   ones included) is named twice *)
Theorem C01_stake_tx_ok : forall e t,
  t_type t = TStake -> tx_validate e t = Valid -> SpendOK e t /\ StakeOK e t.
Proof. exact valid_stake. Qed.

(* a new NFT: full SpendOK (its single input is a Normal output of the signer), the
   NFT id written into the third output names exactly the consumed output, and the
   outputs after the three NFT slips are Normal slips (/repo 5a3c1b6) *)
Theorem C01_bound_create_ok : forall e t,
  t_type t = TBound -> is_new_nft t = true -> tx_validate e t = Valid ->
  SpendOK e t /\ CreateOK t.
Proof. exact valid_bound_create. Qed.

(* a transfer of an NFT: inputs spendable, distinct, no inflation counting Bound slips
   as 0, signed by the key in the FIRST BOUND SLIP (not by the holder of the Normal
   slip); the Normal slip moved with the NFT is the output created right after the
   Bound slip in the same transaction (same block_id, tx_ordinal, next slip_index):
   it cannot be detached or replaced; both Bound slips are re-created with the same
   key field and amount.  Nothing is established about the owner of the Normal slip
   or of the further Normal inputs. *)
Theorem C01_bound_send_guarantees : forall e t,
  t_type t = TBound -> is_new_nft t = false -> tx_validate e t = Valid ->
  SpendOK_but_owner e t /\ SendOK e t.
Proof. exact valid_bound_send. Qed.

(* the pool applies the same gate and admits no producer-only transaction type (nor, since
   /repo 9879695, a staking transaction spending outputs of another key than the node's) *)
Theorem C01_pool_gate : forall e t, pool_gate e t = true ->
  t_type t <> TFee /\ t_type t <> TATR /\ t_type t <> TSPV /\ tx_validate e t = Valid.
Proof. exact pool_gate_types. Qed.

Corollary C01_pool_user_tx_spendok : forall e t,
  coin_type t -> pool_gate e t = true -> SpendOK e t.
Proof. intros e t Hu Hp. apply (valid_user_spendok e); [exact Hu|]. now destruct (pool_gate_types e t Hp) as (_ & _ & _ & H). Qed.

(* block validation: every transaction of an accepted block validates ... *)
Theorem C01_block_sweep_valid : forall e txs t,
  sweep e [] txs = true -> In t txs -> tx_validate e t = Valid.
Proof. intros e. exact (sweep_all_valid e []). Qed.

(* ... and no value input (non-zero, non-Bound) is spent twice inside the block *)
Theorem C01_block_no_double_spend : forall e txs,
  sweep e [] txs = true -> NoDup (block_keys txs).
Proof. exact sweep_no_double_spend. Qed.

(* where social staking is required, an accepted block after the first carries exactly one
   BlockStake transaction, and it satisfies SpendOK and the staking rules *)
Theorem C01_block_stake_tx : forall e id txs,
  block_txs_ok e id txs = true -> e_stake_req e <> 0 -> 1 < id ->
  (e_ovf e = true \/ stake_count txs < 256) ->
  stake_count txs = 1 /\
  forall t, In t txs -> t_type t = TStake -> SpendOK e t /\ StakeOK e t.
Proof. exact block_stake_tx. Qed.

(* the retention-window clause at full strength, for EVERY accepted user transaction (Bound-typed
   ones included): each input that carries an amount and is not a Bound slip was created by a
   block b with b + genesis_period >= latest + 1, i.e. it has not yet reached the block that
   rebroadcasts or collects it.  What remains for Bound slips: they are exempt from this test
   (as from the duplicate tests); of a Bound input with an amount validation only establishes
   that the ledger holds it ([sb_spendable]) -- the ledger drops an NFT triple when the
   rebroadcast re-issues it, which is property C13's matter -- and of a zero-amount Bound slip
   nothing at all. *)
Theorem C01_inputs_inside_window : forall e t,
  user_type t -> tx_validate e t = Valid ->
  forall s, In s (t_from t) -> 0 < sl_amount s -> sl_type s <> SBound ->
  e_latest e + 1 <= sl_bid s + e_gp e.
Proof.
  intros e t Hu H s Hin Ha Hb. destruct (valid_user_but_owner e t Hu H) as [_ _ _ Hw _ _].
  apply (Hw s Hin). unfold value_input. apply andb_true_iff. split.
  - now apply N.ltb_lt.
  - apply negb_true_iff. now apply N.eqb_neq.
Qed.

(* the edge: tip 9, genesis period 4; an output of block 6 can be spent in block 10, one of
   block 5 (still in the ledger: block 10 is the one that rebroadcasts it) cannot *)
Example C01_window_edge :
  let e := mkEnv 0 true 9 4 1 in
  let tx b := mkTx TNormal [nslip 5 700 11 b 0 0] [oslip 5 700 SNormal] true true true in
  tx_validate e (tx 6) = Valid /\ tx_validate e (tx 5) = Invalid /\ tx_validate e (tx 1) = Invalid
  /\ tx_validate e (mkTx TBound [bslip 5 1 21 true 2 3 0; nslip 5 300 22 2 3 1; bslip 77 0 0 false 2 3 2]
                     [oslip 5 1 SBound; oslip 5 300 SNormal; oslip 77 0 SBound] true true true) = Invalid
  (* a peer-chosen block_id near 2^64: the sum saturates (/repo 8712765); the ledger look-up refuses it *)
  /\ tx_validate e (mkTx TNormal [mkSlip 5 700 SNormal 11 false 18446744073709551615 0 0 false 700 0 0 0]
                     [oslip 5 700 SNormal] true true true) = Invalid.
Proof. repeat split; vm_compute; reflexivity. Qed.

(* ------------------------------------------------------------------ refuted *)

(* the witnesses W_foreign, W_reclaim, W_fabricated and the predicate [steals] are defined at the
   end of proofs/TxValidProofs.v, with the listed finding each of them reproduces *)
Example C01_bound_foreign_input_refuted : steals W_foreign.
Proof. repeat split; try (vm_compute; reflexivity).
  exists (nslip 6 2000 23 1 8 0). repeat split; try (vm_compute; reflexivity).
  - cbn. tauto.
  - vm_compute. discriminate. Qed.
Example C01_bound_creator_reclaims_refuted : steals W_reclaim.
Proof. repeat split; try (vm_compute; reflexivity).
  exists (nslip 6 400 22 2 3 1). repeat split; try (vm_compute; reflexivity).
  - cbn. tauto.
  - vm_compute. discriminate. Qed.
Example C01_bound_fabricated_triple_refuted : steals W_fabricated.
Proof. repeat split; try (vm_compute; reflexivity).
  exists (nslip 6 2850 32 2 7 1). repeat split; try (vm_compute; reflexivity).
  - cbn. tauto.
  - vm_compute. discriminate. Qed.

(* hence (FULL) fails *)
Theorem C01_user_tx_spendok_refuted : exists e t,
  user_type t /\ tx_validate e t = Valid /\ ~ SpendOK e t.
Proof.
  exists env0, W_foreign. split; [|split].
  - repeat split; vm_compute; discriminate.
  - vm_compute. reflexivity.
  - intros [_ _ _ Hown _ _ _].
    specialize (Hown (nslip 6 2000 23 1 8 0) ltac:(cbn; tauto) ltac:(vm_compute; reflexivity)).
    vm_compute in Hown. discriminate.
Qed.
(* the witnesses are in the listed class *)
Example C01_witnesses_known :
  Known_bound_foreign W_foreign /\ Known_bound_foreign W_reclaim /\ Known_bound_foreign W_fabricated.
Proof. repeat split; vm_compute; reflexivity. Qed.

(* listed finding bound-double-spend-in-block: the duplicate tests (in the transaction
   and in the sweep) skip Bound slips, so an NFT without deposit can be transferred
   twice in one block -- the same unspent Bound output (amount 1) consumed by two
   accepted transactions, each re-creating the NFT for a different holder *)
Example C01_bound_double_spend_refuted : exists t1 t2 s,
  sweep env0 [] [t1; t2] = true /\ In s (t_from t1) /\ In s (t_from t2)
  /\ 0 < sl_amount s /\ sl_spendable s = true /\ t_to t1 <> t_to t2.
Proof.
  set (f := [bslip 5 1 21 true 2 3 0; mkSlip 5 0 SNormal 22 false 2 3 1 false 0 0 0 0; bslip 77 0 0 false 2 3 2]).
  exists (mkTx TBound f [oslip 5 1 SBound; oslip 5 0 SNormal; oslip 77 0 SBound] true true true),
         (mkTx TBound f [oslip 5 1 SBound; oslip 6 0 SNormal; oslip 77 0 SBound] true true true),
         (bslip 5 1 21 true 2 3 0).
  repeat split; try (vm_compute; reflexivity); try (cbn; tauto). vm_compute. discriminate.
Qed.

(* listed finding replayed-signature-other-output (input-location-unsigned under C06):
   the signed bytes contain public key, amount, slip_index and type of every input but
   not block_id / tx_ordinal, so [t_sig_ok] cannot depend on which output is spent.
   Whatever a key signed once validates again with its inputs replaced by other
   spendable outputs of that key of the same amount, slip index and type. *)
Theorem C01_signature_does_not_bind_inputs : forall e t t',
  t_type t <> TStake -> t_type t <> TBound ->
  signed_content t' = signed_content t ->
  t_sig_ok t' = t_sig_ok t -> t_has_hash t' = t_has_hash t -> t_path_ok t' = t_path_ok t ->
  nodupb (value_keys t') = true ->
  forallb slip_validate (t_from t') = true ->
  age_check (e_gp e) (e_next e) (t_from t') = true ->
  tx_validate e t = Valid -> tx_validate e t' = Valid.
Proof. exact signature_does_not_bind_inputs. Qed.

Example C01_replay_refuted : exists t t',
  signed_content t' = signed_content t /\ t_sig_ok t' = t_sig_ok t
  /\ tx_validate env0 t = Valid /\ tx_validate env0 t' = Valid
  /\ value_keys t = [41] /\ value_keys t' = [42]
  /\ SpendOK env0 t'.
Proof.
  exists (mkTx TNormal [nslip 6 3000 41 1 12 0] [oslip 5 150 SNormal; oslip 6 2850 SNormal] true true true),
         (mkTx TNormal [nslip 6 3000 42 1 13 0] [oslip 5 150 SNormal; oslip 6 2850 SNormal] true true true).
  repeat (split; [vm_compute; reflexivity|]).
  apply (valid_user_spendok env0); [repeat split; vm_compute; discriminate|vm_compute; reflexivity].
Qed.

(* listed finding signed-bytes-not-delimited: key 6 signs from=[a] to=[change 2000 to itself (index 0),
   150 to key 5 (index 1)]; the same signed bytes read as from=[a; b'] to=[150 to key 5 (still index 1)]
   with b' another unspent 2000 of key 6 at slip index 0: valid, all inputs owned by the signer
   (SpendOK holds formally), and 4000 instead of nothing go to the producer as fee *)
Example C01_resplit_refuted : exists t t',
  signed_flat t' = signed_flat t /\ t_sig_ok t' = t_sig_ok t
  /\ tx_validate env0 t = Valid /\ tx_validate env0 t' = Valid /\ pool_gate env0 t' = true
  /\ value_keys t = [41] /\ value_keys t' = [41; 42]
  /\ total_fees t = 0 /\ total_fees t' = 4000.
Proof.
  exists (mkTx TNormal [nslip 6 2150 41 1 12 0]
            [mkSlip 6 2000 SNormal 0 false 0 0 0 false 2000 0 0 0; mkSlip 5 150 SNormal 0 false 0 0 1 false 150 0 0 0] true true true),
         (mkTx TNormal [nslip 6 2150 41 1 12 0; nslip 6 2000 42 1 13 0]
            [mkSlip 5 150 SNormal 0 false 0 0 1 false 150 0 0 0] true true true).
  repeat split; vm_compute; reflexivity.
Qed.

(* listed finding (type-issuance-pool): an issuance-type transaction without inputs,
   minting to anyone, passes the pool's gate on a running chain *)
Example C01_issuance_pool_refuted : exists t,
  t_type t = TIssuance /\ t_from t = [] /\ pool_gate env0 t = true /\ 0 < nsum (map counted (t_to t)).
Proof.
  exists (mkTx TIssuance [] [oslip 7 123456 SNormal] false true true).
  repeat split; vm_compute; reflexivity.
Qed.

(* ------------------------------------------------------------------ non-vacuity *)

(* a two-input transfer of one owner *)
Example C01_example :
  let t := mkTx TNormal [nslip 5 700 11 1 0 0; nslip 5 300 12 1 1 0]
                        [oslip 6 900 SNormal; oslip 5 100 SNormal] true true true in
  coin_type t /\ tx_validate env0 t = Valid /\ sweep env0 [] [t] = true.
Proof. repeat split; try (vm_compute; congruence); vm_compute; reflexivity. Qed.

(* the ownership rule covers every slip type except Bound: a second input of another key that is
   an ATR (1), MinerOutput (5), RouterOutput (7) or BlockStake (8) slip is refused like a Normal one,
   also when the signer is named by a zero-amount first input *)
Example C01_foreign_typed_input_rejected :
  forallb (fun ty =>
    match tx_validate env0 (mkTx TNormal [nslip 5 700 11 1 0 0; mkSlip 6 300 ty 12 true 3 1 0 true 300 0 0 0]
                                  [oslip 5 1000 SNormal] true true true),
          tx_validate env0 (mkTx TNormal [nslip 5 0 0 0 0 0; mkSlip 6 300 ty 12 true 3 1 0 true 300 0 0 0]
                                  [oslip 5 300 SNormal] true true true),
          tx_validate env0 (mkTx TNormal [nslip 5 700 11 1 0 0; mkSlip 5 300 ty 12 true 3 1 0 true 300 0 0 0]
                                  [oslip 5 1000 SNormal] true true true)
    with Invalid, Invalid, Valid => true | _, _, _ => false end) [0; 1; 2; 3; 4; 5; 6; 7; 8] = true.
Proof. vm_compute. reflexivity. Qed.

(* a staking transaction under a requirement of 600: a Normal and an unlocked BlockStake input *)
Example C01_stake_example :
  let t := mkTx TStake [nslip 5 700 11 1 0 0; mkSlip 5 300 SStake 12 true 3 1 0 true 300 0 0 0]
                       [oslip 5 600 SStake; oslip 5 400 SNormal] true true true in
  tx_validate (mkEnv 600 true 3 100 1) t = Valid /\ tx_validate (mkEnv 601 true 3 100 1) t = Invalid.
Proof. split; vm_compute; reflexivity. Qed.
(* ... rejected when an input is locked, when the signer does not own an input, unsigned *)
Example C01_stake_rejections :
  let outs := [oslip 5 600 SStake; oslip 5 400 SNormal] in
  tx_validate (mkEnv 600 true 3 100 1)
    (mkTx TStake [nslip 5 700 11 1 0 0; mkSlip 5 300 SStake 12 true 3 1 0 false 300 0 0 0] outs true true true) = Invalid
  /\ tx_validate (mkEnv 600 true 3 100 1) (mkTx TStake [nslip 5 700 11 1 0 0; nslip 6 300 12 1 1 0] outs true true true) = Invalid
  /\ tx_validate (mkEnv 600 true 3 100 1) (mkTx TStake [nslip 5 700 11 1 0 0; nslip 5 300 12 1 1 0] outs false true true) = Invalid
  /\ tx_validate (mkEnv 0 true 3 100 1) (mkTx TStake [] [oslip 5 600 SStake] true true true) = Invalid.
Proof. repeat split; vm_compute; reflexivity. Qed.

(* a new NFT minted from output (1, 4, 0), and its transfer by the creator *)
Example C01_bound_examples :
  let c := mkTx TBound [nslip 5 1000 11 1 4 0]
             [oslip 5 1 SBound; oslip 6 400 SNormal; uslip 77 1 4 0; oslip 5 600 SNormal] true true true in
  let s := mkTx TBound [bslip 5 1 21 true 2 3 0; nslip 5 400 22 2 3 1; bslip 77 0 0 false 2 3 2]
             [oslip 5 1 SBound; oslip 6 400 SNormal; oslip 77 0 SBound] true true true in
  tx_validate env0 c = Valid /\ is_new_nft c = true /\
  tx_validate env0 s = Valid /\ is_new_nft s = false /\ ~ Known_bound_foreign s.
Proof. repeat split; try (vm_compute; reflexivity). intros [_ H]. vm_compute in H. discriminate. Qed.
(* rules of the NFT branch at work: wrong id, detached Normal slip, modified amount,
   Bound slip smuggled into a Normal transaction *)
Example C01_bound_rejections :
  tx_validate env0 (mkTx TBound [nslip 5 1000 11 1 4 0]
     [oslip 5 1 SBound; oslip 6 400 SNormal; uslip 77 1 5 0; oslip 5 600 SNormal] true true true) = Invalid
  /\ tx_validate env0 (mkTx TBound [bslip 5 1 21 true 2 3 0; nslip 5 400 22 2 4 1; bslip 77 0 0 false 2 3 2]
     [oslip 5 1 SBound; oslip 6 400 SNormal; oslip 77 0 SBound] true true true) = Invalid
  /\ tx_validate env0 (mkTx TBound [bslip 5 1 21 true 2 3 0; nslip 5 400 22 2 3 1; bslip 77 0 0 false 2 3 2]
     [oslip 5 2 SBound; oslip 6 400 SNormal; oslip 77 0 SBound] true true true) = Invalid
  /\ tx_validate env0 (mkTx TNormal [nslip 5 1000 11 1 4 0]
     [oslip 5 1000 SNormal; oslip 5 99 SBound] true true true) = Invalid.
Proof. repeat split; vm_compute; reflexivity. Qed.

Print Assumptions C01_valid_user_tx_spendok.
Print Assumptions C01_valid_tx_spendok_guarded.
Print Assumptions C01_valid_tx_spendok_but_owner.
Print Assumptions C01_inputs_inside_window.
Print Assumptions C01_stake_tx_ok.
Print Assumptions C01_bound_create_ok.
Print Assumptions C01_bound_send_guarantees.
Print Assumptions C01_pool_gate.
Print Assumptions C01_pool_user_tx_spendok.
Print Assumptions C01_block_sweep_valid.
Print Assumptions C01_block_no_double_spend.
Print Assumptions C01_block_stake_tx.
Print Assumptions C01_user_tx_spendok_refuted.
Print Assumptions C01_signature_does_not_bind_inputs.
