(* C01 — Only authorised, existing, unspent outputs are ever spent.
   Statements only; proofs in proofs/TxValidProofs.v.  The model
   (model/TxValid.v) is Transaction::validate + the pool's validity gate + the
   final sweep of Block::validate, as repaired by the fix: commits listed in
   known_findings.txt.  [sl_spendable] is "the ledger holds this output as
   spendable" (C03 ties the ledger to the replay of the longest chain),
   [t_sig_ok] is the real signature check against from[0]'s key. *)
From Saito Require Import Base TxValid TxValidProofs.

(* every value-carrying input of an accepted user transaction is spendable in the
   ledger, belongs to the key whose signature authorises the transaction, is
   referenced once, and the transaction does not pay out more than it consumes
   (sums in unbounded N; inputs are real ledger amounts, far below 2^64) *)
Theorem C01_valid_user_tx_spendok : forall t,
  user_type t -> tx_validate t = Valid -> SpendOK t.
Proof. exact valid_user_spendok. Qed.

(* the pool applies the same gate and admits no producer-only transaction type *)
Theorem C01_pool_gate : forall t, pool_gate t = true ->
  t_type t <> TFee /\ t_type t <> TATR /\ t_type t <> TSPV /\ tx_validate t = Valid.
Proof. exact pool_gate_types. Qed.

Corollary C01_pool_user_tx_spendok : forall t,
  user_type t -> pool_gate t = true -> SpendOK t.
Proof. intros t Hu Hp. apply valid_user_spendok; [exact Hu|]. now destruct (pool_gate_types t Hp) as (_ & _ & _ & H). Qed.

(* block validation: every transaction of an accepted block validates ... *)
Theorem C01_block_sweep_valid : forall txs t,
  sweep [] txs = true -> In t txs -> tx_validate t = Valid.
Proof. exact (sweep_all_valid []). Qed.

(* ... and no value input is spent twice inside the block *)
Theorem C01_block_no_double_spend : forall txs,
  sweep [] txs = true -> NoDup (block_keys txs).
Proof. exact sweep_no_double_spend. Qed.

(* listed finding (type-issuance-pool): an issuance-type transaction without inputs,
   minting to anyone, passes the pool's gate on a running chain *)
Example C01_issuance_pool_refuted : exists t,
  t_type t = TIssuance /\ t_from t = [] /\ pool_gate t = true /\ 0 < nsum (map counted (t_to t)).
Proof.
  exists (mkTx TIssuance [] [mkSlip 7 123456 0 99 false] false true true).
  repeat split; vm_compute; reflexivity.
Qed.

(* non-vacuity: a two-input transfer of one owner meets the hypotheses *)
Example C01_example :
  let t := mkTx TNormal [mkSlip 5 700 0 11 true; mkSlip 5 300 0 12 true]
                        [mkSlip 6 900 0 13 false; mkSlip 5 100 0 14 false] true true true in
  user_type t /\ tx_validate t = Valid /\ sweep [] [t] = true.
Proof. repeat split; try (vm_compute; congruence); vm_compute; reflexivity. Qed.

Print Assumptions C01_valid_user_tx_spendok.
Print Assumptions C01_pool_gate.
Print Assumptions C01_pool_user_tx_spendok.
Print Assumptions C01_block_sweep_valid.
Print Assumptions C01_block_no_double_spend.
