(* C01 — Only authorised, existing, unspent outputs are ever spent.
   Statements only; proofs in proofs/TxValidProofs.v.  The model
   (model/TxValid.v) is Transaction::validate (all transaction types, including
   the BlockStake branch and the Bound / NFT branch) + the pool's validity gate +
   the final sweep of Block::validate, as they stand at /repo HEAD (9007b23).
   [sl_spendable] is "the ledger holds this output as spendable" (C03 ties the
   ledger to the replay of the longest chain; the harness also tests it against the
   block history), [t_sig_ok] is the real signature check against the key
   Transaction::signer_public_key names, [sl_unlocked] the real
   Blockchain::is_slip_unlocked.

   The property at full strength,

     forall e t, user_type t -> tx_validate e t = Valid -> SpendOK e t          (FULL)

   now HOLDS (C01_valid_user_tx_spendok): the exemption of Bound-typed transactions
   from the ownership check, which refuted it, was repaired by /repo c1271fb; the
   witnesses of that and of the other repaired defects are kept below as regression
   examples.  One listed finding remains: the signature does not say WHICH outputs
   are spent (C01_signature_does_not_bind_inputs, C01_replay_refuted). *)
From Saito Require Import Base TxValid TxValidProofs.

(* ------------------------------------------------------------------ positive *)

(* (FULL) every accepted user transaction -- Normal, GoldenTicket, Vip, BlockStake and Bound
   (NFT) alike: its signature verifies against the signing key; every input with an amount
   (Bound slips included) is spendable in the ledger and named once; every value-carrying
   (non-Bound) input belongs to the signing key and is still inside the retention window
   (block_id + genesis_period >= latest + 1); the transaction does not pay out more than it
   consumes (sums in unbounded N, Bound slips counting 0; inputs are real ledger amounts, far
   below 2^64) *)
Theorem C01_valid_user_tx_spendok : forall e t,
  user_type t -> tx_validate e t = Valid -> SpendOK e t.
Proof. exact valid_user_spendok. Qed.

(* the retention-window clause spelled out.  What remains for Bound slips: they are exempt from
   this test; of a Bound input with an amount validation establishes that the ledger holds it and
   that it is named once, of a zero-amount Bound slip nothing at all. *)
Theorem C01_inputs_inside_window : forall e t,
  user_type t -> tx_validate e t = Valid ->
  forall s, In s (t_from t) -> 0 < sl_amount s -> sl_type s <> SBound ->
  e_latest e + 1 <= sl_bid s + e_gp e.
Proof.
  intros e t Hu H s Hin Ha Hb. destruct (valid_user_spendok e t Hu H) as [_ _ _ _ Hw _ _].
  apply (Hw s Hin). unfold value_input. apply andb_true_iff. split.
  - now apply N.ltb_lt.
  - apply negb_true_iff. now apply N.eqb_neq.
Qed.

(* BlockStake transactions: SpendOK, and the staking rules: only BlockStake / Normal
   outputs, the staked total reaches the requirement (in unbounded arithmetic, also
   when the u64 sum wraps in a release build), every input is unlocked
   (is_slip_unlocked), its key is set and encodes its amount, no input (zero-amount
   ones included) is named twice *)
Theorem C01_stake_tx_ok : forall e t,
  t_type t = TStake -> tx_validate e t = Valid -> SpendOK e t /\ StakeOK e t.
Proof. exact valid_stake. Qed.

(* a new NFT: SpendOK, the NFT id written into the third output names exactly the consumed
   output, and the outputs after the three NFT slips are Normal slips *)
Theorem C01_bound_create_ok : forall e t,
  t_type t = TBound -> is_new_nft t = true -> tx_validate e t = Valid ->
  SpendOK e t /\ CreateOK t.
Proof. exact valid_bound_create. Qed.

(* a transfer of an NFT: SpendOK -- in full, ownership included -- and the shape rules: the Normal
   slip moved with the NFT is the output created right after the Bound slip in the same
   transaction (it cannot be detached or replaced), both Bound slips are re-created with the same
   key field and amount.  The signing key is the owner of that Normal slip, the HOLDER, whenever
   the slip carries coins: with a deposit an NFT moves only with its holder's signature, and every
   Normal input of the transfer is the holder's.
   What remains for NFTs WITHOUT deposit ([0 <? sl_amount f1 = false]): the Normal slip is a
   zero-amount slip the ledger never holds, so the holder is not verifiable; the signing key is
   then the key in the first Bound slip, which every transfer copies unchanged -- such an NFT
   stays under the key that minted it, whoever its Normal slip names.  No coins are involved:
   every value-carrying input of such a transfer still belongs to the signer. *)
Theorem C01_bound_send_guarantees : forall e t,
  t_type t = TBound -> is_new_nft t = false -> tx_validate e t = Valid ->
  SpendOK e t /\ SendOK e t.
Proof. exact valid_bound_send. Qed.

(* the pool applies the same gate and admits no producer-only transaction type, no issuance
   once there is a chain (/repo 716c212), no staking transaction spending outputs of another key
   than the node's (/repo 9879695) *)
Theorem C01_pool_gate : forall e t, pool_gate e t = true ->
  t_type t <> TFee /\ t_type t <> TATR /\ t_type t <> TSPV
  /\ (t_type t = TIssuance -> e_no_chain e = true)
  /\ (t_type t = TStake -> forall s, In s (t_from t) -> sl_pk s = e_node e)
  /\ tx_validate e t = Valid.
Proof. exact pool_gate_types. Qed.

Corollary C01_pool_user_tx_spendok : forall e t,
  user_type t -> pool_gate e t = true -> SpendOK e t.
Proof.
  intros e t Hu Hp. apply (valid_user_spendok e); [exact Hu|].
  now destruct (pool_gate_types e t Hp) as (_ & _ & _ & _ & _ & H).
Qed.

(* block validation: every transaction of an accepted block validates ... *)
Theorem C01_block_sweep_valid : forall e txs t,
  sweep e [] txs = true -> In t txs -> tx_validate e t = Valid.
Proof. intros e. exact (sweep_all_valid e []). Qed.

(* ... and no input with an amount -- Bound slips included since /repo 2a74b4d -- is spent twice
   inside the block *)
Theorem C01_block_no_double_spend : forall e txs,
  sweep e [] txs = true -> NoDup (block_keys txs).
Proof. exact sweep_no_double_spend. Qed.

(* where social staking is required, an accepted block after the first carries exactly one
   BlockStake transaction, and it satisfies SpendOK and the staking rules *)
Theorem C01_block_stake_tx : forall e id txs,
  block_txs_ok e id txs = true -> e_stake_req e <> 0 -> 1 < id ->
  (e_ovf e = true \/ stake_count txs < 256) ->
  stake_count txs = 1 /\
  forall t, In t txs -> t_type t = TStake -> SpendOK e t /\ StakeOK e t.
Proof. exact block_stake_tx. Qed.

(* the signed bytes carry no slip counts, but since /repo 4d27589 the hash the signature is checked
   against is taken after the outputs are renumbered by position: for transactions as validation
   sees them, equal signed bytes mean equal inputs and equal outputs -- a signed transaction cannot
   be re-split *)
Theorem C01_signed_bytes_delimited : forall t t',
  outs_numbered t = true -> outs_numbered t' = true -> t_to t <> [] -> t_to t' <> [] ->
  signed_flat t' = signed_flat t -> signed_content t' = signed_content t.
Proof. exact signed_bytes_delimited. Qed.

(* ------------------------------------------------------------------ still refuted *)

(* listed finding replayed-signature-other-output (input-location-unsigned under C06):
   the signed bytes contain public key, amount, slip_index and type of every input but
   not block_id / tx_ordinal, so [t_sig_ok] cannot depend on which output is spent.
   Whatever a key signed once validates again with its inputs replaced by other
   spendable outputs of that key of the same amount, slip index and type. *)
Theorem C01_signature_does_not_bind_inputs : forall e t t',
  t_type t <> TStake -> t_type t <> TBound ->
  signed_content t' = signed_content t ->
  t_sig_ok t' = t_sig_ok t -> t_has_hash t' = t_has_hash t -> t_path_ok t' = t_path_ok t ->
  nodupb (dup_keys t') = true ->
  forallb slip_validate (t_from t') = true ->
  age_check (e_gp e) (e_next e) (t_from t') = true ->
  tx_validate e t = Valid -> tx_validate e t' = Valid.
Proof. exact signature_does_not_bind_inputs. Qed.

Example C01_replay_refuted : exists t t',
  signed_content t' = signed_content t /\ t_sig_ok t' = t_sig_ok t
  /\ tx_validate env0 t = Valid /\ tx_validate env0 t' = Valid
  /\ value_keys t = [41] /\ value_keys t' = [42]
  /\ SpendOK env0 t'.
Proof.
  exists (mkTx TNormal [nslip 6 3000 41 1 12 0] [oslip_at 0 5 150 SNormal; oslip_at 1 6 2850 SNormal] true true true),
         (mkTx TNormal [nslip 6 3000 42 1 13 0] [oslip_at 0 5 150 SNormal; oslip_at 1 6 2850 SNormal] true true true).
  repeat (split; [vm_compute; reflexivity|]).
  apply (valid_user_spendok env0); [repeat split; vm_compute; discriminate|vm_compute; reflexivity].
Qed.

(* ------------------------------------------------------------------ regression examples
   (the witnesses that refuted the property before the repairs; now refused) *)

(* c1271fb: a foreign Normal input inside a transfer of one's own NFT *)
Example C01_bound_foreign_input_regression : refused W_foreign.
Proof. repeat split; vm_compute; reflexivity. Qed.
(* c1271fb: the creator takes back an NFT (and the holder's deposit): his own signature no longer
   counts; the same transfer signed by the holder (key 6) is the holder's legitimate transfer *)
Example C01_bound_creator_reclaims_regression :
  refused (W_reclaim false) /\ tx_validate env0 (W_reclaim true) = Valid /\ signer (W_reclaim true) = 6.
Proof. repeat split; vm_compute; reflexivity. Qed.
(* c1271fb: invented zero-amount Bound slips around an output of key 6: key 6 would have to sign *)
Example C01_bound_fabricated_triple_regression :
  refused (W_fabricated false) /\ signer (W_fabricated false) = 6.
Proof. repeat split; vm_compute; reflexivity. Qed.
(* 2a74b4d: an NFT without deposit sent twice in one block: the Bound slip (amount 1) is now seen
   by the sweep; each transfer alone is fine *)
Example C01_bound_double_spend_regression :
  let f := [bslip 5 1 21 true 2 3 0; mkSlip 5 0 SNormal 22 false 2 3 1 false 0 0 0 0; bslip 77 0 0 false 2 3 2] in
  let t1 := mkTx TBound f [oslip 5 1 SBound; oslip 5 0 SNormal; oslip 77 0 SBound] true true true in
  let t2 := mkTx TBound f [oslip 5 1 SBound; oslip 6 0 SNormal; oslip 77 0 SBound] true true true in
  sweep env0 [] [t1] = true /\ sweep env0 [] [t2] = true /\ sweep env0 [] [t1; t2] = false
  /\ tx_validate env0 (mkTx TBound (bslip 5 1 21 true 2 3 0 :: f) [oslip 5 1 SBound; oslip 5 0 SNormal; oslip 77 0 SBound] true true true) = Invalid.
Proof. repeat split; vm_compute; reflexivity. Qed.
(* 716c212: an issuance-type transaction minting to anyone is pooled only while there is no chain *)
Example C01_issuance_pool_regression :
  let t := mkTx TIssuance [] [oslip 7 123456 SNormal] false true true in
  pool_gate env0 t = false /\ pool_gate (mkEnv 0 true 0 100 1 true) t = true.
Proof. split; vm_compute; reflexivity. Qed.
(* 4d27589: key 6 signs from=[a] to=[change 2000 to itself (index 0), 150 to key 5 (index 1)]; the
   re-split from=[a; b'] to=[150 to key 5] reaches validation with its output renumbered to index 0:
   different signed bytes, so the old signature does not verify ([t_sig_ok] = false) *)
Example C01_resplit_regression :
  let t  := mkTx TNormal [nslip 6 2150 41 1 12 0] [oslip_at 0 6 2000 SNormal; oslip_at 1 5 150 SNormal] true true true in
  let t' := mkTx TNormal [nslip 6 2150 41 1 12 0; nslip 6 2000 42 1 13 0] [oslip_at 0 5 150 SNormal] false true true in
  outs_numbered t = true /\ outs_numbered t' = true /\ signed_flat t' <> signed_flat t
  /\ tx_validate env0 t = Valid /\ tx_validate env0 t' = Invalid.
Proof. repeat split; try (vm_compute; reflexivity). vm_compute. discriminate. Qed.

(* ------------------------------------------------------------------ non-vacuity *)

(* a two-input transfer of one owner *)
Example C01_example :
  let t := mkTx TNormal [nslip 5 700 11 1 0 0; nslip 5 300 12 1 1 0]
                        [oslip 6 900 SNormal; oslip 5 100 SNormal] true true true in
  user_type t /\ tx_validate env0 t = Valid /\ sweep env0 [] [t] = true.
Proof. repeat split; try (vm_compute; congruence); vm_compute; reflexivity. Qed.

(* the edge of the window: tip 9, genesis period 4; an output of block 6 can be spent in block 10,
   one of block 5 (still in the ledger: block 10 is the one that rebroadcasts it) cannot *)
Example C01_window_edge :
  let e := mkEnv 0 true 9 4 1 false in
  let tx b := mkTx TNormal [nslip 5 700 11 b 0 0] [oslip 5 700 SNormal] true true true in
  tx_validate e (tx 6) = Valid /\ tx_validate e (tx 5) = Invalid /\ tx_validate e (tx 1) = Invalid
  /\ tx_validate e (mkTx TBound [bslip 5 1 21 true 2 3 0; nslip 5 300 22 2 3 1; bslip 77 0 0 false 2 3 2]
                     [oslip 5 1 SBound; oslip 5 300 SNormal; oslip 77 0 SBound] true true true) = Invalid
  (* a peer-chosen block_id near 2^64: the sum saturates; the ledger look-up refuses it *)
  /\ tx_validate e (mkTx TNormal [mkSlip 5 700 SNormal 11 false 18446744073709551615 0 0 false 700 0 0 0]
                     [oslip 5 700 SNormal] true true true) = Invalid.
Proof. repeat split; vm_compute; reflexivity. Qed.

(* the ownership rule covers every slip type except Bound: a second input of another key that is
   an ATR (1), MinerOutput (5), RouterOutput (7) or BlockStake (8) slip is refused like a Normal one,
   also when the signer is named by a zero-amount first input *)
Example C01_foreign_typed_input_rejected :
  forallb (fun ty =>
    match tx_validate env0 (mkTx TNormal [nslip 5 700 11 1 0 0; mkSlip 6 300 ty 12 true 3 1 0 true 300 0 0 0]
                                  [oslip 5 1000 SNormal] true true true),
          tx_validate env0 (mkTx TNormal [nslip 5 0 0 0 0 0; mkSlip 6 300 ty 12 true 3 1 0 true 300 0 0 0]
                                  [oslip 5 300 SNormal] true true true),
          tx_validate env0 (mkTx TNormal [nslip 5 700 11 1 0 0; mkSlip 5 300 ty 12 true 3 1 0 true 300 0 0 0]
                                  [oslip 5 1000 SNormal] true true true)
    with Invalid, Invalid, Valid => true | _, _, _ => false end) [0; 1; 2; 3; 4; 5; 6; 7; 8] = true.
Proof. vm_compute. reflexivity. Qed.

(* a staking transaction under a requirement of 600: a Normal and an unlocked BlockStake input *)
Example C01_stake_example :
  let t := mkTx TStake [nslip 5 700 11 1 0 0; mkSlip 5 300 SStake 12 true 3 1 0 true 300 0 0 0]
                       [oslip 5 600 SStake; oslip 5 400 SNormal] true true true in
  tx_validate (mkEnv 600 true 3 100 1 false) t = Valid /\ tx_validate (mkEnv 601 true 3 100 1 false) t = Invalid.
Proof. split; vm_compute; reflexivity. Qed.
(* ... rejected when an input is locked, when the signer does not own an input, unsigned *)
Example C01_stake_rejections :
  let outs := [oslip 5 600 SStake; oslip 5 400 SNormal] in
  let e := mkEnv 600 true 3 100 1 false in
  tx_validate e
    (mkTx TStake [nslip 5 700 11 1 0 0; mkSlip 5 300 SStake 12 true 3 1 0 false 300 0 0 0] outs true true true) = Invalid
  /\ tx_validate e (mkTx TStake [nslip 5 700 11 1 0 0; nslip 6 300 12 1 1 0] outs true true true) = Invalid
  /\ tx_validate e (mkTx TStake [nslip 5 700 11 1 0 0; nslip 5 300 12 1 1 0] outs false true true) = Invalid
  /\ tx_validate env0 (mkTx TStake [] [oslip 5 600 SStake] true true true) = Invalid.
Proof. repeat split; vm_compute; reflexivity. Qed.

(* a new NFT minted from output (1, 4, 0); its transfer by the holder (with deposit: the holder,
   key 6, signs); a transfer of an NFT without deposit (the key of the first Bound slip signs) *)
Example C01_bound_examples :
  let c := mkTx TBound [nslip 5 1000 11 1 4 0]
             [oslip 5 1 SBound; oslip 6 400 SNormal; uslip 77 1 4 0; oslip 5 600 SNormal] true true true in
  let s := mkTx TBound [bslip 5 1 21 true 2 3 0; nslip 6 400 22 2 3 1; bslip 77 0 0 false 2 3 2]
             [oslip 5 1 SBound; oslip 7 400 SNormal; oslip 77 0 SBound] true true true in
  let z := mkTx TBound [bslip 5 1 21 true 2 3 0; mkSlip 6 0 SNormal 22 false 2 3 1 false 0 0 0 0; bslip 77 0 0 false 2 3 2]
             [oslip 5 1 SBound; oslip 7 0 SNormal; oslip 77 0 SBound] true true true in
  tx_validate env0 c = Valid /\ is_new_nft c = true /\ signer c = 5 /\
  tx_validate env0 s = Valid /\ is_new_nft s = false /\ signer s = 6 /\
  tx_validate env0 z = Valid /\ signer z = 5.
Proof. repeat split; vm_compute; reflexivity. Qed.
(* rules of the NFT branch at work: wrong id, detached Normal slip, modified amount,
   Bound slip smuggled into a Normal transaction, extra Bound output of a new NFT *)
Example C01_bound_rejections :
  tx_validate env0 (mkTx TBound [nslip 5 1000 11 1 4 0]
     [oslip 5 1 SBound; oslip 6 400 SNormal; uslip 77 1 5 0; oslip 5 600 SNormal] true true true) = Invalid
  /\ tx_validate env0 (mkTx TBound [bslip 5 1 21 true 2 3 0; nslip 5 400 22 2 4 1; bslip 77 0 0 false 2 3 2]
     [oslip 5 1 SBound; oslip 6 400 SNormal; oslip 77 0 SBound] true true true) = Invalid
  /\ tx_validate env0 (mkTx TBound [bslip 5 1 21 true 2 3 0; nslip 5 400 22 2 3 1; bslip 77 0 0 false 2 3 2]
     [oslip 5 2 SBound; oslip 6 400 SNormal; oslip 77 0 SBound] true true true) = Invalid
  /\ tx_validate env0 (mkTx TNormal [nslip 5 1000 11 1 4 0]
     [oslip 5 1000 SNormal; oslip 5 99 SBound] true true true) = Invalid
  /\ tx_validate env0 (mkTx TBound [nslip 5 1000 11 1 4 0]
     [oslip 5 1 SBound; oslip 6 400 SNormal; uslip 77 1 4 0; oslip 5 1000000 SBound] true true true) = Invalid.
Proof. repeat split; vm_compute; reflexivity. Qed.

Print Assumptions C01_valid_user_tx_spendok.
Print Assumptions C01_inputs_inside_window.
Print Assumptions C01_stake_tx_ok.
Print Assumptions C01_bound_create_ok.
Print Assumptions C01_bound_send_guarantees.
Print Assumptions C01_pool_gate.
Print Assumptions C01_pool_user_tx_spendok.
Print Assumptions C01_block_sweep_valid.
Print Assumptions C01_block_no_double_spend.
Print Assumptions C01_block_stake_tx.
Print Assumptions C01_signed_bytes_delimited.
Print Assumptions C01_signature_does_not_bind_inputs.
