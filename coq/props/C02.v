(* C02 — Token supply is conserved (no inflation, no silent loss).
   Only statements here; proofs are in proofs/SupplyProofs.v, proofs/CVProofs.v,
   proofs/LedgerProofs.v, witnesses in proofs/CVWitness.v.

   Model: model/CV.v (Block::generate_consensus_values), model/Supply.v (Block::create,
   Block::validate, ledger effects, Blockchain::check_total_supply), tied to the real code
   by harness/src/bin/c02.rs (every header field / rebroadcast / fee transaction of every
   block the real Block::create builds, the verdict of the real add_block and the in-window
   utxo set after it, debug and release profiles).

   The property at full strength is

     forall chain of accepted blocks,  supply = amount issued in the genesis block
     (supply = spendable in-window non-Bound outputs + treasury + graveyard + unpaid fees
               + the tip's collected fees, in unbounded N)

   and it is FALSE for the pinned code: the *_refuted theorems below exhibit blocks that the
   model's (and the real) Block::validate accepts and that change the supply; each was
   reproduced on the real node (known_findings.txt).  The positive theorems hold for every
   accepted block outside these specific, decidable classes (Known.clean):
     Known_C02_special_tx        a BlockStake / Bound / Vip / SPV transaction or a Bound slip
                                 (their fees are counted in no reservoir)
     Known_C02_nft_expiring      the block leaving the window carries Bound (NFT) outputs
                                 (the rebroadcast NFT payload is not reduced by the fee)
     Known_C02_cap_branch        the 5 % treasury cap branch of the rebroadcast section
     Known_C02_fee_tx_omitted    a payout is due but the block carries no fee transaction
     Known_C02_zero_miner        the golden ticket names the all-zero key while a share is due
     Known_C13_expired_input     a transaction spends an output older than the window
     Known_C13_rebroadcast_input_elsewhere   a rebroadcast consumes an in-window output
     Known_C13_id_jump           the block id is not the parent's id + 1 (ids are not checked)
     Known_C02_saturated         an input or output sum of 2^64 or more (saturating sums)
   "accepted" in the positive theorems means accepted with all consensus values evaluated in
   unbounded arithmetic (validate_m MInf).  For the debug profile (overflow checks) that is
   implied by acceptance in u64 arithmetic (C02_debug_accept_is_unbounded_accept); in the release
   profile a block that is accepted only because a u64 operation wrapped is outside the theorems
   (the harness runs both profiles against the model, which has every u64 operation explicit). *)
From Saito Require Import Base CV Supply Known CVProofs LedgerProofs SupplyProofs ModeProofs CVWitness.

(* one accepted block leaves the supply unchanged; for every pair of cap functions
   (x*1.5, x*0.05), every configuration *)
Theorem C02_supply_step : forall cap15 cap05 cf st b,
  Inv st -> located b ->
  validate_m cap15 cap05 cf MInf st b = Ok true ->
  clean cap15 cap05 cf st b = true ->
  supply (cf_gp cf) (wind cf st b) = supply (cf_gp cf) st.
Proof. exact supply_step. Qed.

(* with overflow checks on (debug profile) no u64 operation of the model ever returns a wrapped
   value: what the u64 validation accepts, the unbounded validation accepts ... *)
Theorem C02_debug_accept_is_unbounded_accept : forall cap15 cap05 cf st b,
  cf_dbg cf = true ->
  validate cap15 cap05 cf st b = Ok true ->
  validate_m cap15 cap05 cf MInf st b = Ok true.
Proof. exact debug_accept_is_unbounded_accept. Qed.

(* ... so for the debug profile the step theorem speaks about the validation function as it runs *)
Theorem C02_supply_step_debug : forall cap15 cap05 cf st b,
  cf_dbg cf = true -> Inv st -> located b ->
  validate cap15 cap05 cf st b = Ok true ->
  clean cap15 cap05 cf st b = true ->
  supply (cf_gp cf) (wind cf st b) = supply (cf_gp cf) st.
Proof.
  intros cap15 cap05 cf st b Hd HI Hl Hv Hc.
  exact (supply_step cap15 cap05 cf st b HI Hl (debug_accept_is_unbounded_accept _ _ _ _ _ Hd Hv) Hc).
Qed.

(* the state invariant used above is kept by every such block and holds after the genesis block *)
Theorem C02_invariant_kept : forall cap15 cap05 cf st b,
  Inv st -> located b ->
  validate_m cap15 cap05 cf MInf st b = Ok true ->
  clean cap15 cap05 cf st b = true ->
  Inv (wind cf st b).
Proof. exact inv_step. Qed.

(* by induction: after every chain of accepted blocks the supply is the amount issued in the genesis block *)
Theorem C02_supply_conserved : forall cap15 cap05 cf g st,
  genesis_ok g -> Reach cap15 cap05 cf g st ->
  supply (cf_gp cf) st = supply (cf_gp cf) (genesis_state g).
Proof. exact supply_conserved. Qed.

(* no accepted user transaction pays out more than it consumes, sums in unbounded N *)
Theorem C02_no_overflow_mint : forall cap15 cap05 cf st b t,
  validate_m cap15 cap05 cf MInf st b = Ok true ->
  In t (b_txs b) -> user_tx t = true -> plain_tx t = true -> fits t = true ->
  sumN (map s_amt (t_to t)) <= sumN (map s_amt (t_from t)).
Proof. exact no_overflow_mint. Qed.

(* the payout split distributes exactly what is due (fees of the parent, and of the grandparent
   if the parent had no golden ticket) between fee transaction, treasury and graveyard — except
   for the miner share of a golden ticket naming the zero key *)
Theorem C02_payout_split_exact : forall cap15 i gi nonfee p,
  payouts cap15 MInf i (Some gi) nonfee = Ok p ->
  fee_out_sum (p_fee_tx p) + p_treasury p + p_graveyard p + miner_lost i p = due i
  /\ exists f, p_fee_tx p = Some f /\ t_ty f = TFee /\ t_from f = [].
Proof. exact payouts_gt_inf. Qed.

(* the i128 smoothing terms stay between the old average and the new value (they never enter the supply) *)
Theorem C02_smoothing_between : forall gp prev x, 0 < gp -> prev < two64 -> x < two64 ->
  N.min prev x <= smooth gp prev x <= N.max prev x.
Proof. exact smooth_between. Qed.

(* what the node's own check guarantees: equality modulo 2^64 over the window-filtered set
   (exact in the debug profile, which panics on overflow instead) *)
Theorem C02_check_total_supply_sound_partial : forall cf u h init i,
  (forall s, In s u -> s_amt s < two64) -> hdr_u64 h -> init <> 0 ->
  check_total_supply cf u h init = Ok i ->
  i = init /\ big_node_supply cf u h mod two64 = init /\
  (cf_dbg cf = true -> big_node_supply cf u h = init).
Proof. exact check_total_supply_sound_partial. Qed.

(* ... and why that is weaker: in the release profile two ledgers 2^64 apart both pass *)
Theorem C02_check_total_supply_blind_refuted :
  let u := st_utxo s6 in let h := b_hdr b6 in
  check_total_supply cfr u h (st_init s6) = Ok (st_init s6) /\
  check_total_supply cfr (big_slip 0 :: big_slip 1 :: u) h (st_init s6) = Ok (st_init s6) /\
  big_node_supply cfr (big_slip 0 :: big_slip 1 :: u) h = big_node_supply cfr u h + two64.
Proof. exact check_blind_to_2_64. Qed.

(* ---------- the unguarded statement is false: accepted blocks that change the supply ---------- *)
Theorem C02_conservation_refuted_fee_tx_omitted :
  breaks_conservation cfw genesis [b2; b3; b4] b5_nofee
  /\ Known_C02_fee_tx_omitted c15 c05 cfw s4 b5_nofee = true.
Proof. exact fee_tx_omitted_breaks. Qed.

Theorem C02_conservation_refuted_zero_key_golden_ticket :
  breaks_conservation cfw genesis [b2; b3; b4] b5_zero
  /\ Known_C02_zero_miner c15 c05 cfw s4 b5_zero = true.
Proof. exact zero_miner_breaks. Qed.

Theorem C02_conservation_refuted_blockstake_fee :
  breaks_conservation cfw genesis [b2] b3_stake /\ Known_C02_special_tx b3_stake = true.
Proof. exact stake_fee_breaks. Qed.

Theorem C02_conservation_refuted_collected_output_spent :
  breaks_conservation cfw genesis [b2; b3; b4; b5] b6_stale /\ Known_C13_expired_input cfw b6_stale = true.
Proof. exact stale_spend_breaks. Qed.

Theorem C02_conservation_refuted_nft_rebroadcast :
  breaks_conservation cfw genesis [n2; n3; n4; n5] n6 /\ Known_C02_nft_expiring cfw t5 n6 = true.
Proof. exact nft_expiring_breaks. Qed.

(* ---------- non-vacuity: a chain of five accepted blocks with payments, fees, golden tickets,
   three rebroadcast outputs and two collected ones meets every hypothesis ---------- *)
Example C02_example_chain : genesis_ok genesis /\ Reach c15 c05 cfw genesis w6.
Proof. split; [exact genesis_is_ok | exact reach_w6]. Qed.
Example C02_example_values :
  supply 3 w6 = 3930500 /\ supply 3 (genesis_state genesis) = 3930500 /\
  h_fees_atr (b_hdr b5) = 121060 /\ h_treasury (b_hdr b5) = 50000 /\ Nlen (block_atrs (b_txs b5)) = 2.
Proof. repeat split; vm_compute; reflexivity. Qed.

Print Assumptions C02_supply_step.
Print Assumptions C02_debug_accept_is_unbounded_accept.
Print Assumptions C02_supply_step_debug.
Print Assumptions C02_invariant_kept.
Print Assumptions C02_supply_conserved.
Print Assumptions C02_no_overflow_mint.
Print Assumptions C02_payout_split_exact.
Print Assumptions C02_smoothing_between.
Print Assumptions C02_check_total_supply_sound_partial.
Print Assumptions C02_check_total_supply_blind_refuted.
Print Assumptions C02_conservation_refuted_fee_tx_omitted.
Print Assumptions C02_conservation_refuted_zero_key_golden_ticket.
Print Assumptions C02_conservation_refuted_blockstake_fee.
Print Assumptions C02_conservation_refuted_collected_output_spent.
Print Assumptions C02_conservation_refuted_nft_rebroadcast.
