(* C02 — Token supply is conserved (no inflation, no silent loss).
   Only statements here; proofs are in proofs/SupplyProofs.v, proofs/CVProofs.v,
   proofs/LedgerProofs.v, proofs/ModeProofs.v, witnesses in proofs/CVWitness.v.

   Model: model/CV.v (Block::generate_consensus_values), model/Supply.v (Block::create,
   Block::validate, ledger effects, Blockchain::check_total_supply), code as of /repo
   9007b23, tied to the real code by harness/src/bin/c02.rs (every header field /
   rebroadcast / fee transaction of every block the real Block::create builds, the verdict
   of the real add_block and the in-window utxo set after it, debug and release profiles).

   The property at full strength is

     forall chain of accepted blocks,  supply = amount issued in the genesis block
     (supply = spendable in-window non-Bound outputs + treasury + graveyard + unpaid fees
               + the tip's collected fees, in unbounded N)

   Since the repairs 60ba6d1 / b8552b5 / 1fdb9e1 / bb88717 / f640126 / 6b3137c / e1b5241 /
   5a3c1b6 / 66d7fd0 / 8712765 / 812712b the step theorem derives from Block::validate itself
   that the block id follows the parent's, that the fee transaction is carried when due, that
   the golden ticket names a real key, that no input is older than the window and that the
   rebroadcasts consume exactly the outputs that leave it; fees of every user-originated type,
   the 5 % cap branch and the saturating payout arithmetic are covered.  The witnesses of all
   defects found so far are kept as regression Examples (refused, or accepted with the supply
   unchanged); no accepted block that changes the supply is known for 9007b23.  What the
   theorems leave out (Known.clean) is scope, not a known defect:
     Known_C02_bound_or_spv   the block carries a Bound (NFT) slip or an SPV-typed transaction
     Known_C02_nft_expiring   the block leaving the window carries Bound outputs
                              (the NFT shapes are decided by Transaction::validate = the oracle
                              field t_ok of this model, property C01; replayed by the harness)
     Known_C02_saturated      an input or output sum of 2^64 or more (saturating sums), or the
                              abstract cap05 returning 2^64-1 or more for the parent's treasury
                              (impossible for the real (x as f64 * 0.05) as u64)
   "accepted" in the positive theorems means accepted with all consensus values evaluated in
   unbounded arithmetic (validate_m MInf).  That is implied by acceptance in the debug profile
   (C02_debug_accept_is_unbounded_accept); a block accepted in the release profile is accepted
   in unbounded arithmetic as well unless a u64 operation wrapped on the way
   (C02_release_accept_dichotomy). *)
From Saito Require Import Base CV Supply Known CVProofs LedgerProofs SupplyProofs ModeProofs SupplyModes CVWitness.

(* one accepted block leaves the supply unchanged; for every pair of cap functions
   (x*1.5, x*0.05), every configuration *)
Theorem C02_supply_step : forall cap15 cap05 cf st b,
  Inv st -> located b ->
  validate_m cap15 cap05 cf MInf st b = Ok true ->
  clean cap05 cf st b = true ->
  supply (cf_gp cf) (wind cf st b) = supply (cf_gp cf) st.
Proof. exact supply_step. Qed.

(* with overflow checks on (debug profile) no u64 operation of the model ever returns a wrapped
   value: what the u64 validation accepts, the unbounded validation accepts ... *)
Theorem C02_debug_accept_is_unbounded_accept : forall cap15 cap05 cf st b,
  cf_dbg cf = true ->
  validate cap15 cap05 cf st b = Ok true ->
  validate_m cap15 cap05 cf MInf st b = Ok true.
Proof. exact debug_accept_is_unbounded_accept. Qed.

(* ... so for the debug profile the step theorem speaks about the validation function as it runs *)
Theorem C02_supply_step_debug : forall cap15 cap05 cf st b,
  cf_dbg cf = true -> Inv st -> located b ->
  validate cap15 cap05 cf st b = Ok true ->
  clean cap05 cf st b = true ->
  supply (cf_gp cf) (wind cf st b) = supply (cf_gp cf) st.
Proof. exact supply_step_debug. Qed.

(* release profile: a block the wrapping validation accepts is accepted by the unbounded one too,
   or a u64 operation wrapped (the checked run of the same validation gives no verdict) *)
Theorem C02_release_accept_dichotomy : forall cap15 cap05 cf st b,
  cf_dbg cf = false ->
  validate cap15 cap05 cf st b = Ok true ->
  validate_m cap15 cap05 cf MInf st b = Ok true \/
  (forall v, validate_m cap15 cap05 cf (M64 true) st b <> Ok v).
Proof. exact release_accept_dichotomy. Qed.

(* the state invariant used above is kept by every such block and holds after the genesis block *)
Theorem C02_invariant_kept : forall cap15 cap05 cf st b,
  Inv st -> located b ->
  validate_m cap15 cap05 cf MInf st b = Ok true ->
  clean cap05 cf st b = true ->
  Inv (wind cf st b).
Proof. exact inv_step. Qed.

(* by induction: after every chain of accepted blocks the supply is the amount issued in the genesis block *)
Theorem C02_supply_conserved : forall cap15 cap05 cf g st,
  genesis_ok g -> Reach cap15 cap05 cf g st ->
  supply (cf_gp cf) st = supply (cf_gp cf) (genesis_state g).
Proof. exact supply_conserved. Qed.

(* no accepted user transaction pays out more than it consumes, sums in unbounded N *)
Theorem C02_no_overflow_mint : forall cap15 cap05 cf st b t,
  validate_m cap15 cap05 cf MInf st b = Ok true ->
  In t (b_txs b) -> user_tx t = true -> plain_tx t = true -> fits t = true ->
  sumN (map s_amt (t_to t)) <= sumN (map s_amt (t_from t)).
Proof. exact no_overflow_mint. Qed.

(* ... including the wrap-around clause: the outputs may be anything (sums of 2^64 and more,
   where the code's sums saturate); inputs below 2^64-1 suffice *)
Theorem C02_no_overflow_mint_any_outputs : forall cap15 cap05 cf st b t,
  validate_m cap15 cap05 cf MInf st b = Ok true ->
  In t (b_txs b) -> user_tx t = true -> plain_tx t = true ->
  sumN (map s_amt (t_from t)) < U64MAX ->
  sumN (map s_amt (t_to t)) <= sumN (map s_amt (t_from t)).
Proof. exact no_overflow_mint_any_outputs. Qed.

(* the payout split distributes exactly what is due (fees of the parent, and of the grandparent
   if the parent had no golden ticket) between fee transaction, treasury and graveyard; the miner
   share of a zero-key golden ticket is the only leak, and Block::validate refuses such a ticket *)
Theorem C02_payout_split_exact : forall cap15 i gi nonfee p,
  payouts cap15 MInf i (Some gi) nonfee = Ok p ->
  fee_out_sum (p_fee_tx p) + p_treasury p + p_graveyard p + miner_lost i p = due i
  /\ exists f, p_fee_tx p = Some f /\ t_ty f = TFee /\ t_from f = [].
Proof. exact payouts_gt_inf. Qed.

(* the rebroadcast section balances in both branches (multiplier / 5 % cap), saturating
   payout products and sums included:
   outputs of the rebroadcasts + collected fees = volume that left the window + treasury payout *)
Theorem C02_rebroadcast_section_balances : forall cap05 gp v i fees_new r,
  txs_no_bound (atr_etxs gp i) = true ->
  cap05 (pv i h_treasury) < U64MAX ->
  atr_section cap05 MInf gp v i fees_new = Ok r ->
  sumN (map (fun t => sumN (map s_amt (t_to t))) (r_hash r)) + r_fees r
  = sumN (map (fun it => s_amt (snd it)) (atr_items gp v i)) + r_payout r
  /\ r_rbs r = r_hash r
  /\ (forall t, In t (r_hash r) -> exists it, In it (atr_items gp v i) /\ t_from t = [snd it]).
Proof. exact atr_section_balance. Qed.

(* the i128 smoothing terms stay between the old average and the new value (they never enter the supply) *)
Theorem C02_smoothing_between : forall gp prev x, 0 < gp -> prev < two64 -> x < two64 ->
  N.min prev x <= smooth gp prev x <= N.max prev x.
Proof. exact smooth_between. Qed.

(* what the node's own check guarantees: equality modulo 2^64 over the window-filtered set
   (exact in the debug profile, which panics on overflow instead) *)
Theorem C02_check_total_supply_sound_partial : forall cf u h init i,
  (forall s, In s u -> s_amt s < two64) -> hdr_u64 h -> init <> 0 ->
  check_total_supply cf u h init = Ok i ->
  i = init /\ big_node_supply cf u h mod two64 = init /\
  (cf_dbg cf = true -> big_node_supply cf u h = init).
Proof. exact check_total_supply_sound_partial. Qed.

(* ... and why that is weaker: in the release profile two ledgers 2^64 apart both pass *)
Theorem C02_check_total_supply_blind_refuted :
  let u := st_utxo s6 in let h := b_hdr b6 in
  check_total_supply cfr u h (st_init s6) = Ok (st_init s6) /\
  check_total_supply cfr (big_slip 0 :: big_slip 1 :: u) h (st_init s6) = Ok (st_init s6) /\
  big_node_supply cfr (big_slip 0 :: big_slip 1 :: u) h = big_node_supply cfr u h + two64.
Proof. exact check_blind_to_2_64. Qed.

(* ---------- regressions: the witnesses of the repaired defects ---------- *)
Example C02_regression_fee_tx_omitted : refused cfw genesis [b2; b3; b4] b5_nofee.
Proof. exact fee_tx_omitted_refused. Qed.
Example C02_regression_zero_key_golden_ticket : refused cfw genesis [b2; b3; b4] b5_zero.
Proof. exact zero_miner_refused. Qed.
Example C02_regression_blockstake_fee : accepted_conserving cfw genesis [b2] b3_stake.
Proof. exact stake_fee_conserved. Qed.
Example C02_regression_collected_output_spent : refused cfw genesis [b2; b3; b4; b5] b6_stale.
Proof. exact stale_spend_refused. Qed.
Example C02_regression_nft_rebroadcast : accepted_conserving cfw genesis [n2; n3; n4; n5] n6.
Proof. exact nft_expiring_conserved. Qed.
Example C02_regression_stray_bound_output : refused cfw genesis [] m2.
Proof. exact stray_bound_refused. Qed.
Example C02_regression_spv_spends_bound_slip : refused cfw genesis [n2] q3.
Proof. exact spv_bound_refused. Qed.
Example C02_regression_payout_product_saturates :
  match atr_group (M64 true) (pay 1 1 [] []) 2 10 atr0 (GSingle (mkSlip 1 9223372036854775813 SNormal 1 0 0)) with
  | Ok a => a_payout a = 9223372036854775802 /\ map (fun t => map s_amt (t_to t)) (a_rbs a) = [[18446744073709551605]]
  | _ => False
  end.
Proof. exact payout_product_saturates. Qed.
Example C02_regression_payout_multiplier :
  accepted_conserving cfw hg [hb2; hb3; hb4; hb5; hb6; hb7] hb8 /\
  atr_mult 3 (the_input cfw h7 hb8) = 2 /\
  match cv_inf c15 c05 cfw h7 hb8 with Ok c => c_cap c | _ => false end = true.
Proof. exact producer_block_accepted. Qed.

(* ---------- non-vacuity: a chain of five accepted blocks with payments, fees, golden tickets,
   two rebroadcast outputs and two collected ones meets every hypothesis ---------- *)
Example C02_example_chain : genesis_ok genesis /\ Reach c15 c05 cfw genesis w6.
Proof. exact (conj genesis_is_ok reach_w6). Qed.
Example C02_example_values :
  supply 3 w6 = 3930500 /\ supply 3 (genesis_state genesis) = 3930500 /\
  h_fees_atr (b_hdr b5) = 121060 /\ h_treasury (b_hdr b5) = 50000 /\ Nlen (block_atrs (b_txs b5)) = 2.
Proof. repeat split; vm_compute; reflexivity. Qed.

Print Assumptions C02_supply_step.
Print Assumptions C02_debug_accept_is_unbounded_accept.
Print Assumptions C02_supply_step_debug.
Print Assumptions C02_release_accept_dichotomy.
Print Assumptions C02_invariant_kept.
Print Assumptions C02_supply_conserved.
Print Assumptions C02_no_overflow_mint.
Print Assumptions C02_no_overflow_mint_any_outputs.
Print Assumptions C02_payout_split_exact.
Print Assumptions C02_rebroadcast_section_balances.
Print Assumptions C02_smoothing_between.
Print Assumptions C02_check_total_supply_sound_partial.
Print Assumptions C02_check_total_supply_blind_refuted.
